import CodeLimit.Lemmas.Compose
import CodeLimit.Props.C03
import CodeLimit.Props.C05
import CodeLimit.Props.C15
import CodeLimit.Props.C16
/-!
# C05 at text level - every measurement is well-formed with respect to the SOURCE TEXT

"For any input whatsoever, each measurement has 1 <= start line <= end line <= number of lines of
the file and in-range columns, starts at the position of a code token and ends just past a code
token, carries as name the text of an identifier token lying inside its span, and has
1 <= length <= number of code-bearing lines of its span. A file's measurements are listed in
source order with pairwise distinct starts, and the file's line total is the sum of its function
lengths."

`Props/C05.lean` proves this for token lists under the hypothesis `hpos` (code tokens in strictly
increasing position order); `Props/C16.lean` proves that `lex` produces such token lists.  This
file composes the two: everything is stated for

* every shipped language `L ∈ Gen.all.map (·.2)`,
* every text `code : Str` (list of code points, newline = `10`),
* every raw lexer output `raw` satisfying the lexer contract `RawOk code raw` (the raw tokens
  tile a prefix of the text, each value is the text found at its offset) and
  `hne : ∀ t ∈ raw, t.kind ≠ 6 → t.val ≠ []` (only `Text`/`Whitespace` tokens may be empty;
  needed: `C16.hne_needed`),
* `analyze L code raw` (`_analyze_file`: `lex(lexer, code, False)` followed by
  `Scanner.scan_file`).

Vocabulary (`Lemmas/Compose.lean`): `numLines code = 1 + code.count 10`
(= `len(code.split("\n"))`, `numLines_eq_splitLines`); a raw token is a *code* raw token
(`isCodeRaw`) when it is neither whitespace nor a comment; `codeRaw raw` = the code raw tokens.
Positions of the text are offsets; `lineOf` / `colOf` (`Spec/Lex.lean`) turn an offset into the
1-based (line, column) and `locationToIndex` (`location_to_index`) turns it back.
-/
namespace CL.C05text
open CL.Compose

variable {code : Str} {raw : List RawTok}

/-! ## 0. the code tokens of a lexed text -/

/-- `len(code.split("\n"))` is one more than the number of newline characters -/
theorem numLines_eq_splitLines (code : Str) : (splitLines code).length = numLines code :=
  splitLines_length code

/-- the code tokens `scan_file` works on (`filter_tokens` applied to the output of
`lex(lexer, code, False)`) are the tokens `lex(lexer, code, True)` would have produced -/
theorem code_tokens_eq_lex (code : Str) (raw : List RawTok) :
    filterTokens false (lex code raw false) = lex code raw true := by
  unfold lex filterTokens
  rw [List.filter_filter]
  apply List.filter_congr
  intro t _
  cases t.isWhitespace <;> cases t.isComment <;> rfl

/-- ... and these are exactly the code raw tokens, each placed at the line and column of its
offset -/
theorem code_tokens_placed (h : RawOk code raw) :
    filterTokens false (lex code raw false) = (codeRaw raw).map (tokAt code) := by
  rw [code_tokens_eq_lex, C16.lex_eq h true]
  congr 1
  apply List.filter_congr
  intro r _
  exact keepTok_tokAt code r

/-- the code raw tokens lie in the text at strictly increasing offsets -/
theorem code_raw_sorted (h : RawOk code raw) (hne : ∀ t ∈ raw, t.kind ≠ 6 → t.val ≠ []) :
    (codeRaw raw).Pairwise (fun r r' => r.off < r'.off ∧ r'.off ≤ code.length) := by
  have := kept_raw h hne true
  have e : raw.filter (fun r => keepTok (!true) (tokAt code r)) = codeRaw raw := by
    apply List.filter_congr
    intro r _
    exact keepTok_tokAt code r
  rwa [e] at this

/-- The code tokens of a lexed text satisfy the hypotheses of the token-level theorems of
`Props/C05.lean`: strictly increasing (line, column) positions, and non-empty texts. -/
theorem code_tokens_ordered (h : RawOk code raw) (hne : ∀ t ∈ raw, t.kind ≠ 6 → t.val ≠ []) :
    (filterTokens false (lex code raw false)).Pairwise
        (fun a b => a.line < b.line ∨ (a.line = b.line ∧ a.col < b.col)) ∧
      ∀ t ∈ filterTokens false (lex code raw false), t.val ≠ [] := by
  constructor
  · rw [code_tokens_eq_lex]
    exact C16.kept_strictly_increasing h hne true
  · rw [code_tokens_placed h]
    intro t ht
    obtain ⟨r, hr, rfl⟩ := List.mem_map.1 ht
    obtain ⟨hr1, hr2⟩ := List.mem_filter.1 hr
    have := keepTok_nonempty (kc := false) (code := code) (hne r hr1)
      (by rw [keepTok_tokAt]; exact hr2)
    exact List.length_pos_iff.1 this

/-! ## 1. analysing never raises; the line total -/

/-- Analysing any text with any lexer output returns a list of measurements and a line total,
and the total is the sum of the function lengths.  (No hypothesis on `raw` at all.) -/
theorem analyze_text_total (L : Language) (hL : L ∈ Gen.all.map (·.2)) (code : Str)
    (raw : List RawTok) :
    ∃ ms n, analyze L code raw = .ok (ms, n) ∧ n = (ms.map (·.len)).sum := by
  obtain ⟨⟨ms, n⟩, hr⟩ := C03.analyze_total L hL code raw
  exact ⟨ms, n, hr, C05.total_is_sum L code raw ms n hr⟩

/-! ## 2. each measurement, in terms of the text -/

/-- THE per-measurement clause at text level.  For every measurement `m` of the file there are
raw lexer tokens `ri` (first token of the span), `rj` (last token of the span) and `rk` (the
name), all three code tokens of the text, with `ri.off ≤ rk.off ≤ rj.off`, such that

* `m` starts at the position of `ri`: `(m.sl, m.sc)` is the (line, column) of offset `ri.off`, and
  `location_to_index` maps it back to `ri.off`;
* `m` ends just past `rj`: `(m.el, m.ec)` is the (line, column) of offset `rj.off + |rj.val|`
  (which is inside the text or its end), and `location_to_index` maps it back to that offset;
* `m.name` is the text of `rk`, a token of class `Name`, and that text occurs in `code` at
  offset `rk.off`, i.e. inside `[ri.off, rj.off + |rj.val|)`;
* `1 ≤ m.len ≤` the number of distinct lines on which the code tokens lying in
  `[ri.off, rj.off]` start (the "code-bearing lines of the span"). -/
theorem measurement_text_wf (L : Language) (hL : L ∈ Gen.all.map (·.2)) (code : Str)
    (raw : List RawTok) (h : RawOk code raw) (hne : ∀ t ∈ raw, t.kind ≠ 6 → t.val ≠ [])
    (ms : List Measurement) (n : Nat) (ha : analyze L code raw = .ok (ms, n)) :
    ∀ m ∈ ms, ∃ ri rj rk, ri ∈ raw ∧ rj ∈ raw ∧ rk ∈ raw ∧
      isCodeRaw ri = true ∧ isCodeRaw rj = true ∧ isCodeRaw rk = true ∧ rk.kind = 2 ∧
      ri.off ≤ rk.off ∧ rk.off ≤ rj.off ∧ rj.off + rj.val.length ≤ code.length ∧
      (m.sl, m.sc) = (lineOf code ri.off, colOf code ri.off) ∧
      locationToIndex code m.sl m.sc = .ok ri.off ∧
      (m.el, m.ec) =
        (lineOf code (rj.off + rj.val.length), colOf code (rj.off + rj.val.length)) ∧
      locationToIndex code m.el m.ec = .ok (rj.off + rj.val.length) ∧
      m.name = rk.val ∧ (code.drop rk.off).take m.name.length = m.name ∧
      rk.off + m.name.length ≤ rj.off + rj.val.length ∧
      1 ≤ m.len ∧
      m.len ≤ countDistinct
        (((codeRaw raw).filter (fun r => decide (ri.off ≤ r.off ∧ r.off ≤ rj.off))).map
          (fun r => lineOf code r.off)) := by
  intro m hm
  have hscan := analyze_scan ha
  obtain ⟨hpos, _⟩ := code_tokens_ordered h hne
  obtain ⟨i, j, k, hik, hkj, hjl, ⟨ti, hti, hs⟩, ⟨tj, htj, he⟩, ⟨tk, htk, hname, hnm⟩, h1, h2⟩ :=
    C05.measurement_wf L hL (lex code raw false) ms hpos hscan m hm
  rw [code_tokens_placed h] at hti htj htk h2
  have hsorted := code_raw_sorted h hne
  -- the raw tokens behind the three code tokens
  have back : ∀ {x : Nat} {t : Tok}, ((codeRaw raw).map (tokAt code))[x]? = some t →
      ∃ r, (codeRaw raw)[x]? = some r ∧ t = tokAt code r ∧ r ∈ raw ∧ isCodeRaw r = true := by
    intro x t hx
    rw [List.getElem?_map, Option.map_eq_some_iff] at hx
    obtain ⟨r, hr, rfl⟩ := hx
    have hmem := List.mem_of_getElem? hr
    exact ⟨r, hr, rfl, (List.mem_filter.1 hmem).1, (List.mem_filter.1 hmem).2⟩
  obtain ⟨ri, hri, rfl, hrir, hric⟩ := back hti
  obtain ⟨rj, hrj, rfl, hrjr, hrjc⟩ := back htj
  obtain ⟨rk, hrk, rfl, hrkr, hrkc⟩ := back htk
  -- offsets follow indices
  have hoff : ∀ {x y : Nat} {r r' : RawTok}, (codeRaw raw)[x]? = some r →
      (codeRaw raw)[y]? = some r' → x ≤ y → r.off ≤ r'.off := by
    intro x y r r' hx hy hxy
    obtain ⟨hxl, rfl⟩ := List.getElem?_eq_some_iff.1 hx
    obtain ⟨hyl, rfl⟩ := List.getElem?_eq_some_iff.1 hy
    rcases Nat.lt_or_eq_of_le hxy with hlt | rfl
    · exact Nat.le_of_lt (List.pairwise_iff_getElem.1 hsorted x y hxl hyl hlt).1
    · exact Nat.le_refl _
  -- the texts
  obtain ⟨_, hjb, hjt⟩ := RawOkFrom.text (pre := []) h rfl rj hrjr
  obtain ⟨_, hkb, hkt⟩ := RawOkFrom.text (pre := []) h rfl rk hrkr
  obtain ⟨_, hib, _⟩ := RawOkFrom.text (pre := []) h rfl ri hrir
  simp only [List.nil_append] at hjb hjt hkb hkt hib
  have hend := endPos_tokAt code rj hjt
  rw [hend] at he
  have hkind : rk.kind = 2 := by simpa [Tok.isName, tokAt] using hname
  have hnm' : m.name = rk.val := hnm
  -- the name token ends inside the span: it ends at or before the start of the next code
  -- token, or it is the last token
  have hkend : rk.off + rk.val.length ≤ rj.off + rj.val.length := by
    rcases Nat.lt_or_eq_of_le hkj with hlt | heq
    · obtain ⟨hkl, hk'⟩ := List.getElem?_eq_some_iff.1 hrk
      obtain ⟨hjl', hj'⟩ := List.getElem?_eq_some_iff.1 hrj
      have hsub : (codeRaw raw).Sublist raw := List.filter_sublist
      have hpw := (RawOkFrom.pairwise h).sublist hsub
      have := List.pairwise_iff_getElem.1 hpw k j hkl hjl' hlt
      rw [hk', hj'] at this
      omega
    · subst heq
      rw [hrk] at hrj; cases hrj
      exact Nat.le_refl _
  refine ⟨ri, rj, rk, hrir, hrjr, hrkr, hric, hrjc, hrkc, hkind, hoff hri hrk hik,
    hoff hrk hrj hkj, hjb, hs, ?_, he, ?_, hnm', ?_, ?_, h1, ?_⟩
  · have := Prod.mk.inj hs
    rw [this.1, this.2]
    exact locationToIndex_lineOf_colOf code ri.off (by omega)
  · have := Prod.mk.inj he
    rw [this.1, this.2]
    exact locationToIndex_lineOf_colOf code _ hjb
  · rw [hnm']; exact hkt
  · rw [hnm']; exact hkend
  · have hspan := drop_take_eq_filter (fun r : RawTok => r.off) (codeRaw raw)
      (hsorted.imp (fun hab => hab.1)) hri hrj (Nat.le_trans hik hkj)
    rw [← List.map_drop, ← List.map_take, List.map_map, hspan] at h2
    exact h2

/-- Lines and columns of a measurement are in range for the text: with `ls` / `le` the
`m.sl`-th / `m.el`-th line of `code.split("\n")` (both exist),

* `1 ≤ m.sl ≤ m.el ≤ numLines code`, and the start lies strictly before the end;
* `1 ≤ m.sc ≤ |ls| + 1` and `1 ≤ m.ec ≤ |le| + 1`;
* the start column points at the first character `c` of the first token of the span; unless
  that character is a newline, `m.sc ≤ |ls|` and the `m.sc`-th character of the line `ls` is
  `c`; if it is a newline, `m.sc = |ls| + 1` (see `start_column_past_line`: the model does not
  exclude a `Name`/keyword token whose text starts with a newline - Pygments never produces one). -/
theorem measurement_lines_columns (L : Language) (hL : L ∈ Gen.all.map (·.2)) (code : Str)
    (raw : List RawTok) (h : RawOk code raw) (hne : ∀ t ∈ raw, t.kind ≠ 6 → t.val ≠ [])
    (ms : List Measurement) (n : Nat) (ha : analyze L code raw = .ok (ms, n)) :
    ∀ m ∈ ms, 1 ≤ m.sl ∧ m.sl ≤ m.el ∧ m.el ≤ numLines code ∧
      (m.sl < m.el ∨ (m.sl = m.el ∧ m.sc < m.ec)) ∧
      ∃ ls le o c, (splitLines code)[m.sl - 1]? = some ls ∧ (splitLines code)[m.el - 1]? = some le ∧
        1 ≤ m.sc ∧ m.sc ≤ ls.length + 1 ∧ 1 ≤ m.ec ∧ m.ec ≤ le.length + 1 ∧
        locationToIndex code m.sl m.sc = .ok o ∧ code[o]? = some c ∧
        (c ≠ 10 → m.sc ≤ ls.length ∧ ls[m.sc - 1]? = some c) ∧
        (c = 10 → m.sc = ls.length + 1) := by
  intro m hm
  obtain ⟨ri, rj, rk, hrir, hrjr, _, hric, _, _, _, _, _, hjb, hs, hsi, he, _, _⟩ :=
    measurement_text_wf L hL code raw h hne ms n ha m hm
  obtain ⟨hpos, hval⟩ := code_tokens_ordered h hne
  have hlo := C05.line_order L hL (lex code raw false) ms hpos hval (analyze_scan ha) m hm
  obtain ⟨hs1, hs2⟩ := Prod.mk.inj hs
  obtain ⟨he1, he2⟩ := Prod.mk.inj he
  -- the first token is not empty, so its first character exists
  obtain ⟨_, hib, _⟩ := RawOkFrom.text (pre := []) h rfl ri hrir
  simp only [List.nil_append] at hib
  have hipos : 0 < ri.val.length :=
    keepTok_nonempty (kc := false) (code := code) (hne ri hrir) (by rw [keepTok_tokAt]; exact hric)
  have hilt : ri.off < code.length := by omega
  obtain ⟨ls, hls, hc1, hc2, hc3, hc4, _⟩ := col_in_line code ri.off (Nat.le_of_lt hilt)
  obtain ⟨le, hle, hd1, hd2, _⟩ := col_in_line code (rj.off + rj.val.length) hjb
  refine ⟨by rw [hs1]; simp [lineOf], hlo.2, by rw [he1]; exact lineOf_le_numLines _ _, hlo.1,
    ls, le, ri.off, code[ri.off], by rw [hs1]; exact hls, by rw [he1]; exact hle,
    by rw [hs2]; exact hc1, by rw [hs2]; exact hc2, by rw [he2]; exact hd1,
    by rw [he2]; exact hd2, hsi, by simp [hilt], ?_, ?_⟩
  · intro hc
    rw [hs2]
    exact hc3 _ (by simp [hilt]) hc
  · intro hc
    rw [hs2]
    exact hc4 _ (by simp [hilt]) hc

/-! ## 3. order of the measurements -/

/-- A file's measurements are listed in source order with pairwise distinct starts: start
positions (line, column) are strictly increasing along the list. -/
theorem source_order_text (L : Language) (hL : L ∈ Gen.all.map (·.2)) (code : Str)
    (raw : List RawTok) (h : RawOk code raw) (hne : ∀ t ∈ raw, t.kind ≠ 6 → t.val ≠ [])
    (ms : List Measurement) (n : Nat) (ha : analyze L code raw = .ok (ms, n)) :
    ms.Pairwise (fun a b => a.sl < b.sl ∨ (a.sl = b.sl ∧ a.sc < b.sc)) :=
  C05.source_order L hL (lex code raw false) ms (code_tokens_ordered h hne).1 (analyze_scan ha)

/-- ... equivalently, in offsets: the start offsets (`location_to_index` of the reported start)
are strictly increasing along the list -/
theorem source_order_offsets (L : Language) (hL : L ∈ Gen.all.map (·.2)) (code : Str)
    (raw : List RawTok) (h : RawOk code raw) (hne : ∀ t ∈ raw, t.kind ≠ 6 → t.val ≠ [])
    (ms : List Measurement) (n : Nat) (ha : analyze L code raw = .ok (ms, n)) :
    ms.Pairwise (fun a b => ∃ oa ob, locationToIndex code a.sl a.sc = .ok oa ∧
      locationToIndex code b.sl b.sc = .ok ob ∧ oa < ob) := by
  have hord := source_order_text L hL code raw h hne ms n ha
  refine hord.imp_of_mem ?_
  intro a b hma hmb hab
  obtain ⟨ri, _, _, hrir, _, _, _, _, _, _, _, _, _, hsa, hia, _⟩ :=
    measurement_text_wf L hL code raw h hne ms n ha a hma
  obtain ⟨ri', _, _, hrir', _, _, _, _, _, _, _, _, _, hsb, hib, _⟩ :=
    measurement_text_wf L hL code raw h hne ms n ha b hmb
  refine ⟨ri.off, ri'.off, hia, hib, ?_⟩
  obtain ⟨ha1, ha2⟩ := Prod.mk.inj hsa
  obtain ⟨hb1, hb2⟩ := Prod.mk.inj hsb
  obtain ⟨_, hb, _⟩ := RawOkFrom.text (pre := []) h rfl ri hrir
  simp only [List.nil_append] at hb
  -- positions are strictly monotone in the offset, so a smaller position is a smaller offset
  rcases Nat.lt_trichotomy ri.off ri'.off with hlt | heq | hgt
  · exact hlt
  · rw [ha1, ha2, hb1, hb2, heq] at hab; omega
  · have := posLt_of_lt code ri'.off ri.off hgt (by omega)
    unfold PosLt at this
    rw [ha1, ha2, hb1, hb2] at hab; omega

/-! ## 4. the strict column bound needs the first character not to be a newline -/

/-- the text `"\nf(){}"` lexed (by a hypothetical lexer) into a `Name` token `"\nf"` followed by
`(`, `)`, `{`, `}` -/
def nlCode : Str := [10, 102, 40, 41, 123, 125]
def nlRaw : List RawTok :=
  [⟨0, 2, 2, [10, 102]⟩, ⟨2, 3, 3, [40]⟩, ⟨3, 3, 3, [41]⟩, ⟨4, 3, 3, [123]⟩, ⟨5, 3, 3, [125]⟩]

/-- `m.sc ≤ |ls|` (the start column points at a character of its line) cannot be proved without
assuming that the first token of a function header does not start with a newline character: the
model accepts a `Name` token whose text starts with a newline; the reported start is then the
position of that newline, one past the end of line 1 (here: column 1 of the empty line 1).
Pygments never puts a newline into a `Name` or keyword token, so this is a limitation of the
lexer contract, not a defect of the program. -/
theorem start_column_past_line :
    ∃ (L : Language) (code : Str) (raw : List RawTok) (ms : List Measurement) (n : Nat),
      L ∈ Gen.all.map (·.2) ∧ RawOk code raw ∧ (∀ t ∈ raw, t.kind ≠ 6 → t.val ≠ []) ∧
      analyze L code raw = .ok (ms, n) ∧
      ∃ m ∈ ms, ∃ ls, (splitLines code)[m.sl - 1]? = some ls ∧ ¬ m.sc ≤ ls.length := by
  refine ⟨Gen.c, nlCode, nlRaw, [⟨[10, 102], 1, 1, 2, 6, 2⟩], 2, by simp [Gen.all], by decide,
    by decide, analyze_eval (by decide +kernel) rfl, _, List.mem_cons_self .., [], by decide,
    by decide⟩

/-! ## 4a. the strict column bound under the realistic lexer hypothesis -/

/-- every shipped header pattern starts with a keyword or a name token (checked on the generated
patterns) -/
theorem shipped_firstKindOK : ∀ L ∈ Gen.all.map (·.2), ∀ hp ∈ L.pats,
    (match compileTok hp.expr with | .ok D => firstKindOK D | .error _ => false) = true := by
  decide +kernel

/-- (`_partial`: the statement without `hnk` is false of the model, `start_column_past_line`; the
extra hypothesis is the clause `NamesStartInLine` of the lexer contract, `Spec/Scan.lean`.)
The start column points at a character of its line, `1 ≤ m.sc ≤ |ls|`, and that character is
the first character of the header's first token - under the additional lexer hypothesis `hnk`
that no keyword or name token starts with a newline character (true of every Pygments lexer;
`start_column_past_line` shows that the model needs it).  Uses: every measurement starts at the
first token of an extracted header, and every shipped header pattern starts with a keyword or a
name token. -/
theorem start_column_in_line_partial (L : Language) (hL : L ∈ Gen.all.map (·.2)) (code : Str)
    (raw : List RawTok) (h : RawOk code raw) (hne : ∀ t ∈ raw, t.kind ≠ 6 → t.val ≠ [])
    (hnk : NamesStartInLine raw)
    (ms : List Measurement) (n : Nat) (ha : analyze L code raw = .ok (ms, n)) :
    ∀ m ∈ ms, ∃ ls o c, (splitLines code)[m.sl - 1]? = some ls ∧ 1 ≤ m.sc ∧ m.sc ≤ ls.length ∧
      locationToIndex code m.sl m.sc = .ok o ∧ code[o]? = some c ∧ ls[m.sc - 1]? = some c := by
  intro m hm
  obtain ⟨hs, hd, first, hhs, hhd, hfirst, hpos, _⟩ :=
    measurement_from_header L hL (lex code raw false) (analyze_scan ha) m hm
  obtain ⟨hp, hhp, D, hD, hg, _⟩ := C15.extractHeaders_greedy L hL _ hs hhs hd hhd
  have hfk := shipped_firstKindOK L hL hp hhp
  rw [hD] at hfk
  obtain ⟨t, ht, hkind⟩ := greedy_first_kind hfk hg
  rw [hfirst] at ht; cases ht
  -- the raw token behind the first token
  rw [code_tokens_placed h, List.getElem?_map, Option.map_eq_some_iff] at hfirst
  obtain ⟨ri, hri, rfl⟩ := hfirst
  have hmem := List.mem_of_getElem? hri
  obtain ⟨hrir, hric⟩ := List.mem_filter.1 hmem
  obtain ⟨_, hib, hit⟩ := RawOkFrom.text (pre := []) h rfl ri hrir
  simp only [List.nil_append] at hib hit
  have hipos : 0 < ri.val.length :=
    keepTok_nonempty (kc := false) (code := code) (hne ri hrir) (by rw [keepTok_tokAt]; exact hric)
  have hilt : ri.off < code.length := by omega
  -- its first character is the character of the text at its offset, and it is not a newline
  have hhead : ri.val.head? = some code[ri.off] := by
    rw [← hit, List.head?_take, if_neg (by omega), List.head?_drop]
    simp [hilt]
  have hc : code[ri.off] ≠ 10 := by
    have := hnk ri hrir (by simpa [tokAt] using hkind)
    rw [hhead] at this
    exact fun e => this (by rw [e])
  obtain ⟨ls, hls, hc1, _, hc3, _⟩ := col_in_line code ri.off (Nat.le_of_lt hilt)
  obtain ⟨hs1, hs2⟩ := Prod.mk.inj hpos
  have hsl : m.sl = lineOf code ri.off := hs1
  have hsc : m.sc = colOf code ri.off := hs2
  obtain ⟨h3a, h3b⟩ := hc3 _ (by simp [hilt]) hc
  refine ⟨ls, ri.off, code[ri.off], by rw [hsl]; exact hls, by rw [hsc]; exact hc1,
    by rw [hsc]; exact h3a, ?_, by simp [hilt], by rw [hsc]; exact h3b⟩
  rw [hsl, hsc]
  exact locationToIndex_lineOf_colOf code ri.off (Nat.le_of_lt hilt)

/-! ## 4b. the whole per-measurement clause of C05, as one predicate on the text -/

/-- **the per-measurement clause of C05 for a text and its lexer output**, everything at once:
`m` starts at the (line, column) of a code token `ri` and ends just past a code token `rj`
(`location_to_index` maps both positions back to the offsets); lines are within `1 … numLines`,
the start lies strictly before the end; the start column points AT a character of its line
(`1 ≤ sc ≤ |line|`), the end column at most one past the end of its line; the name is the text of
a `Name` token `rk` that lies inside the span; and `1 ≤ len ≤` the number of distinct lines on
which the code tokens of the span begin. -/
def MeasurementTextWF (code : Str) (raw : List RawTok) (m : Measurement) : Prop :=
  ∃ ri rj rk ls le, ri ∈ raw ∧ rj ∈ raw ∧ rk ∈ raw ∧
    isCodeRaw ri = true ∧ isCodeRaw rj = true ∧ isCodeRaw rk = true ∧ rk.kind = 2 ∧
    ri.off ≤ rk.off ∧ rk.off ≤ rj.off ∧ rj.off + rj.val.length ≤ code.length ∧
    locationToIndex code m.sl m.sc = .ok ri.off ∧
    locationToIndex code m.el m.ec = .ok (rj.off + rj.val.length) ∧
    1 ≤ m.sl ∧ m.sl ≤ m.el ∧ m.el ≤ numLines code ∧ (m.sl < m.el ∨ (m.sl = m.el ∧ m.sc < m.ec)) ∧
    (splitLines code)[m.sl - 1]? = some ls ∧ (splitLines code)[m.el - 1]? = some le ∧
    1 ≤ m.sc ∧ m.sc ≤ ls.length ∧ 1 ≤ m.ec ∧ m.ec ≤ le.length + 1 ∧
    m.name = rk.val ∧ (code.drop rk.off).take m.name.length = m.name ∧
    rk.off + m.name.length ≤ rj.off + rj.val.length ∧
    1 ≤ m.len ∧
    m.len ≤ countDistinct
      (((codeRaw raw).filter (fun r => decide (ri.off ≤ r.off ∧ r.off ≤ rj.off))).map
        (fun r => lineOf code r.off))

/-- **C05, per measurement, at text level, in one statement**: under the lexer contract (`RawOk`,
only `Text` tokens empty, no keyword / name token starting with a newline) every measurement of
every text in every shipped language satisfies `MeasurementTextWF`. -/
theorem measurement_text_clause (L : Language) (hL : L ∈ Gen.all.map (·.2)) (code : Str)
    (raw : List RawTok) (h : RawOk code raw) (hne : ∀ t ∈ raw, t.kind ≠ 6 → t.val ≠ [])
    (hnk : NamesStartInLine raw)
    (ms : List Measurement) (n : Nat) (ha : analyze L code raw = .ok (ms, n)) :
    ∀ m ∈ ms, MeasurementTextWF code raw m := by
  intro m hm
  obtain ⟨ri, rj, rk, h1, h2, h3, h4, h5, h6, h7, h8, h9, h10, _, h12, _, h14, h15, h16, h17, h18, h19⟩ :=
    measurement_text_wf L hL code raw h hne ms n ha m hm
  obtain ⟨g1, g2, g3, g4, ls, le, _, _, gls, gle, _, _, g7, g8, _⟩ :=
    measurement_lines_columns L hL code raw h hne ms n ha m hm
  obtain ⟨ls', _, _, f1, f2, f3, _⟩ := start_column_in_line_partial L hL code raw h hne hnk ms n ha m hm
  rw [gls] at f1
  cases f1
  exact ⟨ri, rj, rk, ls, le, h1, h2, h3, h4, h5, h6, h7, h8, h9, h10, h12, h14, g1, g2, g3, g4, gls, gle,
    f2, f3, g7, g8, h15, h16, h17, h18, h19⟩

/-! ## 5. non-vacuity -/

/-- the C text
```
int f(int a) {
  return g(a); // c
}
```
-/
def cCode : Str :=
  [105, 110, 116, 32, 102, 40, 105, 110, 116, 32, 97, 41, 32, 123, 10, 32, 32, 114, 101, 116, 117,
   114, 110, 32, 103, 40, 97, 41, 59, 32, 47, 47, 32, 99, 10, 125, 10]

/-- its raw tokens `(offset, class, type, text)` -/
def cRaw : List RawTok :=
  [⟨0, 1, 1, [105, 110, 116]⟩, ⟨3, 6, 6, [32]⟩, ⟨4, 2, 2, [102]⟩, ⟨5, 3, 3, [40]⟩,
   ⟨6, 1, 1, [105, 110, 116]⟩, ⟨9, 6, 6, [32]⟩, ⟨10, 2, 2, [97]⟩, ⟨11, 3, 3, [41]⟩, ⟨12, 6, 6, [32]⟩,
   ⟨13, 3, 3, [123]⟩, ⟨14, 6, 6, [10]⟩, ⟨15, 6, 6, [32, 32]⟩,
   ⟨17, 1, 1, [114, 101, 116, 117, 114, 110]⟩, ⟨23, 6, 6, [32]⟩, ⟨24, 2, 2, [103]⟩, ⟨25, 3, 3, [40]⟩,
   ⟨26, 2, 2, [97]⟩, ⟨27, 3, 3, [41]⟩, ⟨28, 3, 3, [59]⟩, ⟨29, 6, 6, [32]⟩,
   ⟨30, 5, 5, [47, 47, 32, 99]⟩, ⟨34, 6, 6, [10]⟩, ⟨35, 3, 3, [125]⟩, ⟨36, 6, 6, [10]⟩]

/-- the Python text (no trailing newline; the doc string is one multi-line token)
```
def f():
  """a
  b"""
```
-/
def pyCode : Str :=
  [100, 101, 102, 32, 102, 40, 41, 58, 10, 32, 32, 34, 34, 34, 97, 10, 32, 32, 98, 34, 34, 34]

def pyRaw : List RawTok :=
  [⟨0, 1, 1, [100, 101, 102]⟩, ⟨3, 6, 6, [32]⟩, ⟨4, 2, 2, [102]⟩, ⟨5, 3, 3, [40]⟩, ⟨6, 3, 3, [41]⟩,
   ⟨7, 3, 3, [58]⟩, ⟨8, 6, 6, [10]⟩, ⟨9, 6, 6, [32, 32]⟩,
   ⟨11, 7, 7, [34, 34, 34, 97, 10, 32, 32, 98, 34, 34, 34]⟩]

/-- C: the hypotheses hold, one function `f` is measured 1:5 - 3:2 with length 3, and the
conclusions of the theorems above hold for it: the start is offset 4 (the `Name` token `f`), the
end is offset 36 (just past `}`), the text has 4 lines -/
example :
    let ms : List Measurement := [⟨[102], 1, 5, 3, 2, 3⟩]
    Gen.c ∈ Gen.all.map (·.2) ∧ RawOk cCode cRaw ∧ (∀ t ∈ cRaw, t.kind ≠ 6 → t.val ≠ []) ∧
    analyze Gen.c cCode cRaw = .ok (ms, 3) ∧ numLines cCode = 4 ∧
    locationToIndex cCode 1 5 = .ok 4 ∧ locationToIndex cCode 3 2 = .ok 36 ∧
    (∀ r ∈ cRaw, r.kind = 1 ∨ r.kind = 2 → r.val.head? ≠ some 10) ∧
    (∀ m ∈ ms, 1 ≤ m.sl ∧ m.sl ≤ m.el ∧ m.el ≤ numLines cCode) ∧
    (∀ m ∈ ms, ∃ ls, (splitLines cCode)[m.sl - 1]? = some ls ∧ 1 ≤ m.sc ∧ m.sc ≤ ls.length) := by
  have hL : Gen.c ∈ Gen.all.map (·.2) := by simp [Gen.all]
  have hok : RawOk cCode cRaw := by decide
  have hne : ∀ t ∈ cRaw, t.kind ≠ 6 → t.val ≠ [] := by decide
  have ha : analyze Gen.c cCode cRaw = .ok ([⟨[102], 1, 5, 3, 2, 3⟩], 3) :=
    analyze_eval (by decide +kernel) rfl
  have hnk : NamesStartInLine cRaw := by decide
  refine ⟨hL, hok, hne, ha, by decide, by decide, by decide, hnk, ?_, ?_⟩
  · intro m hm
    obtain ⟨h1, h2, h3, _⟩ := measurement_lines_columns Gen.c hL cCode cRaw hok hne _ _ ha m hm
    exact ⟨h1, h2, h3⟩
  · intro m hm
    obtain ⟨ls, _, _, h1, h2, h3, _⟩ :=
      start_column_in_line_partial Gen.c hL cCode cRaw hok hne hnk _ _ ha m hm
    exact ⟨ls, h1, h2, h3⟩

/-- Python: the function ends inside a multi-line token: 1:1 - 3:7, offset 22 = end of text;
its length 2 is the number of lines on which its code tokens START (lines 1 and 2) -/
example :
    let ms : List Measurement := [⟨[102], 1, 1, 3, 7, 2⟩]
    Gen.python ∈ Gen.all.map (·.2) ∧ RawOk pyCode pyRaw ∧
    (∀ t ∈ pyRaw, t.kind ≠ 6 → t.val ≠ []) ∧
    analyze Gen.python pyCode pyRaw = .ok (ms, 2) ∧ numLines pyCode = 3 ∧
    locationToIndex pyCode 3 7 = .ok 22 ∧ pyCode.length = 22 ∧
    countDistinct (((codeRaw pyRaw).filter (fun r => decide (0 ≤ r.off ∧ r.off ≤ 11))).map
      (fun r => lineOf pyCode r.off)) = 2 := by
  refine ⟨by simp [Gen.all], by decide, by decide, analyze_eval (by decide +kernel) rfl,
    by decide, by decide, by decide, by decide⟩

end CL.C05text
