import CodeLimit.Lemmas.PyLayoutFacts
import CodeLimit.Lemmas.PyLayoutExamples
/-!
# C01, stage C: Python - from indentation to the report

"... the analysis reports each named function exactly once, under its own name, with a span
that starts at its header's first token and ends just past its body's last token ...  The
reported length equals the number of distinct physical lines on which at least one
non-comment, non-whitespace token of that function begins, not counting tokens of nested
reported functions."

For Python the body of a function is its *suite*, found from indentation by
`Python.extract_blocks`.  `CodeLimit/Spec/PyLayout.lean` describes a conventionally indented
Python file without mentioning the algorithm (`PyLayout code fns`: token indices, physical
lines, columns, first tokens of logical lines; backslash continuation and multi-line string
literals included, nothing is assumed away).  Here:

* C1 `token_lines_logical`, `line_indentation` - `_get_token_lines` / `_get_line_indentation`
  compute the logical lines and the indentation of the specification; `startsLine_physical`:
  without continuation tokens the logical lines are the physical lines;
* C2 `blocks_of_pyLayout` - `extract_blocks` returns exactly the suites, in source order;
* C3 `suites_properly_nested`, `layout_clauses_of_pyLayout`, `nested_of_pyLayout` - the suites
  of a canonical file satisfy every clause of the brace-block `Layout` of stage A except that an
  enclosing block may start AT the header of a nested function (`suites_are_not_a_brace_layout`:
  the strict clause `FnLayout.block_vs_fn` is false for Python); the stage-A proofs go through
  with the weaker premises (`ScopeLayout`, `Nested`: `Lemmas/PyLayoutScopes.lean`);
* C4 `scopes_of_pyLayout`, `scan_of_pyLayout` - every function gets its suite; the whole of
  `scan_file`: exactly the functions of the layout, each once, in source order, each with the
  expected measurement;
* C5 examples evaluated in the kernel, and two FINDINGS: legal Python outside the canonical fragment
  that the code mis-measures (`shallow_header_line`, `line_beginning_with_backslash`; both
  reproduce on the real code).

Within the fragment described by `PyLayout` the model computes what C01 expects.  Two remarks on
honesty: (1) `scan_of_pyLayout(_python)` is CONDITIONAL on header discovery (hypothesis `hh`, a
statement about an intermediate result); it is discharged by conditions on the token list in
`C01pyfull.scan_of_pyLayout_syn` and unconditionally for indentation trees in
`C01pyfull.scan_of_pytree`.  (2) The notion of logical line in `PyLayout` (`startsLine`) is the
CODE's; it is Python's (`startsLogical`) iff no logical line begins with a continuation token
(`startsLine_eq_startsLogical`).
-/
namespace CL.C01py

/-! ## C1: logical lines -/

/-- **`_get_token_lines` computes the logical lines of the specification.**  Every line it
returns lists the token indices of a range `[a, b)` of the file: it begins with `a`, ends with
`b - 1`, contains exactly the indices `a ≤ x < b` (an index is listed twice when it follows a
continuation token), token `a` is the first token of a logical line (`startsLine`) and no
token strictly inside is; consecutive lines cover consecutive ranges, from `0` to the end of
the file (`LineSeg`). -/
theorem token_lines_logical (code : List Tok) :
    LineSeg code 0 code.length (tokenLines code) ∧
    ∀ l ∈ tokenLines code, ∃ a b, a < b ∧ b ≤ code.length ∧ startsLine code a = true ∧
      (∀ j, a < j → j < b → startsLine code j = false) ∧ l.head? = some a ∧
      l.getLast? = some (b - 1) ∧ ∀ x, x ∈ l ↔ a ≤ x ∧ x < b := by
  refine ⟨tokenLines_seg code, fun l hl => ?_⟩
  obtain ⟨a, b, _, hb, h⟩ := (tokenLines_seg code).line_of_mem hl
  exact ⟨a, b, h.lt, hb, h.start, h.inner, h.head, h.last, h.mem⟩

/-- **Without continuation tokens the logical lines are the physical lines**: a token begins a
line iff it stands on another physical line than its predecessor. -/
theorem startsLine_physical {code : List Tok} (hc : NoContinuation code) {i : Nat}
    (hi : i + 1 < code.length) :
    startsLine code (i + 1) = (lineNo code (i + 1) != lineNo code i) := by
  have h0 : i < code.length := by omega
  have hp : code[i].continuesLine = false := hc _ (List.getElem_mem h0)
  rw [startsLine_succ (List.getElem?_eq_getElem h0) (List.getElem?_eq_getElem hi), hp,
    lineNo_eq hi, lineNo_eq h0]
  simp

/-- **The code's logical lines are Python's logical lines, unless a logical line begins with a
continuation token.**  `startsLine` (what `_get_token_lines` computes: the first token of a line
never continues it) and `startsLogical` (Python: every token ending in backslash-newline, every
String token ending in a newline continues the line) agree at every token if no token that begins a
logical line is itself a continuation token.  The hypothesis excludes exactly files like
`line_beginning_with_backslash`. -/
theorem startsLine_eq_startsLogical {code : List Tok}
    (h : ∀ i t, startsLogical code i = true → code[i]? = some t → t.continuesLine = false) :
    ∀ i, startsLine code i = startsLogical code i := by
  intro i
  induction i with
  | zero => rfl
  | succ i ih =>
    rw [startsLine, startsLogical]
    cases hp : code[i]? with
    | none => rfl
    | some p =>
      cases ht : code[i + 1]? with
      | none => rfl
      | some t =>
        simp only
        cases hc : p.continuesLine with
        | false => simp
        | true =>
          have hl : startsLogical code i = false := by
            cases hl : startsLogical code i with
            | false => rfl
            | true => rw [h i p hl hp] at hc; cases hc
          rw [ih, hl]
          simp

/-- the hypothesis of `startsLine_eq_startsLogical` holds for the example file with backslash
continuation and a string literal over two lines (`C01PyEx`), and fails for
`line_beginning_with_backslash` (`C01PyBs`: token 5 begins a logical line and is a continuation
token; there the two notions differ at token 6) -/
example : (∀ i t, startsLogical C01PyEx.code i = true → C01PyEx.code[i]? = some t →
      t.continuesLine = false) ∧
    startsLogical C01PyBs.code 5 = true ∧ C01PyBs.code[5]?.map (·.continuesLine) = some true ∧
    startsLine C01PyBs.code 6 = true ∧ startsLogical C01PyBs.code 6 = false := by
  refine ⟨?_, by decide +kernel, by decide +kernel, by decide +kernel, by decide +kernel⟩
  have hb : ∀ i, i < 65 → startsLogical C01PyEx.code i = true →
      (C01PyEx.code[i]?.any (·.continuesLine)) = false := by decide +kernel
  intro i t h1 h2
  have hlen : C01PyEx.code.length = 65 := by decide +kernel
  have := hb i (by have := (List.getElem?_eq_some_iff.1 h2).1; omega) h1
  rw [h2] at this
  simpa using this

/-- **`_get_line_indentation`** returns the column of the first token of the logical line on
which the token stands (for `async def f` that is the column of `async`). -/
theorem line_indentation {code : List Tok} {i : Nat} (hi : i < code.length) :
    lineIndentation code (tokenLines code) i = .ok (indentAt code i) :=
  lineIndentation_seg hi

/-! ## C2: blocks -/

/-- **C2.**  On a canonical Python layout `Python.extract_blocks`, handed the headers of the
functions in source order (as `get_headers` returns them for the single Python pattern),
succeeds and returns exactly the suites of the functions, in source order: one block per
function, no function without a block.  Backslash continuation lines, the lines of multi-line
string literals (which may stand at any column), headers spanning several lines, `-> T :`
after the parameter list, `async def`, and a nested `def` as last statement (outer and inner
suite end at the same token) are all covered by `PyLayout`. -/
theorem blocks_of_pyLayout {code : List Tok} {fns : List Fn} (L : PyLayout code fns) :
    pyBlocks code (fns.map (·.hdr)) = .ok (fns.map (·.body)) :=
  pyBlocks_layout L

/-! ## C3: the suites are properly nested -/

/-- **Indentation blocks are properly nested** (a consequence of the indentation clauses alone):
if `f` starts inside or after the suite of `g`, then the suite of `g` ends before `f` starts or
not before `f` ends. -/
theorem suites_properly_nested {code : List Tok} {fns : List Fn} (L : PyLayout code fns)
    {f g : Fn} (hf : f ∈ fns) (hg : g ∈ fns) (h : g.body.s ≤ f.hdr.rng.s) :
    g.body.e ≤ f.hdr.rng.s ∨ f.body.e ≤ g.body.e :=
  L.laminar hf hg h

/-- **The suites satisfy the clauses of the brace-block `Layout`** (with
`blocks := fns.map (·.body)`; in the order of `fnLayout_iff`, `layoutCore_iff`, `layout_iff`),
with ONE difference: in `block_vs_fn` a block around a function may start at the function's
first header token (`b.s ≤ f.hdr.rng.s` instead of `<`). -/
theorem layout_clauses_of_pyLayout {code : List Tok} {fns : List Fn} (L : PyLayout code fns) :
    fns.Pairwise (fun f g => f.hdr.rng.s < g.hdr.rng.s)
    ∧ (∀ f ∈ fns, f.hdr.rng.s < f.hdr.rng.e ∧ f.hdr.rng.e ≤ f.body.s)
    ∧ (∀ f ∈ fns, f.body ∈ fns.map (·.body))
    ∧ (∀ f ∈ fns, ∀ b ∈ fns.map (·.body), ¬ (f.hdr.rng.e ≤ b.s ∧ b.s < f.body.s))
    ∧ (∀ f ∈ fns, ∀ b ∈ fns.map (·.body),
          (b.s ≤ f.hdr.rng.s ∧ f.body.e ≤ b.e) ∨ (f.hdr.rng.s < b.s ∧ b.e ≤ f.hdr.rng.e)
        ∨ b.e ≤ f.hdr.rng.s ∨ f.hdr.rng.e ≤ b.s)
    ∧ (∀ f ∈ fns, ∀ g ∈ fns, f.hdr.rng.s < g.hdr.rng.s →
          f.hdr.rng.e ≤ g.hdr.rng.s ∨ g.hdr.rng.e ≤ f.hdr.rng.e)
    ∧ (∀ f ∈ fns, ∀ g ∈ fns, ¬ (f.hdr.rng.e ≤ g.hdr.rng.s ∧ g.hdr.rng.s < f.body.s))
    ∧ (∀ f ∈ fns, ∀ g ∈ fns, f.hdr.rng.s < g.hdr.rng.s → f.body ≠ g.body)
    ∧ code.Pairwise (fun a b => a.line < b.line ∨ (a.line = b.line ∧ a.col < b.col))
    ∧ (∀ b ∈ fns.map (·.body), b.s < b.e ∧ b.e ≤ code.length)
    ∧ (fns.map (·.body)).Pairwise (fun a b => a.s < b.s)
    ∧ (fns.map (·.body)).Pairwise (fun a b => a.e ≤ b.s ∨ b.e ≤ a.e)
    ∧ (∀ f ∈ fns, ∀ b ∈ fns.map (·.body), b.s ≠ f.body.e) :=
  L.layout_clauses

/-- the strict clause is false for Python: in the example file the suite of `f` begins with the
`def` of `g`, so the suites of a perfectly ordinary file do not form a `Layout` -/
theorem suites_are_not_a_brace_layout :
    PyLayout C01PyEx.code C01PyEx.fns ∧
    ¬ Layout C01PyEx.code C01PyEx.fns (C01PyEx.fns.map (·.body)) :=
  ⟨C01PyEx.layout, C01PyEx.not_layout⟩

/-- what the stage-A proofs of nesting, counting and measuring need: whole functions
`[header start, suite end)` are listed in source order and are disjoint or nested -/
theorem nested_of_pyLayout {code : List Tok} {fns : List Fn} (L : PyLayout code fns) :
    fns.Pairwise (fun f g => f.hdr.rng.s < g.hdr.rng.s) ∧
    (∀ f ∈ fns, f.hdr.rng.s < f.body.e ∧ f.body.e ≤ code.length) ∧
    (∀ f ∈ fns, ∀ g ∈ fns, f.hdr.rng.s < g.hdr.rng.s →
      f.body.e ≤ g.hdr.rng.s ∨ g.body.e ≤ f.body.e) :=
  ⟨L.nested.sorted, L.fnBounds, L.nested.laminar⟩

/-! ## C4: scopes and the whole of `scan_file` -/

/-- **Scopes.**  On a canonical Python layout `_build_scopes_from_headers_and_blocks`, given
the headers and the blocks that `extract_blocks` returns, gives every function exactly its own
suite, in source order (an inner function is processed first and takes only its own suite,
also when it is the first or the last statement of the outer one). -/
theorem scopes_of_pyLayout {code : List Tok} {fns : List Fn} (L : PyLayout code fns)
    {blocks : List Range} (hb : pyBlocks code (fns.map (·.hdr)) = .ok blocks) :
    buildScopes0 code (fns.map (·.hdr)) blocks = .ok (fns.map (fun f => ⟨f.hdr, f.body⟩)) := by
  rw [blocks_of_pyLayout L] at hb
  cases hb
  exact buildScopes0_scopeLayout L.scopeLayout (List.Perm.refl _)

/-- **C01 for Python, the whole of `scan_file`** (CONDITIONAL on header discovery: the hypothesis
`hh` speaks about what `extract_headers` returns; it is replaced by conditions on the token list in
`C01pyfull.scan_of_pyLayout_syn` and removed for indentation trees in `C01pyfull.scan_of_pytree`).
Let `code` be the code tokens of a file.  If
the header extraction of Python finds the headers of the functions `fns` (in source order),
the tokens and the functions form a canonical Python layout (`PyLayout`) and no function is
marked with a suppression comment, then `scan_file` succeeds and reports exactly the functions
`fns`, each once, in source order, each with its expected measurement: own name, span from the
first header token (`def`, not `async`) to just past the last token of the suite, length = the
number of distinct physical lines on which a token of the function outside all nested functions
begins.  (Stated for every language value with indentation blocks and nested reporting;
`Gen.python`, regenerated from the source, is one: `scan_of_pyLayout_python`.) -/
theorem scan_of_pyLayout {L : Language} {all code : List Tok} {fns : List Fn}
    (hcode : filterTokens false all = code) (hpy : L.python = true) (hnest : L.nested = true)
    (hh : extractHeaders L code = .ok (fns.map (·.hdr))) (hL : PyLayout code fns)
    (hm : ∀ f ∈ fns, ¬ Marked all f.hdr.name.line) :
    ∃ ms, scanFile L all = .ok ms ∧ ms.map some = fns.map (expected code fns) := by
  obtain ⟨ms, h1, h2⟩ := measureAll_nested hL.posSorted hL.nested hL.fnBounds fns (fun _ h => h)
  refine ⟨ms, ?_, h2⟩
  unfold scanFile
  rw [buildScopes_eq, hcode, rawScopes_pyLayout hpy hh hL]
  simp only [Except.map, filterNocl_layout hm]
  unfold arrange
  rw [if_pos hnest, withChildren_layout hL.nested]
  exact h1

/-- the same for the shipped Python language -/
theorem scan_of_pyLayout_python {all code : List Tok} {fns : List Fn}
    (hcode : filterTokens false all = code)
    (hh : extractHeaders Gen.python code = .ok (fns.map (·.hdr))) (hL : PyLayout code fns)
    (hm : ∀ f ∈ fns, ¬ Marked all f.hdr.name.line) :
    ∃ ms, scanFile Gen.python all = .ok ms ∧ ms.map some = fns.map (expected code fns) :=
  scan_of_pyLayout hcode rfl rfl hh hL hm

/-- the expected measurement exists for every function of a Python layout and is what C01
says -/
theorem expected_spec {code : List Tok} {fns : List Fn} (L : PyLayout code fns) {f : Fn}
    (hf : f ∈ fns) :
    ∃ first last, code[f.hdr.rng.s]? = some first ∧ code[f.body.e - 1]? = some last ∧
      expected code fns f = some ⟨f.hdr.name.val, first.line, first.col, (Tok.endPos_L last).1,
        (Tok.endPos_L last).2, countDistinct (ownLines code fns f)⟩ := by
  have hb := L.fn_ok f hf
  have hi1 : f.hdr.rng.s < code.length := by omega
  have hi2 : f.body.e - 1 < code.length := by omega
  refine ⟨code[f.hdr.rng.s], code[f.body.e - 1], List.getElem?_eq_getElem hi1,
    List.getElem?_eq_getElem hi2, ?_⟩
  unfold expected expectedWith
  rw [if_neg (by omega), List.getElem?_eq_getElem hi1, List.getElem?_eq_getElem hi2]

/-- **A sufficient condition in terms of indentation only.**  The one clause of `PyLayout` that
relates two functions beyond their order, `hdr_whole` (no suite ends inside a header), follows
from the other clauses when the continuation lines of every multi-line header (and of
`-> T :`) are indented deeper than the line on which the header begins (PEP 8 hanging indent).
The style of `black`, which closes a header with `):` at the column of `def`, does not satisfy
this condition but satisfies `hdr_whole` directly (`C01PyPlain`). -/
theorem pyLayout_of_deeper_headers {code : List Tok} {fns : List Fn}
    (pos_sorted : code.Pairwise (fun a b => a.line < b.line ∨ (a.line = b.line ∧ a.col < b.col)))
    (fn_ok : ∀ f ∈ fns, f.hdr.rng.s < f.hdr.rng.e ∧ f.hdr.rng.e < f.body.s ∧ f.body.s < f.body.e ∧
      f.body.e ≤ code.length)
    (fns_order : fns.Pairwise (fun f g => f.body.s ≤ g.hdr.rng.s))
    (suite_start : ∀ f ∈ fns, startsLine code f.body.s = true ∧
      lineNo code f.hdr.rng.e < lineNo code f.body.s)
    (suite_first : ∀ f ∈ fns, ∀ j < f.body.s, startsLine code j = true →
      lineNo code j ≤ lineNo code f.hdr.rng.e)
    (suite_deeper : ∀ f ∈ fns, ∀ j < f.body.e, f.body.s ≤ j → startsLine code j = true →
      indentAt code f.hdr.rng.s < colNo code j)
    (suite_end : ∀ f ∈ fns, f.body.e = code.length ∨
      (startsLine code f.body.e = true ∧ colNo code f.body.e ≤ indentAt code f.hdr.rng.s))
    (hdr_deeper : ∀ f ∈ fns, ∀ j < f.body.s, f.hdr.rng.s < j → startsLine code j = true →
      indentAt code f.hdr.rng.s < colNo code j) :
    PyLayout code fns :=
  PyLayout.of_deeper_headers pos_sorted fn_ok fns_order suite_start suite_first suite_deeper
    suite_end hdr_deeper

/-! ## C5: end-to-end examples (non-vacuity)

The file of `CodeLimit/Lemmas/PyLayoutExamples.lean` (tokens produced by the real lexer): a
class with two methods; `async def` with a header on two lines and `-> int :`; a backslash
continuation onto a line at column 1; `f` containing `g` (first statement, not the last, with
a multi-line string literal whose second line is at column 1), one more statement of `f`, and
`k` as LAST statement (the suites of `f` and `k` end at the same token); `h` following at
lower indentation; a comment. -/

/-- the example is a canonical Python layout (and uses continuation tokens) -/
example : PyLayout C01PyEx.code C01PyEx.fns ∧ ¬ NoContinuation C01PyEx.code :=
  ⟨C01PyEx.layout, C01PyEx.not_noContinuation⟩

/-- `scan_file` evaluated in the kernel, independently of the theorems above: `m2` starts at
`def` (5:11) and has 5 lines (line 8 holds the token `2`), `f` has 2 own lines (11 and 16), `g`
has 4 (12-15) -/
theorem scan_example :
    scanFile Gen.python C01PyEx.all
      = .ok [⟨[109, 49], 2, 5, 3, 17, 2⟩, ⟨[109, 50], 5, 11, 9, 17, 5⟩, ⟨[102], 11, 1, 18, 13, 2⟩,
             ⟨[103], 12, 5, 15, 17, 4⟩, ⟨[107], 17, 5, 18, 13, 2⟩, ⟨[104], 20, 1, 21, 9, 2⟩] :=
  C01PyEx.scanPy

/-- the hypotheses of the end-to-end theorem are satisfiable, and its conclusion agrees with
the independent evaluation -/
example : ∃ ms, scanFile Gen.python C01PyEx.all = .ok ms ∧
    ms.map some = C01PyEx.fns.map (expected C01PyEx.code C01PyEx.fns) :=
  scan_of_pyLayout_python C01PyEx.code_all C01PyEx.headers C01PyEx.layout C01PyEx.unmarked

/-- the expected report of the example, computed from the layout alone -/
example : C01PyEx.fns.map (expected C01PyEx.code C01PyEx.fns)
    = [some ⟨[109, 49], 2, 5, 3, 17, 2⟩, some ⟨[109, 50], 5, 11, 9, 17, 5⟩,
       some ⟨[102], 11, 1, 18, 13, 2⟩, some ⟨[103], 12, 5, 15, 17, 4⟩,
       some ⟨[107], 17, 5, 18, 13, 2⟩, some ⟨[104], 20, 1, 21, 9, 2⟩] := C01PyEx.expectedEx

/-- nesting of the example: `g` and `k` are the children of `f` -/
example : C01PyEx.fns.map (parent C01PyEx.fns)
    = [none, none, none, some C01PyEx.fF, some C01PyEx.fF, none] := C01PyEx.parents

/-- the logical lines of the example: tokens 28 (after the backslash) and 46 (second line of
the string literal) stand at column 1 and do not begin lines -/
example : (List.range 65).filter (startsLine C01PyEx.code)
    = [0, 3, 9, 11, 17, 23, 29, 31, 36, 41, 48, 50, 53, 58, 59, 64] := C01PyEx.lineStarts

/-- `extract_blocks` on the example, evaluated directly -/
example : pyBlocks C01PyEx.code (C01PyEx.fns.map (·.hdr)) = .ok (C01PyEx.fns.map (·.body)) :=
  C01PyEx.blocksEx

/-- a file without continuation tokens (logical lines = physical lines) whose multi-line
headers are closed on a line at the column of `def` (the style of `black`): layout, hypotheses
and conclusion -/
example : NoContinuation C01PyPlain.code ∧ PyLayout C01PyPlain.code C01PyPlain.fns ∧
    scanFile Gen.python C01PyPlain.code
      = .ok [⟨[103], 1, 1, 7, 13, 3⟩, ⟨[102], 2, 5, 5, 13, 4⟩, ⟨[104], 9, 1, 12, 13, 4⟩] ∧
    C01PyPlain.fns.map (expected C01PyPlain.code C01PyPlain.fns)
      = [some ⟨[103], 1, 1, 7, 13, 3⟩, some ⟨[102], 2, 5, 5, 13, 4⟩,
         some ⟨[104], 9, 1, 12, 13, 4⟩] :=
  ⟨C01PyPlain.noContinuation, C01PyPlain.layout, C01PyPlain.scanPy, C01PyPlain.expectedEx⟩

example : ∃ ms, scanFile Gen.python C01PyPlain.code = .ok ms ∧
    ms.map some = C01PyPlain.fns.map (expected C01PyPlain.code C01PyPlain.fns) :=
  scan_of_pyLayout_python C01PyPlain.code_all C01PyPlain.headers C01PyPlain.layout
    C01PyPlain.unmarked

/-! ## findings: legal Python outside the canonical fragment, mis-measured by the code

Both files are legal Python, both results reproduce on the real code (`/repo`), and in both the
report differs from what C01 expects.  They are outside `PyLayout` (and outside Appendix A of the
design: "every physical line indented deeper than the header line"; "a logical line does not begin
with backslash-newline").  They are recorded here as findings about the code; the specification is
not claimed to cover them. -/

/-- **Finding: a continuation line of a nested header that is not indented deeper than the
ENCLOSING function.**  In
```
def g():
    def f(a,
b):
        pass
    x = 1
    return x
```
(legal Python: the layout inside parentheses is free) the second line of `f`'s header is a
logical line of the code's line structure inside the suite of `g` that is not indented deeper
than `g`'s line: the clause `suite_deeper` fails for `g` (with the real suites), and the
analysis ends the suite of `g` there: it reports `g` as lines 1-2 with length 2 where lines 1-6
with length 3 are expected.  (Appendix A of the design: "every physical line indented deeper
than the header line".)  A shallow continuation line of a TOP-LEVEL header, or one that is
still deeper than the enclosing function's line, is harmless and inside `PyLayout`
(`C01PyPlain`: `) -> int:` at the column of `def`). -/
theorem shallow_header_line :
    ¬ PyLayout C01PyHdr.code C01PyHdr.fns ∧
    extractHeaders Gen.python C01PyHdr.code = .ok (C01PyHdr.fns.map (·.hdr)) ∧
    scanFile Gen.python C01PyHdr.code
      = .ok [⟨[103], 1, 1, 2, 13, 2⟩, ⟨[102], 2, 5, 4, 13, 3⟩] ∧
    C01PyHdr.fns.map (expected C01PyHdr.code C01PyHdr.fns)
      = [some ⟨[103], 1, 1, 6, 13, 3⟩, some ⟨[102], 2, 5, 4, 13, 3⟩] :=
  ⟨by decide +kernel, C01PyHdr.headers, C01PyHdr.scanPy, C01PyHdr.expectedEx⟩

/-- **Finding: a logical line that begins with a backslash-newline.**  In
```
def f():
    \
x = 1
    return x
```
(legal Python: the logical line `x = 1` begins with the backslash on line 2 and has that line's
indentation) the backslash-newline token is the FIRST token of its line, and
`_get_token_lines` never treats the first token of a line as a continuation: `x` (token 6,
column 1) begins a new line, which ends the suite.  The analysis reports `f` as lines 1-3 with
length 2 where lines 1-4 with length 4 are expected.  `startsLine` describes what the code
does (Python's notion `startsLogical` says token 6 does NOT begin a line), so this file is not a
`PyLayout`; the hypothesis of `startsLine_eq_startsLogical` is what excludes it. -/
theorem line_beginning_with_backslash :
    C01PyBs.code[5]?.map (·.continuesLine) = some true ∧ startsLine C01PyBs.code 5 = true ∧
    startsLine C01PyBs.code 6 = true ∧ ¬ PyLayout C01PyBs.code C01PyBs.fns ∧
    scanFile Gen.python C01PyBs.code = .ok [⟨[102], 1, 1, 3, 1, 2⟩] ∧
    C01PyBs.fns.map (expected C01PyBs.code C01PyBs.fns) = [some ⟨[102], 1, 1, 4, 13, 4⟩] :=
  ⟨by decide +kernel, by decide +kernel, by decide +kernel, by decide +kernel, C01PyBs.scanPy,
   C01PyBs.expectedEx⟩

/-- the tokens of
```
def f(): return 1
def g():
    return 2
```
-/
def oneLineDef : List Tok :=
  [Ex.kwT [100, 101, 102] 1 1, Ex.nmT [102] 1 5, Ex.puT [40] 1 6, Ex.puT [41] 1 7, Ex.puT [58] 1 8,
   Ex.kwT [114, 101, 116, 117, 114, 110] 1 10, ⟨0, 0, [49], 1, 17⟩,
   Ex.kwT [100, 101, 102] 2 1, Ex.nmT [103] 2 5, Ex.puT [40] 2 6, Ex.puT [41] 2 7, Ex.puT [58] 2 8,
   Ex.kwT [114, 101, 116, 117, 114, 110] 3 5, ⟨0, 0, [50], 3, 12⟩]

/-- **Outside the fragment: a one-line `def` is not reported at all.**  `def f(): return 1` (legal
Python; Appendix A of the design: "one-line `def`s are outside the fragment") has its body on the
header line; the header is found (`extract_headers` returns `f` and `g`), but no indented suite
follows it, `extract_blocks` finds no block for it, and `scan_file` reports only `g`.  The real
code does the same.  `PyLayout` excludes the file: `suite_start` demands that the suite begins on
a line below the header. -/
theorem one_line_def_not_reported :
    (extractHeaders Gen.python oneLineDef).map (fun hs => hs.map (·.name.val)) = .ok [[102], [103]] ∧
    scanFile Gen.python oneLineDef = .ok [⟨[103], 2, 1, 3, 13, 2⟩] := by
  refine ⟨?_, scanFile_eval (by decide +kernel)⟩
  decide +kernel

end CL.C01py
