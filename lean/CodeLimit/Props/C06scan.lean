import CodeLimit.Props.Pipeline
/-!
# C06, last clause: two scans of the same tree differ at most in identifier, timestamp and listing order

Stated about `Pipeline.scan` (`scan_command`: the report object and the bytes written).  The two
scans may start from different cache files (each `CacheOk`: absent, written by an earlier scan,
cut anywhere, foreign) and have different run parameters.  What must agree are the exclusion
lines (`R.pats`).

* `two_scans_same_tree` - the same snapshot of the directory (same listing order): the second
  report IS the first with the run's own uuid, timestamp, root string and repository in place.
* `two_scans_same_files` - two snapshots with the same files but possibly different listing orders
  (`os.walk` order is the operating system's): the file entries are the same up to order, every
  language has the same totals, the folder tree has the same folders with the same profiles.
-/
namespace CL.C06scan

open CL CL.Sel CL.Pipeline

/-- `Pipeline.scan` spelled out: the run parameters other than the exclusion lines enter only
through `Report.__init__` -/
theorem scan_unfold (E : Env) (R : Pipeline.Run) (root : Sel.Node) (prev : Option Str) :
    scan E R root prev =
      (entriesOf (scanRows E R.pats root prev)).bind fun files =>
        (Codebase.build (files.map cbEntry)).bind fun cb =>
          let d := Json.Report.init E.version R.uuid R.now R.root R.repository (codebaseJ cb).1 (codebaseJ cb).2 files
          .ok (d, Json.write true d) := by
  unfold scan reportOf
  cases entriesOf (scanRows E R.pats root prev) with
  | error e => rfl
  | ok files =>
    show (match (match Codebase.build (files.map cbEntry) with
      | .error e => Except.error e
      | .ok cb => Except.ok (Json.Report.init E.version R.uuid R.now R.root R.repository (codebaseJ cb).1 (codebaseJ cb).2 files)) with
      | .error e => Except.error e
      | .ok d => Except.ok (d, Json.write true d)) = _
    cases h : Codebase.build (files.map cbEntry) <;> simp [Except.bind, h]

/-- **Two scans of the same tree.**  Same environment, same exclusion lines, the same directory
snapshot; arbitrary admissible cache files (`HistoryOk`: no MD5 collision among the contents that
occur) and arbitrary other run parameters (identifier, clock, root string, repository).  If the first scan completes with report `d`, the second completes with
`d` in which only `uuid`, `timestamp`, `root` and `repository` are replaced by the second run's
(so with the same root string and repository: only identifier and timestamp differ); if the first
aborts with an exception, the second aborts with the same exception. -/
theorem two_scans_same_tree {E : Env} (hE : EnvBase E) {R R' : Pipeline.Run} (hp : R.pats = R'.pats)
    {rn : Str} {ch : List Sel.Node} (hwf : wfDir ch = true) {prev prev' : Option Str}
    (hH : HistoryOk E R.pats ch prev) (hH' : HistoryOk E R'.pats ch prev') :
    (∀ d b, scan E R (.dir rn ch) prev = .ok (d, b) →
      ∃ b', scan E R' (.dir rn ch) prev' =
        .ok ({ d with uuid := R'.uuid, timestamp := R'.now, root := R'.root, repository := R'.repository }, b')) ∧
    (∀ e, scan E R (.dir rn ch) prev = .error e → scan E R' (.dir rn ch) prev' = .error e) := by
  rw [Pipe.scan_with_cache_eq_fresh hE hwf hH, Pipe.scan_with_cache_eq_fresh hE hwf hH', scan_unfold, scan_unfold, hp]
  cases entriesOf (scanRows E R'.pats (.dir rn ch) none) with
  | error e => simp [Except.bind]
  | ok files =>
    cases h : Codebase.build (files.map cbEntry) with
    | error e => simp [Except.bind, h]
    | ok cb => simp [Except.bind, h, Json.Report.init]

/-! ## different listing orders -/

theorem nodup_of_keys {α : Type} {l : List (Str × α)} (h : (l.map (·.1)).Nodup) : l.Nodup := by
  induction l with
  | nil => simp
  | cons x r ih =>
    simp only [List.map_cons, List.nodup_cons, List.mem_map, not_exists, not_and] at h ⊢
    exact ⟨fun hx => h.1 x hx rfl, ih h.2⟩

theorem perm_sum_int {a b : List Int} (h : a.Perm b) : a.sum = b.sum := by
  induction h with
  | nil => rfl
  | cons x _ ih => simp [ih]
  | swap x y l => simp only [List.sum_cons]; omega
  | trans _ _ ih1 ih2 => omega

theorem profileOf_perm {a b : List Json.Meas} (h : a.Perm b) : profileOf a = profileOf b := by
  have hm : (a.map (·.value)).Perm (b.map (·.value)) := h.map _
  have : Codebase.makeProfile (a.map (·.value)) = Codebase.makeProfile (b.map (·.value)) := by
    apply Codebase.profile_eq_of_get
    intro i hi
    rw [Codebase.makeProfile_get _ _ hi, Codebase.makeProfile_get _ _ hi]
    exact perm_sum_int (hm.filter _)
  simp only [profileOf, this]

theorem totalsFor_perm (L : Str) {a b : List (Str × Json.FileData)} (h : a.Perm b) :
    totalsFor L a = totalsFor L b := by
  have hf := h.filter (fun kv => kv.2.language = L)
  simp only [totalsFor, hf.length_eq, perm_sum_int (hf.map _)]

theorem measurementsUnder_perm (k : Str) {a b : List (Str × Json.FileData)} (h : a.Perm b) :
    (measurementsUnder k a).Perm (measurementsUnder k b) :=
  List.Perm.flatMap_right _ (h.filter _)

/-- **Two scans of the same files, listed in possibly different orders.**  Two well-formed
directory snapshots with the same files (same paths, same bytes), same exclusion lines, any
admissible cache files, any run parameters.  Then the two reports have
* the same file entries (key, checksum, language, line total, profile, measurements) up to order;
* for every language the same totals entry (or none in both), so `totals` agrees up to order;
* the same folder keys, each folder with the same profile;
* the same version. -/
theorem two_scans_same_files {E : Env} (hE : EnvBase E) {R R' : Pipeline.Run} (hp : R.pats = R'.pats)
    {rn rn' : Str} {ch ch' : List Sel.Node} (hwf : wfDir ch = true) (hwf' : wfDir ch' = true)
    {prev prev' : Option Str} (hprev : HistoryOk E R.pats ch prev) (hprev' : HistoryOk E R'.pats ch' prev')
    (hsame : ∀ p c, FileAt ch p c ↔ FileAt ch' p c)
    {d d' : Json.ReportData} {b b' : Str}
    (h : scan E R (.dir rn ch) prev = .ok (d, b)) (h' : scan E R' (.dir rn' ch') prev' = .ok (d', b')) :
    d.files.Perm d'.files ∧
    (∀ L, Json.lookup L d.totals = Json.lookup L d'.totals) ∧ d.totals.Perm d'.totals ∧
    (∀ k, k ∈ d.tree.map (·.1) ↔ k ∈ d'.tree.map (·.1)) ∧
    (∀ k f f', (k, f) ∈ d.tree → (k, f') ∈ d'.tree → f.profile = f'.profile) ∧
    d.version = d'.version := by
  obtain ⟨hn, _, hm⟩ := Pipe.report_files_exact hE hwf hprev h
  obtain ⟨hn', _, hm'⟩ := Pipe.report_files_exact hE hwf' hprev' h'
  have hperm : d.files.Perm d'.files := by
    rw [List.perm_ext_iff_of_nodup (nodup_of_keys hn) (nodup_of_keys hn')]
    rintro ⟨k, f⟩
    rw [hm, hm', hp]
    constructor
    · rintro ⟨p, c, lang, x, ms, ⟨hf, r1⟩, r2⟩
      exact ⟨p, c, lang, x, ms, ⟨(hsame p c).1 hf, r1⟩, r2⟩
    · rintro ⟨p, c, lang, x, ms, ⟨hf, r1⟩, r2⟩
      exact ⟨p, c, lang, x, ms, ⟨(hsame p c).2 hf, r1⟩, r2⟩
  obtain ⟨htn, htl⟩ := Pipe.report_totals hwf h
  obtain ⟨htn', htl'⟩ := Pipe.report_totals hwf' h'
  have hlook : ∀ L, Json.lookup L d.totals = Json.lookup L d'.totals := by
    intro L
    rw [htl, htl', totalsFor_perm L hperm]
    have : (∃ kv ∈ d.files, kv.2.language = L) ↔ (∃ kv ∈ d'.files, kv.2.language = L) := by
      constructor
      · rintro ⟨kv, hkv, hl⟩; exact ⟨kv, hperm.mem_iff.1 hkv, hl⟩
      · rintro ⟨kv, hkv, hl⟩; exact ⟨kv, hperm.mem_iff.2 hkv, hl⟩
    simp only [this]
  have htperm : d.totals.Perm d'.totals := by
    rw [List.perm_ext_iff_of_nodup (nodup_of_keys htn) (nodup_of_keys htn')]
    rintro ⟨k, t⟩
    rw [Codebase.mem_iff_dget? htn, Codebase.mem_iff_dget? htn', ← Pipeline.lookup_eq_dget?,
      ← Pipeline.lookup_eq_dget?, hlook k]
  have hkeys : ∀ k, k ∈ d.tree.map (·.1) ↔ k ∈ d'.tree.map (·.1) := by
    intro k
    rw [Pipe.report_tree_keys hwf h, Pipe.report_tree_keys hwf' h']
    constructor
    · rintro (h1 | ⟨kv, hkv, hpre⟩)
      · exact .inl h1
      · exact .inr ⟨kv, hperm.mem_iff.1 hkv, hpre⟩
    · rintro (h1 | ⟨kv, hkv, hpre⟩)
      · exact .inl h1
      · exact .inr ⟨kv, hperm.mem_iff.2 hkv, hpre⟩
  refine ⟨hperm, hlook, htperm, hkeys, ?_, ?_⟩
  · intro k f f' hf hf'
    rw [(Pipe.report_folder_profiles hwf h).2 k f hf, (Pipe.report_folder_profiles hwf' h').2 k f' hf']
    exact profileOf_perm (measurementsUnder_perm k hperm)
  · obtain ⟨_, _, _, _, rfl, _⟩ := scan_ok_iff.1 h
    obtain ⟨_, _, _, _, rfl, _⟩ := scan_ok_iff.1 h'
    rfl

end CL.C06scan
