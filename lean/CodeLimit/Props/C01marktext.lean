import CodeLimit.Props.C01marks
import CodeLimit.Props.C01arrow
import CodeLimit.Props.C01text
import CodeLimit.Model.ProgMarkOps
import CodeLimit.Props.C01pytext
import CodeLimit.Lemmas.ProgTextMulti
/-!
# C01 + C04 + C17, stage T: forests WITH comments and markers, down to source TEXT and `_analyze_file`

`Props/C01marks.lean` proves `scan_file (render p) = markedReport p` for forests with comment tokens
and suppression markers anywhere (M2: unconditionally for the canonical fragments `Canon`,
`CanonJava`, `CanonJs`, `CanonTs` of the comment-free forest); `Props/C01arrow.lean` proves
`scan_file (render p) = treeReport` for comment-free JavaScript / TypeScript forests whose function
nodes may be assigned arrow functions (`CanonJsArrow`, `CanonTsArrow`); `Props/C01text.lean` goes
from a forest to its source text (`textOf`, `rawOf`, `lex`).  This file composes the three and ties
the result to the driver operation `marktree` (`Model/ProgMarkOps.lean`) that the differential
stream `harness/mark_stream.py` runs against the real code.

* MT0 `canonJsArrow_strip_locate`, `canonTsArrow_strip_locate` - the arrow fragments of the
  comment-free located forest are conditions on the comment-free forest of tokens without locations;
* MT1 `scan_js_arrow_of_rendered_marked_canon_tree`, `scan_ts_arrow_of_rendered_marked_canon_tree` -
  M2 for JavaScript / TypeScript forests with arrow nodes, comments and markers: three decidable
  conditions on `p.bare.stripComments`, no hypothesis about the matcher;
* MT2 `lex_of_marked_tree_text` - `lex` on the text of a forest with comments returns the rendering,
  comment tokens included (this is `C01text.lex_of_tree_text`: it never needed `allCode`);
  `analyze_of_scan` - the step from `scan_file (render p)` to `_analyze_file (textOf p)`;
* MT3 `analyze_of_marked_canon_text` (C, C++, C#), `analyze_java_…`, `analyze_js_…`, `analyze_ts_…`,
  `analyze_js_arrow_…`, `analyze_ts_arrow_…` - `_analyze_file` on the TEXT returns `markedReport`
  (`markedReportFlat` for C) and its total;
* MT3' `fragJsArrow`, `fragTsArrow`; `reported_functions_canon_js_arrow`, `toggle_marker_canon_js_arrow`,
  `comments_blank_lines_invisible_canon_js_arrow` (and `…_ts_arrow`) - C17 / C04 for forests with
  assigned arrow functions, no matcher hypothesis; `analyze_of_marked_fragment_text`,
  `analyze_reported_functions_fragment`, `analyze_toggle_marker_fragment`,
  `analyze_comments_blank_lines_invisible_fragment` - M2 / C17 / C04 at TEXT level
  (`_analyze_file` on `textOf p`) for every canonical fragment; `analyze_of_fragment_tree_text`,
  `analyze_of_canon_tree_text` - the text-level theorem for comment-free forests without discovery
  hypothesis;
* MT4 `markOp_sound` - if the five flags of the `marktree` reply are true, `_analyze_file` of the
  model applied to the returned text and raw stream returns the returned report (which was read off
  the tree; `scanFile` is not evaluated by the operation);
  `markOp_flags_iff` - what the flags mean;
* non-vacuity: `Ex.cMarks` (C / C++ / C#: comments in a header, in a gap, after `{`, on own lines,
  trailing; a marked nested function, a marked enclosing function, a marker on a line without
  name, a decoy `// not nocl`) and `Ex.jsMarks` (JavaScript / TypeScript: a marked and an unmarked
  assigned arrow function, a `function` declaration inside): all flags by `decide`, the source text
  is shown, and the reports agree with the kernel evaluation of `analyze` on the text.
-/
namespace CL.C01marktext
open CL.C01syn CL.C01tree CL.C01full CL.C01marks CL.C01arrow CL.C01text CL.Marks CL.MarkOps

/-! ## MT0: the arrow fragments of the comment-free forest do not depend on the locations -/

theorem canonJsArrow_sim {p q : Prog Tok} (h : Prog.Sim p q) : p.CanonJsArrow = q.CanonJsArrow := by
  unfold Prog.CanonJsArrow
  rw [canonWith_sim cfgJs_same h.plain, parenBal_same h.flat, arrowsOK_sim h]

theorem canonTsArrow_sim {p q : Prog Tok} (h : Prog.Sim p q) : p.CanonTsArrow = q.CanonTsArrow := by
  unfold Prog.CanonTsArrow
  rw [canonWith_sim cfgTs_same h.plain, parenBal_same h.flat, arrowsOK_sim h]

/-- `CanonJsArrow` of the comment-free located forest is `CanonJsArrow` of the comment-free forest
of tokens without locations -/
theorem canonJsArrow_strip_locate (p : Prog PTok) (s : Nat × Nat) :
    (locate s p).stripComments.CanonJsArrow = p.bare.stripComments.CanonJsArrow :=
  canonJsArrow_sim (sim_strip_locate p s)

/-- the same for TypeScript -/
theorem canonTsArrow_strip_locate (p : Prog PTok) (s : Nat × Nat) :
    (locate s p).stripComments.CanonTsArrow = p.bare.stripComments.CanonTsArrow :=
  canonTsArrow_sim (sim_strip_locate p s)

/-! ## MT1: arrow nodes + comments + markers -/

/-- discovery on a comment-free forest of `CanonJsArrow` -/
theorem discovers_of_canon_js_arrow {q : Prog Tok}
    (hc : q.CanonJsArrow = true) (hw : q.wfCore = true) (ha : q.noAdj = true) :
    Discovers Gen.javascript q :=
  ⟨_, discovery_of_canon_js_arrow hc hw ha, discovery_perm q⟩

/-- discovery on a comment-free forest of `CanonTsArrow` -/
theorem discovers_of_canon_ts_arrow {q : Prog Tok}
    (hc : q.CanonTsArrow = true) (hw : q.wfCore = true) (ha : q.noAdj = true) :
    Discovers Gen.typescript q :=
  ⟨_, discovery_of_canon_ts_arrow hc hw ha, discovery_perm q⟩

/-- **MT1 for JavaScript: assigned arrow functions, comments and markers together.**  Let `p` be ANY
forest of tokens without locations - comment tokens anywhere (between items, inside headers, in
gaps, trailing), any of them a suppression marker - whose COMMENT-FREE forest lies in `CanonJsArrow`
(function nodes are `function` declarations, methods and assigned arrow functions
`[const] f = [async] ( … ) => { … }`), is structurally well-formed and has no function directly
followed by a brace group: three decidable, location-independent conditions on
`p.bare.stripComments`.  Then `scan_file` of JavaScript on the rendering returns `markedReport p`:
the tree report of the located comment-free forest in which the function nodes named on a marked
line are dissolved.  No hypothesis about the matcher. -/
theorem scan_js_arrow_of_rendered_marked_canon_tree {p : Prog PTok}
    (hc : p.bare.stripComments.CanonJsArrow = true) (hw : p.bare.stripComments.wfCore = true)
    (ha : p.bare.stripComments.noAdj = true) :
    scanFile Gen.javascript (render p) = .ok (markedReport p) :=
  scan_of_rendered_marked_tree_partial (L := Gen.javascript) rfl hw ha
    (discovers_of_canon_js_arrow ((canonJsArrow_strip_locate p _).trans hc)
      ((wfCore_strip_locate p _).trans hw) ((noAdj_strip_locate p _).trans ha))

/-- **MT1 for TypeScript** (`CanonTsArrow`) -/
theorem scan_ts_arrow_of_rendered_marked_canon_tree {p : Prog PTok}
    (hc : p.bare.stripComments.CanonTsArrow = true) (hw : p.bare.stripComments.wfCore = true)
    (ha : p.bare.stripComments.noAdj = true) :
    scanFile Gen.typescript (render p) = .ok (markedReport p) :=
  scan_of_rendered_marked_tree_partial (L := Gen.typescript) rfl hw ha
    (discovers_of_canon_ts_arrow ((canonTsArrow_strip_locate p _).trans hc)
      ((wfCore_strip_locate p _).trans hw) ((noAdj_strip_locate p _).trans ha))

/-! ## MT2: the text of a forest with comments -/

/-- **MT2.  `lex` on the text of a forest WITH comments returns the rendering.**  For every forest
whose layout is `Spaced` (token texts - comment texts included - are non-empty and contain no
newline; no overlap) and that contains no whitespace token, `lexer_utils.lex` with
`filter_comments = False` (as `_analyze_file` calls it) applied to the text and the raw stream
returns exactly `render p`: every token of the forest, the comment tokens too, with kind, type, text,
line and column.  (`C01text.lex_of_tree_text`, which does not require code tokens.) -/
theorem lex_of_marked_tree_text {p : Prog PTok} (hs : p.Spaced = true) (hn : p.noWs = true) :
    lex (textOf p) (rawOf p) false = render p :=
  lex_of_tree_text hs hn

/-- from `scan_file` on the rendering to `_analyze_file` on the text -/
theorem analyze_of_scan {L : Language} {p : Prog PTok} {r : List Measurement}
    (hs : p.Spaced = true) (hn : p.noWs = true) (h : scanFile L (render p) = .ok r) :
    analyze L (textOf p) (rawOf p) = .ok (r, totalOf r) := by
  unfold analyze
  rw [lex_of_tree_text hs hn, h]
  rfl

/-! ## MT3: `_analyze_file` on the text, per fragment -/

/-- **MT3 for C, C++, C#.**  Let `p` be ANY forest of tokens without locations, comments and
markers anywhere, such that the comment-free forest lies in `Canon`, is structurally well-formed and
has no function directly followed by a brace group, the layout is `Spaced` and there is no
whitespace token.  Then the whole pipeline `_analyze_file` (`lex`, `scan_file`, total) applied to
the source text `textOf p` returns `markedReport p` (C++, C#) / `markedReportFlat p` (C) and the sum
of its lengths. -/
theorem analyze_of_marked_canon_text {L : Language} (hL : L ∈ cFamily) {p : Prog PTok}
    (hc : p.bare.stripComments.Canon = true) (hw : p.bare.stripComments.wfCore = true)
    (ha : p.bare.stripComments.noAdj = true) (hs : p.Spaced = true) (hn : p.noWs = true) :
    analyze L (textOf p) (rawOf p) = .ok (markedReportOf L p, totalOf (markedReportOf L p)) :=
  analyze_of_scan hs hn (scan_of_rendered_marked_canon_tree hL hc hw ha)

/-- **MT3 for Java** -/
theorem analyze_java_of_marked_canon_text {p : Prog PTok}
    (hc : p.bare.stripComments.CanonJava = true) (hw : p.bare.stripComments.wfCore = true)
    (ha : p.bare.stripComments.noAdj = true) (hs : p.Spaced = true) (hn : p.noWs = true) :
    analyze Gen.java (textOf p) (rawOf p) = .ok (markedReport p, totalOf (markedReport p)) :=
  analyze_of_scan hs hn (scan_java_of_rendered_marked_canon_tree hc hw ha)

/-- **MT3 for JavaScript, fragment without arrow nodes** -/
theorem analyze_js_of_marked_canon_text {p : Prog PTok}
    (hc : p.bare.stripComments.CanonJs = true) (hw : p.bare.stripComments.wfCore = true)
    (ha : p.bare.stripComments.noAdj = true) (hs : p.Spaced = true) (hn : p.noWs = true) :
    analyze Gen.javascript (textOf p) (rawOf p) = .ok (markedReport p, totalOf (markedReport p)) :=
  analyze_of_scan hs hn (scan_js_of_rendered_marked_canon_tree hc hw ha)

/-- **MT3 for TypeScript, fragment without arrow nodes** -/
theorem analyze_ts_of_marked_canon_text {p : Prog PTok}
    (hc : p.bare.stripComments.CanonTs = true) (hw : p.bare.stripComments.wfCore = true)
    (ha : p.bare.stripComments.noAdj = true) (hs : p.Spaced = true) (hn : p.noWs = true) :
    analyze Gen.typescript (textOf p) (rawOf p) = .ok (markedReport p, totalOf (markedReport p)) :=
  analyze_of_scan hs hn (scan_ts_of_rendered_marked_canon_tree hc hw ha)

/-- **MT3 for JavaScript with assigned arrow functions** -/
theorem analyze_js_arrow_of_marked_canon_text {p : Prog PTok}
    (hc : p.bare.stripComments.CanonJsArrow = true) (hw : p.bare.stripComments.wfCore = true)
    (ha : p.bare.stripComments.noAdj = true) (hs : p.Spaced = true) (hn : p.noWs = true) :
    analyze Gen.javascript (textOf p) (rawOf p) = .ok (markedReport p, totalOf (markedReport p)) :=
  analyze_of_scan hs hn (scan_js_arrow_of_rendered_marked_canon_tree hc hw ha)

/-- **MT3 for TypeScript with assigned arrow functions** -/
theorem analyze_ts_arrow_of_marked_canon_text {p : Prog PTok}
    (hc : p.bare.stripComments.CanonTsArrow = true) (hw : p.bare.stripComments.wfCore = true)
    (ha : p.bare.stripComments.noAdj = true) (hs : p.Spaced = true) (hn : p.noWs = true) :
    analyze Gen.typescript (textOf p) (rawOf p) = .ok (markedReport p, totalOf (markedReport p)) :=
  analyze_of_scan hs hn (scan_ts_arrow_of_rendered_marked_canon_tree hc hw ha)

/-! ## MT3': every fragment at once, and C04 / C17 at TEXT level

`C01marks.Fragment` packages a canonical fragment with its discovery theorem.  The arrow fragments
are instances, too; with them the corollaries of `Props/C01marks.lean` (M5) hold for JavaScript /
TypeScript forests with assigned arrow functions, and all of them go down to `_analyze_file` on
the source text. -/

/-- JavaScript WITH assigned arrow functions: `Prog.CanonJsArrow` -/
def fragJsArrow : Fragment Gen.javascript :=
  ⟨Prog.CanonJsArrow, rfl, canonJsArrow_sim, discovers_of_canon_js_arrow⟩

/-- TypeScript WITH assigned arrow functions: `Prog.CanonTsArrow` -/
def fragTsArrow : Fragment Gen.typescript :=
  ⟨Prog.CanonTsArrow, rfl, canonTsArrow_sim, discovers_of_canon_ts_arrow⟩

theorem fragJsArrow_holds : fragJsArrow.holds = Prog.CanonJsArrow := rfl
theorem fragTsArrow_holds : fragTsArrow.holds = Prog.CanonTsArrow := rfl

/-- **C17 "omitted exactly when" on the output, JavaScript with assigned arrow functions** -/
theorem reported_functions_canon_js_arrow {p : Prog PTok}
    (hc : p.bare.stripComments.CanonJsArrow = true) (hw : p.bare.stripComments.wfCore = true)
    (ha : p.bare.stripComments.noAdj = true) :
    scanFile Gen.javascript (render p) = .ok ((treeReportNamed p.located.effective).map (·.2)) ∧
    (treeReportNamed p.located.effective).map (·.1)
      = p.located.stripComments.nameToks.filter
          (fun t => !(markedLines p.located).contains t.line) ∧
    ∀ x ∈ treeReportNamed p.located.effective, x.2.name = x.1.val :=
  reported_functions_fragment fragJsArrow hc hw ha

/-- ... TypeScript with assigned arrow functions -/
theorem reported_functions_canon_ts_arrow {p : Prog PTok}
    (hc : p.bare.stripComments.CanonTsArrow = true) (hw : p.bare.stripComments.wfCore = true)
    (ha : p.bare.stripComments.noAdj = true) :
    scanFile Gen.typescript (render p) = .ok ((treeReportNamed p.located.effective).map (·.2)) ∧
    (treeReportNamed p.located.effective).map (·.1)
      = p.located.stripComments.nameToks.filter
          (fun t => !(markedLines p.located).contains t.line) ∧
    ∀ x ∈ treeReportNamed p.located.effective, x.2.name = x.1.val :=
  reported_functions_fragment fragTsArrow hc hw ha

/-- **C17 toggle, JavaScript with assigned arrow functions** (no hypothesis about the matcher) -/
theorem toggle_marker_canon_js_arrow {p p' : Prog PTok} {l : Nat}
    (hc : p.bare.stripComments.CanonJsArrow = true) (hw : p.bare.stripComments.wfCore = true)
    (ha : p.bare.stripComments.noAdj = true)
    (hcode : p'.located.stripComments = p.located.stripComments)
    (hmark : ∀ x, x ∈ markedLines p'.located ↔ x ∈ markedLines p.located ∨ x = l)
    (hind : p.located.effective.notNestedOn l = true) :
    scanFile Gen.javascript (render p) = .ok ((treeReportNamed p.located.effective).map (·.2)) ∧
    scanFile Gen.javascript (render p') = .ok (((treeReportNamed p.located.effective).filter
      (fun x => decide (x.1.line ≠ l))).map (·.2)) :=
  toggle_marker_fragment fragJsArrow hc hw ha hcode hmark hind

/-- **C17 toggle, TypeScript with assigned arrow functions** -/
theorem toggle_marker_canon_ts_arrow {p p' : Prog PTok} {l : Nat}
    (hc : p.bare.stripComments.CanonTsArrow = true) (hw : p.bare.stripComments.wfCore = true)
    (ha : p.bare.stripComments.noAdj = true)
    (hcode : p'.located.stripComments = p.located.stripComments)
    (hmark : ∀ x, x ∈ markedLines p'.located ↔ x ∈ markedLines p.located ∨ x = l)
    (hind : p.located.effective.notNestedOn l = true) :
    scanFile Gen.typescript (render p) = .ok ((treeReportNamed p.located.effective).map (·.2)) ∧
    scanFile Gen.typescript (render p') = .ok (((treeReportNamed p.located.effective).filter
      (fun x => decide (x.1.line ≠ l))).map (·.2)) :=
  toggle_marker_fragment fragTsArrow hc hw ha hcode hmark hind

/-- **C04, JavaScript with assigned arrow functions** (no hypothesis about the matcher) -/
theorem comments_blank_lines_invisible_canon_js_arrow {p p' : Prog PTok} {φ : Nat → Nat}
    (hc : p.bare.stripComments.CanonJsArrow = true)
    (hw : p.bare.stripComments.wfCore = true) (ha : p.bare.stripComments.noAdj = true)
    (hmove : p.located.stripComments.movedTo φ p'.located.stripComments = true)
    (hφ : MonoOn φ (p.located.stripComments.flat.map (·.line)))
    (hmark : ∀ t ∈ p.located.stripComments.nameToks,
      (markedLines p'.located).contains (φ t.line) = (markedLines p.located).contains t.line) :
    scanFile Gen.javascript (render p) = .ok (markedReport p) ∧
    scanFile Gen.javascript (render p') = .ok (markedReport p') ∧
    Forall2 (Measurement.movedBy φ) (markedReport p) (markedReport p') :=
  comments_blank_lines_invisible_fragment fragJsArrow hc hw ha hmove hφ hmark

/-- **C04, TypeScript with assigned arrow functions** -/
theorem comments_blank_lines_invisible_canon_ts_arrow {p p' : Prog PTok} {φ : Nat → Nat}
    (hc : p.bare.stripComments.CanonTsArrow = true)
    (hw : p.bare.stripComments.wfCore = true) (ha : p.bare.stripComments.noAdj = true)
    (hmove : p.located.stripComments.movedTo φ p'.located.stripComments = true)
    (hφ : MonoOn φ (p.located.stripComments.flat.map (·.line)))
    (hmark : ∀ t ∈ p.located.stripComments.nameToks,
      (markedLines p'.located).contains (φ t.line) = (markedLines p.located).contains t.line) :
    scanFile Gen.typescript (render p) = .ok (markedReport p) ∧
    scanFile Gen.typescript (render p') = .ok (markedReport p') ∧
    Forall2 (Measurement.movedBy φ) (markedReport p) (markedReport p') :=
  comments_blank_lines_invisible_fragment fragTsArrow hc hw ha hmove hφ hmark

/-- **MT3 for every fragment** (`fragC hL`, `fragJava`, `fragJs`, `fragTs`, `fragJsArrow`,
`fragTsArrow`): `_analyze_file` on the source text of a forest with comments and markers returns
`markedReport` (`markedReportFlat` for C) and its total. -/
theorem analyze_of_marked_fragment_text {L : Language} (F : Fragment L) {p : Prog PTok}
    (hc : F.holds p.bare.stripComments = true) (hw : p.bare.stripComments.wfCore = true)
    (ha : p.bare.stripComments.noAdj = true) (hs : p.Spaced = true) (hn : p.noWs = true) :
    analyze L (textOf p) (rawOf p) = .ok (markedReportOf L p, totalOf (markedReportOf L p)) :=
  analyze_of_scan hs hn (scan_of_rendered_marked_fragment F hc hw ha)

/-- **The TEXT-level theorem for a comment-free forest, without discovery hypothesis** (what
`C01text.analyze_of_tree_text_partial` states under the hypotheses `hh` / `hperm`): for a forest of
code tokens in a canonical fragment, structurally well-formed, no function directly followed by a
brace group, layout `Spaced`: `_analyze_file` on the source text returns the tree report and the
sum of its lengths. -/
theorem analyze_of_fragment_tree_text {L : Language} (F : Fragment L) {p : Prog PTok}
    (hc : F.holds p.bare = true) (hw : p.bare.wfCore = true) (ha : p.noAdj = true)
    (hcode : p.bare.allCode = true) (hs : p.Spaced = true) :
    analyze L (textOf p) (rawOf p) = .ok (TreeOps.reportOf L p, totalOf (TreeOps.reportOf L p)) := by
  have hw' : p.located.wfCore = true := by rw [Prog.located, wfCore_locate]; exact hw
  have ha' : p.located.noAdj = true := by rw [Prog.located, noAdj_locate]; exact ha
  have hc' : F.holds p.located = true := (F.sim (sim_locate p (1, 0))).trans hc
  obtain ⟨hs', hh, hperm⟩ := F.discovers hc' hw' ha'
  exact analyze_of_tree_text_partial F.brace hw ha hcode hs hh hperm

/-- the same for C, C++, C# in the words of `Canon` -/
theorem analyze_of_canon_tree_text {L : Language} (hL : L ∈ cFamily) {p : Prog PTok}
    (hc : p.bare.Canon = true) (hw : p.bare.wfCore = true) (ha : p.noAdj = true)
    (hcode : p.bare.allCode = true) (hs : p.Spaced = true) :
    analyze L (textOf p) (rawOf p) = .ok (TreeOps.reportOf L p, totalOf (TreeOps.reportOf L p)) :=
  analyze_of_fragment_tree_text (fragC hL) hc hw ha hcode hs

/-- **C17 "omitted exactly when" at TEXT level, every fragment**: `_analyze_file` on the source text
succeeds; its entries correspond one to one, in order, to the expected function nodes
(`expectedNames`) and carry their names. -/
theorem analyze_reported_functions_fragment {L : Language} (F : Fragment L) {p : Prog PTok}
    (hc : F.holds p.bare.stripComments = true) (hw : p.bare.stripComments.wfCore = true)
    (ha : p.bare.stripComments.noAdj = true) (hs : p.Spaced = true) (hn : p.noWs = true) :
    analyze L (textOf p) (rawOf p)
      = .ok ((langReportNamed L p.located.effective).map (·.2),
             totalOf ((langReportNamed L p.located.effective).map (·.2))) ∧
    (langReportNamed L p.located.effective).map (·.1) = expectedNames L p.located ∧
    ∀ x ∈ langReportNamed L p.located.effective, x.2.name = x.1.val := by
  obtain ⟨h1, h2, h3⟩ := reported_functions_fragment F hc hw ha
  exact ⟨analyze_of_scan hs hn h1, h2, h3⟩

/-- **C17 toggle at TEXT level, every fragment**: the two source texts differ by a marker comment on
line `l` that does not move the code; `_analyze_file` on the second text returns the report of the
first without the entries of the functions named on line `l`. -/
theorem analyze_toggle_marker_fragment {L : Language} (F : Fragment L) {p p' : Prog PTok} {l : Nat}
    (hc : F.holds p.bare.stripComments = true) (hw : p.bare.stripComments.wfCore = true)
    (ha : p.bare.stripComments.noAdj = true)
    (hs : p.Spaced = true) (hn : p.noWs = true) (hs' : p'.Spaced = true) (hn' : p'.noWs = true)
    (hcode : p'.located.stripComments = p.located.stripComments)
    (hmark : ∀ x, x ∈ markedLines p'.located ↔ x ∈ markedLines p.located ∨ x = l)
    (hind : toggleOK L l p.located.effective = true) :
    analyze L (textOf p) (rawOf p)
      = .ok ((langReportNamed L p.located.effective).map (·.2),
             totalOf ((langReportNamed L p.located.effective).map (·.2))) ∧
    analyze L (textOf p') (rawOf p')
      = .ok (((langReportNamed L p.located.effective).filter
                (fun x => decide (x.1.line ≠ l))).map (·.2),
             totalOf (((langReportNamed L p.located.effective).filter
                (fun x => decide (x.1.line ≠ l))).map (·.2))) := by
  obtain ⟨h1, h2⟩ := toggle_marker_fragment F hc hw ha hcode hmark hind
  exact ⟨analyze_of_scan hs hn h1, analyze_of_scan hs' hn' h2⟩

/-- **C04 at TEXT level, every fragment**: two source texts whose comment-free forests have the same
shape, kinds and texts, the lines related by `φ` (comments, whitespace and blank lines inserted or
deleted anywhere, no marker inserted on / deleted from a name line).  `_analyze_file` succeeds on
both, and the reports correspond entry by entry: same names and lengths, lines mapped by `φ`. -/
theorem analyze_comments_blank_lines_invisible_fragment {L : Language} (F : Fragment L)
    {p p' : Prog PTok} {φ : Nat → Nat} (hc : F.holds p.bare.stripComments = true)
    (hw : p.bare.stripComments.wfCore = true) (ha : p.bare.stripComments.noAdj = true)
    (hs : p.Spaced = true) (hn : p.noWs = true) (hs' : p'.Spaced = true) (hn' : p'.noWs = true)
    (hmove : p.located.stripComments.movedTo φ p'.located.stripComments = true)
    (hφ : MonoOn φ (p.located.stripComments.flat.map (·.line)))
    (hmark : ∀ t ∈ p.located.stripComments.nameToks,
      (markedLines p'.located).contains (φ t.line) = (markedLines p.located).contains t.line) :
    analyze L (textOf p) (rawOf p) = .ok (markedReportOf L p, totalOf (markedReportOf L p)) ∧
    analyze L (textOf p') (rawOf p') = .ok (markedReportOf L p', totalOf (markedReportOf L p')) ∧
    Forall2 (Measurement.movedBy φ) (markedReportOf L p) (markedReportOf L p') := by
  obtain ⟨h1, h2, h3⟩ := comments_blank_lines_invisible_fragment F hc hw ha hmove hφ hmark
  exact ⟨analyze_of_scan hs hn h1, analyze_of_scan hs' hn' h2, h3⟩

/-! ## MT3'': block comments and literals over SEVERAL LINES at text level

`Prog.Spaced` (`Model/ProgText.lean`) excludes token texts with line breaks, so a block comment
`/* … ⏎ … */` was covered at token level only.  `mlTextOf` / `mlRawOf` / `Prog.SpacedML`
(`Lemmas/ProgTextMulti.lean`, the text model of the Python trees applied to the token sequence of a
brace forest) have no such restriction; without line breaks inside tokens they ARE `textOf` /
`rawOf` (`ml_text_is_text`). -/

/-- the raw stream tiles the text (the lexer contract of C16) -/
theorem rawOk_mltext (p : Prog PTok) : RawOk (mlTextOf p) (mlRawOf p) :=
  C01pytext.rawOk_pytoks _

/-- `noWs` of the forest is `noWs` of the shifted token list -/
theorem noWs_incFirst {p : Prog PTok} (hn : p.noWs = true) :
    (incFirst p.flat).all (fun x => !x.bare.isWhitespace) = true := by
  unfold Prog.noWs at hn
  cases h : p.flat with
  | nil => rfl
  | cons a as =>
    rw [h] at hn
    simpa [incFirst, PTok.bare] using hn

/-- **`lex` on the text of a forest with multi-line tokens returns the rendering**: every token of
the forest, block comments over several lines included, with kind, type, text, line and column. -/
theorem lex_of_marked_tree_mltext {p : Prog PTok} (hs : p.SpacedML = true) (hn : p.noWs = true) :
    lex (mlTextOf p) (mlRawOf p) false = render p := by
  rw [render_eq, ← place_incFirst]
  exact C01pytext.lex_of_pytoks_text hs (noWs_incFirst hn)

/-- without line breaks inside token texts nothing changes: `mlTextOf` / `mlRawOf` are `textOf` /
`rawOf` -/
theorem ml_text_is_text {p : Prog PTok} (hl : ∀ t ∈ p.flat, 10 ∉ t.val) :
    mlTextOf p = textOf p ∧ mlRawOf p = rawOf p :=
  mlTextOf_eq_textOf hl

/-- **MT3 for every fragment, token texts over several lines allowed**: `_analyze_file` on the source
text of a forest with comments (block comments over several lines included) and markers returns
`markedReport` (`markedReportFlat` for C) and its total. -/
theorem analyze_of_marked_fragment_mltext {L : Language} (F : Fragment L) {p : Prog PTok}
    (hc : F.holds p.bare.stripComments = true) (hw : p.bare.stripComments.wfCore = true)
    (ha : p.bare.stripComments.noAdj = true) (hs : p.SpacedML = true) (hn : p.noWs = true) :
    analyze L (mlTextOf p) (mlRawOf p) = .ok (markedReportOf L p, totalOf (markedReportOf L p)) := by
  unfold analyze
  rw [lex_of_marked_tree_mltext hs hn, scan_of_rendered_marked_fragment F hc hw ha]
  rfl

/-! ## MT4: the driver operation -/

/-- what the five flags of the `marktree` reply mean -/
theorem markOp_flags_iff (F : MarkOps.Frag) (L : Language) (p : Prog PTok) :
    (markOp F L p).good = true ↔
      F.holds p.bare.stripComments = true ∧ p.bare.stripComments.wfCore = true ∧
      p.bare.stripComments.noAdj = true ∧ p.Spaced = true ∧ p.noWs = true := by
  simp only [MarkReply.good, markOp, Bool.and_eq_true, and_assoc]

/-- **MT4.  The `marktree` operation of the driver is sound.**  Let `(name, L)` be one of the
regenerated languages (`Gen.all`) and `F` the canonical fragment the driver associates with its name
(none for Python).  If the five flags of the reply are all true - the comment-free forest lies in
the fragment, is structurally well-formed, has no function directly followed by a brace group; the
forest with its comments is `Spaced` and has no whitespace token -, then `_analyze_file` of the model,
applied to the text and the raw stream of the reply, returns the report of the reply (read off the
tree after dropping comments and dissolving the marked functions) and its total.  The operation
evaluates nothing of the matcher and does not call `scanFile`. -/
theorem markOp_sound {name : String} {L : Language} {F : MarkOps.Frag} {p : Prog PTok}
    (hmem : (name, L) ∈ Gen.all) (hF : fragOfName name = some F)
    (hg : (markOp F L p).good = true) :
    analyze L (markOp F L p).text (markOp F L p).raw
      = .ok ((markOp F L p).report, totalOf (markOp F L p).report) := by
  obtain ⟨hc, hw, ha, hs, hn⟩ := (markOp_flags_iff F L p).1 hg
  simp only [markOp]
  simp only [Frag.holds, Bool.or_eq_true] at hc
  simp only [Gen.all, List.mem_cons, Prod.mk.injEq, List.not_mem_nil, or_false] at hmem
  rcases hmem with ⟨rfl, rfl⟩ | ⟨rfl, rfl⟩ | ⟨rfl, rfl⟩ | ⟨rfl, rfl⟩ | ⟨rfl, rfl⟩ | ⟨rfl, rfl⟩
    | ⟨rfl, rfl⟩
  · -- C
    cases hF
    rcases hc with hc | hc
    · exact analyze_of_marked_canon_text (L := Gen.c) (by simp [cFamily]) hc hw ha hs hn
    · cases hc
  · -- C++
    cases hF
    rcases hc with hc | hc
    · exact analyze_of_marked_canon_text (L := Gen.cpp) (by simp [cFamily]) hc hw ha hs hn
    · cases hc
  · -- C#
    cases hF
    rcases hc with hc | hc
    · exact analyze_of_marked_canon_text (L := Gen.csharp) (by simp [cFamily]) hc hw ha hs hn
    · cases hc
  · -- Java
    cases hF
    rcases hc with hc | hc
    · exact analyze_java_of_marked_canon_text hc hw ha hs hn
    · cases hc
  · -- JavaScript
    cases hF
    rcases hc with hc | hc
    · exact analyze_js_of_marked_canon_text hc hw ha hs hn
    · exact analyze_js_arrow_of_marked_canon_text hc hw ha hs hn
  · -- Python: no fragment
    cases hF
  · -- TypeScript
    cases hF
    rcases hc with hc | hc
    · exact analyze_ts_of_marked_canon_text hc hw ha hs hn
    · exact analyze_ts_arrow_of_marked_canon_text hc hw ha hs hn

/-! ## non-vacuity -/

namespace Ex
open CL.C01tree.Ex CL.C01text.Ex

/-- the file

```
 1  // nocl                                   a marker on a line without a name, directly above `f`
 2  int f ( int a , /* in header */           comment inside a multi-line header
 3          int b ) /* gap */ { // after brace    comment in the gap, comment after `{`
 4    g ( ) { // nocl: skip                   MARKED, nested in the unmarked `f`
 5      a ;
 6      /* only */                            comment-only line
 7    }
 8    n ( ) { z ; }                           unmarked, nested in `f`
 9    b ; /* trailing */
10  }
11  o ( ) { /* NOCL */                        MARKED, encloses the unmarked `k`
12    k ( ) {
13      c ;
14    }
15  }
16  h ( ) { e ; } // not nocl                 a decoy: not a marker
```

as a forest of tokens without locations (9 comment tokens, no whitespace token) -/
def cMarks : Prog PTok :=
  .toks [pt 5 (cp "// nocl") 0 0, pt 1 (cp "int") 1 0] <|
  .fn (.toks [pt 2 (cp "f") 0 3, pt 3 (cp "(") 0 1, pt 1 (cp "int") 0 1, pt 2 (cp "a") 0 3, pt 3 (cp ",") 0 1, pt 5 (cp "/* in header */") 0 1, pt 1 (cp "int") 1 8, pt 2 (cp "b") 0 3, pt 3 (cp ")") 0 1] <|
      .nil) 0 [pt 5 (cp "/* gap */") 0 1]
      (pt 3 (cp "{") 0 9) (pt 3 (cp "}") 1 0)
      (.toks [pt 5 (cp "// after brace") 0 1] <|
      .fn (.toks [pt 2 (cp "g") 1 2, pt 3 (cp "(") 0 1, pt 3 (cp ")") 0 1] <|
          .nil) 0 []
          (pt 3 (cp "{") 0 1) (pt 3 (cp "}") 1 2)
          (.toks [pt 5 (cp "// nocl: skip") 0 1, pt 2 (cp "a") 1 4, pt 3 (cp ";") 0 1, pt 5 (cp "/* only */") 1 4] <|
          .nil) <|
      .fn (.toks [pt 2 (cp "n") 1 2, pt 3 (cp "(") 0 1, pt 3 (cp ")") 0 1] <|
          .nil) 0 []
          (pt 3 (cp "{") 0 1) (pt 3 (cp "}") 0 1)
          (.toks [pt 2 (cp "z") 0 1, pt 3 (cp ";") 0 1] <|
          .nil) <|
      .toks [pt 2 (cp "b") 1 2, pt 3 (cp ";") 0 1, pt 5 (cp "/* trailing */") 0 1] <|
      .nil) <|
  .fn (.toks [pt 2 (cp "o") 1 0, pt 3 (cp "(") 0 1, pt 3 (cp ")") 0 1] <|
      .nil) 0 []
      (pt 3 (cp "{") 0 1) (pt 3 (cp "}") 1 0)
      (.toks [pt 5 (cp "/* NOCL */") 0 1] <|
      .fn (.toks [pt 2 (cp "k") 1 2, pt 3 (cp "(") 0 1, pt 3 (cp ")") 0 1] <|
          .nil) 0 []
          (pt 3 (cp "{") 0 1) (pt 3 (cp "}") 1 2)
          (.toks [pt 2 (cp "c") 1 4, pt 3 (cp ";") 0 1] <|
          .nil) <|
      .nil) <|
  .fn (.toks [pt 2 (cp "h") 1 0, pt 3 (cp "(") 0 1, pt 3 (cp ")") 0 1] <|
      .nil) 0 []
      (pt 3 (cp "{") 0 1) (pt 3 (cp "}") 0 1)
      (.toks [pt 2 (cp "e") 0 1, pt 3 (cp ";") 0 1] <|
      .nil) <|
  .toks [pt 5 (cp "// not nocl") 0 1] <|
  .nil

/-- the source text of the forest is the file shown above -/
theorem cMarks_text : textOf cMarks = cp "// nocl
int f ( int a , /* in header */
        int b ) /* gap */ { // after brace
  g ( ) { // nocl: skip
    a ;
    /* only */
  }
  n ( ) { z ; }
  b ; /* trailing */
}
o ( ) { /* NOCL */
  k ( ) {
    c ;
  }
}
h ( ) { e ; } // not nocl
" := by
  decide +kernel

/-- all five flags of the `marktree` reply are true, for the fragment of the C family; the forest
itself is not comment-free -/
theorem cMarks_good : (markOp .cfam Gen.cpp cMarks).good = true ∧
    (markOp .cfam Gen.c cMarks).good = true ∧ cMarks.bare.allCode = false := by decide +kernel

/-- the marked lines: 1 (no name there), 4 (`g`), 11 (`o`); line 16 carries a decoy -/
theorem cMarks_lines : markedLines cMarks.located = [1, 4, 11] := by decide +kernel

/-- the report read off the tree, C++ / C#: `f` with its 7 own code lines 2, 3, 4, 5, 7, 9, 10 (the
code lines of the suppressed `g` count for `f`, line 6 is a comment, line 8 belongs to `n`); `k` is
reported although the enclosing `o` is suppressed -/
theorem cMarks_report : markedReportOf Gen.cpp cMarks
    = [⟨[102], 2, 5, 10, 2, 7⟩, ⟨[110], 8, 3, 8, 16, 1⟩, ⟨[107], 12, 3, 14, 4, 3⟩,
       ⟨[104], 16, 1, 16, 14, 1⟩] := by decide +kernel

/-- the report read off the tree, C: `f` with all its 8 code lines (`n` is hidden in it) -/
theorem cMarks_reportFlat : markedReportOf Gen.c cMarks
    = [⟨[102], 2, 5, 10, 2, 8⟩, ⟨[107], 12, 3, 14, 4, 3⟩, ⟨[104], 16, 1, 16, 14, 1⟩] := by
  decide +kernel

/-- MT4 applies to C++: `_analyze_file` on the source text returns the four functions, total 12 -/
theorem cMarks_analyze_cpp : analyze Gen.cpp (textOf cMarks) (rawOf cMarks)
    = .ok ([⟨[102], 2, 5, 10, 2, 7⟩, ⟨[110], 8, 3, 8, 16, 1⟩, ⟨[107], 12, 3, 14, 4, 3⟩,
            ⟨[104], 16, 1, 16, 14, 1⟩], 12) := by
  have h := markOp_sound (name := "C++") (L := Gen.cpp) (F := .cfam) (p := cMarks)
    (by simp [Gen.all]) rfl cMarks_good.1
  simp only [markOp] at h
  rw [h, cMarks_report]
  rfl

/-- ... and to C: three functions, total 12 -/
theorem cMarks_analyze_c : analyze Gen.c (textOf cMarks) (rawOf cMarks)
    = .ok ([⟨[102], 2, 5, 10, 2, 8⟩, ⟨[107], 12, 3, 14, 4, 3⟩, ⟨[104], 16, 1, 16, 14, 1⟩], 12) := by
  have h := markOp_sound (name := "C") (L := Gen.c) (F := .cfam) (p := cMarks)
    (by simp [Gen.all]) rfl cMarks_good.2.1
  simp only [markOp] at h
  rw [h, cMarks_reportFlat]
  rfl

/-- the conclusion agrees with the independent kernel evaluation of the model of `scan_file` on the
tokens that the model of `lex` returns for the text (55 tokens, 9 of them comments) -/
theorem cMarks_scan_eval : scanFile Gen.cpp (lex (textOf cMarks) (rawOf cMarks) false)
    = .ok [⟨[102], 2, 5, 10, 2, 7⟩, ⟨[110], 8, 3, 8, 16, 1⟩, ⟨[107], 12, 3, 14, 4, 3⟩,
           ⟨[104], 16, 1, 16, 14, 1⟩] :=
  scanFile_eval (by decide +kernel)

example : (lex (textOf cMarks) (rawOf cMarks) false).length = 55 ∧
    ((lex (textOf cMarks) (rawOf cMarks) false).filter Tok.isComment).length = 9 := by
  decide +kernel

/-- the JavaScript / TypeScript file

```
1  const a = ( x ) /* gap */ => { // keeps     an assigned arrow function, comment in its gap
2    function g ( ) { z ; }
3    const b = async ( y ) => { //nocl x        MARKED arrow function, nested in `a`
4      w ;
5    } ;
6  }
7  /* nocl */ c = ( ) => { u ; }                MARKED by a block comment in front of the name
```
-/
def jsMarks : Prog PTok :=
  .fn (.toks [pt 1 (cp "const") 0 0, pt 2 (cp "a") 0 5, pt 4 (cp "=") 0 1, pt 3 (cp "(") 0 1, pt 2 (cp "x") 0 1, pt 3 (cp ")") 0 1] <|
      .nil) 1 [pt 5 (cp "/* gap */") 0 1, pt 3 (cp "=>") 0 9]
      (pt 3 (cp "{") 0 2) (pt 3 (cp "}") 1 0)
      (.toks [pt 5 (cp "// keeps") 0 1] <|
      .fn (.toks [pt 1 (cp "function") 1 2, pt 2 (cp "g") 0 8, pt 3 (cp "(") 0 1, pt 3 (cp ")") 0 1] <|
          .nil) 1 []
          (pt 3 (cp "{") 0 1) (pt 3 (cp "}") 0 1)
          (.toks [pt 2 (cp "z") 0 1, pt 3 (cp ";") 0 1] <|
          .nil) <|
      .fn (.toks [pt 1 (cp "const") 1 2, pt 2 (cp "b") 0 5, pt 4 (cp "=") 0 1, pt 1 (cp "async") 0 1, pt 3 (cp "(") 0 5, pt 2 (cp "y") 0 1, pt 3 (cp ")") 0 1] <|
          .nil) 1 [pt 3 (cp "=>") 0 1]
          (pt 3 (cp "{") 0 2) (pt 3 (cp "}") 1 2)
          (.toks [pt 5 (cp "//nocl x") 0 1, pt 2 (cp "w") 1 4, pt 3 (cp ";") 0 1] <|
          .nil) <|
      .toks [pt 3 (cp ";") 0 1] <|
      .nil) <|
  .toks [pt 5 (cp "/* nocl */") 1 0] <|
  .fn (.toks [pt 2 (cp "c") 0 10, pt 4 (cp "=") 0 1, pt 3 (cp "(") 0 1, pt 3 (cp ")") 0 1] <|
      .nil) 0 [pt 3 (cp "=>") 0 1]
      (pt 3 (cp "{") 0 2) (pt 3 (cp "}") 0 1)
      (.toks [pt 2 (cp "u") 0 1, pt 3 (cp ";") 0 1] <|
      .nil) <|
  .nil

theorem jsMarks_text : textOf jsMarks = cp "const a = ( x ) /* gap */ => { // keeps
  function g ( ) { z ; }
  const b = async ( y ) => { //nocl x
    w ;
  } ;
}
/* nocl */ c = ( ) => { u ; }
" := by
  decide +kernel

/-- all flags are true for JavaScript and for TypeScript; the comment-free forest is in the ARROW
fragments only (`CanonJs` / `CanonTs` exclude assigned arrow functions) -/
theorem jsMarks_good : (markOp .js Gen.javascript jsMarks).good = true ∧
    (markOp .ts Gen.typescript jsMarks).good = true ∧
    jsMarks.bare.stripComments.CanonJs = false ∧ jsMarks.bare.stripComments.CanonTs = false ∧
    jsMarks.bare.stripComments.CanonJsArrow = true ∧
    jsMarks.bare.stripComments.CanonTsArrow = true := by decide +kernel

theorem jsMarks_lines : markedLines jsMarks.located = [3, 7] := by decide +kernel

/-- `a` with the 5 own lines 1, 3, 4, 5, 6 (the lines of the suppressed arrow function `b` count for
`a`; line 2 belongs to `g`), `g`; `b` and `c` are suppressed -/
theorem jsMarks_report : markedReport jsMarks
    = [⟨[97], 1, 1, 6, 2, 5⟩, ⟨[103], 2, 3, 2, 25, 1⟩] := by decide +kernel

/-- MT4 for JavaScript and TypeScript on the arrow example -/
theorem jsMarks_analyze :
    analyze Gen.javascript (textOf jsMarks) (rawOf jsMarks)
      = .ok ([⟨[97], 1, 1, 6, 2, 5⟩, ⟨[103], 2, 3, 2, 25, 1⟩], 6) ∧
    analyze Gen.typescript (textOf jsMarks) (rawOf jsMarks)
      = .ok ([⟨[97], 1, 1, 6, 2, 5⟩, ⟨[103], 2, 3, 2, 25, 1⟩], 6) := by
  have h1 := markOp_sound (name := "JavaScript") (L := Gen.javascript) (F := .js) (p := jsMarks)
    (by simp [Gen.all]) rfl jsMarks_good.1
  have h2 := markOp_sound (name := "TypeScript") (L := Gen.typescript) (F := .ts) (p := jsMarks)
    (by simp [Gen.all]) rfl jsMarks_good.2.1
  simp only [markOp] at h1 h2
  have hr1 : markedReportOf Gen.javascript jsMarks = markedReport jsMarks := rfl
  have hr2 : markedReportOf Gen.typescript jsMarks = markedReport jsMarks := rfl
  rw [hr1, jsMarks_report] at h1
  rw [hr2, jsMarks_report] at h2
  exact ⟨h1, h2⟩

/-- ... in agreement with the kernel evaluation of `scan_file` on the lexed text -/
theorem jsMarks_scan_eval : scanFile Gen.javascript (lex (textOf jsMarks) (rawOf jsMarks) false)
    = .ok [⟨[97], 1, 1, 6, 2, 5⟩, ⟨[103], 2, 3, 2, 25, 1⟩] :=
  scanFile_eval (by decide +kernel)

/-! ### MT3' on the examples -/

/-- the comment-free text-level theorem on `cppTree` (the file of `Props/C01tree.lean`): no
discovery hypothesis; the conclusion is the one `C01text.Ex.cpp_analyze` obtained from the kernel
evaluation of `extract_headers` -/
example : analyze Gen.cpp (textOf cppTree) (rawOf cppTree)
    = .ok ([⟨[109, 49], 3, 3, 3, 17, 1⟩, ⟨[109, 50], 4, 3, 4, 31, 1⟩, ⟨[102], 6, 1, 13, 2, 4⟩,
            ⟨[103], 7, 3, 10, 4, 3⟩, ⟨[104], 8, 5, 8, 18, 1⟩, ⟨[107], 12, 3, 12, 16, 1⟩], 11) := by
  rw [analyze_of_canon_tree_text (L := Gen.cpp) (by simp [cFamily]) C01full.Ex.cppTree_canon
    cpp_wf.1 cpp_wf.2.1 cpp_wf.2.2 cpp_spaced]
  have : TreeOps.reportOf Gen.cpp cppTree = treeReport cppTree.located := rfl
  rw [this, cpp_treeReport]; rfl

/-- `cMarks` without its first line (the marker comment that names nothing): every code line moves
up by one -/
def cMoved : Prog PTok :=
  match cMarks with
  | .leaf _ (.leaf t rest) => .leaf { t with nl := 0 } rest
  | q => q

/-- the hypotheses of the text-level C04 theorem for `cMarks` -> `cMoved` with `φ l = l - 1` -/
theorem cMoved_hyps : cMoved.Spaced = true ∧ cMoved.noWs = true ∧
    cMarks.located.stripComments.movedTo (· - 1) cMoved.located.stripComments = true ∧
    MonoOn (· - 1) (cMarks.located.stripComments.flat.map (·.line)) ∧
    (∀ t ∈ cMarks.located.stripComments.nameToks,
      (markedLines cMoved.located).contains (t.line - 1)
        = (markedLines cMarks.located).contains t.line) ∧
    markedLines cMoved.located = [3, 10] := by decide +kernel

/-- **C04 at text level on the example** (C++): both analyses, and the entry-by-entry
correspondence; the report of the shorter file has the same names and lengths, one line up -/
theorem cMoved_analyze :
    analyze Gen.cpp (textOf cMoved) (rawOf cMoved)
      = .ok ([⟨[102], 1, 5, 9, 2, 7⟩, ⟨[110], 7, 3, 7, 16, 1⟩, ⟨[107], 11, 3, 13, 4, 3⟩,
              ⟨[104], 15, 1, 15, 14, 1⟩], 12) ∧
    Forall2 (Measurement.movedBy (· - 1)) (markedReportOf Gen.cpp cMarks)
      (markedReportOf Gen.cpp cMoved) := by
  have hg := (markOp_flags_iff .cfam Gen.cpp cMarks).1 cMarks_good.1
  have hc : (fragC (L := Gen.cpp) (by simp [cFamily])).holds cMarks.bare.stripComments = true := by
    have := hg.1
    simp only [MarkOps.Frag.holds, MarkOps.Frag.plain, MarkOps.Frag.arrow, Bool.or_false] at this
    exact this
  obtain ⟨_, h2, h3⟩ := analyze_comments_blank_lines_invisible_fragment
    (fragC (L := Gen.cpp) (by simp [cFamily])) hc hg.2.1 hg.2.2.1 hg.2.2.2.1 hg.2.2.2.2
    cMoved_hyps.1 cMoved_hyps.2.1 cMoved_hyps.2.2.1 cMoved_hyps.2.2.2.1 cMoved_hyps.2.2.2.2.1
  refine ⟨h2.trans ?_, h3⟩
  decide +kernel

/-- `jsMarks` with an ordinary comment of the same width instead of the marker in front of `c` -/
def jsUnmarked : Prog PTok :=
  match jsMarks with
  | .fn h k g op cl b (.leaf t rest) => .fn h k g op cl b (.leaf { t with val := cp "/* note */" } rest)
  | q => q

/-- the hypotheses of the arrow toggle theorem for line 7 (`c` is not nested) -/
theorem jsUnmarked_hyps :
    jsUnmarked.bare.stripComments.CanonJsArrow = true ∧
    jsUnmarked.bare.stripComments.wfCore = true ∧ jsUnmarked.bare.stripComments.noAdj = true ∧
    jsUnmarked.Spaced = true ∧ jsUnmarked.noWs = true ∧ jsMarks.Spaced = true ∧ jsMarks.noWs = true ∧
    jsMarks.located.stripComments.sameUpTo (fun a b => a == b)
      jsUnmarked.located.stripComments = true ∧
    markedLines jsUnmarked.located = [3] ∧
    jsUnmarked.located.effective.notNestedOn 7 = true := by decide +kernel

/-- **C17 toggle at text level, assigned arrow functions**: the text with the ordinary comment
reports `a`, `g` and `c`; the text with the marker `/* nocl */` in front of `c` reports the same
without the entry of `c` -/
theorem jsUnmarked_toggle :
    analyze Gen.javascript (textOf jsUnmarked) (rawOf jsUnmarked)
      = .ok ([⟨[97], 1, 1, 6, 2, 5⟩, ⟨[103], 2, 3, 2, 25, 1⟩, ⟨[99], 7, 12, 7, 30, 1⟩], 7) ∧
    analyze Gen.javascript (textOf jsMarks) (rawOf jsMarks)
      = .ok ([⟨[97], 1, 1, 6, 2, 5⟩, ⟨[103], 2, 3, 2, 25, 1⟩], 6) := by
  have h := analyze_toggle_marker_fragment fragJsArrow (p := jsUnmarked) (p' := jsMarks) (l := 7)
    jsUnmarked_hyps.1 jsUnmarked_hyps.2.1 jsUnmarked_hyps.2.2.1 jsUnmarked_hyps.2.2.2.1
    jsUnmarked_hyps.2.2.2.2.1 jsUnmarked_hyps.2.2.2.2.2.1 jsUnmarked_hyps.2.2.2.2.2.2.1
    (eq_of_sameUpTo_beq jsUnmarked_hyps.2.2.2.2.2.2.2.1)
    (by
      intro x
      rw [jsMarks_lines, jsUnmarked_hyps.2.2.2.2.2.2.2.2.1]
      simp only [List.mem_cons, List.not_mem_nil, or_false])
    jsUnmarked_hyps.2.2.2.2.2.2.2.2.2
  refine ⟨h.1.trans ?_, h.2.trans ?_⟩ <;> decide +kernel

/-- ... in agreement with the kernel evaluation of `scan_file` on the lexed text -/
example : scanFile Gen.javascript (lex (textOf jsUnmarked) (rawOf jsUnmarked) false)
    = .ok [⟨[97], 1, 1, 6, 2, 5⟩, ⟨[103], 2, 3, 2, 25, 1⟩, ⟨[99], 7, 12, 7, 30, 1⟩] :=
  scanFile_eval (by decide +kernel)

/-- the C / C++ file
```
1  f ( ) { /* a
2     b */ x ;
3    g ( ) { y ; }   // nocl
4  }
```
with a block comment over two lines as ONE token (the next token `x` stands on the comment's LAST
line, behind it) -/
def mlMarks : Prog PTok :=
  .fn (.toks [pt 2 (cp "f") 0 0, pt 3 (cp "(") 0 1, pt 3 (cp ")") 0 1] .nil) 0 []
      (pt 3 (cp "{") 0 1) (pt 3 (cp "}") 1 0)
      (.toks [pt 5 (cp "/* a\n   b */") 0 1, pt 2 (cp "x") 1 8, pt 3 (cp ";") 0 1] <|
       .fn (.toks [pt 2 (cp "g") 1 2, pt 3 (cp "(") 0 1, pt 3 (cp ")") 0 1] .nil) 0 []
          (pt 3 (cp "{") 0 1) (pt 3 (cp "}") 0 1)
          (.toks [pt 2 (cp "y") 0 1, pt 3 (cp ";") 0 1] .nil) <|
       .toks [pt 5 (cp "// nocl") 0 3] .nil) <|
  .nil

/-- the text is the file shown; the forest is outside `Spaced` (a token text with a line break) and
inside `SpacedML`; `_analyze_file` returns `f` with its 4 code lines (the marked `g` is
suppressed, its line counts for `f`) - by the theorem, and by kernel evaluation of the model on the
lexed text -/
theorem mlMarks_analyze :
    mlTextOf mlMarks = cp "f ( ) { /* a\n   b */ x ;\n  g ( ) { y ; }   // nocl\n}\n" ∧
    mlMarks.Spaced = false ∧ mlMarks.SpacedML = true ∧
    analyze Gen.cpp (mlTextOf mlMarks) (mlRawOf mlMarks) = .ok ([⟨[102], 1, 1, 4, 2, 4⟩], 4) ∧
    scanFile Gen.cpp (lex (mlTextOf mlMarks) (mlRawOf mlMarks) false)
      = .ok [⟨[102], 1, 1, 4, 2, 4⟩] := by
  refine ⟨by decide +kernel, by decide +kernel, by decide +kernel, ?_,
    scanFile_eval (by decide +kernel)⟩
  rw [analyze_of_marked_fragment_mltext (fragC (L := Gen.cpp) (by simp [cFamily]))
    (by decide +kernel) (by decide +kernel) (by decide +kernel) (by decide +kernel)
    (by decide +kernel)]
  decide +kernel

/-- the two layout flags are needed for MT2 (`C01text.spaced_needed`, `C01text.noWs_needed`: forests on
which `lex` does not return the rendering) -/
example := And.intro C01text.spaced_needed C01text.noWs_needed

end Ex

end CL.C01marktext
