import CodeLimit.Props.C01pyfull
import CodeLimit.Props.C01text
import CodeLimit.Props.C16
import CodeLimit.Lemmas.PyTreeText
import CodeLimit.Model.PyTreeOps
import CodeLimit.Lemmas.ScanEval
/-!
# C01 for Python, stage T: from an indentation tree to source TEXT, the lexer contract and
`_analyze_file`

`Props/C01pyfull.lean` goes from a well-formed forest `t : PyProg PTok` to the report of
`scan_file` on the located tokens `pyRender t`.  This file adds the step below it
(`CodeLimit/Model/PyTreeText.lean`), the Python counterpart of `Props/C01text.lean`:

* `pyTextOf t` - the source text of the forest: every token's text at the (line, column) that
  `pyRender` assigns to it, blanks (32) and newlines (10) in between, one trailing newline;
* `pyRawOf t` - the raw token stream a lexer is assumed to produce for that text: the tokens at
  their offsets and one whitespace token (kind 6) per gap;
* `PyProg.Spaced t` (decidable) - token texts are not empty; no token starts before its
  predecessor ends; the first token follows at least one "line break" (`nl ≥ 1`, it stands on
  line `nl`).  Token texts MAY contain line breaks (a docstring over several lines is one token).

Results, for EVERY forest:

* T1 `rawOk_pytext`, `pytext_is_raw_values`, `pyraw_values_nonempty` - the raw stream satisfies
  the lexer contract of C16 on the text (and covers all of it);
* T2 `lex_of_pytree_text` - `lex` on (text, raw stream) returns exactly the rendering: same kind,
  type, text, line and column for every token; `pytext_at_rendered_location`, `pytext_nonblank`,
  `pytext_ends_with_newline` describe the text without reference to `lex`;
  `pytext_is_textFrom`: for token texts without line breaks the text is the `textFrom` of the
  brace languages;
* T3 `analyze_of_pytree_text` - with `C01pyfull.scan_of_pytree`: `_analyze_file` on the text of a
  WELL-FORMED, spaced forest returns the tree report and its total.  No discovery hypothesis;
* T3c `analyze_of_pytoks_text` - the same for a token list with comment tokens interspersed whose
  code tokens are the rendering of a well-formed forest (through `scan_of_pytree_all`);
* T3m `analyze_of_pytoks_marked_text` - the same with comments AND suppression markers, without the
  hypothesis "no function is marked": the result is `pyMarkedReport` (`C01pyfull`, Part 3);
* `lex_of_pytiling` - T2 for ANY raw stream that tiles the text and has the same non-whitespace
  tokens; `Ex.docLast_end` - the expected END location when the last token of a body spans lines;
* T4 `pyTreeOp_sound` - the driver operation `pytree` (`Model/PyTreeOps.lean`): if the two flags
  it reports are true, `_analyze_file` on the returned text and raw stream returns the returned
  report; T4c `pyToksOp_sound` - the same for the operation `pytoks` (files with comments, five
  flags).

`spaced_needed`, `spaced_needed_multiline`, `first_line_break_needed`, `noWs_needed`: the side
conditions of T2 cannot be dropped; `Ex.wf_needed`: nor can well-formedness in T3.
-/
namespace CL.C01pytext

open CL.PyTreeOps CL.C01text CL.PyT

/-! ## T1: the lexer contract -/

/-- **T1.  The raw stream satisfies the lexer contract** (`RawOk`, C16) on the text of the
forest: the first raw token starts at offset 0, every raw token's value is the text found at
its offset, and each token starts where the previous one ends.  No side condition. -/
theorem rawOk_pytext (t : PyProg PTok) : RawOk (pyTextOf t) (pyRawOf t) :=
  rawOk_pyRawFrom t.flat 0 (0, 0) [10]

/-- the same for any token list that begins a file (comment tokens included) -/
theorem rawOk_pytoks (l : List PTok) : RawOk (pyTextOfToks l) (pyRawOfToks l) :=
  rawOk_pyRawFrom l 0 (0, 0) [10]

/-- ... and the raw tokens cover the WHOLE text: it is the concatenation of their values -/
theorem pytext_is_raw_values (t : PyProg PTok) : pyTextOf t = (pyRawOf t).flatMap (·.val) :=
  pyTextFrom_eq_join t.flat 0 (0, 0) [10]

/-- no raw token is empty (the second clause of the lexer contract recorded for Pygments:
"no empty non-`Text` token", needed by `C16.kept_strictly_increasing`) -/
theorem pyraw_values_nonempty {t : PyProg PTok} (hs : t.Spaced = true) :
    ∀ r ∈ pyRawOf t, r.val ≠ [] :=
  pyRawFrom_nonempty t.flat 0 (0, 0) [10] hs

/-! ## T2: `lex` recovers the rendering -/

/-- `lex` on the text of a token list that begins a file returns its layout: for every token
list that is spaced (`pySpacedAfter [10]`: no token starts before its predecessor ends, the first
token follows a line break) and contains no whitespace token.  Comment tokens are kept
(`filter_comments = False`, as in `_analyze_file`). -/
theorem lex_of_pytoks_text {l : List PTok} (hs : pySpacedAfter [10] l = true)
    (hw : l.all (fun x => !x.bare.isWhitespace) = true) :
    lex (pyTextOfToks l) (pyRawOfToks l) false = place (0, 0) l := by
  have hpos : lexAll (pyTextOfToks l) (pyRawOfToks l)
      = (pyRawOfToks l).map (tokAt (pyTextOfToks l)) := C16.lexAll_positions (rawOk_pytoks l)
  unfold lex
  rw [filterTokens_eq, hpos]
  exact lex_pyRawFrom l [] (0, 0) [10] 0 (pyTextOfToks l) true rfl rfl rfl rfl hs hw
    (fun _ _ _ => rfl)

/-- **T2.  `lex` on the text returns the rendering.**  For every forest whose layout is
`Spaced` and that contains no whitespace token, `lexer_utils.lex` applied to the text and the
raw stream returns exactly `pyRender t`: the tokens of the forest, in order, each with its kind,
type and text and the line and column the renderer assigns to it.  (`filter_comments = False`,
as in `_analyze_file`.)  The forest need not be well-formed. -/
theorem lex_of_pytree_text {t : PyProg PTok} (hs : t.Spaced = true) (hw : t.noWs = true) :
    lex (pyTextOf t) (pyRawOf t) false = pyRender t := by
  rw [pyRender_eq]; exact lex_of_pytoks_text hs hw

/-- **T2 does not depend on how the lexer splits the gaps** (as `C01text.lex_of_tiling`): for ANY raw
stream that tiles the text of the forest and has the same non-whitespace tokens as `pyRawOf t`
(same offsets, kinds, types, texts), `lex` returns the rendering. -/
theorem lex_of_pytiling {t : PyProg PTok} (hs : t.Spaced = true) (hw : t.noWs = true)
    {raw : List RawTok} (hraw : RawOk (pyTextOf t) raw)
    (hsame : raw.filter (fun r => !r.isWs) = (pyRawOf t).filter (fun r => !r.isWs)) :
    lex (pyTextOf t) raw false = pyRender t := by
  rw [lex_eq_nonWs hraw, hsame, ← lex_eq_nonWs (rawOk_pytext t), lex_of_pytree_text hs hw]

/-- the tokens of a well-formed forest are code tokens: no whitespace token -/
theorem noWs_of_wf {t : PyProg PTok} (hw : t.wf = true) : t.noWs = true := by
  apply List.all_eq_true.2
  intro x hx
  have h := List.all_eq_true.mp (PyProg.wf_iff.mp hw).2 x hx
  simp only [PTok.plain, Tok.isCode, Bool.and_eq_true] at h
  exact h.1.1

/-- the same with `filter_comments = True` or `False`, for well-formed forests (their tokens are
code tokens) -/
theorem lex_of_pytree_text_wf {t : PyProg PTok} (hw : t.wf = true) (hs : t.Spaced = true)
    (fc : Bool) : lex (pyTextOf t) (pyRawOf t) fc = pyRender t := by
  have hpos : lexAll (pyTextOf t) (pyRawOf t) = (pyRawOf t).map (tokAt (pyTextOf t)) :=
    C16.lexAll_positions (rawOk_pytext t)
  have hall : ∀ x ∈ t.flat, x.bare.isWhitespace = false ∧ x.bare.isComment = false := by
    intro x hx
    have h := List.all_eq_true.mp (PyProg.wf_iff.mp hw).2 x hx
    simp only [PTok.plain, Tok.isCode, Bool.and_eq_true, Bool.not_eq_true'] at h
    exact h.1
  unfold lex
  rw [filterTokens_eq, hpos, pyRender_eq]
  refine lex_pyRawFrom t.flat [] (0, 0) [10] 0 (pyTextOf t) (!fc) rfl rfl rfl rfl hs ?_ ?_
  · exact List.all_eq_true.2 (fun x hx => by simp [(hall x hx).1])
  · intro x hx h; rw [(hall x hx).2] at h; cases h

/-- **The text carries every token at its rendered location** (a description of `pyTextOf` that
does not mention `lex`): for every token of the rendering, `location_to_index` maps its
(line, column) to an offset inside the text, and the text found there is the token's text. -/
theorem pytext_at_rendered_location {t : PyProg PTok} (hs : t.Spaced = true)
    (hw : t.noWs = true) :
    ∀ x ∈ pyRender t, ∃ o, locationToIndex (pyTextOf t) x.line x.col = .ok o ∧
      o + x.val.length ≤ (pyTextOf t).length ∧
      ((pyTextOf t).drop o).take x.val.length = x.val := by
  intro x hx
  rw [← lex_of_pytree_text hs hw] at hx
  obtain ⟨r, _, _, h1, h2, h3⟩ := C16.kept_text_at_location (rawOk_pytext t) false x hx
  exact ⟨r.off, h1, h2, h3⟩

/-- **Everything between the tokens is blank**: deleting blanks and newlines from the text
leaves the token texts (with their blanks and newlines deleted), in order.  No side condition. -/
theorem pytext_nonblank (t : PyProg PTok) :
    (pyTextOf t).filter (fun c => c != 32 && c != 10)
      = (t.flat.flatMap (·.val)).filter (fun c => c != 32 && c != 10) :=
  pyTextFrom_nonblank t.flat (0, 0) [10]

/-- the text ends with a newline -/
theorem pytext_ends_with_newline (t : PyProg PTok) : (pyTextOf t).getLast? = some 10 :=
  pyTextFrom_getLast t.flat (0, 0) [10]

/-- the first token of a spaced forest follows a line break -/
theorem first_nl_of_spaced {t : PyProg PTok} (hs : t.Spaced = true) :
    (t.flat.headD default).nl ≠ 0 ∨ t.flat = [] := by
  unfold PyProg.Spaced at hs
  cases h : t.flat with
  | nil => exact Or.inr rfl
  | cons x xs =>
    left
    rw [h] at hs
    simp only [pySpacedAfter, Bool.and_eq_true] at hs
    have hg := (gapOk_iff [10] x).1 hs.1.2
    have hc : ([10] : Str).count 10 = 1 := rfl
    rw [hc] at hg
    simp only [List.headD_cons]
    omega

/-- **Reuse of the text of the brace languages.**  If no token text contains a line break, the
text and the raw stream of a spaced Python forest are `textFrom` / `rawFrom` of
`Model/ProgText.lean` - started on line 1 - applied to the token sequence with one line break
less before the first token (the Python renderer starts "after a token on line 0"). -/
theorem pytext_is_textFrom {t : PyProg PTok} (hs : t.Spaced = true)
    (hl : ∀ x ∈ t.flat, 10 ∉ x.val) :
    pyTextOf t = textFrom (1, 0) 1 (decFirst t.flat) ∧
      pyRawOf t = rawFrom 0 (1, 0) 1 (decFirst t.flat) ∧
      pyRender t = place (1, 0) (decFirst t.flat) := by
  obtain ⟨h1, h2⟩ := pyTextFrom_first t.flat (first_nl_of_spaced hs) hl
  exact ⟨h1, h2, by rw [pyRender_eq, place_decFirst _ (first_nl_of_spaced hs)]⟩

/-! ## T3: `_analyze_file` on the text -/

/-- **T3.  `_analyze_file` on the source text of a well-formed forest returns the tree report.**
Let `t` be a well-formed forest of the canonical Python fragment (`PyProg.wf`) whose layout is
`Spaced`.  Then the whole pipeline `_analyze_file` (`lex`, `scan_file`, total) applied to the
source text `pyTextOf t` and the raw token stream `pyRawOf t` returns exactly the report read off
the tree - every function node once, in source order, under its own name, from its `def` token to
just past the last token of its suite, with the number of distinct physical lines of its own
tokens - and the sum of the lengths.  No hypothesis about header discovery, blocks or scopes. -/
theorem analyze_of_pytree_text {t : PyProg PTok} (hw : t.wf = true) (hs : t.Spaced = true) :
    analyze Gen.python (pyTextOf t) (pyRawOf t)
      = .ok (pyTreeReport t.located, totalOf (pyTreeReport t.located)) := by
  unfold analyze
  rw [lex_of_pytree_text hs (noWs_of_wf hw), C01pyfull.scan_of_pytree hw]
  rfl

/-- **T3c.  The same with comments.**  Let `l` be a token list that begins a file (comment tokens
anywhere: own lines at any indentation, trailing comments), spaced and without whitespace tokens,
whose layout, comment tokens removed, is the rendering of a well-formed forest `t`, and in which
no function is marked with a suppression comment.  Then `_analyze_file` on the text of `l`
returns the tree report of `t`. -/
theorem analyze_of_pytoks_text {t : PyProg PTok} (hw : t.wf = true) {l : List PTok}
    (hs : pySpacedAfter [10] l = true) (hws : l.all (fun x => !x.bare.isWhitespace) = true)
    (hcode : filterTokens false (place (0, 0) l) = pyRender t)
    (hm : ∀ f ∈ pyFnsOf t.located 0, ¬ Marked (place (0, 0) l) f.hdr.name.line) :
    analyze Gen.python (pyTextOfToks l) (pyRawOfToks l)
      = .ok (pyTreeReport t.located, totalOf (pyTreeReport t.located)) := by
  unfold analyze
  rw [lex_of_pytoks_text hs hws, C01pyfull.scan_of_pytree_all hw hcode hm]
  rfl

/-- **T3m.  The same with comments AND suppression markers** (no hypothesis `hm`): let `l` be a
token list that begins a file - comment tokens anywhere, any of them a marker -, spaced and without
whitespace tokens, whose layout, comment tokens removed, is the rendering of a well-formed forest
`t`.  Then `_analyze_file` on the TEXT of `l` returns `pyMarkedReport t …`: the tree report of the
forest in which the `def` nodes named on a line with a marker comment are dissolved
(`C01pyfull.scan_of_pytree_marked`), and its total.  C04 and C17 for Python at text level follow:
the result depends on the comments only through the marked-ness of the name lines
(`C01pyfull.comments_in_place_invisible_py`, `toggle_marker_py`, `reported_functions_py`). -/
theorem analyze_of_pytoks_marked_text {t : PyProg PTok} (hw : t.wf = true) {l : List PTok}
    (hs : pySpacedAfter [10] l = true) (hws : l.all (fun x => !x.bare.isWhitespace) = true)
    (hcode : filterTokens false (place (0, 0) l) = pyRender t) :
    analyze Gen.python (pyTextOfToks l) (pyRawOfToks l)
      = .ok (pyMarkedReport t (place (0, 0) l), totalOf (pyMarkedReport t (place (0, 0) l))) := by
  unfold analyze
  rw [lex_of_pytoks_text hs hws, C01pyfull.scan_of_pytree_marked hw hcode]
  rfl

/-! ## T4: the driver operation -/

/-- **T4.  The `pytree` operation of the driver is sound.**  If the two flags of the reply are
true (the forest is well-formed and spaced), then `_analyze_file` of the model, applied to the
text and the raw stream of the reply, returns the report of the reply (which was read off the
tree) and its total. -/
theorem pyTreeOp_sound {t : PyProg PTok} (hg : (pyTreeOp t).good = true) :
    analyze Gen.python (pyTreeOp t).text (pyTreeOp t).raw
      = .ok ((pyTreeOp t).report, totalOf (pyTreeOp t).report) := by
  simp only [PyTreeReply.good, pyTreeOp, Bool.and_eq_true] at hg
  exact analyze_of_pytree_text hg.1 hg.2

/-- the Boolean test `markedB` evaluated by the driver is the predicate `Marked` of the
specification: some comment token on line `ℓ` has a suppression-marker text -/
theorem markedB_iff (all : List Tok) (ℓ : Nat) : markedB all ℓ = true ↔ Marked all ℓ := by
  simp only [markedB, Marked, List.any_eq_true, Bool.and_eq_true, beq_iff_eq]
  constructor
  · rintro ⟨x, hx, ⟨h1, h2⟩, h3⟩; exact ⟨x, hx, h1, h2, h3⟩
  · rintro ⟨x, hx, h1, h2, h3⟩; exact ⟨x, hx, ⟨h1, h2⟩, h3⟩

/-- **T4c.  The `pytoks` operation of the driver (files with comments) is sound.**  If the five
flags of the reply are true (the forest is well-formed; the token list is spaced and has no
whitespace token; its layout, comments removed, is the rendering of the forest; no function name
stands on a line that carries a suppression comment), then `_analyze_file` of the model, applied to
the text and the raw stream of the reply, returns the report of the reply (read off the tree). -/
theorem pyToksOp_sound {l : List PTok} {t : PyProg PTok} (hg : (pyToksOp l t).good = true) :
    analyze Gen.python (pyToksOp l t).text (pyToksOp l t).raw
      = .ok ((pyToksOp l t).report, totalOf (pyToksOp l t).report) := by
  simp only [PyToksReply.good, pyToksOp, Bool.and_eq_true] at hg
  obtain ⟨⟨⟨⟨h1, h2⟩, h3⟩, h4⟩, h5⟩ := hg
  refine analyze_of_pytoks_text h1 h2 h3 (eq_of_beq h4) ?_
  intro f hf hm
  have := List.all_eq_true.mp h5 f hf
  rw [(markedB_iff _ _).2 hm] at this
  cases this

/-! ## the side conditions of T2 are needed -/

/-- **`Spaced` is needed.**  Two tokens `ab` and `c` with `c` placed (by `col = 0`) in the column
right after the START of `ab`: the rendering puts `c` at column 2, inside `ab`; the text is
`abc`, where `c` sits at column 3.  The forest has no whitespace token and `lex` does not return
the rendering. -/
theorem spaced_needed :
    let t : PyProg PTok := .line [⟨2, 2, [97, 98], 1, 0⟩, ⟨2, 2, [99], 0, 0⟩] .nil
    t.Spaced = false ∧ t.noWs = true ∧ lex (pyTextOf t) (pyRawOf t) false ≠ pyRender t := by
  decide

/-- ... also after a token over two lines: `"""a⏎bc"""` followed on its LAST line (`nl = 1`) by a
token with `col = 3`: the rendering puts it at column 4, inside `bc"""` -/
theorem spaced_needed_multiline :
    let t : PyProg PTok :=
      .line [⟨7, 7, [34, 34, 34, 97, 10, 98, 99, 34, 34, 34], 1, 0⟩, ⟨2, 2, [99], 1, 3⟩] .nil
    t.Spaced = false ∧ t.noWs = true ∧ lex (pyTextOf t) (pyRawOf t) false ≠ pyRender t := by
  decide

/-- **The first token must follow a line break** (`nl ≥ 1`, part of `Spaced`): with `nl = 0` the
rendering puts the first token on line 0; no text does that. -/
theorem first_line_break_needed :
    let t : PyProg PTok := .line [⟨2, 2, [97], 0, 0⟩] .nil
    t.Spaced = false ∧ t.noWs = true ∧ lex (pyTextOf t) (pyRawOf t) false ≠ pyRender t := by
  decide

/-- **`noWs` is needed**: a forest containing a blank `Text` token is spaced, but `lex` drops
that token. -/
theorem noWs_needed :
    let t : PyProg PTok := .line [⟨2, 2, [97], 1, 0⟩, ⟨6, 6, [32], 0, 1⟩] .nil
    t.Spaced = true ∧ t.noWs = false ∧ lex (pyTextOf t) (pyRawOf t) false ≠ pyRender t := by
  decide

/-! ## non-vacuity: the concrete forest of `Props/C01pyfull.lean` -/

namespace Ex
open C01pyfull.Ex CL.C01text.Ex

/-- **the text of `C01pyfull.Ex.tree` is the expected Python source** (the file shown in
`Props/C01pyfull.lean`, with the docstring over two lines as ONE token) -/
theorem tree_text : pyTextOf tree = cp "class A:
    @d
    def m1(self):
        return 1

    async def m2(self,
            b = g(1)
    ) -> int:
        x = g(
            1,
        )
        return x

def f():
    def g():
        \"\"\"d
m\"\"\"
        pass
    y = 2
    if y:
        def h(a,
  b):
            pass
    def k():
        return 3

z = 1
" := by decide +kernel

/-- the example forest is spaced: the docstring over two lines is followed by `pass` two lines
below its first line -/
theorem tree_spaced : tree.Spaced = true := by decide +kernel

/-- the raw stream: 72 code tokens, 47 non-empty gaps and the trailing newline; it tiles the
text -/
example : (pyRawOf tree).length = 120 ∧ RawOk (pyTextOf tree) (pyRawOf tree) :=
  ⟨by decide +kernel, rawOk_pytext _⟩

/-- the first raw tokens: `class`, a blank, `A`, `:`, the line break with the indentation, `@d` -/
example : (pyRawOf tree).take 6 = [⟨0, 1, 1, [99, 108, 97, 115, 115]⟩, ⟨5, 6, 0, [32]⟩,
    ⟨6, 2, 2, [65]⟩, ⟨7, 3, 3, [58]⟩, ⟨8, 6, 0, [10, 32, 32, 32, 32]⟩, ⟨13, 2, 2, [64, 100]⟩] := by
  decide +kernel

/-- T2 on the example: the docstring token starts on line 16 and `pass` follows on line 18 -/
example : lex (pyTextOf tree) (pyRawOf tree) false = pyRender tree ∧
    (pyRender tree)[48]? = some ⟨7, 7, [34, 34, 34, 100, 10, 109, 34, 34, 34], 16, 9⟩ ∧
    (pyRender tree)[49]? = some ⟨1, 1, [112, 97, 115, 115], 18, 9⟩ :=
  ⟨lex_of_pytree_text tree_spaced (noWs_of_wf tree_wf), by decide +kernel, by decide +kernel⟩

/-- **T3 applies**: `_analyze_file` on the source text returns the six functions, total 20 -/
theorem tree_analyze : analyze Gen.python (pyTextOf tree) (pyRawOf tree) = .ok (report, 20) := by
  rw [analyze_of_pytree_text tree_wf tree_spaced, tree_report]; rfl

/-- T4 on the example: both flags of the driver operation are true -/
theorem tree_pyTreeOp_good : (pyTreeOp tree).good = true := by decide +kernel

example : analyze Gen.python (pyTreeOp tree).text (pyTreeOp tree).raw
    = .ok ((pyTreeOp tree).report, totalOf (pyTreeOp tree).report) :=
  pyTreeOp_sound tree_pyTreeOp_good

/-- a forest without multi-line token: the text is the `textFrom` of the brace languages -/
def small : PyProg PTok :=
  .defn [] (pt 1 [100, 101, 102] 2 0) (pt 2 [102] 0 3) [pt 3 [40] 0 0, pt 3 [41] 0 0]
      [pt 3 [58] 0 0]
      (.line [pt 1 [114, 101, 116, 117, 114, 110] 1 2, pt 0 [49] 0 6] .nil) .nil

example : small.wf = true ∧ small.Spaced = true ∧
    pyTextOf small = cp "\ndef f():\n  return 1\n" ∧
    pyTextOf small = textFrom (1, 0) 1 (decFirst small.flat) := by
  refine ⟨by decide +kernel, by decide +kernel, by decide +kernel, ?_⟩
  exact (pytext_is_textFrom (by decide +kernel) (by decide +kernel)).1

/-- a function whose LAST token spans two lines (a docstring as the only statement):
```
1  def f():
2    """a
3  b"""
```
-/
def docLast : PyProg PTok :=
  .defn [] (pt 1 [100, 101, 102] 1 0) (pt 2 [102] 0 3) [pt 3 [40] 0 0, pt 3 [41] 0 0]
      [pt 3 [58] 0 0]
      (.line [pt 7 [34, 34, 34, 97, 10, 98, 34, 34, 34] 1 2] .nil) .nil

/-- **the expected END when the last token of the body spans lines**: the tree report ends at
line 3, column 5 - just past `b"""` on the LAST line of the token - and that is the (line, column) of
the text offset just past the token (`C01text.end_location_is_text_end`: offset 20 = the end of the
text before the final newline); `_analyze_file` returns it -/
theorem docLast_end : docLast.wf = true ∧ docLast.Spaced = true ∧
    pyTextOf docLast = cp "def f():\n  \"\"\"a\nb\"\"\"\n" ∧
    pyTreeReport docLast.located = [⟨[102], 1, 1, 3, 5, 2⟩] ∧
    (lineOf (pyTextOf docLast) 20, colOf (pyTextOf docLast) 20) = (3, 5) ∧
    analyze Gen.python (pyTextOf docLast) (pyRawOf docLast) = .ok ([⟨[102], 1, 1, 3, 5, 2⟩], 2) := by
  refine ⟨by decide +kernel, by decide +kernel, by decide +kernel, by decide +kernel,
    by decide +kernel, ?_⟩
  rw [analyze_of_pytree_text (by decide +kernel) (by decide +kernel)]
  decide +kernel

/-- T3c on an example with comments: a comment line at column 1 INSIDE the function, a trailing
comment and a final comment line
```
1  def f():
2  # c
3    return 1  # t
4  # e
```
The code tokens are the rendering of `small'` (the same tokens, the comments removed), and
`_analyze_file` returns `f`, lines 1-3, 2 lines. -/
def small' : PyProg PTok :=
  .defn [] (pt 1 [100, 101, 102] 1 0) (pt 2 [102] 0 3) [pt 3 [40] 0 0, pt 3 [41] 0 0]
      [pt 3 [58] 0 0]
      (.line [pt 1 [114, 101, 116, 117, 114, 110] 2 2, pt 0 [49] 0 6] .nil) .nil

/-- the token list of the file above: the tokens of `small'` and three comment tokens -/
def withComments : List PTok :=
  [pt 1 [100, 101, 102] 1 0, pt 2 [102] 0 3, pt 3 [40] 0 0, pt 3 [41] 0 0, pt 3 [58] 0 0,
   pt 5 [35, 32, 99] 1 0, pt 1 [114, 101, 116, 117, 114, 110] 1 2, pt 0 [49] 0 6,
   pt 5 [35, 32, 116] 0 2, pt 5 [35, 32, 101] 1 0]

example : pyTextOfToks withComments = cp "def f():\n# c\n  return 1  # t\n# e\n" ∧
    analyze Gen.python (pyTextOfToks withComments) (pyRawOfToks withComments)
      = .ok ([⟨[102], 1, 1, 3, 11, 2⟩], 2) := by
  refine ⟨by decide +kernel, ?_⟩
  rw [analyze_of_pytoks_text (t := small') (by decide +kernel) (by decide +kernel)
    (by decide +kernel) (by decide +kernel) (by decide +kernel)]
  decide +kernel

/-- T3m on an example: the file of `withComments` with the marker `# nocl` behind `def f():`
```
1  def f():  # nocl
2  # c
3    return 1  # t
```
The code tokens are the rendering of `small'`; the only function is suppressed: `_analyze_file`
returns no function, total 0. -/
def withMarker : List PTok :=
  [pt 1 [100, 101, 102] 1 0, pt 2 [102] 0 3, pt 3 [40] 0 0, pt 3 [41] 0 0, pt 3 [58] 0 0,
   pt 5 [35, 32, 110, 111, 99, 108] 0 2,
   pt 5 [35, 32, 99] 1 0, pt 1 [114, 101, 116, 117, 114, 110] 1 2, pt 0 [49] 0 6,
   pt 5 [35, 32, 116] 0 2]

example : pyTextOfToks withMarker = cp "def f():  # nocl\n# c\n  return 1  # t\n" ∧
    analyze Gen.python (pyTextOfToks withMarker) (pyRawOfToks withMarker) = .ok ([], 0) := by
  refine ⟨by decide +kernel, ?_⟩
  rw [analyze_of_pytoks_marked_text (t := small') (by decide +kernel) (by decide +kernel)
    (by decide +kernel) (by decide +kernel)]
  decide +kernel

/-- **Well-formedness is needed in T3** (the forest `C01pyfull.Ex.skewTree`: a statement after a
nested `def` that is indented deeper than that `def`): the forest is spaced, T2 applies, but
`_analyze_file` on its text reports `g` on lines 2-4 and `f` with 1 line (so does the real code
on this text), while the tree says `g` = lines 2-3 and `f` has 2 lines. -/
theorem wf_needed :
    skewTree.wf = false ∧ skewTree.Spaced = true ∧
    pyTextOf skewTree = cp "def f():\n    def g():\n            pass\n      c\n" ∧
    analyze Gen.python (pyTextOf skewTree) (pyRawOf skewTree)
      = .ok ([⟨[102], 1, 1, 4, 8, 1⟩, ⟨[103], 2, 5, 4, 8, 3⟩], 4) ∧
    pyTreeReport skewTree.located = [⟨[102], 1, 1, 4, 8, 2⟩, ⟨[103], 2, 5, 3, 17, 2⟩] := by
  refine ⟨by decide +kernel, by decide +kernel, by decide +kernel, ?_, by decide +kernel⟩
  unfold analyze
  rw [lex_of_pytree_text (by decide +kernel) (by decide +kernel), same_indentation_witness.2.2.1]
  rfl

/-- T4c on the example: all five flags of the `pytoks` operation are true -/
example : (pyToksOp withComments small').good = true := by decide +kernel

/-- a suppression comment on the line of the name makes the `unmarked` flag false -/
example : (pyToksOp [pt 1 [100, 101, 102] 1 0, pt 2 [102] 0 3, pt 3 [40] 0 0, pt 3 [41] 0 0,
    pt 3 [58] 0 0, pt 5 [35, 32, 110, 111, 99, 108] 0 2,
    pt 1 [114, 101, 116, 117, 114, 110] 1 2, pt 0 [49] 0 6]
    (.defn [] (pt 1 [100, 101, 102] 1 0) (pt 2 [102] 0 3) [pt 3 [40] 0 0, pt 3 [41] 0 0]
      [pt 3 [58] 0 0] (.line [pt 1 [114, 101, 116, 117, 114, 110] 1 2, pt 0 [49] 0 6] .nil)
      .nil)).unmarked = false := by decide +kernel

end Ex

end CL.C01pytext
