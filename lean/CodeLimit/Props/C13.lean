import CodeLimit.Lemmas.EngineCorrect
import CodeLimit.Lemmas.PredFamily
/-!
# C13 - the pattern engine implements regular-expression semantics

Property theorems only (helper lemmas live in `CodeLimit/Lemmas`). Every theorem is
quantified over every pattern `r` (atoms, sequence, alternation, optional, zero-or-more,
one-or-more, nested in any way), every input word `w`, every value `base` of the global state
id counter and every set-iteration order `ord` (`IsOrder ord`: the order yields each element
exactly once).

Scope of the sections, stated honestly:

* Sections 1-5 (`build_terminates` ... `dfa_nfa_agree`) are about **`Identity` atoms only**: the
  model functions `matchFull`, `startsWith`, `nfaMatch` (`Model/Pattern.lean`,
  `Model/Regex.lean`) judge an item by equality with the atom (`idAcceptor`), the input word is a
  word over the alphabet of atoms, and `Lang r` (`CodeLimit/Spec/Regex.lean`) is the regular
  language of `r` over that alphabet. `Identity` predicates over an alphabet with decidable
  equality are pairwise disjoint, so this is one instance of the property, not the property.
  (Section 1, building the matcher, does not depend on how atoms judge items at all.)
* Section 6 lifts sections 3-5 to **every pairwise-disjoint family of stateless predicates**:
  atom `a` accepts item `x` iff `P a x = true` for an arbitrary `P : α → β → Bool`; the
  hypothesis is `DisjointOn P r` (no item is accepted by two different atoms of `r`), the
  semantics is `LangP P r` (`CodeLimit/Spec/PredFamily.lean`: the items can be labelled by
  accepting atoms spelling a word of `Lang r`; `pred_language_compositional` shows it is the
  regular language of `r` over items). `identity_is_instance` shows that sections 3-5 are
  the instance `P a x := decide (a = x)`; `disjoint_needed` shows that without disjointness
  `match` raises "Multiple transitions found!" on a word of the language.
* **Stateful predicates** (`Balanced`, whose `accept` mutates a nesting depth) are not covered
  here: they are the business of C14b / C14nest / C15.
-/
namespace CL.C13

variable {α : Type} [DecidableEq α]

/-! ## 1. building the matcher -/

/-- Building the deterministic matcher never runs out of fuel: for every pattern, including
repetitions of patterns that can match nothing (`star (opt x)`, `plus (opt x)`, `star (star x)`),
the worklist loop of the subset construction `nfaToDfa` finishes within the fuel `dfaFuel` the
model gives it (`none` = "out of fuel" is never returned). "Terminates" here means exactly this
and nothing more. In particular the statement says nothing about the ε-closure: in the model
ε-closure fuel exhaustion is SILENT (`closureAux E 0 _ vis = vis`, `Model/Regex.lean`: the loop
would just return the states visited so far, it cannot make `nfaToDfa` return `none`), so the
fact that the closure fuel is sufficient, i.e. that `closure` terminates on ε-cycles with the
complete set of ε-reachable states, is NOT a consequence of `build_terminates`; it is the
theorem `closure_exact` below. -/
theorem build_terminates (r : Rx α) (base : Nat) {ord : List α → List α} (hord : IsOrder ord) :
    ∃ D, nfaToDfa (compile r base) ord = some D :=
  compile_terminates r base hord

omit [DecidableEq α] in
/-- ε-closure computes exactly ε-reachability: the fuel given to `closureAux` in the model is
always sufficient (in particular on ε-cycles, e.g. `star (opt x)`), so the silent out-of-fuel
branch of `closureAux` never cuts the result short. -/
theorem closure_exact (E : List (Edge α)) (qs : List Nat) (q : Nat) :
    q ∈ closure E qs ↔ ∃ p, p ∈ qs ∧ EpsReach E p q :=
  mem_closure_iff E qs q

/-! ## 2. the Thompson NFA (`Identity` atoms: words over the alphabet of atoms) -/

omit [DecidableEq α] in
/-- The Thompson NFA of a pattern accepts exactly the pattern's language. -/
theorem nfa_language (r : Rx α) (base : Nat) (w : List α) :
    Path (compile r base).edges (compile r base).start w (compile r base).acc ↔ Lang r w :=
  thompson_correct r base w

/-! ## 3. full match (`Identity` atoms) -/

/-- A full match is reported exactly when the word belongs to the language ... -/
theorem match_iff (r : Rx α) (base : Nat) {ord : List α → List α} (hord : IsOrder ord) (w : List α) :
    matchFull r base ord w = .ok (some w.length) ↔ Lang r w :=
  matchFull_some_iff r base hord w

/-- ... and `None` is returned exactly when it does not; ... -/
theorem no_match_iff (r : Rx α) (base : Nat) {ord : List α → List α} (hord : IsOrder ord) (w : List α) :
    matchFull r base ord w = .ok none ↔ ¬ Lang r w :=
  matchFull_none_iff r base hord w

/-- ... there is no third outcome (no ambiguity error, no other end position). -/
theorem match_total (r : Rx α) (base : Nat) {ord : List α → List α} (hord : IsOrder ord) (w : List α) :
    matchFull r base ord w = .ok (some w.length) ∨ matchFull r base ord w = .ok none :=
  matchFull_total r base hord w

/-! ## 4. prefix match (`Identity` atoms) -/

/-- Prefix matching reports the shortest non-empty matching prefix. -/
theorem starts_with_shortest (r : Rx α) (base : Nat) {ord : List α → List α} (hord : IsOrder ord)
    (w : List α) (k : Nat) :
    startsWith r base ord w = .ok (some k) ↔
      (1 ≤ k ∧ k ≤ w.length ∧ Lang r (w.take k) ∧ ∀ j, 1 ≤ j → j < k → ¬ Lang r (w.take j)) :=
  startsWith_some_iff r base hord w k

/-- Prefix matching reports nothing exactly when no non-empty prefix matches. -/
theorem starts_with_none (r : Rx α) (base : Nat) {ord : List α → List α} (hord : IsOrder ord)
    (w : List α) :
    startsWith r base ord w = .ok none ↔ ∀ k, 1 ≤ k → k ≤ w.length → ¬ Lang r (w.take k) :=
  startsWith_none_iff r base hord w

/-! ## 5. the non-deterministic matcher (`Identity` atoms) -/

/-- The non-deterministic matcher agrees with the same semantics. -/
theorem nfa_match_iff (r : Rx α) (base : Nat) (w : List α) :
    nfaMatch r base w = true ↔ Lang r w :=
  nfaMatch_iff r base w

/-- Hence the deterministic and the non-deterministic matcher agree on every input. -/
theorem dfa_nfa_agree (r : Rx α) (base : Nat) {ord : List α → List α} (hord : IsOrder ord) (w : List α) :
    (matchFull r base ord w = .ok (some w.length)) ↔ nfaMatch r base w = true := by
  rw [match_iff r base hord, nfa_match_iff]

/-! ## 6. the same for every pairwise-disjoint family of stateless predicates

Atoms are now predicates of an arbitrary kind: `P a x = true` means "atom `a` accepts item `x`"
(`Predicate.accept`); the input `w : List β` is a sequence of items, not of atoms. The matchers
are `matchFullP`, `startsWithP`, `nfaMatchP` (`Spec/PredFamily.lean`: `matchFull`, `startsWith`,
`nfaMatch` with `P a x` in place of `a = x`). The hypothesis `hdis : DisjointOn P r` is the
"pairwise-disjoint predicates" of the property: no item is accepted by two different atoms that
occur in `r` (atoms that do not occur in `r` are irrelevant). -/

section predicates
variable {β : Type} (P : α → β → Bool)

omit [DecidableEq α] in
/-- `DisjointOn` read with the list of atoms of the pattern (`Rx.atoms`). -/
theorem disjointOn_iff_atoms (r : Rx α) :
    DisjointOn P r ↔
      ∀ a b x, a ∈ r.atoms → b ∈ r.atoms → P a x = true → P b x = true → a = b := by
  unfold DisjointOn
  simp only [hasAtom_iff_mem_atoms]

omit [DecidableEq α] in
/-- `LangP P r` is the regular language of `r` over items, operator by operator: an atom matches
exactly the one-item sequences whose item it accepts; sequence = concatenation; alternation =
union; optional adds the empty sequence; zero-or-more / one-or-more are the usual unfoldings.
(This is what makes `LangP` the semantics the property refers to; no disjointness involved.) -/
theorem pred_language_compositional (a : α) (r s : Rx α) (w : List β) :
    (LangP P (.atom a) w ↔ ∃ x, w = [x] ∧ P a x = true) ∧
    (LangP P (.cat r s) w ↔ ∃ w1 w2, w = w1 ++ w2 ∧ LangP P r w1 ∧ LangP P s w2) ∧
    (LangP P (.alt r s) w ↔ LangP P r w ∨ LangP P s w) ∧
    (LangP P (.opt r) w ↔ w = [] ∨ LangP P r w) ∧
    (LangP P (.star r) w ↔
      w = [] ∨ ∃ w1 w2, w = w1 ++ w2 ∧ LangP P r w1 ∧ LangP P (.star r) w2) ∧
    (LangP P (.plus r) w ↔
      LangP P r w ∨ ∃ w1 w2, w = w1 ++ w2 ∧ LangP P r w1 ∧ LangP P (.plus r) w2) :=
  ⟨langP_atom a w, langP_cat r s w, langP_alt r s w, langP_opt r w, langP_star r w,
    langP_plus r w⟩

/-- Over pairwise-disjoint predicates a full match is reported exactly when the sequence of
items belongs to the pattern's language ... -/
theorem pred_match_iff (r : Rx α) (base : Nat) {ord : List α → List α} (hord : IsOrder ord)
    (hdis : DisjointOn P r) (w : List β) :
    matchFullP P r base ord w = .ok (some w.length) ↔ LangP P r w :=
  matchFullP_some_iff P r base hord hdis w

/-- ... `None` is returned exactly when it does not ... -/
theorem pred_no_match_iff (r : Rx α) (base : Nat) {ord : List α → List α} (hord : IsOrder ord)
    (hdis : DisjointOn P r) (w : List β) :
    matchFullP P r base ord w = .ok none ↔ ¬ LangP P r w :=
  matchFullP_none_iff P r base hord hdis w

/-- ... and there is no third outcome: in particular `Pattern.consume` never raises
"Multiple transitions found!" (this is where disjointness is used, see `disjoint_needed`) and
the construction never runs out of fuel. -/
theorem pred_match_total (r : Rx α) (base : Nat) {ord : List α → List α} (hord : IsOrder ord)
    (hdis : DisjointOn P r) (w : List β) :
    matchFullP P r base ord w = .ok (some w.length) ∨ matchFullP P r base ord w = .ok none :=
  matchFullP_total P r base hord hdis w

/-- Over pairwise-disjoint predicates prefix matching reports the shortest non-empty prefix of
the item sequence that belongs to the pattern's language. -/
theorem pred_starts_with_shortest (r : Rx α) (base : Nat) {ord : List α → List α}
    (hord : IsOrder ord) (hdis : DisjointOn P r) (w : List β) (k : Nat) :
    startsWithP P r base ord w = .ok (some k) ↔
      (1 ≤ k ∧ k ≤ w.length ∧ LangP P r (w.take k) ∧
        ∀ j, 1 ≤ j → j < k → ¬ LangP P r (w.take j)) :=
  startsWithP_some_iff P r base hord hdis w k

/-- It reports nothing exactly when no non-empty prefix belongs to the language. -/
theorem pred_starts_with_none (r : Rx α) (base : Nat) {ord : List α → List α}
    (hord : IsOrder ord) (hdis : DisjointOn P r) (w : List β) :
    startsWithP P r base ord w = .ok none ↔
      ∀ k, 1 ≤ k → k ≤ w.length → ¬ LangP P r (w.take k) :=
  startsWithP_none_iff P r base hord hdis w

/-- Prefix matching never raises either. -/
theorem pred_starts_with_total (r : Rx α) (base : Nat) {ord : List α → List α}
    (hord : IsOrder ord) (hdis : DisjointOn P r) (w : List β) :
    ∃ o, startsWithP P r base ord w = .ok o :=
  startsWithP_total P r base hord hdis w

omit [DecidableEq α] in
/-- The non-deterministic matcher decides the same language - for EVERY family of stateless
predicates, disjoint or not (it never calls `Pattern.consume`). -/
theorem pred_nfa_match_iff (r : Rx α) (base : Nat) (w : List β) :
    nfaMatchP P r base w = true ↔ LangP P r w :=
  nfaMatchP_iff P r base w

/-- Hence over pairwise-disjoint predicates the deterministic and the non-deterministic matcher
agree on every input. -/
theorem pred_dfa_nfa_agree (r : Rx α) (base : Nat) {ord : List α → List α} (hord : IsOrder ord)
    (hdis : DisjointOn P r) (w : List β) :
    (matchFullP P r base ord w = .ok (some w.length)) ↔ nfaMatchP P r base w = true := by
  rw [pred_match_iff P r base hord hdis, pred_nfa_match_iff]

end predicates

/-- `Identity` atoms are the instance `P a x := decide (a = x)`: the acceptor and the three
matchers of sections 3-5 are the general ones at this `P`, the lifted language is `Lang r`,
and the family is disjoint on every pattern. So `match_iff` ... `dfa_nfa_agree` are corollaries
of the theorems of this section (two of them are re-derived that way right below). -/
theorem identity_is_instance (r : Rx α) (base : Nat) (ord : List α → List α) (w : List α) :
    predAcceptor (fun a x : α => decide (a = x)) = idAcceptor ∧
    matchFullP (fun a x => decide (a = x)) r base ord w = matchFull r base ord w ∧
    startsWithP (fun a x => decide (a = x)) r base ord w = startsWith r base ord w ∧
    nfaMatchP (fun a x => decide (a = x)) r base w = nfaMatch r base w ∧
    (LangP (fun a x => decide (a = x)) r w ↔ Lang r w) ∧
    DisjointOn (fun a x : α => decide (a = x)) r :=
  ⟨rfl, rfl, rfl, nfaMatchP_id r base w, langP_id_iff r w, disjointOn_id r⟩

example (r : Rx α) (base : Nat) {ord : List α → List α} (hord : IsOrder ord) (w : List α) :
    matchFull r base ord w = .ok (some w.length) ↔ Lang r w := by
  rw [← matchFullP_id, pred_match_iff _ r base hord (disjointOn_id r), langP_id_iff]

example (r : Rx α) (base : Nat) {ord : List α → List α} (hord : IsOrder ord) (w : List α)
    (k : Nat) :
    startsWith r base ord w = .ok (some k) ↔
      (1 ≤ k ∧ k ≤ w.length ∧ Lang r (w.take k) ∧ ∀ j, 1 ≤ j → j < k → ¬ Lang r (w.take j)) := by
  rw [← startsWithP_id, pred_starts_with_shortest _ r base hord (disjointOn_id r)]
  simp only [langP_id_iff]

/-! ### disjointness is needed -/

namespace Ex

/-- two OVERLAPPING predicates on natural numbers: atom `a` accepts `x` when `a ≤ x`
(atom `0`: "anything", atom `1`: "positive") -/
def Q : Nat → Nat → Bool := fun a x => decide (a ≤ x)

/-- "anything or positive" -/
def rq : Rx Nat := .alt (.atom 0) (.atom 1)

end Ex

/-- The hypothesis `DisjointOn` cannot be dropped from `pred_match_iff`, `pred_match_total`,
`pred_starts_with_*`, `pred_dfa_nfa_agree`. With the overlapping predicates `Ex.Q` and the pattern
`0 | 1`: the one-item sequence `[5]` is in the language, the NFA matcher says so, but the start
row of the compiled table carries both predicates, both accept `5`, and `Pattern.consume` returns
the error "Multiple transitions found!" - so do `match` and `starts_with`. -/
theorem disjoint_needed :
    ¬ DisjointOn Ex.Q Ex.rq ∧
    LangP Ex.Q Ex.rq [5] ∧
    nfaMatchP Ex.Q Ex.rq 1 [5] = true ∧
    (∃ D, nfaToDfa (compile Ex.rq 1) id = some D ∧
      (D.row .start).map (·.1) = [0, 1] ∧
      consume (predAcceptor Ex.Q) (D.row .start) () 5 = .error .multipleTransitions) ∧
    matchFullP Ex.Q Ex.rq 1 id [5] = .error .multipleTransitions ∧
    startsWithP Ex.Q Ex.rq 1 id [5] = .error .multipleTransitions := by
  refine ⟨?_, ?_, by decide +kernel, ?_, by decide +kernel, by decide +kernel⟩
  · intro h
    exact absurd (h 0 1 5 (.inl rfl) (.inr rfl) (by decide) (by decide)) (by decide)
  · exact ⟨[0], .altL (.atom 0), .cons (by decide) .nil⟩
  · cases hD : nfaToDfa (compile Ex.rq 1) id with
    | none => exact absurd hD (by decide +kernel)
    | some D =>
      refine ⟨D, rfl, ?_⟩
      have h : (match nfaToDfa (compile Ex.rq 1) id with
          | some D => decide ((D.row .start).map (·.1) = [0, 1] ∧
              consume (predAcceptor Ex.Q) (D.row .start) () 5 = .error .multipleTransitions)
          | none => false) = true := by decide +kernel
      rw [hD] at h
      exact of_decide_eq_true h

/-! ## 7. non-vacuity -/

/-! ### `Identity` atoms: nested repetitions of nullable patterns, negative outcomes, the NFA matcher -/

example : matchFull (.star (.opt (.atom 1))) 1 id [1, 1] = .ok (some 2) := by decide +kernel
example : matchFull (.plus (.opt (.atom 1))) 7 id [] = .ok (some 0) := by decide +kernel
example : matchFull (.plus (.atom 1)) 1 id [1, 2] = .ok none := by decide +kernel
example : matchFull (.star (.opt (.atom 1))) 3 List.reverse [1, 2, 1] = .ok none := by decide +kernel
example : startsWith (.cat (.atom 1) (.star (.atom 2))) 1 id [1, 2, 2] = .ok (some 1) := by decide +kernel
example : startsWith (.cat (.plus (.atom 1)) (.atom 2)) 1 id [1, 1, 2, 2] = .ok (some 3) := by
  decide +kernel
example : startsWith (.cat (.atom 1) (.plus (.atom 2))) 1 id [1, 1, 2] = .ok none := by decide +kernel
example : startsWith (.star (.opt (.atom 1))) 1 id [2, 1] = .ok none := by decide +kernel
example : nfaMatch (.star (.opt (.atom 1))) 1 [1, 1] = true := by decide +kernel
example : nfaMatch (.star (.opt (.atom 1))) 1 [1, 2] = false := by decide +kernel
example : nfaMatch (.plus (.alt (.atom 1) (.cat (.atom 2) (.atom 3)))) 4 [2, 3, 1, 2, 3] = true := by
  decide +kernel
example : IsOrder (id : List Nat → List Nat) := fun _ => List.Perm.refl _
example : IsOrder (List.reverse : List Nat → List Nat) := fun l => List.reverse_perm l

/-! ### a disjoint family of predicates on natural numbers that is not `Identity` -/

namespace Ex

/-- three predicate objects -/
inductive Cls where
  | even | smallOdd | bigOdd
  deriving DecidableEq, Repr

/-- what they accept: "is even" / "is odd and below 10" / "is odd and at least 10" -/
def P : Cls → Nat → Bool
  | .even, x => x % 2 == 0
  | .smallOdd, x => x % 2 == 1 && decide (x < 10)
  | .bigOdd, x => x % 2 == 1 && decide (10 ≤ x)

/-- `even+ (smallOdd | (bigOdd?)*)`: a repetition of a nullable pattern inside a sequence -/
def r : Rx Cls :=
  .cat (.plus (.atom .even)) (.alt (.atom .smallOdd) (.star (.opt (.atom .bigOdd))))

/-- `even+ smallOdd` -/
def r2 : Rx Cls := .cat (.plus (.atom .even)) (.atom .smallOdd)

/-- the three predicates are pairwise disjoint (on every pattern) -/
theorem P_disjoint (r : Rx Cls) : DisjointOn P r := by
  intro a b x _ _ ha hb
  cases a <;> cases b <;> simp [P] at ha hb ⊢ <;> omega

example : matchFullP P r 1 id [2, 4, 7] = .ok (some 3) := by decide +kernel
example : matchFullP P r 1 List.reverse [2, 11, 13, 15] = .ok (some 4) := by decide +kernel
example : matchFullP P r 9 id [8] = .ok (some 1) := by decide +kernel
example : matchFullP P r 1 id [2, 7, 7] = .ok none := by decide +kernel
example : matchFullP P r 1 id [2, 11, 4] = .ok none := by decide +kernel
example : startsWithP P r 1 id [4, 6, 11, 3] = .ok (some 1) := by decide +kernel
example : startsWithP P r2 1 id [2, 4, 7, 8] = .ok (some 3) := by decide +kernel
example : startsWithP P r2 1 id [2, 4, 11] = .ok none := by decide +kernel
example : nfaMatchP P r 1 [2, 11, 13] = true := by decide +kernel
example : nfaMatchP P r 1 [2, 7, 7] = false := by decide +kernel

/-- the theorems apply: from the computed outcome to membership in the lifted language and back -/
example : LangP P r [2, 4, 7] :=
  (pred_match_iff P r 1 (ord := id) (fun _ => List.Perm.refl _) (P_disjoint r) [2, 4, 7]).1
    (by decide +kernel)
example : ¬ LangP P r [2, 7, 7] :=
  (pred_no_match_iff P r 1 (ord := id) (fun _ => List.Perm.refl _) (P_disjoint r) [2, 7, 7]).1
    (by decide +kernel)
/-- a labelling by hand: `2, 4` are even, `7` is a small odd number -/
example : LangP P r [2, 4, 7] :=
  ⟨[.even, .even, .smallOdd],
    by
      show Lang (.cat _ _) ([Cls.even, Cls.even] ++ [Cls.smallOdd])
      exact .cat (.plusCons (u := [Cls.even]) (v := [Cls.even]) (.atom _) (.plusOne (.atom _)))
        (.altL (.atom _)),
    .cons (by decide) (.cons (by decide) (.cons (by decide) .nil))⟩

end Ex

end CL.C13
