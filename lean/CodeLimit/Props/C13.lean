import CodeLimit.Model.Pattern
import CodeLimit.Spec.Regex
/-!
# C13 - the pattern engine implements regular-expression semantics

Property theorems only (helper lemmas live in `CodeLimit/Lemmas`). Quantified over every
pattern `r`, every word `w`, every id base (`State._id` counter value) and every
set-iteration order `ord`.
-/
namespace CL.C13

theorem placeholder : True := trivial

end CL.C13
