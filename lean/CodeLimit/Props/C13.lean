import CodeLimit.Lemmas.EngineCorrect
/-!
# C13 - the pattern engine implements regular-expression semantics

Property theorems only (helper lemmas live in `CodeLimit/Lemmas`). Every theorem is
quantified over every pattern `r` (atoms, sequence, alternation, optional, zero-or-more,
one-or-more, nested in any way), every input word `w`, every value `base` of the global state
id counter and every set-iteration order `ord` (`IsOrder ord`: the order yields each element
exactly once). Atoms are `Identity` predicates over an alphabet with decidable equality, so
they are pairwise disjoint, as the property requires. `Lang r` is the regular language of `r`
(`CodeLimit/Spec/Regex.lean`).
-/
namespace CL.C13

variable {α : Type} [DecidableEq α]

/-- Building a matcher terminates for every pattern, including repetitions of patterns that
can match nothing (`star (opt x)`, `plus (opt x)`, `star (star x)`): the ε-closure fuel
(`mem_closure_iff` holds for the fuel given in the model) and the subset-construction fuel
are always sufficient. -/
theorem build_terminates (r : Rx α) (base : Nat) {ord : List α → List α} (hord : IsOrder ord) :
    ∃ D, nfaToDfa (compile r base) ord = some D :=
  compile_terminates r base hord

omit [DecidableEq α] in
/-- ε-closure computes exactly ε-reachability (in particular it terminates on ε-cycles). -/
theorem closure_exact (E : List (Edge α)) (qs : List Nat) (q : Nat) :
    q ∈ closure E qs ↔ ∃ p, p ∈ qs ∧ EpsReach E p q :=
  mem_closure_iff E qs q

omit [DecidableEq α] in
/-- The Thompson NFA of a pattern accepts exactly the pattern's language. -/
theorem nfa_language (r : Rx α) (base : Nat) (w : List α) :
    Path (compile r base).edges (compile r base).start w (compile r base).acc ↔ Lang r w :=
  thompson_correct r base w

/-- A full match is reported exactly when the word belongs to the language ... -/
theorem match_iff (r : Rx α) (base : Nat) {ord : List α → List α} (hord : IsOrder ord) (w : List α) :
    matchFull r base ord w = .ok (some w.length) ↔ Lang r w :=
  matchFull_some_iff r base hord w

/-- ... and `None` is returned exactly when it does not; ... -/
theorem no_match_iff (r : Rx α) (base : Nat) {ord : List α → List α} (hord : IsOrder ord) (w : List α) :
    matchFull r base ord w = .ok none ↔ ¬ Lang r w :=
  matchFull_none_iff r base hord w

/-- ... there is no third outcome (no ambiguity error, no other end position). -/
theorem match_total (r : Rx α) (base : Nat) {ord : List α → List α} (hord : IsOrder ord) (w : List α) :
    matchFull r base ord w = .ok (some w.length) ∨ matchFull r base ord w = .ok none :=
  matchFull_total r base hord w

/-- Prefix matching reports the shortest non-empty matching prefix. -/
theorem starts_with_shortest (r : Rx α) (base : Nat) {ord : List α → List α} (hord : IsOrder ord)
    (w : List α) (k : Nat) :
    startsWith r base ord w = .ok (some k) ↔
      (1 ≤ k ∧ k ≤ w.length ∧ Lang r (w.take k) ∧ ∀ j, 1 ≤ j → j < k → ¬ Lang r (w.take j)) :=
  startsWith_some_iff r base hord w k

/-- Prefix matching reports nothing exactly when no non-empty prefix matches. -/
theorem starts_with_none (r : Rx α) (base : Nat) {ord : List α → List α} (hord : IsOrder ord)
    (w : List α) :
    startsWith r base ord w = .ok none ↔ ∀ k, 1 ≤ k → k ≤ w.length → ¬ Lang r (w.take k) :=
  startsWith_none_iff r base hord w

/-- The non-deterministic matcher agrees with the same semantics. -/
theorem nfa_match_iff (r : Rx α) (base : Nat) (w : List α) :
    nfaMatch r base w = true ↔ Lang r w :=
  nfaMatch_iff r base w

/-- Hence the deterministic and the non-deterministic matcher agree on every input. -/
theorem dfa_nfa_agree (r : Rx α) (base : Nat) {ord : List α → List α} (hord : IsOrder ord) (w : List α) :
    (matchFull r base ord w = .ok (some w.length)) ↔ nfaMatch r base w = true := by
  rw [match_iff r base hord, nfa_match_iff]

/-! ## non-vacuity: concrete patterns with nested repetitions of nullable patterns -/

example : matchFull (.star (.opt (.atom 1))) 1 id [1, 1] = .ok (some 2) := by decide +kernel
example : matchFull (.plus (.opt (.atom 1))) 7 id [] = .ok (some 0) := by decide +kernel
example : startsWith (.cat (.atom 1) (.star (.atom 2))) 1 id [1, 2, 2] = .ok (some 1) := by decide +kernel
example : IsOrder (id : List Nat → List Nat) := fun _ => List.Perm.refl _
example : IsOrder (List.reverse : List Nat → List Nat) := fun l => List.reverse_perm l

end CL.C13
