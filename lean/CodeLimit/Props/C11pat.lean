import CodeLimit.Lemmas.Gitignore
import CodeLimit.Props.C12
/-!
# C11 / C12 with the exclusion patterns spelled out (six classes of gitignore lines)

`Props/C11.lean` and `Props/C12.lean` hold for every oracle `excluded : Path → Bool`. Here the
oracle is replaced by `CL.Gi.excludedWith user` (`Spec/Gitignore.lean`): the built-in list
`DEFAULT_EXCLUDES` followed by the user's lines (`--exclude`, `.codelimit.yml`, root `.gitignore`),
each line of one of six classes, read as pathspec 0.12.1 reads it (tie: the correspondence
stream `harness_new/gitignore_stream.py` compares `excludedWith` with the real
`Scanner.generate_exclude_spec` / `Scanner.is_excluded` decision by decision;
`Props/C11patRegex.lean` derives `Pat.matches` from the regular expressions pathspec builds, whose
texts the stream compares character by character).

What is instantiated. In `Model/Select.lean` the field `excluded` is applied in three places, each
time to the root-relative components of a FILE: `scanBody` (`pre ++ [name]` for an entry of
`files` of one `os.walk` step), `checkBody` (the same in `check_command`'s directory branch) and
`checkArgBody` for a relative file argument. It is never applied to a directory: directories are
pruned by the dot test only (`directories_never_asked` below makes this a theorem). So
`excluded := excludedWith user` only ever decides about file paths, which is what
`Pat.matches` models (`spec.match_file(rel_path_of_a_file)`).

Sections: (1) which texts are which class; (2) what each class excludes, in a reader's words;
(3) lists of lines: some line matches, monotone, order irrelevant, files below a matched path;
(4) C11 and (5) C12 with the patterns in place of the oracle.
-/
namespace CL.C11pat

open CL.Sel CL.Gi

/-! ## (1) texts and classes -/

/-- **which texts are which class.** A text parses to the line `q` exactly when it is `q` written
out (`x`, `d/`, `*.ext`, `a/b`, `a/*`, `/a`) and `q` is a line of the fragment: plain names
(printable ASCII without `/ * ? [ ] \`, not `.` or `..`), at least two names for `a/b`, at least
one for `/a`, and no `!` or `#` as the first character of the text. -/
theorem parse_iff (s : Str) (q : Pat) : Pat.parse s = some q ↔ q.wf = true ∧ q.text = s := parse_iff'

/-- writing a line of the fragment and reading it back gives the line -/
theorem parse_text (q : Pat) (h : q.wf = true) : Pat.parse q.text = some q := (parse_iff _ _).2 ⟨h, rfl⟩

/-- different texts are different lines; no text belongs to two classes -/
theorem parse_injective {s s' : Str} {q : Pat} (h : Pat.parse s = some q) (h' : Pat.parse s' = some q) :
    s = s' := ((parse_iff _ _).1 h).2.symm.trans ((parse_iff _ _).1 h').2

/-- one text of each class -/
example : [str "build", str "docs/", str "*.min.js", str "src/gen/api.py", str "vendor/*", str "/tools/x.py",
      str "c#", str "/!keep"].map Pat.parse =
    [some (.name (str "build")), some (.dirOnly (str "docs")), some (.ext (str ".min.js")),
     some (.rel [str "src", str "gen", str "api.py"]), some (.under (str "vendor")),
     some (.rooted [str "tools", str "x.py"]), some (.name (str "c#")), some (.rooted [str "!keep"])] := by
  decide +kernel

/-- texts outside the fragment: negation, comment, `**`, `?`, character class, escape, blank line,
trailing blank, mixed forms, a lone `*`, `.` -/
example : [str "!build", str "#build", str "**/build", str "a?", str "[ab]", str "\\#x", str "", str "x ",
      str "a/b/", str "/a/", str "/a/*", str "a/*.c", str "*", str "*c", str ".", str "a//b", str "/"].map Pat.parse =
    List.replicate 17 none := by
  decide +kernel

/-- **blank lines and `#` comments of an exclusion list contribute nothing** - pathspec turns them
into the null pattern, git ignores them - so a list of lines is read by reading the other lines,
each by `Pat.parse`, in order.  (A `.gitignore` is handed over line by line,
`read_text().splitlines()`, blank lines and comments included; a line that is neither ignored nor
of the six classes makes the result `none`: outside the model.) -/
theorem parseAll_iff (ls : List Str) (pats : List Pat) :
    parseAll ls = some pats ↔ (ls.filter (fun s => !ignoredLine s)).map Pat.parse = pats.map some :=
  parseAll_eq_some_iff ls pats

/-- inserting or removing an ignored line anywhere changes nothing -/
theorem ignored_line_irrelevant (a b : List Str) (l : Str) (h : ignoredLine l = true) :
    parseAll (a ++ l :: b) = parseAll (a ++ b) := by
  rw [parseAll_filter, parseAll_filter (a ++ b), List.filter_append, List.filter_append,
    List.filter_cons_of_neg (by simp [h])]

/-- the two kinds of line are disjoint: a line of the six classes is never ignored (so skipping
takes no pattern away) -/
theorem parsed_line_not_ignored {s : Str} {q : Pat} (h : Pat.parse s = some q) : ignoredLine s = false :=
  parse_some_not_ignored h

/-- an ordinary `.gitignore`: comments (also indented), blank and white-space-only lines are
skipped, the rest is read; `\#x` (an escaped `#`) and a trailing comment after a pattern are
not comments for pathspec, and outside the model -/
example :
    parseAll [str "# build artefacts", str "", str "build", str "  ", str "*.min.js", str "\t# x", str "/docs"] =
      some [.name (str "build"), .ext (str ".min.js"), .rooted [str "docs"]] ∧
    parseAll [str "build", str "\\#x"] = none ∧ parseAll [str "build # the output"] = none ∧
    [str "", str " ", str "#", str "# c", str " \t #c", str "x", str "!x", str "\\#"].map ignoredLine =
      [true, true, true, true, true, false, false, false] := by
  decide +kernel

/-- **the built-in list is 26 bare names**: every entry of `DEFAULT_EXCLUDES` parses, to class
`name` (so the built-in list excludes exactly the files with a component equal to one of them:
`builtin_excludes_iff`) -/
theorem builtin_parse : parseAll builtinNames = some builtin ∧ builtin.length = 26 := by
  decide +kernel

/-! ## (2) what each class excludes -/

/-- **`x`** excludes exactly the files with a component `x`: the file's own name or the name of a
directory on the way -/
theorem name_excludes_iff (x : Str) (p : Path) : (Pat.name x).matches p = true ↔ x ∈ p := by
  simp only [Pat.matches, Pat.norm, Norm.matches, if_true, matchAny_single, lit_matches]
  exact ⟨fun ⟨c, hc, e⟩ => e ▸ hc, fun h => ⟨x, h, rfl⟩⟩

/-- **`d/`** excludes exactly the files with a DIRECTORY component `d` (a component other than
the file's own name) -/
theorem dirOnly_excludes_iff (d : Str) (p : Path) : (Pat.dirOnly d).matches p = true ↔ d ∈ p.dropLast := by
  simp only [Pat.matches, Pat.norm, Norm.matches, if_true, matchAny_single_dir, lit_matches]
  exact ⟨fun ⟨c, hc, e⟩ => e ▸ hc, fun h => ⟨d, h, rfl⟩⟩

/-- **`*.ext`** excludes exactly the files with a component - the file's name or a directory on
the way - that ends in `.ext` (the component `.ext` itself included) -/
theorem ext_excludes_iff (e : Str) (p : Path) : (Pat.ext e).matches p = true ↔ ∃ c ∈ p, e <:+ c := by
  simp only [Pat.matches, Pat.norm, Norm.matches, if_true, matchAny_single, suffix_matches]

/-- in particular **`*.py` excludes everything below a directory called `x.py`**, whatever the
files there are called (this is what pathspec does, and what git does) -/
theorem ext_excludes_below_directory (e d : Str) (h : e <:+ d) (pre rest : Path) :
    (Pat.ext e).matches (pre ++ d :: rest) = true :=
  (ext_excludes_iff e _).2 ⟨d, by simp, h⟩

example : (Pat.ext (str ".py")).matches [str "gen", str "x.py", str "main.c"] = true := by decide +kernel
example : (Pat.ext (str ".py")).matches [str "gen", str "xpy", str "main.c"] = false := by decide +kernel

/-- **`a/b`, `a/b/c`, ...** are anchored at the root: they exclude exactly the files whose path starts
with these components (the file `a/b` itself, or anything below the directory `a/b`) -/
theorem rel_excludes_iff (ps : List Str) (p : Path) : (Pat.rel ps).matches p = true ↔ ps <+: p := by
  simp only [Pat.matches, Pat.norm, Norm.matches, Bool.false_eq_true, if_false, matchFrom_lits]

/-- **`/a`, `/a/b`, ...** exclude exactly the files whose path starts with these components: for
`/a` the file `a` directly under the root, or anything below the top-level directory `a` -/
theorem rooted_excludes_iff (ps : List Str) (p : Path) : (Pat.rooted ps).matches p = true ↔ ps <+: p := by
  simp only [Pat.matches, Pat.norm, Norm.matches, Bool.false_eq_true, if_false, matchFrom_lits]

/-- `/a` in the words of the task: the first component is `a` -/
theorem rooted_single_excludes_iff (a : Str) (p : Path) : (Pat.rooted [a]).matches p = true ↔ p.head? = some a := by
  rw [rooted_excludes_iff]
  cases p with
  | nil => simp
  | cons c cs => simp [List.cons_prefix_cons, eq_comm]

/-- a leading `/` makes no difference once the line has two names -/
theorem rooted_eq_rel (ps : List Str) (p : Path) : (Pat.rooted ps).matches p = (Pat.rel ps).matches p := rfl

/-- **`a/*`** excludes exactly the files at least one level below the top-level directory `a`:
the first component is `a` and a (non-empty) component follows -/
theorem under_excludes_iff (a : Str) (p : Path) :
    (Pat.under a).matches p = true ↔ ∃ b rest, p = a :: b :: rest ∧ b ≠ [] := by
  simp only [Pat.matches, Pat.norm, Norm.matches, Bool.false_eq_true, if_false]
  match p with
  | [] => simp [matchFrom]
  | [c] => simp [matchFrom]
  | c :: b :: rest =>
    simp only [matchFrom, Bool.and_eq_true, lit_matches, any_matches, Bool.not_false, Bool.true_or,
      and_true, List.cons.injEq]
    constructor
    · rintro ⟨rfl, hb⟩; exact ⟨b, rest, ⟨rfl, rfl, rfl⟩, hb⟩
    · rintro ⟨b', rest', ⟨rfl, rfl, rfl⟩, hb⟩; exact ⟨rfl, hb⟩

/-- ... for the files of a directory tree (names are never empty): `a/*` and `/a` differ on the
file called `a` directly under the root only -/
theorem under_excludes_file_iff {ch : List Node} (hwf : wfDir ch = true) {p : Path} {c : Str}
    (hf : FileAt ch p c) (a : Str) :
    (Pat.under a).matches p = true ↔ (Pat.rooted [a]).matches p = true ∧ p ≠ [a] := by
  rw [under_excludes_iff, rooted_excludes_iff]
  constructor
  · rintro ⟨b, rest, rfl, _⟩
    exact ⟨by simp [List.cons_prefix_cons], by simp⟩
  · rintro ⟨⟨t, rfl⟩, hne⟩
    match t with
    | [] => exact absurd rfl hne
    | b :: rest =>
      refine ⟨b, rest, rfl, ?_⟩
      have := hf.goodNames hwf b (by simp)
      exact (goodName_iff.1 this).1

/-- `x` excludes what `x/` excludes and, in addition, the files called `x` -/
theorem name_vs_dirOnly (x : Str) (p : Path) :
    (Pat.name x).matches p = true ↔ (Pat.dirOnly x).matches p = true ∨ p.getLast? = some x := by
  rw [name_excludes_iff, dirOnly_excludes_iff]
  rcases List.eq_nil_or_concat p with rfl | ⟨l, b, rfl⟩
  · simp
  · simp [eq_comm]

example : (Pat.under (str "vendor")).matches [str "vendor", str "lib", str "x.c"] = true ∧
    (Pat.under (str "vendor")).matches [str "vendor"] = false ∧
    (Pat.rooted [str "vendor"]).matches [str "vendor"] = true ∧
    (Pat.under (str "vendor")).matches [str "src", str "vendor", str "x.c"] = false ∧
    (Pat.dirOnly (str "docs")).matches [str "src", str "docs", str "x.py"] = true ∧
    (Pat.dirOnly (str "docs")).matches [str "src", str "docs"] = false ∧
    (Pat.name (str "docs")).matches [str "src", str "docs"] = true := by
  decide +kernel

/-! ## (3) lists of lines -/

/-- **a file is excluded exactly when some line matches it** (there is no negation in the
fragment, so no later line can take a match back) -/
theorem excluded_iff_some_line (pats : List Pat) (p : Path) :
    excludedBy pats p = true ↔ ∃ q ∈ pats, q.matches p = true := excludedBy_iff

/-- **more lines exclude more**: what a list excludes, every list containing its lines excludes -/
theorem excluded_monotone {pats pats' : List Pat} (h : ∀ q ∈ pats, q ∈ pats') (p : Path)
    (hx : excludedBy pats p = true) : excludedBy pats' p = true := by
  obtain ⟨q, hq, hm⟩ := excludedBy_iff.1 hx
  exact excludedBy_iff.2 ⟨q, h q hq, hm⟩

/-- **the order of the lines is irrelevant**, and so are repetitions: two lists with the same lines
exclude the same files -/
theorem excluded_order_irrelevant {pats pats' : List Pat} (h : ∀ q, q ∈ pats ↔ q ∈ pats') :
    excludedBy pats = excludedBy pats' := by
  funext p
  rw [Bool.eq_iff_iff]
  exact ⟨excluded_monotone (fun q => (h q).1) p, excluded_monotone (fun q => (h q).2) p⟩

/-- in particular for a reordering -/
theorem excluded_perm {pats pats' : List Pat} (h : pats.Perm pats') : excludedBy pats = excludedBy pats' :=
  excluded_order_irrelevant (fun _ => h.mem_iff)

/-- **the built-in list** excludes exactly the files with a component equal to one of the 26 names -/
theorem builtin_excludes_iff (p : Path) : excludedBy builtin p = true ↔ ∃ c ∈ p, c ∈ builtinNames :=
  excludedBy_names

/-- **the decision of `generate_exclude_spec`**: a built-in name among the components, or a match of one
of the user's lines; which of the user's sources a line comes from, and where it stands, is
irrelevant -/
theorem excludedWith_iff (user : List Pat) (p : Path) :
    excludedWith user p = true ↔ (∃ c ∈ p, c ∈ builtinNames) ∨ ∃ q ∈ user, q.matches p = true := by
  rw [excludedWith, excludedBy_append, Bool.or_eq_true, builtin_excludes_iff, excludedBy_iff]

theorem excludedWith_sources (configured gitignore : List Pat) :
    excludedWith (configured ++ gitignore) = excludedWith (gitignore ++ configured) := by
  funext p
  rw [Bool.eq_iff_iff, excludedWith_iff, excludedWith_iff]
  simp only [List.mem_append]
  constructor <;> rintro (h | ⟨q, hq | hq, hm⟩) <;>
    first | exact .inl h | exact .inr ⟨q, .inl hq, hm⟩ | exact .inr ⟨q, .inr hq, hm⟩

/-- **everything below a matched path is matched**, for all six classes: if a line matches the
path `d` (read as the path of a file), it matches every path below `d`. So asking file by file, as
`scan_path` does, excludes whole directories. -/
theorem matches_below (q : Pat) (d rest : Path) (h : q.matches d = true) : q.matches (d ++ rest) = true := by
  simp only [Pat.matches, Norm.matches] at h ⊢
  split
  · rename_i hf; rw [if_pos hf] at h; exact matchAny_append _ _ _ _ h
  · rename_i hf; rw [if_neg hf] at h; exact matchFrom_append _ _ _ _ h

theorem excluded_below (pats : List Pat) (d rest : Path) (h : excludedBy pats d = true) :
    excludedBy pats (d ++ rest) = true := by
  obtain ⟨q, hq, hm⟩ := excludedBy_iff.1 h
  exact excludedBy_iff.2 ⟨q, hq, matches_below q d rest hm⟩

/-- the converse fails for `d/`: everything below the directory `d` is matched, the path `d`
itself is not (as a file called `d` it is not excluded; a directory is never asked) -/
theorem dirOnly_not_itself (d : Str) (pre : Path) :
    (Pat.dirOnly d).matches [d] = false ∧ ∀ b rest, (Pat.dirOnly d).matches (pre ++ d :: b :: rest) = true := by
  refine ⟨?_, fun b rest => ?_⟩
  · rw [Bool.eq_false_iff, ne_eq, dirOnly_excludes_iff]; simp
  · rw [dirOnly_excludes_iff, List.dropLast_append_of_ne_nil (by simp)]
    simp [List.dropLast_cons_cons]

/-- **floating lines** (`x`, `d/`, `*.ext`) match wherever the matched part is moved in the tree;
**anchored lines** (`a/b`, `a/*`, `/a`) do not - witness below -/
theorem floating_matches_anywhere (q : Pat) (hq : q.norm.floating = true) (pre p : Path)
    (h : q.matches p = true) : q.matches (pre ++ p) = true := by
  simp only [Pat.matches, Norm.matches, hq, if_true] at h ⊢
  exact matchAny_prepend _ _ pre p h

/-- witness: `a/b` matches `a/b/f.py` but not `x/a/b/f.py`; nor does `/a` or `a/*` one level down -/
theorem anchored_not_anywhere :
    (Pat.rel [str "a", str "b"]).matches [str "a", str "b", str "f.py"] = true ∧
    (Pat.rel [str "a", str "b"]).matches [str "x", str "a", str "b", str "f.py"] = false ∧
    (Pat.rooted [str "a"]).matches [str "x", str "a", str "f.py"] = false ∧
    (Pat.under (str "a")).matches [str "x", str "a", str "b", str "f.py"] = false := by
  decide +kernel

/-! ## (4) C11 with the patterns in place of the oracle -/

/-- the oracles with pathspec's decision replaced by the model of the six classes -/
def withPatterns (O : Oracles) (user : List Pat) : Oracles := { O with excluded := excludedWith user }

/-- the qualification of C11 without an oracle for the patterns: `p` is the path of a file with
bytes `c` below the root, no component starts with a dot, no component is one of the 26 built-in
names, no line of the user's list matches `p`, and the file's name has the supported language
`lang` -/
def Qualifies (user : List Pat) (langOf : Str → Option Nat) (ch : List Node) (p : Path) (c : Str) (lang : Nat) : Prop :=
  FileAt ch p c ∧ Visible p ∧ (∀ x ∈ p, x ∉ builtinNames) ∧ (∀ q ∈ user, q.matches p = false) ∧
    langOf (baseName p) = some lang

variable (O : Oracles) (user : List Pat) (rn : Str) (ch : List Node)

theorem selected_iff_qualifies {p : Path} {c : Str} {lang : Nat} :
    Selected (withPatterns O user) ch p c lang ↔ Qualifies user O.langOf ch p c lang := by
  have hx : excludedWith user p = false ↔ (∀ x ∈ p, x ∉ builtinNames) ∧ ∀ q ∈ user, q.matches p = false := by
    rw [← Bool.not_eq_true, excludedWith_iff]
    simp only [not_or, not_exists, not_and, Bool.not_eq_true]
  simp only [Selected, Qualifies, withPatterns, hx, and_assoc]

/-- **C11 (1) for the six classes: the scanned key set.** When the scan completes, the keys of
the result are exactly the root-relative paths of the files that are not hidden, have no
built-in name among their components, are matched by none of the user's lines, and have a
supported language. No oracle for the patterns is left. -/
theorem scanned_keys_exact_patterns (hwf : wfDir ch = true) {files : List (Str × FileEntry)}
    (h : (scanPath (withPatterns O user) (.dir rn ch)).result = .ok files) (k : Str) :
    k ∈ files.map (·.1) ↔ ∃ p c lang, Qualifies user O.langOf ch p c lang ∧ k = joinPath p := by
  rw [C11.scanned_keys_exact (withPatterns O user) rn ch hwf h k]
  simp only [selected_iff_qualifies]

/-- **C11 (2) for the six classes**: each such file appears exactly once, with the entry built from
it (path, checksum, language, the measurements of its decoded bytes) -/
theorem scanned_entries_exact_patterns (hwf : wfDir ch = true) {files : List (Str × FileEntry)}
    (h : (scanPath (withPatterns O user) (.dir rn ch)).result = .ok files) :
    (files.map (·.1)).Nodup ∧
    ∀ k e, (k, e) ∈ files ↔ ∃ p c lang ms, Qualifies user O.langOf ch p c lang ∧
      O.analyze lang (O.decode c) = .ok ms ∧ k = joinPath p ∧ e = entryOf O p c lang ms := by
  obtain ⟨h1, h2⟩ := C11.scanned_entries_exact (withPatterns O user) rn ch hwf h
  refine ⟨h1, fun k e => ?_⟩
  rw [h2]
  simp only [selected_iff_qualifies]
  exact Iff.rfl

/-- **C11 (3) for the six classes**: only such files are analysed, none twice, whether or not the
scan completes -/
theorem analysed_only_qualifying_patterns (hwf : wfDir ch = true) :
    (∀ k ∈ (scanPath (withPatterns O user) (.dir rn ch)).analysed,
      ∃ p c lang, Qualifies user O.langOf ch p c lang ∧ k = joinPath p) ∧
    (scanPath (withPatterns O user) (.dir rn ch)).analysed.Nodup := by
  obtain ⟨h1, h2, _⟩ := C11.analysed_only_selected (withPatterns O user) rn ch hwf
  refine ⟨fun k hk => ?_, h2⟩
  obtain ⟨p, c, lang, hs, e⟩ := h1 k hk
  exact ⟨p, c, lang, (selected_iff_qualifies O user ch).1 hs, e⟩

/-- **more lines, fewer keys (1)**: when the user's list grows, the keys of the new scan are exactly
the old qualifying files that none of the lines - old and new - matches -/
theorem scanned_keys_more_lines (user' : List Pat) (hsub : ∀ q ∈ user, q ∈ user') (hwf : wfDir ch = true)
    {files' : List (Str × FileEntry)}
    (h' : (scanPath (withPatterns O user') (.dir rn ch)).result = .ok files') (k : Str) :
    k ∈ files'.map (·.1) ↔
      ∃ p c lang, Qualifies user O.langOf ch p c lang ∧ (∀ q ∈ user', q.matches p = false) ∧ k = joinPath p := by
  rw [scanned_keys_exact_patterns O user' rn ch hwf h' k]
  constructor
  · rintro ⟨p, c, lang, ⟨a, b, c', d, e⟩, rfl⟩
    exact ⟨p, c, lang, ⟨a, b, c', fun q hq => d q (hsub q hq), e⟩, d, rfl⟩
  · rintro ⟨p, c, lang, ⟨a, b, c', _, e⟩, d, rfl⟩
    exact ⟨p, c, lang, ⟨a, b, c', d, e⟩, rfl⟩

/-- **more lines, fewer keys (2)**: every key of the scan with the longer list is a key of the scan
with the shorter one -/
theorem scanned_keys_antitone (user' : List Pat) (hsub : ∀ q ∈ user, q ∈ user') (hwf : wfDir ch = true)
    {files files' : List (Str × FileEntry)}
    (h : (scanPath (withPatterns O user) (.dir rn ch)).result = .ok files)
    (h' : (scanPath (withPatterns O user') (.dir rn ch)).result = .ok files') (k : Str)
    (hk : k ∈ files'.map (·.1)) : k ∈ files.map (·.1) := by
  obtain ⟨p, c, lang, hq, _, e⟩ := (scanned_keys_more_lines O user rn ch user' hsub hwf h' k).1 hk
  exact (scanned_keys_exact_patterns O user rn ch hwf h k).2 ⟨p, c, lang, hq, e⟩

/-- **the order of the user's lines, and the source each comes from, do not change the scan** -/
theorem scan_order_irrelevant (user' : List Pat) (hsame : ∀ q, q ∈ user ↔ q ∈ user') (root : Node) :
    scanPath (withPatterns O user) root = scanPath (withPatterns O user') root := by
  have : excludedWith user = excludedWith user' := by
    funext p
    rw [Bool.eq_iff_iff, excludedWith_iff, excludedWith_iff]
    simp only [hsame]
  simp only [withPatterns, this]

/-- **directories are never asked**: two exclusion oracles that agree on the paths of the FILES of
the tree give the same scan, whatever they say about directory paths or about paths that do not
exist. (For every oracle, not only for the six classes.) -/
theorem directories_never_asked (ex' : Path → Bool) (hwf : wfDir ch = true)
    (hagree : ∀ p c, FileAt ch p c → O.excluded p = ex' p) :
    scanPath { O with excluded := ex' } (.dir rn ch) = scanPath O (.dir rn ch) := by
  have hsel : selection { O with excluded := ex' } ch = selection O ch := by
    unfold selection
    apply filterMap_congr_mem
    rintro ⟨q, c⟩ hm
    obtain ⟨r, hr, hf, _⟩ := mem_cands.1 hm
    simp only [List.nil_append] at hr
    subst hr
    simp only [passes, hagree q c hf]
  have hrun : ∀ sel, runSel { O with excluded := ex' } sel = runSel O sel := by
    intro sel
    induction sel with
    | nil => rfl
    | cons x r ih => simp only [runSel, ih, entryOf]
  rw [scanPath_eq _ rn ch hwf, scanPath_eq O rn ch hwf, hsel, hrun]

/-- what a line of each class means for the files of a scan: a file that qualifies ... -/
theorem qualifies_class_facts (hwf : wfDir ch = true) {langOf : Str → Option Nat} {p : Path} {c : Str}
    {lang : Nat} (h : Qualifies user langOf ch p c lang) :
    (∀ x, Pat.name x ∈ user → x ∉ p) ∧
    (∀ d, Pat.dirOnly d ∈ user → d ∉ p.dropLast) ∧
    (∀ e, Pat.ext e ∈ user → ∀ x ∈ p, ¬ e <:+ x) ∧
    (∀ ps, Pat.rel ps ∈ user → ¬ ps <+: p) ∧
    (∀ a, Pat.under a ∈ user → p.head? = some a → p = [a]) ∧
    (∀ ps, Pat.rooted ps ∈ user → ¬ ps <+: p) := by
  obtain ⟨hf, _, _, hu, _⟩ := h
  have hn : ∀ q ∈ user, ¬ q.matches p = true := fun q hq => by simp [hu q hq]
  refine ⟨fun x hx => ?_, fun d hd => ?_, fun e he x hxp hs => ?_, fun ps hps => ?_, fun a ha hh => ?_,
    fun ps hps => ?_⟩
  · exact fun hm => hn _ hx ((name_excludes_iff x p).2 hm)
  · exact fun hm => hn _ hd ((dirOnly_excludes_iff d p).2 hm)
  · exact hn _ he ((ext_excludes_iff e p).2 ⟨x, hxp, hs⟩)
  · exact fun hm => hn _ hps ((rel_excludes_iff ps p).2 hm)
  · refine Classical.byContradiction fun hne => ?_
    have hroot : (Pat.rooted [a]).matches p = true := (rooted_single_excludes_iff a p).2 hh
    exact hn _ ha ((under_excludes_file_iff hwf hf a).2 ⟨hroot, hne⟩)
  · exact fun hm => hn _ hps ((rooted_excludes_iff ps p).2 hm)

/-! ## (5) C12 with the patterns in place of the oracle -/

/-- **C12 (2) for the six classes**: a file with a built-in name among its components, or matched
by one of the user's lines, is not analysed and not listed by `check` - whether it is named by its
relative path or reached through any directory of the tree, relative or absolute -/
theorem excluded_file_skipped_patterns (hwf : wfDir ch = true) {p : Path} {c : Str} (hf : FileAt ch p c)
    (hx : (∃ x ∈ p, x ∈ builtinNames) ∨ ∃ q ∈ user, q.matches p = true) :
    checkPaths (withPatterns O user) (.dir rn ch) [] [.relFile p] = ⟨[], .ok []⟩ ∧
    ∀ (d : Path) (sub : List Node), DirAt ch d sub → ∀ arg, (arg = .relDir d ∨ arg = .absDir d) →
      (∀ cp ∈ (checkPaths (withPatterns O user) (.dir rn ch) [] [arg]).analysed, cp.comps ≠ p) ∧
      (∀ fl, (checkPaths (withPatterns O user) (.dir rn ch) [] [arg]).result = .ok fl → ∀ pr ∈ fl, pr.1.comps ≠ p) :=
  C12.excluded_file_skipped (withPatterns O user) rn ch hwf hf ((excludedWith_iff user p).2 hx)

/-- a file named by its relative path that has no built-in name among its components, is matched
by none of the user's lines and has a supported language is analysed and listed (hidden or not) -/
theorem named_file_checked_patterns (hwf : wfDir ch = true) {p : Path} {c : Str} (hf : FileAt ch p c)
    (hb : ∀ x ∈ p, x ∉ builtinNames) (hu : ∀ q ∈ user, q.matches p = false) {lang : Nat}
    (hl : O.langOf (baseName p) = some lang) {ms : List Measurement}
    (hms : O.analyze lang (O.decode c) = .ok ms) :
    checkPaths (withPatterns O user) (.dir rn ch) [] [.relFile p] =
      ⟨[⟨false, p⟩], .ok [(⟨false, p⟩, risksOf ms)]⟩ := by
  refine C12.named_file_checked (withPatterns O user) rn ch hwf hf ?_ hl hms
  show excludedWith user p = false
  rw [← Bool.not_eq_true, excludedWith_iff]
  simp only [not_or, not_exists, not_and, Bool.not_eq_true]
  exact ⟨hb, hu⟩

/-- **C12 (1, 4) for the six classes**: a file that qualifies for the scan is checked when named by
its relative path, with the risks of the measurements `scan` holds for it -/
theorem scanned_file_checked_by_path_patterns (hwf : wfDir ch = true) {p : Path} {c : Str} {lang : Nat}
    (hq : Qualifies user O.langOf ch p c lang) {files : List (Str × FileEntry)}
    (hscan : (scanPath (withPatterns O user) (.dir rn ch)).result = .ok files) {e : FileEntry}
    (he : (joinPath p, e) ∈ files) :
    checkPaths (withPatterns O user) (.dir rn ch) [] [.relFile p] =
      ⟨[⟨false, p⟩], .ok [(⟨false, p⟩, risksOf e.ms)]⟩ :=
  C12.scanned_file_checked_by_path (withPatterns O user) rn ch hwf
    ((selected_iff_qualifies O user ch).2 hq) hscan he

/-- ... and when any directory of the tree above it is given, relative or absolute -/
theorem scanned_file_checked_through_directory_patterns (hwf : wfDir ch = true) {p : Path} {c : Str}
    {lang : Nat} (hq : Qualifies user O.langOf ch p c lang) {files : List (Str × FileEntry)}
    (hscan : (scanPath (withPatterns O user) (.dir rn ch)).result = .ok files) {e : FileEntry}
    (he : (joinPath p, e) ∈ files)
    {d : Path} {sub : List Node} (hd : DirAt ch d sub) (hpre : d <+: p)
    (arg : CheckArg) (harg : arg = .relDir d ∨ arg = .absDir d) :
    ∃ fl, (checkPaths (withPatterns O user) (.dir rn ch) [] [arg]).result = .ok fl ∧
      (⟨true, p⟩, risksOf e.ms) ∈ fl ∧ ∀ r, (⟨true, p⟩, r) ∈ fl → r = risksOf e.ms :=
  C12.scanned_file_checked_through_directory (withPatterns O user) rn ch hwf
    ((selected_iff_qualifies O user ch).2 hq) hscan he hd hpre arg harg

/-! ## non-vacuity: one tree, one line of each class -/

section Example

/-- the user's lines as texts (say: the first three in `.codelimit.yml`, the others in `.gitignore`) -/
def exTexts : List Str :=
  [str "docs/", str "*.min.js", str "vendor/*", str "/tools/x.py", str "src/gen", str "b.js"]

def exUser : List Pat :=
  [.dirOnly (str "docs"), .ext (str ".min.js"), .under (str "vendor"), .rooted [str "tools", str "x.py"],
   .rel [str "src", str "gen"], .name (str "b.js")]

example : parseAll exTexts = some exUser := by decide +kernel

example : exUser.all Pat.wf = true := by decide +kernel

def f (n c : String) : Node := .file (str n) (str c)

/--
```
a.py            kept            x.min.js          *.min.js
build/gen.py    built-in        docs/c.py         docs/
src/b.js        b.js            src/docs.py       kept              src/docs          kept by docs/, no language
src/gen/g.py    src/gen         src/x.min.js/k.py *.min.js on a directory
vendor/f.py     vendor/*        vendor/lib/e.py   vendor/*
tools/x.py      /tools/x.py     tools/y.py        kept
lib/tools/x.py  kept (anchored) lib/vendor/v.py   kept (anchored)   lib/gen/src/gen/h.py  kept (anchored)
```
-/
def exTree : List Node :=
  [f "a.py" "1", f "x.min.js" "2",
   .dir (str "build") [f "gen.py" "3"],
   .dir (str "docs") [f "c.py" "4"],
   .dir (str "src") [f "b.js" "5", f "docs.py" "6", f "docs" "7", .dir (str "gen") [f "g.py" "8"],
                     .dir (str "x.min.js") [f "k.py" "9"]],
   .dir (str "vendor") [f "f.py" "10", .dir (str "lib") [f "e.py" "11"]],
   .dir (str "tools") [f "x.py" "12", f "y.py" "13"],
   .dir (str "lib") [.dir (str "tools") [f "x.py" "14"], .dir (str "vendor") [f "v.py" "15"],
                     .dir (str "gen") [.dir (str "src") [.dir (str "gen") [f "h.py" "16"]]]]]

example : wfDir exTree = true := by decide +kernel

/-- the oracles of `C11.exO` (`.py` / `.js` by suffix) with the six lines in place of its `excluded` -/
def exO : Oracles := withPatterns C11.exO exUser

/-- the scan of the example analyses exactly the six files marked `kept` that have a language -/
example : (scanPath exO (.dir [] exTree)).analysed =
    [str "a.py", str "src/docs.py", str "tools/y.py", str "lib/tools/x.py", str "lib/vendor/v.py",
     str "lib/gen/src/gen/h.py"] := by
  decide +kernel

/-- ... completes, and these are the keys of the result -/
example : (match (scanPath exO (.dir [] exTree)).result with
      | .ok files => some (files.map (·.1))
      | .error _ => none) =
    some [str "a.py", str "src/docs.py", str "tools/y.py", str "lib/tools/x.py", str "lib/vendor/v.py",
     str "lib/gen/src/gen/h.py"] := by
  decide +kernel

/-- a file that qualifies, spelled out: `lib/tools/x.py` (the line `/tools/x.py` is anchored) -/
example : Qualifies exUser C11.exO.langOf exTree [str "lib", str "tools", str "x.py"] (str "14") 0 :=
  ⟨.under (d := str "lib") (sub := [.dir (str "tools") [f "x.py" "14"], .dir (str "vendor") [f "v.py" "15"],
      .dir (str "gen") [.dir (str "src") [.dir (str "gen") [f "h.py" "16"]]]]) (by simp [exTree])
    (.under (d := str "tools") (sub := [f "x.py" "14"]) (by simp) (.here (by simp [f]))),
   by decide +kernel, by decide +kernel, by decide +kernel, by decide +kernel⟩

/-- `check src/x.min.js/k.py` skips the file: the DIRECTORY `x.min.js` is matched by `*.min.js` -/
example : checkPaths exO (.dir [] exTree) [] [.relFile [str "src", str "x.min.js", str "k.py"]] = ⟨[], .ok []⟩ :=
  (excluded_file_skipped_patterns C11.exO exUser [] exTree (by decide +kernel) (c := str "9")
    (.under (d := str "src") (sub := [f "b.js" "5", f "docs.py" "6", f "docs" "7", .dir (str "gen") [f "g.py" "8"],
        .dir (str "x.min.js") [f "k.py" "9"]]) (by simp [exTree])
      (.under (d := str "x.min.js") (sub := [f "k.py" "9"]) (by simp) (.here (by simp [f]))))
    (.inr ⟨.ext (str ".min.js"), by simp [exUser], by decide +kernel⟩)).1

/-- the hypothesis of `directories_never_asked`: an oracle that, unlike `excludedWith exUser`, says
"excluded" for the directory paths `lib`, `src`, `tools`, ... (every path of length 1 that is not a file
of the tree) -/
example : scanPath { exO with excluded := fun p => excludedWith exUser p || p.length ≤ 1 && p != [str "a.py"]
      && p != [str "x.min.js"] } (.dir [] exTree) = scanPath exO (.dir [] exTree) := by
  refine directories_never_asked exO [] exTree _ (by decide +kernel) ?_
  intro p c hf
  match p, hf with
  | [n], .here hm =>
    simp only [exTree, f, List.mem_cons, Node.file.injEq, reduceCtorEq, List.not_mem_nil, or_false] at hm
    rcases hm with ⟨rfl, _⟩ | ⟨rfl, _⟩ <;> decide +kernel
  | _ :: _ :: _, _ => simp [exO, withPatterns]

end Example

end CL.C11pat
