import CodeLimit.Lemmas.FindAll
import CodeLimit.Lemmas.FindAllLang
import CodeLimit.Gen.Languages
import CodeLimit.Props.C15
/-!
# C14 - `find_all` reports greedy, ordered, non-overlapping matches

Property theorems only (helper lemmas live in `CodeLimit/Lemmas/FindAll.lean`).  Everything is
stated for an arbitrary deterministic machine `A` (instantiated with the DFA of a pattern by
`dfaMachine`, see `dfaMachine_deadStuck`) under

* `hnn : A.acc A.init = false` - the pattern cannot match the empty sequence;
* `hds : DeadStuck A`          - a state without transitions cannot step.

`find_all` is "earliest finish wins": an attempt is committed only when it is stuck (or the
input ends) and a committed match `(s, e)` discards every attempt that started before `e`.
Hence completeness holds only in the partial form `completeness_partial`; the full clause is
refuted by `completeness_full_fails` (known finding KF1).

How to read the file.  Sections 1-9 are the INTERNAL form: about `runM A A.init` of an abstract
machine, with the hypothesis `findAll A xs = .ok ms` (an `.error` result satisfies them vacuously;
`total` / `error_only_from_step` say when it cannot occur).  The statements in the words of the
property are: section 10 (`findAllId_*`: compiled patterns over `Identity` atoms, `Lang r` instead
of machine runs, totality `findAllId_total` included) and section 11 (`gen_find_all_greedy`: the
shipped header patterns over token predicates, for every token list, totality included).
Patterns over nested stateful predicates: `Props/C14nest.lean`; the balance clause:
`Props/C14b.lean`.
-/
namespace CL.C14

variable {β σ : Type} {A : Machine β σ} {xs : List β} {ms : List (Match β)}

/-- 1. every reported match is non-empty and inside the input -/
theorem bounds (hnn : A.acc A.init = false) (hds : DeadStuck A) (h : findAll A xs = .ok ms) :
    ∀ m ∈ ms, m.s < m.e ∧ m.e ≤ xs.length := by
  intro m hm
  have := ((findAll_spec hnn hds h).1 m hm).1
  exact ⟨this.1, this.2.1⟩

/-- 2. the recorded tokens are exactly the matched items -/
theorem records (hnn : A.acc A.init = false) (hds : DeadStuck A) (h : findAll A xs = .ok ms) :
    ∀ m ∈ ms, m.toks = slice xs m.s m.e :=
  fun m hm => ((findAll_spec hnn hds h).1 m hm).2

/-- 3 + 4. every reported match is a greedy match: the machine accepts `xs[s..e)` and cannot
continue at `e` -/
theorem greedy (hnn : A.acc A.init = false) (hds : DeadStuck A) (h : findAll A xs = .ok ms) :
    ∀ m ∈ ms, GreedyAt A xs m.s m.e :=
  fun m hm => ((findAll_spec hnn hds h).1 m hm).1

/-- 3. the machine accepts the matched items -/
theorem sound (hnn : A.acc A.init = false) (hds : DeadStuck A) (h : findAll A xs = .ok ms) :
    ∀ m ∈ ms, ∃ q, runM A A.init (slice xs m.s m.e) = some q ∧ A.acc q = true := by
  intro m hm
  obtain ⟨_, _, q, hr, hacc, _⟩ := greedy hnn hds h m hm
  exact ⟨q, hr, hacc⟩

/-- 4 (strong form). the machine cannot even run over a longer slice from the same start -/
theorem longest_none (hnn : A.acc A.init = false) (hds : DeadStuck A)
    (h : findAll A xs = .ok ms) :
    ∀ m ∈ ms, ∀ e', m.e < e' → e' ≤ xs.length → runM A A.init (slice xs m.s e') = none :=
  fun m hm _ h1 h2 => (greedy hnn hds h m hm).longer_none hds h1 h2

/-- 4. no longer slice from the same start is accepted -/
theorem longest (hnn : A.acc A.init = false) (hds : DeadStuck A) (h : findAll A xs = .ok ms) :
    ∀ m ∈ ms, ∀ e', m.e < e' → e' ≤ xs.length →
      ¬ ∃ q, runM A A.init (slice xs m.s e') = some q ∧ A.acc q = true := by
  intro m hm e' h1 h2 ⟨q, hr, _⟩
  rw [longest_none hnn hds h m hm e' h1 h2] at hr
  cases hr

/-- 5. matches are reported in position order and do not overlap (this includes the matches
added by the loop after the end of the input) -/
theorem ordered_disjoint (hnn : A.acc A.init = false) (hds : DeadStuck A)
    (h : findAll A xs = .ok ms) : ms.Pairwise (fun m m' => m.e ≤ m'.s) :=
  (findAll_spec hnn hds h).2.1

/-- 6 (strongest form). a position `p` from which greedy matching succeeds with finish `f` is
either covered by a reported match that finishes no later than `f`, or was pre-empted by a
reported match that starts after `p` and finishes strictly before `f` -/
theorem completeness_partial_strong (hnn : A.acc A.init = false) (hds : DeadStuck A)
    (h : findAll A xs = .ok ms) :
    ∀ p f, GreedyAt A xs p f →
      (∃ m ∈ ms, m.s ≤ p ∧ p < m.e ∧ m.e ≤ f) ∨ (∃ m ∈ ms, p < m.s ∧ m.e < f) := by
  intro p f hg
  have hp : p < xs.length := Nat.lt_of_lt_of_le hg.1 hg.2.1
  have hms := (findAll_spec hnn hds h).1
  rcases (findAll_spec hnn hds h).2.2 p hp with ⟨m, hm, hpe, ⟨q, hq⟩, hnext⟩ | hno
  · have hle : m.e ≤ f := greedy_alive_le hds hg (hms m hm).1.2.1 hq
    by_cases hs : m.s ≤ p
    · exact .inl ⟨m, hm, hs, hpe, hle⟩
    · obtain ⟨hlen, q', hq'⟩ := hnext (Nat.lt_of_not_le hs)
      have := greedy_alive_le hds hg (Nat.succ_le_of_lt hlen) hq'
      exact .inr ⟨m, hm, Nat.lt_of_not_le hs, this⟩
  · exact absurd hg (hno f)

/-- 6. every position from which greedy matching succeeds is covered by a reported match, or
was pre-empted by a reported match that starts later and finishes no later -/
theorem completeness_partial (hnn : A.acc A.init = false) (hds : DeadStuck A)
    (h : findAll A xs = .ok ms) :
    ∀ p f, GreedyAt A xs p f →
      (∃ m ∈ ms, m.s ≤ p ∧ p < m.e) ∨ (∃ m ∈ ms, p < m.s ∧ m.e ≤ f) := by
  intro p f hg
  rcases completeness_partial_strong hnn hds h p f hg with ⟨m, hm, h1, h2, _⟩ | ⟨m, hm, h1, h2⟩
  · exact .inl ⟨m, hm, h1, h2⟩
  · exact .inr ⟨m, hm, h1, Nat.le_of_lt h2⟩

/-- a position with a greedy match that is *not* covered lies strictly inside the span from
which it was pre-empted: the reported match is properly nested in `[p, f)` -/
theorem uncovered_is_preempted (hnn : A.acc A.init = false) (hds : DeadStuck A)
    (h : findAll A xs = .ok ms) (p f : Nat) (hg : GreedyAt A xs p f)
    (hun : ¬ ∃ m ∈ ms, m.s ≤ p ∧ p < m.e) : ∃ m ∈ ms, p < m.s ∧ m.e < f := by
  rcases completeness_partial_strong hnn hds h p f hg with ⟨m, hm, h1, h2, _⟩ | h'
  · exact absurd ⟨m, hm, h1, h2⟩ hun
  · exact h'

/-! ## instantiation with the DFA of a pattern -/

/-- the two hypotheses are discharged for the machine of a compiled pattern: `DeadStuck` always
holds (`dfaMachine_deadStuck`), and `hnn` says that the start state is not accepting -/
theorem greedy_dfa {α π : Type} [DecidableEq α] (D : Dfa α) (C : Acceptor α π β)
    (hnn : D.isAcc .start = false) (h : findAll (dfaMachine D C) xs = .ok ms) :
    ∀ m ∈ ms, GreedyAt (dfaMachine D C) xs m.s m.e :=
  greedy hnn (dfaMachine_deadStuck D C) h

/-! ## 7. full completeness fails -/

/-- the DFA of `Union([a, b, c, d], [b, c])` with `a b c d = 0 1 2 3`:
`0 -a-> 1 -b-> 2 -c-> 3 -d-> 4`, `0 -b-> 5 -c-> 6`, accepting `{4, 6}` (both without
transitions) -/
def U : Machine Nat Nat where
  init := 0
  step := fun q x => .ok (
    if q = 0 ∧ x = 0 then some 1 else if q = 1 ∧ x = 1 then some 2
    else if q = 2 ∧ x = 2 then some 3 else if q = 3 ∧ x = 3 then some 4
    else if q = 0 ∧ x = 1 then some 5 else if q = 5 ∧ x = 2 then some 6 else none)
  acc := fun q => q == 4 || q == 6
  dead := fun q => q == 4 || q == 6

theorem U_nn : U.acc U.init = false := rfl

theorem U_deadStuck : DeadStuck U := by
  intro q x h
  have h' : q = 4 ∨ q = 6 := by simpa [U] using h
  rcases h' with rfl | rfl <;> simp [U]

theorem U_abcdx : findAll U [0, 1, 2, 3, 9] = .ok [⟨1, 3, [1, 2]⟩] := rfl

/-- on `a b c d x` only `b c` = (1, 3) is reported although greedy matching from position 0
succeeds (`a b c d`, finish 4): position 0 is not covered by any reported match -/
theorem completeness_full_fails :
    ∃ (A : Machine Nat Nat) (xs : List Nat) (ms : List (Match Nat)) (p f : Nat),
      A.acc A.init = false ∧ DeadStuck A ∧ findAll A xs = .ok ms ∧ GreedyAt A xs p f ∧
      ¬ ∃ m ∈ ms, m.s ≤ p ∧ p < m.e := by
  refine ⟨U, [0, 1, 2, 3, 9], [⟨1, 3, [1, 2]⟩], 0, 4, U_nn, U_deadStuck, U_abcdx, ?_, ?_⟩
  · exact ⟨by decide, by decide, 4, by decide, by decide, .inr (.inl (by decide))⟩
  · simp

/-! ## 8. errors and totality -/

/-- `find_all` raises only what `Pattern.consume` raises -/
theorem error_only_from_step {e : Err} (h : findAll A xs = .error e) :
    ∃ q x, A.step q x = .error e :=
  findAll_error h

/-- if `consume` never raises, `find_all` returns -/
theorem total (hstep : ∀ q x, ∃ r, A.step q x = .ok r) : ∃ ms, findAll A xs = .ok ms := by
  cases h : findAll A xs with
  | ok ms => exact ⟨ms, rfl⟩
  | error e =>
    obtain ⟨q, x, hs⟩ := findAll_error h
    obtain ⟨r, hr⟩ := hstep q x
    rw [hr] at hs; cases hs

/-! ## 9. non-vacuity -/

theorem U_two : findAll U [0, 1, 2, 3, 9, 1, 2] = .ok [⟨1, 3, [1, 2]⟩, ⟨5, 7, [1, 2]⟩] := rfl

/-- items 1-6 instantiated on `a b c d x b c`: two matches, the second one committed by the
loop after the end of the input, position 0 pre-empted -/
example :
    let xs := [0, 1, 2, 3, 9, 1, 2]
    let ms : List (Match Nat) := [⟨1, 3, [1, 2]⟩, ⟨5, 7, [1, 2]⟩]
    findAll U xs = .ok ms ∧ 2 ≤ ms.length ∧
    (∀ m ∈ ms, m.s < m.e ∧ m.e ≤ xs.length) ∧
    (∀ m ∈ ms, m.toks = slice xs m.s m.e) ∧
    (∀ m ∈ ms, ∃ q, runM U U.init (slice xs m.s m.e) = some q ∧ U.acc q = true) ∧
    (∀ m ∈ ms, ∀ e', m.e < e' → e' ≤ xs.length →
      ¬ ∃ q, runM U U.init (slice xs m.s e') = some q ∧ U.acc q = true) ∧
    (∀ m ∈ ms, GreedyAt U xs m.s m.e) ∧
    ms.Pairwise (fun m m' => m.e ≤ m'.s) ∧
    (∀ p f, GreedyAt U xs p f →
      (∃ m ∈ ms, m.s ≤ p ∧ p < m.e) ∨ (∃ m ∈ ms, p < m.s ∧ m.e ≤ f)) ∧
    GreedyAt U xs 0 4 :=
  ⟨U_two, by decide, bounds U_nn U_deadStuck U_two, records U_nn U_deadStuck U_two,
    sound U_nn U_deadStuck U_two, longest U_nn U_deadStuck U_two, greedy U_nn U_deadStuck U_two,
    ordered_disjoint U_nn U_deadStuck U_two, completeness_partial U_nn U_deadStuck U_two,
    ⟨by decide, by decide, 4, by decide, by decide, .inr (.inl (by decide))⟩⟩

/-! ## 10. `find_all` on a compiled pattern, in terms of the pattern's language

The items 1-6 for `findAllId r base ord w` (`matcher.find_all` on a pattern with `Identity`
atoms), for every pattern `r` that cannot match the empty sequence (`hnn : ¬ Lang r []`), every
value `base` of the global id counter, every set-iteration order `ord` and every input `w`.
"The machine accepts / cannot continue" is replaced by statements about the regular language
`Lang r` of the pattern (`CodeLimit/Spec/Regex.lean`). `GreedyLang r w p f`
(`CodeLimit/Lemmas/FindAllLang.lean`): `p < f ≤ |w|`, `w[p..f)` is a word of `Lang r`, and no
longer slice `w[p..e')` is a prefix of any word of `Lang r` - i.e. the table-driven run from `p`
survives exactly up to `f` and is accepting there. -/

section pattern
variable {α : Type} [DecidableEq α] {r : Rx α} {base : Nat} {ord : List α → List α}
  {w : List α} {ms : List (Match α)}

/-- 8'. `find_all` on a compiled pattern never raises and never runs out of fuel: the subset
construction terminates and every row of the table has pairwise distinct labels, so
`Pattern.consume` never sees two accepting transitions. (No assumption on `r`.) -/
theorem findAllId_total (r : Rx α) (base : Nat) (hord : IsOrder ord) (w : List α) :
    ∃ ms, findAllId r base ord w = .ok ms :=
  findAllId_ok r base hord w

/-- for the machine of a compiled pattern the machine-level notion of a greedy match is the
language-level one -/
theorem greedyAt_iff_greedyLang {D : Dfa α} (hord : IsOrder ord)
    (hD : nfaToDfa (compile r base) ord = some D) (w : List α) (p f : Nat) :
    GreedyAt (dfaMachine D idAcceptor) w p f ↔ GreedyLang r w p f :=
  CL.greedyAt_iff_greedyLang hord hD w p f

/-- 3 + 4 (language form). every reported match is a greedy match of the pattern's language -/
theorem findAllId_greedy (hnn : ¬ Lang r []) (hord : IsOrder ord)
    (h : findAllId r base ord w = .ok ms) : ∀ m ∈ ms, GreedyLang r w m.s m.e := by
  obtain ⟨D, hD, heq⟩ := findAllId_eq r base hord w
  rw [heq] at h
  intro m hm
  exact (CL.greedyAt_iff_greedyLang hord hD w m.s m.e).1
    (greedy_dfa D idAcceptor (isAcc_start_false hord hD hnn) h m hm)

/-- 1. every reported match is non-empty and inside the input -/
theorem findAllId_bounds (hnn : ¬ Lang r []) (hord : IsOrder ord)
    (h : findAllId r base ord w = .ok ms) : ∀ m ∈ ms, m.s < m.e ∧ m.e ≤ w.length :=
  fun m hm => ⟨(findAllId_greedy hnn hord h m hm).1, (findAllId_greedy hnn hord h m hm).2.1⟩

/-- 2. the recorded tokens are exactly the matched items -/
theorem findAllId_records (hnn : ¬ Lang r []) (hord : IsOrder ord)
    (h : findAllId r base ord w = .ok ms) : ∀ m ∈ ms, m.toks = slice w m.s m.e := by
  obtain ⟨D, hD, heq⟩ := findAllId_eq r base hord w
  rw [heq] at h
  exact records (isAcc_start_false hord hD hnn) (dfaMachine_deadStuck D idAcceptor) h

/-- 3. every reported match is a word of the pattern's language -/
theorem findAllId_sound (hnn : ¬ Lang r []) (hord : IsOrder ord)
    (h : findAllId r base ord w = .ok ms) : ∀ m ∈ ms, Lang r (slice w m.s m.e) :=
  fun m hm => (findAllId_greedy hnn hord h m hm).2.2.1

/-- 4 (strong form). no longer slice from the same start is even a prefix of a word of the
language -/
theorem findAllId_longest_prefix (hnn : ¬ Lang r []) (hord : IsOrder ord)
    (h : findAllId r base ord w = .ok ms) :
    ∀ m ∈ ms, ∀ e', m.e < e' → e' ≤ w.length → ¬ ∃ v, Lang r (slice w m.s e' ++ v) :=
  fun m hm => (findAllId_greedy hnn hord h m hm).2.2.2

/-- 4. every reported match is the longest word of the language from its start: no longer
slice from the same start belongs to the language -/
theorem findAllId_longest (hnn : ¬ Lang r []) (hord : IsOrder ord)
    (h : findAllId r base ord w = .ok ms) :
    ∀ m ∈ ms, ∀ e', m.e < e' → e' ≤ w.length → ¬ Lang r (slice w m.s e') := by
  intro m hm e' h1 h2 hl
  exact findAllId_longest_prefix hnn hord h m hm e' h1 h2 ⟨[], by simpa using hl⟩

/-- 5. matches are reported in position order and do not overlap -/
theorem findAllId_ordered_disjoint (hnn : ¬ Lang r []) (hord : IsOrder ord)
    (h : findAllId r base ord w = .ok ms) : ms.Pairwise (fun m m' => m.e ≤ m'.s) := by
  obtain ⟨D, hD, heq⟩ := findAllId_eq r base hord w
  rw [heq] at h
  exact ordered_disjoint (isAcc_start_false hord hD hnn) (dfaMachine_deadStuck D idAcceptor) h

/-- 6 (strongest form, language terms). a position `p` from which greedy matching succeeds with
finish `f` is covered by a reported match that finishes no later than `f`, or was pre-empted by
a reported match that starts after `p` and finishes strictly before `f` -/
theorem findAllId_completeness_partial_strong (hnn : ¬ Lang r []) (hord : IsOrder ord)
    (h : findAllId r base ord w = .ok ms) :
    ∀ p f, GreedyLang r w p f →
      (∃ m ∈ ms, m.s ≤ p ∧ p < m.e ∧ m.e ≤ f) ∨ (∃ m ∈ ms, p < m.s ∧ m.e < f) := by
  obtain ⟨D, hD, heq⟩ := findAllId_eq r base hord w
  rw [heq] at h
  intro p f hg
  exact completeness_partial_strong (isAcc_start_false hord hD hnn)
    (dfaMachine_deadStuck D idAcceptor) h p f ((CL.greedyAt_iff_greedyLang hord hD w p f).2 hg)

/-- 6 (language terms; partial - the full clause "every such position is covered" is refuted
by `findAllId_completeness_full_fails`). every position from which greedy matching succeeds is
covered by a reported match, or was pre-empted by a reported match that starts later and
finishes no later -/
theorem findAllId_completeness_partial (hnn : ¬ Lang r []) (hord : IsOrder ord)
    (h : findAllId r base ord w = .ok ms) :
    ∀ p f, GreedyLang r w p f →
      (∃ m ∈ ms, m.s ≤ p ∧ p < m.e) ∨ (∃ m ∈ ms, p < m.s ∧ m.e ≤ f) := by
  intro p f hg
  rcases findAllId_completeness_partial_strong hnn hord h p f hg with
    ⟨m, hm, h1, h2, _⟩ | ⟨m, hm, h1, h2⟩
  · exact .inl ⟨m, hm, h1, h2⟩
  · exact .inr ⟨m, hm, h1, Nat.le_of_lt h2⟩

end pattern

/-! ### the full completeness clause fails on a real compiled pattern (KF1) -/

/-- `Union([a, b, c, d], [b, c])` with `a b c d = 0 1 2 3` -/
def Uabcd : Rx Nat :=
  .alt (.cat (.cat (.cat (.atom 0) (.atom 1)) (.atom 2)) (.atom 3)) (.cat (.atom 1) (.atom 2))

theorem Uabcd_nn : ¬ Lang Uabcd [] := by
  rw [← langB_iff]; decide +kernel

theorem Uabcd_abcdx : findAllId Uabcd 0 id [0, 1, 2, 3, 9] = .ok [⟨1, 3, [1, 2]⟩] := by
  decide +kernel

theorem Uabcd_greedy_0_4 : GreedyLang Uabcd [0, 1, 2, 3, 9] 0 4 := by
  refine ⟨by decide, by decide, (langB_iff _ _).1 (by decide +kernel), ?_⟩
  intro e' h1 h2
  have : e' = 5 := by simp only [List.length_cons, List.length_nil] at h2; omega
  subst this
  rw [← viableB_iff]
  decide +kernel

/-- the compiled pattern `Union([a, b, c, d], [b, c])` on `a b c d x` reports only `b c` =
(1, 3) although `a b c d` is a greedy match of the language from position 0: position 0 is not
covered by any reported match -/
theorem findAllId_completeness_full_fails :
    ∃ (r : Rx Nat) (w : List Nat) (ms : List (Match Nat)) (p f : Nat),
      ¬ Lang r [] ∧ findAllId r 0 id w = .ok ms ∧ GreedyLang r w p f ∧
      ¬ ∃ m ∈ ms, m.s ≤ p ∧ p < m.e :=
  ⟨Uabcd, [0, 1, 2, 3, 9], [⟨1, 3, [1, 2]⟩], 0, 4, Uabcd_nn, Uabcd_abcdx, Uabcd_greedy_0_4,
    by simp⟩

/-- the hypothesis `¬ Lang r []` is needed: a pattern that can match the empty sequence
reports empty matches -/
theorem nullable_reports_empty :
    findAllId (.opt (.atom 1)) 0 id [2] = .ok [⟨0, 0, []⟩] := by decide +kernel

/-! ### non-vacuity of section 10 -/

theorem Uabcd_two :
    findAllId Uabcd 7 List.reverse [0, 1, 2, 3, 9, 1, 2]
      = .ok [⟨1, 3, [1, 2]⟩, ⟨5, 7, [1, 2]⟩] := by decide +kernel

/-- the language-level items instantiated on `a b c d x b c` (id base 7, reversed set order):
two matches, the second one committed by the loop after the end of the input; position 0 has a
greedy match (`a b c d`) and is pre-empted -/
example :
    let w := [0, 1, 2, 3, 9, 1, 2]
    let ms : List (Match Nat) := [⟨1, 3, [1, 2]⟩, ⟨5, 7, [1, 2]⟩]
    findAllId Uabcd 7 List.reverse w = .ok ms ∧ 2 ≤ ms.length ∧
    (∀ m ∈ ms, m.s < m.e ∧ m.e ≤ w.length) ∧
    (∀ m ∈ ms, m.toks = slice w m.s m.e) ∧
    (∀ m ∈ ms, Lang Uabcd (slice w m.s m.e)) ∧
    (∀ m ∈ ms, ∀ e', m.e < e' → e' ≤ w.length → ¬ Lang Uabcd (slice w m.s e')) ∧
    ms.Pairwise (fun m m' => m.e ≤ m'.s) ∧
    (∀ p f, GreedyLang Uabcd w p f →
      (∃ m ∈ ms, m.s ≤ p ∧ p < m.e) ∨ (∃ m ∈ ms, p < m.s ∧ m.e ≤ f)) ∧
    GreedyLang Uabcd w 0 4 :=
  ⟨Uabcd_two, by decide, findAllId_bounds Uabcd_nn isOrder_reverse Uabcd_two,
    findAllId_records Uabcd_nn isOrder_reverse Uabcd_two,
    findAllId_sound Uabcd_nn isOrder_reverse Uabcd_two,
    findAllId_longest Uabcd_nn isOrder_reverse Uabcd_two,
    findAllId_ordered_disjoint Uabcd_nn isOrder_reverse Uabcd_two,
    findAllId_completeness_partial Uabcd_nn isOrder_reverse Uabcd_two,
    ⟨by decide, by decide, (langB_iff _ _).1 (by decide +kernel), by
      intro e' h1 h2
      rw [← viableB_iff]
      have : e' = 5 ∨ e' = 6 ∨ e' = 7 := by
        simp only [List.length_cons, List.length_nil] at h2; omega
      rcases this with rfl | rfl | rfl <;> decide +kernel⟩⟩

/-! ## 11. the header patterns of the supported languages

The hypothesis "the pattern cannot match the empty sequence" holds for every header pattern
that a language passes to `get_headers` (checked on the generated pattern table by evaluating
the compiled table, `langB`), so items 1-6 apply to the machine `get_headers` runs `find_all`
on (token predicates, including `Balanced`); totality comes from C15 (the shipped patterns are
unambiguous), so the statement needs no "if `find_all` returns". -/

/-- no header pattern of any supported language matches the empty token sequence -/
theorem gen_header_patterns_not_nullable :
    ∀ L ∈ Gen.all, ∀ hp ∈ L.2.pats, ¬ Lang hp.expr [] := by
  have h : ∀ L ∈ Gen.all, ∀ hp ∈ L.2.pats, langB hp.expr [] = false := by decide +kernel
  intro L hL hp hhp hl
  have := h L hL hp hhp
  rw [(langB_iff _ _).2 hl] at this
  cases this

/-- **items 1-6 for the `find_all` call of `get_headers` on a header pattern of a supported
language, for EVERY token list**: the call returns (no ambiguity error, no exhausted fuel:
`C15.findAll_total`), every reported match is non-empty, in range, records exactly the matched
tokens and is a greedy match of the compiled table over the token predicates (accepted, and the
table cannot continue at its end: sound + longest), the matches are ordered and disjoint, and
(item 6, partial as for every machine - KF1) every position with a greedy match is covered by a
reported match that finishes no later, or was pre-empted by a reported match that starts later
and finishes strictly earlier.

`GreedyAt (dfaMachine D tokAcceptor)` is the machine-level notion (the table of the compiled
pattern run with fresh predicate copies); its reading without automata - `Name ( … )+`,
`[function] Name ( … )+`, `def Name ( … )+` by plain recursion on the tokens - is
`C01syn.greedy_iff_synHeader` / `greedy_iff_funHeader` / `C01pyfull.greedy_iff_defHeader`; the
balance clause is `C14b.early_end_nest_zero`. -/
theorem gen_find_all_greedy {L : String × Language} (hL : L ∈ Gen.all) {hp : HeaderPat}
    (hhp : hp ∈ L.2.pats) {D : Dfa Pred} (hD : compileTok hp.expr = .ok D) (toks : List Tok) :
    ∃ ms, findAll (dfaMachine D tokAcceptor) toks = .ok ms ∧
      (∀ m ∈ ms, m.s < m.e ∧ m.e ≤ toks.length ∧ m.toks = slice toks m.s m.e ∧
        GreedyAt (dfaMachine D tokAcceptor) toks m.s m.e) ∧
      ms.Pairwise (fun m m' => m.e ≤ m'.s) ∧
      (∀ p f, GreedyAt (dfaMachine D tokAcceptor) toks p f →
        (∃ m ∈ ms, m.s ≤ p ∧ p < m.e ∧ m.e ≤ f) ∨ (∃ m ∈ ms, p < m.s ∧ m.e < f)) := by
  obtain ⟨ms, h⟩ := C15.findAll_total L.2 (List.mem_map.2 ⟨L, hL, rfl⟩) hp hhp toks D hD
  have hD' : nfaToDfa (compile hp.expr 1) id = some D := by
    unfold compileTok at hD
    split at hD
    · rename_i D0 h0; cases hD; exact h0
    · cases hD
  have hnn : (dfaMachine D tokAcceptor).acc (dfaMachine D tokAcceptor).init = false :=
    isAcc_start_false isOrder_id hD' (gen_header_patterns_not_nullable L hL hp hhp)
  have hds := dfaMachine_deadStuck (β := Tok) D tokAcceptor
  refine ⟨ms, h, fun m hm => ?_, ordered_disjoint hnn hds h, completeness_partial_strong hnn hds h⟩
  have hg := greedy hnn hds h m hm
  exact ⟨hg.1, hg.2.1, records hnn hds h m hm, hg⟩

/-- the hypothesis form: whatever list `find_all` returned, it has the properties above -/
theorem gen_find_all_greedy_of_ok {L : String × Language} (hL : L ∈ Gen.all) {hp : HeaderPat}
    (hhp : hp ∈ L.2.pats) {D : Dfa Pred} (hD : compileTok hp.expr = .ok D) {toks : List Tok}
    {ms : List (Match Tok)} (h : findAll (dfaMachine D tokAcceptor) toks = .ok ms) :
    (∀ m ∈ ms, m.s < m.e ∧ m.e ≤ toks.length ∧ m.toks = slice toks m.s m.e ∧
      GreedyAt (dfaMachine D tokAcceptor) toks m.s m.e) ∧
    ms.Pairwise (fun m m' => m.e ≤ m'.s) ∧
    (∀ p f, GreedyAt (dfaMachine D tokAcceptor) toks p f →
      (∃ m ∈ ms, m.s ≤ p ∧ p < m.e ∧ m.e ≤ f) ∨ (∃ m ∈ ms, p < m.s ∧ m.e < f)) := by
  obtain ⟨ms', h', r⟩ := gen_find_all_greedy hL hhp hD toks
  rw [h] at h'
  cases h'
  exact r

/-- non-vacuity: there are languages, each has header patterns, and each of them compiles -/
example : Gen.all ≠ [] ∧ ∀ L ∈ Gen.all, L.2.pats ≠ [] ∧ ∀ hp ∈ L.2.pats,
    (match compileTok hp.expr with | .ok _ => true | .error _ => false) = true := by
  decide +kernel

/-- the tokens of `f ( ) x g ( )` (all on line 1) -/
def twoToks : List Tok :=
  [⟨2, 0, [102], 1, 0⟩, ⟨3, 2, [40], 1, 1⟩, ⟨3, 2, [41], 1, 2⟩, ⟨2, 0, [120], 1, 4⟩,
   ⟨2, 0, [103], 1, 6⟩, ⟨3, 2, [40], 1, 7⟩, ⟨3, 2, [41], 1, 8⟩]

/-- a shipped pattern (C) with TWO matches on `f ( ) x g ( )`: `f ( )` = (0, 3), committed when the
attempt is stuck at `x`, and `g ( )` = (4, 7), which reaches the end of the input and is committed
by the loop after the end of the sequence (the loop defect F2 was about); the attempt from `x` at
position 3 (`x g`: a name not followed by `(`) dies.  `gen_find_all_greedy` applies: position 4
is covered, the matches are disjoint. -/
example : ∃ hp ∈ Gen.c.pats, ∃ D ms, compileTok hp.expr = .ok D ∧
    findAll (dfaMachine D tokAcceptor) twoToks = .ok ms ∧
    ms.map (fun m => (m.s, m.e)) = [(0, 3), (4, 7)] ∧ twoToks.length = 7 ∧
    ms.Pairwise (fun m m' => m.e ≤ m'.s) ∧
    (∀ m ∈ ms, GreedyAt (dfaMachine D tokAcceptor) twoToks m.s m.e) := by
  have h : Gen.c.pats.any (fun hp => match compileTok hp.expr with
      | .ok D => (match findAll (dfaMachine D tokAcceptor) twoToks with
        | .ok ms => ms.map (fun m => (m.s, m.e)) == [(0, 3), (4, 7)]
        | .error _ => false)
      | .error _ => false) = true := by decide +kernel
  obtain ⟨hp, hhp, hw⟩ := List.any_eq_true.1 h
  split at hw
  · rename_i D hD
    split at hw
    · rename_i ms hms
      have hgen := gen_find_all_greedy_of_ok (L := ("C", Gen.c)) (by simp [Gen.all]) hhp hD hms
      exact ⟨hp, hhp, D, ms, hD, hms, by simpa using hw, rfl, hgen.2.1, fun m hm => (hgen.1 m hm).2.2.2⟩
    · cases hw
  · cases hw

end CL.C14
