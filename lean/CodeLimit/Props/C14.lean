import CodeLimit.Lemmas.FindAll
/-!
# C14 - `find_all` reports greedy, ordered, non-overlapping matches

Property theorems only (helper lemmas live in `CodeLimit/Lemmas/FindAll.lean`).  Everything is
stated for an arbitrary deterministic machine `A` (instantiated with the DFA of a pattern by
`dfaMachine`, see `dfaMachine_deadStuck`) under

* `hnn : A.acc A.init = false` - the pattern cannot match the empty sequence;
* `hds : DeadStuck A`          - a state without transitions cannot step.

`find_all` is "earliest finish wins": an attempt is committed only when it is stuck (or the
input ends) and a committed match `(s, e)` discards every attempt that started before `e`.
Hence completeness holds only in the partial form `completeness_partial`; the full clause is
refuted by `completeness_full_fails` (known finding KF1).
-/
namespace CL.C14

variable {β σ : Type} {A : Machine β σ} {xs : List β} {ms : List (Match β)}

/-- 1. every reported match is non-empty and inside the input -/
theorem bounds (hnn : A.acc A.init = false) (hds : DeadStuck A) (h : findAll A xs = .ok ms) :
    ∀ m ∈ ms, m.s < m.e ∧ m.e ≤ xs.length := by
  intro m hm
  have := ((findAll_spec hnn hds h).1 m hm).1
  exact ⟨this.1, this.2.1⟩

/-- 2. the recorded tokens are exactly the matched items -/
theorem records (hnn : A.acc A.init = false) (hds : DeadStuck A) (h : findAll A xs = .ok ms) :
    ∀ m ∈ ms, m.toks = slice xs m.s m.e :=
  fun m hm => ((findAll_spec hnn hds h).1 m hm).2

/-- 3 + 4. every reported match is a greedy match: the machine accepts `xs[s..e)` and cannot
continue at `e` -/
theorem greedy (hnn : A.acc A.init = false) (hds : DeadStuck A) (h : findAll A xs = .ok ms) :
    ∀ m ∈ ms, GreedyAt A xs m.s m.e :=
  fun m hm => ((findAll_spec hnn hds h).1 m hm).1

/-- 3. the machine accepts the matched items -/
theorem sound (hnn : A.acc A.init = false) (hds : DeadStuck A) (h : findAll A xs = .ok ms) :
    ∀ m ∈ ms, ∃ q, runM A A.init (slice xs m.s m.e) = some q ∧ A.acc q = true := by
  intro m hm
  obtain ⟨_, _, q, hr, hacc, _⟩ := greedy hnn hds h m hm
  exact ⟨q, hr, hacc⟩

/-- 4 (strong form). the machine cannot even run over a longer slice from the same start -/
theorem longest_none (hnn : A.acc A.init = false) (hds : DeadStuck A)
    (h : findAll A xs = .ok ms) :
    ∀ m ∈ ms, ∀ e', m.e < e' → e' ≤ xs.length → runM A A.init (slice xs m.s e') = none :=
  fun m hm _ h1 h2 => (greedy hnn hds h m hm).longer_none hds h1 h2

/-- 4. no longer slice from the same start is accepted -/
theorem longest (hnn : A.acc A.init = false) (hds : DeadStuck A) (h : findAll A xs = .ok ms) :
    ∀ m ∈ ms, ∀ e', m.e < e' → e' ≤ xs.length →
      ¬ ∃ q, runM A A.init (slice xs m.s e') = some q ∧ A.acc q = true := by
  intro m hm e' h1 h2 ⟨q, hr, _⟩
  rw [longest_none hnn hds h m hm e' h1 h2] at hr
  cases hr

/-- 5. matches are reported in position order and do not overlap (this includes the matches
added by the loop after the end of the input) -/
theorem ordered_disjoint (hnn : A.acc A.init = false) (hds : DeadStuck A)
    (h : findAll A xs = .ok ms) : ms.Pairwise (fun m m' => m.e ≤ m'.s) :=
  (findAll_spec hnn hds h).2.1

/-- 6 (strongest form). a position `p` from which greedy matching succeeds with finish `f` is
either covered by a reported match that finishes no later than `f`, or was pre-empted by a
reported match that starts after `p` and finishes strictly before `f` -/
theorem completeness_partial_strong (hnn : A.acc A.init = false) (hds : DeadStuck A)
    (h : findAll A xs = .ok ms) :
    ∀ p f, GreedyAt A xs p f →
      (∃ m ∈ ms, m.s ≤ p ∧ p < m.e ∧ m.e ≤ f) ∨ (∃ m ∈ ms, p < m.s ∧ m.e < f) := by
  intro p f hg
  have hp : p < xs.length := Nat.lt_of_lt_of_le hg.1 hg.2.1
  have hms := (findAll_spec hnn hds h).1
  rcases (findAll_spec hnn hds h).2.2 p hp with ⟨m, hm, hpe, ⟨q, hq⟩, hnext⟩ | hno
  · have hle : m.e ≤ f := greedy_alive_le hds hg (hms m hm).1.2.1 hq
    by_cases hs : m.s ≤ p
    · exact .inl ⟨m, hm, hs, hpe, hle⟩
    · obtain ⟨hlen, q', hq'⟩ := hnext (Nat.lt_of_not_le hs)
      have := greedy_alive_le hds hg (Nat.succ_le_of_lt hlen) hq'
      exact .inr ⟨m, hm, Nat.lt_of_not_le hs, this⟩
  · exact absurd hg (hno f)

/-- 6. every position from which greedy matching succeeds is covered by a reported match, or
was pre-empted by a reported match that starts later and finishes no later -/
theorem completeness_partial (hnn : A.acc A.init = false) (hds : DeadStuck A)
    (h : findAll A xs = .ok ms) :
    ∀ p f, GreedyAt A xs p f →
      (∃ m ∈ ms, m.s ≤ p ∧ p < m.e) ∨ (∃ m ∈ ms, p < m.s ∧ m.e ≤ f) := by
  intro p f hg
  rcases completeness_partial_strong hnn hds h p f hg with ⟨m, hm, h1, h2, _⟩ | ⟨m, hm, h1, h2⟩
  · exact .inl ⟨m, hm, h1, h2⟩
  · exact .inr ⟨m, hm, h1, Nat.le_of_lt h2⟩

/-- a position with a greedy match that is *not* covered lies strictly inside the span from
which it was pre-empted: the reported match is properly nested in `[p, f)` -/
theorem uncovered_is_preempted (hnn : A.acc A.init = false) (hds : DeadStuck A)
    (h : findAll A xs = .ok ms) (p f : Nat) (hg : GreedyAt A xs p f)
    (hun : ¬ ∃ m ∈ ms, m.s ≤ p ∧ p < m.e) : ∃ m ∈ ms, p < m.s ∧ m.e < f := by
  rcases completeness_partial_strong hnn hds h p f hg with ⟨m, hm, h1, h2, _⟩ | h'
  · exact absurd ⟨m, hm, h1, h2⟩ hun
  · exact h'

/-! ## instantiation with the DFA of a pattern -/

/-- the two hypotheses are discharged for the machine of a compiled pattern: `DeadStuck` always
holds (`dfaMachine_deadStuck`), and `hnn` says that the start state is not accepting -/
theorem greedy_dfa {α π : Type} [DecidableEq α] (D : Dfa α) (C : Acceptor α π β)
    (hnn : D.isAcc .start = false) (h : findAll (dfaMachine D C) xs = .ok ms) :
    ∀ m ∈ ms, GreedyAt (dfaMachine D C) xs m.s m.e :=
  greedy hnn (dfaMachine_deadStuck D C) h

/-! ## 7. full completeness fails -/

/-- the DFA of `Union([a, b, c, d], [b, c])` with `a b c d = 0 1 2 3`:
`0 -a-> 1 -b-> 2 -c-> 3 -d-> 4`, `0 -b-> 5 -c-> 6`, accepting `{4, 6}` (both without
transitions) -/
def U : Machine Nat Nat where
  init := 0
  step := fun q x => .ok (
    if q = 0 ∧ x = 0 then some 1 else if q = 1 ∧ x = 1 then some 2
    else if q = 2 ∧ x = 2 then some 3 else if q = 3 ∧ x = 3 then some 4
    else if q = 0 ∧ x = 1 then some 5 else if q = 5 ∧ x = 2 then some 6 else none)
  acc := fun q => q == 4 || q == 6
  dead := fun q => q == 4 || q == 6

theorem U_nn : U.acc U.init = false := rfl

theorem U_deadStuck : DeadStuck U := by
  intro q x h
  have h' : q = 4 ∨ q = 6 := by simpa [U] using h
  rcases h' with rfl | rfl <;> simp [U]

theorem U_abcdx : findAll U [0, 1, 2, 3, 9] = .ok [⟨1, 3, [1, 2]⟩] := rfl

/-- on `a b c d x` only `b c` = (1, 3) is reported although greedy matching from position 0
succeeds (`a b c d`, finish 4): position 0 is not covered by any reported match -/
theorem completeness_full_fails :
    ∃ (A : Machine Nat Nat) (xs : List Nat) (ms : List (Match Nat)) (p f : Nat),
      A.acc A.init = false ∧ DeadStuck A ∧ findAll A xs = .ok ms ∧ GreedyAt A xs p f ∧
      ¬ ∃ m ∈ ms, m.s ≤ p ∧ p < m.e := by
  refine ⟨U, [0, 1, 2, 3, 9], [⟨1, 3, [1, 2]⟩], 0, 4, U_nn, U_deadStuck, U_abcdx, ?_, ?_⟩
  · exact ⟨by decide, by decide, 4, by decide, by decide, .inr (.inl (by decide))⟩
  · simp

/-! ## 8. errors and totality -/

/-- `find_all` raises only what `Pattern.consume` raises -/
theorem error_only_from_step {e : Err} (h : findAll A xs = .error e) :
    ∃ q x, A.step q x = .error e :=
  findAll_error h

/-- if `consume` never raises, `find_all` returns -/
theorem total (hstep : ∀ q x, ∃ r, A.step q x = .ok r) : ∃ ms, findAll A xs = .ok ms := by
  cases h : findAll A xs with
  | ok ms => exact ⟨ms, rfl⟩
  | error e =>
    obtain ⟨q, x, hs⟩ := findAll_error h
    obtain ⟨r, hr⟩ := hstep q x
    rw [hr] at hs; cases hs

/-! ## 9. non-vacuity -/

theorem U_two : findAll U [0, 1, 2, 3, 9, 1, 2] = .ok [⟨1, 3, [1, 2]⟩, ⟨5, 7, [1, 2]⟩] := rfl

/-- items 1-6 instantiated on `a b c d x b c`: two matches, the second one committed by the
loop after the end of the input, position 0 pre-empted -/
example :
    let xs := [0, 1, 2, 3, 9, 1, 2]
    let ms : List (Match Nat) := [⟨1, 3, [1, 2]⟩, ⟨5, 7, [1, 2]⟩]
    findAll U xs = .ok ms ∧ 2 ≤ ms.length ∧
    (∀ m ∈ ms, m.s < m.e ∧ m.e ≤ xs.length) ∧
    (∀ m ∈ ms, m.toks = slice xs m.s m.e) ∧
    (∀ m ∈ ms, ∃ q, runM U U.init (slice xs m.s m.e) = some q ∧ U.acc q = true) ∧
    (∀ m ∈ ms, ∀ e', m.e < e' → e' ≤ xs.length →
      ¬ ∃ q, runM U U.init (slice xs m.s e') = some q ∧ U.acc q = true) ∧
    (∀ m ∈ ms, GreedyAt U xs m.s m.e) ∧
    ms.Pairwise (fun m m' => m.e ≤ m'.s) ∧
    (∀ p f, GreedyAt U xs p f →
      (∃ m ∈ ms, m.s ≤ p ∧ p < m.e) ∨ (∃ m ∈ ms, p < m.s ∧ m.e ≤ f)) ∧
    GreedyAt U xs 0 4 :=
  ⟨U_two, by decide, bounds U_nn U_deadStuck U_two, records U_nn U_deadStuck U_two,
    sound U_nn U_deadStuck U_two, longest U_nn U_deadStuck U_two, greedy U_nn U_deadStuck U_two,
    ordered_disjoint U_nn U_deadStuck U_two, completeness_partial U_nn U_deadStuck U_two,
    ⟨by decide, by decide, 4, by decide, by decide, .inr (.inl (by decide))⟩⟩

end CL.C14
