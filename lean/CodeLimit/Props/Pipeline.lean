import CodeLimit.Lemmas.PipelineMain
import CodeLimit.Lemmas.PipelineMeas
import CodeLimit.Lemmas.PipelineEval
import CodeLimit.Props.C11pat
import CodeLimit.Props.C01full
import CodeLimit.Props.C01text
import CodeLimit.Props.C01pytext
import CodeLimit.Model.ReportOps
/-!
# The properties END TO END: stated about `Pipeline.scan` and `Pipeline.check`

`Model/Pipeline.lean` joins the layer models into one model of `codelimit scan` (`scan_command`)
and `codelimit check` (`check_command`): `scan E R root prev` returns the report object and the
text written to `.codelimit_cache/codelimit.json`, given the directory tree, the parameters of the
run and the content `prev` of that file before the scan.

This file states the properties about THAT function.  Every proof is a composition of the layer
theorems (C01 … C12) through the adapters of `Model/Pipeline.lean`; no layer fact is re-proved.

Hypotheses (`Spec/Pipeline.lean`), each a contract of a library or of the operating system:
* `EnvBase E` - the lexer contract (`RawOk`: the raw tokens tile the text; only `Text` tokens may be
  empty) for the seven supported lexers; decoded text / checksums / the version string are Python
  strings without an adjacent surrogate pair (the hypothesis of C08).  NOTHING about MD5;
* `RunOk R` - the root path, uuid, timestamp and repository strings of a run are such strings;
* `TreeOk ch` - the tree is a snapshot of a real directory (`wfDir`, C11) with such names;
* `HistoryOk E pats ch prev` - the hypothesis of C09 / C10 about the cache file `prev` and MD5:
  EITHER there is no cache file (then nothing is assumed), OR there is a set `U` of byte strings on
  which MD5 has no collision (`CollisionFree E U`) containing the contents of the files this scan
  reads (`ScannedIn`) and such that the cache file is absent, or was written by an earlier scan (of
  any tree, any exclusion lines) that read only contents from `U` and itself found such a file, or
  is any prefix of such a file, or is anything the reader does not take for a report of the current
  version (`CacheOkOn E U prev`).  Real MD5 meets this whenever no two of the finitely many file
  contents involved collide; GLOBAL injectivity of the digest (`EnvOk.md5`, which no fixed-length
  digest has) is NOT assumed - it is the special case `U = all byte strings`
  (`HistoryOk.of_injective`; `Ex.exE2_not_injective` is an environment with a non-injective checksum
  to which the theorems apply).  The restriction to honest cache files cannot be dropped:
  `Ex.forged_cache_taints`.

Contents: 0 the instantiations as equations (`oracle_analyze_is_analyze`, `exclusion_lines`,
`cache_walk_is_selection`, `cache_analyze_is_analyzeFile`, `reader_parameters`,
`profileOf_eq_driver`, `fresh_scan_is_scanPath`) and the adapters are lossless; 1
`scan_never_raises`; 2 `report_files_exact` (C11 + C03); 3 `report_measurements_wf`,
`report_measurements_in_text` (C05); 4
`report_totals`, `report_file_profiles`, `report_folder_profiles`, `report_tree_keys`,
`report_grand_totals` (C07); 5 `scan_writes_valid_json`, `scan_output_reads_back`,
`scan_output_is_next_cache` (C08); 6 `scan_with_cache_eq_fresh`, `rescan_after_interrupted_write`,
`rescan_unchanged`, `reuse_only_if_unchanged`, `report_entries_reused_or_analysed` (C09, C10); 7 `check_root_agrees_with_report`,
`check_file_agrees_with_report` (C12 + C02); 8 `report_entry_of_tree_text_partial` (given header discovery), `report_entry_of_canon_tree` and its
Java / JS / TS / Python variants (C01 on the REPORT, unconditional); 9 a concrete tree evaluated end to end in the kernel
(`Ex.ex_scan`, with the JSON text `Ex.exBytes`), on which all hypotheses hold (`Ex.exE_ok`,
`Ex.exR_ok`, `Ex.exTree_ok`), and a second environment whose checksum is NOT injective but
collision-free on the contents that occur (`Ex.exE2`).
-/
namespace CL.Pipe

open CL CL.Sel CL.Pipeline

/-! ## 0. the instantiations, as equations (coverage map, section 2.4, item 6) -/

/-- **`Sel.Oracles.analyze` is `_analyze_file` of `Model/Scopes.lean`** on the language selected by
the lexer number, with the lexer's output for the text: `lex(lexer, code, False)` then
`scan_file(tokens, Languages.by_name[lexer.name])` -/
theorem oracle_analyze_is_analyze (E : Env) (pats : List Gi.Pat) {lang : Nat} {x : String × Language}
    (h : Gen.all[lang]? = some x) (text : Str) (ms : List Measurement) :
    (oracles E pats).analyze lang text = .ok ms ↔
      CL.analyze x.2 text (E.lexOf lang text) = .ok (ms, C01text.totalOf ms) :=
  analyzeText_eq h text

/-- **`Sel.Oracles.excluded` is the pattern model of C11**: the oracles are `C11pat.withPatterns`
of the exclusion lines, so every theorem of `Props/C11pat.lean` applies.  (DEFINITIONAL: both
conjuncts are `rfl`; this documents how `Model/Pipeline.lean` instantiates the parameter, it is not
a property of the program.) -/
theorem oracle_excluded_is_patterns (E : Env) (pats : List Gi.Pat) :
    oracles E pats = C11pat.withPatterns (oracles E []) pats ∧
    (oracles E pats).excluded = Gi.excludedWith pats := ⟨rfl, rfl⟩

theorem parseAll_append {a b : List Str} {qa qb : List Gi.Pat} (ha : Gi.parseAll a = some qa)
    (hb : Gi.parseAll b = some qb) : Gi.parseAll (a ++ b) = some (qa ++ qb) :=
  Gi.parseAll_append ha hb

/-- **`Scanner.generate_exclude_spec`, lines 169-173**: the list handed to
`PathSpec.from_lines("gitignore", …)` is the built-in names, then `Configuration.exclude`, then the
lines of the root `.gitignore`; when the configured and `.gitignore` lines lie in the six classes
of the pattern model, the whole list parses to `builtin ++ user`, whose decision is
`excludedWith user` - the `excluded` oracle of this model -/
theorem exclusion_lines (configured : List Str) (gitignore : Option (List Str)) {user : List Gi.Pat}
    (h : userPats configured gitignore = some user) :
    Gi.parseAll (excludeLines configured gitignore) = some (Gi.builtin ++ user) ∧
    Gi.excludedBy (Gi.builtin ++ user) = Gi.excludedWith user := by
  refine ⟨?_, rfl⟩
  unfold excludeLines
  rw [List.append_assoc]
  exact parseAll_append C11pat.builtin_parse.1 h

/-- **`Cache.Params.selected` / `Cache.State.fs` are the selection of `scan_path`**: the files the
cache model hands to `_scan_file` (`fs.filter selected`) are the selection of `Sel.scanPath`
under the instantiated oracles, in the same order, each under its printed path -/
theorem cache_walk_is_selection (E : Env) (pats : List Gi.Pat) {ch : List Sel.Node} (hwf : wfDir ch = true)
    (prev : Option Str) :
    Cache.walk (cacheParams E) (cacheState pats ch prev) =
      (selection (oracles E pats) ch).map (fun x => (joinPath x.1, x.2.2)) :=
  walk_eq_selection E pats hwf prev

/-- **`Cache.Params.analyze` is `Sel.analyzeFile`**: for a file `p` of the tree (good names) whose
name selects lexer `lang`, the row the cache model computes is the entry `_analyze_file` of the
selection model builds, seen through `rowOfSel` (language name, `Int` fields, report
measurements) -/
theorem cache_analyze_is_analyzeFile (E : Env) (pats : List Gi.Pat) {p : List Str} {lang : Nat} (c : Str)
    (hne : p ≠ []) (hg : ∀ y ∈ p, goodName y = true) (hl : langOf E (baseName p) = some lang) :
    (cacheParams E).analyze (joinPath p) c =
      match analyzeFile (oracles E pats) (joinPath p) (E.checksum c) lang c with
      | .error e => .error e
      | .ok e => .ok (rowOfSel e) :=
  analyzeRow_item E pats (x := (p, lang, c)) ⟨hne, hg, hl⟩

/-- **the `build` and `profileOf` parameters of the reader are `Codebase.build` and
`Codebase.makeProfile`** (`ReportReader.from_json`: `add_file` per entry, `aggregate`;
`SourceFileEntry.__init__`: `make_profile`).  (DEFINITIONAL: `⟨rfl, rfl⟩`, documentation of the
instantiation.) -/
theorem reader_parameters (files : List (Str × Json.FileData)) (ms : List Json.Meas) :
    buildJ files = (match Codebase.build (files.map cbEntry) with
      | .ok cb => codebaseJ cb
      | .error _ => ([], [])) ∧
    profileOf ms = profileList (Codebase.makeProfile (ms.map (·.value))) := ⟨rfl, rfl⟩

/-- ... and the driver's own instantiation of `profileOf` (`Json.Ops.profileOfGen`, a fold over a
four-element list) computes the same profile -/
theorem profileOf_eq_driver (ms : List Json.Meas) : Json.Ops.profileOfGen ms = profileOf ms := by
  have step : ∀ (P : Codebase.Profile) (v : Int),
      (profileList P).zipIdx.map (fun (x, i) => if i = Gen.Logic.make_profile_bucket v then x + v else x) =
        profileList (P.addAt (Gen.Logic.make_profile_bucket v) v) := by
    intro P v
    have hb := (C07.bucket_lt_four v).1
    generalize Gen.Logic.make_profile_bucket v = b at hb
    rcases b with _ | _ | _ | _ | b
    · simp [profileList, Codebase.Profile.addAt, List.zipIdx]
    · simp [profileList, Codebase.Profile.addAt, List.zipIdx]
    · simp [profileList, Codebase.Profile.addAt, List.zipIdx]
    · simp [profileList, Codebase.Profile.addAt, List.zipIdx]
    · omega
  have gen : ∀ (l : List Json.Meas) (P : Codebase.Profile),
      l.foldl (fun acc m =>
        let b := Gen.Logic.make_profile_bucket m.value
        acc.zipIdx.map (fun (x, i) => if i = b then x + m.value else x)) (profileList P) =
      profileList ((l.map (·.value)).foldl (fun r v => r.addAt (Gen.Logic.make_profile_bucket v) v) P) := by
    intro l
    induction l with
    | nil => intro P; rfl
    | cons m t ih =>
      intro P
      simp only [List.foldl_cons, List.map_cons]
      rw [step P m.value]
      exact ih _
  exact gen ms Codebase.Profile.zero

/-- **a scan that finds no cache file IS `scan_path` + `Codebase.build` + `ReportWriter`**: its
entries are those of `Sel.scanPath` under the instantiated oracles (adapter `fileOfSel`: language
name for language number, `Int` for `Nat`, `Json.Meas` for `Measurement`, the profile added), its
totals and tree are `Codebase.build` of them (adapter `cbEntry`: a measurement is its value), the
text is `Json.write true` of the report -/
theorem fresh_scan_is_scanPath {E : Env} {R : Pipeline.Run} {rn : Str} {ch : List Sel.Node} (hwf : wfDir ch = true)
    {d : Json.ReportData} {bytes : Str} (h : scan E R (.dir rn ch) none = .ok (d, bytes)) :
    ∃ sfiles cb, (scanPath (oracles E R.pats) (.dir rn ch)).result = .ok sfiles ∧
      Codebase.build ((sfiles.map (fun kv => fileOfSel kv.2)).map cbEntry) = .ok cb ∧
      d = Json.Report.init E.version R.uuid R.now R.root R.repository
        (cb.totals.map fun kv => (kv.1, totalsJ kv.2)) (cb.tree.map fun kv => (kv.1, folderJ kv.2))
        (sfiles.map (fun kv => fileOfSel kv.2)) ∧
      bytes = Json.write true d := by
  obtain ⟨sfiles, cb, h1, _, h3, h4, h5⟩ := scan_fresh_spec hwf h
  exact ⟨sfiles, cb, h1, h3, h4, h5⟩

/-! ## 0'. the adapters lose nothing

Where two layers use different types for the same Python object, `Model/Pipeline.lean` converts;
here: every conversion is injective / has an inverse on the values that occur. -/

/-- `CL.Measurement` (natural numbers) → `Json.Meas` (integers) -/
theorem measOf_injective : Function.Injective measOf := by
  intro a b h
  cases a; cases b
  simp only [measOf, Json.Meas.mk.injEq, Int.natCast_inj] at h
  obtain ⟨rfl, rfl, rfl, rfl, rfl, rfl⟩ := h
  rfl

/-- language numbers (`Model/Select.lean`) → language names (`Model/Codebase.lean`,
`Model/Report.lean`): distinct supported lexers have distinct names -/
theorem langName_injective : ∀ i, i < numLangs → ∀ j, j < numLangs → langName i = langName j → i = j := by
  decide

/-- printed paths (`Model/Cache.lean`, `Model/Codebase.lean`, the report) ↔ component lists
(`Model/Select.lean`, `Spec/Gitignore.lean`): splitting the printed path of a file of a real
directory gives its components back, and the three `join` / two `split` functions of the layer
models are the same functions -/
theorem path_adapter_lossless {p : List Str} (hne : p ≠ []) (hg : ∀ x ∈ p, goodName x = true) :
    Codebase.splitSep (joinPath p) = p ∧ Codebase.getBasename (joinPath p) = baseName p ∧
    joinPath p = Codebase.joinSep p ∧ joinPath p = Gi.joinSlash p ∧
    ∀ s, Codebase.splitSep s = Gi.splitSlash s :=
  ⟨splitSep_joinPath p hne (fun x hx => goodName_noslash (hg x hx)),
   getBasename_joinPath hne (fun x hx => goodName_noslash (hg x hx)),
   joinPath_eq_joinSep p, joinPath_eq_joinSlash p, splitSep_eq_splitSlash⟩

/-- the rows of the cache model ↔ the `files` of a report: inverse to each other on reports whose
file profiles are `make_profile` of the measurements (the profile is the only field a row does not
carry; the reader recomputes it) -/
theorem rows_files_inverse :
    (∀ rows files, entriesOf rows = .ok files → rowsOfFiles files = rows) ∧
    (∀ files : List (Str × Json.FileData), (∀ kv ∈ files, kv.2.profile = profileOf kv.2.measurements) →
      entriesOf (rowsOfFiles files) = .ok files) := by
  refine ⟨fun rows files h => rowsOfFiles_entriesOf h, ?_⟩
  intro files
  induction files with
  | nil => intro _; rfl
  | cons kv t ih =>
    intro h
    have ht := ih (fun x hx => h x (List.mem_cons_of_mem _ hx))
    have hk := h kv (by simp)
    obtain ⟨k, f⟩ := kv
    simp only [rowsOfFiles, List.map_cons] at ht ⊢
    simp only [entriesOf, ht, fileData]
    simp only at hk
    rw [← hk]

/-- the tree of `Model/Select.lean` ↔ the flat file list of `Model/Cache.lean`: the visible files of
the flat list are the candidates of the pruned walk, in the same order -/
theorem tree_adapter_lossless (ch : List Sel.Node) :
    (allFiles ch).filter (fun x => visibleB x.1) = cands [] ch :=
  filter_allFiles ch

/-- `Sel.checkPaths` (risks as measurements) → `CL.checkCommand` (lists of lengths, filtered and
sorted again by the model): the second filter and sort change nothing, and `risksOf` on
`CL.Measurement` is `risksJ` on report measurements -/
theorem check_adapter_lossless (ms : List Measurement) :
    fileRisks ((risksOf ms).map lenI) = (risksOf ms).map lenI ∧
    (risksOf ms).map measOf = risksJ (ms.map measOf) := by
  refine ⟨?_, risks_meas ms⟩
  rw [risks_lens, fileRisks_idem]

/-! ## 1. a scan never raises (C03 + C07) -/

/-- **`scan_command` completes on every real directory, whatever the cache file holds**: analysing
never raises (C03, for every lexer output), the keys handed to `Codebase.add_file` are admissible
(C07), a damaged cache is discarded -/
theorem scan_never_raises (E : Env) (R : Pipeline.Run) (rn : Str) {ch : List Sel.Node} (hwf : wfDir ch = true)
    (prev : Option Str) : ∃ d bytes, scan E R (.dir rn ch) prev = .ok (d, bytes) :=
  scan_total E R rn hwf prev

/-! ## 2. which files the report lists, and with what (C11 + C03) -/

section Files
variable {E : Env} {R : Pipeline.Run} {rn : Str} {ch : List Sel.Node} {prev : Option Str}
  {d : Json.ReportData} {bytes : Str}

theorem fileOfSel_entryOf (E : Env) (pats : List Gi.Pat) {p : List Str} {c : Str} {lang : Nat}
    {x : String × Language} (hx : Gen.all[lang]? = some x) (ms : List Measurement) :
    fileOfSel (entryOf (oracles E pats) p c lang ms) = (joinPath p, entryFor E c x ms) := by
  simp only [fileOfSel, entryOf, fileData, rowOfSel, entryFor, langName, hx, oracles]

/-- **the report written by a scan lists exactly the qualifying files, each once, in walk order,
each with the analysis of its decoded content.**  `(k, f)` is an entry of `codebase.files` iff `k`
is the printed path of a file `p` with bytes `c` such that no component of `p` starts with a dot,
no component is one of the 26 built-in names, no configured / `.gitignore` line matches `p`
(`C11pat.Qualifies`), the file name selects a supported lexer `lang` (language `x`), and `f` holds
the checksum of `c`, the language name, and the measurements, line total and profile that
`_analyze_file` (`CL.analyze`, which never raises) computes for the decoded bytes with that
lexer's output. -/
theorem report_files_exact (hE : EnvBase E) (hwf : wfDir ch = true) (hH : HistoryOk E R.pats ch prev)
    (h : scan E R (.dir rn ch) prev = .ok (d, bytes)) :
    (d.files.map (·.1)).Nodup ∧
    d.files.map (·.1) = (scanPath (oracles E R.pats) (.dir rn ch)).analysed ∧
    ∀ k f, (k, f) ∈ d.files ↔ ∃ p c lang x ms, C11pat.Qualifies R.pats (langOf E) ch p c lang ∧
      Gen.all[lang]? = some x ∧
      CL.analyze x.2 (E.decode c) (E.lexOf lang (E.decode c)) = .ok (ms, C01text.totalOf ms) ∧
      k = joinPath p ∧ f = entryFor E c x ms := by
  obtain ⟨sfiles, cb, hs, hkey, _, rfl, _⟩ := scan_spec_on hE hwf hH h
  have hex := C11pat.scanned_entries_exact_patterns (oracles E []) R.pats rn ch hwf hs
  have hkeys : (sfiles.map fun kv => fileOfSel kv.2).map (·.1) = sfiles.map (·.1) := by
    rw [List.map_map]
    apply List.map_congr_left
    intro kv hkv
    exact (hkey kv hkv).symm
  refine ⟨?_, ?_, ?_⟩
  · show ((sfiles.map fun kv => fileOfSel kv.2).map (·.1)).Nodup
    rw [hkeys]; exact hex.1
  · show (sfiles.map fun kv => fileOfSel kv.2).map (·.1) = _
    rw [hkeys]
    exact ((C11.analysed_only_selected (oracles E R.pats) rn ch hwf).2.2 sfiles hs).symm
  · intro k f
    show (k, f) ∈ (sfiles.map fun kv => fileOfSel kv.2) ↔ _
    constructor
    · intro hm
      obtain ⟨⟨k', e⟩, hkv, he⟩ := List.mem_map.1 hm
      obtain ⟨p, c, lang, ms, hq, hms, rfl, rfl⟩ := (hex.2 k' e).1 hkv
      obtain ⟨x, hx⟩ := all_get_of_lt (langOf_lt hq.2.2.2.2)
      have := fileOfSel_entryOf E [] (p := p) (c := c) hx ms
      simp only at he
      rw [this] at he
      cases he
      exact ⟨p, c, lang, x, ms, hq, hx, (analyzeText_eq hx _).1 hms, rfl, rfl⟩
    · rintro ⟨p, c, lang, x, ms, hq, hx, hms, rfl, rfl⟩
      refine List.mem_map.2 ⟨(joinPath p, entryOf (oracles E []) p c lang ms), ?_, ?_⟩
      · exact (hex.2 _ _).2 ⟨p, c, lang, ms, hq, (analyzeText_eq hx _).2 hms, rfl, rfl⟩
      · exact fileOfSel_entryOf E [] hx ms

/-- consequence: the entry of a qualifying file is in the report, and it is the only entry under
that path (used for C01 below) -/
theorem report_entry_of_analysis (hE : EnvBase E) (hwf : wfDir ch = true) (hH : HistoryOk E R.pats ch prev)
    (h : scan E R (.dir rn ch) prev = .ok (d, bytes))
    {p : List Str} {c : Str} {lang : Nat} {x : String × Language} {ms : List Measurement} {n : Nat}
    (hq : C11pat.Qualifies R.pats (langOf E) ch p c lang) (hx : Gen.all[lang]? = some x)
    (ha : CL.analyze x.2 (E.decode c) (E.lexOf lang (E.decode c)) = .ok (ms, n)) :
    (joinPath p, entryFor E c x ms) ∈ d.files ∧
    ∀ f, (joinPath p, f) ∈ d.files → f = entryFor E c x ms := by
  obtain ⟨hnd, _, hiff⟩ := report_files_exact hE hwf hH h
  have hn : n = C01text.totalOf ms := by
    unfold CL.analyze at ha
    split at ha
    · cases ha
    · cases ha; rfl
  subst hn
  have hmem := (hiff _ _).2 ⟨p, c, lang, x, ms, hq, hx, ha, rfl, rfl⟩
  refine ⟨hmem, fun f hf => ?_⟩
  have h1 := (Codebase.mem_iff_dget? hnd _ _).1 hf
  have h2 := (Codebase.mem_iff_dget? hnd _ _).1 hmem
  rw [h1] at h2
  exact Option.some.inj h2

/-! ## 3. every measurement of the report is well-formed (C05 at text level) -/

theorem cast_total (ms : List Measurement) :
    ((C01text.totalOf ms : Nat) : Int) = ((ms.map measOf).map (·.value)).sum := by
  have h : ∀ (l : List Measurement) (a : Nat),
      (((l.map (·.len)).foldl (· + ·) a : Nat) : Int) = (a : Int) + ((l.map measOf).map (·.value)).sum := by
    intro l
    induction l with
    | nil => intro a; simp
    | cons m t ih =>
      intro a
      simp only [List.map_cons, List.foldl_cons, List.sum_cons, ih, measOf]
      push_cast
      omega
  simpa [C01text.totalOf] using h ms 0

/-- **every measurement in the report is well-formed for the text of its file and the lexer's
tokens of that text** - the per-measurement clause of C05 (`MeasWf`, `Spec/Pipeline.lean`): lines
between 1 and the number of lines of the text, start strictly before end, columns from 1; the
measurement starts AT a code token and ends just past a code token; its name is the text of a `Name`
token lying INSIDE the span; and `1 ≤ length ≤` the number of code-bearing lines of the span.  The
functions of a file are listed in source order with distinct starts, and the file's `loc` is the
sum of its function lengths.  The text is the decoding of the bytes of the qualifying file the
entry belongs to, the tokens are what that file's lexer returns for it. -/
theorem report_measurements_wf (hE : EnvBase E) (hwf : wfDir ch = true) (hH : HistoryOk E R.pats ch prev)
    (h : scan E R (.dir rn ch) prev = .ok (d, bytes)) :
    ∀ k f, (k, f) ∈ d.files → ∃ p c lang, C11pat.Qualifies R.pats (langOf E) ch p c lang ∧
      k = joinPath p ∧ f.checksum = E.checksum c ∧
      (∀ m ∈ f.measurements, MeasWf (E.decode c) (E.lexOf lang (E.decode c)) m) ∧
      f.measurements.Pairwise (fun a b => a.sl < b.sl ∨ (a.sl = b.sl ∧ a.sc < b.sc)) ∧
      f.loc = (f.measurements.map (·.value)).sum := by
  intro k f hkf
  obtain ⟨p, c, lang, x, ms, hq, hx, ha, rfl, rfl⟩ := ((report_files_exact hE hwf hH h).2.2 k f).1 hkf
  have hlt := langOf_lt hq.2.2.2.2
  have hL := lang_mem_all hx
  have hraw := hE.lexer.tiles lang (E.decode c) hlt
  have hne := hE.lexer.nonempty lang (E.decode c) hlt
  refine ⟨p, c, lang, hq, rfl, rfl, ?_, ?_, cast_total ms⟩
  · intro m hm
    obtain ⟨m0, hm0, rfl⟩ := List.mem_map.1 hm
    exact measWf_of_analyze x.2 hL _ _ hraw hne ms _ ha m0 hm0
  · have := C05text.source_order_text x.2 hL _ _ hraw hne ms _ ha
    rw [entryFor]
    simp only [List.pairwise_map, measOf]
    exact this.imp (by
      intro a b hab
      rcases hab with hab | ⟨h1, h2⟩
      · exact Or.inl (by exact_mod_cast hab)
      · exact Or.inr ⟨by exact_mod_cast h1, by exact_mod_cast h2⟩)

/-- text-only consequences of `MeasWf` for every measurement of the report: the length is at most
the number of lines of the span (`value ≤ el - sl + 1`), and the unit name is found in the text at
an offset between the offsets `location_to_index` assigns to the start and to the end -/
theorem report_measurements_in_text (hE : EnvBase E) (hwf : wfDir ch = true) (hH : HistoryOk E R.pats ch prev)
    (h : scan E R (.dir rn ch) prev = .ok (d, bytes)) :
    ∀ k f, (k, f) ∈ d.files → ∃ p c lang, C11pat.Qualifies R.pats (langOf E) ch p c lang ∧
      k = joinPath p ∧ ∀ m ∈ f.measurements, 1 ≤ m.value ∧ m.value ≤ m.el - m.sl + 1 ∧
        ∃ os oe o, locationToIndex (E.decode c) m.sl.toNat m.sc.toNat = .ok os ∧
          locationToIndex (E.decode c) m.el.toNat m.ec.toNat = .ok oe ∧
          os ≤ o ∧ o + m.unitName.length ≤ oe ∧ oe ≤ (E.decode c).length ∧
          ((E.decode c).drop o).take m.unitName.length = m.unitName := by
  intro k f hkf
  obtain ⟨p, c, lang, hq, hk, _, hm, _⟩ := report_measurements_wf hE hwf hH h k f hkf
  refine ⟨p, c, lang, hq, hk, fun m hmm => ?_⟩
  have hw := hm m hmm
  have h1 : 1 ≤ m.value := by
    obtain ⟨_, _, _, _, _, _, _, _, _, _, _, _, _, _, _, _, _, _, _, _, _, _, _, _, _, h1, _⟩ := hw
    exact h1
  exact ⟨h1, hw.value_le_lines, hw.name_in_span⟩

end Files

/-! ## 4. totals, file profiles and folder profiles agree with the listed measurements (C07) -/

section Aggregates
variable {E : Env} {R : Pipeline.Run} {rn : Str} {ch : List Sel.Node} {prev : Option Str}
  {d : Json.ReportData} {bytes : Str}

/-- the facts C07 needs about the report of a scan: it is `Codebase.build` of its own entries, and
their paths are admissible -/
theorem report_is_built (hwf : wfDir ch = true) (h : scan E R (.dir rn ch) prev = .ok (d, bytes)) :
    ∃ cb, Codebase.build (d.files.map cbEntry) = .ok cb ∧ C07.Admissible (d.files.map cbEntry) ∧
      d.totals = cb.totals.map (fun kv => (kv.1, totalsJ kv.2)) ∧
      d.tree = cb.tree.map (fun kv => (kv.1, folderJ kv.2)) := by
  obtain ⟨files, cb, hf, hcb, rfl, _⟩ := scan_ok_iff.1 h
  exact ⟨cb, hcb, files_admissible hwf hf, rfl, rfl⟩

/-- **language totals**: every language that occurs among the listed files has exactly one entry
in `codebase.totals`, holding the number of its files, the sum of their line totals, the number of
their functions and the numbers of functions with 30 < length ≤ 60 and length > 60; no other
language has an entry.  (Holds whatever the cache file contains.) -/
theorem report_totals (hwf : wfDir ch = true) (h : scan E R (.dir rn ch) prev = .ok (d, bytes)) :
    (d.totals.map (·.1)).Nodup ∧
    ∀ L, Json.lookup L d.totals =
      if ∃ kv ∈ d.files, kv.2.language = L then some (totalsFor L d.files) else none := by
  obtain ⟨cb, hcb, hadm, ht, _⟩ := report_is_built hwf h
  obtain ⟨hnd, hl⟩ := C07.language_totals _ hadm hcb
  refine ⟨by rw [ht]; simpa [List.map_map, Function.comp_def] using hnd, fun L => ?_⟩
  rw [ht, lookup_eq_dget?, dget?_map, hl L]
  have hiff : (∃ e ∈ d.files.map cbEntry, e.language = L) ↔ ∃ kv ∈ d.files, kv.2.language = L := by
    constructor
    · rintro ⟨e, he, hL⟩
      obtain ⟨kv, hkv, rfl⟩ := List.mem_map.1 he
      exact ⟨kv, hkv, hL⟩
    · rintro ⟨kv, hkv, hL⟩
      exact ⟨cbEntry kv, List.mem_map.2 ⟨kv, hkv, rfl⟩, hL⟩
  by_cases hex : ∃ kv ∈ d.files, kv.2.language = L
  · rw [if_pos (hiff.2 hex), if_pos hex, Option.map_some, totalsJ_langTotals]
  · rw [if_neg (fun h' => hex (hiff.1 h')), if_neg hex, Option.map_none]

/-- **file profiles**: the stored profile of every listed file is `make_profile` of its
measurements, and its four buckets add up to the file's line total -/
theorem report_file_profiles (hE : EnvBase E) (hwf : wfDir ch = true) (hH : HistoryOk E R.pats ch prev)
    (h : scan E R (.dir rn ch) prev = .ok (d, bytes)) :
    ∀ kv ∈ d.files, kv.2.profile = profileOf kv.2.measurements ∧ kv.2.profile.sum = kv.2.loc := by
  intro kv hkv
  obtain ⟨files, cb, hf, _, rfl, _⟩ := scan_ok_iff.1 h
  have hp := entriesOf_profiles hf kv hkv
  refine ⟨hp, ?_⟩
  obtain ⟨_, _, _, _, _, _, _, _, hloc⟩ := report_measurements_wf hE hwf hH h kv.1 kv.2 hkv
  rw [hp, hloc]
  have := (C07.file_profile_partition (cbEntry kv)).2
  simp only [Codebase.FileEntry.profile, cbEntry] at this
  simp only [profileOf, profileList, List.sum_cons, List.sum_nil]
  omega

/-- **folder profiles**: the folder keys are pairwise distinct, and the profile of every folder is
`make_profile` of the measurements of all listed files beneath it, at any depth -/
theorem report_folder_profiles (hwf : wfDir ch = true) (h : scan E R (.dir rn ch) prev = .ok (d, bytes)) :
    (d.tree.map (·.1)).Nodup ∧
    ∀ k folder, (k, folder) ∈ d.tree → folder.profile = profileOf (measurementsUnder k d.files) := by
  obtain ⟨cb, hcb, hadm, _, ht⟩ := report_is_built hwf h
  have hnd := (C07.tree_keys _ hadm hcb).1
  refine ⟨by rw [ht]; simpa [List.map_map, Function.comp_def] using hnd, ?_⟩
  intro k folder hm
  rw [ht] at hm
  obtain ⟨⟨k', f⟩, hkf, he⟩ := List.mem_map.1 hm
  cases he
  have hget := (Codebase.mem_iff_dget? hnd k' f).1 hkf
  have := C07.folder_profiles _ hadm hcb k' f hget
  simp only [folderJ, profileOf, this, psum_under]

/-- **the folder tree**: there is a folder for the root (`./`) and for every directory on the way
to a listed file, and no other -/
theorem report_tree_keys (hwf : wfDir ch = true) (h : scan E R (.dir rn ch) prev = .ok (d, bytes)) (k : Str) :
    k ∈ d.tree.map (·.1) ↔ k = Codebase.rootKey ∨ ∃ kv ∈ d.files, Codebase.IsDirPrefix k kv.1 := by
  obtain ⟨cb, hcb, hadm, _, ht⟩ := report_is_built hwf h
  have := (C07.tree_keys _ hadm hcb).2 k
  rw [ht]
  simp only [List.map_map, Function.comp_def]
  rw [this]
  constructor
  · rintro (h1 | ⟨e, he, hp⟩)
    · exact Or.inl h1
    · obtain ⟨kv, hkv, rfl⟩ := List.mem_map.1 he
      exact Or.inr ⟨kv, hkv, hp⟩
  · rintro (h1 | ⟨kv, hkv, hp⟩)
    · exact Or.inl h1
    · exact Or.inr ⟨cbEntry kv, List.mem_map.2 ⟨kv, hkv, rfl⟩, hp⟩

/-- **grand totals**: the sums over `codebase.totals` are the totals over the listed files -/
theorem report_grand_totals (hwf : wfDir ch = true) (h : scan E R (.dir rn ch) prev = .ok (d, bytes)) :
    (d.totals.map (·.2.files)).sum = d.files.length ∧
    (d.totals.map (·.2.loc)).sum = (d.files.map (·.2.loc)).sum ∧
    (d.totals.map (·.2.functions)).sum = (d.files.map fun kv => (kv.2.measurements.length : Int)).sum := by
  obtain ⟨cb, hcb, hadm, ht, _⟩ := report_is_built hwf h
  obtain ⟨h1, h2, h3, _, _⟩ := C07.grand_totals _ hadm hcb
  simp only [Codebase.totalFiles, Codebase.totalLoc, Codebase.totalFunctions] at h1 h2 h3
  rw [ht]
  simp only [List.map_map, Function.comp_def, totalsJ]
  refine ⟨by simpa using h1, ?_, ?_⟩
  · rw [h2]; simp [List.map_map, Function.comp_def, cbEntry]
  · rw [h3]; simp [List.map_map, Function.comp_def, cbEntry]

end Aggregates

/-! ## 5. the bytes written are valid JSON and read back to the same report (C08) -/

section Document
variable {E : Env} {R : Pipeline.Run} {rn : Str} {ch : List Sel.Node} {prev : Option Str}
  {d : Json.ReportData} {bytes : Str}

/-- **the cache file a scan writes is valid JSON**, its value is the value of the report
(`Json.toJson d`), and the compact form parses to the same value -/
theorem scan_writes_valid_json (hE : EnvBase E) (hR : RunOk R) (hT : TreeOk ch) (hH : HistoryOk E R.pats ch prev)
    (h : scan E R (.dir rn ch) prev = .ok (d, bytes)) :
    Json.parseJson bytes = some (Json.toJson d) ∧
    Json.parseJson (Json.write false d) = some (Json.toJson d) := by
  obtain ⟨hg, hk, _, rfl, _⟩ := scan_report_facts_on hE hR hT hH h
  exact C08.valid_json d hg hk

/-- **reading the file back gives the same report**, up to the reader's clock (and the repository
tag, which is not written): `ReportReader.from_json` with `Codebase.build` and `make_profile`
re-run on the entries read -/
theorem scan_output_reads_back (hE : EnvBase E) (hR : RunOk R) (hT : TreeOk ch) (hH : HistoryOk E R.pats ch prev)
    (h : scan E R (.dir rn ch) prev = .ok (d, bytes)) (now : Str) :
    (Json.parseJson bytes).map (Json.fromJson buildJ profileOf now) = some (.ok (C08.upToTimestamp now d)) := by
  obtain ⟨hg, hk, hr, rfl, _⟩ := scan_report_facts_on hE hR hT hH h
  exact C08.round_trip buildJ profileOf now d hg hk hr true

/-- ... and `_read_cached_report` of the next scan sees a document of the current version whose
entries are exactly the entries of this report; the file is an admissible cache for any later scan
(`CacheOkOn.written`: if this scan read only contents from `U` and its own cache file came from a
history within `U`, so does the file it wrote) -/
theorem scan_output_is_next_cache (hE : EnvBase E) (hR : RunOk R) (hT : TreeOk ch) (hH : HistoryOk E R.pats ch prev)
    (h : scan E R (.dir rn ch) prev = .ok (d, bytes)) :
    readCache (some bytes) = .doc (some E.version) (rowsOfFiles d.files) ∧
    ∀ U, ScannedIn E R.pats ch U → CacheOkOn E U prev → CacheOkOn E U (some bytes) :=
  ⟨(scan_report_facts_on hE hR hT hH h).2.2.2.2, fun _ hS hprev => .written hprev hR hT hS h⟩

end Document

/-! ## 6. a scan that starts from a cache equals a fresh scan (C09), also after damage (C10) -/

section Caching
variable {E : Env}

/-- **C09 + C10, end to end, on bytes.**  Let the cache file be absent, or written by an earlier
scan - of any tree, under any exclusion lines and run parameters, itself starting from such a
file: any finite history of edits and scans -, or any prefix of such a file (interrupted write,
truncation at any byte), or anything the reader does not take for a report of the current version
(junk, a directory listing, a report of another version with altered entries); and let MD5 have no
collision among the contents of the files read by this scan and by the scans of that history
(`HistoryOk`).  Then the scan returns the same report and writes the same bytes as a scan that finds
no cache file. -/
theorem scan_with_cache_eq_fresh (hE : EnvBase E) {R : Pipeline.Run} {rn : Str} {ch : List Sel.Node}
    (hwf : wfDir ch = true) {prev : Option Str} (hH : HistoryOk E R.pats ch prev) :
    scan E R (.dir rn ch) prev = scan E R (.dir rn ch) none :=
  scan_eq_fresh_on hE hwf hH

/-- the idealised special case: with a checksum that is injective on ALL byte strings (`EnvOk.md5`;
no real digest) the root need not even be a well-formed directory -/
theorem scan_with_cache_eq_fresh_of_injective (hE : EnvOk E) {prev : Option Str} (hprev : CacheOk E prev)
    (R : Pipeline.Run) (root : Sel.Node) : scan E R root prev = scan E R root none :=
  scan_eq_fresh hE hprev R root

/-- text that is not JSON is `Foreign` -/
theorem foreign_of_not_json (E : Env) {b : Str} (h : Json.parseJson b = none) : Foreign E b := by
  intro es he
  simp [readCache, h] at he

/-- the complete file written by a tool of ANOTHER version (environment `E'`) is `Foreign` -/
theorem foreign_of_other_version {E' : Env} (hE' : EnvBase E') {R : Pipeline.Run} (hR : RunOk R) {rn : Str}
    {ch : List Sel.Node} (hT : TreeOk ch) {prev : Option Str} (hH : HistoryOk E' R.pats ch prev)
    {d : Json.ReportData} {bytes : Str} (h : scan E' R (.dir rn ch) prev = .ok (d, bytes))
    (hv : E'.version ≠ E.version) : Foreign E bytes := by
  intro es he
  rw [(scan_report_facts_on hE' hR hT hH h).2.2.2.2] at he
  injection he with h1 _
  exact hv (Option.some.inj h1)

/-- **a second scan of any directory, started from the file the first scan wrote - complete or cut
at any byte - gives what a fresh scan gives**, provided MD5 has no collision among the contents the
two scans (and the history before them) read -/
theorem rescan_after_interrupted_write (hE : EnvBase E) {U : Str → Prop} (hU : CollisionFree E U)
    {R : Pipeline.Run} (hR : RunOk R) {rn : Str} {ch : List Sel.Node} (hT : TreeOk ch)
    (hS : ScannedIn E R.pats ch U) {prev : Option Str} (hprev : CacheOkOn E U prev)
    {d : Json.ReportData} {bytes : Str} (h : scan E R (.dir rn ch) prev = .ok (d, bytes))
    {p : Str} (hp : p <+: bytes) (R' : Pipeline.Run) (rn' : Str) {ch' : List Sel.Node}
    (hwf' : wfDir ch' = true) (hS' : ScannedIn E R'.pats ch' U) :
    scan E R' (.dir rn' ch') (some p) = scan E R' (.dir rn' ch') none :=
  scan_eq_fresh_on hE hwf' (Or.inr ⟨U, hU, hS', .cut hprev hR hT hS h hp⟩)

/-- **an unchanged tree scanned twice gives the same report** (same run parameters; the second
scan reads the file the first one wrote) -/
theorem rescan_unchanged (hE : EnvBase E) {U : Str → Prop} (hU : CollisionFree E U)
    {R : Pipeline.Run} (hR : RunOk R) {rn : Str} {ch : List Sel.Node} (hT : TreeOk ch)
    (hS : ScannedIn E R.pats ch U) {prev : Option Str} (hprev : CacheOkOn E U prev)
    {d : Json.ReportData} {bytes : Str} (h : scan E R (.dir rn ch) prev = .ok (d, bytes)) :
    scan E R (.dir rn ch) (some bytes) = .ok (d, bytes) := by
  rw [scan_eq_fresh_on hE hT.wf (Or.inr ⟨U, hU, hS, .written hprev hR hT hS h⟩),
    ← scan_eq_fresh_on hE hT.wf (Or.inr ⟨U, hU, hS, hprev⟩), h]

/-- **when an entry is taken from the cache** (C09.2 on the instantiated model; no hypothesis): only
for a file the walk selects, only when the reader made a document of the CURRENT version of the
cache file, and only when that document holds, under the same printed path, an entry whose checksum
is the checksum of the file's current bytes; every other selected file is analysed.
(`Cache.reusedFiles` / `analysedFiles` are the instrumentation of the cache model; what they say
about the REPORT `scan` returns is `report_entries_reused_or_analysed` below.) -/
theorem reuse_only_if_unchanged (E : Env) (pats : List Gi.Pat) (ch : List Sel.Node) (prev : Option Str) :
    (∀ f ∈ Cache.reusedFiles (cacheParams E) (cacheState pats ch prev),
      f ∈ fsOf ch ∧ selectedKey E pats f.1 = true ∧
      ∃ es e, readCache prev = .doc (some E.version) es ∧ (f.1, E.checksum f.2, e) ∈ es) ∧
    (Cache.reusedFiles (cacheParams E) (cacheState pats ch prev) ++
      Cache.analysedFiles (cacheParams E) (cacheState pats ch prev)).Perm
      (Cache.walk (cacheParams E) (cacheState pats ch prev)) := by
  refine ⟨fun f hf => ?_, (C09.analysed_reused_partition (cacheParams E) (cacheState pats ch prev)).1⟩
  obtain ⟨h1, h2, es, e, h3, h4, _⟩ := C09.reuse_only_if_unchanged (cacheParams E) (cacheState pats ch prev) f hf
  exact ⟨h1, h2, es, e, h3, h4⟩

/-- **the instrumentation of `reuse_only_if_unchanged` is about the report `scan` returns**: the
entries of the report are, in order, one per file the walk hands to `_scan_file` (`Cache.walk`:
key `k`, bytes `c`), each holding the checksum of `c`; and the entry of a file counted in
`Cache.reusedFiles` is the entry stored in the cache document under the same path and checksum
(copied, not recomputed), while the entry of a file counted in `Cache.analysedFiles` is
`_analyze_file` (`analyzeRow`) of its current bytes.  No hypothesis: this holds for forged cache
files too (`Ex.forged_cache_taints` is the first case at work). -/
theorem report_entries_reused_or_analysed {E : Env} {R : Pipeline.Run} {rn : Str} {ch : List Sel.Node}
    {prev : Option Str} {d : Json.ReportData} {bytes : Str} (h : scan E R (.dir rn ch) prev = .ok (d, bytes)) :
    d.files.map (·.1) = (Cache.walk (cacheParams E) (cacheState R.pats ch prev)).map (·.1) ∧
    ∀ k f, (k, f) ∈ d.files → ∃ c, (k, c) ∈ Cache.walk (cacheParams E) (cacheState R.pats ch prev) ∧
      f.checksum = E.checksum c ∧
      (((k, c) ∈ Cache.reusedFiles (cacheParams E) (cacheState R.pats ch prev) ∧
          ∃ es row, readCache prev = .doc (some E.version) es ∧ (k, E.checksum c, .ok row) ∈ es ∧
            f = fileData (E.checksum c) row) ∨
       ((k, c) ∈ Cache.analysedFiles (cacheParams E) (cacheState R.pats ch prev) ∧
          ∃ row, analyzeRow E k c = .ok row ∧ f = fileData (E.checksum c) row)) := by
  obtain ⟨files, cb, hf, _, rfl, _⟩ := scan_ok_iff.1 h
  have hrows : scanRows E R.pats (.dir rn ch) prev =
      (Cache.walk (cacheParams E) (cacheState R.pats ch prev)).map
        (fun w => (Cache.scanFile (cacheParams E)
          (Cache.readCachedReport (cacheParams E) (readCache prev)) w).1) := by
    simp only [scanRows, Cache.scan, Cache.report, Cache.scanLog, List.map_map, Function.comp_def]
    rfl
  refine ⟨?_, ?_⟩
  · show files.map (·.1) = _
    rw [entriesOf_keys hf, hrows, List.map_map]
    apply List.map_congr_left
    intro w _
    exact (Cache.scanFile_path (cacheParams E) _ w).1
  · intro k f hkf
    have hkf' : (k, f) ∈ files := hkf
    have hprof := entriesOf_profiles hf (k, f) hkf'
    have hr : (k, f.checksum, Except.ok (⟨f.language, f.loc, f.measurements⟩ : Row)) ∈
        scanRows E R.pats (.dir rn ch) prev := by
      rw [← rowsOfFiles_entriesOf hf]
      exact List.mem_map.2 ⟨(k, f), hkf', rfl⟩
    rw [hrows] at hr
    obtain ⟨w, hw, hwe⟩ := List.mem_map.1 hr
    obtain ⟨hp1, hp2⟩ := Cache.scanFile_path (cacheParams E)
      (Cache.readCachedReport (cacheParams E) (readCache prev)) w
    rw [hwe] at hp1 hp2
    simp only at hp1 hp2
    obtain ⟨wk, wc⟩ := w
    simp only at hp1 hp2
    subst hp1
    have hfd : f = fileData (E.checksum wc) ⟨f.language, f.loc, f.measurements⟩ := by
      obtain ⟨cs, la, lo, pr, me⟩ := f
      simp only at hprof hp2
      simp only [fileData, Json.FileData.mk.injEq, true_and, and_true]
      exact ⟨hp2, hprof⟩
    refine ⟨wc, hw, hp2, ?_⟩
    by_cases hre : (Cache.scanFile (cacheParams E)
        (Cache.readCachedReport (cacheParams E) (readCache prev)) (k, wc)).2 = .reused
    · left
      refine ⟨List.mem_filter.2 ⟨hw, decide_eq_true hre⟩, ?_⟩
      obtain ⟨es, e, hes, hl, hrow⟩ := (Cache.scanFile_reused_iff (cacheParams E)).1 hre
      rw [hwe] at hrow
      have he : e = .ok ⟨f.language, f.loc, f.measurements⟩ := by
        have := congrArg (fun x => x.2.2) hrow
        exact this.symm
      subst he
      exact ⟨es, _, (Cache.readCachedReport_eq_some (cacheParams E)).1 hes, Cache.lookupLast_mem hl, hfd⟩
    · right
      refine ⟨List.mem_filter.2 ⟨hw, by
        show (!decide ((Cache.scanFile (cacheParams E)
          (Cache.readCachedReport (cacheParams E) (readCache prev)) (k, wc)).2 = .reused)) = true
        simp [hre]⟩, ?_⟩
      have hrow := Cache.scanFile_analysed_row (cacheParams E) hre
      rw [hwe] at hrow
      have : (Except.ok ⟨f.language, f.loc, f.measurements⟩ : Except Err Row) = analyzeRow E k wc := by
        have := congrArg (fun x => x.2.2) hrow
        exact this
      exact ⟨_, this.symm, hfd⟩

end Caching

/-! ## 7. `check` agrees with the report (C12) and its status / listing follow C02 -/

section Check
variable {E : Env} {R : Pipeline.Run} {rn : Str} {ch : List Sel.Node} {prev : Option Str}
  {d : Json.ReportData} {bytes : Str}

theorem mem_risksJ {ms : List Json.Meas} {m : Json.Meas} : m ∈ risksJ ms ↔ m ∈ ms ∧ 30 < m.value := by
  simp [risksJ, List.mem_mergeSort, List.mem_filter]

/-- what `check` lists for a file, as report measurements (`risksJ`): exactly the functions longer
than 30 lines, each as often as measured, longest first, ties in report order -/
theorem risksJ_spec (ms : List Json.Meas) :
    (risksJ ms).Perm (ms.filter (fun m => decide (30 < m.value))) ∧
    (risksJ ms).Pairwise (fun a b => b.value ≤ a.value) := by
  refine ⟨List.mergeSort_perm _ _, ?_⟩
  have := List.pairwise_mergeSort (le := fun (a b : Json.Meas) => decide (b.value ≤ a.value))
    (fun a b c h1 h2 => by simp only [decide_eq_true_eq] at *; omega)
    (fun a b => by simp only [Bool.or_eq_true, decide_eq_true_eq]; omega)
    (ms.filter (fun m => decide (30 < m.value)))
  simpa [risksJ] using this

/-- **`check .` (or the root's absolute path) agrees with the report of `scan`, and its output
follows C02.**  With the working directory at the scanned root and the same exclusion lines:
`check` completes; it checks exactly the files the report lists, in the same order; for each it
lists the functions of the report entry that are longer than 30 lines, longest first (`risksJ`);
the exit status is 1 exactly when some function in the report is longer than 60 lines (else 0);
the summary count is the number of functions listed; with `--quiet` nothing is printed exactly when
nothing is listed. -/
theorem check_root_agrees_with_report (hE : EnvBase E) (hwf : wfDir ch = true) (hH : HistoryOk E R.pats ch prev)
    (h : scan E R (.dir rn ch) prev = .ok (d, bytes))
    (arg : CheckArg) (harg : arg = .relDir [] ∨ arg = .absDir []) (quiet : Bool) :
    ∃ co, check E R.pats (.dir rn ch) [] [arg] quiet = .ok co ∧
      co.files.map (fun x => (joinPath x.1.comps, x.2.map measOf)) =
        d.files.map (fun kv => (kv.1, risksJ kv.2.measurements)) ∧
      co.out.listed = d.files.map (fun kv => (risksJ kv.2.measurements).map (·.value)) ∧
      (co.out.exitCode = 1 ↔ ∃ kv ∈ d.files, ∃ m ∈ kv.2.measurements, 60 < m.value) ∧
      (co.out.exitCode = 0 ∨ co.out.exitCode = 1) ∧
      co.out.count = ((co.out.listed.flatten.length : Nat) : Int) ∧
      (co.out.printed = false ↔ quiet = true ∧ co.out.listed.flatten = []) := by
  obtain ⟨sfiles, cb, hs, hkey, _, rfl, _⟩ := scan_spec_on hE hwf hH h
  obtain ⟨fl, hfl, hmap⟩ := (C12.check_root_agrees_with_scan (oracles E R.pats) rn ch hwf arg harg).2.2.2 sfiles hs
  have hfiles : (mkReport E R cb (sfiles.map fun kv => fileOfSel kv.2)).files = sfiles.map fun kv => fileOfSel kv.2 := rfl
  -- every listed item is a `risksOf`
  have hris : ∀ x ∈ fl, ∃ ms, x.2 = risksOf ms := by
    intro x hx
    have : (joinPath x.1.comps, x.2) ∈ fl.map (fun pr => (joinPath pr.1.comps, pr.2)) :=
      List.mem_map.2 ⟨x, hx, rfl⟩
    rw [hmap] at this
    obtain ⟨ke, _, he⟩ := List.mem_map.1 this
    exact ⟨ke.2.ms, (Prod.mk.inj he).2.symm⟩
  have hco : check E R.pats (.dir rn ch) [] [arg] quiet =
      .ok ⟨fl, CL.checkCommand quiet (fl.map (fun x => x.2.map lenI))⟩ := by
    simp only [check, hfl]; rfl
  have h1 : fl.map (fun x => (joinPath x.1.comps, x.2.map measOf)) =
      (sfiles.map fun kv => fileOfSel kv.2).map (fun kv => (kv.1, risksJ kv.2.measurements)) := by
    have := congrArg (List.map (fun pr : Str × List Measurement => (pr.1, pr.2.map measOf))) hmap
    simp only [List.map_map, Function.comp_def] at this ⊢
    rw [this]
    apply List.map_congr_left
    intro kv hkv
    simp only [fileOfSel, fileData, rowOfSel, risks_meas, (hkey kv hkv)]
  have h2 : fl.map (fun x => x.2.map lenI) =
      (sfiles.map fun kv => fileOfSel kv.2).map (fun kv => (risksJ kv.2.measurements).map (·.value)) := by
    have := congrArg (List.map (fun pr : Str × List Json.Meas => pr.2.map (·.value))) h1
    simp only [List.map_map, Function.comp_def] at this ⊢
    exact this
  have hlisted := listed_of_risks quiet fl hris
  refine ⟨_, hco, h1, by rw [hfiles]; exact hlisted.trans h2, ?_, ?_, ?_, ?_⟩
  · show (CL.checkCommand quiet (fl.map (fun x => x.2.map lenI))).exitCode = 1 ↔ _
    rw [(C02.exit_code_iff quiet _).1, h2, hfiles]
    constructor
    · rintro ⟨ms, hms, L, hL, h60⟩
      obtain ⟨kv, hkv, rfl⟩ := List.mem_map.1 hms
      obtain ⟨m, hm, rfl⟩ := List.mem_map.1 hL
      exact ⟨kv, hkv, m, (mem_risksJ.1 hm).1, h60⟩
    · rintro ⟨kv, hkv, m, hm, h60⟩
      exact ⟨_, List.mem_map.2 ⟨kv, hkv, rfl⟩, m.value,
        List.mem_map.2 ⟨m, mem_risksJ.2 ⟨hm, by omega⟩, rfl⟩, h60⟩
  · exact (C02.exit_code_iff quiet _).2
  · exact C02.summary_count_eq quiet _
  · exact C02.quiet_iff quiet _

/-- **a listed file named on the command line by its relative path**: `check` lists for it the
functions of its report entry that are longer than 30 lines -/
theorem check_file_agrees_with_report (hE : EnvBase E) (hwf : wfDir ch = true) (hH : HistoryOk E R.pats ch prev)
    (h : scan E R (.dir rn ch) prev = .ok (d, bytes))
    {p : List Str} {c : Str} {lang : Nat} (hq : C11pat.Qualifies R.pats (langOf E) ch p c lang)
    {f : Json.FileData} (hf : (joinPath p, f) ∈ d.files) (quiet : Bool) :
    ∃ co risks, check E R.pats (.dir rn ch) [] [.relFile p] quiet = .ok co ∧
      co.files = [(⟨false, p⟩, risks)] ∧ risks.map measOf = risksJ f.measurements := by
  obtain ⟨sfiles, cb, hs, hkey, _, rfl, _⟩ := scan_spec_on hE hwf hH h
  obtain ⟨⟨k, e⟩, hke, hfe⟩ := List.mem_map.1 hf
  have hk := hkey _ hke
  simp only [fileOfSel, Prod.mk.injEq] at hfe hk
  obtain ⟨hpath, rfl⟩ := hfe
  have hsel : Selected (oracles E R.pats) ch p c lang :=
    (C11pat.selected_iff_qualifies (oracles E []) R.pats ch).2 hq
  have hmem : (joinPath p, e) ∈ sfiles := by rw [← hpath, ← hk]; exact hke
  have := C12.scanned_file_checked_by_path (oracles E R.pats) rn ch hwf hsel hs hmem
  refine ⟨⟨[(⟨false, p⟩, risksOf e.ms)],
    CL.checkCommand quiet ([((⟨false, p⟩ : CPath), risksOf e.ms)].map (fun x => x.2.map (fun m => (m.len : Int))))⟩,
    risksOf e.ms, ?_, rfl, ?_⟩
  · simp only [check, this]
  · simp only [fileData, rowOfSel, risks_meas]

end Check

/-! ## 8. C01 on the output of `scan`: the entry of a canonical program file IS the tree report

The lexer remains a parameter: the hypothesis `hlex` says that the lexer, applied to the text of
the forest, returns the raw token stream the text model assigns to it (`rawOf` / `pyRawOf`:
checked against Pygments on every generated forest by the harness, `lexer_mismatch = 0`). -/

section Trees
open CL.TreeOps CL.C01tree CL.PyTreeOps CL.PyT
variable {E : Env} {R : Pipeline.Run} {rn : Str} {ch : List Sel.Node} {prev : Option Str}
  {d : Json.ReportData} {bytes : Str}

/-- **C01 on the report, brace languages, given header discovery** (stage G + T): a qualifying
file whose decoded content is the text of a program forest `prog` (well-formed, no function
directly followed by a brace group, code tokens only, spaced) has in the REPORT exactly the entry
read off the tree: every function node once, under its name, from its header to its closing
brace, with its own lines (`TreeOps.reportOf`), the checksum of its bytes, its language, the sum
of the lengths and the profile of the lengths.

`_partial`: the hypotheses `hh`, `hperm` (header DISCOVERY: `extract_headers` on the rendered tokens
returns, up to order, the headers of the function nodes) speak about the matcher's output and are
inherited from `C01text.analyze_of_tree_text_partial`; they are discharged for the decidable
canonical fragments by the variants below (`report_entry_of_canon_tree`, `…_java_tree`, `…_js_tree`,
`…_ts_tree`, `report_entry_of_pytree`), which need no such hypothesis. -/
theorem report_entry_of_tree_text_partial (hE : EnvBase E) (hwf : wfDir ch = true) (hH : HistoryOk E R.pats ch prev)
    (h : scan E R (.dir rn ch) prev = .ok (d, bytes))
    {p : List Str} {c : Str} {lang : Nat} {x : String × Language}
    (hq : C11pat.Qualifies R.pats (langOf E) ch p c lang) (hx : Gen.all[lang]? = some x)
    {prog : Prog PTok} (htext : E.decode c = textOf prog) (hlex : E.lexOf lang (textOf prog) = rawOf prog)
    (hpy : x.2.python = false) (hw : prog.bare.wfCore = true) (ha : prog.noAdj = true)
    (hc : prog.bare.allCode = true) (hs : prog.Spaced = true)
    {hs' : List Header} (hh : extractHeaders x.2 (render prog) = .ok hs')
    (hperm : hs'.Perm (prog.located.fns.map (·.hdr))) :
    (joinPath p, entryFor E c x (reportOf x.2 prog)) ∈ d.files ∧
    ∀ f, (joinPath p, f) ∈ d.files → f = entryFor E c x (reportOf x.2 prog) := by
  have := C01text.analyze_of_tree_text_partial hpy hw ha hc hs hh hperm
  rw [← hlex, ← htext] at this
  exact report_entry_of_analysis hE hwf hH h hq hx this

/-- **C01 on the report, C / C++ / C#, unconditional** (stage F): for a forest in the decidable
canonical fragment (`Prog.Canon`) no hypothesis about the matcher remains -/
theorem report_entry_of_canon_tree (hE : EnvBase E) (hwf : wfDir ch = true) (hH : HistoryOk E R.pats ch prev)
    (h : scan E R (.dir rn ch) prev = .ok (d, bytes))
    {p : List Str} {c : Str} {lang : Nat} {x : String × Language}
    (hq : C11pat.Qualifies R.pats (langOf E) ch p c lang) (hx : Gen.all[lang]? = some x)
    (hL : x.2 ∈ C01syn.cFamily)
    {prog : Prog PTok} (htext : E.decode c = textOf prog) (hlex : E.lexOf lang (textOf prog) = rawOf prog)
    (hcan : prog.bare.Canon = true) (hw : prog.bare.wfCore = true) (ha : prog.noAdj = true)
    (hc : prog.bare.allCode = true) (hs : prog.Spaced = true) :
    (joinPath p, entryFor E c x (reportOf x.2 prog)) ∈ d.files ∧
    ∀ f, (joinPath p, f) ∈ d.files → f = entryFor E c x (reportOf x.2 prog) := by
  have hw' : prog.located.wfCore = true := by rw [Prog.located, wfCore_locate]; exact hw
  have ha' : prog.located.noAdj = true := by rw [Prog.located, noAdj_locate]; exact ha
  have hc' : prog.located.Canon = true := by rw [C01full.canon_of_rendered]; exact hcan
  exact report_entry_of_tree_text_partial hE hwf hH h hq hx htext hlex (C01full.cFamily_brace _ hL) hw ha hc hs
    (C01full.discovery_of_canon hL hc' hw' ha') (List.Perm.refl _)

/-- **C01 on the report, Java** (`CanonJava`) -/
theorem report_entry_of_canon_java_tree (hE : EnvBase E) (hwf : wfDir ch = true) (hH : HistoryOk E R.pats ch prev)
    (h : scan E R (.dir rn ch) prev = .ok (d, bytes))
    {p : List Str} {c : Str} {lang : Nat}
    (hq : C11pat.Qualifies R.pats (langOf E) ch p c lang) (hx : Gen.all[lang]? = some ("Java", Gen.java))
    {prog : Prog PTok} (htext : E.decode c = textOf prog) (hlex : E.lexOf lang (textOf prog) = rawOf prog)
    (hcan : prog.bare.CanonJava = true) (hw : prog.bare.wfCore = true) (ha : prog.noAdj = true)
    (hc : prog.bare.allCode = true) (hs : prog.Spaced = true) :
    (joinPath p, entryFor E c ("Java", Gen.java) (treeReport prog.located)) ∈ d.files ∧
    ∀ f, (joinPath p, f) ∈ d.files → f = entryFor E c ("Java", Gen.java) (treeReport prog.located) := by
  have hw' : prog.located.wfCore = true := by rw [Prog.located, wfCore_locate]; exact hw
  have ha' : prog.located.noAdj = true := by rw [Prog.located, noAdj_locate]; exact ha
  have hc' : prog.located.CanonJava = true := by rw [C01full.canonJava_of_rendered]; exact hcan
  exact report_entry_of_tree_text_partial hE hwf hH h hq hx htext hlex rfl hw ha hc hs
    (C01full.discovery_of_canon_java hc' hw' ha') (List.Perm.refl _)

/-- **C01 on the report, JavaScript** (`CanonJs`: no assigned arrow functions) -/
theorem report_entry_of_canon_js_tree (hE : EnvBase E) (hwf : wfDir ch = true) (hH : HistoryOk E R.pats ch prev)
    (h : scan E R (.dir rn ch) prev = .ok (d, bytes))
    {p : List Str} {c : Str} {lang : Nat}
    (hq : C11pat.Qualifies R.pats (langOf E) ch p c lang)
    (hx : Gen.all[lang]? = some ("JavaScript", Gen.javascript))
    {prog : Prog PTok} (htext : E.decode c = textOf prog) (hlex : E.lexOf lang (textOf prog) = rawOf prog)
    (hcan : prog.bare.CanonJs = true) (hw : prog.bare.wfCore = true) (ha : prog.noAdj = true)
    (hc : prog.bare.allCode = true) (hs : prog.Spaced = true) :
    (joinPath p, entryFor E c ("JavaScript", Gen.javascript) (treeReport prog.located)) ∈ d.files ∧
    ∀ f, (joinPath p, f) ∈ d.files →
      f = entryFor E c ("JavaScript", Gen.javascript) (treeReport prog.located) := by
  have hw' : prog.located.wfCore = true := by rw [Prog.located, wfCore_locate]; exact hw
  have ha' : prog.located.noAdj = true := by rw [Prog.located, noAdj_locate]; exact ha
  have hc' : prog.located.CanonJs = true := by rw [Prog.located, canonJs_locate]; exact hcan
  exact report_entry_of_tree_text_partial hE hwf hH h hq hx htext hlex rfl hw ha hc hs
    (C01full.discovery_of_canon_js hc' hw' ha') (List.Perm.refl _)

/-- **C01 on the report, TypeScript** (`CanonTs`) -/
theorem report_entry_of_canon_ts_tree (hE : EnvBase E) (hwf : wfDir ch = true) (hH : HistoryOk E R.pats ch prev)
    (h : scan E R (.dir rn ch) prev = .ok (d, bytes))
    {p : List Str} {c : Str} {lang : Nat}
    (hq : C11pat.Qualifies R.pats (langOf E) ch p c lang)
    (hx : Gen.all[lang]? = some ("TypeScript", Gen.typescript))
    {prog : Prog PTok} (htext : E.decode c = textOf prog) (hlex : E.lexOf lang (textOf prog) = rawOf prog)
    (hcan : prog.bare.CanonTs = true) (hw : prog.bare.wfCore = true) (ha : prog.noAdj = true)
    (hc : prog.bare.allCode = true) (hs : prog.Spaced = true) :
    (joinPath p, entryFor E c ("TypeScript", Gen.typescript) (treeReport prog.located)) ∈ d.files ∧
    ∀ f, (joinPath p, f) ∈ d.files →
      f = entryFor E c ("TypeScript", Gen.typescript) (treeReport prog.located) := by
  have hw' : prog.located.wfCore = true := by rw [Prog.located, wfCore_locate]; exact hw
  have ha' : prog.located.noAdj = true := by rw [Prog.located, noAdj_locate]; exact ha
  have hc' : prog.located.CanonTs = true := by rw [Prog.located, canonTs_locate]; exact hcan
  exact report_entry_of_tree_text_partial hE hwf hH h hq hx htext hlex rfl hw ha hc hs
    (C01full.discovery_of_canon_ts hc' hw' ha') (List.Perm.refl _)

/-- **C01 on the report, Python, unconditional** (stages P + T'): a qualifying `.py` file whose
decoded content is the text of a well-formed, spaced indentation tree `t` has in the REPORT
exactly the entry read off the tree (`pyTreeReport`: every `def` node once, from its `def` token
to the end of its suite, with the physical lines of its own tokens) -/
theorem report_entry_of_pytree (hE : EnvBase E) (hwf : wfDir ch = true) (hH : HistoryOk E R.pats ch prev)
    (h : scan E R (.dir rn ch) prev = .ok (d, bytes))
    {p : List Str} {c : Str} {lang : Nat}
    (hq : C11pat.Qualifies R.pats (langOf E) ch p c lang) (hx : Gen.all[lang]? = some ("Python", Gen.python))
    {t : PyProg PTok} (htext : E.decode c = pyTextOf t) (hlex : E.lexOf lang (pyTextOf t) = pyRawOf t)
    (hw : t.wf = true) (hs : t.Spaced = true) :
    (joinPath p, entryFor E c ("Python", Gen.python) (pyTreeReport t.located)) ∈ d.files ∧
    ∀ f, (joinPath p, f) ∈ d.files → f = entryFor E c ("Python", Gen.python) (pyTreeReport t.located) := by
  have := C01pytext.analyze_of_pytree_text hw hs
  rw [← hlex, ← htext] at this
  exact report_entry_of_analysis hE hwf hH h hq hx this

end Trees

/-! ## 9. non-vacuity: a concrete tree, evaluated end to end in the kernel

```
.hidden.py        hidden file                         (Python text)
README.md         no lexer
main.c            C: the canonical forest `C01tree.Ex.cppTree`
notes.rb          a lexer that is not a supported language
src/util.py       Python: the indentation tree `C01pyfull.Ex.tree`
src/.cache/x.c    hidden directory
tests/t.py        excluded by the built-in name `tests`
vendor/lib.c      excluded by the configured line `vendor`
```
A file's bytes are a one-element list (`[1]`: decodes to the C text, `[2]`: to the Python text); the
checksum is a unary code (injective).  The same directory was written to disk and scanned with the
real `scan_command` (`Configuration.exclude = ["vendor"]`): its `codelimit.json` equals `exBytes`
character by character, apart from the version / uuid / timestamp / root / checksum strings. -/

namespace Ex
open CL.C01tree.Ex CL.C01pyfull.Ex CL.C01text.Ex CL.Json

def cText : Str := textOf cppTree
def pyText : Str := pyTextOf tree

def exE : Env where
  lexerOf n := if (cp! ".c").isSuffixOf n then some 0 else if (cp! ".py").isSuffixOf n then some 5
    else if (cp! ".rb").isSuffixOf n then some 9 else none
  lexOf i text := if i = 0 ∧ text = cText then rawOf cppTree
    else if i = 5 ∧ text = pyText then pyRawOf tree else []
  decode b := if b = [1] then cText else if b = [2] then pyText else b.map (· % 128)
  checksum b := b.flatMap (fun n => 48 :: List.replicate n 49)
  version := cp! "0.9.5"

def exR : Pipeline.Run where
  pats := [.name (cp! "vendor")]
  root := cp! "/home/u/proj"
  uuid := cp! "uuid-1"
  now := cp! "2026-09-30T00:00:00+00:00"
  repository := none

def exTree : List Sel.Node :=
  [.file (cp! ".hidden.py") [2],
   .file (cp! "README.md") [7],
   .file (cp! "main.c") [1],
   .file (cp! "notes.rb") [8],
   .dir (cp! "src") [.file (cp! "util.py") [2], .dir (cp! ".cache") [.file (cp! "x.c") [1]]],
   .dir (cp! "tests") [.file (cp! "t.py") [2]],
   .dir (cp! "vendor") [.file (cp! "lib.c") [1]]]

/-- the report object of the example -/
def exReport : Json.ReportData :=
  { version := some (cp! "0.9.5"), uuid := cp! "uuid-1", timestamp := cp! "2026-09-30T00:00:00+00:00",
    root := cp! "/home/u/proj", repository := none,
    totals := [(cp! "C", ⟨1, 10, 3, 0, 0⟩), (cp! "Python", ⟨1, 20, 6, 0, 0⟩)],
    tree := [(cp! "./", ⟨[cp! "main.c", cp! "src/"], [30, 0, 0, 0]⟩), (cp! "src/", ⟨[cp! "util.py"], [20, 0, 0, 0]⟩)],
    files := [(cp! "main.c", ⟨cp "01", cp! "C", 10, [10, 0, 0, 0],
                [⟨cp "m1", 3, 3, 3, 17, 1⟩, ⟨cp "m2", 4, 3, 4, 31, 1⟩, ⟨cp "f", 6, 1, 13, 2, 8⟩]⟩),
              (cp! "src/util.py", ⟨cp "011", cp! "Python", 20, [20, 0, 0, 0],
                [⟨cp "m1", 3, 5, 4, 17, 2⟩, ⟨cp "m2", 6, 11, 12, 17, 7⟩, ⟨cp "f", 14, 1, 25, 17, 3⟩,
                 ⟨cp "g", 15, 5, 18, 13, 3⟩, ⟨cp "h", 21, 9, 23, 17, 3⟩, ⟨cp "k", 24, 5, 25, 17, 2⟩]⟩)] }

/-- **the JSON text of the report** (the content of `.codelimit_cache/codelimit.json`) -/
def exBytes : Str := cp! "{
  \"version\": \"0.9.5\",
  \"uuid\": \"uuid-1\",
  \"timestamp\": \"2026-09-30T00:00:00+00:00\",
  \"root\": \"/home/u/proj\",
  \"codebase\": {
    \"totals\": {
      \"C\": {
        \"files\": 1,
        \"lines_of_code\": 10,
        \"functions\": 3,
        \"hard_to_maintain\": 0,
        \"unmaintainable\": 0
      },
      \"Python\": {
        \"files\": 1,
        \"lines_of_code\": 20,
        \"functions\": 6,
        \"hard_to_maintain\": 0,
        \"unmaintainable\": 0
      }
    },
    \"tree\": {
      \"./\": {
        \"entries\": [
          \"main.c\",
          \"src/\"
        ],
        \"profile\": [30, 0, 0, 0]
      },
      \"src/\": {
        \"entries\": [
          \"util.py\"
        ],
        \"profile\": [20, 0, 0, 0]
      }
    },
    \"files\": {
      \"main.c\": {
        \"checksum\": \"01\",
        \"language\": \"C\",
        \"loc\": 10,
        \"profile\": [10, 0, 0, 0],
        \"measurements\": [
          {\"unit_name\": \"m1\", \"start\": {\"line\": 3, \"column\": 3}, \"end\": {\"line\": 3, \"column\": 17}, \"value\": 1},
          {\"unit_name\": \"m2\", \"start\": {\"line\": 4, \"column\": 3}, \"end\": {\"line\": 4, \"column\": 31}, \"value\": 1},
          {\"unit_name\": \"f\", \"start\": {\"line\": 6, \"column\": 1}, \"end\": {\"line\": 13, \"column\": 2}, \"value\": 8}
        ]
      },
      \"src/util.py\": {
        \"checksum\": \"011\",
        \"language\": \"Python\",
        \"loc\": 20,
        \"profile\": [20, 0, 0, 0],
        \"measurements\": [
          {\"unit_name\": \"m1\", \"start\": {\"line\": 3, \"column\": 5}, \"end\": {\"line\": 4, \"column\": 17}, \"value\": 2},
          {\"unit_name\": \"m2\", \"start\": {\"line\": 6, \"column\": 11}, \"end\": {\"line\": 12, \"column\": 17}, \"value\": 7},
          {\"unit_name\": \"f\", \"start\": {\"line\": 14, \"column\": 1}, \"end\": {\"line\": 25, \"column\": 17}, \"value\": 3},
          {\"unit_name\": \"g\", \"start\": {\"line\": 15, \"column\": 5}, \"end\": {\"line\": 18, \"column\": 13}, \"value\": 3},
          {\"unit_name\": \"h\", \"start\": {\"line\": 21, \"column\": 9}, \"end\": {\"line\": 23, \"column\": 17}, \"value\": 3},
          {\"unit_name\": \"k\", \"start\": {\"line\": 24, \"column\": 5}, \"end\": {\"line\": 25, \"column\": 17}, \"value\": 2}
        ]
      }
    }
  }
}
"

/-- **the example, end to end in the kernel**: directory walk, hidden / excluded / language
selection, decoding, lexing (`lex` on the raw streams), header matching, scopes, measurements,
`Codebase.build`, `ReportWriter` -/
theorem ex_scan : scan exE exR (.dir [] exTree) none = .ok (exReport, exBytes) := by
  rw [scan_eq_K]
  decide +kernel

/-! ### the hypotheses of the theorems hold for the example -/

theorem goodStr_of_small : ∀ {s : Str}, (∀ c ∈ s, c < 55296) → Json.GoodStr s := by
  intro s h
  refine ⟨fun c hc => by have := h c hc; omega, ?_⟩
  induction s with
  | nil => trivial
  | cons a t ih =>
    cases t with
    | nil => trivial
    | cons b u =>
      refine ⟨?_, ih (fun c hc => h c (List.mem_cons_of_mem _ hc))⟩
      have := h a (by simp)
      simp [Json.isHigh]
      omega

/-- the unary code of the example checksum -/
def enc (b : Str) : Str := b.flatMap (fun n => 48 :: List.replicate n 49)

theorem enc_head (r : Str) : enc r = [] ∨ ∃ t, enc r = 48 :: t := by
  cases r with
  | nil => exact Or.inl rfl
  | cons n r => exact Or.inr ⟨List.replicate n 49 ++ enc r, by simp [enc, List.flatMap_cons]⟩

theorem enc_cons (n : Nat) (r : Str) : enc (n :: r) = 48 :: (List.replicate n 49 ++ enc r) := by
  simp [enc, List.flatMap_cons]

theorem enc_split : ∀ (n m : Nat) (r r' : Str),
    List.replicate n 49 ++ enc r = List.replicate m 49 ++ enc r' → n = m ∧ enc r = enc r'
  | 0, 0, _, _, h => ⟨rfl, by simpa using h⟩
  | 0, m + 1, r, r', h => by
    simp only [List.replicate_zero, List.nil_append, List.replicate_succ, List.cons_append] at h
    rcases enc_head r with h0 | ⟨t, ht⟩
    · rw [h0] at h; cases h
    · rw [ht] at h; cases h
  | n + 1, 0, r, r', h => by
    simp only [List.replicate_zero, List.nil_append, List.replicate_succ, List.cons_append] at h
    rcases enc_head r' with h0 | ⟨t, ht⟩
    · rw [h0] at h; cases h
    · rw [ht] at h; cases h
  | n + 1, m + 1, r, r', h => by
    simp only [List.replicate_succ, List.cons_append, List.cons.injEq, true_and] at h
    obtain ⟨h1, h2⟩ := enc_split n m r r' h
    exact ⟨by omega, h2⟩

theorem enc_injective : Function.Injective enc := by
  intro a
  induction a with
  | nil =>
    intro b h
    cases b with
    | nil => rfl
    | cons m r' => rw [enc_cons] at h; cases h
  | cons n r ih =>
    intro b h
    cases b with
    | nil => rw [enc_cons] at h; cases h
    | cons m r' =>
      rw [enc_cons, enc_cons] at h
      obtain ⟨h1, h2⟩ := enc_split n m r r' (List.cons.inj h).2
      rw [h1, ih h2]

theorem exE_ok : EnvOk exE where
  lexer := by
    constructor
    · intro i text _
      show RawOk text (if i = 0 ∧ text = cText then rawOf cppTree
        else if i = 5 ∧ text = pyText then pyRawOf tree else [])
      by_cases h1 : i = 0 ∧ text = cText
      · rw [if_pos h1, h1.2]; exact C01text.rawOk_text cppTree
      · rw [if_neg h1]
        by_cases h2 : i = 5 ∧ text = pyText
        · rw [if_pos h2, h2.2]; exact C01pytext.rawOk_pytext tree
        · rw [if_neg h2]; trivial
    · intro i text _ t ht _
      change t ∈ (if i = 0 ∧ text = cText then rawOf cppTree
        else if i = 5 ∧ text = pyText then pyRawOf tree else []) at ht
      by_cases h1 : i = 0 ∧ text = cText
      · rw [if_pos h1] at ht; exact C01text.raw_values_nonempty cpp_spaced t ht
      · rw [if_neg h1] at ht
        by_cases h2 : i = 5 ∧ text = pyText
        · rw [if_pos h2] at ht; exact C01pytext.pyraw_values_nonempty C01pytext.Ex.tree_spaced t ht
        · rw [if_neg h2] at ht; cases ht
  decode := by
    intro b
    show Json.GoodStr (if b = [1] then cText else if b = [2] then pyText else b.map (· % 128))
    by_cases h1 : b = [1]
    · rw [if_pos h1]; exact goodStr_of_small (by decide +kernel)
    · rw [if_neg h1]
      by_cases h2 : b = [2]
      · rw [if_pos h2]; exact goodStr_of_small (by decide +kernel)
      · rw [if_neg h2]
        apply goodStr_of_small
        intro c hc
        obtain ⟨x, _, rfl⟩ := List.mem_map.1 hc
        omega
  checksum := by
    intro b
    apply goodStr_of_small
    intro c hc
    simp only [exE, List.mem_flatMap, List.mem_cons, List.mem_replicate] at hc
    obtain ⟨n, _, rfl | ⟨_, rfl⟩⟩ := hc <;> omega
  version := by decide
  md5 := enc_injective

theorem exR_ok : RunOk exR :=
  ⟨by decide, by decide, by decide, by intro r h; cases h⟩

theorem exTree_ok : TreeOk exTree where
  wf := by decide +kernel
  names := by
    intro p c hf hv
    have h : ∀ x ∈ cands [] exTree, ∀ y ∈ x.1, Json.GoodStr y := by decide +kernel
    exact h (p, c) (mem_cands.2 ⟨p, rfl, hf, hv⟩)

/-- hence everything proved above applies to the example; e.g. its bytes are valid JSON with the
value of `exReport`, and the file is an admissible cache for any later scan -/
example : Json.parseJson exBytes = some (Json.toJson exReport) ∧ CacheOkOn exE (fun _ => True) (some exBytes) :=
  ⟨(scan_writes_valid_json exE_ok.toEnvBase exR_ok exTree_ok (.fresh ..) ex_scan).1,
   (scan_output_is_next_cache exE_ok.toEnvBase exR_ok exTree_ok (.fresh ..) ex_scan).2 _
     (fun _ _ _ _ => trivial) .missing⟩

/-! ### a second scan, after an edit, from the cache the first scan wrote -/

/-- `main.c` gets new bytes (`[3]`, which decode to a text without functions), `src/util.py` is
unchanged, a new file `src/new.py` (the Python text again) appears -/
def exTree2 : List Sel.Node :=
  [.file (cp! ".hidden.py") [2],
   .file (cp! "main.c") [3],
   .dir (cp! "src") [.file (cp! "util.py") [2], .file (cp! "new.py") [2]],
   .dir (cp! "vendor") [.file (cp! "lib.c") [1]]]

/-- the theorem: with the first scan's file as cache - or with any prefix of it - the second scan
returns what a scan without cache returns -/
example (p : Str) (hp : p <+: exBytes) :
    scan exE exR (.dir [] exTree2) (some p) = scan exE exR (.dir [] exTree2) none :=
  rescan_after_interrupted_write exE_ok.toEnvBase (U := fun _ => True) (fun _ _ _ _ he => exE_ok.md5 he)
    exR_ok exTree_ok (fun _ _ _ _ => trivial) .missing ex_scan hp exR [] (by decide +kernel)
    (fun _ _ _ _ => trivial)

set_option maxRecDepth 20000 in
/-- kernel evaluation of the instrumented cache model on the same input: the reader parses
`exBytes`, `src/util.py` is taken from the cache (same path, same checksum), `main.c` (changed)
and `src/new.py` (new path, although same bytes as a cached file) are analysed -/
example :
    ((Cache.reusedFiles (cacheParams exE) (cacheState exR.pats exTree2 (some exBytes))).map (·.1),
     (Cache.analysedFiles (cacheParams exE) (cacheState exR.pats exTree2 (some exBytes))).map (·.1)) =
      ([cp! "src/util.py"], [cp! "main.c", cp! "src/new.py"]) := by
  refine (reusedAnalysed_eq_K exE exR.pats (.dir [] exTree2) (some exBytes)).trans ?_
  decide +kernel

set_option maxRecDepth 20000 in
/-- a cut file: everything is analysed again -/
example :
    ((Cache.reusedFiles (cacheParams exE) (cacheState exR.pats exTree2 (some (exBytes.take 1000)))).map (·.1),
     (Cache.analysedFiles (cacheParams exE) (cacheState exR.pats exTree2 (some (exBytes.take 1000)))).map (·.1)) =
      ([], [cp! "main.c", cp! "src/util.py", cp! "src/new.py"]) := by
  refine (reusedAnalysed_eq_K exE exR.pats (.dir [] exTree2) (some (exBytes.take 1000))).trans ?_
  decide +kernel

/-- text that is not JSON is a harmless cache -/
example : scan exE exR (.dir [] exTree) (some (cp! "<html>")) = .ok (exReport, exBytes) := by
  rw [scan_with_cache_eq_fresh exE_ok.toEnvBase exTree_ok.wf
    (.of_injective exE_ok (.foreign (foreign_of_not_json exE (by decide +kernel))) _ _)]
  exact ex_scan

/-! ### an environment whose checksum is NOT injective

`exE2` is `exE` with a checksum that looks at the first byte only: it has collisions (`[1]` and
`[1, 5]`), so `EnvOk exE2` is false - but no two contents that occur in the two example trees
(`[1]`, `[2]`, `[3]`) collide, which is all `HistoryOk` asks for. -/

def exE2 : Env := { exE with checksum := fun b => enc (b.take 1) }

/-- the contents of the files the example scans read -/
def exU (c : Str) : Prop := c = [1] ∨ c = [2] ∨ c = [3]

instance : DecidablePred exU := fun c => by unfold exU; infer_instance

theorem exE2_not_injective : ¬ Function.Injective exE2.checksum := by
  intro h
  have : ([1] : Str) = [1, 5] := h (by decide)
  cases this

theorem exE2_base : EnvBase exE2 where
  lexer := ⟨exE_ok.lexer.tiles, exE_ok.lexer.nonempty⟩
  decode := exE_ok.decode
  checksum := by
    intro b
    apply goodStr_of_small
    intro c hc
    simp only [exE2, enc, List.mem_flatMap, List.mem_cons, List.mem_replicate] at hc
    obtain ⟨n, _, rfl | ⟨_, rfl⟩⟩ := hc <;> omega
  version := exE_ok.version

theorem exE2_collisionFree : CollisionFree exE2 exU := by
  intro c c' hc hc' h
  rcases hc with rfl | rfl | rfl <;> rcases hc' with rfl | rfl | rfl <;>
    first | rfl | (exfalso; revert h; decide)

theorem exTree_in : ScannedIn exE2 exR.pats exTree exU := by
  intro p c lang hsel
  have h : ∀ x ∈ selection (oracles exE2 exR.pats) exTree, exU x.2.2 := by decide +kernel
  exact h (p, lang, c) (mem_selection.2 hsel)

theorem exTree2_in : ScannedIn exE2 exR.pats exTree2 exU := by
  intro p c lang hsel
  have h : ∀ x ∈ selection (oracles exE2 exR.pats) exTree2, exU x.2.2 := by decide +kernel
  exact h (p, lang, c) (mem_selection.2 hsel)

/-- **the theorems apply to the non-injective checksum**: whatever the first scan of `exTree` wrote
(it did write something: `scan_never_raises`), a scan of the edited tree `exTree2` that starts from
that file - complete or cut at any byte - returns what a scan without cache returns; and every
report it can return satisfies the theorems above (here: `report_measurements_wf`) -/
example : ∃ d bytes, scan exE2 exR (.dir [] exTree) none = .ok (d, bytes) ∧
    ∀ p, p <+: bytes →
      scan exE2 exR (.dir [] exTree2) (some p) = scan exE2 exR (.dir [] exTree2) none ∧
      HistoryOk exE2 exR.pats exTree2 (some p) := by
  obtain ⟨d, bytes, h⟩ := scan_never_raises exE2 exR [] exTree_ok.wf none
  refine ⟨d, bytes, h, fun p hp => ⟨?_, ?_⟩⟩
  · exact rescan_after_interrupted_write exE2_base exE2_collisionFree exR_ok exTree_ok
      exTree_in .missing h hp exR [] (by decide +kernel) exTree2_in
  · exact Or.inr ⟨exU, exE2_collisionFree, exTree2_in,
      .cut .missing exR_ok exTree_ok exTree_in h hp⟩

/-! ### the restriction of `HistoryOk` to honest cache files (`CacheOkOn`) is needed: a forged document of the
current version -/

/-- `exBytes` with the length of `f` in `main.c` changed from 8 to 80 (checksums untouched) -/
def exForged : Str := cp! "{
  \"version\": \"0.9.5\",
  \"uuid\": \"uuid-1\",
  \"timestamp\": \"2026-09-30T00:00:00+00:00\",
  \"root\": \"/home/u/proj\",
  \"codebase\": {
    \"totals\": {
      \"C\": {
        \"files\": 1,
        \"lines_of_code\": 10,
        \"functions\": 3,
        \"hard_to_maintain\": 0,
        \"unmaintainable\": 0
      },
      \"Python\": {
        \"files\": 1,
        \"lines_of_code\": 20,
        \"functions\": 6,
        \"hard_to_maintain\": 0,
        \"unmaintainable\": 0
      }
    },
    \"tree\": {
      \"./\": {
        \"entries\": [
          \"main.c\",
          \"src/\"
        ],
        \"profile\": [30, 0, 0, 0]
      },
      \"src/\": {
        \"entries\": [
          \"util.py\"
        ],
        \"profile\": [20, 0, 0, 0]
      }
    },
    \"files\": {
      \"main.c\": {
        \"checksum\": \"01\",
        \"language\": \"C\",
        \"loc\": 10,
        \"profile\": [10, 0, 0, 0],
        \"measurements\": [
          {\"unit_name\": \"m1\", \"start\": {\"line\": 3, \"column\": 3}, \"end\": {\"line\": 3, \"column\": 17}, \"value\": 1},
          {\"unit_name\": \"m2\", \"start\": {\"line\": 4, \"column\": 3}, \"end\": {\"line\": 4, \"column\": 31}, \"value\": 1},
          {\"unit_name\": \"f\", \"start\": {\"line\": 6, \"column\": 1}, \"end\": {\"line\": 13, \"column\": 2}, \"value\": 80}
        ]
      },
      \"src/util.py\": {
        \"checksum\": \"011\",
        \"language\": \"Python\",
        \"loc\": 20,
        \"profile\": [20, 0, 0, 0],
        \"measurements\": [
          {\"unit_name\": \"m1\", \"start\": {\"line\": 3, \"column\": 5}, \"end\": {\"line\": 4, \"column\": 17}, \"value\": 2},
          {\"unit_name\": \"m2\", \"start\": {\"line\": 6, \"column\": 11}, \"end\": {\"line\": 12, \"column\": 17}, \"value\": 7},
          {\"unit_name\": \"f\", \"start\": {\"line\": 14, \"column\": 1}, \"end\": {\"line\": 25, \"column\": 17}, \"value\": 3},
          {\"unit_name\": \"g\", \"start\": {\"line\": 15, \"column\": 5}, \"end\": {\"line\": 18, \"column\": 13}, \"value\": 3},
          {\"unit_name\": \"h\", \"start\": {\"line\": 21, \"column\": 9}, \"end\": {\"line\": 23, \"column\": 17}, \"value\": 3},
          {\"unit_name\": \"k\", \"start\": {\"line\": 24, \"column\": 5}, \"end\": {\"line\": 25, \"column\": 17}, \"value\": 2}
        ]
      }
    }
  }
}
"

set_option maxRecDepth 20000 in
/-- **without `HistoryOk` the statement "a scan with a cache equals a fresh scan" is false**: the
forged entry is reused (same path, same checksum), the report shows length 80 for `f`, counts one
unmaintainable function, and keeps the cached line total 10 - so `loc` is no longer the sum of the
lengths either.  The real `scan_command` does exactly the same on the same directory with the same
edit of its `codelimit.json` (values `[1, 1, 80]`, `loc` 10, `unmaintainable` 1); nothing can detect
a forged entry with a valid checksum (DESIGN.md, Appendix A, C09). -/
theorem forged_cache_taints :
    (scan exE exR (.dir [] exTree) (some exForged)).toOption.map (fun r =>
      ((Json.lookup (cp! "main.c") r.1.files).map (fun f => (f.measurements.map (·.value), f.loc)),
       (Json.lookup (cp! "C") r.1.totals).map (·.unmaintainable))) =
      some (some ([1, 1, 80], 10), some 1) ∧
    scan exE exR (.dir [] exTree) (some exForged) ≠ scan exE exR (.dir [] exTree) none := by
  have h : (scan exE exR (.dir [] exTree) (some exForged)).toOption.map (fun r =>
      ((Json.lookup (cp! "main.c") r.1.files).map (fun f => (f.measurements.map (·.value), f.loc)),
       (Json.lookup (cp! "C") r.1.totals).map (·.unmaintainable))) =
      some (some ([1, 1, 80], 10), some 1) := by
    rw [scan_eq_K]
    decide +kernel
  refine ⟨h, fun he => ?_⟩
  rw [he, ex_scan] at h
  revert h
  decide +kernel

/-! ### `check .` on the example -/

/-- `check .` completes with status 0, checks `main.c` and `src/util.py` and lists nothing (no
function of the report is longer than 30 lines) -/
example : ∃ co, check exE exR.pats (.dir [] exTree) [] [.relDir []] true = .ok co ∧
    co.files.map (fun x => joinPath x.1.comps) = [cp! "main.c", cp! "src/util.py"] ∧
    co.out.listed = [[], []] ∧ co.out.exitCode = 0 ∧ co.out.printed = false := by
  obtain ⟨co, h1, h2, h3, h4, h5, _, h7⟩ :=
    check_root_agrees_with_report exE_ok.toEnvBase exTree_ok.wf (.fresh ..) ex_scan (.relDir []) (Or.inl rfl) true
  have hnone : ∀ kv ∈ exReport.files, ∀ m ∈ kv.2.measurements, ¬ 30 < m.value := by decide +kernel
  have hr : ∀ kv ∈ exReport.files, risksJ kv.2.measurements = [] := by
    intro kv hkv
    apply List.eq_nil_iff_forall_not_mem.2
    intro m hm
    exact hnone kv hkv m (mem_risksJ.1 hm).1 (mem_risksJ.1 hm).2
  have hl : co.out.listed = [[], []] := by
    rw [h3]
    have : exReport.files.map (fun kv => (risksJ kv.2.measurements).map (·.value)) =
        exReport.files.map (fun _ => []) := by
      apply List.map_congr_left
      intro kv hkv
      rw [hr kv hkv]; rfl
    rw [this]; rfl
  refine ⟨co, h1, ?_, hl, ?_, ?_⟩
  · have := congrArg (List.map Prod.fst) h2
    simp only [List.map_map, Function.comp_def] at this
    rw [this]; rfl
  · rcases h5 with h0 | h1'
    · exact h0
    · obtain ⟨kv, hkv, m, hm, h60⟩ := h4.1 h1'
      exact absurd (by omega) (hnone kv hkv m hm)
  · rw [h7]
    exact ⟨rfl, by rw [hl]; rfl⟩

/-! ### C01 on the example: the entries of `main.c` and `src/util.py` are the tree reports -/

theorem main_qualifies : C11pat.Qualifies exR.pats (langOf exE) exTree [cp! "main.c"] [1] 0 :=
  ⟨.here (by simp [exTree]), by decide +kernel, by decide +kernel, by decide +kernel, by decide +kernel⟩

theorem util_qualifies : C11pat.Qualifies exR.pats (langOf exE) exTree [cp! "src", cp! "util.py"] [2] 5 :=
  ⟨.under (d := cp! "src") (sub := [.file (cp! "util.py") [2], .dir (cp! ".cache") [.file (cp! "x.c") [1]]])
      (by simp [exTree]) (.here (by simp)),
    by decide +kernel, by decide +kernel, by decide +kernel, by decide +kernel⟩

/-- the hypotheses of `report_entry_of_canon_tree` hold for `main.c` (language C, forest
`cppTree`), and the entry it predicts is the entry the kernel evaluation found -/
example : (cp! "main.c", entryFor exE [1] ("C", Gen.c) (TreeOps.reportOf Gen.c cppTree)) ∈ exReport.files :=
  (report_entry_of_canon_tree exE_ok.toEnvBase exTree_ok.wf (.fresh ..) ex_scan main_qualifies (x := ("C", Gen.c)) rfl
    (by simp [C01syn.cFamily]) (prog := cppTree) rfl (by decide +kernel) C01full.Ex.cppTree_canon
    cpp_wf.1 cpp_wf.2.1 cpp_wf.2.2 cpp_spaced).1

/-- the hypotheses of `report_entry_of_pytree` hold for `src/util.py` (the tree of
`Props/C01pyfull.lean`) -/
example : (cp! "src/util.py", entryFor exE [2] ("Python", Gen.python) (pyTreeReport tree.located))
    ∈ exReport.files :=
  (report_entry_of_pytree exE_ok.toEnvBase exTree_ok.wf (.fresh ..) ex_scan util_qualifies rfl
    (t := tree) (by decide +kernel) (by decide +kernel) tree_wf C01pytext.Ex.tree_spaced).1

/-! ### exclusion lines -/

/-- `Configuration.exclude = ["vendor"]`, a root `.gitignore` with `*.min.js` and `/docs`: the
list handed to pathspec parses to the built-in names followed by these three patterns -/
example : userPats [cp! "vendor"] (some [cp! "*.min.js", cp! "/docs"]) =
    some [.name (cp! "vendor"), .ext (cp! ".min.js"), .rooted [cp! "docs"]] := by decide +kernel

end Ex

end CL.Pipe
