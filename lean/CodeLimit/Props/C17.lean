import CodeLimit.Lemmas.NoclFold
import CodeLimit.Lemmas.NoclSorted
import CodeLimit.Lemmas.NoclExamples
/-!
# C17 - the `nocl` suppression marker

"A function is omitted from the results exactly when a comment that begins, after its comment
leader and case-insensitively, with the marker `nocl` sits on the line of the function's name.
Adding or removing the marker on a function that neither encloses nor is nested in another
function changes nothing else: every other function keeps its name, span and length."

Property theorems only; helper lemmas live in `CodeLimit/Lemmas/Nocl.lean` (marker text,
`_filter_nocl_scopes`) and `CodeLimit/Lemmas/NoclFold.lean` (`fold_scopes`,
`filter_scopes_nested_functions`, measurements).

Vocabulary (all from the lemma files, each unfolds to model functions only):

* `Marked all ℓ` - some comment token of `all` on line `ℓ` has a marker text
  (`marked_iff`);
* `rawScopes L code` - headers, blocks and `_build_scopes_from_headers_and_blocks` on the code
  tokens, i.e. `build_scopes` before `_filter_nocl_scopes` (`rawScopes_def`);
* `arrange L fl` - the last step of `build_scopes` (+ `unfold_scopes`): `fold_scopes` for
  languages with nested functions, `filter_scopes_nested_functions` otherwise (`arrange_def`);
* `StartSorted sc` - strictly sorted by header start; `Independent sc x` - `x` neither
  contains nor is contained in another scope of `sc`.
-/
namespace CL.C17

/-! ## T1 - what a marker is -/

/-- **Marker recognition.**  A comment text is a marker iff it is: an optional comment leader
(`#`, `;`, `//` or `/*`), then - only if there is a leader - any number of blanks
(`str.isspace` characters), then the four letters `nocl` in any mix of upper and lower case,
then anything.

The leader alternatives are mutually exclusive (a marker without leader starts with `n`/`N`),
so the priority of the Python `if`/`elif` chain needs no extra clause: a text starting with `#`
can only be decomposed with leader `#`, and so on (see `leader_unique`). -/
theorem marker_recognition (v : Str) :
    isNoclText v = true ↔
      ∃ leader ws mark rest, v = leader ++ ws ++ mark ++ rest ∧
        leader ∈ [[], [35], [59], [47, 47], [47, 42]] ∧
        (leader = [] → ws = []) ∧ ws.all isSpaceChar = true ∧
        mark.map lowerAscii = [110, 111, 99, 108] :=
  isNoclText_iff v

/-- The leader in `marker_recognition` is determined by the text, and it is the one the Python
code strips: `#`/`;` if the text starts with it, else `//` or `/*` if the text starts with it,
else none. -/
theorem leader_unique {v leader ws mark rest : Str}
    (hv : v = leader ++ ws ++ mark ++ rest)
    (hl : leader ∈ [[], [35], [59], [47, 47], [47, 42]])
    (h0 : leader = [] → ws = []) (hm : mark.map lowerAscii = [110, 111, 99, 108]) :
    leader = (if [35].isPrefixOf v || [59].isPrefixOf v then v.take 1
      else if [47, 47].isPrefixOf v || [47, 42].isPrefixOf v then v.take 2 else []) := by
  obtain ⟨m, tl, rfl, _, _, h35, h59, h47⟩ := mark_head hm
  simp only [List.mem_cons, List.not_mem_nil, or_false] at hl
  rcases hl with rfl | rfl | rfl | rfl | rfl
  · have := h0 rfl
    subst this
    subst hv
    simp [List.isPrefixOf_cons_cons, Ne.symm h35, Ne.symm h59, Ne.symm h47]
  all_goals
    subst hv
    simp [List.isPrefixOf_cons_cons]

/-! corner cases of `marker_recognition` (texts as code points) -/

/-- `"#NoCl: reason"` is a marker (any case, anything may follow) -/
example : isNoclText [35, 78, 111, 67, 108, 58, 32, 114, 101, 97, 115, 111, 110] = true := by decide
/-- `"// NOCL"` -/
example : isNoclText [47, 47, 32, 78, 79, 67, 76] = true := by decide
/-- `"/*\t nocl */"` (tab and no-break space are blanks) -/
example : isNoclText [47, 42, 9, 160, 110, 111, 99, 108, 32, 42, 47] = true := by decide
/-- `"; nocl"` -/
example : isNoclText [59, 32, 110, 111, 99, 108] = true := by decide
/-- `"nocl"` without a leader -/
example : isNoclText [110, 111, 99, 108] = true := by decide
/-- `" nocl"` without a leader is not a marker: blanks are only skipped after a leader -/
example : isNoclText [32, 110, 111, 99, 108] = false := by decide
/-- `"# //nocl"` is not a marker: leaders do not stack -/
example : isNoclText [35, 32, 47, 47, 110, 111, 99, 108] = false := by decide
/-- `"#;nocl"` is not a marker either -/
example : isNoclText [35, 59, 110, 111, 99, 108] = false := by decide
/-- `"/ nocl"`: a single slash is no leader -/
example : isNoclText [47, 32, 110, 111, 99, 108] = false := by decide
/-- `"# no cl"`, `"#"`, `""` -/
example : isNoclText [35, 32, 110, 111, 32, 99, 108] = false := by decide
example : isNoclText [35] = false := by decide
example : isNoclText [] = false := by decide
/-- the specification side of `marker_recognition` is inhabited -/
example : ∃ leader ws mark rest,
    [35, 32, 78, 111, 67, 108, 58] = leader ++ ws ++ mark ++ rest ∧
    leader ∈ [[], [35], [59], [47, 47], [47, 42]] ∧ (leader = [] → ws = []) ∧
    ws.all isSpaceChar = true ∧ mark.map lowerAscii = [110, 111, 99, 108] :=
  ⟨[35], [32], [78, 111, 67, 108], [58], by decide⟩

/-! ## T2 - exactly the marked functions are dropped -/

/-- `Marked` spelled out -/
theorem marked_iff (all : List Tok) (ℓ : Nat) :
    Marked all ℓ ↔ ∃ t ∈ all, t.isComment = true ∧ isNoclText t.val = true ∧ t.line = ℓ :=
  Iff.rfl

/-- **`_filter_nocl_scopes` drops exactly the marked scopes**: a scope survives iff no comment
token with a marker text lies on the line of the scope's name token. -/
theorem survives_iff (scopes : List Scope) (all : List Tok) (s : Scope) :
    s ∈ filterNocl scopes (noclTokens all) ↔
      s ∈ scopes ∧ ¬ ∃ t ∈ all, t.isComment = true ∧ isNoclText t.val = true ∧
        t.line = s.hdr.name.line :=
  mem_filterNocl_iff scopes all s

/-- ... and it keeps the survivors in their order (and multiplicity). -/
theorem survivors_in_order (scopes : List Scope) (all : List Tok) :
    filterNocl scopes (noclTokens all)
      = scopes.filter (fun s => decide (¬ Marked all s.hdr.name.line)) ∧
    (filterNocl scopes (noclTokens all)).Sublist scopes :=
  ⟨filterNocl_eq_filter scopes all, filterNocl_sublist scopes _⟩

/-- `rawScopes` spelled out -/
theorem rawScopes_def (L : Language) (code : List Tok) :
    rawScopes L code = (do
      let hs ← extractHeaders L code
      let bs ← extractBlocks L code hs
      buildScopes0 code hs bs) := rfl

/-- `arrange` spelled out -/
theorem arrange_def (L : Language) (fl : List Scope) :
    arrange L fl = if L.nested then withChildren fl (foldParents fl 0 [])
      else (filterNested fl none).map (fun s => (s, [])) := rfl

/-- **Markers act only through `_filter_nocl_scopes`.**  `build_scopes` computes the scopes
from the code tokens alone, drops the marked ones and arranges the survivors; in particular a
marker can neither cause nor hide an error of `build_scopes`. -/
theorem buildScopes_factor (L : Language) (all : List Tok) :
    buildScopes L all = (rawScopes L (filterTokens false all)).map
      (fun sc => arrange L (filterNocl sc (noclTokens all))) :=
  buildScopes_eq L all

/-- **Lift to the report, languages with nested functions.**  The reported scopes are, in
order, exactly the unmarked scopes. -/
theorem reported_nested {L : Language} (hn : L.nested = true) {all : List Tok}
    {r : List (Scope × List Range)} (h : buildScopes L all = .ok r) :
    ∃ sc, rawScopes L (filterTokens false all) = .ok sc ∧
      r.map (·.1) = sc.filter (fun s => decide (¬ Marked all s.hdr.name.line)) ∧
      ∀ s, s ∈ r.map (·.1) ↔ s ∈ sc ∧ ¬ Marked all s.hdr.name.line := by
  rw [buildScopes_eq] at h
  cases hr : rawScopes L (filterTokens false all) with
  | error e => rw [hr] at h; cases h
  | ok sc =>
    rw [hr] at h
    cases h
    refine ⟨sc, rfl, ?_, ?_⟩
    · rw [arrange_fst_nested hn, filterNocl_eq_filter]
    · intro s
      rw [arrange_fst_nested hn]
      exact mem_filterNocl_iff sc all s

/-- **Lift to the report, languages without nested functions (C).**  The reported scopes are
a sublist of the unmarked scopes (so a marked function is never reported); an unmarked scope is
missing only if `filter_scopes_nested_functions` dropped it, which does not happen to a scope
that no unmarked scope contains.

`_partial`: the full statement would be the last clause of `reported_nested`,
`∀ s, s ∈ r.map (·.1) ↔ s ∈ sc ∧ ¬ Marked all s.hdr.name.line`; it fails when the code tokens
contain nested function-like scopes, because `filter_scopes_nested_functions` runs AFTER
`_filter_nocl_scopes` - see `reported_flat_full_fails`. -/
theorem reported_flat_partial {L : Language} (hn : L.nested = false) {all : List Tok}
    {r : List (Scope × List Range)} (h : buildScopes L all = .ok r) :
    ∃ sc, rawScopes L (filterTokens false all) = .ok sc ∧
      (r.map (·.1)).Sublist (sc.filter (fun s => decide (¬ Marked all s.hdr.name.line))) ∧
      (∀ s ∈ r.map (·.1), s ∈ sc ∧ ¬ Marked all s.hdr.name.line) ∧
      (∀ s ∈ sc, ¬ Marked all s.hdr.name.line →
        (∀ y ∈ sc, ¬ Marked all y.hdr.name.line → y.contains s = false) → s ∈ r.map (·.1)) := by
  rw [buildScopes_eq] at h
  cases hr : rawScopes L (filterTokens false all) with
  | error e => rw [hr] at h; cases h
  | ok sc =>
    rw [hr] at h
    cases h
    refine ⟨sc, rfl, ?_, ?_, ?_⟩
    · rw [arrange_fst_flat hn, ← filterNocl_eq_filter]
      exact filterNested_sublist _ _
    · intro s hs
      rw [arrange_fst_flat hn] at hs
      exact (mem_filterNocl_iff sc all s).mp ((filterNested_sublist _ _).subset hs)
    · intro s hs hm hc
      rw [arrange_fst_flat hn]
      apply mem_filterNested_of_not_contained
      · exact (mem_filterNocl_iff sc all s).mpr ⟨hs, hm⟩
      · intro y hy
        have := (mem_filterNocl_iff sc all y).mp hy
        exact hc y this.1 this.2
      · intro l hl; cases hl

/-- The full "exactly when" clause fails for C on `f(){` / `g(){a;}` / `}`: without any marker
the inner `g` is found by `build_scopes` and unmarked, yet omitted from the report (hidden by
`filter_scopes_nested_functions`); and marking the outer `f` makes `g` appear in the report. -/
theorem reported_flat_full_fails :
    (∃ all r sc s, buildScopes Gen.c all = .ok r ∧
      rawScopes Gen.c (filterTokens false all) = .ok sc ∧
      s ∈ sc ∧ ¬ Marked all s.hdr.name.line ∧ s ∉ r.map (·.1)) ∧
    (∃ all all' r r' s, filterTokens false all' = filterTokens false all ∧
      buildScopes Gen.c all = .ok r ∧ buildScopes Gen.c all' = .ok r' ∧
      s ∉ r.map (·.1) ∧ s ∈ r'.map (·.1) ∧ ¬ Marked all' s.hdr.name.line) := by
  refine ⟨⟨C17Ex.codeN, _, _, C17Ex.sNg, C17Ex.buildN_U, by rw [C17Ex.codeN_U]; exact C17Ex.rawN,
    by decide, C17Ex.marked_N _, by decide⟩,
    ⟨C17Ex.codeN, C17Ex.codeNM, _, _, C17Ex.sNg, C17Ex.codeN_M.trans C17Ex.codeN_U.symm,
      C17Ex.buildN_U, C17Ex.buildN_M, by decide, by decide, ?_⟩⟩
  rw [marked_iff_mem_lines]
  decide

/-- `scan_file` measures the arranged survivors. -/
theorem scanFile_factor (L : Language) (all : List Tok) :
    scanFile L all = match rawScopes L (filterTokens false all) with
      | .error e => .error e
      | .ok sc => measureAll (filterTokens false all) (arrange L (filterNocl sc (noclTokens all))) := by
  unfold scanFile
  rw [buildScopes_eq]
  cases rawScopes L (filterTokens false all) <;> rfl

/-! ## T3 - toggling the marker of an independent function -/

/-- **The sortedness hypothesis of the theorems below is what `build_scopes` produces**:
if the token locations (line, column) increase strictly along the code tokens (Python sorts the
headers by the location of their first token) and no two headers start at the same token, the
scopes come out strictly sorted by header start. -/
theorem rawScopes_sorted {L : Language} {code : List Tok} {sc : List Scope}
    (hpos : code.Pairwise (fun a b => a.line < b.line ∨ (a.line = b.line ∧ a.col < b.col)))
    (hnd : ∀ hs, extractHeaders L code = .ok hs → (hs.map (·.rng.s)).Nodup)
    (h : rawScopes L code = .ok sc) :
    sc.Pairwise (fun a b => a.hdr.rng.s < b.hdr.rng.s) :=
  rawScopes_startSorted hpos hnd h

/-- **`fold_scopes` and an independent scope.**  In a scope list strictly sorted by header
start, removing a scope that neither contains nor is contained in another one leaves every
other scope with exactly the same children (`foldParents` yields parent *indices*, which shift
when a scope is removed; `withChildren` resolves them to the children's ranges). -/
theorem fold_independent {sc : List Scope} {x : Scope}
    (hs : sc.Pairwise (fun a b => a.hdr.rng.s < b.hdr.rng.s)) (hx : x ∈ sc)
    (hi : ∀ y ∈ sc, y ≠ x → x.contains y = false ∧ y.contains x = false) :
    withChildren (sc.filter (· ≠ x)) (foldParents (sc.filter (· ≠ x)) 0 [])
      = (withChildren sc (foldParents sc 0 [])).filter (fun p => p.1 ≠ x) :=
  withChildren_foldParents_remove hs hx hi

/-- **`filter_scopes_nested_functions` and an independent scope.** -/
theorem filterNested_independent {sc : List Scope} {x : Scope}
    (hs : sc.Pairwise (fun a b => a.hdr.rng.s < b.hdr.rng.s)) (hx : x ∈ sc)
    (hi : ∀ y ∈ sc, y ≠ x → x.contains y = false ∧ y.contains x = false) :
    filterNested (sc.filter (· ≠ x)) none = (filterNested sc none).filter (· ≠ x) :=
  filterNested_remove hs hx hi

/-- **Toggling the marker of an independent function, scope level.**

`all` and `all'` are two token streams with the same code tokens whose marked lines differ
exactly by the line of `x`'s name (`all'` has the marker, `all` has not); `x` is the only
scope with its name on that line and is independent among the scopes that are unmarked in
`all`.  Then the scopes reported for `all'` are those reported for `all` without `x`'s entry:
every other scope is reported at the same relative position with the same children.  Reading
the equation from right to left covers removing the marker.  (If `rawScopes` fails, both sides
are the same error by `buildScopes_factor`.) -/
theorem toggle_buildScopes {L : Language} {all all' : List Tok} {sc : List Scope} {x : Scope}
    (hcode : filterTokens false all' = filterTokens false all)
    (hraw : rawScopes L (filterTokens false all) = .ok sc)
    (hsorted : sc.Pairwise (fun a b => a.hdr.rng.s < b.hdr.rng.s))
    (hx : x ∈ sc) (hun : ¬ Marked all x.hdr.name.line)
    (hmark : ∀ ℓ, Marked all' ℓ ↔ Marked all ℓ ∨ ℓ = x.hdr.name.line)
    (huniq : ∀ y ∈ sc, y.hdr.name.line = x.hdr.name.line → y = x)
    (hind : ∀ y ∈ sc, ¬ Marked all y.hdr.name.line → y ≠ x →
      x.contains y = false ∧ y.contains x = false) :
    buildScopes L all' = (buildScopes L all).map (List.filter (fun p => p.1 ≠ x)) := by
  rw [buildScopes_eq, buildScopes_eq, hcode, hraw]
  simp only [Except.map]
  rw [filterNocl_toggle hmark huniq]
  congr 1
  apply arrange_remove L
  · exact StartSorted.sublist hsorted (filterNocl_sublist _ _)
  · exact (mem_filterNocl_iff sc all x).mpr ⟨hx, hun⟩
  · intro y hy hne
    have := (mem_filterNocl_iff sc all y).mp hy
    exact hind y this.1 this.2 hne

/-- **Toggling the marker of an independent function, measurements.**

Under the hypotheses of `toggle_buildScopes`: `x` is reported for `all` at a unique position
`k`; if `scan_file` succeeds on `all` with measurements `ms`, it succeeds on `all'` with `ms`
minus the `k`-th entry (`x`'s measurement) - all other measurements (name, span, length) are
untouched and stay in order.  Conversely, if `scan_file` succeeds on `all'` with `ms'` and
`x` itself can be measured (`m`), it succeeds on `all` with `m` inserted at position `k`. -/
theorem toggle_scanFile {L : Language} {all all' : List Tok} {sc : List Scope} {x : Scope}
    (hcode : filterTokens false all' = filterTokens false all)
    (hraw : rawScopes L (filterTokens false all) = .ok sc)
    (hsorted : sc.Pairwise (fun a b => a.hdr.rng.s < b.hdr.rng.s))
    (hx : x ∈ sc) (hun : ¬ Marked all x.hdr.name.line)
    (hmark : ∀ ℓ, Marked all' ℓ ↔ Marked all ℓ ∨ ℓ = x.hdr.name.line)
    (huniq : ∀ y ∈ sc, y.hdr.name.line = x.hdr.name.line → y = x)
    (hind : ∀ y ∈ sc, ¬ Marked all y.hdr.name.line → y ≠ x →
      x.contains y = false ∧ y.contains x = false) :
    ∃ scs k, buildScopes L all = .ok scs ∧ ∃ hk : k < scs.length, scs[k].1 = x ∧
      (∀ j (hj : j < scs.length), scs[j].1 = x → j = k) ∧
      (∀ ms, scanFile L all = .ok ms →
        (∃ hk' : k < ms.length, measure (filterTokens false all) x scs[k].2 = .ok ms[k]) ∧
        scanFile L all' = .ok (ms.eraseIdx k)) ∧
      (∀ ms' m, scanFile L all' = .ok ms' →
        measure (filterTokens false all) x scs[k].2 = .ok m →
        scanFile L all = .ok (ms'.insertIdx k m)) := by
  have htog := toggle_buildScopes hcode hraw hsorted hx hun hmark huniq hind
  have hfl_sorted : StartSorted (filterNocl sc (noclTokens all)) :=
    StartSorted.sublist hsorted (filterNocl_sublist _ _)
  have hx_fl : x ∈ filterNocl sc (noclTokens all) := (mem_filterNocl_iff sc all x).mpr ⟨hx, hun⟩
  have hind_fl : Independent (filterNocl sc (noclTokens all)) x := by
    intro y hy hne
    have := (mem_filterNocl_iff sc all y).mp hy
    exact hind y this.1 this.2 hne
  have hb : buildScopes L all = .ok (arrange L (filterNocl sc (noclTokens all))) := by
    rw [buildScopes_eq, hraw]; rfl
  generalize hscs : arrange L (filterNocl sc (noclTokens all)) = scs at hb
  have hfst_nodup : (scs.map (·.1)).Nodup := by
    rw [← hscs]
    cases hn : L.nested with
    | true => rw [arrange_fst_nested hn]; exact hfl_sorted.nodup
    | false =>
      rw [arrange_fst_flat hn]
      exact (hfl_sorted.sublist (filterNested_sublist _ _)).nodup
  have hfst_mem : x ∈ scs.map (·.1) := by
    rw [← hscs]
    cases hn : L.nested with
    | true => rw [arrange_fst_nested hn]; exact hx_fl
    | false =>
      rw [arrange_fst_flat hn]
      exact mem_filterNested_of_independent hfl_sorted hx_fl hind_fl
  have hk : (scs.map (·.1)).idxOf x < scs.length := by
    simpa using List.idxOf_lt_length_of_mem hfst_mem
  have hkx : scs[(scs.map (·.1)).idxOf x].1 = x := by
    have := List.getElem_idxOf (xs := scs.map (·.1)) (x := x) (by simpa using hk)
    rw [List.getElem_map] at this
    exact this
  have hb' : buildScopes L all' = .ok (scs.eraseIdx ((scs.map (·.1)).idxOf x)) := by
    rw [htog, hb, ← filter_fst_ne_eq_eraseIdx x scs hfst_nodup]; rfl
  refine ⟨scs, (scs.map (·.1)).idxOf x, hb, hk, hkx, ?_, ?_, ?_⟩
  · intro j hj hjx
    have h1 : (scs.map (·.1))[j]'(by simpa using hj) = x := by simpa using hjx
    have h2 : (scs.map (·.1))[(scs.map (·.1)).idxOf x]'(by simpa using hk) = x := by
      rw [List.getElem_map]; exact hkx
    exact (List.getElem_inj hfst_nodup).mp (h1.trans h2.symm)
  · intro ms hms
    unfold scanFile at hms ⊢
    rw [hb] at hms
    rw [hb', hcode]
    simp only at hms ⊢
    have hlen := measureAll_length _ _ _ hms
    refine ⟨⟨by omega, ?_⟩, measureAll_eraseIdx _ _ _ _ hms⟩
    have := measureAll_getElem _ _ _ hms _ hk (by omega)
    rw [hkx] at this
    exact this
  · intro ms' m hms' hm
    unfold scanFile at hms' ⊢
    rw [hb', hcode] at hms'
    rw [hb]
    simp only at hms' ⊢
    apply measureAll_insertIdx _ _ _ _ hk _ hms'
    rw [hkx]
    exact hm

/-! ## non-vacuity and necessity of the hypotheses

Concrete data from `CodeLimit/Lemmas/NoclExamples.lean`. -/
section Examples
open C17Ex

/-- five scopes `o ⊃ i`, `x`, `o2 ⊃ i2`: the hypotheses of `fold_independent` /
`filterNested_independent` hold for the middle scope `x` -/
example : ex5.Pairwise (fun a b => a.hdr.rng.s < b.hdr.rng.s) ∧ x ∈ ex5 ∧
    ∀ y ∈ ex5, y ≠ x → x.contains y = false ∧ y.contains x = false := by decide

/-- ... and there the parent indices do shift while the children stay the same -/
example :
    foldParents ex5 0 [] = [none, some 0, none, none, some 3] ∧
    foldParents (ex5.filter (· ≠ x)) 0 [] = [none, some 0, none, some 2] ∧
    withChildren ex5 (foldParents ex5 0 [])
      = [(o, [⟨5, 12⟩]), (i, []), (x, []), (o2, [⟨32, 40⟩]), (i2, [])] ∧
    withChildren (ex5.filter (· ≠ x)) (foldParents (ex5.filter (· ≠ x)) 0 [])
      = [(o, [⟨5, 12⟩]), (i, []), (o2, [⟨32, 40⟩]), (i2, [])] ∧
    filterNested ex5 none = [o, x, o2] ∧
    filterNested (ex5.filter (· ≠ x)) none = [o, o2] := by decide

/-- The independence hypothesis is needed (1): `o` encloses `i`, so it is not independent;
removing the ENCLOSING `o` changes the inner function's parent (from `o` to none), and in a
language without nested functions the hidden inner function becomes visible. -/
example :
    ¬ (∀ y ∈ [o, i], y ≠ o → o.contains y = false ∧ y.contains o = false) ∧
    foldParents [o, i] 0 [] = [none, some 0] ∧
    foldParents ([o, i].filter (· ≠ o)) 0 [] = [none] ∧
    filterNested ([o, i].filter (· ≠ o)) none ≠ (filterNested [o, i] none).filter (· ≠ o) := by
  decide

/-- The independence hypothesis is needed (2): removing the NESTED `i` changes the children of
the enclosing `o` (whose length then includes the lines of `i`). -/
example :
    ¬ (∀ y ∈ [o, i], y ≠ i → i.contains y = false ∧ y.contains i = false) ∧
    withChildren ([o, i].filter (· ≠ i)) (foldParents ([o, i].filter (· ≠ i)) 0 [])
      ≠ (withChildren [o, i] (foldParents [o, i] 0 [])).filter (fun p => p.1 ≠ i) := by decide

/-- The independence hypothesis is needed (3): in `a ⊃ m ⊃ b`, removing the middle function
hands its child over to the outer one. -/
example :
    withChildren ([a3, m3, b3].filter (· ≠ m3)) (foldParents ([a3, m3, b3].filter (· ≠ m3)) 0 [])
      = [(a3, [⟨10, 20⟩]), (b3, [])] ∧
    (withChildren [a3, m3, b3] (foldParents [a3, m3, b3] 0 [])).filter (fun p => p.1 ≠ m3)
      = [(a3, [⟨5, 25⟩]), (b3, [])] := by decide

/-- the hypotheses of `rawScopes_sorted` hold for the three-function C++ text below -/
example :
    code3.Pairwise (fun a b => a.line < b.line ∨ (a.line = b.line ∧ a.col < b.col)) ∧
    (∀ hs, extractHeaders Gen.cpp code3 = .ok hs → (hs.map (·.rng.s)).Nodup) ∧
    rawScopes Gen.cpp code3 = .ok [sF, sG, sH] := by
  refine ⟨by decide, ?_, raw3⟩
  intro hs h
  rw [headers3] at h
  cases h
  decide

/-- End to end, C++ (`f(){a;}` / `g(){b;} // x` / `h(){c;}` versus the same text with the
comment `// NoCl`): all hypotheses of `toggle_buildScopes` / `toggle_scanFile` hold for the
middle function `g` ... -/
example :
    filterTokens false allM = filterTokens false allU ∧
    rawScopes Gen.cpp (filterTokens false allU) = .ok [sF, sG, sH] ∧
    [sF, sG, sH].Pairwise (fun a b => a.hdr.rng.s < b.hdr.rng.s) ∧
    sG ∈ [sF, sG, sH] ∧ ¬ Marked allU sG.hdr.name.line ∧
    (∀ ℓ, Marked allM ℓ ↔ Marked allU ℓ ∨ ℓ = sG.hdr.name.line) ∧
    (∀ y ∈ [sF, sG, sH], y.hdr.name.line = sG.hdr.name.line → y = sG) ∧
    (∀ y ∈ [sF, sG, sH], ¬ Marked allU y.hdr.name.line → y ≠ sG →
      sG.contains y = false ∧ y.contains sG = false) ∧
    scanFile Gen.cpp allU = .ok [mF, mG, mH] := by
  refine ⟨code_M.trans code_U.symm, by rw [code_U]; exact raw3, by decide, by decide,
    marked_U _, ?_, by decide, ?_, scanU⟩
  · intro ℓ
    rw [marked_M]
    simp [marked_U]
    rfl
  · have : ∀ y ∈ [sF, sG, sH], y ≠ sG → sG.contains y = false ∧ y.contains sG = false := by
      decide
    exact fun y hy _ hne => this y hy hne

/-- ... and the theorem then yields the report for the marked text: `g` is gone, `f` and `h`
are reported exactly as before. -/
example : scanFile Gen.cpp allM = .ok [mF, mH] := by
  obtain ⟨scs, k, hb, hk, hkx, huq, h1, _⟩ :=
    toggle_scanFile (L := Gen.cpp) (all := allU) (all' := allM) (sc := [sF, sG, sH]) (x := sG)
      (code_M.trans code_U.symm) (by rw [code_U]; exact raw3) (by decide) (by decide)
      (marked_U _)
      (by intro ℓ; rw [marked_M]; simp [marked_U]; rfl)
      (by decide)
      (by
        have : ∀ y ∈ [sF, sG, sH], y ≠ sG → sG.contains y = false ∧ y.contains sG = false := by
          decide
        exact fun y hy _ hne => this y hy hne)
  have hscs : scs = [(sF, []), (sG, []), (sH, [])] := by
    have hf : filterNocl [sF, sG, sH] (noclTokens allU) = [sF, sG, sH] := by decide
    rw [buildScopes_eq, code_U, raw3] at hb
    simp only [Except.map, hf, arrange3] at hb
    exact (Except.ok.inj hb).symm
  subst hscs
  have hk1 : 1 = k := huq 1 (by decide) rfl
  subst hk1
  exact (h1 _ scanU).2

end Examples

end CL.C17
