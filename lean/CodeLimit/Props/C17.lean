import CodeLimit.Lemmas.NoclFold
import CodeLimit.Lemmas.NoclSorted
import CodeLimit.Lemmas.NoclExamples
import CodeLimit.Lemmas.NoclSpans
import CodeLimit.Props.C03
import CodeLimit.Props.C05
import CodeLimit.Props.C05text
/-!
# C17 - the `nocl` suppression marker

"A function is omitted from the results exactly when a comment that begins, after its comment
leader and case-insensitively, with the marker `nocl` sits on the line of the function's name.
Adding or removing the marker on a function that neither encloses nor is nested in another
function changes nothing else: every other function keeps its name, span and length."

Property theorems only; helper lemmas live in `CodeLimit/Lemmas/Nocl.lean` (marker text,
`_filter_nocl_scopes`), `CodeLimit/Lemmas/NoclFold.lean` (`fold_scopes`,
`filter_scopes_nested_functions`, measurements), `CodeLimit/Lemmas/NoclSorted.lean` (order of
the scopes) and `CodeLimit/Lemmas/NoclSpans.lean` (index containment versus reported spans).

## How to read this file

Every theorem is tagged in its doc comment:

* **OBSERVABLE** - a statement about what `scanFile` / `buildScopes` return (or, for
  `marker_recognition`, about which comment texts count): `marker_recognition`, `leader_unique`,
  `reported_nested`, `reported_nested_total`, `reported_flat_partial`,
  `reported_flat_full_fails`, `toggle_buildScopes_partial`, `toggle_scanFile_partial`,
  `toggle_buildScopes_gen_partial`, `toggle_scanFile_gen_partial`,
  `toggle_scanFile_spans_partial`, `toggle_scanFile_spans_text_partial`, `huniq_needed`,
  `huniq_needed_explicit`, `spans_flat_fails`. Their hypotheses still name the scopes
  `rawScopes L code` that the algorithm pairs (header + block), because the marker is compared
  with the line of the NAME token, which a measurement does not show; the source-level
  versions (functions of a program text) are `C01marks.reported_functions` /
  `C01marks.toggle_marker`.
* **INTERNAL LEMMA** - about the stages of the model (`filterNocl`, `rawScopes`, `arrange`,
  `foldParents`, `withChildren`, `filterNested`), used to prove the observable statements;
  not observable output: `survives_iff`, `survivors_in_order`, `buildScopes_factor`,
  `scanFile_factor`, `rawScopes_sorted`, `rawScopes_sorted_gen`, `fold_independent`,
  `filterNested_independent`; and one LEXER FACT, `lexed_code_tokens_no_overlap`.
* **READING AID** - `Iff.rfl` / `rfl`, a definition spelled out: `marked_iff`,
  `rawScopes_def`, `arrange_def`.

## Vocabulary

Specification vocabulary (`CodeLimit/Spec/Nocl.lean`):

* `Marked all ℓ` - some comment token of `all` on line `ℓ` has a marker text (`marked_iff`);
* `PosSorted toks` - token locations increase strictly along the list;
* `StartSorted sc` - strictly sorted by header start; `Independent sc x` - `x` neither
  contains nor is contained in another scope of `sc`;
* `Measurement.encloses`, `SpanIndependent ms k` - the same on the reported spans.

Decompositions of the model (`CodeLimit/Lemmas/Nocl.lean`, each unfolds to model functions):

* `rawScopes L code` - headers, blocks and `_build_scopes_from_headers_and_blocks` on the code
  tokens, i.e. `build_scopes` before `_filter_nocl_scopes` (`rawScopes_def`);
* `arrange L fl` - the last step of `build_scopes` (+ `unfold_scopes`): `fold_scopes` for
  languages with nested functions, `filter_scopes_nested_functions` otherwise (`arrange_def`).

## What is NOT proved, and why (witnesses below)

* first sentence, languages without nested functions (C): only `reported_flat_partial`
  (`reported_flat_full_fails`);
* second sentence when ANOTHER function has its name on the marked line: false
  (`huniq_needed`: C++ `f(){a;} g(){b;} // nocl` on one line reports nothing, marking `f`
  also removes `g`); hence the hypothesis `huniq` and the suffix `_partial` of the toggle
  theorems;
* second sentence with independence read on the REPORTED spans, languages without nested
  functions: false (`spans_flat_fails`), hence `hn : L.nested = true` in
  `toggle_scanFile_spans_partial`.
-/
namespace CL.C17

/-! ## T1 - what a marker is (OBSERVABLE: which comment texts count) -/

/-- **Marker recognition** (OBSERVABLE).  A comment text is a marker iff it is: an optional
comment leader (`#`, `;`, `//` or `/*`), then - only if there is a leader - any number of blanks
(`str.isspace` characters), then the four letters `nocl` in any mix of upper and lower case,
then anything.

The leader alternatives are mutually exclusive (a marker without leader starts with `n`/`N`),
so the priority of the Python `if`/`elif` chain needs no extra clause: a text starting with `#`
can only be decomposed with leader `#`, and so on (see `leader_unique`). -/
theorem marker_recognition (v : Str) :
    isNoclText v = true ↔
      ∃ leader ws mark rest, v = leader ++ ws ++ mark ++ rest ∧
        leader ∈ [[], [35], [59], [47, 47], [47, 42]] ∧
        (leader = [] → ws = []) ∧ ws.all isSpaceChar = true ∧
        mark.map lowerAscii = [110, 111, 99, 108] :=
  isNoclText_iff v

/-- (OBSERVABLE) The leader in `marker_recognition` is determined by the text, and it is the one
the Python code strips: `#`/`;` if the text starts with it, else `//` or `/*` if the text starts
with it, else none. -/
theorem leader_unique {v leader ws mark rest : Str}
    (hv : v = leader ++ ws ++ mark ++ rest)
    (hl : leader ∈ [[], [35], [59], [47, 47], [47, 42]])
    (h0 : leader = [] → ws = []) (hm : mark.map lowerAscii = [110, 111, 99, 108]) :
    leader = (if [35].isPrefixOf v || [59].isPrefixOf v then v.take 1
      else if [47, 47].isPrefixOf v || [47, 42].isPrefixOf v then v.take 2 else []) := by
  obtain ⟨m, tl, rfl, _, _, h35, h59, h47⟩ := mark_head hm
  simp only [List.mem_cons, List.not_mem_nil, or_false] at hl
  rcases hl with rfl | rfl | rfl | rfl | rfl
  · have := h0 rfl
    subst this
    subst hv
    simp [List.isPrefixOf_cons_cons, Ne.symm h35, Ne.symm h59, Ne.symm h47]
  all_goals
    subst hv
    simp [List.isPrefixOf_cons_cons]

/-! corner cases of `marker_recognition` (texts as code points) -/

/-- `"#NoCl: reason"` is a marker (any case, anything may follow) -/
example : isNoclText [35, 78, 111, 67, 108, 58, 32, 114, 101, 97, 115, 111, 110] = true := by decide
/-- `"// NOCL"` -/
example : isNoclText [47, 47, 32, 78, 79, 67, 76] = true := by decide
/-- `"/*\t nocl */"` (tab and no-break space are blanks) -/
example : isNoclText [47, 42, 9, 160, 110, 111, 99, 108, 32, 42, 47] = true := by decide
/-- `"; nocl"` -/
example : isNoclText [59, 32, 110, 111, 99, 108] = true := by decide
/-- `"nocl"` without a leader -/
example : isNoclText [110, 111, 99, 108] = true := by decide
/-- `" nocl"` without a leader is not a marker: blanks are only skipped after a leader -/
example : isNoclText [32, 110, 111, 99, 108] = false := by decide
/-- `"# //nocl"` is not a marker: leaders do not stack -/
example : isNoclText [35, 32, 47, 47, 110, 111, 99, 108] = false := by decide
/-- `"#;nocl"` is not a marker either -/
example : isNoclText [35, 59, 110, 111, 99, 108] = false := by decide
/-- `"/ nocl"`: a single slash is no leader -/
example : isNoclText [47, 32, 110, 111, 99, 108] = false := by decide
/-- `"# no cl"`, `"#"`, `""` -/
example : isNoclText [35, 32, 110, 111, 32, 99, 108] = false := by decide
example : isNoclText [35] = false := by decide
example : isNoclText [] = false := by decide
/-- the specification side of `marker_recognition` is inhabited -/
example : ∃ leader ws mark rest,
    [35, 32, 78, 111, 67, 108, 58] = leader ++ ws ++ mark ++ rest ∧
    leader ∈ [[], [35], [59], [47, 47], [47, 42]] ∧ (leader = [] → ws = []) ∧
    ws.all isSpaceChar = true ∧ mark.map lowerAscii = [110, 111, 99, 108] :=
  ⟨[35], [32], [78, 111, 67, 108], [58], by decide⟩

/-! ## T2 - exactly the marked functions are dropped

### T2a - reading aids and lemmas about the internals -/

/-- (READING AID, `Iff.rfl`) `Marked` spelled out -/
theorem marked_iff (all : List Tok) (ℓ : Nat) :
    Marked all ℓ ↔ ∃ t ∈ all, t.isComment = true ∧ isNoclText t.val = true ∧ t.line = ℓ :=
  Iff.rfl

/-- (INTERNAL LEMMA, about the model function `filterNocl`)
**`_filter_nocl_scopes` drops exactly the marked scopes**: a scope survives iff no comment
token with a marker text lies on the line of the scope's name token. -/
theorem survives_iff (scopes : List Scope) (all : List Tok) (s : Scope) :
    s ∈ filterNocl scopes (noclTokens all) ↔
      s ∈ scopes ∧ ¬ ∃ t ∈ all, t.isComment = true ∧ isNoclText t.val = true ∧
        t.line = s.hdr.name.line :=
  mem_filterNocl_iff scopes all s

/-- (INTERNAL LEMMA) ... and it keeps the survivors in their order (and multiplicity). -/
theorem survivors_in_order (scopes : List Scope) (all : List Tok) :
    filterNocl scopes (noclTokens all)
      = scopes.filter (fun s => decide (¬ Marked all s.hdr.name.line)) ∧
    (filterNocl scopes (noclTokens all)).Sublist scopes :=
  ⟨filterNocl_eq_filter scopes all, filterNocl_sublist scopes _⟩

/-- (READING AID, `rfl`) `rawScopes` spelled out -/
theorem rawScopes_def (L : Language) (code : List Tok) :
    rawScopes L code = (do
      let hs ← extractHeaders L code
      let bs ← extractBlocks L code hs
      buildScopes0 code hs bs) := rfl

/-- (READING AID, `rfl`) `arrange` spelled out -/
theorem arrange_def (L : Language) (fl : List Scope) :
    arrange L fl = if L.nested then withChildren fl (foldParents fl 0 [])
      else (filterNested fl none).map (fun s => (s, [])) := rfl

/-- (INTERNAL LEMMA: the right-hand side is a composition of model stages)
**Markers act only through `_filter_nocl_scopes`.**  `build_scopes` computes the scopes
from the code tokens alone, drops the marked ones and arranges the survivors; in particular a
marker can neither cause nor hide an error of `build_scopes`. -/
theorem buildScopes_factor (L : Language) (all : List Tok) :
    buildScopes L all = (rawScopes L (filterTokens false all)).map
      (fun sc => arrange L (filterNocl sc (noclTokens all))) :=
  buildScopes_eq L all

/-- (INTERNAL LEMMA) `scan_file` measures the arranged survivors. -/
theorem scanFile_factor (L : Language) (all : List Tok) :
    scanFile L all = match rawScopes L (filterTokens false all) with
      | .error e => .error e
      | .ok sc => measureAll (filterTokens false all) (arrange L (filterNocl sc (noclTokens all))) := by
  unfold scanFile
  rw [buildScopes_eq]
  cases rawScopes L (filterTokens false all) <;> rfl

/-! ### T2b - OBSERVABLE: what `buildScopes` reports -/

/-- (OBSERVABLE, scope level) **Lift to the report, languages with nested functions.**
IF `build_scopes` succeeds, the scopes it reports are, in order, exactly the unmarked elements
of `rawScopes L code`.

Read precisely: a "function" here is an element of `rawScopes L code`, i.e. a (header, block)
pair that the algorithm formed from the code tokens - NOT a function of the source text (that
reading is `C01marks.reported_functions` / `C01marks.toggle_marker`, for rendered program
trees).  The statement is conditional: when `buildScopes L all` is an `.error` nothing is
claimed (that this does not happen for the shipped languages is C03, `C03.buildScopes_total`;
combined below in `reported_nested_total`). -/
theorem reported_nested {L : Language} (hn : L.nested = true) {all : List Tok}
    {r : List (Scope × List Range)} (h : buildScopes L all = .ok r) :
    ∃ sc, rawScopes L (filterTokens false all) = .ok sc ∧
      r.map (·.1) = sc.filter (fun s => decide (¬ Marked all s.hdr.name.line)) ∧
      ∀ s, s ∈ r.map (·.1) ↔ s ∈ sc ∧ ¬ Marked all s.hdr.name.line := by
  rw [buildScopes_eq] at h
  cases hr : rawScopes L (filterTokens false all) with
  | error e => rw [hr] at h; cases h
  | ok sc =>
    rw [hr] at h
    cases h
    refine ⟨sc, rfl, ?_, ?_⟩
    · rw [arrange_fst_nested hn, filterNocl_eq_filter]
    · intro s
      rw [arrange_fst_nested hn]
      exact mem_filterNocl_iff sc all s

/-- (OBSERVABLE, scope level) `reported_nested` without the success hypothesis, for the six
shipped languages with nested functions (all but C): `build_scopes` does succeed
(`C03.buildScopes_total`), and what it reports are, in order, exactly the unmarked elements of
`rawScopes L code`. -/
theorem reported_nested_total {L : Language} (hL : L ∈ Gen.all.map (·.2))
    (hn : L.nested = true) (all : List Tok) :
    ∃ r sc, buildScopes L all = .ok r ∧ rawScopes L (filterTokens false all) = .ok sc ∧
      r.map (·.1) = sc.filter (fun s => decide (¬ Marked all s.hdr.name.line)) ∧
      ∀ s, s ∈ r.map (·.1) ↔ s ∈ sc ∧ ¬ Marked all s.hdr.name.line := by
  obtain ⟨r, hr, _⟩ := C03.buildScopes_total L hL all
  obtain ⟨sc, h1, h2, h3⟩ := reported_nested hn hr
  exact ⟨r, sc, hr, h1, h2, h3⟩

/-- (OBSERVABLE, scope level) **Lift to the report, languages without nested functions (C).**
IF `build_scopes` succeeds, the reported scopes are a sublist of the unmarked elements of
`rawScopes L code` (so a marked one is never reported); an unmarked scope is missing only if
`filter_scopes_nested_functions` dropped it, which does not happen to a scope that no
unmarked scope contains.

`_partial`: the full statement would be the last clause of `reported_nested`,
`∀ s, s ∈ r.map (·.1) ↔ s ∈ sc ∧ ¬ Marked all s.hdr.name.line`; it fails when the code tokens
contain nested function-like scopes, because `filter_scopes_nested_functions` runs AFTER
`_filter_nocl_scopes` - see `reported_flat_full_fails`. -/
theorem reported_flat_partial {L : Language} (hn : L.nested = false) {all : List Tok}
    {r : List (Scope × List Range)} (h : buildScopes L all = .ok r) :
    ∃ sc, rawScopes L (filterTokens false all) = .ok sc ∧
      (r.map (·.1)).Sublist (sc.filter (fun s => decide (¬ Marked all s.hdr.name.line))) ∧
      (∀ s ∈ r.map (·.1), s ∈ sc ∧ ¬ Marked all s.hdr.name.line) ∧
      (∀ s ∈ sc, ¬ Marked all s.hdr.name.line →
        (∀ y ∈ sc, ¬ Marked all y.hdr.name.line → y.contains s = false) → s ∈ r.map (·.1)) := by
  rw [buildScopes_eq] at h
  cases hr : rawScopes L (filterTokens false all) with
  | error e => rw [hr] at h; cases h
  | ok sc =>
    rw [hr] at h
    cases h
    refine ⟨sc, rfl, ?_, ?_, ?_⟩
    · rw [arrange_fst_flat hn, ← filterNocl_eq_filter]
      exact filterNested_sublist _ _
    · intro s hs
      rw [arrange_fst_flat hn] at hs
      exact (mem_filterNocl_iff sc all s).mp ((filterNested_sublist _ _).subset hs)
    · intro s hs hm hc
      rw [arrange_fst_flat hn]
      apply mem_filterNested_of_not_contained
      · exact (mem_filterNocl_iff sc all s).mpr ⟨hs, hm⟩
      · intro y hy
        have := (mem_filterNocl_iff sc all y).mp hy
        exact hc y this.1 this.2
      · intro l hl; cases hl

/-- (OBSERVABLE, witness) The full "exactly when" clause fails for C on `f(){` / `g(){a;}` /
`}`: without any marker the inner `g` is found by `build_scopes` and unmarked, yet omitted from
the report (hidden by `filter_scopes_nested_functions`); and marking the outer `f` makes `g`
appear in the report. -/
theorem reported_flat_full_fails :
    (∃ all r sc s, buildScopes Gen.c all = .ok r ∧
      rawScopes Gen.c (filterTokens false all) = .ok sc ∧
      s ∈ sc ∧ ¬ Marked all s.hdr.name.line ∧ s ∉ r.map (·.1)) ∧
    (∃ all all' r r' s, filterTokens false all' = filterTokens false all ∧
      buildScopes Gen.c all = .ok r ∧ buildScopes Gen.c all' = .ok r' ∧
      s ∉ r.map (·.1) ∧ s ∈ r'.map (·.1) ∧ ¬ Marked all' s.hdr.name.line) := by
  refine ⟨⟨C17Ex.codeN, _, _, C17Ex.sNg, C17Ex.buildN_U, by rw [C17Ex.codeN_U]; exact C17Ex.rawN,
    by decide, C17Ex.marked_N _, by decide⟩,
    ⟨C17Ex.codeN, C17Ex.codeNM, _, _, C17Ex.sNg, C17Ex.codeN_M.trans C17Ex.codeN_U.symm,
      C17Ex.buildN_U, C17Ex.buildN_M, by decide, by decide, ?_⟩⟩
  rw [marked_iff_mem_lines]
  decide

/-! ## T3 - toggling the marker of an independent function

### T3a - lemmas about the internals -/

/-- (INTERNAL LEMMA) **The sortedness hypothesis of the theorems below is what `build_scopes`
produces**: if the token locations (line, column) increase strictly along the code tokens
(Python sorts the headers by the location of their first token) and no two headers start at
the same token, the scopes come out strictly sorted by header start.  The hypothesis `hnd` is
itself about an intermediate result; `rawScopes_sorted_gen` discharges it for the shipped
languages. -/
theorem rawScopes_sorted {L : Language} {code : List Tok} {sc : List Scope}
    (hpos : code.Pairwise (fun a b => a.line < b.line ∨ (a.line = b.line ∧ a.col < b.col)))
    (hnd : ∀ hs, extractHeaders L code = .ok hs → (hs.map (·.rng.s)).Nodup)
    (h : rawScopes L code = .ok sc) :
    sc.Pairwise (fun a b => a.hdr.rng.s < b.hdr.rng.s) :=
  rawScopes_startSorted hpos hnd h

/-- (INTERNAL LEMMA) **For the seven shipped languages the scopes are strictly sorted by header
start**, for every code token list whose locations increase strictly (a fact about the lexer
output: C16 `kept_strictly_increasing`, `C05text.code_tokens_ordered`).  The distinct header
starts come from `C05.headers_distinct_starts` (no further hypothesis). -/
theorem rawScopes_sorted_gen {L : Language} (hL : L ∈ Gen.all.map (·.2)) {code : List Tok}
    {sc : List Scope}
    (hpos : code.Pairwise (fun a b => a.line < b.line ∨ (a.line = b.line ∧ a.col < b.col)))
    (h : rawScopes L code = .ok sc) :
    sc.Pairwise (fun a b => a.hdr.rng.s < b.hdr.rng.s) :=
  rawScopes_sorted hpos (fun hs hhs => C05.headers_distinct_starts L hL code hs hhs) h

/-- (INTERNAL LEMMA) **`fold_scopes` and an independent scope.**  In a scope list strictly
sorted by header start, removing a scope that neither contains nor is contained in another one
leaves every other scope with exactly the same children (`foldParents` yields parent *indices*,
which shift when a scope is removed; `withChildren` resolves them to the children's ranges). -/
theorem fold_independent {sc : List Scope} {x : Scope}
    (hs : sc.Pairwise (fun a b => a.hdr.rng.s < b.hdr.rng.s)) (hx : x ∈ sc)
    (hi : ∀ y ∈ sc, y ≠ x → x.contains y = false ∧ y.contains x = false) :
    withChildren (sc.filter (· ≠ x)) (foldParents (sc.filter (· ≠ x)) 0 [])
      = (withChildren sc (foldParents sc 0 [])).filter (fun p => p.1 ≠ x) :=
  withChildren_foldParents_remove hs hx hi

/-- (INTERNAL LEMMA) **`filter_scopes_nested_functions` and an independent scope.** -/
theorem filterNested_independent {sc : List Scope} {x : Scope}
    (hs : sc.Pairwise (fun a b => a.hdr.rng.s < b.hdr.rng.s)) (hx : x ∈ sc)
    (hi : ∀ y ∈ sc, y ≠ x → x.contains y = false ∧ y.contains x = false) :
    filterNested (sc.filter (· ≠ x)) none = (filterNested sc none).filter (· ≠ x) :=
  filterNested_remove hs hx hi

/-! ### T3b - OBSERVABLE: the toggle theorems

All of them are `_partial`: the hypothesis

  `huniq : ∀ y ∈ sc, y.hdr.name.line = x.hdr.name.line → y = x`

(`x` is the ONLY scope whose name sits on the marked line) restricts the property's second
sentence, and it cannot be dropped: `huniq_needed`. -/

/-- (OBSERVABLE, scope level; formerly `toggle_buildScopes`)
**Toggling the marker of an independent function.**

`all` and `all'` are two token streams with the same code tokens whose marked lines differ
exactly by the line of `x`'s name (`all'` has the marker, `all` has not); `x` is the only
scope with its name on that line and is independent among the scopes that are unmarked in
`all`.  Then the scopes reported for `all'` are those reported for `all` without `x`'s entry:
every other scope is reported at the same relative position with the same children.  Reading
the equation from right to left covers removing the marker.  (If `rawScopes` fails, both sides
are the same error by `buildScopes_factor`.)

`_partial` because of `huniq` (see `huniq_needed`).  The other hypotheses that speak of
internals: `hsorted` is discharged for the shipped languages in
`toggle_buildScopes_gen_partial`; `hind` (on `Scope.contains`) is replaced by a hypothesis on
the reported spans in `toggle_scanFile_spans_partial`. -/
theorem toggle_buildScopes_partial {L : Language} {all all' : List Tok} {sc : List Scope}
    {x : Scope}
    (hcode : filterTokens false all' = filterTokens false all)
    (hraw : rawScopes L (filterTokens false all) = .ok sc)
    (hsorted : sc.Pairwise (fun a b => a.hdr.rng.s < b.hdr.rng.s))
    (hx : x ∈ sc) (hun : ¬ Marked all x.hdr.name.line)
    (hmark : ∀ ℓ, Marked all' ℓ ↔ Marked all ℓ ∨ ℓ = x.hdr.name.line)
    (huniq : ∀ y ∈ sc, y.hdr.name.line = x.hdr.name.line → y = x)
    (hind : ∀ y ∈ sc, ¬ Marked all y.hdr.name.line → y ≠ x →
      x.contains y = false ∧ y.contains x = false) :
    buildScopes L all' = (buildScopes L all).map (List.filter (fun p => p.1 ≠ x)) := by
  rw [buildScopes_eq, buildScopes_eq, hcode, hraw]
  simp only [Except.map]
  rw [filterNocl_toggle hmark huniq]
  congr 1
  apply arrange_remove L
  · exact StartSorted.sublist hsorted (filterNocl_sublist _ _)
  · exact (mem_filterNocl_iff sc all x).mpr ⟨hx, hun⟩
  · intro y hy hne
    have := (mem_filterNocl_iff sc all y).mp hy
    exact hind y this.1 this.2 hne

/-- (OBSERVABLE, measurements; formerly `toggle_scanFile`)
**Toggling the marker of an independent function.**

Under the hypotheses of `toggle_buildScopes_partial`: `x` is reported for `all` at a unique
position `k`; if `scan_file` succeeds on `all` with measurements `ms`, it succeeds on `all'`
with `ms` minus the `k`-th entry (`x`'s measurement) - all other measurements (name, span,
length) are untouched and stay in order.  Conversely, if `scan_file` succeeds on `all'` with
`ms'` and `x` itself can be measured (`m`), it succeeds on `all` with `m` inserted at
position `k`.  (For the shipped languages `scan_file` always succeeds and the two directions
collapse into one equation: `toggle_scanFile_gen_partial`.)

`_partial` because of `huniq` (see `huniq_needed`). -/
theorem toggle_scanFile_partial {L : Language} {all all' : List Tok} {sc : List Scope}
    {x : Scope}
    (hcode : filterTokens false all' = filterTokens false all)
    (hraw : rawScopes L (filterTokens false all) = .ok sc)
    (hsorted : sc.Pairwise (fun a b => a.hdr.rng.s < b.hdr.rng.s))
    (hx : x ∈ sc) (hun : ¬ Marked all x.hdr.name.line)
    (hmark : ∀ ℓ, Marked all' ℓ ↔ Marked all ℓ ∨ ℓ = x.hdr.name.line)
    (huniq : ∀ y ∈ sc, y.hdr.name.line = x.hdr.name.line → y = x)
    (hind : ∀ y ∈ sc, ¬ Marked all y.hdr.name.line → y ≠ x →
      x.contains y = false ∧ y.contains x = false) :
    ∃ scs k, buildScopes L all = .ok scs ∧ ∃ hk : k < scs.length, scs[k].1 = x ∧
      (∀ j (hj : j < scs.length), scs[j].1 = x → j = k) ∧
      (∀ ms, scanFile L all = .ok ms →
        (∃ hk' : k < ms.length, measure (filterTokens false all) x scs[k].2 = .ok ms[k]) ∧
        scanFile L all' = .ok (ms.eraseIdx k)) ∧
      (∀ ms' m, scanFile L all' = .ok ms' →
        measure (filterTokens false all) x scs[k].2 = .ok m →
        scanFile L all = .ok (ms'.insertIdx k m)) := by
  have htog := toggle_buildScopes_partial hcode hraw hsorted hx hun hmark huniq hind
  have hfl_sorted : StartSorted (filterNocl sc (noclTokens all)) :=
    StartSorted.sublist hsorted (filterNocl_sublist _ _)
  have hx_fl : x ∈ filterNocl sc (noclTokens all) := (mem_filterNocl_iff sc all x).mpr ⟨hx, hun⟩
  have hind_fl : Independent (filterNocl sc (noclTokens all)) x := by
    intro y hy hne
    have := (mem_filterNocl_iff sc all y).mp hy
    exact hind y this.1 this.2 hne
  have hb : buildScopes L all = .ok (arrange L (filterNocl sc (noclTokens all))) := by
    rw [buildScopes_eq, hraw]; rfl
  generalize hscs : arrange L (filterNocl sc (noclTokens all)) = scs at hb
  have hfst_nodup : (scs.map (·.1)).Nodup := by
    rw [← hscs]
    cases hn : L.nested with
    | true => rw [arrange_fst_nested hn]; exact hfl_sorted.nodup
    | false =>
      rw [arrange_fst_flat hn]
      exact (hfl_sorted.sublist (filterNested_sublist _ _)).nodup
  have hfst_mem : x ∈ scs.map (·.1) := by
    rw [← hscs]
    cases hn : L.nested with
    | true => rw [arrange_fst_nested hn]; exact hx_fl
    | false =>
      rw [arrange_fst_flat hn]
      exact mem_filterNested_of_independent hfl_sorted hx_fl hind_fl
  have hk : (scs.map (·.1)).idxOf x < scs.length := by
    simpa using List.idxOf_lt_length_of_mem hfst_mem
  have hkx : scs[(scs.map (·.1)).idxOf x].1 = x := by
    have := List.getElem_idxOf (xs := scs.map (·.1)) (x := x) (by simpa using hk)
    rw [List.getElem_map] at this
    exact this
  have hb' : buildScopes L all' = .ok (scs.eraseIdx ((scs.map (·.1)).idxOf x)) := by
    rw [htog, hb, ← filter_fst_ne_eq_eraseIdx x scs hfst_nodup]; rfl
  refine ⟨scs, (scs.map (·.1)).idxOf x, hb, hk, hkx, ?_, ?_, ?_⟩
  · intro j hj hjx
    have h1 : (scs.map (·.1))[j]'(by simpa using hj) = x := by simpa using hjx
    have h2 : (scs.map (·.1))[(scs.map (·.1)).idxOf x]'(by simpa using hk) = x := by
      rw [List.getElem_map]; exact hkx
    exact (List.getElem_inj hfst_nodup).mp (h1.trans h2.symm)
  · intro ms hms
    unfold scanFile at hms ⊢
    rw [hb] at hms
    rw [hb', hcode]
    simp only at hms ⊢
    have hlen := measureAll_length _ _ _ hms
    refine ⟨⟨by omega, ?_⟩, measureAll_eraseIdx _ _ _ _ hms⟩
    have := measureAll_getElem _ _ _ hms _ hk (by omega)
    rw [hkx] at this
    exact this
  · intro ms' m hms' hm
    unfold scanFile at hms' ⊢
    rw [hb', hcode] at hms'
    rw [hb]
    simp only at hms' ⊢
    apply measureAll_insertIdx _ _ _ _ hk _ hms'
    rw [hkx]
    exact hm

/-- (OBSERVABLE, scope level) `toggle_buildScopes_partial` for the seven shipped languages: the
internal invariant `hsorted` is replaced by `hpos`, a fact about the lexer output (the
locations of the code tokens increase strictly: C16 / `C05text.code_tokens_ordered`).
`_partial` because of `huniq` (see `huniq_needed`). -/
theorem toggle_buildScopes_gen_partial {L : Language} (hL : L ∈ Gen.all.map (·.2))
    {all all' : List Tok} {sc : List Scope} {x : Scope}
    (hcode : filterTokens false all' = filterTokens false all)
    (hraw : rawScopes L (filterTokens false all) = .ok sc)
    (hpos : (filterTokens false all).Pairwise
      (fun a b => a.line < b.line ∨ (a.line = b.line ∧ a.col < b.col)))
    (hx : x ∈ sc) (hun : ¬ Marked all x.hdr.name.line)
    (hmark : ∀ ℓ, Marked all' ℓ ↔ Marked all ℓ ∨ ℓ = x.hdr.name.line)
    (huniq : ∀ y ∈ sc, y.hdr.name.line = x.hdr.name.line → y = x)
    (hind : ∀ y ∈ sc, ¬ Marked all y.hdr.name.line → y ≠ x →
      x.contains y = false ∧ y.contains x = false) :
    buildScopes L all' = (buildScopes L all).map (List.filter (fun p => p.1 ≠ x)) :=
  toggle_buildScopes_partial hcode hraw (rawScopes_sorted_gen hL hpos hraw) hx hun hmark huniq
    hind

/-- (OBSERVABLE, measurements) `toggle_scanFile_partial` for the seven shipped languages:
`hsorted` is replaced by `hpos` (lexer fact), and since `scan_file` never fails for these
languages (`C03.scanFile_total`) the two directions become ONE statement: `scan_file` returns
some `ms` on `all`; `x` is reported at a unique position `k`, `ms[k]` is its measurement, and
on `all'` `scan_file` returns `ms` without its `k`-th entry.  Read from `all` to `all'` this
is adding the marker, from `all'` to `all` removing it.
`_partial` because of `huniq` (see `huniq_needed`). -/
theorem toggle_scanFile_gen_partial {L : Language} (hL : L ∈ Gen.all.map (·.2))
    {all all' : List Tok} {sc : List Scope} {x : Scope}
    (hcode : filterTokens false all' = filterTokens false all)
    (hraw : rawScopes L (filterTokens false all) = .ok sc)
    (hpos : (filterTokens false all).Pairwise
      (fun a b => a.line < b.line ∨ (a.line = b.line ∧ a.col < b.col)))
    (hx : x ∈ sc) (hun : ¬ Marked all x.hdr.name.line)
    (hmark : ∀ ℓ, Marked all' ℓ ↔ Marked all ℓ ∨ ℓ = x.hdr.name.line)
    (huniq : ∀ y ∈ sc, y.hdr.name.line = x.hdr.name.line → y = x)
    (hind : ∀ y ∈ sc, ¬ Marked all y.hdr.name.line → y ≠ x →
      x.contains y = false ∧ y.contains x = false) :
    ∃ scs ms k, buildScopes L all = .ok scs ∧ scanFile L all = .ok ms ∧
      ∃ (hk : k < scs.length) (hk' : k < ms.length), scs[k].1 = x ∧
        (∀ j (hj : j < scs.length), scs[j].1 = x → j = k) ∧
        measure (filterTokens false all) x scs[k].2 = .ok ms[k] ∧
        scanFile L all' = .ok (ms.eraseIdx k) := by
  obtain ⟨scs, k, hb, hk, hkx, huq, h1, _⟩ :=
    toggle_scanFile_partial hcode hraw (rawScopes_sorted_gen hL hpos hraw) hx hun hmark huniq hind
  obtain ⟨ms, hms⟩ := C03.scanFile_total L hL all
  obtain ⟨⟨hk', hm⟩, herase⟩ := h1 ms hms
  exact ⟨scs, ms, k, hb, hms, hk, hk', hkx, huq, hm, herase⟩

/-- (OBSERVABLE, measurements) **Toggling the marker of a function whose REPORTED SPAN is
independent**, shipped languages with nested functions (all but C).

The independence hypothesis is stated on the report, not on `Scope.contains`:
`SpanIndependent ms k` - the span (`sl, sc` .. `el, ec`) of the `k`-th measurement neither
encloses nor is enclosed by the span of any other measurement of the report.

Hypotheses: `all`, `all'` have the same code tokens; their locations increase strictly (`hpos`)
and the tokens do not overlap (`hnov`: each code token ends - `Tok.endPos`, the position just
past its text - no later than any later code token begins; both are facts about a lexer output,
whose tokens are consecutive pieces of the text: `C05text.code_tokens_ordered` and
`lexed_code_tokens_no_overlap`, used in `toggle_scanFile_spans_text_partial`); `x` is an
unmarked element of `rawScopes`, the marked lines of `all'` are those of `all` plus the line of
`x`'s name, and no other scope has its name on that line (`huniq`, needed: `huniq_needed`).

Conclusion: `scan_file` returns some `ms` on `all`; `x` is reported at a position `k`, which is
identified in the report by `x`'s name and by the location of `x`'s first token (no other entry
starts there); and IF `SpanIndependent ms k`, `scan_file` on `all'` returns `ms` without its
`k`-th entry - every other function keeps its name, span and length, in the same order.

`hn` cannot be dropped: `spans_flat_fails`.  `hpos`, `hnov` are used to translate the
token-index comparison of `Scope.contains` into positions (`encloses_of_contains`). -/
theorem toggle_scanFile_spans_partial {L : Language} (hL : L ∈ Gen.all.map (·.2))
    (hn : L.nested = true) {all all' : List Tok} {sc : List Scope} {x : Scope}
    (hcode : filterTokens false all' = filterTokens false all)
    (hraw : rawScopes L (filterTokens false all) = .ok sc)
    (hpos : (filterTokens false all).Pairwise
      (fun a b => a.line < b.line ∨ (a.line = b.line ∧ a.col < b.col)))
    (hnov : (filterTokens false all).Pairwise (fun a b => posLe a.endPos (b.line, b.col)))
    (hx : x ∈ sc) (hun : ¬ Marked all x.hdr.name.line)
    (hmark : ∀ ℓ, Marked all' ℓ ↔ Marked all ℓ ∨ ℓ = x.hdr.name.line)
    (huniq : ∀ y ∈ sc, y.hdr.name.line = x.hdr.name.line → y = x) :
    ∃ ms k, scanFile L all = .ok ms ∧ ∃ hk : k < ms.length,
      ms[k].name = x.hdr.name.val ∧
      (∃ first, (filterTokens false all)[x.hdr.rng.s]? = some first ∧
        (ms[k].sl, ms[k].sc) = (first.line, first.col)) ∧
      (∀ j (hj : j < ms.length), (ms[j].sl, ms[j].sc) = (ms[k].sl, ms[k].sc) → j = k) ∧
      (SpanIndependent ms k → scanFile L all' = .ok (ms.eraseIdx k)) := by
  have hsorted := rawScopes_sorted_gen hL hpos hraw
  have hfl_sorted : StartSorted (filterNocl sc (noclTokens all)) :=
    StartSorted.sublist hsorted (filterNocl_sublist _ _)
  have hx_fl : x ∈ filterNocl sc (noclTokens all) := (mem_filterNocl_iff sc all x).mpr ⟨hx, hun⟩
  have hb : buildScopes L all = .ok (arrange L (filterNocl sc (noclTokens all))) := by
    rw [buildScopes_eq, hraw]; rfl
  generalize hscs : arrange L (filterNocl sc (noclTokens all)) = scs at hb
  have hfst : scs.map (·.1) = filterNocl sc (noclTokens all) := by
    rw [← hscs]; exact arrange_fst_nested hn _
  obtain ⟨ms, hms⟩ := C03.scanFile_total L hL all
  have hmeas : measureAll (filterTokens false all) scs = .ok ms := by
    have := hms
    unfold scanFile at this
    rw [hb] at this
    exact this
  have hlen := measureAll_length _ _ _ hmeas
  have hfst_mem : x ∈ scs.map (·.1) := by rw [hfst]; exact hx_fl
  have hk : (scs.map (·.1)).idxOf x < scs.length := by
    simpa using List.idxOf_lt_length_of_mem hfst_mem
  have hkx : scs[(scs.map (·.1)).idxOf x].1 = x := by
    have := List.getElem_idxOf (xs := scs.map (·.1)) (x := x) (by simpa using hk)
    rw [List.getElem_map] at this
    exact this
  generalize (scs.map (·.1)).idxOf x = k at hk hkx
  have hkm : k < ms.length := by omega
  have hmk : measure (filterTokens false all) x scs[k].2 = .ok ms[k] := by
    have := measureAll_getElem _ _ _ hmeas k hk hkm
    rw [hkx] at this
    exact this
  obtain ⟨first, _, hfirst, _, _, hname, hstart, _⟩ := measure_ok_inv hmk
  have hord := C05.source_order L hL all ms hpos hms
  refine ⟨ms, k, hms, hkm, hname, ⟨first, hfirst, hstart⟩, ?_, ?_⟩
  · intro j hj hjk
    have h1 := Prod.mk.inj hjk
    rcases Nat.lt_trichotomy j k with hlt | heq | hgt
    · have := List.pairwise_iff_getElem.mp hord j k hj hkm hlt
      omega
    · exact heq
    · have := List.pairwise_iff_getElem.mp hord k j hkm hj hgt
      omega
  · intro hsp
    have hind_fl : Independent (filterNocl sc (noclTokens all)) x := by
      have := independent_of_spans hpos hnov hmeas hk hsp
      rwa [hfst, hkx] at this
    have hind : ∀ y ∈ sc, ¬ Marked all y.hdr.name.line → y ≠ x →
        x.contains y = false ∧ y.contains x = false := fun y hy hm hne =>
      hind_fl y ((mem_filterNocl_iff sc all y).mpr ⟨hy, hm⟩) hne
    obtain ⟨scs', k', hb', hk', hkx', huq, h1, _⟩ :=
      toggle_scanFile_partial hcode hraw hsorted hx hun hmark huniq hind
    rw [hb] at hb'
    cases hb'
    have : k = k' := huq k hk hkx
    subst this
    exact (h1 ms hms).2

/-- (LEXER FACT, discharges `hnov`) The code tokens of a lexed text do not overlap: each ends
(`Tok.endPos`) no later than any later one begins.  `RawOk code raw` is the lexer contract (the
raw tokens tile the text, `Spec/Lex.lean`).  Its companion for `hpos` is
`C05text.code_tokens_ordered`. -/
theorem lexed_code_tokens_no_overlap {code : Str} {raw : List RawTok} (h : RawOk code raw) :
    (filterTokens false (lex code raw false)).Pairwise
      (fun a b => posLe a.endPos (b.line, b.col)) := by
  rw [C05text.code_tokens_placed h, List.pairwise_map]
  have hsub : (Compose.codeRaw raw).Sublist raw := List.filter_sublist
  have hpw := (RawOkFrom.pairwise h).sublist hsub
  refine (List.Pairwise.and_mem.1 hpw).imp ?_
  intro r r' ⟨hr, hr', hle⟩
  obtain ⟨_, _, hrt⟩ := RawOkFrom.text (pre := []) h rfl r (hsub.subset hr)
  obtain ⟨_, hrb', _⟩ := RawOkFrom.text (pre := []) h rfl r' (hsub.subset hr')
  simp only [List.nil_append] at hrt hrb'
  rw [Compose.endPos_tokAt code r hrt]
  show posLe _ (lineOf code r'.off, colOf code r'.off)
  rcases Nat.lt_or_eq_of_le hle with hlt | heq
  · have := posLt_of_lt code _ _ hlt (by omega)
    unfold PosLt at this
    unfold posLe
    simp only
    omega
  · rw [heq]; exact posLe_refl _

/-- (OBSERVABLE, measurements) `toggle_scanFile_spans_partial` for a LEXED TEXT: `all` is the
output of `lex` on a text `code` with a lexer output `raw` that satisfies the lexer contract
(`RawOk`) and has no empty non-whitespace token (`hne`, as in C05text / C16); then `hpos` and
`hnov` hold and are no longer hypotheses.  `all'` is any token stream with the same code
tokens (e.g. the lexed text with the comment added). -/
theorem toggle_scanFile_spans_text_partial {L : Language} (hL : L ∈ Gen.all.map (·.2))
    (hn : L.nested = true) {code : Str} {raw : List RawTok} (hraw0 : RawOk code raw)
    (hne : ∀ t ∈ raw, t.kind ≠ 6 → t.val ≠ []) {all' : List Tok} {sc : List Scope} {x : Scope}
    (hcode : filterTokens false all' = filterTokens false (lex code raw false))
    (hraw : rawScopes L (filterTokens false (lex code raw false)) = .ok sc)
    (hx : x ∈ sc) (hun : ¬ Marked (lex code raw false) x.hdr.name.line)
    (hmark : ∀ ℓ, Marked all' ℓ ↔ Marked (lex code raw false) ℓ ∨ ℓ = x.hdr.name.line)
    (huniq : ∀ y ∈ sc, y.hdr.name.line = x.hdr.name.line → y = x) :
    ∃ ms k, scanFile L (lex code raw false) = .ok ms ∧ ∃ hk : k < ms.length,
      ms[k].name = x.hdr.name.val ∧
      (∃ first, (filterTokens false (lex code raw false))[x.hdr.rng.s]? = some first ∧
        (ms[k].sl, ms[k].sc) = (first.line, first.col)) ∧
      (∀ j (hj : j < ms.length), (ms[j].sl, ms[j].sc) = (ms[k].sl, ms[k].sc) → j = k) ∧
      (SpanIndependent ms k → scanFile L all' = .ok (ms.eraseIdx k)) :=
  toggle_scanFile_spans_partial hL hn hcode hraw (C05text.code_tokens_ordered hraw0 hne).1
    (lexed_code_tokens_no_overlap hraw0) hx hun hmark huniq

/-! ### T3c - the restrictions are needed (kernel-checked witnesses) -/

/-- (OBSERVABLE, witness) **`huniq` is needed: the property's second sentence is false when
another function's name sits on the marked line.**

C++, ONE line, two functions: `f(){a;} g(){b;} // x` (`lineU`) versus
`f(){a;} g(){b;} // nocl` (`lineM`); the tokens are those of the Pygments C++ lexer.

* the two token lists differ ONLY in the text of their last token, the comment at the end of
  the line (`// x` ↦ `// nocl`); in particular they have the same code tokens;
* the names of both `f` and `g` (the scopes `sLf`, `sLg` of `rawScopes`) are on that line;
* every OTHER hypothesis of `toggle_scanFile_partial` holds for `x := f`: the scopes are sorted,
  `f` is unmarked in `lineU`, the marked lines of `lineM` are those of `lineU` plus `f`'s line,
  `f` neither encloses nor is nested in `g` - only `huniq` fails;
* without the marker `scan_file` reports `[f, g]`; with it, it reports NOTHING: marking `f`
  also removed `g`.  "Every other function keeps its name, span and length" would require the
  report `[g]`, i.e. `[mLf, mLg].eraseIdx 0`; the report is not of the form
  `[mLf, mLg].eraseIdx k` for any `k`.

The real code agrees (`/venv/bin/python`, `scan_file(lex(CppLexer(), text, False), C++)`):
`[('f',1,1,1,8,1), ('g',1,9,1,16,1)]` for the first text, `[]` for the second. -/
theorem huniq_needed_explicit :
    -- same tokens up to the text of the final comment
    (C17Ex.lineU.dropLast = C17Ex.lineM.dropLast ∧
      C17Ex.lineU.getLast? = some (C17Ex.mk 5 [47, 47, 32, 120, 10] 1 17) ∧
      C17Ex.lineM.getLast? = some (C17Ex.mk 5 [47, 47, 32, 110, 111, 99, 108, 10] 1 17)) ∧
    filterTokens false C17Ex.lineM = filterTokens false C17Ex.lineU ∧
    rawScopes Gen.cpp (filterTokens false C17Ex.lineU) = .ok [C17Ex.sLf, C17Ex.sLg] ∧
    -- the other hypotheses of the toggle theorems, for `x := sLf`
    [C17Ex.sLf, C17Ex.sLg].Pairwise (fun a b => a.hdr.rng.s < b.hdr.rng.s) ∧
    ¬ Marked C17Ex.lineU C17Ex.sLf.hdr.name.line ∧
    (∀ ℓ, Marked C17Ex.lineM ℓ ↔ Marked C17Ex.lineU ℓ ∨ ℓ = C17Ex.sLf.hdr.name.line) ∧
    (∀ y ∈ [C17Ex.sLf, C17Ex.sLg], y ≠ C17Ex.sLf →
      C17Ex.sLf.contains y = false ∧ y.contains C17Ex.sLf = false) ∧
    SpanIndependent [C17Ex.mLf, C17Ex.mLg] 0 ∧
    -- `huniq` fails: `g`'s name is on the same line
    (C17Ex.sLg.hdr.name.line = C17Ex.sLf.hdr.name.line ∧ C17Ex.sLg ≠ C17Ex.sLf) ∧
    -- the reports
    scanFile Gen.cpp C17Ex.lineU = .ok [C17Ex.mLf, C17Ex.mLg] ∧
    scanFile Gen.cpp C17Ex.lineM = .ok [] ∧
    C17Ex.mLf.name = [102] ∧ C17Ex.mLg.name = [103] ∧
    ∀ k, scanFile Gen.cpp C17Ex.lineM ≠ .ok ([C17Ex.mLf, C17Ex.mLg].eraseIdx k) := by
  refine ⟨by decide, C17Ex.codeL_M.trans C17Ex.codeL_U.symm,
    by rw [C17Ex.codeL_U]; exact C17Ex.rawL, by decide, C17Ex.marked_LU _, ?_, by decide,
    by decide, by decide, C17Ex.scanL_U, C17Ex.scanL_M, rfl, rfl, ?_⟩
  · intro ℓ
    rw [C17Ex.marked_LM]
    simp [C17Ex.marked_LU]
    rfl
  · intro k
    rw [C17Ex.scanL_M]
    intro h
    have h := congrArg List.length (Except.ok.inj h)
    rcases k with _ | _ | k <;> simp at h

/-- (OBSERVABLE, witness) `huniq_needed_explicit` in one line: there are two token lists with
the same code tokens (they differ by one marker comment) such that `scan_file` reports two
functions for the first and none for the second - one marker removed two functions. -/
theorem huniq_needed :
    ∃ all all' mf mg, filterTokens false all' = filterTokens false all ∧
      scanFile Gen.cpp all = .ok [mf, mg] ∧ scanFile Gen.cpp all' = .ok [] :=
  ⟨C17Ex.lineU, C17Ex.lineM, C17Ex.mLf, C17Ex.mLg, C17Ex.codeL_M.trans C17Ex.codeL_U.symm,
    C17Ex.scanL_U, C17Ex.scanL_M⟩

/-- (OBSERVABLE, witness) **`hn` is needed in `toggle_scanFile_spans_partial`.**  C,
`f(){` / `g(){a;}` / `}` (`codeN`) versus the same text with a marker comment at the end of
line 1 (`codeNM`): without the marker the report is `[f]` - the reported span of `f` is
trivially independent of all other reported spans, there are none - and with the marker the
report is `[g]`, not `[]`: the hidden inner function appears.  (A hypothesis on the REPORTED
functions cannot see `g`; this is `reported_flat_full_fails` at the level of measurements.) -/
theorem spans_flat_fails :
    Gen.c.nested = false ∧
    filterTokens false C17Ex.codeNM = filterTokens false C17Ex.codeN ∧
    (∀ ℓ, Marked C17Ex.codeNM ℓ ↔ Marked C17Ex.codeN ℓ ∨ ℓ = C17Ex.sNf.hdr.name.line) ∧
    (∀ y ∈ [C17Ex.sNf, C17Ex.sNg], y.hdr.name.line = C17Ex.sNf.hdr.name.line → y = C17Ex.sNf) ∧
    scanFile Gen.c C17Ex.codeN = .ok [C17Ex.mNf] ∧
    SpanIndependent [C17Ex.mNf] 0 ∧
    scanFile Gen.c C17Ex.codeNM = .ok [C17Ex.mNg] ∧
    scanFile Gen.c C17Ex.codeNM ≠ .ok ([C17Ex.mNf].eraseIdx 0) := by
  refine ⟨by decide, C17Ex.codeN_M.trans C17Ex.codeN_U.symm, ?_, by decide, C17Ex.scanN_U,
    by decide, C17Ex.scanN_M, ?_⟩
  · intro ℓ
    rw [C17Ex.marked_NM]
    simp [C17Ex.marked_N]
    rfl
  · rw [C17Ex.scanN_M]
    decide

/-! ## non-vacuity and necessity of the hypotheses

Concrete data from `CodeLimit/Lemmas/NoclExamples.lean`. -/
section Examples
open C17Ex

/-- five scopes `o ⊃ i`, `x`, `o2 ⊃ i2`: the hypotheses of `fold_independent` /
`filterNested_independent` hold for the middle scope `x` -/
example : ex5.Pairwise (fun a b => a.hdr.rng.s < b.hdr.rng.s) ∧ x ∈ ex5 ∧
    ∀ y ∈ ex5, y ≠ x → x.contains y = false ∧ y.contains x = false := by decide

/-- ... and there the parent indices do shift while the children stay the same -/
example :
    foldParents ex5 0 [] = [none, some 0, none, none, some 3] ∧
    foldParents (ex5.filter (· ≠ x)) 0 [] = [none, some 0, none, some 2] ∧
    withChildren ex5 (foldParents ex5 0 [])
      = [(o, [⟨5, 12⟩]), (i, []), (x, []), (o2, [⟨32, 40⟩]), (i2, [])] ∧
    withChildren (ex5.filter (· ≠ x)) (foldParents (ex5.filter (· ≠ x)) 0 [])
      = [(o, [⟨5, 12⟩]), (i, []), (o2, [⟨32, 40⟩]), (i2, [])] ∧
    filterNested ex5 none = [o, x, o2] ∧
    filterNested (ex5.filter (· ≠ x)) none = [o, o2] := by decide

/-- The independence hypothesis is needed (1): `o` encloses `i`, so it is not independent;
removing the ENCLOSING `o` changes the inner function's parent (from `o` to none), and in a
language without nested functions the hidden inner function becomes visible. -/
example :
    ¬ (∀ y ∈ [o, i], y ≠ o → o.contains y = false ∧ y.contains o = false) ∧
    foldParents [o, i] 0 [] = [none, some 0] ∧
    foldParents ([o, i].filter (· ≠ o)) 0 [] = [none] ∧
    filterNested ([o, i].filter (· ≠ o)) none ≠ (filterNested [o, i] none).filter (· ≠ o) := by
  decide

/-- The independence hypothesis is needed (2): removing the NESTED `i` changes the children of
the enclosing `o` (whose length then includes the lines of `i`). -/
example :
    ¬ (∀ y ∈ [o, i], y ≠ i → i.contains y = false ∧ y.contains i = false) ∧
    withChildren ([o, i].filter (· ≠ i)) (foldParents ([o, i].filter (· ≠ i)) 0 [])
      ≠ (withChildren [o, i] (foldParents [o, i] 0 [])).filter (fun p => p.1 ≠ i) := by decide

/-- The independence hypothesis is needed (3): in `a ⊃ m ⊃ b`, removing the middle function
hands its child over to the outer one. -/
example :
    withChildren ([a3, m3, b3].filter (· ≠ m3)) (foldParents ([a3, m3, b3].filter (· ≠ m3)) 0 [])
      = [(a3, [⟨10, 20⟩]), (b3, [])] ∧
    (withChildren [a3, m3, b3] (foldParents [a3, m3, b3] 0 [])).filter (fun p => p.1 ≠ m3)
      = [(a3, [⟨5, 25⟩]), (b3, [])] := by decide

/-- the hypotheses of `rawScopes_sorted` hold for the three-function C++ text below -/
example :
    code3.Pairwise (fun a b => a.line < b.line ∨ (a.line = b.line ∧ a.col < b.col)) ∧
    (∀ hs, extractHeaders Gen.cpp code3 = .ok hs → (hs.map (·.rng.s)).Nodup) ∧
    rawScopes Gen.cpp code3 = .ok [sF, sG, sH] := by
  refine ⟨by decide, ?_, raw3⟩
  intro hs h
  rw [headers3] at h
  cases h
  decide

/-- End to end, C++ (`f(){a;}` / `g(){b;} // x` / `h(){c;}` versus the same text with the
comment `// NoCl`): all hypotheses of `toggle_buildScopes_partial` / `toggle_scanFile_partial`
hold for the middle function `g` ... -/
example :
    filterTokens false allM = filterTokens false allU ∧
    rawScopes Gen.cpp (filterTokens false allU) = .ok [sF, sG, sH] ∧
    [sF, sG, sH].Pairwise (fun a b => a.hdr.rng.s < b.hdr.rng.s) ∧
    sG ∈ [sF, sG, sH] ∧ ¬ Marked allU sG.hdr.name.line ∧
    (∀ ℓ, Marked allM ℓ ↔ Marked allU ℓ ∨ ℓ = sG.hdr.name.line) ∧
    (∀ y ∈ [sF, sG, sH], y.hdr.name.line = sG.hdr.name.line → y = sG) ∧
    (∀ y ∈ [sF, sG, sH], ¬ Marked allU y.hdr.name.line → y ≠ sG →
      sG.contains y = false ∧ y.contains sG = false) ∧
    scanFile Gen.cpp allU = .ok [mF, mG, mH] := by
  refine ⟨code_M.trans code_U.symm, by rw [code_U]; exact raw3, by decide, by decide,
    marked_U _, ?_, by decide, ?_, scanU⟩
  · intro ℓ
    rw [marked_M]
    simp [marked_U]
    rfl
  · have : ∀ y ∈ [sF, sG, sH], y ≠ sG → sG.contains y = false ∧ y.contains sG = false := by
      decide
    exact fun y hy _ hne => this y hy hne

/-- ... and the theorem then yields the report for the marked text: `g` is gone, `f` and `h`
are reported exactly as before. -/
example : scanFile Gen.cpp allM = .ok [mF, mH] := by
  obtain ⟨scs, k, hb, hk, hkx, huq, h1, _⟩ :=
    toggle_scanFile_partial (L := Gen.cpp) (all := allU) (all' := allM) (sc := [sF, sG, sH])
      (x := sG)
      (code_M.trans code_U.symm) (by rw [code_U]; exact raw3) (by decide) (by decide)
      (marked_U _)
      (by intro ℓ; rw [marked_M]; simp [marked_U]; rfl)
      (by decide)
      (by
        have : ∀ y ∈ [sF, sG, sH], y ≠ sG → sG.contains y = false ∧ y.contains sG = false := by
          decide
        exact fun y hy _ hne => this y hy hne)
  have hscs : scs = [(sF, []), (sG, []), (sH, [])] := by
    have hf : filterNocl [sF, sG, sH] (noclTokens allU) = [sF, sG, sH] := by decide
    rw [buildScopes_eq, code_U, raw3] at hb
    simp only [Except.map, hf, arrange3] at hb
    exact (Except.ok.inj hb).symm
  subst hscs
  have hk1 : 1 = k := huq 1 (by decide) rfl
  subst hk1
  exact (h1 _ scanU).2

theorem cpp_shipped : Gen.cpp ∈ Gen.all.map (·.2) := by simp [Gen.all]

/-- the hypotheses of `rawScopes_sorted_gen` / `toggle_*_gen_partial` that replace `hsorted`:
C++ is a shipped language and the code tokens of the three-function text are listed in
strictly increasing position; the conclusion of `rawScopes_sorted_gen` for it -/
example :
    Gen.cpp ∈ Gen.all.map (·.2) ∧
    (filterTokens false allU).Pairwise
      (fun a b => a.line < b.line ∨ (a.line = b.line ∧ a.col < b.col)) ∧
    [sF, sG, sH].Pairwise (fun a b => a.hdr.rng.s < b.hdr.rng.s) :=
  ⟨cpp_shipped, by rw [code_U]; decide,
    rawScopes_sorted_gen cpp_shipped (code := code3) (by decide) raw3⟩

/-- `toggle_scanFile_gen_partial` on the same data: the report for the marked text -/
example : scanFile Gen.cpp allM = .ok [mF, mH] := by
  obtain ⟨scs, ms, k, hb, hms, hk, hk', hkx, huq, hm, herase⟩ :=
    toggle_scanFile_gen_partial cpp_shipped (all := allU) (all' := allM) (sc := [sF, sG, sH])
      (x := sG) (code_M.trans code_U.symm) (by rw [code_U]; exact raw3)
      (by rw [code_U]; decide) (by decide) (marked_U _)
      (by intro ℓ; rw [marked_M]; simp [marked_U]; rfl)
      (by decide)
      (by
        have : ∀ y ∈ [sF, sG, sH], y ≠ sG → sG.contains y = false ∧ y.contains sG = false := by
          decide
        exact fun y hy _ hne => this y hy hne)
  rw [scanU] at hms
  cases hms
  have hscs : scs = [(sF, []), (sG, []), (sH, [])] := by
    have hf : filterNocl [sF, sG, sH] (noclTokens allU) = [sF, sG, sH] := by decide
    rw [buildScopes_eq, code_U, raw3] at hb
    simp only [Except.map, hf, arrange3] at hb
    exact (Except.ok.inj hb).symm
  subst hscs
  have hk1 : 1 = k := huq 1 (by decide) rfl
  subst hk1
  exact herase

/-- all hypotheses of `toggle_scanFile_spans_partial` hold for the middle function `g` of the
three-function C++ text, and so does the span independence of its measurement (entry 1 of the
report `[mF, mG, mH]`) -/
example :
    Gen.cpp ∈ Gen.all.map (·.2) ∧ Gen.cpp.nested = true ∧
    filterTokens false allM = filterTokens false allU ∧
    rawScopes Gen.cpp (filterTokens false allU) = .ok [sF, sG, sH] ∧
    (filterTokens false allU).Pairwise
      (fun a b => a.line < b.line ∨ (a.line = b.line ∧ a.col < b.col)) ∧
    (filterTokens false allU).Pairwise (fun a b => posLe a.endPos (b.line, b.col)) ∧
    sG ∈ [sF, sG, sH] ∧ ¬ Marked allU sG.hdr.name.line ∧
    (∀ ℓ, Marked allM ℓ ↔ Marked allU ℓ ∨ ℓ = sG.hdr.name.line) ∧
    (∀ y ∈ [sF, sG, sH], y.hdr.name.line = sG.hdr.name.line → y = sG) ∧
    SpanIndependent [mF, mG, mH] 1 := by
  refine ⟨cpp_shipped, by decide, code_M.trans code_U.symm, by rw [code_U]; exact raw3,
    by rw [code_U]; decide, by rw [code_U]; decide, by decide, marked_U _, ?_, by decide,
    by decide⟩
  intro ℓ
  rw [marked_M]
  simp [marked_U]
  rfl

/-- ... and the theorem yields the report for the marked text from the spans alone -/
example : scanFile Gen.cpp allM = .ok [mF, mH] := by
  obtain ⟨ms, k, hms, hk, _, ⟨first, hf, hst⟩, _, h⟩ :=
    toggle_scanFile_spans_partial cpp_shipped (by decide) (all := allU) (all' := allM)
      (sc := [sF, sG, sH]) (x := sG) (code_M.trans code_U.symm) (by rw [code_U]; exact raw3)
      (by rw [code_U]; decide) (by rw [code_U]; decide) (by decide) (marked_U _)
      (by intro ℓ; rw [marked_M]; simp [marked_U]; rfl) (by decide)
  rw [scanU] at hms
  cases hms
  -- `k` is the entry that starts where `g` starts
  rw [code_U] at hf
  have hf' : code3[sG.hdr.rng.s]? = some (mk 2 [103] 2 1) := by decide
  rw [hf'] at hf
  cases hf
  have hk1 : k = 1 := by
    rcases k with _ | _ | _ | k
    · simp [mF, mk] at hst
    · rfl
    · simp [mH, mk] at hst
    · simp at hk; omega
  subst hk1
  exact h (by decide)

/-- span containment is the intended one: in Python, `def f():` / ` def g():` / `  pass` the
two functions END at the same place; `f`'s span encloses `g`'s (non-strict at the end), not
conversely -/
example :
    (⟨[102], 1, 1, 3, 7, 3⟩ : Measurement).encloses ⟨[103], 2, 2, 3, 7, 2⟩ ∧
    ¬ (⟨[103], 2, 2, 3, 7, 2⟩ : Measurement).encloses ⟨[102], 1, 1, 3, 7, 3⟩ := by decide


end Examples

end CL.C17
