import CodeLimit.Lemmas.ScanEval
/-!
# C03 (model part) - analysing a file never raises

"For every file content ... analysing it terminates and yields a (possibly empty) list of
measurements ... No input-dependent internal error (index, ambiguity, recursion, ...) escapes."

All model functions are total Lean functions (termination is checked by Lean); the content of the
theorems is that the error branch of `Except Err` (`IndexError`, `StopIteration`,
`ValueError` of `list.index`, `min([])`, "Multiple transitions found!", fuel) is unreachable,
for EVERY token list: no assumption on positions, kinds, values or order.

Header extraction never raises by property C15 (`extractHeaders_total`, re-exported by
`Lemmas/HeadersWF.lean`); everything after header extraction is proved here
(`error_only_from_headers` does not use C15).

This file is the per-file part of C03 only.  The other clauses of the property are stated where
their models live:
* "not valid UTF-8": `Gaps.read_file_total`, `Gaps.utf8_accepts_iff` (every byte string is decoded:
  UTF-8 when well-formed, else Latin-1);
* "a scan of a tree containing it completes and writes a report": `Pipe.scan_never_raises`
  (whatever the cache file holds), `Pipe.scan_writes_valid_json`;
* "check on it, named as a file or through a directory from any working directory, completes with
  exit status 0 or 1": `C12cwd.check_total_pipeline_any_cwd`, `C12cwd.exit_status_iff`,
  `C12cwd.check_error_only_from_analysis` (path arithmetic never raises).
Not theorems (declared partial in DESIGN section 6): termination / exceptions of the Pygments
lexers, errors of the operating system, CPython's recursion limit.
-/
namespace CL.C03

/-- `Scanner.scan_file` returns a list of measurements for every token list, for each of the
seven shipped languages -/
theorem scanFile_total (L : Language) (hL : L ∈ Gen.all.map (·.2)) (all : List Tok) :
    ∃ ms, scanFile L all = .ok ms :=
  scanFile_ok L hL all

/-- `_analyze_file` (lexing with any lexer output `raw`, then scanning) returns measurements and a
line total for every source text and every raw token list -/
theorem analyze_total (L : Language) (hL : L ∈ Gen.all.map (·.2)) (code : Str) (raw : List RawTok) :
    ∃ r, analyze L code raw = .ok r := by
  obtain ⟨ms, hms⟩ := scanFile_ok L hL (lex code raw false)
  exact ⟨(ms, (ms.map (·.len)).foldl (· + ·) 0), by simp [analyze, hms]⟩

/-- (independent of the assumed lemmas) whatever `scanFile` raises is raised by header extraction:
blocks, scope building, folding, counting and measuring never raise -/
theorem error_only_from_headers (L : Language) (hL : L ∈ Gen.all.map (·.2)) (all : List Tok)
    (e : Err) (h : scanFile L all = .error e) :
    extractHeaders L (filterTokens false all) = .error e :=
  scanFile_error L hL all h

/-- the intermediate stage: the scope tree is built without error and every reported scope has
its header start inside the code tokens and a positive block end inside the code tokens; every
child range starts inside the code tokens -/
theorem buildScopes_total (L : Language) (hL : L ∈ Gen.all.map (·.2)) (all : List Tok) :
    ∃ scs, buildScopes L all = .ok scs ∧
      ∀ p ∈ scs, (p.1.hdr.rng.s < (filterTokens false all).length ∧ 0 < p.1.blk.e ∧
          p.1.blk.e ≤ (filterTokens false all).length) ∧
        ∀ c ∈ p.2, c.s < (filterTokens false all).length :=
  buildScopes_ok L hL all

/-- brace blocks: `get_blocks` never raises and every block is `s + 1 < e ≤ len(tokens)` -/
theorem getBlocks_total (toks : List Tok) :
    ∃ bs, getBlocks toks = .ok bs ∧ ∀ b ∈ bs, b.s + 1 < b.e ∧ b.e ≤ toks.length := by
  obtain ⟨bs, h⟩ := CL.getBlocks_total toks
  exact ⟨bs, h, getBlocks_wf h⟩

/-- Python blocks: `Python.extract_blocks` never raises on non-empty header ranges (in particular
`tokens.index` always finds its token and `tokens[header.token_range.end]` is guarded), and every
block end is positive and inside the tokens -/
theorem pyBlocks_total (toks : List Tok) (hs : List Header) (hwf : ∀ h ∈ hs, h.rng.s < h.rng.e) :
    ∃ bs, pyBlocks toks hs = .ok bs ∧ ∀ b ∈ bs, 0 < b.e ∧ b.e ≤ toks.length :=
  pyBlocks_ok toks hs hwf

/-- the scope builder itself (`min`/`max` over the selected blocks) never raises, whatever the
headers and blocks are -/
theorem buildScopesLoop_total (hs : List Header) (blocks : List Range) :
    ∃ r, buildScopesLoop hs blocks = .ok r := by
  obtain ⟨r, h, _⟩ := buildScopesLoop_spec hs blocks
  exact ⟨r, h⟩

/-! ## non-vacuity: concrete inputs with two measurements -/

open CL.Ex

/-- the tokens of `int f() {\n}\nint g() {\n}\n` (C) -/
def cToks : List Tok :=
  [kwT [105,110,116] 1 1, wsT [32] 1 4, nmT [102] 1 5, puT [40] 1 6, puT [41] 1 7, wsT [32] 1 8,
   puT [123] 1 9, wsT [10] 1 10, puT [125] 2 1, wsT [10] 2 2,
   kwT [105,110,116] 3 1, wsT [32] 3 4, nmT [103] 3 5, puT [40] 3 6, puT [41] 3 7, wsT [32] 3 8,
   puT [123] 3 9, wsT [10] 3 10, puT [125] 4 1, wsT [10] 4 2]

/-- the tokens of `def f():\n  pass\ndef g():\n  pass\n` (Python) -/
def pyToks : List Tok :=
  [kwT [100,101,102] 1 1, wsT [32] 1 4, nmT [102] 1 5, puT [40] 1 6, puT [41] 1 7, puT [58] 1 8,
   wsT [10] 1 9, wsT [32,32] 2 1, kwT [112,97,115,115] 2 3, wsT [10] 2 7,
   kwT [100,101,102] 3 1, wsT [32] 3 4, nmT [103] 3 5, puT [40] 3 6, puT [41] 3 7, puT [58] 3 8,
   wsT [10] 3 9, wsT [32,32] 4 1, kwT [112,97,115,115] 4 3, wsT [10] 4 7]

example : Gen.c ∈ Gen.all.map (·.2) ∧
    scanFile Gen.c cToks = .ok [⟨[102], 1, 5, 2, 2, 2⟩, ⟨[103], 3, 5, 4, 2, 2⟩] :=
  ⟨by simp [Gen.all], scanFile_eval (by decide +kernel)⟩

example : Gen.python ∈ Gen.all.map (·.2) ∧
    scanFile Gen.python pyToks = .ok [⟨[102], 1, 1, 2, 7, 2⟩, ⟨[103], 3, 1, 4, 7, 2⟩] :=
  ⟨by simp [Gen.all], scanFile_eval (by decide +kernel)⟩

/-- a token list with arbitrary (unordered) positions is analysed without error as well
(TypeScript; a Python list with unordered and repeated positions is `C05.pyUnordered`) -/
example : ∃ ms, scanFile Gen.typescript
    [puT [123] 5 1, puT [123] 1 2, puT [125] 1 3, nmT [102] 1 4, puT [40] 1 5, puT [41] 1 6,
     opT [58] 1 7, puT [125] 1 8] = .ok ms :=
  scanFile_total _ (by simp [Gen.all]) _

end CL.C03
