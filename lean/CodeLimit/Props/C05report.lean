import CodeLimit.Props.Pipeline
/-!
# C05 on the REPORT, at full strength

`Pipe.report_measurements_wf` states C05 about the report a scan writes with the predicate
`Pipeline.MeasWf`, which lacks the upper bounds on the columns (they need one more clause of the
lexer contract).  Here the report-level statement carries the whole clause,
`C05text.MeasurementTextWF`: every measurement of every file entry of the report is the image
(`measOf`: the same numbers as integers) of a measurement that

* starts at the position of a code token and ends just past a code token of the lexer output of
  the file's decoded text (and `location_to_index` maps both positions back to their offsets),
* has `1 ≤ start line ≤ end line ≤ number of lines`, the start strictly before the end,
  `1 ≤ start column ≤ |start line|`, `1 ≤ end column ≤ |end line| + 1`,
* carries as name the text of a `Name` token lying inside its span,
* has `1 ≤ length ≤` number of distinct lines on which code tokens of its span begin.

The only hypothesis beyond those of `Pipe.report_measurements_wf` is the last clause of the lexer
contract, `LexerNames`: no keyword or name token of a supported lexer begins with a newline
(`Spec/Scan.NamesStartInLine`; needed: `C05text.start_column_past_line`).  It belongs into
`Spec/Pipeline.LexerOk`; it is kept separate here only because that file has another owner.
-/
namespace CL.C05report

open CL CL.Sel CL.Pipeline CL.Compose

/-- the clause of the lexer contract that `Spec/Pipeline.LexerOk` lacks: no keyword or name token
of a supported lexer begins with a newline character -/
def LexerNames (E : Env) : Prop := ∀ i text, i < numLangs → NamesStartInLine (E.lexOf i text)

variable {E : Env} {R : Pipeline.Run} {rn : Str} {ch : List Sel.Node} {prev : Option Str}
  {d : Json.ReportData} {bytes : Str}

/-- **every measurement in the report satisfies the per-measurement clause of C05 for the text of
its file** (`MeasurementTextWF`, see the header), the functions of a file are listed in source
order with distinct starts, and the file's `loc` is the sum of its function lengths.  The text is
the decoding of the bytes of the qualifying file the entry belongs to, the tokens are the output
of the lexer chosen from the file's name. -/
theorem report_measurements_c05 (hE : EnvBase E) (hN : LexerNames E) (hwf : wfDir ch = true)
    (hprev : HistoryOk E R.pats ch prev) (h : scan E R (.dir rn ch) prev = .ok (d, bytes)) :
    ∀ k f, (k, f) ∈ d.files → ∃ p c lang, C11pat.Qualifies R.pats (langOf E) ch p c lang ∧
      k = joinPath p ∧ f.checksum = E.checksum c ∧
      (∀ m ∈ f.measurements, ∃ m0 : Measurement, m = measOf m0 ∧
        C05text.MeasurementTextWF (E.decode c) (E.lexOf lang (E.decode c)) m0) ∧
      f.measurements.Pairwise (fun a b => a.sl < b.sl ∨ (a.sl = b.sl ∧ a.sc < b.sc)) ∧
      f.loc = (f.measurements.map (·.value)).sum := by
  intro k f hkf
  obtain ⟨p, c, lang, x, ms, hq, hx, ha, rfl, rfl⟩ := ((Pipe.report_files_exact hE hwf hprev h).2.2 k f).1 hkf
  have hlt := langOf_lt hq.2.2.2.2
  have hL := lang_mem_all hx
  have hraw := hE.lexer.tiles lang (E.decode c) hlt
  have hne := hE.lexer.nonempty lang (E.decode c) hlt
  obtain ⟨_, _, _, _, _, _, _, hrest⟩ := Pipe.report_measurements_wf hE hwf hprev h _ _ hkf
  refine ⟨p, c, lang, hq, rfl, rfl, ?_, hrest.1, hrest.2⟩
  intro m hm
  obtain ⟨m0, hm0, rfl⟩ := List.mem_map.1 hm
  exact ⟨m0, rfl, C05text.measurement_text_clause x.2 hL _ _ hraw hne (hN lang _ hlt) ms _ ha m0 hm0⟩

/-! ## non-vacuity: the example environment of `Props/Pipeline.lean` -/

open CL.Pipe.Ex CL.C01tree.Ex CL.C01pyfull.Ex CL.C01text.Ex in
/-- the extra clause holds for the example environment (a C and a Python lexer output) -/
theorem exE_names : LexerNames exE := by
  intro i text _
  show NamesStartInLine (if i = 0 ∧ text = cText then rawOf cppTree
    else if i = 5 ∧ text = pyText then pyRawOf tree else [])
  by_cases h1 : i = 0 ∧ text = cText
  · rw [if_pos h1]; decide +kernel
  · rw [if_neg h1]
    by_cases h2 : i = 5 ∧ text = pyText
    · rw [if_pos h2]; decide +kernel
    · rw [if_neg h2]; intro r hr; cases hr

open CL.Pipe.Ex in
/-- hence all hypotheses of `report_measurements_c05` hold for the example scan, and every
measurement of its report satisfies the full clause -/
example : ∀ k f, (k, f) ∈ exReport.files → ∃ p c lang,
    C11pat.Qualifies exR.pats (langOf exE) exTree p c lang ∧ k = joinPath p ∧ f.checksum = exE.checksum c ∧
    ∀ m ∈ f.measurements, ∃ m0 : Measurement, m = measOf m0 ∧
      C05text.MeasurementTextWF (exE.decode c) (exE.lexOf lang (exE.decode c)) m0 := by
  intro k f hkf
  obtain ⟨p, c, lang, h1, h2, h3, h4, _⟩ :=
    report_measurements_c05 exE_ok.toEnvBase exE_names exTree_ok.wf (HistoryOk.fresh _ _ _) ex_scan k f hkf
  exact ⟨p, c, lang, h1, h2, h3, h4⟩

end CL.C05report
