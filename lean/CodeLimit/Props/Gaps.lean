import CodeLimit.Lemmas.GapsDoc
import CodeLimit.Lemmas.GapsPrint
import CodeLimit.Lemmas.GapsDecode
import CodeLimit.Lemmas.GapsAscii
import CodeLimit.Model.CacheBytes
import CodeLimit.Props.C08
import CodeLimit.Props.C10
import CodeLimit.Props.C07
import CodeLimit.Props.C18
import CodeLimit.Spec.GapsRender
/-!
# Gaps named by the coverage map (notes/coverage.md, 2.4): statements that tie modelled Python
# functions to the property theorems

Part 1 - `ReportReader.get_report_version`, `utils.read_report`: the version of a written report
         is read back; a report of another version is refused; link to `C09.foreign_version_refused`.
Part 2 - `commands/scan.py: _read_cached_report`, `_is_well_formed`, `_is_int`: written reports are
         well-formed; exactly which documents the reader accepts and which entries are rejected;
         the abstraction function from the text of the cache file to `Cache.CacheFile`
         (`abstractCache`) commutes with reading, never makes a damaged file reusable, and
         satisfies the three clauses of `Cache.ByteContract` (C10).

Part 3 - what `check` prints (`CheckResult.report`, `CheckResult.add`, `utils.format_measurement`):
         one line per listed function, file by file, longest first; the numbers are those of C02's
         model; the printed path denotes the file that was checked.

Part 4 - `Scanner._read_file`: every byte string is decoded to some text (UTF-8 when well-formed,
         else Latin-1), the decoder is exactly well-formed UTF-8, the text has no carriage return
         and no surrogate (the assumptions of C16 and C08), `scan` and `check` read the same text.

Part 5 - `report_command` / `findings_command` on a written report: what `read_report` hands on is
         rendered with the stored numbers (composition of parts 1-2, C08 and C18).

Reading aids (restate a model definition by unfolding; kept for orientation, not properties):
`read_file_total`, `line_fields`, `one_line_per_listed_function`, `lines_file_by_file`,
`printedPathStr_eq`, `read_report_missing`, the last conjunct of `damaged_not_reusable`.

Models: `Model/CacheDoc.lean`, `Model/CheckPrint.lean`, `Model/Decode.lean`; vocabulary:
`Spec/GapsDoc.lean`, `Spec/GapsPrint.lean`, `Spec/GapsDecode.lean`.  `cur` is `Report.VERSION`,
`buildOk` says that `Codebase.add_file*; aggregate` does not raise for a list of paths (C07).
-/
namespace CL.Gaps

open CL CL.Json

/-! # Part 1: the report version -/

/-- `get_report_version` on the VALUE of a report document (whatever the three `dict`s look
like) returns the report's version: the string, or `None` (`null`). -/
theorem version_of_value (mk : List (Str × JVal) → List (Str × JVal)) (d : ReportData) :
    getReportVersion (toJsonWith mk d) = .ok (some (optJson d.version)) := by
  simp [getReportVersion, toJsonWith, lookup]

/-- **The version is read back from the written text**, pretty and compact:
`ReportReader.get_report_version(ReportWriter(report, pretty).to_json()) == report.version`, for
every report whose strings are Python strings without an adjacent surrogate pair (no hypothesis
on the keys is needed). -/
theorem version_written (d : ReportData) (hd : GoodReport d) (p : Bool) :
    (parseJson (write p d)).map getReportVersion = some (.ok (some (optJson d.version))) := by
  rw [C08.valid_json_dict d hd p, Option.map_some, toJsonDict, version_of_value]

/-- The test `report_version != Report.VERSION` of `read_report` on the written text: it passes
exactly when the report's version is the tool's. -/
theorem version_test_written (cur : Str) (d : ReportData) (hd : GoodReport d) (p : Bool) :
    (parseJson (write p d)).map (fun v => (getReportVersion v).map (versionOptIs cur)) =
      some (.ok (decide (d.version = some cur))) := by
  rw [C08.valid_json_dict d hd p, Option.map_some, toJsonDict, version_of_value]
  cases h : d.version with
  | none => simp [Except.map, versionOptIs, versionIs, optJson]
  | some s => simp [Except.map, versionOptIs, versionIs, optJson]

/-- **`read_report` refuses a report written by another version** ("Report version mismatch, run
scan first", exit code 1) - whatever else the document holds; and it hands a report of the
tool's version to `report` / `findings` with the content that was written (hypotheses as in
`C08.round_trip`, plus: the path arithmetic of `add_file` / `aggregate` does not raise). -/
theorem read_report_written (cur : Str) (buildOk : List Str → Bool) (d : ReportData) (hd : GoodReport d) (p : Bool) :
    (d.version ≠ some cur → readReportDoc cur buildOk (some (write p d)) = .mismatch) ∧
    (d.version = some cur → DistinctKeys d → buildOk (d.files.map (·.1)) = true →
      readReportDoc cur buildOk (some (write p d)) = .shown d.untyped) := by
  have hv := C08.valid_json_dict d hd p
  have hver : getReportVersion (toJsonDict d) = .ok (some (optJson d.version)) := version_of_value _ d
  constructor
  · intro hne
    simp only [readReportDoc, hv, hver]
    have : versionOptIs cur (some (optJson d.version)) = false := by
      cases h : d.version with
      | none => rfl
      | some s =>
        simp only [versionOptIs, versionIs, optJson, decide_eq_false_iff_not]
        intro e; exact hne (by rw [h, e])
    simp [this]
  · intro he hk hb
    simp only [readReportDoc, hv, hver]
    have : versionOptIs cur (some (optJson d.version)) = true := by
      rw [he]; simp [versionOptIs, versionIs, optJson]
    rw [C08.toJsonDict_eq d hk, fromJsonU_toJson buildOk d hk.files hb]
    simp [this]

/-- READING AID (`rfl`): a missing file: "No cached report found, run scan first" -/
theorem read_report_missing (cur : Str) (buildOk : List Str → Bool) :
    readReportDoc cur buildOk none = .noReport := rfl

/-! ## link to the abstract cache file of C09 -/

/-- **The abstraction of the text written by ANY version `v'` is `CacheFile.doc v' rows`**: the
abstract document on which `C09.foreign_version_refused` and the state machine of C09 / C10 are
stated.  (`rows` = path, checksum, language, line total and measurements of every file, in
document order.) -/
theorem abstract_written (buildOk : List Str → Bool) (d : ReportData) (hd : GoodReport d) (hk : DistinctKeys d)
    (hb : buildOk (d.files.map (·.1)) = true) (p : Bool) :
    abstractCache buildOk (some (write p d)) = .doc d.version d.rows := by
  have hv := C08.valid_json_dict d hd p
  rw [C08.toJsonDict_eq d hk] at hv
  have hr : (d.untyped.files.mapM fun kv => kv.2.row? kv.1) = some d.rows := rows?_untyped d
  simp only [abstractCache, hv, fromJsonU_toJson buildOk d hk.files hb, hr]
  cases h : d.version <;> simp [ReportData.untyped, h, optJson, versionTag]

/-- Hence the abstract `read_report` of `Model/Cache.lean` refuses the text written by a version
other than the tool's and shows the rows otherwise (`C09.foreign_version_refused` instantiated at
the abstraction of real text). -/
theorem foreign_version_refused_written (cur : Str) (buildOk : List Str → Bool) (d : ReportData) (hd : GoodReport d)
    (hk : DistinctKeys d) (hb : buildOk (d.files.map (·.1)) = true) (p : Bool) :
    (Cache.readReport (readParams cur) (abstractCache buildOk (some (write p d))) = .refuse ↔ d.version ≠ some cur) ∧
    (Cache.readReport (readParams cur) (abstractCache buildOk (some (write p d))) = .shown d.rows ↔ d.version = some cur) := by
  rw [abstract_written buildOk d hd hk hb p]
  exact C09.foreign_version_refused (readParams cur) d.version d.rows

/-- **Concrete and abstract `read_report` agree on every file** that the abstraction classifies
as missing or as a document (for junk the abstract model says `unspecified`): no file - no
report; a document of another version - mismatch; a document of the tool's version - a report
whose rows are the abstract document's rows. -/
theorem read_report_abstract (cur : Str) (buildOk : List Str → Bool) (file : Option Str) :
    (abstractCache buildOk file = .missing → readReportDoc cur buildOk file = .noReport) ∧
    (∀ v es, abstractCache buildOk file = .doc v es →
      (v ≠ some cur → readReportDoc cur buildOk file = .mismatch) ∧
      (v = some cur → ∃ r, readReportDoc cur buildOk file = .shown r ∧ r.rows? = some es)) := by
  cases file with
  | none => exact ⟨fun _ => rfl, fun v es h => by cases h⟩
  | some text =>
    refine ⟨fun h => ?_, fun v es h => ?_⟩
    · simp only [abstractCache] at h
      split at h
      · cases h
      · split at h
        · cases h
        · split at h <;> cases h
    · simp only [abstractCache] at h
      split at h
      · cases h
      · rename_i d hd
        split at h
        · cases h
        · rename_i r hr
          split at h
          · cases h
          · rename_i rows hrows
            cases h
            obtain ⟨ms, cb, fs, entries, rfl, h1, h2, h3, _⟩ := (fromJsonU_ok_iff _ _ _).1 hr
            have hgv : getReportVersion (.obj ms) = .ok (lookup (cp! "version") ms) := rfl
            have hvo : versionOptIs cur (lookup (cp! "version") ms) = versionIs cur r.version := by
              rw [h3]; cases lookup (cp! "version") ms <;> rfl
            simp only [readReportDoc, hd, hgv, hvo, hr]
            constructor
            · intro hne
              have : versionIs cur r.version = false := by
                cases hb : versionIs cur r.version with
                | false => rfl
                | true => exact absurd ((versionIs_iff cur _).1 hb) hne
              simp [this]
            · intro he
              have : versionIs cur r.version = true := (versionIs_iff cur _).2 he
              simp only [this, if_true]
              exact ⟨r, rfl, hrows⟩

/-! # Part 2: `_is_well_formed`, `_read_cached_report`, the abstraction function -/

/-- **Every written report is well-formed**: `_is_well_formed(ReportReader.from_json(text))` holds
for the text of every report (pretty and compact), and the reader returns the report's content. -/
theorem wellFormed_written (buildOk : List Str → Bool) (d : ReportData) (hd : GoodReport d) (hk : DistinctKeys d)
    (hb : buildOk (d.files.map (·.1)) = true) (p : Bool) :
    (parseJson (write p d)).map (fromJsonU buildOk) = some (.ok d.untyped) ∧ d.untyped.wellFormed = true := by
  have hv := C08.valid_json_dict d hd p
  rw [C08.toJsonDict_eq d hk] at hv
  refine ⟨by rw [hv, Option.map_some, fromJsonU_toJson buildOk d hk.files hb], ?_⟩
  simp [UReport.wellFormed, ReportData.untyped, wellFormed_untyped_file]

/-- **`_read_cached_report` returns the written report** when it was written by the tool's
version, and `None` when it was written by another version. -/
theorem read_cached_written (cur : Str) (buildOk : List Str → Bool) (d : ReportData) (hd : GoodReport d)
    (hk : DistinctKeys d) (hb : buildOk (d.files.map (·.1)) = true) (p : Bool) :
    readCachedDoc cur buildOk (some (write p d)) = if d.version = some cur then some d.untyped else none := by
  have hv := C08.valid_json_dict d hd p
  rw [C08.toJsonDict_eq d hk] at hv
  have hw := (wellFormed_written buildOk d hd hk hb p).2
  simp only [readCachedDoc, hv, fromJsonU_toJson buildOk d hk.files hb, hw, Bool.and_true]
  cases h : d.version with
  | none => simp [ReportData.untyped, h, optJson, versionIs]
  | some s => simp [ReportData.untyped, h, optJson, versionIs]

/-! ## which values `_is_int` and the `isinstance(_, str)` tests accept -/

/-- `_is_int` accepts exactly the JSON integers: not `true` / `false` (the reason for
`not isinstance(value, bool)`), not a float (`1.0`, `1e3`, `NaN`), not `null`, a string, a
list or an object. -/
theorem isInt_spec (v : JVal) : isInt v = true ↔ ∃ n, v = .num n := isInt_iff v

theorem isInt_rejects :
    isInt (.bool true) = false ∧ isInt (.bool false) = false ∧ isInt .null = false ∧
    (∀ l, isInt (.real l) = false) ∧ (∀ k, isInt (.nonfinite k) = false) ∧ (∀ s, isInt (.str s) = false) ∧
    (∀ xs, isInt (.arr xs) = false) ∧ (∀ ms, isInt (.obj ms) = false) :=
  ⟨rfl, rfl, rfl, fun _ => rfl, fun _ => rfl, fun _ => rfl, fun _ => rfl, fun _ => rfl⟩

theorem isStr_spec (v : JVal) : isStr v = true ↔ ∃ s, v = .str s := isStr_iff v

/-- **What `_is_well_formed` rejects**: a report is rejected iff some entry has a checksum or
language that is not a string, a line total that is not an integer, or a measurement whose unit
name is not a string or one of whose five numbers is not an integer. -/
theorem wellFormed_false_iff (r : UReport) :
    r.wellFormed = false ↔ ∃ kv ∈ r.files,
      isStr kv.2.checksum = false ∨ isStr kv.2.language = false ∨ isInt kv.2.loc = false ∨
      ∃ m ∈ kv.2.measurements, isStr m.unitName = false ∨ isInt m.sl = false ∨ isInt m.sc = false ∨
        isInt m.el = false ∨ isInt m.ec = false ∨ isInt m.value = false := by
  have hm : ∀ m : UMeas, m.wellFormed = false ↔ (isStr m.unitName = false ∨ isInt m.sl = false ∨ isInt m.sc = false ∨
      isInt m.el = false ∨ isInt m.ec = false ∨ isInt m.value = false) := by
    intro m
    unfold UMeas.wellFormed
    cases isStr m.unitName <;> cases isInt m.sl <;> cases isInt m.sc <;> cases isInt m.el <;> cases isInt m.ec <;>
      cases isInt m.value <;> simp
  have hf : ∀ f : UFile, f.wellFormed = false ↔ (isStr f.checksum = false ∨ isStr f.language = false ∨ isInt f.loc = false ∨
      ∃ m ∈ f.measurements, m.wellFormed = false) := by
    intro f
    unfold UFile.wellFormed
    rw [Bool.and_eq_false_iff, List.all_eq_false]
    cases isStr f.checksum <;> cases isStr f.language <;> cases isInt f.loc <;> simp
  unfold UReport.wellFormed
  rw [List.all_eq_false]
  constructor
  · rintro ⟨kv, hkv, h⟩
    have h' : kv.2.wellFormed = false := by simpa using h
    refine ⟨kv, hkv, ?_⟩
    rcases (hf kv.2).1 h' with h | h | h | ⟨m, hmm, h⟩
    · exact Or.inl h
    · exact Or.inr (Or.inl h)
    · exact Or.inr (Or.inr (Or.inl h))
    · exact Or.inr (Or.inr (Or.inr ⟨m, hmm, (hm m).1 h⟩))
  · rintro ⟨kv, hkv, h⟩
    refine ⟨kv, hkv, ?_⟩
    have : kv.2.wellFormed = false := by
      apply (hf kv.2).2
      rcases h with h | h | h | ⟨m, hmm, h⟩
      · exact Or.inl h
      · exact Or.inr (Or.inl h)
      · exact Or.inr (Or.inr (Or.inl h))
      · exact Or.inr (Or.inr (Or.inr ⟨m, hmm, (hm m).2 h⟩))
    simp [this]

/-- well-formed = every entry can be given the types of the cache model -/
theorem wellFormed_iff_typable (r : UReport) : r.wellFormed = true ↔ ∃ rows, r.rows? = some rows := by
  rw [← rows?_isSome, Option.isSome_iff_exists]

/-! ## which documents the reader accepts -/

/-- **The shape `ReportReader.from_json` needs**: it returns a report iff the document is an
object with `root`, `uuid`, `codebase.files` (an object whose members are objects with
`checksum`, a hashable `language`, a numeric `loc` and a list `measurements` of objects with
`unit_name`, a numeric `value`, and `start` / `end` objects with `line` and `column`), a
`repository` (if present) that is an object with `owner`, `name` and at most `branch`, `tag`
besides - and the path arithmetic does not raise.  Everything else (a missing key, a value of
another shape) makes it raise one of the exceptions `_read_cached_report` catches. -/
theorem reader_accepts_iff (buildOk : List Str → Bool) (d : JVal) :
    (∃ r, fromJsonU buildOk d = .ok r) ↔ ∃ fs, DocShape d fs ∧ buildOk (fs.map (·.1)) = true :=
  docShape_iff buildOk d

/-- The typed reader of `Model/Report.lean` (the one C08 is stated on) is a restriction of the
real, dynamically typed one: where it succeeds, Python's reader succeeds, `_is_well_formed`
holds, and version, uuid, root and the cache rows are the same. -/
theorem typed_reader_sound (build : List (Str × FileData) → List (Str × Totals) × List (Str × Folder))
    (profileOf : List Meas → List Int) (now : Str) (buildOk : List Str → Bool) (v : JVal) (t : ReportData)
    (h : fromJson build profileOf now v = .ok t) (hb : buildOk ((docFiles v).map (·.1)) = true) :
    ∃ u, fromJsonU buildOk v = .ok u ∧ u.wellFormed = true ∧ u.rows? = some t.rows ∧
      u.version = optJson t.version ∧ u.uuid = .str t.uuid ∧ u.root = .str t.root :=
  fromJson_untyped build profileOf now buildOk v t h hb

/-- The converse fails, and harmlessly: `_is_well_formed` does not look at `root` (nor `uuid`,
nor the repository); a document with `"root": 5` is accepted by Python's reader, is
well-formed and is reused by the next scan (which never reads the cached root), while the typed
reader answers `type`. -/
theorem typed_reader_not_complete :
    let doc := cp! "{\"version\": \"1\", \"root\": 5, \"uuid\": \"u\", \"codebase\": {\"files\": {}}}"
    (parseJson doc).map (fromJson (fun _ => ([], [])) (fun _ => []) []) = some (.error .type) ∧
    (readCachedDoc (cp! "1") (fun _ => true) (some doc)).isSome = true := by
  constructor <;> decide +kernel

/-- `typed_reader_sound` applies to the hostile sample report of C08 (surrogates, quotes, control
characters): Python's reader accepts the document the typed reader accepts, finds it well-formed,
and returns the same uuid and root -/
example : ∃ u, fromJsonU (fun _ => true) (toJson C08.sample) = .ok u ∧ u.wellFormed = true ∧
    u.uuid = .str C08.sample.uuid ∧ u.root = .str C08.sample.root := by
  have h := C08.read_back (fun _ => ([], [])) (fun _ => []) [] C08.sample C08.sample_distinct.files
  obtain ⟨u, h1, h2, _, _, h5, h6⟩ := typed_reader_sound _ _ _ (fun _ => true) _ _ h rfl
  exact ⟨u, h1, h2, h5, h6⟩

/-! ## the abstraction function -/

/-- **The abstraction commutes with reading**: what the abstract `_read_cached_report` of
`Model/Cache.lean` makes of the abstract cache file is what the concrete `_read_cached_report`
makes of the text (as cache rows), for every file. -/
theorem read_cached_abstract (cur : Str) (buildOk : List Str → Bool) (file : Option Str) :
    Cache.readCachedReport (readParams cur) (abstractCache buildOk file) =
      (readCachedDoc cur buildOk file).bind UReport.rows? := by
  cases file with
  | none => rfl
  | some text =>
    cases hp : parseJson text with
    | none => simp [abstractCache, readCachedDoc, hp, Cache.readCachedReport]
    | some d =>
      cases hr : fromJsonU buildOk d with
      | error e => simp [abstractCache, readCachedDoc, hp, hr, Cache.readCachedReport]
      | ok r =>
        have hw := rows?_isSome r
        cases hrows : r.rows? with
        | none =>
          have hrows' : (r.files.mapM fun kv => kv.2.row? kv.1) = none := hrows
          rw [hrows] at hw
          have hw' : r.wellFormed = false := hw.symm
          simp [abstractCache, readCachedDoc, hp, hr, hrows', hw', Cache.readCachedReport]
        | some rows =>
          have hrows' : (r.files.mapM fun kv => kv.2.row? kv.1) = some rows := hrows
          rw [hrows] at hw
          have hw' : r.wellFormed = true := hw.symm
          by_cases hv : versionIs cur r.version = true
          · have := (versionIs_iff cur _).1 hv
            simp [abstractCache, readCachedDoc, hp, hr, hrows', hw', Cache.readCachedReport, readParams, hv, this, hrows]
          · have : versionTag r.version ≠ some cur := fun e => hv ((versionIs_iff cur _).2 e)
            simp [abstractCache, readCachedDoc, hp, hr, hrows', hw', Cache.readCachedReport, readParams, hv, this]

/-- what the concrete reader returns is always typable: `_read_cached_report` never hands an
ill-typed entry to the scan -/
theorem read_cached_typable (cur : Str) (buildOk : List Str → Bool) (file : Option Str) (r : UReport)
    (h : readCachedDoc cur buildOk file = some r) :
    versionIs cur r.version = true ∧ ∃ rows, r.rows? = some rows := by
  cases file with
  | none => cases h
  | some text =>
    simp only [readCachedDoc] at h
    split at h
    · cases h
    · split at h
      · cases h
      · split at h
        · rename_i hc
          cases h
          simp only [Bool.and_eq_true] at hc
          exact ⟨hc.1, (wellFormed_iff_typable _).1 hc.2⟩
        · cases h

/-- **A cache file is reusable only if it is an intact, well-formed document of the tool's
version** - the exact condition: the abstract cache file yields rows for a scan iff the text
parses as JSON, the reader accepts the value, its version is the tool's, and every entry is
well-formed (then the rows are those entries). -/
theorem reusable_iff (cur : Str) (buildOk : List Str → Bool) (file : Option Str) (rows : List (Str × Str × CEntry)) :
    Cache.readCachedReport (readParams cur) (abstractCache buildOk file) = some rows ↔
      ∃ text d r, file = some text ∧ parseJson text = some d ∧ fromJsonU buildOk d = .ok r ∧
        versionIs cur r.version = true ∧ r.wellFormed = true ∧ r.rows? = some rows := by
  rw [read_cached_abstract]
  constructor
  · intro h
    obtain ⟨r, hr, hrows⟩ := Option.bind_eq_some_iff.1 h
    cases file with
    | none => cases hr
    | some text =>
      simp only [readCachedDoc] at hr
      split at hr
      · cases hr
      · rename_i d hd
        split at hr
        · cases hr
        · rename_i r' hr'
          split at hr
          · rename_i hc
            cases hr
            simp only [Bool.and_eq_true] at hc
            exact ⟨text, d, r, rfl, hd, hr', hc.1, hc.2, hrows⟩
          · cases hr
  · rintro ⟨text, d, r, rfl, hd, hr, hv, hw, hrows⟩
    simp [readCachedDoc, hd, hr, hv, hw, hrows]

/-- **Damaged files are never reusable**: a missing file, a text that is not JSON (empty,
truncated, garbage), a JSON value the reader does not accept (wrong top-level type, a missing
key, a value of the wrong shape: `reader_accepts_iff`), and a document with an ill-typed entry
(`wellFormed_false_iff`) all give "no cache", and are classified `missing` / `junk unreadable` /
`junk illTyped` by the abstraction.  (Conjuncts 2-4 unfold `abstractCache` under the stated
hypothesis; the last conjunct is `rfl` on the constructors of the abstract cache file - it records
how `Cache.readCachedReport` is defined on `missing` / `junk`, the content is in `reusable_iff`.) -/
theorem damaged_not_reusable (cur : Str) (buildOk : List Str → Bool) :
    abstractCache buildOk none = .missing ∧
    (∀ text, parseJson text = none → abstractCache buildOk (some text) = .junk .unreadable) ∧
    (∀ text d, parseJson text = some d → (¬ ∃ fs, DocShape d fs ∧ buildOk (fs.map (·.1)) = true) →
      abstractCache buildOk (some text) = .junk .unreadable) ∧
    (∀ text d r, parseJson text = some d → fromJsonU buildOk d = .ok r → r.wellFormed = false →
      abstractCache buildOk (some text) = .junk .illTyped) ∧
    (∀ c, c = .missing ∨ (∃ k, c = .junk k) →
      Cache.readCachedReport (readParams cur) (c : Cache.CacheFile Str Str CEntry (Option Str)) = none) := by
  refine ⟨rfl, ?_, ?_, ?_, ?_⟩
  · intro text h; simp [abstractCache, h]
  · intro text d hd hns
    cases hr : fromJsonU buildOk d with
    | error e => simp [abstractCache, hd, hr]
    | ok r => exact absurd ((reader_accepts_iff buildOk d).1 ⟨r, hr⟩) hns
  · intro text d r hd hr hw
    have : r.rows? = none := by
      have := rows?_isSome r
      rw [hw] at this
      cases h : r.rows? with
      | none => rfl
      | some x => rw [h] at this; cases this
    have this' : (r.files.mapM fun kv => kv.2.row? kv.1) = none := this
    simp [abstractCache, hd, hr, this']
  · rintro c (rfl | ⟨k, rfl⟩)
    · rfl
    · cases k <;> rfl

/-! ## the byte contract of C10, for the real abstraction

`Cache.ByteContract` (Spec/Cache.lean) is the hypothesis `hB` of `C10.truncated_read` and
`C10.truncated_write_harmless`.  Its three clauses hold for `readCache := abstractCache ∘ some`
and `writeReport := write p`, for every report of the kind C08 speaks about (bytes = code
points: the writer emits ASCII only). -/

/-- (a) round trip: `abstract_written`. (b) **a cut that removes more than trailing white space
leaves an unreadable file** -/
theorem cache_prefix_junk (buildOk : List Str → Bool) (d : ReportData) (hd : GoodReport d) (p : Bool)
    (pre q : Str) (hsplit : write p d = pre ++ q) (hq : ¬ AllWs q) :
    abstractCache buildOk (some pre) = .junk .unreadable := by
  simp [abstractCache, C08.no_proper_prefix_parses d hd p pre q hsplit hq]

/-- (c) **a cut that removes only trailing white space leaves a file that reads like the whole** -/
theorem cache_ws_cut (buildOk : List Str → Bool) (d : ReportData) (hd : GoodReport d) (p : Bool)
    (pre q : Str) (hsplit : write p d = pre ++ q) (hq : AllWs q) :
    abstractCache buildOk (some pre) = abstractCache buildOk (some (write p d)) := by
  simp only [abstractCache, C08.trailing_ws_prefix_parses d hd p pre q hsplit hq, C08.valid_json_dict d hd p]

/-- `C10.truncated_read` without the contract as hypothesis: what a reader sees after the write of
a report was cut short at ANY offset is what the abstract operation `truncate` yields. -/
theorem truncated_read_doc (buildOk : List Str → Bool) (d : ReportData) (hd : GoodReport d) (hk : DistinctKeys d)
    (hb : buildOk (d.files.map (·.1)) = true) (p : Bool) (pre q : Str) (hsplit : write p d = pre ++ q) :
    abstractCache buildOk (some pre) = Cache.truncateCache (q.all isWs) (.doc d.version d.rows) := by
  cases hall : q.all isWs with
  | true =>
    have hq : AllWs q := fun c hc => (List.all_eq_true.1 hall) c hc
    rw [cache_ws_cut buildOk d hd p pre q hsplit hq, abstract_written buildOk d hd hk hb p]
    rfl
  | false =>
    have hq : ¬ AllWs q := by
      intro h
      rw [List.all_eq_false] at hall
      obtain ⟨c, hc, hw⟩ := hall
      exact hw (h c hc)
    rw [cache_prefix_junk buildOk d hd p pre q hsplit hq]
    rfl

/-! ## the parameter `buildOk` discharged by C07 -/

/-- `buildOkModel` (the codebase model: `add_file*; aggregate` does not raise) holds for every
list of paths none of which starts with `./` - in particular for the paths of every report a
scan writes (`relpath` never produces a leading `./`).  So every hypothesis
`buildOk (d.files.map (·.1)) = true` above is satisfied with `buildOk := buildOkModel` for such
reports. -/
theorem buildOk_admissible (paths : List Str) (h : ∀ p ∈ paths, Codebase.admissible p = true) :
    buildOkModel paths = true := by
  have hadm : C07.Admissible (paths.map fun p => (⟨p, [], [], 0, []⟩ : Codebase.FileEntry)) := by
    intro e he
    obtain ⟨p, hp, rfl⟩ := List.mem_map.1 he
    exact h p hp
  obtain ⟨cb, hcb⟩ := C07.build_ok _ hadm
  simp [buildOkModel, hcb]

/-- `abstract_written` with the codebase model in place of the parameter -/
theorem abstract_written_model (d : ReportData) (hd : GoodReport d) (hk : DistinctKeys d)
    (hp : ∀ kv ∈ d.files, Codebase.admissible kv.1 = true) (p : Bool) :
    abstractCache buildOkModel (some (write p d)) = .doc d.version d.rows :=
  abstract_written buildOkModel d hd hk
    (buildOk_admissible _ (fun q hq => by obtain ⟨kv, hkv, rfl⟩ := List.mem_map.1 hq; exact hp kv hkv)) p

/-- outside that domain the parameter matters: a cache entry under the key `./a/b.py` makes
`add_file` raise `KeyError` (`././x.py`: `RecursionError` in `aggregate`), which
`_read_cached_report` catches - such a file is unreadable, not reusable -/
example : buildOkModel [cp! "./a/b.py"] = false ∧ buildOkModel [cp! "././x.py"] = false ∧
    buildOkModel [cp! "a/x.py", cp! "x.py"] = true := by
  refine ⟨?_, ?_, ?_⟩ <;> decide +kernel

/-! ## from text to BYTES (`Path.write_text`, `Path.read_text`)

`Model/CacheBytes.lean` puts `read_text` (strict UTF-8, universal newlines, no Latin-1 fallback)
in front of the readers. -/

/-- the writer emits ASCII without carriage returns, so the bytes `write_text` stores are the
code points of the document and `read_text` gives the document back -/
theorem read_text_written (p : Bool) (d : ReportData) : readText (write p d) = some (write p d) := by
  have ha := ascii_write p d
  have h1 : Decode.utf8Decode (write p d) = some (write p d) := Decode.utf8Decode_ascii (fun b hb => (ha b hb).1)
  have h2 : Decode.univNl (write p d) = write p d := Decode.univNl_id (fun h => (ha 13 h).2 rfl)
  simp [readText, h1, h2]

/-- **The abstraction of the BYTES written by any version `v'` is `doc v' rows`**; by
`C09.foreign_version_refused` a report written by another version is refused, and by
`C10.damaged_cache_harmless` a scan does not reuse it. -/
theorem abstract_bytes_written (buildOk : List Str → Bool) (d : ReportData) (hd : GoodReport d) (hk : DistinctKeys d)
    (hb : buildOk (d.files.map (·.1)) = true) (p : Bool) :
    abstractCacheBytes buildOk (some (write p d)) = .doc d.version d.rows := by
  simp only [abstractCacheBytes, read_text_written, abstract_written buildOk d hd hk hb p]

/-- the three readers on bytes agree with the readers on text through `read_text`; a file that
is not well-formed UTF-8 is "no cache" for a scan, is classified `junk unreadable`, and makes
`report` / `findings` fail with the decoding error -/
theorem bytes_readers (cur : Str) (buildOk : List Str → Bool) (bs : Decode.Bytes) :
    (Decode.utf8Decode bs = none →
      readCachedBytes cur buildOk (some bs) = none ∧ abstractCacheBytes buildOk (some bs) = .junk .unreadable ∧
      (match readReportBytes cur buildOk (some bs) with | .raises .json => True | _ => False)) ∧
    (∀ s, Decode.utf8Decode bs = some s →
      readCachedBytes cur buildOk (some bs) = readCachedDoc cur buildOk (some (Decode.univNl s)) ∧
      abstractCacheBytes buildOk (some bs) = abstractCache buildOk (some (Decode.univNl s))) := by
  constructor
  · intro h
    simp [readCachedBytes, abstractCacheBytes, readReportBytes, readText, h]
  · intro s h
    simp [readCachedBytes, abstractCacheBytes, readText, h]

/-- the abstraction commutes with reading, on bytes -/
theorem read_cached_bytes_abstract (cur : Str) (buildOk : List Str → Bool) (file : Option Decode.Bytes) :
    Cache.readCachedReport (readParams cur) (abstractCacheBytes buildOk file) =
      (readCachedBytes cur buildOk file).bind UReport.rows? := by
  cases file with
  | none => rfl
  | some bs =>
    simp only [abstractCacheBytes, readCachedBytes]
    cases readText bs with
    | none => rfl
    | some text => exact read_cached_abstract cur buildOk (some text)

/-! ## Non-vacuity -/

/-- the hostile sample report of C08, written by the tool's version -/
def sampleCur : ReportData := { C08.sample with version := some (cp! "0.18.1") }

theorem sampleCur_good : GoodReport sampleCur :=
  ⟨by decide, by decide, by decide, by decide, by intro r h; cases h; decide, by decide, by decide, by decide⟩

theorem sampleCur_distinct : DistinctKeys sampleCur := ⟨by decide, by decide, by decide⟩

/-- `read_report_written`, `read_cached_written`, `abstract_written` apply to the sample
(`buildOk` = the codebase model would do; here the constant `true`) -/
example : readReportDoc (cp! "0.18.1") (fun _ => true) (some (write true sampleCur)) = .shown sampleCur.untyped :=
  (read_report_written _ _ sampleCur sampleCur_good true).2 rfl sampleCur_distinct rfl

example : readReportDoc (cp! "0.18.1") (fun _ => true) (some (write false C08.sample)) = .mismatch :=
  (read_report_written _ _ C08.sample C08.sample_good false).1 (by decide)

example : abstractCache (fun _ => true) (some (write true sampleCur)) = .doc (some (cp! "0.18.1")) sampleCur.rows :=
  abstract_written _ sampleCur sampleCur_good sampleCur_distinct rfl true

example : abstractCacheBytes (fun _ => true) (some (write false sampleCur)) = .doc (some (cp! "0.18.1")) sampleCur.rows :=
  abstract_bytes_written _ sampleCur sampleCur_good sampleCur_distinct rfl false

/-- a cache file that is not UTF-8 (a Latin-1 `é` inside a string) is unreadable, not reusable -/
example :
    abstractCacheBytes (fun _ => true) (some (cp! "{\"version\": \"1\", \"uuid\": \"caf" ++ [233] ++ cp! "\", \"root\": \"/\", \"codebase\": {\"files\": {}}}")) =
      .junk .unreadable ∧
    abstractCacheBytes (fun _ => true) (some (cp! "{\"version\": \"1\", \"uuid\": \"caf" ++ [195, 169] ++ cp! "\", \"root\": \"/\", \"codebase\": {\"files\": {}}}")) =
      .doc (some (cp! "1")) [] := by
  constructor <;> decide +kernel

/-- the model evaluated directly on the sample text (independent of the theorems): the version
is read back, the cached report is reusable under the tool's version and not under another -/
example :
    (parseJson (write true sampleCur)).map (fun v => (getReportVersion v).toOption.map (versionOptIs (cp! "0.18.1"))) =
      some (some true) ∧
    (readCachedDoc (cp! "0.18.1") (fun _ => true) (some (write true sampleCur))).isSome = true ∧
    (readCachedDoc (cp! "0.18.2") (fun _ => true) (some (write true sampleCur))).isSome = false := by
  refine ⟨?_, ?_, ?_⟩ <;> decide +kernel

/-- damaged variants of a small document: a removed key, a retyped value (`"loc": true`,
`"value": 1.5`), a truncation - none is reusable; the classes are the ones the header of
`Model/Cache.lean` describes -/
example :
    let ok := cp! "{\"version\": \"1\", \"uuid\": \"u\", \"root\": \"/\", \"codebase\": {\"files\": {\"a.py\": {\"checksum\": \"c\", \"language\": \"Python\", \"loc\": 3, \"measurements\": [{\"unit_name\": \"f\", \"start\": {\"line\": 1, \"column\": 1}, \"end\": {\"line\": 3, \"column\": 2}, \"value\": 3}]}}}}"
    let noUuid := cp! "{\"version\": \"1\", \"root\": \"/\", \"codebase\": {\"files\": {}}}"
    let boolLoc := cp! "{\"version\": \"1\", \"uuid\": \"u\", \"root\": \"/\", \"codebase\": {\"files\": {\"a.py\": {\"checksum\": \"c\", \"language\": \"Python\", \"loc\": true, \"measurements\": []}}}}"
    let floatValue := cp! "{\"version\": \"1\", \"uuid\": \"u\", \"root\": \"/\", \"codebase\": {\"files\": {\"a.py\": {\"checksum\": \"c\", \"language\": \"Python\", \"loc\": 3, \"measurements\": [{\"unit_name\": \"f\", \"start\": {\"line\": 1, \"column\": 1}, \"end\": {\"line\": 3, \"column\": 2}, \"value\": 1.5}]}}}}"
    let strValue := cp! "{\"version\": \"1\", \"uuid\": \"u\", \"root\": \"/\", \"codebase\": {\"files\": {\"a.py\": {\"checksum\": \"c\", \"language\": \"Python\", \"loc\": 3, \"measurements\": [{\"unit_name\": \"f\", \"start\": {\"line\": 1, \"column\": 1}, \"end\": {\"line\": 3, \"column\": 2}, \"value\": \"3\"}]}}}}"
    abstractCache (fun _ => true) (some ok) =
      .doc (some (cp! "1")) [(cp! "a.py", cp! "c", cp! "Python", 3, [⟨cp! "f", 1, 1, 3, 2, 3⟩])] ∧
    abstractCache (fun _ => true) (some noUuid) = .junk .unreadable ∧
    abstractCache (fun _ => true) (some boolLoc) = .junk .illTyped ∧
    abstractCache (fun _ => true) (some floatValue) = .junk .illTyped ∧
    abstractCache (fun _ => true) (some strValue) = .junk .unreadable ∧
    abstractCache (fun _ => true) (some (ok.take 100)) = .junk .unreadable := by
  refine ⟨?_, ?_, ?_, ?_, ?_, ?_⟩ <;> decide +kernel

/-! # Part 3: what `check` prints -/

section Part3
open CL.Sel CL.Print

/-- READING AID (`simp [listedLines]` on `Model/CheckPrint.lean`).  **One line per listed
function**: `report()` prints as many measurement lines as there are functions in `file_list`, plus
the summary line.  The statements of part 3 with content are `lines_longest_first`,
`lengths_column_is_C02_listed`, `output_is_C02`, `printed_path_denotes`. -/
theorem one_line_per_listed_function (cwd : List Str) (fl : List (CPath × List Measurement)) :
    (listedLines cwd fl).length = (fl.map fun fm => fm.2.length).sum ∧
    (reportLines cwd fl).length = (fl.map fun fm => fm.2.length).sum + 1 := by
  have h : (listedLines cwd fl).length = (fl.map fun fm => fm.2.length).sum := by
    simp [listedLines, List.length_flatMap]
  exact ⟨h, by simp [reportLines, h]⟩

/-- READING AID (unfolds `listedLines`).  **File by file, in the order of `file_list`**: the lines of a file list that is split in two
are the lines of the first part followed by the lines of the second; the lines of one file are
its functions in the order of its `risks`, all with the same printed path. -/
theorem lines_file_by_file (cwd : List Str) (fl1 fl2 : List (CPath × List Measurement)) (f : CPath) (rs : List Measurement) :
    listedLines cwd (fl1 ++ fl2) = listedLines cwd fl1 ++ listedLines cwd fl2 ∧
    listedLines cwd [(f, rs)] = rs.map (lineOf (printedPathStr cwd f)) := by
  simp [listedLines]

/-- READING AID (five `rfl`s on `Model/CheckPrint.lean: lineOf`; only the last conjunct uses a
theorem, `C02.emoji_of_cat`).  **Every line shows the function's name, start position and length,
and the symbol of its category** (`⚠` hard-to-maintain, `✖` unmaintainable). -/
theorem line_fields (path : Str) (m : Measurement) :
    (lineOf path m).path = path ∧ (lineOf path m).name = m.name ∧ (lineOf path m).line = m.sl ∧
    (lineOf path m).col = m.sc ∧ (lineOf path m).value = m.len ∧
    (lineOf path m).emoji = ofString (match C02.cat (m.len : Int) with
      | .easy => "✓" | .verbose => "✓" | .hard => "⚠" | .unmaintainable => "✖") := by
  refine ⟨rfl, rfl, rfl, rfl, rfl, ?_⟩
  show ofString (Gen.Logic.emoji (m.len : Int)) = _
  rw [C02.emoji_of_cat]
  cases C02.cat (m.len : Int) <;> rfl

/-- **Longest first within a file**, for what `check_command` really lists: for every entry of
the `file_list` computed by `Sel.checkPaths` (any tree, any working directory, any arguments) the
lengths printed for that file never increase from one line to the next. -/
theorem lines_longest_first (O : Oracles) (fs : Node) (cwd : List Str) (args : List CheckArg)
    (fl : List (CPath × List Measurement)) (h : (checkPaths O fs cwd args).result = .ok fl) :
    ∀ fm ∈ fl, ((listedLines cwd [fm]).map (·.value)).Pairwise (fun a b => b ≤ a) := by
  intro fm hfm
  obtain ⟨ms, hms⟩ := checkPaths_risks O fs cwd args fl h fm hfm
  have := C12.listed_sorted ms
  rw [← hms] at this
  simp only [listedLines, List.flatMap_cons, List.flatMap_nil, List.append_nil, List.map_map]
  rw [List.pairwise_map]
  exact this

/-- **The lengths column is C02's `listed`**: reading the printed lengths top to bottom gives the
concatenation of the per-file lists of `CL.checkCommand` (the model C02 is proved on), where each
file contributes its measurements longer than 30 lines, longest first (`C02.listed_eq`). -/
theorem lengths_column_is_C02_listed (quiet : Bool) (cwd : List Str) (files : List (CPath × List Measurement)) :
    (listedLines cwd (risksList files)).map (fun l => (l.value : Int)) =
      (checkCommand quiet (lensOf files)).listed.flatten := by
  rw [C02.listed_eq, ← flatMap_risks_lens]
  simp only [listedLines, risksList, List.map_flatMap, List.flatMap_map, List.map_map]
  congr 1

/-- **Exit status, the decision to print, and the summary line are those of C02's model**: the
end of `check_command` on measurements agrees with `CL.checkCommand` on their lengths - same exit
status; nothing printed iff `printed = false`; and when something is printed the last line is
the summary with C02's count (`C02.summary_count_eq`: the number of functions listed) and the
number of files checked. -/
theorem output_is_C02 (quiet : Bool) (cwd : List Str) (files : List (CPath × List Measurement)) :
    let o := checkOutput quiet cwd (risksList files)
    let c := checkCommand quiet (lensOf files)
    o.exitCode = c.exitCode ∧ (o.lines = [] ↔ c.printed = false) ∧
    (c.printed = true → o.lines = (listedLines cwd (risksList files)).map PLine.render ++
      [if c.saysRefactoring then
         natText files.length ++ cp! " files checked, " ++ intText c.count ++ cp! " functions need refactoring."
       else natText files.length ++ cp! " files checked, ✨ Refactoring not necessary ✨, happy coding!"]) := by
  have hc := counters_checkAll files
  simp only [checkOutput, checkCommand, hc, reportLines, summaryLine]
  refine ⟨?_, ?_, ?_⟩
  · first | rfl | trivial
  · by_cases hp : Gen.Logic.check_prints quiet (checkAll (lensOf files)).hard (checkAll (lensOf files)).unm
    · simp [hp]
    · simp [hp]
  · intro hp
    have hp' : Gen.Logic.check_prints quiet (checkAll (lensOf files)).hard (checkAll (lensOf files)).unm :=
      of_decide_eq_true hp
    simp only [hp', decide_true, if_true, risksList, List.length_map]
    by_cases hr : Gen.Logic.check_says_refactoring (checkAll (lensOf files)).hard (checkAll (lensOf files)).unm
    · simp [hr]
    · simp [hr]

/-! ## the printed path -/

/-- **The path printed denotes the file checked**: interpreted relative to the working
directory, the printed path resolves to the same absolute normalised path as the `Path` that was
handed to `check_file` - for every path (absolute or relative, with or without `..`) and every
normalised working directory. -/
theorem printed_path_denotes (cwd : List Str) (hc : Normal cwd) (f : CPath) :
    resolve cwd (printedPath cwd f) = resolve cwd f := by
  unfold printedPath
  split
  · rename_i hin
    simp only [inParents, Bool.and_eq_true] at hin
    have habs : f.abs = true := hin.1
    simp only [resolve, habs, if_true, Bool.false_eq_true, if_false]
    have hn : normComps cwd = cwd := normComps_plain hc
    rw [hn]
    exact norm_start_relpath hc (normComps_all_plain f.comps)
  · rfl

/-- READING AID (`rfl` after a case split): the string that is printed is the string of that path -/
theorem printedPathStr_eq (cwd : List Str) (f : CPath) :
    printedPathStr cwd f = if inParents cwd f then joinPath (printedPath cwd f).comps else pathStr f := by
  unfold printedPathStr printedPath
  split <;> rfl

/-- **Below the working directory: relative to it.**  An absolute path without `..` whose
components extend those of the working directory is printed as the remaining components joined
by `/` (no `..`, no leading `/`). -/
theorem printed_relative_below_cwd (cwd rest : List Str) (hc : Normal cwd) (hr : Normal rest) (hne : rest ≠ []) :
    printedPathStr cwd ⟨true, cwd ++ rest⟩ = joinPath rest := by
  have hin : inParents cwd ⟨true, cwd ++ rest⟩ = true := by
    simp only [inParents, Bool.true_and, Bool.and_eq_true, decide_eq_true_eq, List.length_append]
    refine ⟨?_, ?_⟩
    · have : 0 < rest.length := List.length_pos_iff.2 hne
      omega
    · exact List.isPrefixOf_iff_prefix.2 (List.prefix_append _ _)
  have hall : (cwd ++ rest).all plain = true := by
    rw [List.all_append, hc, hr]; rfl
  simp only [printedPathStr, hin, if_true, normComps_plain hc, normComps_plain hall]
  have hcl : ∀ (a b : List Str), b ≠ [] → relpath a (a ++ b) = b := by
    intro a b hb
    have hcom : ∀ (a : List Str), commonLen a (a ++ b) = a.length := by
      intro a
      induction a with
      | nil => cases b <;> simp [commonLen]
      | cons x xs ih => simp [commonLen, ih]
    simp only [relpath, hcom, Nat.sub_self, List.replicate_zero, List.nil_append, List.drop_left']
    cases b with
    | nil => exact absurd rfl hb
    | cons y ys => simp
  rw [hcl cwd rest hne]

/-- **Otherwise: as given.**  A relative path is printed as typed (after `pathlib`'s removal of
`.` and empty components), and so is an absolute path of which the working directory is not a
proper lexical prefix (outside the working directory - no `ValueError` as in defect F15). -/
theorem printed_as_given (cwd : List Str) (f : CPath)
    (h : f.abs = false ∨ ¬ (cwd <+: f.comps) ∨ f.comps.length ≤ cwd.length) :
    printedPathStr cwd f = pathStr f := by
  have hin : inParents cwd f = false := by
    simp only [inParents, Bool.and_eq_false_iff, decide_eq_false_iff_not, Nat.not_lt]
    rcases h with h | h | h
    · exact Or.inl h
    · right; right
      cases hb : cwd.isPrefixOf f.comps with
      | false => rfl
      | true => exact absurd (List.isPrefixOf_iff_prefix.1 hb) h
    · exact Or.inr (Or.inl h)
  simp [printedPathStr, hin]

/-- With the working directory at the base of the tree (the situation of C12's theorems:
`checkPaths O root [] args`) every path handed to `check_file`, relative or absolute, is printed
as its components joined by `/` - the key under which `scan` reports the same file
(`C12.scanned_file_checked_by_path`, `C11.scanned_keys_exact`: `joinPath p`). -/
theorem printed_at_root (abs : Bool) (comps : List Str) (hn : Normal comps) (hne : comps ≠ []) :
    printedPathStr [] ⟨abs, comps⟩ = joinPath comps := by
  cases abs with
  | true => exact printed_relative_below_cwd [] comps rfl hn hne
  | false =>
    rw [printed_as_given [] ⟨false, comps⟩ (Or.inl rfl)]
    cases comps with
    | nil => exact absurd rfl hne
    | cons c r => simp [pathStr]

end Part3

/-! ## Non-vacuity of part 3 -/

section Part3Examples
open CL.Sel CL.Print

/-- a file list with three files: one below the working directory by absolute path, one relative
with `..`, one outside; measurements of all categories -/
def exFiles : List (CPath × List Measurement) :=
  [ (⟨true, [cp! "home", cp! "u", cp! "proj", cp! "src", cp! "[id]", cp! "a b.py"]⟩,
      [⟨cp! "small", 1, 1, 9, 1, 9⟩, ⟨cp! "f", 10, 5, 50, 1, 31⟩, ⟨cp! "g", 60, 1, 200, 1, 100⟩, ⟨cp! "h", 300, 1, 340, 1, 31⟩]),
    (⟨false, [cp! "..", cp! "proj", cp! "lib.c"]⟩, [⟨cp! "k", 3, 1, 70, 2, 61⟩]),
    (⟨true, [cp! "etc", cp! "x.js"]⟩, []) ]

def exCwd : List Str := [cp! "home", cp! "u", cp! "proj"]

/-- the model evaluated: lines in order (file by file, longest first, ties in scan order), paths
relative below the working directory and as given elsewhere, summary with 3 files and 4 functions,
exit status 1 -/
def exRisks : List (CPath × List Measurement) :=
  [ (⟨true, [cp! "home", cp! "u", cp! "proj", cp! "src", cp! "[id]", cp! "a b.py"]⟩,
      [⟨cp! "g", 60, 1, 200, 1, 100⟩, ⟨cp! "f", 10, 5, 50, 1, 31⟩, ⟨cp! "h", 300, 1, 340, 1, 31⟩]),
    (⟨false, [cp! "..", cp! "proj", cp! "lib.c"]⟩, [⟨cp! "k", 3, 1, 70, 2, 61⟩]),
    (⟨true, [cp! "etc", cp! "x.js"]⟩, []) ]

theorem exRisks_eq : risksList exFiles = exRisks := by
  simp [risksList, exFiles, exRisks, risksOf, List.mergeSort, List.MergeSort.Internal.splitInTwo]

example :
    checkOutput false exCwd exRisks =
      { exitCode := 1,
        lines := [ cp! "src/[id]/a b.py:60:1: 100 ✖ g", cp! "src/[id]/a b.py:10:5: 31 ⚠ f", cp! "src/[id]/a b.py:300:1: 31 ⚠ h",
                   cp! "../proj/lib.c:3:1: 61 ✖ k", cp! "3 files checked, 4 functions need refactoring." ] } := by
  decide +kernel

example : Normal exCwd := by decide

/-- `printed_path_denotes` on a path with `..` that leaves and re-enters the working directory,
and on one that ends up outside -/
example :
    printedPathStr exCwd ⟨true, [cp! "home", cp! "u", cp! "proj", cp! "..", cp! "proj", cp! "a.py"]⟩ = cp! "a.py" ∧
    printedPathStr exCwd ⟨true, [cp! "home", cp! "u", cp! "proj", cp! "..", cp! "other", cp! "a.py"]⟩ = cp! "../other/a.py" ∧
    printedPathStr exCwd ⟨true, [cp! "home", cp! "u", cp! "projx", cp! "a.py"]⟩ = cp! "/home/u/projx/a.py" ∧
    resolve exCwd (printedPath exCwd ⟨true, [cp! "home", cp! "u", cp! "proj", cp! "..", cp! "other", cp! "a.py"]⟩) =
      [cp! "home", cp! "u", cp! "other", cp! "a.py"] := by
  refine ⟨?_, ?_, ?_, ?_⟩ <;> decide +kernel

/-- under `--quiet` with nothing to list nothing is printed -/
example : checkOutput true exCwd [(⟨false, [cp! "a.py"]⟩, [])] = ⟨0, []⟩ := by
  decide +kernel

end Part3Examples

/-! # Part 4: `Scanner._read_file` -/

section Part4
open CL.Decode

/-- READING AID (definitional: this is `Decode.readFile` unfolded, proved by `cases; rfl`).  That no
decoding error escapes holds BY CONSTRUCTION of the model: `Decode.readFile : Bytes → Str` is a
total function because the Python code catches `UnicodeDecodeError` and the Latin-1 codec is
defined on every byte; this is tied to the code by the correspondence run, not proved here.  The
statements with content are `read_file_spec` (what the text is, in terms of the UTF-8 ENCODING,
without the decoder), `utf8_accepts_iff`, `read_file_no_cr`, `read_file_good`. -/
theorem read_file_total (bs : Bytes) :
    (∃ s, utf8Decode bs = some s ∧ Decode.readFile bs = univNl s) ∨
    (utf8Decode bs = none ∧ Decode.readFile bs = univNl bs) := by
  unfold Decode.readFile
  cases h : utf8Decode bs with
  | none => exact Or.inr ⟨rfl, rfl⟩
  | some s => exact Or.inl ⟨s, rfl, rfl⟩

/-- **The first attempt succeeds exactly on well-formed UTF-8**: the strict decoder accepts a
byte string iff it is the UTF-8 encoding of a sequence of Unicode scalar values, and then returns
that sequence (so: no overlong form, no encoded surrogate, nothing above U+10FFFF, no truncated
or stray byte is accepted, and nothing well-formed is rejected). -/
theorem utf8_accepts_iff (bs : Bytes) (s : Str) :
    utf8Decode bs = some s ↔ (∀ c ∈ s, isScalar c = true) ∧ bs = utf8Encode s := by
  constructor
  · intro h
    exact ⟨utf8Decode_scalar bs s h, (utf8Encode_decode bs s h).symm⟩
  · rintro ⟨hs, rfl⟩
    exact utf8Decode_encode s hs

/-- **What `_read_file` returns, without mentioning the decoder**: if the bytes are the UTF-8
encoding of a sequence `s` of Unicode scalar values (there is at most one such `s`:
`utf8_accepts_iff`), the text is `s` with universal newlines; if they are the encoding of no such
sequence, the text is the bytes themselves read as code points (Latin-1), with universal
newlines.  Exactly one of the two cases applies. -/
theorem read_file_spec (bs : Bytes) :
    (∃ s, (∀ c ∈ s, isScalar c = true) ∧ bs = utf8Encode s ∧ Decode.readFile bs = univNl s) ∨
    ((¬ ∃ s, (∀ c ∈ s, isScalar c = true) ∧ bs = utf8Encode s) ∧ Decode.readFile bs = univNl bs) := by
  rcases read_file_total bs with ⟨s, hs, hr⟩ | ⟨hn, hr⟩
  · exact Or.inl ⟨s, ((utf8_accepts_iff bs s).1 hs).1, ((utf8_accepts_iff bs s).1 hs).2, hr⟩
  · refine Or.inr ⟨?_, hr⟩
    rintro ⟨s, hs, he⟩
    rw [(utf8_accepts_iff bs s).2 ⟨hs, he⟩] at hn
    cases hn

/-- the two cases as rewriting rules -/
theorem read_file_utf8 (s : Str) (hs : ∀ c ∈ s, isScalar c = true) :
    Decode.readFile (utf8Encode s) = univNl s := by
  simp [Decode.readFile, (utf8_accepts_iff (utf8Encode s) s).2 ⟨hs, rfl⟩]

theorem read_file_latin1 (bs : Bytes) (h : ¬ ∃ s, (∀ c ∈ s, isScalar c = true) ∧ bs = utf8Encode s) :
    Decode.readFile bs = univNl bs := by
  rcases read_file_spec bs with ⟨s, hs, he, _⟩ | ⟨_, hr⟩
  · exact absurd ⟨s, hs, he⟩ h
  · exact hr

/-- **The text has no carriage return** - the assumption of C16 (DESIGN Appendix A: "texts
contain no carriage return") holds for every text that reaches the lexer. -/
theorem read_file_no_cr (bs : Bytes) : 13 ∉ Decode.readFile bs := by
  unfold Decode.readFile
  split <;> exact univNl_no_cr _

/-- **The text is a Python string without surrogates** - so `Json.GoodStr`, the hypothesis of
C08 on every string of a report, holds for every text read from a file (hence for the unit
names cut out of it). -/
theorem read_file_good (bs : Bytes) (hb : IsBytes bs) : ∀ c ∈ Decode.readFile bs, isScalar c = true := by
  intro c hc
  rcases read_file_total bs with ⟨s, hs, hr⟩ | ⟨_, hr⟩
  · rw [hr] at hc
    rcases mem_univNl hc with h | rfl
    · exact utf8Decode_scalar bs s hs c h
    · rfl
  · rw [hr] at hc
    rcases mem_univNl hc with h | rfl
    · have := hb c h
      apply (isScalar_iff c).2
      omega
    · rfl

theorem goodStr_of_scalars (s : Str) (h : ∀ c ∈ s, isScalar c = true) : Json.GoodStr s := by
  refine ⟨fun c hc => ((isScalar_iff c).1 (h c hc)).1, ?_⟩
  induction s with
  | nil => trivial
  | cons a t ih =>
    cases t with
    | nil => trivial
    | cons b t' =>
      refine ⟨?_, ih (fun c hc => h c (List.mem_cons_of_mem _ hc))⟩
      rintro ⟨ha, _⟩
      have := (isScalar_iff a).1 (h a (List.mem_cons_self ..))
      simp only [Json.isHigh, Bool.and_eq_true, decide_eq_true_eq] at ha
      omega

theorem read_file_goodStr (bs : Bytes) (hb : IsBytes bs) : Json.GoodStr (Decode.readFile bs) :=
  goodStr_of_scalars _ (read_file_good bs hb)

/-- an ASCII file without carriage returns is read as it is -/
theorem read_file_ascii (bs : Bytes) (h : ∀ b ∈ bs, b < 128) (hcr : 13 ∉ bs) : Decode.readFile bs = bs := by
  simp [Decode.readFile, utf8Decode_ascii h, univNl_id hcr]

/-- the oracle record with its `decode` parameter replaced by an arbitrary decoder -/
def withDecode (O : Sel.Oracles) (d : Str → Str) : Sel.Oracles := { O with decode := d }

/-- **what `scan` and `check` hand to the analysis, with the two call sites kept apart.**
`Scanner.py` reads a file in two places: `_analyze_file` (scan) and `check_file` (check).  The
model has ONE `decode` field in `Sel.Oracles`, so that both use the same function is built into
it; to make the dependence visible the two are given SEPARATE decoders here (`dScan`, `dCheck`;
the oracle records differ in nothing else).  Then: `scan`'s entry is built from the analysis of
`dScan content`, `check`'s listing from the analysis of `dCheck content`. -/
theorem scan_check_two_decoders (O : Sel.Oracles) (dScan dCheck : Str → Str) (rel : Str) (checksum : Str)
    (lang : Nat) (content : Str) (path : Sel.CPath) (st : Sel.CheckSt)
    (hl : O.langOf (path.comps.getLastD []) = some lang) :
    (Sel.analyzeFile (withDecode O dScan) rel checksum lang content =
      (O.analyze lang (dScan content)).map fun ms => ⟨rel, checksum, lang, (ms.map (·.len)).foldl (· + ·) 0, ms⟩) ∧
    (Sel.checkFile (withDecode O dCheck) path content st =
      match O.analyze lang (dCheck content) with
      | .error e => ({ st with analysed := st.analysed ++ [path] }, some e)
      | .ok ms => ({ analysed := st.analysed ++ [path], fileList := st.fileList ++ [(path, Sel.risksOf ms)] }, none)) := by
  constructor
  · simp only [Sel.analyzeFile, withDecode]
    cases O.analyze lang (dScan content) <;> rfl
  · simp only [Sel.checkFile, withDecode, hl]
    cases O.analyze lang (dCheck content) <;> rfl

/-- **`scan` and `check` agree on a file whenever the two decoders agree on its bytes** (the clause
of C12 about "the same text decoding"): if `scan`'s entry for the file holds the measurements `ms`
then `check` lists `risksOf ms` for it, and if the analysis raises for `scan` it raises the same
exception for `check`.  (`analyzeFile` always returns one of these two shapes, so this determines
what `check` does.)  Without `hsame` this fails: `same_decoding_needed`. -/
theorem scan_check_agree_of_same_decoding (O : Sel.Oracles) (dScan dCheck : Str → Str) (rel : Str)
    (checksum : Str) (lang : Nat) (content : Str) (path : Sel.CPath) (st : Sel.CheckSt)
    (hl : O.langOf (path.comps.getLastD []) = some lang) (hsame : dScan content = dCheck content) :
    (∀ ms, Sel.analyzeFile (withDecode O dScan) rel checksum lang content =
        .ok ⟨rel, checksum, lang, (ms.map (·.len)).foldl (· + ·) 0, ms⟩ →
      Sel.checkFile (withDecode O dCheck) path content st =
        ({ analysed := st.analysed ++ [path], fileList := st.fileList ++ [(path, Sel.risksOf ms)] }, none)) ∧
    (∀ e, Sel.analyzeFile (withDecode O dScan) rel checksum lang content = .error e →
      Sel.checkFile (withDecode O dCheck) path content st =
        ({ st with analysed := st.analysed ++ [path] }, some e)) := by
  obtain ⟨h1, h2⟩ := scan_check_two_decoders O dScan dCheck rel checksum lang content path st hl
  rw [h1, h2, hsame]
  cases O.analyze lang (dCheck content) with
  | error e' =>
    refine ⟨fun ms h => (by cases h), fun e h => ?_⟩
    cases h; rfl
  | ok ms' =>
    refine ⟨fun ms h => ?_, fun e h => (by cases h)⟩
    simp only [Except.map, Except.ok.injEq, Sel.FileEntry.mk.injEq, true_and] at h
    rw [h.2]

/-- the oracle record of `Model/Select.lean` with its `decode` parameter replaced by the model
of `_read_file` -/
def withReadFile (O : Sel.Oracles) : Sel.Oracles := withDecode O Decode.readFile

/-- the instance the code implements since the repair of F14: both call sites use `_read_file`.
NOTE: in the model this is true BY CONSTRUCTION (one `decode` field serves `analyzeFile` and
`checkFile`; each conjunct is `rfl` after a case split) - the content is
`scan_check_agree_of_same_decoding`, and that the two Python call sites really call the same
function is checked by the correspondence run of C12 (Latin-1 files are regression inputs of F14),
not proved. -/
theorem scan_check_same_text (O : Sel.Oracles) (rel : Str) (checksum : Str) (lang : Nat) (content : Str)
    (path : Sel.CPath) (st : Sel.CheckSt) (hl : O.langOf (path.comps.getLastD []) = some lang) :
    (Sel.analyzeFile (withReadFile O) rel checksum lang content =
      (O.analyze lang (Decode.readFile content)).map fun ms => ⟨rel, checksum, lang, (ms.map (·.len)).foldl (· + ·) 0, ms⟩) ∧
    (Sel.checkFile (withReadFile O) path content st =
      match O.analyze lang (Decode.readFile content) with
      | .error e => ({ st with analysed := st.analysed ++ [path] }, some e)
      | .ok ms => ({ analysed := st.analysed ++ [path], fileList := st.fileList ++ [(path, Sel.risksOf ms)] }, none)) :=
  scan_check_two_decoders O Decode.readFile Decode.readFile rel checksum lang content path st hl

/-- a strict decoder in the place of `check`'s (what `check` had before F14, with "raises" rendered
as "no text": the model's `decode` cannot raise) -/
def strictOrEmpty (bs : Bytes) : Str := match utf8Decode bs with | some s => univNl s | none => []

/-- an analysis that reports one function whose length is the length of the text -/
def lenOracle : Sel.Oracles where
  excluded := fun _ => false
  langOf := fun _ => some 0
  checksum := fun c => c
  decode := fun c => c
  analyze := fun _ text => .ok [⟨[102], 1, 1, 1, 2, text.length⟩]

/-- **the hypothesis `hsame` is needed**: on a file that is not UTF-8 (forty bytes `E9`) a `scan`
through `_read_file` and a `check` through a strict decoder disagree - `scan` reports a function of
length 40, `check` lists nothing for the file -/
theorem same_decoding_needed :
    let content : Bytes := List.replicate 40 233
    Decode.readFile content ≠ strictOrEmpty content ∧
    Sel.analyzeFile (withDecode lenOracle Decode.readFile) [97] [] 0 content =
      .ok ⟨[97], [], 0, 40, [⟨[102], 1, 1, 1, 2, 40⟩]⟩ ∧
    Sel.checkFile (withDecode lenOracle strictOrEmpty) ⟨false, [[97]]⟩ content ⟨[], []⟩ =
      (⟨[⟨false, [[97]]⟩], [(⟨false, [[97]]⟩, [])]⟩, none) := by
  refine ⟨by decide +kernel, by decide +kernel, by decide +kernel⟩

/-- every theorem of C12 holds with the oracle replaced by the model; e.g. `check .` agrees with
`scan` file by file when both read files through `_read_file` -/
theorem check_root_agrees_with_scan_decoded (O : Sel.Oracles) (rn : Str) (ch : List Sel.Node)
    (hwf : Sel.wfDir ch = true) (files : List (Str × Sel.FileEntry))
    (h : (Sel.scanPath (withReadFile O) (.dir rn ch)).result = .ok files) :
    ∃ fl, (Sel.checkPaths (withReadFile O) (.dir rn ch) [] [.relDir []]).result = .ok fl ∧
      fl.map (fun pr => (Sel.joinPath pr.1.comps, pr.2)) = files.map (fun ke => (ke.1, Sel.risksOf ke.2.ms)) :=
  (C12.check_root_agrees_with_scan (withReadFile O) rn ch hwf (.relDir []) (Or.inl rfl)).2.2.2 files h

/-! ## Non-vacuity of part 4 -/

/-- UTF-8 text with a byte order mark, CRLF and a lone CR: BOM kept as U+FEFF, newlines unified -/
example : Decode.readFile [239, 187, 191, 120, 32, 61, 32, 39, 195, 169, 39, 13, 10, 121, 13, 122] =
    [65279, 120, 32, 61, 32, 39, 233, 39, 10, 121, 10, 122] := by decide +kernel

/-- the same text saved as Latin-1 (`é` = E9) is not UTF-8: read as Latin-1, same code points -/
example : utf8Decode [120, 32, 61, 32, 39, 233, 39, 13, 10] = none ∧
    Decode.readFile [120, 32, 61, 32, 39, 233, 39, 13, 10] = [120, 32, 61, 32, 39, 233, 39, 10] := by decide +kernel

/-- an overlong slash, an encoded surrogate, a code point above U+10FFFF, a truncated sequence:
all rejected by the first attempt; the astral U+1F600 and the boundary U+10FFFF accepted -/
example :
    utf8Decode [192, 175] = none ∧ utf8Decode [237, 160, 128] = none ∧ utf8Decode [244, 144, 128, 128] = none ∧
    utf8Decode [226, 130] = none ∧ utf8Decode [240, 159, 152, 128] = some [128512] ∧
    utf8Decode [244, 143, 191, 191] = some [1114111] := by decide +kernel

example : IsBytes [120, 233, 13, 10] ∧ Json.GoodStr (Decode.readFile [120, 233, 13, 10]) :=
  ⟨by decide, read_file_goodStr _ (by decide)⟩

end Part4

/-! # Part 5: `report_command` / `findings_command` on a written report

`report_command` and `findings_command` call `read_report` (part 1) and hand what it returns to
`print_report` / `print_findings` (C18).  This part composes the two for the text of a written
report: the command proceeds exactly when the version is the tool's, the reader returns the stored
report (C08), and the rendering theorems of C18 then speak about the STORED numbers. -/

section Part5
open CL.Render CL.C18

/-- the reader's result has the stored totals and files (`upToTimestamp` only touches the
timestamp and the repository tag) -/
theorem rendered_inputs_stored (now : Str) (d : ReportData) :
    renderTotals (C08.upToTimestamp now d).totals = renderTotals d.totals ∧
    renderFiles (C08.upToTimestamp now d).files = renderFiles d.files := ⟨rfl, rfl⟩

/-- every function of the stored report, as the findings listing sees it -/
theorem mem_allUnits_renderFiles (fs : List (Str × FileData)) (u : RUnit) :
    u ∈ allUnits (renderFiles fs) ↔ ∃ kv ∈ fs, ∃ m ∈ kv.2.measurements, u = ⟨kv.1, renderMeas m⟩ := by
  simp only [allUnits, renderFiles, List.mem_flatMap, List.mem_map]
  constructor
  · rintro ⟨fm, ⟨kv, hkv, rfl⟩, m', hm', rfl⟩
    obtain ⟨m, hm, rfl⟩ := List.mem_map.1 hm'
    exact ⟨kv, hkv, m, hm, rfl⟩
  · rintro ⟨kv, hkv, m, hm, rfl⟩
    exact ⟨_, ⟨kv, hkv, rfl⟩, _, List.mem_map.2 ⟨m, hm, rfl⟩, rfl⟩

/-- **`report` and `findings` on the file a writer left** (any report `d` of the kind C08 speaks
about; the report of a scan is one: `Pipeline.scan_report_facts_on`).
* If the report was written by another version, `read_report` refuses and nothing is rendered.
* If it was written by the tool's version, `read_report` hands the document on, the reader returns
  `d` (up to the reader's clock), and then: the overview has one row per STORED language, in the
  order of `C18.languages_order`, showing the five stored figures; the totals line shows the sums of
  the stored figures (present iff more than one language); and the findings listing (full output)
  shows exactly the stored functions longer than 30 lines. -/
theorem report_and_findings_of_written (cur : Str) (buildOk : List Str → Bool)
    (build : List (Str × FileData) → List (Str × Json.Totals) × List (Str × Folder))
    (profileOf : List Json.Meas → List Int) (now : Str) (d : ReportData) (hd : GoodReport d)
    (hk : DistinctKeys d) (hr : C08.Reachable build profileOf d) (hb : buildOk (d.files.map (·.1)) = true)
    (p : Bool) (L : Locale) :
    (d.version ≠ some cur → readReportDoc cur buildOk (some (write p d)) = .mismatch) ∧
    (d.version = some cur →
      readReportDoc cur buildOk (some (write p d)) = .shown d.untyped ∧
      ∃ r, (parseJson (write p d)).map (fromJson build profileOf now) = some (.ok r) ∧
        (overviewText L (renderTotals r.totals) none).rows =
          (languagesTotals (renderTotals d.totals)).map (fun c => c.language :: (figures c).map L.n) ∧
        (overviewText L (renderTotals r.totals) none).footer =
          (if d.totals.length > 1 then some ((sums (renderTotals d.totals)).map L.n) else none) ∧
        overviewMarkdown L (renderTotals r.totals) none = overviewMarkdown L (renderTotals d.totals) none ∧
        (∀ u, u ∈ (findingsText (renderFiles r.files) true).shown ↔
          (∃ kv ∈ d.files, ∃ m ∈ kv.2.measurements, u = ⟨kv.1, renderMeas m⟩) ∧ u.m.value > 30) ∧
        (findingsMarkdown (renderFiles r.files) true false).shown =
          (findingsText (renderFiles r.files) true).shown) := by
  refine ⟨(read_report_written cur buildOk d hd p).1, fun hv => ?_⟩
  refine ⟨(read_report_written cur buildOk d hd p).2 hv hk hb, C08.upToTimestamp now d,
    C08.round_trip build profileOf now d hd hk hr p, ?_, ?_, rfl, ?_, ?_⟩
  · exact (overview_text_without_previous L _).1
  · rw [(overview_text_without_previous L _).2]
    simp [C08.upToTimestamp, renderTotals]
  · intro u
    rw [(findings_text _ true).1, if_pos rfl, mem_units_selected, (rendered_inputs_stored now d).2,
      mem_allUnits_renderFiles]
  · exact (findings_same_selection _ true false).1

/-- non-vacuity: the hostile sample of C08, written by the tool's version, read by `findings`: the
one function longer than 30 lines (length 70) is listed -/
example : ∃ r, (parseJson (write true sampleCur)).map (fromJson (fun _ => (sampleCur.totals, sampleCur.tree))
      (fun ms => if ms.length = 2 then [3, 0, 0, 70] else []) []) = some (.ok r) ∧
    (findingsText (renderFiles r.files) true).shown.map (·.m.value) = [70] := by
  refine ⟨_, C08.round_trip _ _ [] sampleCur sampleCur_good sampleCur_distinct
    ⟨by decide, rfl, rfl⟩ true, by decide +kernel⟩

end Part5

end CL.Gaps
