import CodeLimit.Lemmas.GitignoreRegex
import CodeLimit.Props.C11pat
/-!
# The regular expressions pathspec generates mean what `Pat.matches` says

`Spec/GitignoreRegex.lean` gives, for a line `q` of the six classes, the regular expression
`q.regex` whose text `q.regexText` is - character by character, checked by the correspondence
stream on every generated line and on the 26 built-in ones - the text
`GitWildMatchPattern.pattern_to_regex(q.text)` returns. Here: `re.match` of that expression on the
`/`-joined components of a path succeeds exactly when `q.matches` (the component-level reading
used in `Props/C11pat.lean`) says so.

Hypotheses, both necessary: the names of the line are as its class demands (`q.wfNames`: plain
names - in particular without `/`), and the path is a path as the walk produces it
(`goodPath`: components non-empty, without `/`, without line feed). The line feed matters:
pathspec compiles its expressions without `re.DOTALL`, so `.` stops at a line feed and `$` also
matches before a final one (`lineFeed_witness`).
-/
namespace CL.C11patRegex

open CL.Sel CL.Gi CL.C11pat

/-! ## the text -/

/-- the expressions of one line of each class, as pathspec prints them -/
example : [Pat.name (str "build"), .dirOnly (str "docs"), .ext (str ".min.js"), .rel [str "src", str "gen-1"],
      .under (str "vendor"), .rooted [str "tools", str "x.py"]].map Pat.regexText =
    [str "^(?:.+/)?build(?:(?P<ps_d>/).*)?$", str "^(?:.+/)?docs(?P<ps_d>/).*$",
     str "^(?:.+/)?[^/]*\\.min\\.js(?:(?P<ps_d>/).*)?$", str "^src/gen\\-1(?:(?P<ps_d>/).*)?$",
     str "^vendor/[^/]+(?:(?P<ps_d>/).*)?$", str "^tools/x\\.py(?:(?P<ps_d>/).*)?$"] := by
  decide +kernel

/-! ## names of the fragment are good components -/

theorem plainName_good {x : Str} (h : plainName x = true) : x ≠ [] ∧ 47 ∉ x :=
  ⟨plainName_ne_nil h, plainName_noSlash h⟩

theorem plainChar_not_lf {c : Nat} (h : plainChar c = true) : c ≠ 10 := by
  intro e; subst e; simp [plainChar] at h

theorem plainNames_goodPath {ps : List Str} (h : ps.all plainName = true) : goodPath ps := by
  intro c hc
  have hp := List.all_eq_true.1 h c hc
  refine ⟨plainName_ne_nil hp, plainName_noSlash hp, ?_⟩
  simp only [plainName, Bool.and_eq_true, List.all_eq_true] at hp
  exact fun hm => plainChar_not_lf (hp.1.1.2 10 hm) rfl

/-- on a good path the final `$` plays no role: no line feed at the end -/
theorem accepts_iff_lang (r : Re) {p : Path} (hp : goodPath p) : r.accepts (joinSlash p) ↔ r.lang (joinSlash p) := by
  constructor
  · rintro (h | ⟨t, ht, _⟩)
    · exact h
    · exact absurd (ht ▸ List.mem_append_right t (List.mem_singleton.2 rfl)) (joinSlash_noLF p hp)
  · exact .inl

/-! ## class by class -/

theorem name_regex_iff {x : Str} (hx : plainName x = true) {p : Path} (hp : goodPath p) :
    (Pat.name x).regex.lang (joinSlash p) ↔ x ∈ p := by
  have h := float_iff (· = x) (fun m hm => hm ▸ ⟨plainName_noSlash hx, plainName_ne_nil hx⟩) false p hp
  simp only [Bool.false_eq_true, if_false, false_imp_iff, and_true] at h
  simp only [Pat.regex, Re.lang.eq_4, Re.lang.eq_1]
  constructor
  · rintro ⟨u, v, hs, hu, m, w, rfl, rfl, hw⟩
    obtain ⟨pre, c, post, rfl, rfl⟩ := h.1 ⟨u, m, w, hs, hu, rfl, hw⟩
    simp
  · intro hm
    obtain ⟨pre, post, rfl⟩ := List.append_of_mem hm
    obtain ⟨u, m, w, hs, hu, rfl, hw⟩ := h.2 ⟨pre, x, post, rfl, rfl⟩
    exact ⟨u, m ++ w, hs, hu, m, w, rfl, rfl, hw⟩

theorem dirOnly_regex_iff {d : Str} (hd : plainName d = true) {p : Path} (hp : goodPath p) :
    (Pat.dirOnly d).regex.lang (joinSlash p) ↔ d ∈ p.dropLast := by
  have h := float_iff (· = d) (fun m hm => hm ▸ ⟨plainName_noSlash hd, plainName_ne_nil hd⟩) true p hp
  simp only [if_true, true_imp_iff] at h
  have hlang : (Pat.dirOnly d).regex.lang (joinSlash p) ↔
      ∃ u m w, joinSlash p = u ++ (m ++ w) ∧ reFloat.lang u ∧ m = d ∧ reDirTail.lang w := by
    simp only [Pat.regex, Re.lang.eq_4, Re.lang.eq_1]
    constructor
    · rintro ⟨u, v, hs, hu, m, w, rfl, rfl, hw⟩; exact ⟨u, m, w, hs, hu, rfl, hw⟩
    · rintro ⟨u, m, w, hs, hu, rfl, hw⟩; exact ⟨u, m ++ w, hs, hu, m, w, rfl, rfl, hw⟩
  rw [hlang, h]
  constructor
  · rintro ⟨pre, c, post, rfl, rfl, hpost⟩
    rw [List.dropLast_append_of_ne_nil (by simp)]
    obtain ⟨l, b, rfl⟩ := (List.eq_nil_or_concat post).resolve_left hpost
    simp [List.dropLast_cons_of_ne_nil]
  · intro hm
    rcases List.eq_nil_or_concat p with rfl | ⟨l, b, rfl⟩
    · simp at hm
    · simp only [List.concat_eq_append, List.dropLast_concat] at hm ⊢
      obtain ⟨a, b', rfl⟩ := List.append_of_mem hm
      exact ⟨a, d, b' ++ [b], by simp, rfl, by simp⟩

theorem ext_regex_iff {e : Str} (he : isExt e = true) {p : Path} (hp : goodPath p) :
    (Pat.ext e).regex.lang (joinSlash p) ↔ ∃ c ∈ p, e <:+ c := by
  have hene : e ≠ [] := by rintro rfl; simp [isExt] at he
  have h := float_iff (fun m => ∃ t, m = t ++ e ∧ 47 ∉ t)
    (fun m ⟨t, hm, ht⟩ => ⟨by
        subst hm
        simp only [List.mem_append, not_or]
        exact ⟨ht, isExt_noSlash he⟩, by
        subst hm
        simp [hene]⟩) false p hp
  simp only [Bool.false_eq_true, if_false, false_imp_iff, and_true] at h
  have hlang : (Pat.ext e).regex.lang (joinSlash p) ↔
      ∃ u m w, joinSlash p = u ++ (m ++ w) ∧ reFloat.lang u ∧ (∃ t, m = t ++ e ∧ 47 ∉ t) ∧ reTail.lang w := by
    simp only [Pat.regex, Re.lang.eq_4, Re.lang.eq_1, lang_star_notSlash]
    constructor
    · rintro ⟨u, v, hs, hu, m, w, rfl, ⟨t, e', rfl, ht, rfl⟩, hw⟩; exact ⟨u, t ++ e', w, hs, hu, ⟨t, rfl, ht⟩, hw⟩
    · rintro ⟨u, m, w, hs, hu, ⟨t, rfl, ht⟩, hw⟩
      exact ⟨u, (t ++ e) ++ w, hs, hu, t ++ e, w, rfl, ⟨t, e, rfl, ht, rfl⟩, hw⟩
  rw [hlang, h]
  constructor
  · rintro ⟨pre, c, post, rfl, t, rfl, _⟩
    exact ⟨t ++ e, by simp, List.suffix_append _ _⟩
  · rintro ⟨c, hc, t, rfl⟩
    obtain ⟨pre, post, rfl⟩ := List.append_of_mem hc
    have hns := (hp (t ++ e) (by simp)).2.1
    exact ⟨pre, t ++ e, post, rfl, t, rfl, fun hm => hns (List.mem_append_left _ hm)⟩

theorem anchored_regex_iff {ps : List Str} (hps : ps.all plainName = true) (hne : ps ≠ []) {p : Path}
    (hp : goodPath p) : (Re.seq (.chars (joinSlash ps)) reTail).lang (joinSlash p) ↔ ps <+: p := by
  rw [← anchored_iff ps (plainNames_goodPath hps) hne p hp]
  simp only [Re.lang.eq_4, Re.lang.eq_1]
  constructor
  · rintro ⟨u, w, hs, rfl, hw⟩; exact ⟨w, hs, hw⟩
  · rintro ⟨w, hs, hw⟩; exact ⟨_, w, hs, rfl, hw⟩

theorem under_regex_iff {a : Str} (ha : plainName a = true) {p : Path} (hp : goodPath p) :
    (Pat.under a).regex.lang (joinSlash p) ↔ ∃ b rest, p = a :: b :: rest ∧ b ≠ [] := by
  rw [← under_iff a (plainName_noSlash ha) p hp]
  simp only [Pat.regex, Re.lang.eq_4, Re.lang.eq_1, lang_plus_notSlash]
  constructor
  · rintro ⟨u, v, hs, rfl, b, w, rfl, hb, hw⟩; exact ⟨b, w, hs, hb, hw⟩
  · rintro ⟨b, w, hs, hb, hw⟩; exact ⟨_, b ++ w, hs, rfl, b, w, rfl, hb, hw⟩

/-! ## the theorem -/

/-- **the regular expression of a line accepts exactly the paths the line matches.** For a line
`q` of the fragment and a path `p` as the walk produces it, `re.match(pattern_to_regex(q), "/".join(p))`
succeeds iff `q.matches p`. Together with `C11pat`'s class-by-class theorems this derives the
reader-level meaning of the six classes from the expressions pathspec really builds. -/
theorem regex_accepts_iff (q : Pat) (hq : q.wfNames = true) (p : Path) (hp : goodPath p) :
    q.regex.accepts (joinSlash p) ↔ q.matches p = true := by
  rw [accepts_iff_lang _ hp]
  cases q with
  | name x => rw [name_regex_iff hq hp, name_excludes_iff]
  | dirOnly d => rw [dirOnly_regex_iff hq hp, dirOnly_excludes_iff]
  | ext e => rw [ext_regex_iff hq hp, ext_excludes_iff]
  | rel ps =>
    simp only [Pat.wfNames, Bool.and_eq_true, decide_eq_true_eq] at hq
    rw [rel_excludes_iff]
    exact anchored_regex_iff hq.2 (by rintro rfl; simp at hq) hp
  | under a => rw [under_regex_iff hq hp, under_excludes_iff]
  | rooted ps =>
    simp only [Pat.wfNames, Bool.and_eq_true, Bool.not_eq_true', List.isEmpty_eq_false_iff] at hq
    rw [rooted_excludes_iff]
    exact anchored_regex_iff hq.2 hq.1 hp

/-- the same for what the scan really asks: the key of a file of a well-formed tree whose names
contain no line feed (`joinPath p` is the text `Path.__fspath__` hands to pathspec) -/
theorem regex_accepts_key_iff {ch : List Node} (hwf : wfDir ch = true) {p : Path} {c : Str}
    (hf : FileAt ch p c) (hlf : ∀ x ∈ p, 10 ∉ x) (q : Pat) (hq : q.wfNames = true) :
    q.regex.accepts (joinPath p) ↔ q.matches p = true := by
  have hj : ∀ l : List Str, joinPath l = joinSlash l := by
    intro l
    induction l with
    | nil => rfl
    | cons a r ih =>
      cases r with
      | nil => rfl
      | cons b r' => simp only [joinPath, joinSlash, ih]
  rw [hj]
  refine regex_accepts_iff q hq p (fun x hx => ?_)
  have := goodName_iff.1 (hf.goodNames hwf x hx)
  exact ⟨this.1, this.2, hlf x hx⟩

/-- **why the line feed is excluded.** With a line feed in a directory name the expression of the
bare name `x` does not accept `a⏎/x` although a component is `x` (`.+` stops at the line feed), and
it accepts `x⏎` although no component is `x` (`$` matches before a final line feed). The real
`scan_path` behaves like the expression: it analyses `a⏎b/tests/t.py` (observed on the pinned code). -/
theorem lineFeed_witness :
    ((Pat.name [120]).matches [[97, 10], [120]] = true ∧ ¬ (Pat.name [120]).regex.accepts (joinSlash [[97, 10], [120]])) ∧
    ((Pat.name [120]).matches [[120, 10]] = false ∧ (Pat.name [120]).regex.accepts (joinSlash [[120, 10]])) := by
  refine ⟨⟨by decide +kernel, ?_⟩, ⟨by decide +kernel, ?_⟩⟩
  · -- every way of reading `a⏎/x` fails
    have hjoin : joinSlash [[97, 10], [120]] = [97, 10, 47, 120] := rfl
    rw [hjoin]
    rintro (h | ⟨t, ht, _⟩)
    · simp only [Pat.regex, Re.lang.eq_4, Re.lang.eq_1] at h
      obtain ⟨u, v, hs, hu, m, w, rfl, rfl, hw⟩ := h
      rcases lang_reFloat.1 hu with rfl | ⟨u', rfl, _, hlf⟩
      · simp at hs
      · -- `u'` is a prefix of the text that ends before a `/`; the only `/` is at position 2
        simp only [List.append_assoc, List.singleton_append] at hs
        match u', hlf with
        | [], _ => simp at hs
        | [a], _ => simp at hs
        | [a, b], hlf =>
          simp only [List.cons_append, List.nil_append, List.cons.injEq] at hs
          obtain ⟨rfl, rfl, _⟩ := hs
          simp at hlf
        | a :: b :: c :: r, _ =>
          simp only [List.cons_append, List.cons.injEq] at hs
          obtain ⟨_, _, _, hs⟩ := hs
          cases r <;> simp at hs
    · have := congrArg List.getLast? ht
      simp at this
  · refine .inr ⟨[120], rfl, ?_⟩
    simp only [Pat.regex, Re.lang.eq_4, Re.lang.eq_1]
    exact ⟨[], [120], rfl, lang_reFloat.2 (.inl rfl), [120], [], rfl, rfl, lang_reTail.2 (.inl rfl)⟩

/-! ## non-vacuity -/

example : goodPath [str "src", str "x.min.js", str "k.py"] := by
  intro c hc
  simp only [List.mem_cons, List.not_mem_nil, or_false] at hc
  rcases hc with rfl | rfl | rfl <;> decide +kernel

/-- the expression of `*.min.js` accepts `src/x.min.js/k.py` (through the DIRECTORY component) -/
example : (Pat.ext (str ".min.js")).regex.accepts (str "src/x.min.js/k.py") := by
  have hp : goodPath [str "src", str "x.min.js", str "k.py"] := by
    intro c hc
    simp only [List.mem_cons, List.not_mem_nil, or_false] at hc
    rcases hc with rfl | rfl | rfl <;> decide +kernel
  have := (regex_accepts_iff (.ext (str ".min.js")) (by decide +kernel) _ hp).2 (by decide +kernel)
  exact this

end CL.C11patRegex
