import CodeLimit.Lemmas.SelectCacheWritten
import CodeLimit.Props.Pipeline
/-!
# C09 on trees: `scan_path(path, cached_report)` (`Model/SelectCache.lean`), and its unification with
the cache model (`Model/Cache.lean`) and with `Pipeline.scan`

The Python code is ONE function, `Scanner.scan_path(path, cached_report)` with the per-file step
`_scan_file`.  The development had two models of it: `Sel.scanPath` (the directory walk, no cache)
and `Cache.scan` (the cache, over a flat file list with an abstract walk); `Pipeline.scan` was defined
through the second and proved equal to the first only when there is no cache file.
`Sel.scanPathCached O cached root` is the one function: the walk of `Sel.scanPath` with `_scan_file`'s
cache test (lookup by the printed relative path in `cached_report.codebase.files`, comparison of
checksums, reuse of language / line total / measurements of the cached entry, else `_analyze_file`).

Part 1, for every tree and all libraries (`O : Oracles`):
(a) `no_cache_is_scanPath`, `empty_cache_is_scanPath`;
    `cached_scan_entries_exact`: the complete functional description for ANY cached report;
(b) `cached_scan_eq_fresh_scan`: an honest cached report (the invariant of C09, `HonestCache`) and a
    checksum without collisions on the contents involved give the result of a scan without cache;
    `honest_after_scan`, `history_of_scans_eq_fresh`: the invariant is kept by scans of arbitrary
    trees under arbitrary exclusion lines;
(c) `analysed_iff_not_cached`, `analysed_only_uncached`, `served_iff_in_cache`: exactly the selected
    files whose (path, checksum) is in the cached report are NOT analysed;
(e) `reuse_is_by_path` (the lookup is by PATH: a renamed file, a copy, the same bytes under another
    name or language are analysed), `matching_entry_is_reused_unchecked` (the known limit: an
    entry with a matching checksum is reused whatever it holds).

Part 2, under the instantiation of `Model/Pipeline.lean`:
(d) `cache_step_is_scanFileC` (one file), `cache_model_scan_is_scanPathCached` (a scan of the cache
    model in any state whose files are those of a tree), `cache_model_instrumentation`,
    `history_scan_on_tree` (C09's history theorem read on trees), `scan_is_scanPathCached` and
    `scan_with_admissible_cache_is_scanPathCached` (`Pipeline.scan` = `scanPathCached` + build + write),
    `next_scan_sees_this_result` (the bytes a scan writes are, for the next scan, the
    `Codebase.files` of this one), `two_scans`.

Part 3: the example tree of `Props/Pipeline.lean` with a cache from an earlier state (one file
edited, one renamed, one new, one deleted, one unchanged), evaluated in the kernel; the forged cache
of `Pipe.Ex.forged_cache_taints` seen at tree level.
-/
namespace CL.C09sel

open CL CL.Sel

/-! ## 1. `scan_path(path, cached_report)` on trees, for all libraries -/

section Tree
variable (O : Oracles) (cached : Option CachedFiles) (rn : Str) (ch : List Sel.Node)

/-- **(a) `cached_report = None`**: the function is `scan_path(path)` of `Model/Select.lean` - the
same entries, the same analysed paths, the same exception -/
theorem no_cache_is_scanPath (root : Sel.Node) : scanPathCached O none root = scanPath O root := by
  cases root with
  | file n c => rfl
  | dir rn ch =>
    unfold scanPathCached scanPath
    rw [scanDirBodyC_none]
    rfl

/-- **(a) a cached report without files** (the first scan of an empty directory wrote it) -/
theorem empty_cache_is_scanPath (root : Sel.Node) : scanPathCached O (some []) root = scanPath O root := by
  cases root with
  | file n c => rfl
  | dir rn ch =>
    unfold scanPathCached scanPath
    rw [scanDirBodyC_nil]
    rfl

/-- **the cached scan, completely, for ANY cached report** (honest or not).  When the scan
completes, its keys are pairwise different and `(k, e)` is in `Codebase.files` exactly when `k` is
the printed path of a qualifying file `p` (bytes `c`, language `lang`: `Selected`, the SAME
selection as without cache) and `e` is
* the cached entry under the key `k` with the current path and checksum (`reuseEntry`: language, line
  total and measurements are the cached ones), if the cached report has an entry under `k` whose
  checksum is the checksum of `c` (`cacheHit`);
* otherwise the entry `_analyze_file` builds from the decoded bytes. -/
theorem cached_scan_entries_exact (hwf : wfDir ch = true) {files : List (Str × FileEntry)}
    (h : (scanPathCached O cached (.dir rn ch)).result = .ok files) :
    (files.map (·.1)).Nodup ∧
    ∀ k e, (k, e) ∈ files ↔ ∃ p c lang, Selected O ch p c lang ∧ k = joinPath p ∧
      ((∃ ce, cacheHit cached k (O.checksum c) = some ce ∧ e = reuseEntry k (O.checksum c) ce) ∨
       (cacheHit cached k (O.checksum c) = none ∧
          ∃ ms, O.analyze lang (O.decode c) = .ok ms ∧ e = entryOf O p c lang ms)) := by
  obtain ⟨es, rfl, hr⟩ := entries_of_okC O cached rn ch hwf h
  obtain ⟨_, h2, h3⟩ := runSelC_ok hr
  refine ⟨?_, fun k e => ?_⟩
  · have : (asDict es).map (·.1) = (selection O ch).map keyOf := by rw [← h3]; simp [asDict]
    rw [this]; exact nodup_keys_selection hwf
  · simp only [asDict, List.mem_map, Prod.mk.injEq]
    constructor
    · rintro ⟨e', hm, rfl, rfl⟩
      obtain ⟨⟨p, lang, c⟩, hx, ha⟩ := (mem_of_map_ok h2 e').1 hm
      have hpath := (entryC_fields ha).1
      refine ⟨p, c, lang, mem_selection.1 hx, hpath, ?_⟩
      rw [hpath]
      rcases entryC_ok_iff.1 ha with ⟨ce, hh, he⟩ | ⟨hh, he⟩
      · exact Or.inl ⟨ce, hh, he⟩
      · obtain ⟨ms, hms, rfl⟩ := analysisOf_ok.1 he
        exact Or.inr ⟨hh, ms, hms, rfl⟩
    · rintro ⟨p, c, lang, hs, rfl, hcase⟩
      have hx := mem_selection.2 hs
      have : entryC O cached (p, lang, c) = .ok e := by
        apply entryC_ok_iff.2
        rcases hcase with ⟨ce, hh, he⟩ | ⟨hh, ms, hms, he⟩
        · exact Or.inl ⟨ce, hh, he⟩
        · exact Or.inr ⟨hh, analysisOf_ok.2 ⟨ms, hms, he⟩⟩
      exact ⟨e, (mem_of_map_ok h2 e).2 ⟨_, hx, this⟩, (entryC_fields this).1, rfl⟩

/-- the keys of a cached scan are those of a scan without cache: the cache never adds, drops or
reorders a file -/
theorem cached_scan_keys (hwf : wfDir ch = true) {files : List (Str × FileEntry)}
    (h : (scanPathCached O cached (.dir rn ch)).result = .ok files) (k : Str) :
    k ∈ files.map (·.1) ↔ ∃ p c lang, Selected O ch p c lang ∧ k = joinPath p := by
  obtain ⟨es, rfl, hr⟩ := entries_of_okC O cached rn ch hwf h
  have hk : (asDict es).map (·.1) = (selection O ch).map keyOf := by
    rw [← (runSelC_ok hr).2.2]; simp [asDict]
  rw [hk, List.mem_map]
  constructor
  · rintro ⟨⟨p, lang, c⟩, hm, rfl⟩
    exact ⟨p, c, lang, mem_selection.1 hm, rfl⟩
  · rintro ⟨p, c, lang, hs, rfl⟩
    exact ⟨(p, lang, c), mem_selection.2 hs, rfl⟩


/-- **nothing else of the cached report is read**: two cached reports that answer the lookups at the
(path, checksum) of the qualifying files alike give the same scan - entries, analysed paths,
exception; entries under other keys (deleted files, other projects) and all other fields of the
report are irrelevant -/
theorem cached_scan_depends_on_lookups_only (cached' : Option CachedFiles) (hwf : wfDir ch = true)
    (hsame : ∀ p c lang, Selected O ch p c lang →
      cacheHit cached (joinPath p) (O.checksum c) = cacheHit cached' (joinPath p) (O.checksum c)) :
    scanPathCached O cached (.dir rn ch) = scanPathCached O cached' (.dir rn ch) := by
  rw [scanPathCached_eq O cached rn ch hwf, scanPathCached_eq O cached' rn ch hwf]
  have : runSelC O cached (selection O ch) = runSelC O cached' (selection O ch) := by
    apply runSelC_congr
    rintro ⟨p, lang, c⟩ hx
    exact hsame p c lang (mem_selection.1 hx)
  rw [this]

/-! ### (b) an honest cached report changes nothing -/

/-- **(b) cache-assisted scan = fresh scan, on trees.**  Let every entry of the cached report be the
analysis, under the same libraries, of SOME content (from `S`) at the path it is stored under
(`HonestCache`: the invariant of C09), let `S` also contain the bytes of the files the scan selects,
and let the checksum have no collision on `S`.  Then for every well-formed tree the scan with that
cached report returns what the scan without returns: the same entries in the same order, or the same
exception.  (Only the instrumentation `analysed` differs: see (c).) -/
theorem cached_scan_eq_fresh_scan {S : Str → Prop} (hwf : wfDir ch = true) (hh : HonestCache O S cached)
    (hinj : ChecksumInjOn O S) (hS : ∀ p c lang, Selected O ch p c lang → S c) :
    (scanPathCached O cached (.dir rn ch)).result = (scanPath O (.dir rn ch)).result :=
  cached_result_eq_fresh rn hwf hh hinj hS

/-- the same with a checksum that is injective outright (`EnvOk.md5`) -/
theorem cached_scan_eq_fresh_scan_of_injective (hwf : wfDir ch = true)
    (hh : HonestCache O (fun _ => True) cached) (hinj : Function.Injective O.checksum) :
    (scanPathCached O cached (.dir rn ch)).result = (scanPath O (.dir rn ch)).result :=
  cached_result_eq_fresh rn hwf hh (fun _ _ _ _ h => hinj h) (fun _ _ _ _ => trivial)

/-- what a completed scan WITHOUT cache reports is an honest cached report for the next scan … -/
theorem honest_of_fresh_scan {S : Str → Prop} (hwf : wfDir ch = true)
    (hS : ∀ p c lang, Selected O ch p c lang → S c) {files : List (Str × FileEntry)}
    (h : (scanPath O (.dir rn ch)).result = .ok files) : HonestCache O S (some files) :=
  fresh_result_honest rn hwf hS h

/-- … **and so is what a scan WITH an honest cached report leaves behind** (the report it wrote, or
the old cache file when an analysis raised): the invariant is kept -/
theorem honest_after_scan {S : Str → Prop} (hwf : wfDir ch = true) (hh : HonestCache O S cached)
    (hinj : ChecksumInjOn O S) (hS : ∀ p c lang, Selected O ch p c lang → S c) :
    HonestCache O S (nextCache cached (scanPathCached O cached (.dir rn ch))) :=
  nextCache_honest rn hwf hh hinj hS

/-- **C09.1 on trees.**  After ANY sequence of scans `vs` - between which the directory is replaced
by an arbitrary other (well-formed) directory and the exclusion lines change arbitrarily, each scan
reading the report of the last completed one -, a scan of any directory `v` returns what a scan
without cache returns; `S` are the contents of all files that ever occurred. -/
theorem history_of_scans_eq_fresh {S : Str → Prop} (hinj : ChecksumInjOn O S) (vs : List Visit) (v : Visit)
    (hwf : ∀ w ∈ vs ++ [v], wfDir w.entries = true)
    (hS : ∀ w ∈ vs ++ [v], ∀ p c, FileAt w.entries p c → S c) :
    (scanPathCached (O.withExcluded v.excluded) (cacheAfter O none vs) v.root).result =
      (scanPath (O.withExcluded v.excluded) v.root).result := by
  have hh : HonestCache O S (cacheAfter O none vs) :=
    cacheAfter_honest hinj vs none (by intro f hf; cases hf)
      (fun w hw => hwf w (List.mem_append_left _ hw)) (fun w hw => hS w (List.mem_append_left _ hw))
  exact cached_result_eq_fresh v.rootName (hwf v (by simp)) (honest_withExcluded.2 hh)
    (inj_withExcluded.2 hinj) (fun p c lang hs => hS v (by simp) p c hs.1)

/-! ### (c) which files are analysed -/

/-- "(path, checksum) is in the cached report": for a `dict` (keys pairwise different) `Served` is
plain membership -/
theorem served_iff_in_cache {files : CachedFiles} (hnd : (files.map (·.1)).Nodup) (p : List Str) (c : Str) :
    Served O (some files) p c ↔ ∃ ce, (joinPath p, ce) ∈ files ∧ ce.checksum = O.checksum c := by
  constructor
  · rintro ⟨fs, ce, h1, h2, h3⟩
    cases h1
    exact ⟨ce, dictGet_mem h2, h3⟩
  · rintro ⟨ce, h1, h2⟩
    exact ⟨files, ce, rfl, dictGet_of_mem_nodup hnd h1, h2⟩

/-- **(c) exactly the selected files whose (path, checksum) is in the cached report are NOT
analysed.**  When the scan completes: the paths handed to `_analyze_file` are, in order, the keys of
the result whose path and checksum miss the cache; `k` was analysed iff it is the path of a
qualifying file that the cache does not serve; every other key of the result was served. -/
theorem analysed_iff_not_cached (hwf : wfDir ch = true) {files : List (Str × FileEntry)}
    (h : (scanPathCached O cached (.dir rn ch)).result = .ok files) :
    (scanPathCached O cached (.dir rn ch)).analysed =
      (files.filter (fun kv => (cacheHit cached kv.1 kv.2.checksum).isNone)).map (·.1) ∧
    (∀ k, k ∈ (scanPathCached O cached (.dir rn ch)).analysed ↔
      ∃ p c lang, Selected O ch p c lang ∧ k = joinPath p ∧ ¬ Served O cached p c) ∧
    (∀ k, k ∈ files.map (·.1) → k ∉ (scanPathCached O cached (.dir rn ch)).analysed →
      ∃ p c lang, Selected O ch p c lang ∧ k = joinPath p ∧ Served O cached p c) := by
  obtain ⟨es, rfl, hr⟩ := entries_of_okC O cached rn ch hwf h
  have han : (scanPathCached O cached (.dir rn ch)).analysed = (runSelC O cached (selection O ch)).1 := by
    rw [scanPathCached_eq O cached rn ch hwf]
  have hmem : ∀ k, k ∈ (scanPathCached O cached (.dir rn ch)).analysed ↔
      ∃ p c lang, Selected O ch p c lang ∧ k = joinPath p ∧ ¬ Served O cached p c := by
    intro k
    rw [han, (runSelC_ok hr).1]
    simp only [misses, List.mem_map, List.mem_filter]
    constructor
    · rintro ⟨⟨p, lang, c⟩, ⟨hx, hm⟩, rfl⟩
      exact ⟨p, c, lang, mem_selection.1 hx, rfl, not_served_iff_miss.2 hm⟩
    · rintro ⟨p, c, lang, hs, rfl, hn⟩
      exact ⟨(p, lang, c), ⟨mem_selection.2 hs, not_served_iff_miss.1 hn⟩, rfl⟩
  refine ⟨?_, hmem, ?_⟩
  · rw [han, runSelC_analysed_of_entries hr]
    simp only [asDict, List.filter_map, List.map_map]
    rfl
  · intro k hk hna
    have hk' : k ∈ (selection O ch).map keyOf := by
      rw [← (runSelC_ok hr).2.2]; simpa [asDict] using hk
    obtain ⟨⟨p, lang, c⟩, hx, rfl⟩ := List.mem_map.1 hk'
    refine ⟨p, c, lang, mem_selection.1 hx, rfl, ?_⟩
    by_contra hn
    exact hna ((hmem _).2 ⟨p, c, lang, mem_selection.1 hx, rfl, hn⟩)

/-- **(c) whether or not the scan completes**: every path handed to `_analyze_file` is the path of a
qualifying file that the cache does not serve, and none is handed over twice -/
theorem analysed_only_uncached (hwf : wfDir ch = true) :
    (∀ k ∈ (scanPathCached O cached (.dir rn ch)).analysed,
      ∃ p c lang, Selected O ch p c lang ∧ k = joinPath p ∧ ¬ Served O cached p c) ∧
    (scanPathCached O cached (.dir rn ch)).analysed.Nodup := by
  have hpre := runSelC_analysed_prefix O cached (selection O ch)
  have hsub : (misses O cached (selection O ch)).Sublist (selection O ch) := List.filter_sublist
  constructor
  · intro k hk
    rw [scanPathCached_eq O cached rn ch hwf] at hk
    obtain ⟨⟨p, lang, c⟩, hm, rfl⟩ := List.mem_map.1 (hpre.subset hk)
    simp only [misses, List.mem_filter] at hm
    exact ⟨p, c, lang, mem_selection.1 hm.1, rfl, not_served_iff_miss.2 hm.2⟩
  · rw [scanPathCached_eq O cached rn ch hwf]
    exact ((nodup_keys_selection (O := O) hwf).sublist (hsub.map keyOf)).sublist hpre.sublist

/-! ### (e) the lookup is by path; what is found is not checked -/

/-- **the lookup is by PATH.**  A qualifying file under whose printed path the cached report has no
entry is analysed, and its entry is the analysis of its own bytes with the lexer of its own name -
whatever the cached report holds under OTHER paths, in particular an entry with the same checksum
(the file before it was renamed, a copy, the same bytes under a name with another extension and
hence another language).  (Seeded three times as a bug - "look the checksum up, ignore the path" -;
this theorem is what those mutants break.) -/
theorem reuse_is_by_path (hwf : wfDir ch = true) {files : List (Str × FileEntry)}
    (h : (scanPathCached O cached (.dir rn ch)).result = .ok files)
    {p : List Str} {c : Str} {lang : Nat} (hs : Selected O ch p c lang)
    (hno : ∀ cfiles, cached = some cfiles → joinPath p ∉ cfiles.map (·.1)) :
    joinPath p ∈ (scanPathCached O cached (.dir rn ch)).analysed ∧
    ∃ ms, O.analyze lang (O.decode c) = .ok ms ∧ (joinPath p, entryOf O p c lang ms) ∈ files ∧
      ∀ e, (joinPath p, e) ∈ files → e = entryOf O p c lang ms := by
  have hns : ¬ Served O cached p c := by
    rintro ⟨cfiles, ce, h1, h2, _⟩
    exact hno cfiles h1 (List.mem_map.2 ⟨_, dictGet_mem h2, rfl⟩)
  have hmiss : cacheHit cached (joinPath p) (O.checksum c) = none := by
    have := not_served_iff_miss (lang := lang) |>.1 hns
    simpa [hitOf, keyOf] using this
  obtain ⟨hnd, hex⟩ := cached_scan_entries_exact O cached rn ch hwf h
  refine ⟨((analysed_iff_not_cached O cached rn ch hwf h).2.1 _).2 ⟨p, c, lang, hs, rfl, hns⟩, ?_⟩
  have hk : joinPath p ∈ files.map (·.1) := (cached_scan_keys O cached rn ch hwf h _).2 ⟨p, c, lang, hs, rfl⟩
  obtain ⟨⟨k, e⟩, hke, hk1⟩ := List.mem_map.1 hk
  simp only at hk1
  subst hk1
  obtain ⟨p', c', lang', hs', hpp, hcase⟩ := (hex _ e).1 hke
  obtain ⟨rfl, rfl, rfl⟩ := C11.selected_unique O ch hwf hs hs' hpp
  rcases hcase with ⟨ce, hh, _⟩ | ⟨_, ms, hms, rfl⟩
  · rw [hmiss] at hh; cases hh
  · refine ⟨ms, hms, hke, fun e' he' => ?_⟩
    have h1 := (Codebase.mem_iff_dget? hnd _ _).1 he'
    have h2 := (Codebase.mem_iff_dget? hnd _ _).1 hke
    rw [h1] at h2
    exact Option.some.inj h2

/-- **the known limit: what is found under the path is not checked beyond its checksum.**  If the
cached report has, under the printed path of a qualifying file, an entry whose checksum is the
file's, the file is NOT analysed and the result holds the cached language, line total and
measurements - whatever they are (a forged entry, an entry computed by other libraries, an entry for
another language).  Nothing in the code can detect this; `HonestCache` in (b) is exactly the
hypothesis that excludes it.  Witness: `Ex.forged_cache_at_tree_level`. -/
theorem matching_entry_is_reused_unchecked (hwf : wfDir ch = true) {files : List (Str × FileEntry)}
    (h : (scanPathCached O cached (.dir rn ch)).result = .ok files)
    {p : List Str} {c : Str} {lang : Nat} (hs : Selected O ch p c lang)
    {cfiles : CachedFiles} {ce : FileEntry} (hc : cached = some cfiles)
    (hget : dictGet cfiles (joinPath p) = some ce) (hsum : ce.checksum = O.checksum c) :
    joinPath p ∉ (scanPathCached O cached (.dir rn ch)).analysed ∧
    (joinPath p, ⟨joinPath p, O.checksum c, ce.lang, ce.loc, ce.ms⟩) ∈ files := by
  have hserved : Served O cached p c := ⟨cfiles, ce, hc, hget, hsum⟩
  have hhit : cacheHit cached (joinPath p) (O.checksum c) = some ce := cacheHit_eq_some.2 ⟨cfiles, hc, hget, hsum⟩
  constructor
  · intro hk
    obtain ⟨p', c', lang', hs', hpp, hn⟩ := ((analysed_iff_not_cached O cached rn ch hwf h).2.1 _).1 hk
    obtain ⟨rfl, rfl, rfl⟩ := C11.selected_unique O ch hwf hs hs' hpp
    exact hn hserved
  · exact ((cached_scan_entries_exact O cached rn ch hwf h).2 _ _).2
      ⟨p, c, lang, hs, rfl, Or.inl ⟨ce, hhit, rfl⟩⟩

end Tree

/-! ## 2. the cache model and `Pipeline.scan` ARE `scanPathCached` (under the instantiation of
`Model/Pipeline.lean`)

The cache model keeps the rows of the report document (`CacheRow`: key, checksum, and a `Row` with
the language NAME, an `Int` line total and `Json.Meas`urements) and looks a key up with `lookupLast`;
`scan_path` gets the report object, whose `codebase.files` is the `dict` the reader built from those
rows (`dictOfRows`: language NUMBER, natural numbers).  `RowOk` / `FileOk` say that the rows a scan
would use can be expressed on that side (supported language or the empty name, no negative number);
every file a scan wrote, every prefix of it, everything the reader rejects satisfies it
(`fileOk_of_admissible`), and so do forged files such as `Pipe.Ex.exForged`. -/

section Pipeline
open CL.Pipeline

/-- **(d) one file.**  For a file of a real directory (path `p` of good names, bytes `c`) whose name
selects the supported lexer `lang`: the per-file step of the cache model under `cacheParams`
(`Cache.scanFile`: `lookupLast` in the rows) and `_scan_file` of the tree model (`Sel.scanFileC`:
lookup in the reader's `dict`) do the same to the state of `scan_path` - the row the cache model
returns, read back as a `SourceFileEntry`, is appended to `Codebase.files`; the path is recorded as
analysed unless the cache model says `reused`; an exception of the analysis aborts both. -/
theorem cache_step_is_scanFileC (E : Env) (pats : List Gi.Pat) {p : List Str} {lang : Nat} (c : Str)
    (hne : p ≠ []) (hg : ∀ y ∈ p, goodName y = true) (hl : langOf E (baseName p) = some lang)
    (rows : Option (List CacheRow)) (hok : ∀ es, rows = some es → ∀ r ∈ es, RowOk r) (st : ScanSt)
    (hfresh : joinPath p ∉ st.files.map (·.1)) :
    scanFileC (oracles E pats) (rows.map dictOfRows) p lang c st =
      match Cache.scanFile (cacheParams E) rows (joinPath p, c) with
      | ((_, _, .ok row), how) =>
        (⟨st.analysed ++ (if how = .reused then [] else [joinPath p]),
          st.files ++ [(joinPath p, selOfRow (joinPath p) (E.checksum c) row)]⟩, none)
      | ((_, _, .error e), _) => (⟨st.analysed ++ [joinPath p], st.files⟩, some e) :=
  scanFileC_eq_cacheStep E pats (x := (p, lang, c)) ⟨hne, hg, hl⟩ rows hok st hfresh

/-- the `dict` lookup of the tree model is the `lookupLast` of the cache model: `json.loads` keeps
the last value of a repeated key, `ReportReader` inserts in document order -/
theorem reader_dict_lookup (es : List CacheRow) (k : Str) :
    dictGet (dictOfRows es) k = (Cache.lookupLast es k).map (fun he => entryOfRow (k, he)) :=
  dictGet_dictOfRows es k

/-- **(d) a scan of the cache model is `scanPathCached` on the tree.**  In ANY state of
`Model/Cache.lean` (instantiated by `cacheParams`) whose file list is that of a well-formed tree
(`fsOf ch`, i.e. `Pipeline.allFiles` keyed by printed path) and whose cache file is expressible, the
rows `scan_command` reports are the entries of `scan_path(path, cached_report)` on that tree, under the
state's exclusion lines, with the cached report the reader makes of the state's cache file. -/
theorem cache_model_scan_is_scanPathCached (E : Env) (rn : Str) {ch : List Sel.Node} (hwf : wfDir ch = true)
    (s : CacheState) (hfs : s.fs = fsOf ch) (hok : FileOk E s.cache) :
    entriesOf (Cache.scan (cacheParams E) s).2 =
      selResultC E s.excl (cacheOfFile E s.cache) (.dir rn ch) :=
  report_eq_scanPathCached E rn hwf s hfs hok

/-- … and the instrumentation agrees: the files the cache model counts as analysed are the paths
`scanPathCached` hands to `_analyze_file`, in the same order; the files it counts as reused are the
selected files with a cache hit -/
theorem cache_model_instrumentation (E : Env) (rn : Str) {ch : List Sel.Node} (hwf : wfDir ch = true)
    (s : CacheState) (hfs : s.fs = fsOf ch) (hok : FileOk E s.cache) :
    (Cache.analysedFiles (cacheParams E) s).map (·.1) =
      (scanPathCached (oracles E s.excl) (cacheOfFile E s.cache) (.dir rn ch)).analysed ∧
    ∀ k, k ∈ (Cache.reusedFiles (cacheParams E) s).map (·.1) ↔
      ∃ p c lang, Selected (oracles E s.excl) ch p c lang ∧ k = joinPath p ∧
        Served (oracles E s.excl) (cacheOfFile E s.cache) p c := by
  obtain ⟨h1, h2⟩ := analysedFiles_eq E rn hwf s hfs hok
  refine ⟨h1, fun k => ?_⟩
  rw [h2]
  simp only [List.mem_map, List.mem_filter]
  constructor
  · rintro ⟨⟨p, lang, c⟩, ⟨hx, hm⟩, rfl⟩
    exact ⟨p, c, lang, mem_selection.1 hx, rfl, served_iff_hit.2 hm⟩
  · rintro ⟨p, c, lang, hs, rfl, hm⟩
    exact ⟨(p, lang, c), ⟨mem_selection.2 hs, served_iff_hit.1 hm⟩, rfl⟩

/-- which cache files are expressible: every state that satisfies the invariant of C09 (`Cache.Inv`:
the cache file is honest or will not be used) … -/
theorem fileOk_of_invariant {E : Env} {s : CacheState} (h : Cache.Inv (cacheParams E) s) : FileOk E s.cache :=
  fileOk_of_inv h

/-- … in particular every cache file `Props/Pipeline.lean` accepts (`CacheOk`: none, written by an
earlier scan, a prefix of such a file, anything the reader rejects) -/
theorem fileOk_of_admissible {E : Env} (hE : EnvOk E) {prev : Option Str} (h : CacheOk E prev) :
    FileOk E (readCache prev) := fileOk_of_cacheOk hE h

/-- **(d) C09's history theorem, read on trees.**  Take ANY finite history of the cache model (file
writes, deletions, renames, touches, swaps, exclusion changes, allowed cache replacements,
truncations, removals, scans: `C09.inv_run`, `C09.scan_eq_fresh`) and suppose the files it ends with
are those of the well-formed tree `ch`.  Then the scan that follows reports the entries of
`scan_path(path, cached_report)` on `ch` with the cache file the history left - and these are the
entries of `scan_path(path)` without cache. -/
theorem history_scan_on_tree {E : Env} (hinj : Function.Injective E.checksum) (fs0 : List (Str × Str))
    (e0 : List Gi.Pat) (ops : List (Cache.Op Str Str Str (Except Err Row) (List Gi.Pat) (Option Str)))
    (hops : ∀ op ∈ ops, Cache.Op.Allowed (cacheParams E) op) (rn : Str) {ch : List Sel.Node}
    (hwf : wfDir ch = true) (hfs : (Cache.run (cacheParams E) (Cache.init fs0 e0) ops).fs = fsOf ch) :
    entriesOf (Cache.scan (cacheParams E) (Cache.run (cacheParams E) (Cache.init fs0 e0) ops)).2 =
      selResultC E (Cache.run (cacheParams E) (Cache.init fs0 e0) ops).excl
        (cacheOfFile E (Cache.run (cacheParams E) (Cache.init fs0 e0) ops).cache) (.dir rn ch) ∧
    entriesOf (Cache.scan (cacheParams E) (Cache.run (cacheParams E) (Cache.init fs0 e0) ops)).2 =
      selResult E (Cache.run (cacheParams E) (Cache.init fs0 e0) ops).excl (.dir rn ch) := by
  have hinv := C09.inv_run (cacheParams E) _ ops hops (C09.inv_init (cacheParams E) fs0 e0)
  generalize Cache.run (cacheParams E) (Cache.init fs0 e0) ops = s at hinv hfs
  refine ⟨report_eq_scanPathCached E rn hwf s hfs (fileOk_of_inv hinv), ?_⟩
  rw [C09.scan_eq_fresh_of_inv (cacheParams E) hinj s hinv]
  have := report_eq_scanPathCached E rn hwf { s with cache := .missing } hfs
    (by intro es hes; simp [Cache.readCachedReport] at hes)
  rw [← selResultC_none]
  exact this

/-- **(d) `Pipeline.scan` = `scan_path(path, cached_report)` + `aggregate` + `Report` +
`ReportWriter`**, for EVERY expressible cache file (forged ones included): the cached report is what
`_read_cached_report` makes of the bytes (`cacheOf`), the entries are those of `scanPathCached` under
the instantiated oracles seen through `fileOfSel`, `finishScan` builds the codebase, makes the report
and writes it. -/
theorem scan_is_scanPathCached (E : Env) (R : Pipeline.Run) (rn : Str) {ch : List Sel.Node} (hwf : wfDir ch = true)
    {prev : Option Str} (hok : FileOk E (readCache prev)) :
    scan E R (.dir rn ch) prev = finishScan E R (selResultC E R.pats (cacheOf E prev) (.dir rn ch)) :=
  scan_eq_scanPathCached E R rn hwf hok

/-- the same in the form of `Pipe.fresh_scan_is_scanPath`, for an admissible cache file; and then
the entries are also those of `scan_path(path)` without cache -/
theorem scan_with_admissible_cache_is_scanPathCached {E : Env} (hE : EnvOk E) {R : Pipeline.Run} {rn : Str}
    {ch : List Sel.Node} (hwf : wfDir ch = true) {prev : Option Str} (hprev : CacheOk E prev)
    {d : Json.ReportData} {bytes : Str} (h : scan E R (.dir rn ch) prev = .ok (d, bytes)) :
    ∃ sfiles cb, (scanPathCached (oracles E R.pats) (cacheOf E prev) (.dir rn ch)).result = .ok sfiles ∧
      (scanPath (oracles E R.pats) (.dir rn ch)).result = .ok sfiles ∧
      Codebase.build ((sfiles.map (fun kv => fileOfSel kv.2)).map cbEntry) = .ok cb ∧
      d = Json.Report.init E.version R.uuid R.now R.root R.repository
        (cb.totals.map fun kv => (kv.1, totalsJ kv.2)) (cb.tree.map fun kv => (kv.1, folderJ kv.2))
        (sfiles.map (fun kv => fileOfSel kv.2)) ∧
      bytes = Json.write true d := by
  obtain ⟨sfiles, cb, hs, _, hcb, hd, hb⟩ := scan_spec hE hwf hprev h
  refine ⟨sfiles, cb, ?_, hs, hcb, hd, hb⟩
  rw [← hs]
  exact cached_result_eq_fresh_of_inv hE.md5 (inv_of_cacheOk hE hprev) R.pats rn hwf

/-- **(b) on the instantiated model**: for an admissible cache file the tree model with the cached
report the reader makes of it returns what it returns without cache - `Pipe.scan_with_cache_eq_fresh`
one level down, without `Codebase.build` and the writer -/
theorem admissible_cache_eq_fresh {E : Env} (hE : EnvOk E) {prev : Option Str} (hprev : CacheOk E prev)
    (pats : List Gi.Pat) (rn : Str) {ch : List Sel.Node} (hwf : wfDir ch = true) :
    (scanPathCached (oracles E pats) (cacheOf E prev) (.dir rn ch)).result =
      (scanPath (oracles E pats) (.dir rn ch)).result :=
  cached_result_eq_fresh_of_inv hE.md5 (inv_of_cacheOk hE hprev) pats rn hwf

/-- **the bytes a scan writes are, for the next scan, the `Codebase.files` of this scan**:
`_read_cached_report` of the written file gives a report whose `codebase.files` is, entry by entry
(language numbers, natural numbers, order), the result of `scan_path` on the tree just scanned -/
theorem next_scan_sees_this_result {E : Env} (hE : EnvOk E) {R : Pipeline.Run} (hR : RunOk R) {rn : Str}
    {ch : List Sel.Node} (hT : TreeOk ch) {prev : Option Str} (hprev : CacheOk E prev)
    {d : Json.ReportData} {bytes : Str} (h : scan E R (.dir rn ch) prev = .ok (d, bytes)) :
    ∃ sfiles, (scanPath (oracles E R.pats) (.dir rn ch)).result = .ok sfiles ∧
      cacheOf E (some bytes) = some sfiles :=
  cacheOf_written hE hR hT hprev h

/-- **two scans in a row, on trees.**  A scan of the tree `ch1` (from an admissible cache file)
writes `bytes1`; the directory then becomes ANY well-formed tree `ch2`, the run parameters and
exclusion lines change to `R2`.  The second `scan_command` is `scan_path(ch2, cached_report)` with
`cached_report.codebase.files` = the entries of `scan_path(ch1)`, followed by build and write; and
the cache model's analysed files are that function's `analysed`. -/
theorem two_scans {E : Env} (hE : EnvOk E) {R1 : Pipeline.Run} (hR1 : RunOk R1) {rn1 : Str} {ch1 : List Sel.Node}
    (hT1 : TreeOk ch1) {prev : Option Str} (hprev : CacheOk E prev) {d1 : Json.ReportData} {bytes1 : Str}
    (h1 : scan E R1 (.dir rn1 ch1) prev = .ok (d1, bytes1))
    (R2 : Pipeline.Run) (rn2 : Str) {ch2 : List Sel.Node} (hwf2 : wfDir ch2 = true) :
    ∃ sfiles1, (scanPath (oracles E R1.pats) (.dir rn1 ch1)).result = .ok sfiles1 ∧
      scan E R2 (.dir rn2 ch2) (some bytes1) =
        finishScan E R2 (selResultC E R2.pats (some sfiles1) (.dir rn2 ch2)) ∧
      (Cache.analysedFiles (cacheParams E) (cacheState R2.pats ch2 (some bytes1))).map (·.1) =
        (scanPathCached (oracles E R2.pats) (some sfiles1) (.dir rn2 ch2)).analysed ∧
      (scanPathCached (oracles E R2.pats) (some sfiles1) (.dir rn2 ch2)).result =
        (scanPath (oracles E R2.pats) (.dir rn2 ch2)).result := by
  obtain ⟨sfiles1, hs1, hc⟩ := cacheOf_written hE hR1 hT1 hprev h1
  have hok2 : CacheOk E (some bytes1) := .written hprev hR1 hT1 h1
  have hfo := fileOk_of_cacheOk hE hok2
  refine ⟨sfiles1, hs1, ?_, ?_, ?_⟩
  · rw [scan_eq_scanPathCached E R2 rn2 hwf2 hfo, hc]
  · have := (analysedFiles_eq E rn2 hwf2 (cacheState R2.pats ch2 (some bytes1)) rfl hfo).1
    rw [this]
    show (scanPathCached (oracles E R2.pats) (cacheOf E (some bytes1)) (.dir rn2 ch2)).analysed = _
    rw [hc]
  · rw [← hc]
    exact cached_result_eq_fresh_of_inv hE.md5 (inv_of_cacheOk hE hok2) R2.pats rn2 hwf2

end Pipeline

/-! ## 3. non-vacuity: the example of `Props/Pipeline.lean`, with a cache from an earlier state

Libraries, run parameters and file contents are those of `Pipe.Ex` (`exE`, `exR`; bytes `[1]` decode
to the C text, `[2]` to the Python text, `[3]` to a text without functions; the checksum of `[n]` is
`0` followed by `n` ones).

```
earlier                      now (= `Pipe.Ex.exTree` + `extra.py` + `src/new.c`)
main.c        [1]            main.c        [1]   unchanged          -> served from the cache
gone.py       [2]            -                   deleted
src/util.py   [3]            src/util.py   [2]   edited             -> analysed
src/old.c     [1]            src/new.c     [1]   renamed            -> analysed (same bytes, other path)
                             extra.py      [2]   new, the bytes of the deleted `gone.py` -> analysed
                             .hidden.py, README.md, notes.rb, src/.cache/x.c, tests/t.py, vendor/lib.c: not selected
```
-/

namespace Ex
open CL.Pipeline CL.Pipe CL.Pipe.Ex CL.Json

def cMs : List Measurement :=
  [⟨cp! "m1", 3, 3, 3, 17, 1⟩, ⟨cp! "m2", 4, 3, 4, 31, 1⟩, ⟨cp! "f", 6, 1, 13, 2, 8⟩]

def pyMs : List Measurement :=
  [⟨cp! "m1", 3, 5, 4, 17, 2⟩, ⟨cp! "m2", 6, 11, 12, 17, 7⟩, ⟨cp! "f", 14, 1, 25, 17, 3⟩,
   ⟨cp! "g", 15, 5, 18, 13, 3⟩, ⟨cp! "h", 21, 9, 23, 17, 3⟩, ⟨cp! "k", 24, 5, 25, 17, 2⟩]

/-- the entry of a file with the C text (language 0 = C, 10 lines in 3 functions) -/
def cEntry (path : Str) : FileEntry := ⟨path, cp! "01", 0, 10, cMs⟩
/-- the entry of a file with the Python text (language 5 = Python, 20 lines in 6 functions) -/
def pyEntry (path : Str) : FileEntry := ⟨path, cp! "011", 5, 20, pyMs⟩

def exOld : List Sel.Node :=
  [.file (cp! "main.c") [1],
   .file (cp! "gone.py") [2],
   .dir (cp! "src") [.file (cp! "util.py") [3], .file (cp! "old.c") [1]]]

def exNow : List Sel.Node :=
  [.file (cp! ".hidden.py") [2],
   .file (cp! "README.md") [7],
   .file (cp! "main.c") [1],
   .file (cp! "notes.rb") [8],
   .file (cp! "extra.py") [2],
   .dir (cp! "src") [.file (cp! "util.py") [2], .file (cp! "new.c") [1], .dir (cp! ".cache") [.file (cp! "x.c") [1]]],
   .dir (cp! "tests") [.file (cp! "t.py") [2]],
   .dir (cp! "vendor") [.file (cp! "lib.c") [1]]]

/-- `Codebase.files` after the earlier scan = `cached_report.codebase.files` of the scan now -/
def exOldFiles : CachedFiles :=
  [(cp! "main.c", cEntry (cp! "main.c")),
   (cp! "gone.py", pyEntry (cp! "gone.py")),
   (cp! "src/util.py", ⟨cp! "src/util.py", cp! "0111", 5, 0, []⟩),
   (cp! "src/old.c", cEntry (cp! "src/old.c"))]

def exNowFiles : List (Str × FileEntry) :=
  [(cp! "main.c", cEntry (cp! "main.c")),
   (cp! "extra.py", pyEntry (cp! "extra.py")),
   (cp! "src/util.py", pyEntry (cp! "src/util.py")),
   (cp! "src/new.c", cEntry (cp! "src/new.c"))]

/-- the earlier scan (no cache), in the kernel: everything is analysed -/
theorem ex_old_scan : scanPath (oracles exE exR.pats) (.dir [] exOld) =
    ⟨[cp! "main.c", cp! "gone.py", cp! "src/util.py", cp! "src/old.c"], .ok exOldFiles⟩ := by
  rw [oracles_eq_K]
  decide +kernel

/-- **the scan now, with the earlier result as cached report, in the kernel**: `main.c` is served
from the cache; the edited `src/util.py`, the renamed `src/new.c` (although the cache holds its bytes
under `src/old.c` AND under `main.c`) and the new `extra.py` (although the cache holds its bytes
under `gone.py`) are analysed; the entry of the deleted `gone.py` is not carried over -/
theorem ex_cached_scan : scanPathCached (oracles exE exR.pats) (some exOldFiles) (.dir [] exNow) =
    ⟨[cp! "extra.py", cp! "src/util.py", cp! "src/new.c"], .ok exNowFiles⟩ := by
  rw [oracles_eq_K]
  decide +kernel

theorem exOld_wf : wfDir exOld = true := by decide +kernel
theorem exNow_wf : wfDir exNow = true := by decide +kernel

/-- the hypotheses of (b) hold: the cached report is honest (it IS the result of the earlier scan),
the checksum of the example is injective -/
theorem exOldFiles_honest : HonestCache (oracles exE exR.pats) (fun _ => True) (some exOldFiles) :=
  honest_of_fresh_scan (oracles exE exR.pats) [] exOld exOld_wf (fun _ _ _ _ => trivial)
    (by rw [ex_old_scan])

/-- hence, by theorem (b) and WITHOUT evaluating it: the scan of the tree now without cache returns
the same entries -/
example : (scanPath (oracles exE exR.pats) (.dir [] exNow)).result = .ok exNowFiles := by
  rw [← cached_scan_eq_fresh_scan_of_injective (oracles exE exR.pats) (some exOldFiles) [] exNow exNow_wf
    exOldFiles_honest exE_ok.md5, ex_cached_scan]

/-- `extra.py` qualifies -/
theorem extra_selected : Selected (oracles exE exR.pats) exNow [cp! "extra.py"] [2] 5 :=
  ⟨.here (by simp [exNow]), by decide +kernel, by decide +kernel, by decide +kernel⟩

/-- the hypotheses of `reuse_is_by_path` hold for `extra.py`: no entry under its path - while the
cached report does hold an entry with ITS checksum, under `gone.py` - and the theorem's conclusion
is what the evaluation showed -/
example : cp! "extra.py" ∈ (scanPathCached (oracles exE exR.pats) (some exOldFiles) (.dir [] exNow)).analysed ∧
    (∃ kv ∈ exOldFiles, kv.2.checksum = (oracles exE exR.pats).checksum [2]) := by
  refine ⟨(reuse_is_by_path (oracles exE exR.pats) (some exOldFiles) [] exNow exNow_wf
    (by rw [ex_cached_scan]) extra_selected (by
      intro cfiles hc
      cases hc
      decide +kernel)).1, ?_⟩
  exact ⟨(cp! "gone.py", pyEntry (cp! "gone.py")), by simp [exOldFiles], by decide +kernel⟩

/-- (c) on the example: `main.c` is served (`Served`, decided by evaluation of the lookup), the other
three are not -/
example : cacheHit (some exOldFiles) (cp! "main.c") (cp! "01") = some (cEntry (cp! "main.c")) ∧
    cacheHit (some exOldFiles) (cp! "src/new.c") (cp! "01") = none ∧
    cacheHit (some exOldFiles) (cp! "src/util.py") (cp! "011") = none ∧
    cacheHit (some exOldFiles) (cp! "extra.py") (cp! "011") = none := by decide +kernel

/-! ### the same two scans through `Pipeline.scan` (bytes on disk) -/

theorem exOld_ok : TreeOk exOld where
  wf := exOld_wf
  names := by
    intro p c hf hv
    have h : ∀ x ∈ cands [] exOld, ∀ y ∈ x.1, Json.GoodStr y := by decide +kernel
    exact h (p, c) (mem_cands.2 ⟨p, rfl, hf, hv⟩)

/-- whatever bytes the earlier `scan_command` wrote (it did write some: `scan_never_raises`), the
`scan_command` now, reading them, is `scan_path(exNow, cached_report)` with
`cached_report.codebase.files = exOldFiles`, followed by build and write; it analyses the three files
and takes `main.c` from the cache; its report holds `exNowFiles` -/
example : ∃ d bytes, scan exE exR (.dir [] exOld) none = .ok (d, bytes) ∧
    scan exE exR (.dir [] exNow) (some bytes) =
      finishScan exE exR (.ok (exNowFiles.map (fun kv => fileOfSel kv.2))) ∧
    (Cache.analysedFiles (cacheParams exE) (cacheState exR.pats exNow (some bytes))).map (·.1) =
      [cp! "extra.py", cp! "src/util.py", cp! "src/new.c"] := by
  obtain ⟨d, bytes, h⟩ := scan_never_raises exE exR [] exOld_wf none
  obtain ⟨sfiles1, hs1, h2, h3, _⟩ := two_scans exE_ok exR_ok exOld_ok .missing h exR [] exNow_wf
  rw [ex_old_scan] at hs1
  cases hs1
  refine ⟨d, bytes, h, ?_, ?_⟩
  · rw [h2, selResultC, ex_cached_scan]
  · rw [h3, ex_cached_scan]

/-! ### the known limit on the example: the forged cache of `Pipe.Ex.forged_cache_taints` -/

set_option maxRecDepth 20000 in
/-- the forged file is expressible: `scan_is_scanPathCached` applies to it -/
theorem forged_fileOk : FileOk exE (readCache (some exForged)) :=
  fileOk_of_check (by decide +kernel)

set_option maxRecDepth 20000 in
/-- **a forged same-version entry with a matching checksum is reused, at tree level**: with the
cached report the reader makes of `exForged` (length of `f` in `main.c` changed from 8 to 80),
`scan_path` analyses NOTHING and files the forged measurement; `Pipeline.scan` is this function
followed by build and write, which is how the 80 reaches the report (`Pipe.Ex.forged_cache_taints`) -/
theorem forged_cache_at_tree_level :
    scanPathCached (oracles exE exR.pats) (cacheOf exE (some exForged)) (.dir [] exTree) =
      ⟨[], .ok [(cp! "main.c", ⟨cp! "main.c", cp! "01", 0, 10,
                  [⟨cp! "m1", 3, 3, 3, 17, 1⟩, ⟨cp! "m2", 4, 3, 4, 31, 1⟩, ⟨cp! "f", 6, 1, 13, 2, 80⟩]⟩),
                (cp! "src/util.py", pyEntry (cp! "src/util.py"))]⟩ ∧
    scan exE exR (.dir [] exTree) (some exForged) =
      finishScan exE exR (selResultC exE exR.pats (cacheOf exE (some exForged)) (.dir [] exTree)) := by
  refine ⟨?_, scan_is_scanPathCached exE exR [] exTree_ok.wf forged_fileOk⟩
  rw [oracles_eq_K]
  decide +kernel

end Ex

end CL.C09sel
