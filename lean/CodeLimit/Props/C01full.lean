import CodeLimit.Props.C01tree
import CodeLimit.Lemmas.ProgTreeCanonDisc
import CodeLimit.Lemmas.ProgTreeCanonBare
import CodeLimit.Lemmas.ProgTreeCanonJs
/-!
# C01 end to end on program trees, WITHOUT the discovery hypothesis

`Props/C01tree.lean` (G4) proves: IF `extract_headers` finds exactly the headers of the function
nodes of a forest, THEN `scan_file` returns the tree report.  Here that hypothesis is discharged
for canonical fragments that are decidable predicates on the TREE (no automata, no token indices;
`Spec/ProgTreeCanon.lean`):

* `Prog.Canon` for C, C++, C# (`C01syn.cFamily`: pattern `Name ( … )+`, follow-up `{`);
* `Prog.CanonJava` for Java (follow-up `{` or `throws … {`, headers behind `new` / `record` dropped);
* `Prog.CanonJs`, `Prog.CanonTs` for the `function` / method pattern of JavaScript and TypeScript
  (`[function] Name ( … )+`, TypeScript follow-up `{` or `: … {`), on forests WITHOUT ASSIGNED
  arrow functions: no operator `=` directly followed by `[async] ( … ) => {`, which keeps the
  second (arrow-function) pattern `[const] Name = [async] ( … )+` + `=> {` silent
  (`arrow_matches`, `arrow_follow`).

The clauses, for the C family:

* every function node has the header `name ( … ) ( … )` (one Name token, then one or more
  parenthesis groups, nothing else; parentheses are the PUNCTUATION tokens `(` / `)`), no Name
  token after the first one is directly followed by `(` (KF1), the name is the first token, the
  gap is empty;
* no Name token outside the headers starts a FALSE header: `Name ( … )+` directly in front of a
  brace group of the same sibling list (`if ( x ) {` starts with a Keyword; `g ( x ) ;` ends in
  front of `;`; `struct s {`, `= {` have no parenthesis group);
* the token sequence of the file, of every brace group and of every function body has balanced
  parentheses.

Results, for EVERY such forest:

* F1 `discovery_of_canon` (`…_java`, `…_js`, `…_ts`) - `extract_headers` returns exactly the headers
  of the function nodes, in source order;
* F2 `scan_of_canon_tree` (`scan_java_…`, `scan_js_…`, `scan_ts_…`) - `scan_file` returns exactly the
  tree report;
* F3 `scan_of_rendered_canon_tree`, `scan_of_rendered_canon_nodes` (`scan_java_of_rendered_…`, …) -
  the same for the rendering of a forest of tokens without locations (conditions on `p.bare`:
  location independent);
* non-vacuity: `Ex.fullTree` (class group, control block, nesting depth 3, brace group inside a
  header, call statements, a header with two groups), `Ex.javaFull` (`throws` clause, anonymous
  class, abstract method), `Ex.jsFull`, `Ex.tsFull` satisfy all hypotheses by `decide`, and the
  conclusions agree with the kernel evaluation of `scanFile`;
* the clauses are needed: `nocall_clause_needed` (KF1: `f ( g ( x ) ) { }`),
  `scan_without_canon_false` (false header `g ( x ) { }`), `unbalanced_example`,
  `java_new_clause_needed`, `java_throws_false_header`, `js_function_keyword_clause`,
  `js_assigned_arrow_clause`;
* a finding about the TypeScript definition: `ts_ternary_false_header` - the follow-up `: … {`
  (meant for return type annotations) also matches `c ? f ( x ) : { … }` and `case f ( x ) : {`,
  so calls in conditional expressions and `case` labels are reported as functions;
* F1a `headers_of_layout_syn`, `scan_of_layout_syn` - stage A (token indices, `Layout`) for C / C++ /
  C# with the discovery hypothesis replaced by syntactic conditions on the token list;
* negation forms `¬ ∀ …` of "the clause is needed", each with ONE clause of the fragment switched
  off: `nocall_clause_needed`, `scan_without_canon_false`, `java_new_clause_needed`,
  `java_throws_clause_needed`, `java_gap_clause_needed`, `c_gap_clause_needed` (C++ `f ( ) const {`
  is not reported at all), `js_function_keyword_clause_needed`, `ts_function_keyword_clause_needed`,
  `js_assigned_arrow_clause_needed`, `ts_gap_clause_needed`; `cpp_ctor_initializer_reports_member`.

**Naming.**  The theorems of this file carry no `_partial`: their hypotheses are decidable
conditions on the INPUT tree (`wfCore`, `noAdj`, `Canon…`, `allCode`, increasing locations), nothing
about intermediate results of the analysis.  `noAdj` and the clauses of `Canon…` (no call-shaped
group in a header = KF1, no false header, balanced groups, …) define the canonical fragment in the
sense of Appendix A of the design; each is shown necessary by a kernel-checked witness (the only
clause without one is the FILE-level `parenBal p.flat 0`: no forest was found on which it matters;
it may be redundant).  `noAdj` inside headers needs no witness: a header contains no function node
(`wfCore`), so the clause is vacuous there.
-/
namespace CL.C01full
open CL.C01syn CL.C01tree

/-- C, C++ and C# are brace-block languages -/
theorem cFamily_brace : ∀ L ∈ cFamily, L.python = false := by
  intro L hL
  simp only [cFamily, List.mem_cons, List.not_mem_nil, or_false] at hL
  rcases hL with rfl | rfl | rfl <;> rfl

/-! ## F1: discovery -/

/-- **F1.  Discovery on the canonical fragment.**  Let `p` be a forest of located tokens that is
structurally well-formed (`wfCore`), has no function directly followed by a brace group (`noAdj`)
and lies in the canonical fragment (`Canon`).  Then `extract_headers` of C / C++ / C# on the token
sequence of `p` succeeds and returns exactly the headers (token range and name token) of the
function nodes of `p`, in source order: every function is found, each once, and nothing else. -/
theorem discovery_of_canon {L : Language} (hL : L ∈ cFamily) {p : Prog Tok}
    (hc : p.Canon = true) (hw : p.wfCore = true) (ha : p.noAdj = true) :
    extractHeaders L p.flat = .ok (p.fns.map (·.hdr)) := by
  obtain ⟨hs, h⟩ := c_headers_total L hL p.flat
  rw [h, canon_headers_eq hL hw ha hc h]

/-- the two halves of F1 separately (they do not need `noAdj`): every reported header is the
header of a function node, and the header of every function node is reported -/
theorem discovery_sound_complete {L : Language} (hL : L ∈ cFamily) {p : Prog Tok}
    (hc : p.Canon = true) (hw : p.wfCore = true) {hs : List Header}
    (h : extractHeaders L p.flat = .ok hs) :
    (∀ hd ∈ hs, hd ∈ p.fns.map (·.hdr)) ∧ (∀ f ∈ p.fns, f.hdr ∈ hs) :=
  ⟨canon_header_sound hL hw hc h, canon_header_complete hL hw hc h⟩

/-! ## F1a: stage A (`Layout`) with the header hypothesis replaced by syntactic conditions

`C01.scan_of_fnLayout_partial` assumes `extractHeaders L code = .ok hs` with `hs` a permutation of
the headers of `fns` - a statement about an intermediate result.  With `C01syn.c_header_sound` /
`c_header_complete` it becomes a condition on the token list alone.  (The hypothesis
`getBlocks code = .ok blocks` of stage A remains: `blocks` = the matched pairs of brace symbols; it
is discharged for program trees by `C01tree.blocks_of_tree`.) -/

theorem header_eq_of {a b : Header} (h1 : a.rng = b.rng) (h2 : a.name = b.name) : a = b := by
  cases a; cases b; simp only at h1 h2; rw [h1, h2]

/-- **Header discovery on a layout of C / C++ / C#, from syntactic conditions.**  If every function
of `fns` has a syntactic header `Name ( … )+` as its header range, followed by the symbol `{`, named
by its first token and without `Name (` strictly inside its parameter list (KF1), and every
syntactic header of the token list that is followed by `{` is the header of one of the functions,
then `extract_headers` returns a permutation of the headers of `fns`. -/
theorem headers_of_layout_syn {L : Language} (hL : L ∈ cFamily) {code : List Tok} {fns : List Fn}
    (hsorted : fns.Pairwise (fun f g => f.hdr.rng.s < g.hdr.rng.s))
    (hdef : ∀ f ∈ fns, Syn.SynHeader code f.hdr.rng.s f.hdr.rng.e ∧
      Syn.SymbolAt code f.hdr.rng.e [123] ∧ code[f.hdr.rng.s]? = some f.hdr.name ∧
      ∀ q, f.hdr.rng.s < q → q + 2 < f.hdr.rng.e →
        ¬ (Syn.NameAt code q ∧ Syn.OpenAt code (q + 1)))
    (hall : ∀ p f, Syn.SynHeader code p f → Syn.SymbolAt code f [123] →
      ∃ g ∈ fns, g.hdr.rng = ⟨p, f⟩) :
    ∃ hs, extractHeaders L code = .ok hs ∧ hs.Perm (fns.map (·.hdr)) := by
  obtain ⟨hs, h⟩ := c_headers_total L hL code
  refine ⟨hs, h, ?_⟩
  have hnd1 : hs.Nodup :=
    List.Nodup.of_map _ (C01disc.extracted_once L (cFamily_shipped L hL) code hs h).1
  have hnd2 : (fns.map (·.hdr)).Nodup := by
    rw [List.Nodup, List.pairwise_map]
    exact hsorted.imp (fun hlt heq => by rw [heq] at hlt; omega)
  rw [List.perm_ext_iff_of_nodup hnd1 hnd2]
  intro hd
  constructor
  · intro hhd
    obtain ⟨s1, s2, s3⟩ := c_header_sound L hL code hs h hd hhd
    obtain ⟨g, hg, hgr⟩ := hall _ _ s1 s2
    have hgn := (hdef g hg).2.2.1
    have hs' : g.hdr.rng.s = hd.rng.s := by rw [hgr]
    rw [hs', s3] at hgn
    rw [← header_eq_of hgr (Option.some.inj hgn).symm]
    exact List.mem_map_of_mem hg
  · intro hhd
    obtain ⟨f, hf, rfl⟩ := List.mem_map.1 hhd
    obtain ⟨d1, d2, d3, d4⟩ := hdef f hf
    obtain ⟨hd, hhd', hr, hn, _⟩ := c_header_complete L hL code hs h _ _ d1 d2 d4
    rw [d3] at hn
    rw [← header_eq_of hr (Option.some.inj hn).symm]
    exact hhd'

/-- **Stage A for C / C++ / C# WITHOUT the discovery hypothesis** (`C01.scan_of_fnLayout_partial`
with `hh` / `hperm` replaced by conditions on the token list).  For a lexed file whose brace blocks
are `blocks`, functions `fns` that lie canonically relative to the blocks (`FnLayout`, no block
directly after a function body) and whose headers are EXACTLY the syntactic headers `Name ( … )+ {`
of the token list (each without `Name (` inside): `scan_file` reports exactly `fns` with the
expected measurements (C++, C#), the top-level ones with all their lines (C). -/
theorem scan_of_layout_syn {L : Language} (hL : L ∈ cFamily) {all code : List Tok} {fns : List Fn}
    {blocks : List Range} (hcode : filterTokens false all = code)
    (hpos : code.Pairwise (fun a b => a.line < b.line ∨ (a.line = b.line ∧ a.col < b.col)))
    (hb : getBlocks code = .ok blocks)
    (hF : FnLayout fns blocks) (hadj : ∀ f ∈ fns, ∀ b ∈ blocks, b.s ≠ f.body.e)
    (hdef : ∀ f ∈ fns, Syn.SynHeader code f.hdr.rng.s f.hdr.rng.e ∧
      Syn.SymbolAt code f.hdr.rng.e [123] ∧ code[f.hdr.rng.s]? = some f.hdr.name ∧
      ∀ q, f.hdr.rng.s < q → q + 2 < f.hdr.rng.e →
        ¬ (Syn.NameAt code q ∧ Syn.OpenAt code (q + 1)))
    (hall : ∀ p f, Syn.SynHeader code p f → Syn.SymbolAt code f [123] →
      ∃ g ∈ fns, g.hdr.rng = ⟨p, f⟩)
    (hm : ∀ f ∈ fns, ¬ Marked all f.hdr.name.line) :
    (L.nested = true →
      ∃ ms, scanFile L all = .ok ms ∧ ms.map some = fns.map (expected code fns)) ∧
    (L.nested = false →
      ∃ ms, scanFile L all = .ok ms ∧ ms.map some = (topLevel fns).map (expectedFlat code)) := by
  obtain ⟨hs, hh, hperm⟩ := headers_of_layout_syn hL hF.fns_sorted hdef hall
  exact C01.scan_of_fnLayout_partial hcode (cFamily_brace L hL) hpos hh hperm hb hF hadj hm

/-- **non-vacuity of `scan_of_layout_syn`**: the hand-written token list of stage A
(`Lemmas/LayoutExamples.lean`: 72 tokens, six functions, nesting depth 3, a brace group in a
parameter list) satisfies the syntactic conditions - decided in the kernel - and the conclusion is
the one of `C01.scan_example_cpp` -/
theorem layout_syn_example :
    (∀ f ∈ C01Ex.fns, Syn.SynHeader C01Ex.code f.hdr.rng.s f.hdr.rng.e ∧
      Syn.SymbolAt C01Ex.code f.hdr.rng.e [123] ∧ C01Ex.code[f.hdr.rng.s]? = some f.hdr.name ∧
      ∀ q, f.hdr.rng.s < q → q + 2 < f.hdr.rng.e →
        ¬ (Syn.NameAt C01Ex.code q ∧ Syn.OpenAt C01Ex.code (q + 1))) ∧
    (∀ p f, Syn.SynHeader C01Ex.code p f → Syn.SymbolAt C01Ex.code f [123] →
      ∃ g ∈ C01Ex.fns, g.hdr.rng = ⟨p, f⟩) ∧
    ∃ ms, scanFile Gen.cpp C01Ex.all = .ok ms ∧
      ms.map some = C01Ex.fns.map (expected C01Ex.code C01Ex.fns) := by
  have h1 : ∀ f ∈ C01Ex.fns, Syn.SynHeader C01Ex.code f.hdr.rng.s f.hdr.rng.e ∧
      Syn.SymbolAt C01Ex.code f.hdr.rng.e [123] ∧ C01Ex.code[f.hdr.rng.s]? = some f.hdr.name ∧
      ∀ q, f.hdr.rng.s < q → q + 2 < f.hdr.rng.e →
        ¬ (Syn.NameAt C01Ex.code q ∧ Syn.OpenAt C01Ex.code (q + 1)) := by
    have hb : ∀ f ∈ C01Ex.fns, Syn.SynHeader C01Ex.code f.hdr.rng.s f.hdr.rng.e ∧
        Syn.SymbolAt C01Ex.code f.hdr.rng.e [123] ∧ C01Ex.code[f.hdr.rng.s]? = some f.hdr.name ∧
        f.hdr.rng.e ≤ 72 ∧
        ∀ q, q < 72 → f.hdr.rng.s < q → q + 2 < f.hdr.rng.e →
          ¬ (Syn.NameAt C01Ex.code q ∧ Syn.OpenAt C01Ex.code (q + 1)) := by decide +kernel
    intro f hf
    obtain ⟨a, b, c, d, e⟩ := hb f hf
    exact ⟨a, b, c, fun q h1 h2 => e q (by omega) h1 h2⟩
  have h2 : ∀ p f, Syn.SynHeader C01Ex.code p f → Syn.SymbolAt C01Ex.code f [123] →
      ∃ g ∈ C01Ex.fns, g.hdr.rng = ⟨p, f⟩ := by
    have hb : ∀ p, p < 72 → Syn.SynHeader C01Ex.code p (Syn.groupsEnd C01Ex.code (p + 1)) →
        Syn.SymbolAt C01Ex.code (Syn.groupsEnd C01Ex.code (p + 1)) [123] →
        ∃ g ∈ C01Ex.fns, g.hdr.rng = ⟨p, Syn.groupsEnd C01Ex.code (p + 1)⟩ := by decide +kernel
    intro p f hs hb'
    obtain ⟨⟨t, ht, _⟩, _, rfl⟩ := id hs
    exact hb p (List.getElem?_eq_some_iff.1 ht).1 hs hb'
  exact ⟨h1, h2, (scan_of_layout_syn (L := Gen.cpp) (by simp [cFamily]) C01Ex.code_all
    C01Ex.layout.pos_sorted C01Ex.blocksEx C01Ex.layout.toFnLayout C01Ex.layout.no_adjacent h1 h2
    C01Ex.unmarked).1 rfl⟩

/-! ## F2: the whole of `scan_file` -/

/-- **F2.  `scan_file` on the canonical fragment returns the tree report** (C, C++, C#).
Let `p` be a forest of located tokens: in the canonical fragment (`Canon`), structurally
well-formed (`wfCore`), no function directly followed by a brace group (`noAdj`), token locations
strictly increasing; let `all` be a token list whose code tokens are the token sequence of `p`
(comments and whitespace may be interspersed), no function of `p` being marked with a suppression
comment.  Then `scan_file` succeeds and returns exactly the tree report: `treeReport p` (every
function node, own lines) if the language reports nested functions (C++, C#), `treeReportFlat p`
(outermost function nodes, all lines) otherwise (C).  No hypothesis about the matcher remains. -/
theorem scan_of_canon_tree {L : Language} (hL : L ∈ cFamily) {all : List Tok} {p : Prog Tok}
    (hc : p.Canon = true) (hw : p.wfCore = true) (ha : p.noAdj = true)
    (hpos : PosSorted p.flat) (hcode : filterTokens false all = p.flat)
    (hm : ∀ f ∈ p.fns, ¬ Marked all f.hdr.name.line) :
    scanFile L all = .ok (if L.nested = true then treeReport p else treeReportFlat p) := by
  have hh := discovery_of_canon hL hc hw ha
  exact scan_of_tree_partial (cFamily_brace L hL) hw ha hpos hcode hh (List.Perm.refl _) hm

/-- F2 for C: the outermost functions, each with all its lines -/
theorem scan_c_of_canon_tree {all : List Tok} {p : Prog Tok}
    (hc : p.Canon = true) (hw : p.wfCore = true) (ha : p.noAdj = true)
    (hpos : PosSorted p.flat) (hcode : filterTokens false all = p.flat)
    (hm : ∀ f ∈ p.fns, ¬ Marked all f.hdr.name.line) :
    scanFile Gen.c all = .ok (treeReportFlat p) :=
  scan_of_canon_tree (L := Gen.c) (by simp [cFamily]) hc hw ha hpos hcode hm

/-- F2 for C++: every function node, with its own lines -/
theorem scan_cpp_of_canon_tree {all : List Tok} {p : Prog Tok}
    (hc : p.Canon = true) (hw : p.wfCore = true) (ha : p.noAdj = true)
    (hpos : PosSorted p.flat) (hcode : filterTokens false all = p.flat)
    (hm : ∀ f ∈ p.fns, ¬ Marked all f.hdr.name.line) :
    scanFile Gen.cpp all = .ok (treeReport p) :=
  scan_of_canon_tree (L := Gen.cpp) (by simp [cFamily]) hc hw ha hpos hcode hm

/-- F2 for C#: every function node, with its own lines -/
theorem scan_csharp_of_canon_tree {all : List Tok} {p : Prog Tok}
    (hc : p.Canon = true) (hw : p.wfCore = true) (ha : p.noAdj = true)
    (hpos : PosSorted p.flat) (hcode : filterTokens false all = p.flat)
    (hm : ∀ f ∈ p.fns, ¬ Marked all f.hdr.name.line) :
    scanFile Gen.csharp all = .ok (treeReport p) :=
  scan_of_canon_tree (L := Gen.csharp) (by simp [cFamily]) hc hw ha hpos hcode hm

/-! ## F3: rendered forests -/

/-- the canonical fragment does not depend on the locations: a rendered forest is canonical iff
the forest of tokens without locations is (viewed at a dummy location) -/
theorem canon_of_rendered (p : Prog PTok) : p.located.Canon = p.bare.Canon := canon_locate p (1, 0)

/-- **F3.  Rendered forests.**  Let `p` be ANY forest of tokens without locations (line breaks and
blank columns arbitrary) that lies in the canonical fragment, is structurally well-formed, has no
function directly followed by a brace group and consists of code tokens - four decidable
conditions that do not mention locations.  Then `scan_file` of C / C++ / C# on the rendering of `p`
returns exactly the tree report of the located forest. -/
theorem scan_of_rendered_canon_tree {L : Language} (hL : L ∈ cFamily) {p : Prog PTok}
    (hc : p.bare.Canon = true) (hw : p.bare.wfCore = true) (ha : p.noAdj = true)
    (hcode : p.bare.allCode = true) :
    scanFile L (render p)
      = .ok (if L.nested = true then treeReport p.located else treeReportFlat p.located) := by
  have hw' : p.located.wfCore = true := by rw [Prog.located, wfCore_locate]; exact hw
  have ha' : p.located.noAdj = true := by rw [Prog.located, noAdj_locate]; exact ha
  have hc' : p.located.Canon = true := by rw [canon_of_rendered]; exact hc
  have hh : extractHeaders L (render p) = .ok (p.located.fns.map (·.hdr)) :=
    discovery_of_canon hL hc' hw' ha'
  exact scan_of_rendered_tree_partial (cFamily_brace L hL) hw ha hcode hh (List.Perm.refl _)

/-- F3 for a list of rose-tree nodes of tokens without locations -/
theorem scan_of_rendered_canon_nodes {L : Language} (hL : L ∈ cFamily) (ns : List (Node PTok))
    (hc : (Prog.ofNodes ns).bare.Canon = true) (hw : (Prog.ofNodes ns).bare.wfCore = true)
    (ha : (Prog.ofNodes ns).noAdj = true) (hcode : (Prog.ofNodes ns).bare.allCode = true) :
    scanFile L (render (Prog.ofNodes ns))
      = .ok (if L.nested = true then treeReport (Prog.ofNodes ns).located
             else treeReportFlat (Prog.ofNodes ns).located) :=
  scan_of_rendered_canon_tree hL hc hw ha hcode

/-! ## non-vacuity -/

namespace Ex
open CL.C01tree.Ex

/-- the file

```
 1  int a [ ] = { 1 , 2 } ;              initialiser at top level (`= {`: no false header)
 2  class A {                            a class group (`A {`: no parenthesis group)
 3    m1 ( ) { x ; }
 4    m2 ( int v = { 1 } ) {             brace group inside a header
 5      g ( x ) ;                        call statement in a body (the run ends in front of `;`)
 6    }
 7  } ;
 8  f ( ) {
 9    g ( ) {                            nested, not the last statement
10      h ( ) { z ; }                    nesting depth 3
11      q ( 1 ) ;                        call statement; belongs to `g` again
12    }
13    if ( x ) { w ; }                   control block: `if` is a Keyword token
14    k ( ) ( ) { u ; } r ;              a header with two parenthesis groups
15  }
```

as a forest of tokens without locations -/
def fullTree : Prog PTok :=
  .toks [pt 1 [105, 110, 116] 0 0, pt 2 [97] 0 3, pt 3 [91] 0 1, pt 3 [93] 0 1, pt 4 [61] 0 1] <|
  .group (pt 3 [123] 0 1) (pt 3 [125] 0 1)
      (.toks [pt 0 [49] 0 1, pt 3 [44] 0 1, pt 0 [50] 0 1] <|
      .nil) <|
  .toks [pt 3 [59] 0 1, pt 1 [99, 108, 97, 115, 115] 1 0, pt 2 [65] 0 5] <|
  .group (pt 3 [123] 0 1) (pt 3 [125] 1 0)
      (.fn (.toks [pt 2 [109, 49] 1 2, pt 3 [40] 0 2, pt 3 [41] 0 1] <|
          .nil) 0 [] (pt 3 [123] 0 1) (pt 3 [125] 0 1)
          (.toks [pt 2 [120] 0 1, pt 3 [59] 0 1] <|
          .nil) <|
      .fn (.toks [pt 2 [109, 50] 1 2, pt 3 [40] 0 2, pt 1 [105, 110, 116] 0 1, pt 2 [118] 0 3,
                  pt 4 [61] 0 1] <|
          .group (pt 3 [123] 0 1) (pt 3 [125] 0 1)
              (.toks [pt 0 [49] 0 1] <|
              .nil) <|
          .toks [pt 3 [41] 0 1] <|
          .nil) 0 [] (pt 3 [123] 0 1) (pt 3 [125] 1 2)
          (.toks [pt 2 [103] 1 4, pt 3 [40] 0 1, pt 2 [120] 0 1, pt 3 [41] 0 1, pt 3 [59] 0 1] <|
          .nil) <|
      .nil) <|
  .toks [pt 3 [59] 0 1] <|
  .fn (.toks [pt 2 [102] 1 0, pt 3 [40] 0 1, pt 3 [41] 0 1] <|
      .nil) 0 [] (pt 3 [123] 0 1) (pt 3 [125] 1 0)
      (.fn (.toks [pt 2 [103] 1 2, pt 3 [40] 0 1, pt 3 [41] 0 1] <|
          .nil) 0 [] (pt 3 [123] 0 1) (pt 3 [125] 1 2)
          (.fn (.toks [pt 2 [104] 1 4, pt 3 [40] 0 1, pt 3 [41] 0 1] <|
              .nil) 0 [] (pt 3 [123] 0 1) (pt 3 [125] 0 1)
              (.toks [pt 2 [122] 0 1, pt 3 [59] 0 1] <|
              .nil) <|
          .toks [pt 2 [113] 1 4, pt 3 [40] 0 1, pt 0 [49] 0 1, pt 3 [41] 0 1, pt 3 [59] 0 1] <|
          .nil) <|
      .toks [pt 1 [105, 102] 1 2, pt 3 [40] 0 2, pt 2 [120] 0 1, pt 3 [41] 0 1] <|
      .group (pt 3 [123] 0 1) (pt 3 [125] 0 1)
          (.toks [pt 2 [119] 0 1, pt 3 [59] 0 1] <|
          .nil) <|
      .fn (.toks [pt 2 [107] 1 2, pt 3 [40] 0 1, pt 3 [41] 0 1, pt 3 [40] 0 1, pt 3 [41] 0 1] <|
          .nil) 0 [] (pt 3 [123] 0 1) (pt 3 [125] 0 1)
          (.toks [pt 2 [117] 0 1, pt 3 [59] 0 1] <|
          .nil) <|
      .toks [pt 2 [114] 0 1, pt 3 [59] 0 1] <|
      .nil) <|
  .nil

/-- the example lies in the canonical fragment and satisfies the other three hypotheses of F3 -/
theorem full_canon : fullTree.bare.Canon = true ∧ fullTree.bare.wfCore = true ∧
    fullTree.noAdj = true ∧ fullTree.bare.allCode = true := by decide +kernel

/-- the tree of `Props/C01tree.lean` lies in the canonical fragment, too -/
theorem cppTree_canon : cppTree.bare.Canon = true := by decide +kernel

/-- F3 applies to C++ ... -/
theorem full_scan_cpp : scanFile Gen.cpp (render fullTree) = .ok (treeReport fullTree.located) :=
  scan_of_rendered_canon_tree (L := Gen.cpp) (by simp [cFamily]) full_canon.1 full_canon.2.1
    full_canon.2.2.1 full_canon.2.2.2

/-- ... and to C -/
theorem full_scan_c : scanFile Gen.c (render fullTree) = .ok (treeReportFlat fullTree.located) :=
  scan_of_rendered_canon_tree (L := Gen.c) (by simp [cFamily]) full_canon.1 full_canon.2.1
    full_canon.2.2.1 full_canon.2.2.2

/-- the tree report: `m2` has 3 lines (4-6), `f` 4 own lines (8, 13, 14, 15), `g` 3 (9, 11, 12) -/
theorem full_treeReport : treeReport fullTree.located
    = [⟨[109, 49], 3, 3, 3, 17, 1⟩, ⟨[109, 50], 4, 3, 6, 4, 3⟩, ⟨[102], 8, 1, 15, 2, 4⟩,
       ⟨[103], 9, 3, 12, 4, 3⟩, ⟨[104], 10, 5, 10, 18, 1⟩, ⟨[107], 14, 3, 14, 20, 1⟩] := by
  decide +kernel

theorem full_treeReportFlat : treeReportFlat fullTree.located
    = [⟨[109, 49], 3, 3, 3, 17, 1⟩, ⟨[109, 50], 4, 3, 6, 4, 3⟩, ⟨[102], 8, 1, 15, 2, 8⟩] := by
  decide +kernel

/-- the conclusion of F3 agrees with the independent kernel evaluation of the model of
`scan_file` on the 80 tokens of the rendering (C++) -/
theorem full_scan_cpp_eval : scanFile Gen.cpp (render fullTree)
    = .ok [⟨[109, 49], 3, 3, 3, 17, 1⟩, ⟨[109, 50], 4, 3, 6, 4, 3⟩, ⟨[102], 8, 1, 15, 2, 4⟩,
       ⟨[103], 9, 3, 12, 4, 3⟩, ⟨[104], 10, 5, 10, 18, 1⟩, ⟨[107], 14, 3, 14, 20, 1⟩] :=
  scanFile_eval (by decide +kernel)

example : (Except.ok (treeReport fullTree.located) : Except Err _)
    = .ok [⟨[109, 49], 3, 3, 3, 17, 1⟩, ⟨[109, 50], 4, 3, 6, 4, 3⟩, ⟨[102], 8, 1, 15, 2, 4⟩,
       ⟨[103], 9, 3, 12, 4, 3⟩, ⟨[104], 10, 5, 10, 18, 1⟩, ⟨[107], 14, 3, 14, 20, 1⟩] := by
  rw [← full_scan_cpp, full_scan_cpp_eval]

/-- the same for C (no nested functions) -/
theorem full_scan_c_eval : scanFile Gen.c (render fullTree)
    = .ok [⟨[109, 49], 3, 3, 3, 17, 1⟩, ⟨[109, 50], 4, 3, 6, 4, 3⟩, ⟨[102], 8, 1, 15, 2, 8⟩] :=
  scanFile_eval (by decide +kernel)

example : (Except.ok (treeReportFlat fullTree.located) : Except Err _)
    = .ok [⟨[109, 49], 3, 3, 3, 17, 1⟩, ⟨[109, 50], 4, 3, 6, 4, 3⟩, ⟨[102], 8, 1, 15, 2, 8⟩] := by
  rw [← full_scan_c, full_scan_c_eval]

/-- F1 on the example: the six headers, in source order (`m2 ( int v = { 1 } )` = tokens 21-29,
`k ( ) ( )` = tokens 68-72) -/
example : extractHeaders Gen.csharp (render fullTree) = .ok (fullTree.located.fns.map (·.hdr)) ∧
    (fullTree.located.fns.map (fun f => (f.hdr.name.val, f.hdr.rng.s, f.hdr.rng.e)))
      = [([109, 49], 14, 17), ([109, 50], 21, 30), ([102], 39, 42), ([103], 43, 46),
         ([104], 47, 50), ([107], 68, 73)] := by
  refine ⟨?_, by decide +kernel⟩
  have hw' : fullTree.located.wfCore = true := by
    rw [Prog.located, wfCore_locate]; exact full_canon.2.1
  have ha' : fullTree.located.noAdj = true := by
    rw [Prog.located, noAdj_locate]; exact full_canon.2.2.1
  exact discovery_of_canon (L := Gen.csharp) (by simp [cFamily])
    (by rw [canon_of_rendered]; exact full_canon.1) hw' ha'

end Ex

/-! ## the clauses of `Canon` are needed -/

open CL.Ex

/-- the tree of `f ( g ( x ) ) { }` (the tokens of `C01disc.kf1Toks`): one function node whose
header contains the call-shaped group `g ( x )` -/
def kf1Tree : Prog Tok :=
  .fn (.toks [nmT [102] 1 1, puT [40] 1 2, nmT [103] 1 3, puT [40] 1 4, nmT [120] 1 5,
              puT [41] 1 6, puT [41] 1 7] .nil) 0 [] (puT [123] 1 9) (puT [125] 1 10) .nil .nil

theorem kf1Tree_flat : kf1Tree.flat = C01disc.kf1Toks := by decide

/-- `kf1Tree` satisfies every clause of `Canon` except "no Name token after the first one is
directly followed by `(`": its header has the shape `name ( … )` (`canonWith` with `headerShape` as header test), but not
`headerOK` -/
theorem kf1Tree_clauses : kf1Tree.wfCore = true ∧ kf1Tree.noAdj = true ∧ kf1Tree.allCode = true ∧
    parenBal kf1Tree.flat 0 = true ∧ kf1Tree.canonWith { cfgC with hdrOK := fun h k => headerShape h && k == 0 } false = true ∧
    kf1Tree.Canon = false ∧ PosSorted kf1Tree.flat := by
  refine ⟨by decide, by decide, by decide, by decide, by decide, by decide, ?_⟩
  unfold PosSorted; decide

/-- KF1 on the tree, through `C01syn.kf1_syntactic`: the header of the function node is a syntactic
header followed by `{`, and `extract_headers` returns nothing -/
theorem kf1Tree_header_lost :
    Syn.SynHeader kf1Tree.flat 0 7 ∧ Syn.SymbolAt kf1Tree.flat 7 [123] ∧
    kf1Tree.fns.map (·.hdr) = [⟨nmT [102] 1 1, ⟨0, 7⟩⟩] ∧
    extractHeaders Gen.c kf1Tree.flat = .ok [] := by
  rw [kf1Tree_flat]
  exact ⟨kf1_syntactic.1, kf1_syntactic.2.1, by decide, kf1_syntactic.2.2.2.2.2.2⟩

/-- **The clause "no call-shaped group in a header" is needed (KF1).**  F2 with `headerOK` weakened
to `headerShape` (i.e. `Canon` without that clause) is FALSE: for `f ( g ( x ) ) { }` the tree
report lists the function `f`, but `scan_file` reports nothing. -/
theorem nocall_clause_needed :
    ¬ ∀ (p : Prog Tok), parenBal p.flat 0 = true → p.canonWith { cfgC with hdrOK := fun h k => headerShape h && k == 0 } false = true →
      p.wfCore = true → p.noAdj = true → PosSorted p.flat → p.allCode = true →
      scanFile Gen.c p.flat = .ok (treeReportFlat p) := by
  intro h
  obtain ⟨h1, h2, h3, h4, h5, _, h7⟩ := kf1Tree_clauses
  have := h kf1Tree h4 h5 h1 h2 h7 h3
  have he : scanFile Gen.c kf1Tree.flat = .ok [] := scanFile_eval (by decide +kernel)
  rw [he] at this
  revert this
  decide +kernel

/-- the tree of `g ( x ) { y ; }` with NO function node: four tokens followed by a brace group -/
def falseHdrTree : Prog Tok :=
  .toks [nmT [103] 1 1, puT [40] 1 3, nmT [120] 1 5, puT [41] 1 7] <|
  .group (puT [123] 1 9) (puT [125] 1 17) (.toks [nmT [121] 1 11, puT [59] 1 13] .nil) .nil

/-- **The clause "no false header" is needed.**  Without `Canon`, F2 is false: `falseHdrTree` is
well-formed, has balanced parentheses and no function node, so its tree report is empty; but
`scan_file` reports a function `g`.  The only clause of `Canon` it violates is the one at the Name
token `g`: `g ( x )` stands directly in front of a brace group. -/
theorem scan_without_canon_false :
    ¬ ∀ (p : Prog Tok), parenBal p.flat 0 = true → p.wfCore = true → p.noAdj = true →
      PosSorted p.flat → p.allCode = true → scanFile Gen.c p.flat = .ok (treeReportFlat p) := by
  intro h
  have := h falseHdrTree (by decide) (by decide) (by decide) (by unfold PosSorted; decide)
    (by decide)
  have he : scanFile Gen.c falseHdrTree.flat = .ok [⟨[103], 1, 1, 1, 18, 1⟩] :=
    scanFile_eval (by decide +kernel)
  rw [he] at this
  revert this
  decide +kernel

example : falseHdrTree.Canon = false ∧
    (Prog.toks [puT [40] 1 3, nmT [120] 1 5, puT [41] 1 7]
      (.group (puT [123] 1 9) (puT [125] 1 17) .nil .nil)).falseHeaderAfter cfgC = true := by decide

/-- the tree of `{ g ( } ) { }`: the parenthesis opened inside the first brace group is closed
after it -/
def unbalTree : Prog Tok :=
  .group (puT [123] 1 1) (puT [125] 1 7) (.toks [nmT [103] 1 3, puT [40] 1 5] .nil) <|
  .toks [puT [41] 1 9] <|
  .group (puT [123] 1 11) (puT [125] 1 13) .nil .nil

/-- **Why balanced parentheses are required inside every brace group.**  In `{ g ( } ) { }` the
tree-level test finds no false header at `g` (inside its sibling list the run never ends), the
whole file is balanced, and there is no function node; but on the token sequence the group
`( } )` closes after the first brace group and `scan_file` reports a function `g`.  `Canon` rejects
the tree because the token sequence of the first brace group is not balanced. -/
theorem unbalanced_example :
    unbalTree.wfCore = true ∧ unbalTree.noAdj = true ∧ parenBal unbalTree.flat 0 = true ∧
    (Prog.toks [puT [40] 1 5] .nil).falseHeaderAfter cfgC = false ∧
    parenBal [nmT [103] 1 3, puT [40] 1 5] 0 = false ∧ unbalTree.Canon = false ∧
    treeReportFlat unbalTree = [] ∧
    scanFile Gen.c unbalTree.flat = .ok [⟨[103], 1, 3, 1, 14, 1⟩] := by
  refine ⟨by decide, by decide, by decide, by decide, by decide, by decide, by decide,
    scanFile_eval (by decide +kernel)⟩

/-- the hypothesis on the language is inhabited -/
example : Gen.c ∈ cFamily ∧ Gen.cpp ∈ cFamily ∧ Gen.csharp ∈ cFamily := by simp [cFamily]

/-! ## Java -/

/-- **F1 for Java.**  Let `p` be a forest of located tokens that is structurally well-formed, has no
function directly followed by a brace group and lies in the canonical fragment of Java
(`CanonJava`: headers `name ( … )+` without call-shaped groups, not behind `new` / `record`; between
header and body nothing or `throws …`; no false header, where `Name ( … )+` behind `new` /
`record` - an anonymous class `new T ( ) { … }` - does not count; balanced parentheses).  Then
`extract_headers` of Java on the token sequence of `p` returns exactly the headers of the function
nodes of `p`, in source order. -/
theorem discovery_of_canon_java {p : Prog Tok}
    (hc : p.CanonJava = true) (hw : p.wfCore = true) (ha : p.noAdj = true) :
    extractHeaders Gen.java p.flat = .ok (p.fns.map (·.hdr)) := by
  obtain ⟨hs, h⟩ := C15.extractHeaders_total Gen.java java_shipped p.flat
  rw [h, java_headers_eq hw ha hc h]

/-- **F2 for Java.**  Under the hypotheses of F2 with `CanonJava` in place of `Canon`, `scan_file`
of Java returns exactly `treeReport p`: every function node (methods of anonymous classes and
local classes included), each with its own lines. -/
theorem scan_java_of_canon_tree {all : List Tok} {p : Prog Tok}
    (hc : p.CanonJava = true) (hw : p.wfCore = true) (ha : p.noAdj = true)
    (hpos : PosSorted p.flat) (hcode : filterTokens false all = p.flat)
    (hm : ∀ f ∈ p.fns, ¬ Marked all f.hdr.name.line) :
    scanFile Gen.java all = .ok (treeReport p) := by
  have hh := discovery_of_canon_java hc hw ha
  exact scan_of_tree_partial (L := Gen.java) rfl hw ha hpos hcode hh (List.Perm.refl _) hm

/-- the canonical fragment of Java does not depend on the locations -/
theorem canonJava_of_rendered (p : Prog PTok) : p.located.CanonJava = p.bare.CanonJava :=
  canonJava_locate p (1, 0)

/-- **F3 for Java**: rendered forests of tokens without locations -/
theorem scan_java_of_rendered_canon_tree {p : Prog PTok}
    (hc : p.bare.CanonJava = true) (hw : p.bare.wfCore = true) (ha : p.noAdj = true)
    (hcode : p.bare.allCode = true) :
    scanFile Gen.java (render p) = .ok (treeReport p.located) := by
  have hw' : p.located.wfCore = true := by rw [Prog.located, wfCore_locate]; exact hw
  have ha' : p.located.noAdj = true := by rw [Prog.located, noAdj_locate]; exact ha
  have hc' : p.located.CanonJava = true := by rw [canonJava_of_rendered]; exact hc
  have hh : extractHeaders Gen.java (render p) = .ok (p.located.fns.map (·.hdr)) :=
    discovery_of_canon_java hc' hw' ha'
  exact scan_of_rendered_tree_partial (L := Gen.java) rfl hw ha hcode hh (List.Perm.refl _)

namespace Ex
open CL.C01tree.Ex

/-- the Java file

```
 1  class A {
 2    m ( int v ) throws E , F {            gap `throws E , F`
 3      if ( v ) { w ; }                    control block
 4      x = new T ( ) {                     anonymous class: a brace group, `T ( )` follows `new`
 5        r ( ) { y ; }                     a method of the anonymous class (nested in `m`)
 6      } ;
 7      g ( x ) ;                           call statement
 8    }
 9    n ( ) throws E ;                      abstract method: the `;` comes before any `{`
10    k ( ) { u ; }
11  }
```

as a forest of tokens without locations -/
def javaFull : Prog PTok :=
  .toks [pt 1 [99, 108, 97, 115, 115] 0 0, pt 2 [65] 0 5] <|
  .group (pt 3 [123] 0 1) (pt 3 [125] 1 0)
      (.fn (.toks [pt 2 [109] 1 2, pt 3 [40] 0 1, pt 1 [105, 110, 116] 0 1, pt 2 [118] 0 3,
                   pt 3 [41] 0 1] <|
          .nil) 0 [pt 1 [116, 104, 114, 111, 119, 115] 0 1, pt 2 [69] 0 6, pt 3 [44] 0 1,
                   pt 2 [70] 0 1] (pt 3 [123] 0 1) (pt 3 [125] 1 2)
          (.toks [pt 1 [105, 102] 1 4, pt 3 [40] 0 2, pt 2 [118] 0 1, pt 3 [41] 0 1] <|
          .group (pt 3 [123] 0 1) (pt 3 [125] 0 1)
              (.toks [pt 2 [119] 0 1, pt 3 [59] 0 1] <|
              .nil) <|
          .toks [pt 2 [120] 1 4, pt 4 [61] 0 1, pt 1 [110, 101, 119] 0 1, pt 2 [84] 0 3,
                 pt 3 [40] 0 1, pt 3 [41] 0 1] <|
          .group (pt 3 [123] 0 1) (pt 3 [125] 1 4)
              (.fn (.toks [pt 2 [114] 1 6, pt 3 [40] 0 1, pt 3 [41] 0 1] <|
                  .nil) 0 [] (pt 3 [123] 0 1) (pt 3 [125] 0 1)
                  (.toks [pt 2 [121] 0 1, pt 3 [59] 0 1] <|
                  .nil) <|
              .nil) <|
          .toks [pt 3 [59] 0 1, pt 2 [103] 1 4, pt 3 [40] 0 1, pt 2 [120] 0 1, pt 3 [41] 0 1,
                 pt 3 [59] 0 1] <|
          .nil) <|
      .toks [pt 2 [110] 1 2, pt 3 [40] 0 1, pt 3 [41] 0 1, pt 1 [116, 104, 114, 111, 119, 115] 0 1,
             pt 2 [69] 0 6, pt 3 [59] 0 1] <|
      .fn (.toks [pt 2 [107] 1 2, pt 3 [40] 0 1, pt 3 [41] 0 1] <|
          .nil) 0 [] (pt 3 [123] 0 1) (pt 3 [125] 0 1)
          (.toks [pt 2 [117] 0 1, pt 3 [59] 0 1] <|
          .nil) <|
      .nil) <|
  .nil

/-- the example lies in the canonical fragment of Java (not in that of the C family: the gap of
`m` is not empty, and `T ( ) {` would be a false header) -/
theorem javaFull_canon : javaFull.bare.CanonJava = true ∧ javaFull.bare.wfCore = true ∧
    javaFull.noAdj = true ∧ javaFull.bare.allCode = true ∧ javaFull.bare.Canon = false := by
  decide +kernel

/-- the Java tree of `Props/C01tree.lean` lies in the canonical fragment of Java, too -/
theorem javaTree_canon : javaTree.bare.CanonJava = true := by decide +kernel

/-- F3 for Java applies ... -/
theorem javaFull_scan : scanFile Gen.java (render javaFull) = .ok (treeReport javaFull.located) :=
  scan_java_of_rendered_canon_tree javaFull_canon.1 javaFull_canon.2.1 javaFull_canon.2.2.1
    javaFull_canon.2.2.2.1

/-- the tree report: `m` has 6 own lines (2, 3, 4, 6, 7, 8; line 5 belongs to `r`) -/
theorem javaFull_treeReport : treeReport javaFull.located
    = [⟨[109], 2, 3, 8, 4, 6⟩, ⟨[114], 5, 7, 5, 20, 1⟩, ⟨[107], 10, 3, 10, 16, 1⟩] := by
  decide +kernel

/-- ... and its conclusion agrees with the independent kernel evaluation of the model of
`scan_file` on the 57 tokens of the rendering: `m`, `r` and `k` are reported; the anonymous class
`T ( ) { … }`, the abstract method `n` and the call `g ( x )` are not -/
theorem javaFull_scan_eval : scanFile Gen.java (render javaFull)
    = .ok [⟨[109], 2, 3, 8, 4, 6⟩, ⟨[114], 5, 7, 5, 20, 1⟩, ⟨[107], 10, 3, 10, 16, 1⟩] :=
  scanFile_eval (by decide +kernel)

example : (Except.ok (treeReport javaFull.located) : Except Err _)
    = .ok [⟨[109], 2, 3, 8, 4, 6⟩, ⟨[114], 5, 7, 5, 20, 1⟩, ⟨[107], 10, 3, 10, 16, 1⟩] := by
  rw [← javaFull_scan, javaFull_scan_eval]

end Ex

/-- the tree of `new T ( ) { }` with `T ( )` as the header of a FUNCTION node -/
def javaNewTree : Prog Tok :=
  .toks [kwT [110, 101, 119] 1 1] <|
  .fn (.toks [nmT [84] 1 5, puT [40] 1 6, puT [41] 1 7] .nil) 0 [] (puT [123] 1 9) (puT [125] 1 10)
    .nil .nil

/-- the witness for `java_new_clause_needed`, clause by clause: `javaNewTree` is structurally
well-formed, has no function directly followed by a brace group, consists of code tokens at
increasing locations, has balanced parentheses, and satisfies every clause of `CanonJava` EXCEPT
"a function node does not follow `new` / `record`" (`canonWith` with the exemption switched off
holds, `CanonJava` does not); its tree report lists `T`; Java's `filter_headers` drops the header
and `scan_file` reports nothing.  (The same tokens with a brace `group` instead of the function
node are accepted: an anonymous class.) -/
theorem java_new_clause_witness :
    javaNewTree.wfCore = true ∧ javaNewTree.noAdj = true ∧ javaNewTree.allCode = true ∧
    PosSorted javaNewTree.flat ∧ parenBal javaNewTree.flat 0 = true ∧
    javaNewTree.canonWith { cfgJava with exempt := fun _ => false } false = true ∧
    javaNewTree.CanonJava = false ∧
    (Prog.toks [kwT [110, 101, 119] 1 1, nmT [84] 1 5, puT [40] 1 6, puT [41] 1 7]
      (.group (puT [123] 1 9) (puT [125] 1 10) .nil .nil)).CanonJava = true ∧
    scanFile Gen.java javaNewTree.flat = .ok [] ∧
    treeReport javaNewTree = [⟨[84], 1, 5, 1, 11, 1⟩] := by
  refine ⟨by decide, by decide, by decide, by unfold PosSorted; decide, by decide, by decide,
    by decide, by decide, scanFile_eval (by decide +kernel), by decide +kernel⟩

/-- **The clause "a function node does not follow `new` / `record`" is needed.**  F2 for Java with
that clause dropped from `CanonJava` (the exemption switched off: `exempt := fun _ => false`) is
FALSE: for `new T ( ) { }` with `T ( )` as the header of a function node the tree report lists `T`,
but `scan_file` reports nothing. -/
theorem java_new_clause_needed :
    ¬ ∀ (p : Prog Tok), parenBal p.flat 0 = true →
      p.canonWith { cfgJava with exempt := fun _ => false } false = true →
      p.wfCore = true → p.noAdj = true → PosSorted p.flat → p.allCode = true →
      scanFile Gen.java p.flat = .ok (treeReport p) := by
  intro h
  obtain ⟨h1, h2, h3, h4, h5, h6, _, _, h9, h10⟩ := java_new_clause_witness
  have := h javaNewTree h5 h6 h1 h2 h4 h3
  rw [h9, h10] at this
  cases this

/-- the tree of `n ( ) throws E { y ; }` with NO function node: tokens followed by a brace group -/
def javaThrowsTree : Prog Tok :=
  .toks [nmT [110] 1 1, puT [40] 1 3, puT [41] 1 5, kwT [116, 104, 114, 111, 119, 115] 1 7,
         nmT [69] 1 14] <|
  .group (puT [123] 1 16) (puT [125] 1 24) (.toks [nmT [121] 1 18, puT [59] 1 20] .nil) .nil

/-- **Java's false-header clause covers `throws`.**  In `javaThrowsTree` the run `n ( )` does not
end in front of a brace group but in front of `throws E {`; the tree has no function node, yet
`scan_file` reports `n`.  `CanonJava` rejects the tree; with a `;` after `E` (an abstract method
followed by an initialiser block) it is accepted. -/
theorem java_throws_false_header :
    javaThrowsTree.wfCore = true ∧ javaThrowsTree.noAdj = true ∧
    parenBal javaThrowsTree.flat 0 = true ∧ javaThrowsTree.CanonJava = false ∧
    treeReport javaThrowsTree = [] ∧
    scanFile Gen.java javaThrowsTree.flat = .ok [⟨[110], 1, 1, 1, 25, 1⟩] ∧
    (Prog.toks [nmT [110] 1 1, puT [40] 1 3, puT [41] 1 5,
        kwT [116, 104, 114, 111, 119, 115] 1 7, nmT [69] 1 14, puT [59] 1 15]
      (.group (puT [123] 1 16) (puT [125] 1 24) (.toks [nmT [121] 1 18, puT [59] 1 20] .nil)
        .nil)).CanonJava = true := by
  refine ⟨by decide, by decide, by decide, by decide, by decide,
    scanFile_eval (by decide +kernel), by decide⟩

/-- **Java's false-header clause must cover `throws`.**  F2 for Java with the false-header test of
the C family (`follows := startsWithGroup`: only `Name ( … )+` directly in front of a brace group)
is FALSE: `javaThrowsTree` (`n ( ) throws E { y ; }`, no function node) passes that weaker test,
its tree report is empty, and `scan_file` reports `n`. -/
theorem java_throws_clause_needed :
    ¬ ∀ (p : Prog Tok), parenBal p.flat 0 = true →
      p.canonWith { cfgJava with follows := Prog.startsWithGroup } false = true →
      p.wfCore = true → p.noAdj = true → PosSorted p.flat → p.allCode = true →
      scanFile Gen.java p.flat = .ok (treeReport p) := by
  intro h
  have := h javaThrowsTree (by decide) (by decide) (by decide) (by decide)
    (by unfold PosSorted; decide) (by decide)
  rw [java_throws_false_header.2.2.2.2.2.1, java_throws_false_header.2.2.2.2.1] at this
  cases this

/-- the tree of `m ( ) throws E ; { }` with `throws E ;` as the GAP of a function node -/
def javaGapTree : Prog Tok :=
  .fn (.toks [nmT [109] 1 1, puT [40] 1 3, puT [41] 1 5] .nil) 0
    [kwT [116, 104, 114, 111, 119, 115] 1 7, nmT [69] 1 14, puT [59] 1 16] (puT [123] 1 18)
    (puT [125] 1 20) .nil .nil

/-- **The clause on the gap (`gapOK`) is needed** (Java): with any gap allowed, F2 is false.  In
`javaGapTree` the gap `throws E ;` contains a `;`, so the follow-up `throws … {` of the shipped
pattern does not match: the tree report lists `m`, `scan_file` reports nothing.  Every other clause
of `CanonJava` holds. -/
theorem java_gap_clause_needed :
    ¬ ∀ (p : Prog Tok), parenBal p.flat 0 = true →
      p.canonWith { cfgJava with gapOK := fun _ => true } false = true →
      p.wfCore = true → p.noAdj = true → PosSorted p.flat → p.allCode = true →
      scanFile Gen.java p.flat = .ok (treeReport p) := by
  intro h
  have := h javaGapTree (by decide) (by decide) (by decide) (by decide)
    (by unfold PosSorted; decide) (by decide)
  have he : scanFile Gen.java javaGapTree.flat = .ok [] := scanFile_eval (by decide +kernel)
  rw [he] at this
  revert this
  decide +kernel

example : javaGapTree.CanonJava = false := by decide

/-- the tree of `f ( ) const { }` (a C++ const member function) with `const` as the GAP of a
function node -/
def cppConstTree : Prog Tok :=
  .fn (.toks [nmT [102] 1 1, puT [40] 1 3, puT [41] 1 5] .nil) 0
    [kwT [99, 111, 110, 115, 116] 1 7] (puT [123] 1 13) (puT [125] 1 15) .nil .nil

/-- **The clause "nothing between header and `{`" is needed** (C, C++, C#): with any gap allowed, F2
is false.  In `f ( ) const { }` the header `f ( )` is not directly followed by `{`, so the
follow-up test fails: the tree report lists `f`, `scan_file` reports NOTHING.  This is a limit of
the real code, too: a C++ member function `int f() const { … }` (or `noexcept`, `override`) is not
measured at all - such functions are outside the canonical fragment (`gapOK = isEmpty`). -/
theorem c_gap_clause_needed :
    ¬ ∀ (p : Prog Tok), parenBal p.flat 0 = true →
      p.canonWith { cfgC with gapOK := fun _ => true } false = true →
      p.wfCore = true → p.noAdj = true → PosSorted p.flat → p.allCode = true →
      scanFile Gen.cpp p.flat = .ok (treeReport p) := by
  intro h
  have := h cppConstTree (by decide) (by decide) (by decide) (by decide)
    (by unfold PosSorted; decide) (by decide)
  have he : scanFile Gen.cpp cppConstTree.flat = .ok [] := scanFile_eval (by decide +kernel)
  rw [he] at this
  revert this
  decide +kernel

/-- the tree of `A ( ) : b ( 1 ) { x ; }` (a C++ constructor with a member initialiser list) with
`: b ( 1 )` as the GAP of the function node `A` -/
def cppCtorTree : Prog Tok :=
  .fn (.toks [nmT [65] 1 1, puT [40] 1 3, puT [41] 1 5] .nil) 0
    [opT [58] 1 7, nmT [98] 1 9, puT [40] 1 11, ⟨0, 0, [49], 1, 13⟩, puT [41] 1 15]
    (puT [123] 1 17) (puT [125] 1 25) (.toks [nmT [120] 1 19, puT [59] 1 21] .nil) .nil

/-- **Outside the fragment: a C++ constructor with a member initialiser list is reported under
the name of the last initialised member.**  In `A ( ) : b ( 1 ) { x ; }` the header `A ( )` is not
followed by `{`, but `b ( 1 )` is: the tree report lists `A`, `scan_file` reports the unit `b` (so
does the real code).  The gap clause of `Canon` (`gapOK = isEmpty`) excludes the tree. -/
theorem cpp_ctor_initializer_reports_member :
    cppCtorTree.wfCore = true ∧ cppCtorTree.noAdj = true ∧ cppCtorTree.Canon = false ∧
    cppCtorTree.canonWith { cfgC with gapOK := fun _ => true } false = true ∧
    treeReport cppCtorTree = [⟨[65], 1, 1, 1, 26, 1⟩] ∧
    scanFile Gen.cpp cppCtorTree.flat = .ok [⟨[98], 1, 9, 1, 26, 1⟩] := by
  refine ⟨by decide, by decide, by decide, by decide, by decide +kernel,
    scanFile_eval (by decide +kernel)⟩

/-! ## JavaScript and TypeScript WITHOUT assigned arrow functions -/

/-- **F1 for JavaScript (no assigned arrow functions).**  Let `p` be a forest of located tokens that is
structurally well-formed, has no function directly followed by a brace group and lies in
`CanonJs`: every function node has the header `[function] name ( … )+` (named by the Name token, no
call-shaped group inside) directly followed by `{`; the keyword `function` does not stand in front
of a function node; no false header; balanced parentheses; and NO operator `=` is directly
followed by `[async] ( … ) => {` (`noAssignedArrow`; then the arrow-function pattern finds nothing:
`arrow_matches`, `arrow_follow`).  Arrow functions elsewhere (`arr.map ( ( y ) => { … } )`,
`y => { … }`, `x = ( a ) => a`) are ordinary tokens and brace groups of the forest.  Then
`extract_headers` of JavaScript returns exactly the headers of the function nodes, in source
order; a header with the keyword `function` is reported from that keyword on. -/
theorem discovery_of_canon_js {p : Prog Tok}
    (hc : p.CanonJs = true) (hw : p.wfCore = true) (ha : p.noAdj = true) :
    extractHeaders Gen.javascript p.flat = .ok (p.fns.map (·.hdr)) := by
  obtain ⟨hs, h⟩ := C15.extractHeaders_total Gen.javascript js_shipped p.flat
  rw [h, js_headers_eq hw ha hc h]

/-- **F1 for TypeScript (no assigned arrow functions)**: as for JavaScript, with an optional return type
annotation `: T …` between header and body (`CanonTs`). -/
theorem discovery_of_canon_ts {p : Prog Tok}
    (hc : p.CanonTs = true) (hw : p.wfCore = true) (ha : p.noAdj = true) :
    extractHeaders Gen.typescript p.flat = .ok (p.fns.map (·.hdr)) := by
  obtain ⟨hs, h⟩ := C15.extractHeaders_total Gen.typescript ts_shipped p.flat
  rw [h, ts_headers_eq hw ha hc h]

/-- **F2 for JavaScript (no assigned arrow functions)**: `scan_file` returns exactly `treeReport p`. -/
theorem scan_js_of_canon_tree {all : List Tok} {p : Prog Tok}
    (hc : p.CanonJs = true) (hw : p.wfCore = true) (ha : p.noAdj = true)
    (hpos : PosSorted p.flat) (hcode : filterTokens false all = p.flat)
    (hm : ∀ f ∈ p.fns, ¬ Marked all f.hdr.name.line) :
    scanFile Gen.javascript all = .ok (treeReport p) :=
  scan_of_tree_partial (L := Gen.javascript) rfl hw ha hpos hcode (discovery_of_canon_js hc hw ha)
    (List.Perm.refl _) hm

/-- **F2 for TypeScript (no assigned arrow functions)**: `scan_file` returns exactly `treeReport p`. -/
theorem scan_ts_of_canon_tree {all : List Tok} {p : Prog Tok}
    (hc : p.CanonTs = true) (hw : p.wfCore = true) (ha : p.noAdj = true)
    (hpos : PosSorted p.flat) (hcode : filterTokens false all = p.flat)
    (hm : ∀ f ∈ p.fns, ¬ Marked all f.hdr.name.line) :
    scanFile Gen.typescript all = .ok (treeReport p) :=
  scan_of_tree_partial (L := Gen.typescript) rfl hw ha hpos hcode (discovery_of_canon_ts hc hw ha)
    (List.Perm.refl _) hm

/-- **F3 for JavaScript (no assigned arrow functions)**: rendered forests of tokens without locations -/
theorem scan_js_of_rendered_canon_tree {p : Prog PTok}
    (hc : p.bare.CanonJs = true) (hw : p.bare.wfCore = true) (ha : p.noAdj = true)
    (hcode : p.bare.allCode = true) :
    scanFile Gen.javascript (render p) = .ok (treeReport p.located) := by
  have hw' : p.located.wfCore = true := by rw [Prog.located, wfCore_locate]; exact hw
  have ha' : p.located.noAdj = true := by rw [Prog.located, noAdj_locate]; exact ha
  have hc' : p.located.CanonJs = true := by rw [Prog.located, canonJs_locate]; exact hc
  exact scan_of_rendered_tree_partial (L := Gen.javascript) rfl hw ha hcode
    (discovery_of_canon_js hc' hw' ha') (List.Perm.refl _)

/-- **F3 for TypeScript (no assigned arrow functions)**: rendered forests of tokens without locations -/
theorem scan_ts_of_rendered_canon_tree {p : Prog PTok}
    (hc : p.bare.CanonTs = true) (hw : p.bare.wfCore = true) (ha : p.noAdj = true)
    (hcode : p.bare.allCode = true) :
    scanFile Gen.typescript (render p) = .ok (treeReport p.located) := by
  have hw' : p.located.wfCore = true := by rw [Prog.located, wfCore_locate]; exact hw
  have ha' : p.located.noAdj = true := by rw [Prog.located, noAdj_locate]; exact ha
  have hc' : p.located.CanonTs = true := by rw [Prog.located, canonTs_locate]; exact hc
  exact scan_of_rendered_tree_partial (L := Gen.typescript) rfl hw ha hcode
    (discovery_of_canon_ts hc' hw' ha') (List.Perm.refl _)

/-- the greedy matches of the arrow-function pattern of JavaScript / TypeScript are exactly the
token ranges `[const] Name = [async] ( … )+` (`Syn.ArrowHeader`), on every token list -/
theorem arrow_matches (toks : List Tok) (p f : Nat) :
    GreedyAt (dfaMachine Syn.aDfa tokAcceptor) toks p f ↔ Syn.ArrowHeader toks p f :=
  Syn.greedyAt_iff_arrowHeader Syn.compile_aExpr toks p f

/-- the follow-up test of the arrow-function pattern needs the symbol `=>` directly followed by the
symbol `{` (this and `arrow_matches` make the restriction `noAssignedArrow` of `CanonJs` /
`CanonTs` sufficient for the pattern to report nothing) -/
theorem arrow_follow (toks : List Tok) (f : Nat)
    (h : Compose.FollowsAt (some Syn.aFollow) toks f) :
    ∃ a b r, toks.drop f = a :: b :: r ∧ a.isSymbol [61, 62] = true ∧ b.isSymbol [123] = true :=
  Syn.followsAt_arrow h

namespace Ex
open CL.C01tree.Ex

/-- the JavaScript file

```
1  class A {
2    m1 ( ) { x ; }                        methods: named by their first token
3    m2 ( v = { 1 } ) { g ( v ) ; }        brace group in a header (`= {`), call statement
4  }
5  function f ( a ) {                      header `function f ( a )`, name index 1
6    function g ( ) { z ; }                nested
7    if ( a ) { w ; }                      control block
8    y = ( a ) ;                           `= (`, but no `=> {` after the group
9    h ( ( q ) => { w ; } ) ;              an arrow function as an argument: tokens and a brace group
10 }
```
-/
def jsFull : Prog PTok :=
  .toks [pt 1 [99, 108, 97, 115, 115] 0 0, pt 2 [65] 0 5] <|
  .group (pt 3 [123] 0 1) (pt 3 [125] 1 0)
      (.fn (.toks [pt 2 [109, 49] 1 2, pt 3 [40] 0 1, pt 3 [41] 0 1] <|
          .nil) 0 [] (pt 3 [123] 0 1) (pt 3 [125] 0 1)
          (.toks [pt 2 [120] 0 1, pt 3 [59] 0 1] <|
          .nil) <|
      .fn (.toks [pt 2 [109, 50] 1 2, pt 3 [40] 0 1, pt 2 [118] 0 1, pt 4 [61] 0 1] <|
          .group (pt 3 [123] 0 1) (pt 3 [125] 0 1)
              (.toks [pt 0 [49] 0 1] <|
              .nil) <|
          .toks [pt 3 [41] 0 1] <|
          .nil) 0 [] (pt 3 [123] 0 1) (pt 3 [125] 0 1)
          (.toks [pt 2 [103] 0 1, pt 3 [40] 0 1, pt 2 [118] 0 1, pt 3 [41] 0 1, pt 3 [59] 0 1] <|
          .nil) <|
      .nil) <|
  .fn (.toks [pt 1 [102, 117, 110, 99, 116, 105, 111, 110] 1 0, pt 2 [102] 0 8, pt 3 [40] 0 1,
              pt 2 [97] 0 1, pt 3 [41] 0 1] <|
      .nil) 1 [] (pt 3 [123] 0 1) (pt 3 [125] 1 0)
      (.fn (.toks [pt 1 [102, 117, 110, 99, 116, 105, 111, 110] 1 2, pt 2 [103] 0 8, pt 3 [40] 0 1,
                   pt 3 [41] 0 1] <|
          .nil) 1 [] (pt 3 [123] 0 1) (pt 3 [125] 0 1)
          (.toks [pt 2 [122] 0 1, pt 3 [59] 0 1] <|
          .nil) <|
      .toks [pt 1 [105, 102] 1 2, pt 3 [40] 0 1, pt 2 [97] 0 1, pt 3 [41] 0 1] <|
      .group (pt 3 [123] 0 1) (pt 3 [125] 0 1)
          (.toks [pt 2 [119] 0 1, pt 3 [59] 0 1] <|
          .nil) <|
      .toks [pt 2 [121] 1 2, pt 4 [61] 0 1, pt 3 [40] 0 1, pt 2 [97] 0 1, pt 3 [41] 0 1,
             pt 3 [59] 0 1,
             pt 2 [104] 1 2, pt 3 [40] 0 1, pt 3 [40] 0 1, pt 2 [113] 0 1, pt 3 [41] 0 1,
             pt 3 [61, 62] 0 1] <|
      .group (pt 3 [123] 0 1) (pt 3 [125] 0 1)
          (.toks [pt 2 [119] 0 1, pt 3 [59] 0 1] <|
          .nil) <|
      .toks [pt 3 [41] 0 1, pt 3 [59] 0 1] <|
      .nil) <|
  .nil

theorem jsFull_canon : jsFull.bare.CanonJs = true ∧ jsFull.bare.wfCore = true ∧
    jsFull.noAdj = true ∧ jsFull.bare.allCode = true := by decide +kernel

/-- F3 for JavaScript applies, and agrees with the kernel evaluation of the model of `scan_file` on
the 67 tokens of the rendering -/
theorem jsFull_scan :
    scanFile Gen.javascript (render jsFull) = .ok (treeReport jsFull.located) :=
  scan_js_of_rendered_canon_tree jsFull_canon.1 jsFull_canon.2.1 jsFull_canon.2.2.1
    jsFull_canon.2.2.2

theorem jsFull_scan_eval : scanFile Gen.javascript (render jsFull)
    = .ok [⟨[109, 49], 2, 3, 2, 16, 1⟩, ⟨[109, 50], 3, 3, 3, 32, 1⟩, ⟨[102], 5, 1, 10, 2, 5⟩,
           ⟨[103], 6, 3, 6, 25, 1⟩] :=
  scanFile_eval (by decide +kernel)

example : (Except.ok (treeReport jsFull.located) : Except Err _)
    = .ok [⟨[109, 49], 2, 3, 2, 16, 1⟩, ⟨[109, 50], 3, 3, 3, 32, 1⟩, ⟨[102], 5, 1, 10, 2, 5⟩,
           ⟨[103], 6, 3, 6, 25, 1⟩] := by
  rw [← jsFull_scan, jsFull_scan_eval]

/-- the header of `f` is reported from the keyword `function` (token 26), named by token 27 -/
example : (jsFull.located.fns.map (fun f => (f.hdr.name.val, f.hdr.rng.s, f.hdr.rng.e)))
    = [([109, 49], 3, 6), ([109, 50], 10, 18), ([102], 26, 31), ([103], 32, 36)] := by
  decide +kernel

/-- the TypeScript file

```
1  function f ( a : T ) : R {             return type annotation `: R` between header and body
2    g ( a ) ;
3    c = a ? h ( a ) : 0 ;                ternary: after `:` the `;` comes before any `{`
4  }
5  class A {
6    m ( ) : void { x ; }
7  }
```
-/
def tsFull : Prog PTok :=
  .fn (.toks [pt 1 [102, 117, 110, 99, 116, 105, 111, 110] 0 0, pt 2 [102] 0 8, pt 3 [40] 0 1,
              pt 2 [97] 0 1, pt 4 [58] 0 1, pt 2 [84] 0 1, pt 3 [41] 0 1] <|
      .nil) 1 [pt 4 [58] 0 1, pt 2 [82] 0 1] (pt 3 [123] 0 1) (pt 3 [125] 1 0)
      (.toks [pt 2 [103] 1 2, pt 3 [40] 0 1, pt 2 [97] 0 1, pt 3 [41] 0 1, pt 3 [59] 0 1,
              pt 2 [99] 1 2, pt 4 [61] 0 1, pt 2 [97] 0 1, pt 4 [63] 0 1, pt 2 [104] 0 1,
              pt 3 [40] 0 1, pt 2 [97] 0 1, pt 3 [41] 0 1, pt 4 [58] 0 1, pt 0 [48] 0 1,
              pt 3 [59] 0 1] <|
      .nil) <|
  .toks [pt 1 [99, 108, 97, 115, 115] 1 0, pt 2 [65] 0 5] <|
  .group (pt 3 [123] 0 1) (pt 3 [125] 1 0)
      (.fn (.toks [pt 2 [109] 1 2, pt 3 [40] 0 1, pt 3 [41] 0 1] <|
          .nil) 0 [pt 4 [58] 0 1, pt 1 [118, 111, 105, 100] 0 1] (pt 3 [123] 0 1) (pt 3 [125] 0 1)
          (.toks [pt 2 [120] 0 1, pt 3 [59] 0 1] <|
          .nil) <|
      .nil) <|
  .nil

theorem tsFull_canon : tsFull.bare.CanonTs = true ∧ tsFull.bare.wfCore = true ∧
    tsFull.noAdj = true ∧ tsFull.bare.allCode = true ∧ tsFull.bare.CanonJs = false := by
  decide +kernel

/-- F3 for TypeScript applies, and agrees with the kernel evaluation of the model of `scan_file` on
the 40 tokens of the rendering -/
theorem tsFull_scan :
    scanFile Gen.typescript (render tsFull) = .ok (treeReport tsFull.located) :=
  scan_ts_of_rendered_canon_tree tsFull_canon.1 tsFull_canon.2.1 tsFull_canon.2.2.1
    tsFull_canon.2.2.2.1

theorem tsFull_scan_eval : scanFile Gen.typescript (render tsFull)
    = .ok [⟨[102], 1, 1, 4, 2, 4⟩, ⟨[109], 6, 3, 6, 20, 1⟩] :=
  scanFile_eval (by decide +kernel)

example : (Except.ok (treeReport tsFull.located) : Except Err _)
    = .ok [⟨[102], 1, 1, 4, 2, 4⟩, ⟨[109], 6, 3, 6, 20, 1⟩] := by
  rw [← tsFull_scan, tsFull_scan_eval]

end Ex

/-- the tree of `c ? f ( x ) : { a : 1 } ;` (a conditional expression whose second branch is an
object literal) - no function node -/
def tsTernaryTree : Prog Tok :=
  .toks [nmT [99] 1 1, opT [63] 1 3, nmT [102] 1 5, puT [40] 1 7, nmT [120] 1 9, puT [41] 1 11,
         opT [58] 1 13] <|
  .group (puT [123] 1 15) (puT [125] 1 23)
    (.toks [nmT [97] 1 17, opT [58] 1 19, ⟨0, 0, [49], 1, 21⟩] .nil) <|
  .toks [puT [59] 1 25] .nil

/-- **TypeScript's follow-up `: … {` also matches conditional expressions (and `case f ( x ) : {`).**
`tsTernaryTree` is well-formed and has no function node, so its tree report is empty; TypeScript's
`scan_file` reports a function `f` (the call `f ( x )` is followed by `:` and then `{`), JavaScript's
reports nothing.  `CanonTs` rejects the tree (false header at `f`), `CanonJs` accepts it.  The same
happens on /repo: `const v = c ? f(x) : { a: 1 };` yields a unit `f`. -/
theorem ts_ternary_false_header :
    tsTernaryTree.wfCore = true ∧ tsTernaryTree.noAdj = true ∧ tsTernaryTree.allCode = true ∧
    tsTernaryTree.CanonTs = false ∧ tsTernaryTree.CanonJs = true ∧
    treeReport tsTernaryTree = [] ∧
    scanFile Gen.typescript tsTernaryTree.flat = .ok [⟨[102], 1, 5, 1, 24, 1⟩] ∧
    scanFile Gen.javascript tsTernaryTree.flat = .ok [] := by
  refine ⟨by decide, by decide, by decide, by decide, by decide, by decide,
    scanFile_eval (by decide +kernel), scanFile_eval (by decide +kernel)⟩

/-- the tree of `function f ( ) { }` with the keyword `function` as a token IN FRONT of a function
node whose header is `f ( )` -/
def jsJoinTree : Prog Tok :=
  .toks [kwT [102, 117, 110, 99, 116, 105, 111, 110] 1 1] <|
  .fn (.toks [nmT [102] 1 10, puT [40] 1 12, puT [41] 1 14] .nil) 0 [] (puT [123] 1 16)
    (puT [125] 1 18) .nil .nil

/-- **The clause "`function` does not stand in front of a function node" is needed.**  The matcher
reports the header from the keyword `function` on, so the reported unit starts at column 1, while
the tree report of `jsJoinTree` (header `f ( )` only) starts at column 10.  `CanonJs` rejects
`jsJoinTree`; with the keyword inside the header (name index 1) it is accepted. -/
theorem js_function_keyword_clause :
    jsJoinTree.wfCore = true ∧ jsJoinTree.noAdj = true ∧ jsJoinTree.CanonJs = false ∧
    treeReport jsJoinTree = [⟨[102], 1, 10, 1, 19, 1⟩] ∧
    scanFile Gen.javascript jsJoinTree.flat = .ok [⟨[102], 1, 1, 1, 19, 1⟩] ∧
    (Prog.fn (.toks [kwT [102, 117, 110, 99, 116, 105, 111, 110] 1 1, nmT [102] 1 10,
        puT [40] 1 12, puT [41] 1 14] .nil) 1 [] (puT [123] 1 16) (puT [125] 1 18) .nil
      .nil).CanonJs = true := by
  refine ⟨by decide, by decide, by decide, by decide +kernel, scanFile_eval (by decide +kernel),
    by decide⟩

/-- the tree of `a = ( x ) => { y ; }` with NO function node: tokens followed by a brace group -/
def jsArrowTree : Prog Tok :=
  .toks [nmT [97] 1 1, opT [61] 1 3, puT [40] 1 5, nmT [120] 1 7, puT [41] 1 9,
         puT [61, 62] 1 11] <|
  .group (puT [123] 1 14) (puT [125] 1 22) (.toks [nmT [121] 1 16, puT [59] 1 18] .nil) .nil

/-- **The restriction `noAssignedArrow` is needed** (for forests whose arrow functions are not
function nodes).  `jsArrowTree` satisfies every other clause of `CanonJs` and has no function node,
but the arrow-function pattern finds `a = ( x )` followed by `=> {`, and `scan_file` reports a
function `a`. -/
theorem js_assigned_arrow_clause :
    jsArrowTree.wfCore = true ∧ jsArrowTree.noAdj = true ∧ parenBal jsArrowTree.flat 0 = true ∧
    jsArrowTree.canonWith cfgJs false = true ∧ noAssignedArrow jsArrowTree.flat = false ∧
    treeReport jsArrowTree = [] ∧
    scanFile Gen.javascript jsArrowTree.flat = .ok [⟨[97], 1, 1, 1, 23, 1⟩] := by
  refine ⟨by decide, by decide, by decide, by decide, by decide, by decide,
    scanFile_eval (by decide +kernel)⟩

/-- **The clause "`function` does not stand in front of a function node" (`joins`) is needed.**
F2 for JavaScript with that clause dropped (`joins := fun _ => false`) is FALSE: `jsJoinTree`
satisfies every other clause, but the reported unit starts at the keyword `function` (column 1)
while the tree report (header `f ( )` only) starts at column 10. -/
theorem js_function_keyword_clause_needed :
    ¬ ∀ (p : Prog Tok), parenBal p.flat 0 = true →
      p.canonWith { cfgJs with joins := fun _ => false } false = true →
      noAssignedArrow p.flat = true →
      p.wfCore = true → p.noAdj = true → PosSorted p.flat → p.allCode = true →
      scanFile Gen.javascript p.flat = .ok (treeReport p) := by
  intro h
  have := h jsJoinTree (by decide) (by decide) (by decide) (by decide) (by decide)
    (by unfold PosSorted; decide) (by decide)
  rw [js_function_keyword_clause.2.2.2.2.1, js_function_keyword_clause.2.2.2.1] at this
  revert this
  decide

/-- the same for TypeScript (`cfgTs` has the same `joins`) -/
theorem ts_function_keyword_clause_needed :
    ¬ ∀ (p : Prog Tok), parenBal p.flat 0 = true →
      p.canonWith { cfgTs with joins := fun _ => false } false = true →
      noAssignedArrow p.flat = true →
      p.wfCore = true → p.noAdj = true → PosSorted p.flat → p.allCode = true →
      scanFile Gen.typescript p.flat = .ok (treeReport p) := by
  intro h
  have := h jsJoinTree (by decide) (by decide) (by decide) (by decide) (by decide)
    (by unfold PosSorted; decide) (by decide)
  have he : scanFile Gen.typescript jsJoinTree.flat = .ok [⟨[102], 1, 1, 1, 19, 1⟩] :=
    scanFile_eval (by decide +kernel)
  rw [he, js_function_keyword_clause.2.2.2.1] at this
  revert this
  decide

/-- **The restriction `noAssignedArrow` is needed** (negation form of `js_assigned_arrow_clause`):
F2 for JavaScript without it is FALSE. -/
theorem js_assigned_arrow_clause_needed :
    ¬ ∀ (p : Prog Tok), parenBal p.flat 0 = true → p.canonWith cfgJs false = true →
      p.wfCore = true → p.noAdj = true → PosSorted p.flat → p.allCode = true →
      scanFile Gen.javascript p.flat = .ok (treeReport p) := by
  intro h
  obtain ⟨h1, h2, h3, h4, _, h6, h7⟩ := js_assigned_arrow_clause
  have := h jsArrowTree h3 h4 h1 h2 (by unfold PosSorted; decide) (by decide)
  rw [h7, h6] at this
  cases this

/-- the tree of `f ( ) : T ; { }` with `: T ;` as the GAP of a function node (TypeScript) -/
def tsGapTree : Prog Tok :=
  .fn (.toks [nmT [102] 1 1, puT [40] 1 3, puT [41] 1 5] .nil) 0
    [opT [58] 1 7, nmT [84] 1 9, puT [59] 1 11] (puT [123] 1 13) (puT [125] 1 15) .nil .nil

/-- **The clause on the gap (`gapOK`) is needed** (TypeScript): with any gap allowed, F2 is false:
the gap `: T ;` of `tsGapTree` contains a `;`, the follow-up `: … {` does not match, the tree
report lists `f`, `scan_file` reports nothing. -/
theorem ts_gap_clause_needed :
    ¬ ∀ (p : Prog Tok), parenBal p.flat 0 = true →
      p.canonWith { cfgTs with gapOK := fun _ => true } false = true →
      noAssignedArrow p.flat = true →
      p.wfCore = true → p.noAdj = true → PosSorted p.flat → p.allCode = true →
      scanFile Gen.typescript p.flat = .ok (treeReport p) := by
  intro h
  have := h tsGapTree (by decide) (by decide) (by decide) (by decide) (by decide)
    (by unfold PosSorted; decide) (by decide)
  have he : scanFile Gen.typescript tsGapTree.flat = .ok [] := scanFile_eval (by decide +kernel)
  rw [he] at this
  revert this
  decide +kernel

end CL.C01full
