import CodeLimit.Lemmas.ReportParse
import CodeLimit.Lemmas.ReportRead
import CodeLimit.Lemmas.ReportStable
import CodeLimit.Lemmas.JsonPrefix
import CodeLimit.Lemmas.ExceptDec
/-!
# C08 - the report document is always valid JSON and round-trips losslessly

Models: `Model/Json.lean` (`json.dumps` of strings, `json.loads`), `Model/Report.lean`
(`ReportWriter.to_json`, `ReportReader.from_json`).  Vocabulary: `Spec/Json.lean`
(`GoodStr` = code points < 0x110000 and no high surrogate immediately followed by a low one),
`Spec/Report.lean` (`toJson`, `GoodReport`, `DistinctKeys`).

`build` (the codebase construction `add_file*; aggregate`, property C07) and `profileOf`
(`utils.make_profile`) are arbitrary functions: the reader re-runs them on the files it read.
All integers are arbitrary `Int`s; all strings are arbitrary `GoodStr`s (quotes, backslashes,
control characters, NUL, DEL, non-ASCII, astral code points, lone surrogates included).
-/
namespace CL.C08

open CL CL.Json

/-- a report as it exists in memory after `add_file*; aggregate`: file profiles are
`make_profile` of the measurements, totals and tree are `build` of the files -/
structure Reachable (build : List (Str × FileData) → List (Str × Totals) × List (Str × Folder))
    (profileOf : List Meas → List Int) (d : ReportData) : Prop where
  profiles : ∀ kv ∈ d.files, kv.2.profile = profileOf kv.2.measurements
  totals : d.totals = (build d.files).1
  tree : d.tree = (build d.files).2

/-- `d` with the reader's clock as timestamp and without the repository tag (which the writer
does not serialise) -/
def upToTimestamp (now : Str) (d : ReportData) : ReportData :=
  { d with timestamp := now, repository := d.repository.map rereadRepo }

/-! ## strings -/

/-- `json.loads(json.dumps(s)) == s` for every Python string without a high surrogate
immediately followed by a low surrogate. -/
theorem loads_dumps_string (s : Str) (hs : GoodStr s) : parseJson (dumpsStr s) = some (.str s) := by
  have := run_dumpsStr s hs false [] []
  simp only [List.append_nil] at this
  simp [parseJson, St.init, this, complete, finish]

/-- Without that hypothesis the round trip fails, already for one string: the escaped pair
`"𐀀"` is read back as the single code point U+10000 (this is CPython's behaviour:
`json.loads(json.dumps("𐀀")) == "\U00010000"`). -/
theorem surrogate_pair_not_preserved :
    PyStr [0xD800, 0xDC00] ∧ ¬ NoSurrogatePair [0xD800, 0xDC00] ∧
    parseJson (dumpsStr [0xD800, 0xDC00]) = some (.str [0x10000]) ∧
    parseJson (dumpsStr [0xD800, 0xDC00]) ≠ some (.str [0xD800, 0xDC00]) := by
  refine ⟨by decide, by decide, by rfl, ?_⟩
  have h : parseJson (dumpsStr [0xD800, 0xDC00]) = some (.str [0x10000]) := by rfl
  rw [h]
  intro e
  injection e with e
  injection e with e
  revert e
  decide

/-! ## 1. valid JSON, same value in both forms -/

/-- For arbitrary (possibly repeated) keys: both forms of the document are valid JSON and
`json.loads` returns the same value for both, namely the report's value with its three `dict`s
rebuilt by insertion (a repeated key keeps its first position and takes its last value). -/
theorem valid_json_dict (d : ReportData) (hd : GoodReport d) (p : Bool) :
    parseJson (write p d) = some (toJsonDict d) := by
  obtain ⟨a, hw, hrun, _⟩ := write_structure p d hd
  have h := run_ws (ws_done (toJsonDict d)) (nl p) (allWs_nl p) []
  simp only [List.append_nil, run_nil] at h
  rw [hw, parseJson, run_append, hrun, h]
  rfl

theorem toJsonDict_eq (d : ReportData) (hk : DistinctKeys d) : toJsonDict d = toJson d := by
  have h1 := dictOfPairs_nodup (d.totals.map fun kv => (kv.1, totalsJson kv.2))
    (by simpa [List.map_map, Function.comp_def] using hk.totals)
  have h2 := dictOfPairs_nodup (d.tree.map fun kv => (kv.1, folderJson kv.2))
    (by simpa [List.map_map, Function.comp_def] using hk.tree)
  have h3 := dictOfPairs_nodup (d.files.map fun kv => (kv.1, fileJson kv.2))
    (by simpa [List.map_map, Function.comp_def] using hk.files)
  simp [toJsonDict, toJson, toJsonWith, h1, h2, h3]

/-- **The written document is valid JSON in pretty and in compact form and both parse to the
same value**, the value `toJson d` of the report - for every report whose strings are Python
strings without an adjacent surrogate pair and whose `dict` keys are pairwise distinct. -/
theorem valid_json (d : ReportData) (hd : GoodReport d) (hk : DistinctKeys d) :
    parseJson (write true d) = some (toJson d) ∧ parseJson (write false d) = some (toJson d) := by
  rw [← toJsonDict_eq d hk]
  exact ⟨valid_json_dict d hd true, valid_json_dict d hd false⟩

/-! ## 2. reading back -/

/-- **Reading the document's value back** succeeds and yields: the same version (`None` is
written as `null` and read back as `None`), uuid and root; the reader's clock as timestamp; the
same repository owner, name and branch (the tag is not in the document); the same files in the
same order with the same checksum, language, line total and measurements, each file profile
recomputed from its measurements by `profileOf`; totals and folder tree = `build` of those
files.  (Only the file keys need to be distinct here.) -/
theorem read_back (build : List (Str × FileData) → List (Str × Totals) × List (Str × Folder))
    (profileOf : List Meas → List Int) (now : Str) (d : ReportData) (hk : (d.files.map (·.1)).Nodup) :
    fromJson build profileOf now (toJson d) = .ok
      { version := d.version, uuid := d.uuid, timestamp := now, root := d.root,
        repository := d.repository.map fun r => { r with tag := none },
        totals := (build (d.files.map fun kv => (kv.1, { kv.2 with profile := profileOf kv.2.measurements }))).1,
        tree := (build (d.files.map fun kv => (kv.1, { kv.2 with profile := profileOf kv.2.measurements }))).2,
        files := d.files.map fun kv => (kv.1, { kv.2 with profile := profileOf kv.2.measurements }) } :=
  fromJson_toJson build profileOf now d hk

theorem reread_reachable {build : List (Str × FileData) → List (Str × Totals) × List (Str × Folder)}
    {profileOf : List Meas → List Int} (now : Str) {d : ReportData} (hr : Reachable build profileOf d) :
    reread build profileOf now d = upToTimestamp now d := by
  have hf : rereadFiles profileOf d.files = d.files := by
    unfold rereadFiles
    conv => rhs; rw [← List.map_id d.files]
    apply List.map_congr_left
    intro kv hkv
    obtain ⟨k, f⟩ := kv
    have := hr.profiles (k, f) hkv
    simp only at this
    simp [rereadFile, ← this]
  simp only [reread, upToTimestamp, hf, ← hr.totals, ← hr.tree]

/-- **For a reachable report the round trip is lossless**: writing (pretty or compact), parsing
and reading gives the report back, up to the timestamp (and the unserialised repository tag). -/
theorem round_trip (build : List (Str × FileData) → List (Str × Totals) × List (Str × Folder))
    (profileOf : List Meas → List Int) (now : Str) (d : ReportData)
    (hd : GoodReport d) (hk : DistinctKeys d) (hr : Reachable build profileOf d) (p : Bool) :
    (parseJson (write p d)).map (fromJson build profileOf now) = some (.ok (upToTimestamp now d)) := by
  have hv : parseJson (write p d) = some (toJson d) := by
    cases p
    · exact (valid_json d hd hk).2
    · exact (valid_json d hd hk).1
  rw [hv, Option.map_some, fromJson_toJson build profileOf now d hk.files, reread_reachable now hr]

/-! ## 3. rewriting -/

/-- **Writing the re-read report reproduces the document up to its timestamp**: there are texts
`pre` and `post` such that the original document is `pre ++ dumps(timestamp) ++ post` and the
document written from the re-read report is `pre ++ dumps(now) ++ post`. -/
theorem rewrite_stable (build : List (Str × FileData) → List (Str × Totals) × List (Str × Folder))
    (profileOf : List Meas → List Int) (now : Str) (d : ReportData)
    (hd : GoodReport d) (hk : DistinctKeys d) (hr : Reachable build profileOf d) (p : Bool) :
    ∃ r, (parseJson (write p d)).map (fromJson build profileOf now) = some (.ok r) ∧
      ∃ pre post, write p d = pre ++ dumpsStr d.timestamp ++ post ∧
                  write p r = pre ++ dumpsStr now ++ post := by
  refine ⟨upToTimestamp now d, round_trip build profileOf now d hd hk hr p, ?_⟩
  obtain ⟨pre, post, h⟩ := write_split p d hd
  refine ⟨pre, post, by simpa using h d.timestamp, ?_⟩
  have := write_ignores_tag p { d with timestamp := now } (fun _ => none)
  exact Eq.trans this (h now)

/-! ## 4. truncation (used by C10) -/

/-- **No truncated document parses**: cutting anything but trailing white space off an emitted
document (pretty or compact) leaves a text that is not valid JSON. -/
theorem no_proper_prefix_parses (d : ReportData) (hd : GoodReport d) (p : Bool)
    (pre q : Str) (hsplit : write p d = pre ++ q) (hq : ¬ AllWs q) : parseJson pre = none := by
  obtain ⟨a, hw, hrun, y, hy⟩ := write_structure p d hd
  rw [hw] at hsplit
  rcases List.append_eq_append_iff.1 hsplit with ⟨a', h1, h2⟩ | ⟨c', h1, h2⟩
  · -- the cut is inside the trailing newline
    exfalso
    apply hq
    intro x hx
    exact allWs_nl p x (by rw [h2]; exact List.mem_append_right _ hx)
  · have hc : c' ≠ [] := by
      intro e
      subst e
      apply hq
      simp only [List.nil_append] at h2
      rw [h2]
      exact allWs_nl p
    exact no_proper_prefix a _ y 125 (by decide) (by simpa using hy) hrun pre c' hc h1

/-- ... and cutting only trailing white space leaves the document valid, with the same value -/
theorem trailing_ws_prefix_parses (d : ReportData) (hd : GoodReport d) (p : Bool)
    (pre q : Str) (hsplit : write p d = pre ++ q) (hq : AllWs q) : parseJson pre = some (toJsonDict d) := by
  obtain ⟨a, hw, hrun, y, hy⟩ := write_structure p d hd
  rw [hw] at hsplit
  rcases List.append_eq_append_iff.1 hsplit with ⟨a', h1, h2⟩ | ⟨c', h1, h2⟩
  · have hws : AllWs a' := fun x hx => allWs_nl p x (by rw [h2]; exact List.mem_append_left _ hx)
    rw [h1, parseJson, run_append, hrun]
    have := run_ws (ws_done (toJsonDict d)) a' hws []
    simp only [List.append_nil, run_nil] at this
    rw [this]; rfl
  · cases c' with
    | nil =>
      simp only [List.append_nil] at h1
      rw [← h1, parseJson, hrun]; rfl
    | cons x xs =>
      exfalso
      -- `}` would be in `q`
      have : (125 : Nat) ∈ q := by
        rw [h2]
        apply List.mem_append_left
        have hl : (x :: xs).getLast? = some 125 := by
          have : a.getLast? = some 125 := by rw [hy, ← List.cons_append, List.getLast?_append]; rfl
          rw [h1, List.getLast?_append] at this
          cases hl' : (x :: xs).getLast? with
          | none => simp at hl'
          | some z => rw [hl'] at this; simpa using this
        exact List.mem_of_getLast? hl
      have := hq 125 this
      revert this; decide

/-! ## the hypotheses are needed, and satisfiable -/

/-- a small report with hostile strings: quotes, backslash, newline, NUL, DEL, non-ASCII,
astral, lone surrogates, a version of `None`, a repository without branch -/
def sample : ReportData :=
  { version := none, uuid := cp! "u\"1\\", timestamp := cp! "2026-01-01T00:00:00+00:00", root := [47, 0xDC80, 233, 0x1F600],
    repository := some ⟨cp! "o\nwner", [0xD800, 97], none, none⟩,
    totals := [(cp! "Py\"thon", ⟨1, 12, 2, 0, 1⟩)],
    tree := [(cp! "./", ⟨[cp! "a b/", cp! "x\\y.py"], [3, 0, 0, 70]⟩), (cp! "a b/", ⟨[[127, 0]], [0, 0, 0, 0]⟩)],
    files := [(cp! "x\\y.py", ⟨cp! "c0ffee", cp! "Py\"thon", 12, [3, 0, 0, 70],
                [⟨cp! "f\t\"", 1, 0, 3, -1, 3⟩, ⟨[0xDBFF, 0xDBFF, 0xDFFF - 0x400 - 0x3FF], 5, 4, 80, 1, 70⟩]⟩)] }

theorem sample_good : GoodReport sample :=
  ⟨by decide, by decide, by decide, by decide, by intro r h; cases h; decide, by decide, by decide, by decide⟩

theorem sample_distinct : DistinctKeys sample := ⟨by decide, by decide, by decide⟩

/-- non-vacuity of `valid_json` and a direct evaluation of the model on the sample: the compact
document is read back as the sample's value -/
example : parseJson (write false sample) = some (toJson sample) := (valid_json sample sample_good sample_distinct).2

example : (parseJson (write true sample)).map (fun v => getKey (cp! "root") v >>= asStr) = some (.ok sample.root) := by
  decide +kernel

/-- non-vacuity of `Reachable`: with `build` = the constant construction and `profileOf` = the
stored profile, the sample is reachable, so `round_trip` and `rewrite_stable` apply to it -/
example : Reachable (fun _ => (sample.totals, sample.tree)) (fun _ => [3, 0, 0, 70]) sample :=
  ⟨by decide, rfl, rfl⟩

/-- a report whose root holds an adjacent surrogate pair: its document is still valid JSON but
the root that is read back is a different string - `GoodReport` cannot be dropped -/
def pairSample : ReportData := { sample with root := [0xD800, 0xDC00] }

theorem round_trip_needs_no_pair :
    ¬ GoodReport pairSample ∧
    (parseJson (write false pairSample)).map (fun v => getKey (cp! "root") v >>= asStr) = some (.ok [0x10000]) := by
  refine ⟨fun h => absurd h.root (by decide), by decide +kernel⟩

/-- with a repeated file key the document is still valid JSON, but `json.loads` keeps one entry
(first position, last value): `DistinctKeys` cannot be dropped from `valid_json` -/
def dupSample : ReportData :=
  { sample with files := [(cp! "a", ⟨cp! "1", cp! "L", 1, [0, 0, 0, 0], []⟩), (cp! "a", ⟨cp! "2", cp! "L", 2, [0, 0, 0, 0], []⟩)] }

theorem valid_json_needs_distinct_keys :
    GoodReport dupSample ∧ ¬ DistinctKeys dupSample ∧
    (parseJson (write false dupSample)).map
      (fun v => (getKey (cp! "codebase") v >>= getKey (cp! "files")) >>= items |>.map (·.length)) = some (.ok 1) := by
  refine ⟨⟨by decide, by decide, by decide, by decide, by intro r h; cases h; decide, by decide, by decide, by decide⟩,
    fun h => absurd h.files (by decide), by decide +kernel⟩

end CL.C08
