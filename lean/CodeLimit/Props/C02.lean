import CodeLimit.Model.Check
/-!
# C02 - length thresholds and the refactoring alarm are applied consistently

`cat L` is the category of a function of length `L` as the property defines it. Every theorem
below is about the definitions that `translator/logic.py` regenerates from the Python source
on every run (`CL.Gen.Logic`), so the comparisons proved equal to `cat` are the ones the code
contains now. All are quantified over every integer length `L` (not only `L ≥ 1`).
-/
namespace CL.C02

open CL.Gen.Logic

inductive Cat where
  | easy | verbose | hard | unmaintainable
  deriving DecidableEq, Repr

/-- easy if L ≤ 15, verbose if 16 ≤ L ≤ 30, hard-to-maintain if 31 ≤ L ≤ 60, unmaintainable if L > 60 -/
def cat (L : Int) : Cat :=
  if L ≤ 15 then .easy else if L ≤ 30 then .verbose else if L ≤ 60 then .hard else .unmaintainable

def Cat.index : Cat → Nat
  | .easy => 0 | .verbose => 1 | .hard => 2 | .unmaintainable => 3

/-- the LOC-weighted quality profile puts a function in the bucket of its category -/
theorem profile_bucket (L : Int) : make_profile_bucket L = (cat L).index := by
  unfold make_profile_bucket cat; grind [Cat.index]

/-- the per-language counters (count profile) use the same buckets -/
theorem count_bucket (L : Int) : make_count_profile_bucket L = (cat L).index := by
  unfold make_count_profile_bucket cat; grind [Cat.index]

/-- colour shown next to a function -/
theorem style_of_cat (L : Int) :
    style_color L = (match cat L with
      | .easy => "green" | .verbose => "yellow" | .hard => "dark_orange" | .unmaintainable => "red") := by
  unfold style_color cat; grind

/-- colour used by `format_unit` is the same -/
theorem unit_color_eq_style (L : Int) : format_unit_color L = style_color L := by
  unfold format_unit_color style_color; grind

/-- symbol shown next to a function -/
theorem emoji_of_cat (L : Int) :
    emoji L = (match cat L with
      | .easy => "✓" | .verbose => "✓" | .hard => "⚠" | .unmaintainable => "✖") := by
  unfold emoji cat; grind

/-- Markdown findings: the cross is shown exactly for unmaintainable functions (both tables) -/
theorem md_cross_iff (L : Int) :
    (md_cross_without_repository L ↔ cat L = .unmaintainable) ∧
    (md_cross_with_repository L ↔ cat L = .unmaintainable) := by
  unfold md_cross_without_repository md_cross_with_repository cat; grind

/-- `check`'s counters -/
theorem check_counters (L : Int) :
    (check_counts_hard L ↔ cat L = .hard) ∧ (check_counts_unmaintainable L ↔ cat L = .unmaintainable) := by
  unfold check_counts_hard check_counts_unmaintainable cat; grind

/-- `check` lists exactly the functions with `L > 30`, i.e. hard-to-maintain or unmaintainable -/
theorem check_lists_iff (L : Int) :
    (check_lists L ↔ L > 30) ∧ (check_lists L ↔ (cat L = .hard ∨ cat L = .unmaintainable)) := by
  unfold check_lists cat; grind

/-- the findings list (both formats) shows exactly the functions with `L > 30` -/
theorem findings_iff (L : Int) :
    (units_keeps L findings_threshold_text ↔ L > 30) ∧
    (units_keeps L findings_threshold_markdown ↔ L > 30) := by
  unfold units_keeps findings_threshold_text findings_threshold_markdown; grind

/-! ## normal forms of the generated decisions

Everything below uses the generated definitions only through these equivalences, which are proved
by automation from whatever term the translator produced; a behaviour-preserving rewrite of the
source changes the term but not the equivalences. -/

theorem check_counts_hard_nf (v : Int) : check_counts_hard v ↔ (30 < v ∧ v ≤ 60) := by
  unfold check_counts_hard; grind

theorem check_counts_unmaintainable_nf (v : Int) : check_counts_unmaintainable v ↔ 60 < v := by
  unfold check_counts_unmaintainable; grind

theorem check_lists_nf (v : Int) : check_lists v ↔ 30 < v := by
  unfold check_lists; grind

theorem check_exit_code_nf (unm : Int) : check_exit_code unm = if unm > 0 then 1 else 0 := by
  unfold check_exit_code; grind

theorem check_prints_nf (quiet : Bool) (hard unm : Int) :
    check_prints quiet hard unm ↔ (quiet = false ∨ hard > 0 ∨ unm > 0) := by
  unfold check_prints; cases quiet <;> grind

theorem check_summary_count_nf (hard unm : Int) : check_summary_count hard unm = hard + unm := by
  unfold check_summary_count; grind

/-! ## the check command on any number of files with any lengths -/

theorem mem_fileRisks (ms : List Int) (v : Int) : v ∈ fileRisks ms ↔ v ∈ ms ∧ v > 30 := by
  unfold fileRisks
  rw [List.mem_mergeSort, List.mem_filter]
  simp [check_lists_nf]

/-- the functions listed for a file are exactly those with `L > 30` (as a multiset), ... -/
theorem fileRisks_perm (ms : List Int) : (fileRisks ms).Perm (ms.filter (fun v => decide (v > 30))) := by
  unfold fileRisks
  have : (ms.filter (fun v => decide (check_lists v))) = ms.filter (fun v => decide (v > 30)) := by
    apply List.filter_congr; intro v _; simp [check_lists_nf]
  rw [this]
  exact List.mergeSort_perm _ _

/-- ... longest first -/
theorem fileRisks_sorted (ms : List Int) : (fileRisks ms).Pairwise (fun a b => b ≤ a) := by
  unfold fileRisks
  have h := List.pairwise_mergeSort (le := fun (a b : Int) => decide (b ≤ a))
    (by intro a b c; simp; omega) (by intro a b; simp; omega)
    (ms.filter (fun v => decide (check_lists v)))
  simpa using h

private theorem foldl_add_spec (files : List (List Int)) (r : CheckResult) :
    let out := files.foldl (fun r ms => r.add (fileRisks ms)) r
    out.files = r.files ++ files.map fileRisks ∧
    out.hard = r.hard + (((files.map fileRisks).flatten.filter (fun v => decide (check_counts_hard v))).length : Int) ∧
    out.unm = r.unm + (((files.map fileRisks).flatten.filter (fun v => decide (check_counts_unmaintainable v))).length : Int) := by
  induction files generalizing r with
  | nil => simp
  | cons f fs ih =>
    have := ih (r.add (fileRisks f))
    simp only [List.foldl_cons, List.map_cons, List.flatten_cons, List.filter_append, List.length_append]
    simp only [CheckResult.add] at this ⊢
    obtain ⟨h1, h2, h3⟩ := this
    refine ⟨by rw [h1]; simp, by rw [h2]; push_cast; omega, by rw [h3]; push_cast; omega⟩

theorem checkAll_spec (files : List (List Int)) :
    (checkAll files).files = files.map fileRisks ∧
    (checkAll files).hard = (((files.map fileRisks).flatten.filter (fun v => decide (check_counts_hard v))).length : Int) ∧
    (checkAll files).unm = (((files.map fileRisks).flatten.filter (fun v => decide (check_counts_unmaintainable v))).length : Int) := by
  have := foldl_add_spec files ⟨[], 0, 0⟩
  simpa [checkAll] using this

private theorem filter_length_pos_iff {p : Int → Bool} {l : List Int} :
    (0 : Int) < ((l.filter p).length : Int) ↔ ∃ v ∈ l, p v = true := by
  constructor
  · intro h
    have : 0 < (l.filter p).length := by omega
    obtain ⟨v, hv⟩ := List.exists_mem_of_length_pos this
    exact ⟨v, (List.mem_filter.1 hv).1, (List.mem_filter.1 hv).2⟩
  · rintro ⟨v, hv, hp⟩
    have : v ∈ l.filter p := List.mem_filter.2 ⟨hv, hp⟩
    have := List.length_pos_of_mem this
    omega

/-- `check` exits with status 1 exactly when at least one analysed function is unmaintainable
(longer than 60 lines), and with 0 otherwise -/
theorem exit_code_iff (quiet : Bool) (files : List (List Int)) :
    ((checkCommand quiet files).exitCode = 1 ↔ ∃ ms ∈ files, ∃ L ∈ ms, L > 60) ∧
    ((checkCommand quiet files).exitCode = 0 ∨ (checkCommand quiet files).exitCode = 1) := by
  have hs := checkAll_spec files
  have key : (0 : Int) < (checkAll files).unm ↔ ∃ ms ∈ files, ∃ L ∈ ms, L > 60 := by
    rw [hs.2.2, filter_length_pos_iff]
    constructor
    · rintro ⟨v, hv, hp⟩
      simp only [List.mem_flatten, List.mem_map] at hv
      obtain ⟨l, ⟨ms, hms, rfl⟩, hvl⟩ := hv
      have := (mem_fileRisks ms v).1 hvl
      exact ⟨ms, hms, v, this.1, by simpa [check_counts_unmaintainable_nf] using hp⟩
    · rintro ⟨ms, hms, L, hL, h60⟩
      refine ⟨L, ?_, by simpa [check_counts_unmaintainable_nf] using h60⟩
      simp only [List.mem_flatten, List.mem_map]
      exact ⟨fileRisks ms, ⟨ms, hms, rfl⟩, (mem_fileRisks ms L).2 ⟨hL, by omega⟩⟩
  unfold checkCommand
  simp only [check_exit_code_nf]
  constructor
  · rw [← key]; split <;> simp_all <;> omega
  · split <;> simp

/-- the functions listed are, per file, exactly those with `L > 30` -/
theorem listed_eq (quiet : Bool) (files : List (List Int)) :
    (checkCommand quiet files).listed = files.map fileRisks := (checkAll_spec files).1

/-- the summary count is the number of functions listed -/
theorem summary_count_eq (quiet : Bool) (files : List (List Int)) :
    (checkCommand quiet files).count = (((checkCommand quiet files).listed.flatten.length : Nat) : Int) := by
  have hs := checkAll_spec files
  unfold checkCommand
  simp only [check_summary_count_nf]
  rw [hs.1, hs.2.1, hs.2.2]
  generalize hl : (files.map fileRisks).flatten = l
  have hall : ∀ v ∈ l, v > 30 := by
    intro v hv
    rw [← hl] at hv
    simp only [List.mem_flatten, List.mem_map] at hv
    obtain ⟨_, ⟨ms, _, rfl⟩, hvl⟩ := hv
    exact ((mem_fileRisks ms v).1 hvl).2
  clear hl hs
  induction l with
  | nil => simp
  | cons a t ih =>
    have ha := hall a (by simp)
    have := ih (fun v hv => hall v (by simp [hv]))
    by_cases h60 : a ≤ 60
    · have h1 : decide (check_counts_hard a) = true := by
        rw [decide_eq_true_eq, check_counts_hard_nf]; omega
      have h2 : ¬ decide (check_counts_unmaintainable a) = true := by
        rw [decide_eq_true_eq, check_counts_unmaintainable_nf]; omega
      rw [List.filter_cons_of_pos (p := fun v => decide (check_counts_hard v)) h1,
        List.filter_cons_of_neg (p := fun v => decide (check_counts_unmaintainable v)) h2]
      simp only [List.length_cons]; push_cast; omega
    · have h1 : ¬ decide (check_counts_hard a) = true := by
        rw [decide_eq_true_eq, check_counts_hard_nf]; omega
      have h2 : decide (check_counts_unmaintainable a) = true := by
        rw [decide_eq_true_eq, check_counts_unmaintainable_nf]; omega
      rw [List.filter_cons_of_neg (p := fun v => decide (check_counts_hard v)) h1,
        List.filter_cons_of_pos (p := fun v => decide (check_counts_unmaintainable v)) h2]
      simp only [List.length_cons]; push_cast; omega

/-- under `--quiet` nothing is printed exactly when no function is listed; without it the
report is always printed -/
theorem quiet_iff (quiet : Bool) (files : List (List Int)) :
    ((checkCommand quiet files).printed = false ↔ quiet = true ∧ (checkCommand quiet files).listed.flatten = []) := by
  have hc := summary_count_eq quiet files
  have hs := checkAll_spec files
  have hnn1 : 0 ≤ (checkAll files).hard := by rw [hs.2.1]; omega
  have hnn2 : 0 ≤ (checkAll files).unm := by rw [hs.2.2]; omega
  unfold checkCommand at hc
  simp only [check_summary_count_nf] at hc
  unfold checkCommand
  simp only [decide_eq_false_iff_not, check_prints_nf]
  constructor
  · intro h
    have hq : quiet = true := by
      cases quiet with
      | true => rfl
      | false => exact absurd (Or.inl rfl) h
    refine ⟨hq, ?_⟩
    have : ¬ ((checkAll files).hard > 0) ∧ ¬ ((checkAll files).unm > 0) := ⟨fun h1 => h (Or.inr (Or.inl h1)), fun h1 => h (Or.inr (Or.inr h1))⟩
    have hz : ((checkAll files).files.flatten.length : Int) = 0 := by omega
    exact List.eq_nil_of_length_eq_zero (by exact_mod_cast hz)
  · rintro ⟨hq, hnil⟩
    rw [hnil] at hc
    simp at hc
    rintro (h | h | h)
    · rw [hq] at h; exact absurd h (by decide)
    · omega
    · omega

/-- **the summary says "refactoring necessary" exactly when something is listed** (the branch of
`CheckResult.report` that prints the count of functions that need refactoring, as opposed to "no
refactoring necessary"), for every multiset of lengths over any number of files, quiet or not -/
theorem says_refactoring_iff (quiet : Bool) (files : List (List Int)) :
    (checkCommand quiet files).saysRefactoring = true ↔ (checkCommand quiet files).listed.flatten ≠ [] := by
  have hc := summary_count_eq quiet files
  have hs := checkAll_spec files
  have hnn1 : 0 ≤ (checkAll files).hard := by rw [hs.2.1]; omega
  have hnn2 : 0 ≤ (checkAll files).unm := by rw [hs.2.2]; omega
  unfold checkCommand at hc
  simp only [check_summary_count_nf] at hc
  unfold checkCommand
  simp only [decide_eq_true_eq, check_says_refactoring]
  constructor
  · intro h hnil
    rw [hnil] at hc
    simp at hc
    omega
  · intro hne
    have hpos : 0 < (checkAll files).files.flatten.length := List.length_pos_iff.2 hne
    have : (0 : Int) < ((checkAll files).files.flatten.length : Int) := by exact_mod_cast hpos
    omega

/-- hence the summary line and the listing never disagree: "refactoring necessary" iff the
summary count is positive iff at least one function is listed -/
theorem says_refactoring_iff_count (quiet : Bool) (files : List (List Int)) :
    (checkCommand quiet files).saysRefactoring = true ↔ 0 < (checkCommand quiet files).count := by
  rw [says_refactoring_iff, summary_count_eq]
  constructor
  · intro hne
    exact_mod_cast List.length_pos_iff.2 hne
  · intro h
    exact List.length_pos_iff.1 (by exact_mod_cast h)

/-! ## non-vacuity: all boundary neighbours -/

example : (List.map cat [14, 15, 16, 17, 29, 30, 31, 32, 59, 60, 61, 62]) =
    [.easy, .easy, .verbose, .verbose, .verbose, .verbose, .hard, .hard, .hard, .hard, .unmaintainable, .unmaintainable] := by
  decide
example : (checkCommand true [[10, 31, 70, 45], [5], [61]]).exitCode = 1 :=
  (exit_code_iff true _).1.2 ⟨[61], by simp, 61, by simp, by omega⟩
example : (checkCommand true [[10, 30], [5]]).exitCode = 0 := by
  rcases (exit_code_iff true [[10, 30], [5]]).2 with h | h
  · exact h
  · obtain ⟨ms, hms, L, hL, h60⟩ := (exit_code_iff true [[10, 30], [5]]).1.1 h
    simp at hms; rcases hms with rfl | rfl <;> simp at hL <;> omega
example : (checkCommand true [[10, 30], [5]]).printed = false := by
  rw [quiet_iff]; refine ⟨rfl, ?_⟩
  rw [listed_eq]
  apply List.eq_nil_iff_forall_not_mem.2
  intro v hv
  simp only [List.mem_flatten, List.mem_map] at hv
  obtain ⟨_, ⟨ms, hms, rfl⟩, hvl⟩ := hv
  have := (mem_fileRisks ms v).1 hvl
  simp at hms; rcases hms with rfl | rfl <;> simp at this <;> omega

example : (checkCommand true [[10, 30], [5]]).saysRefactoring = false ∧
    (checkCommand true [[10, 31], [5]]).saysRefactoring = true ∧
    (checkCommand false [[10, 31], [5]]).listed = [[31], []] := by decide +kernel

end CL.C02
