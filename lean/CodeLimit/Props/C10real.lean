import CodeLimit.Lemmas.PipelineCache
/-!
# C10.2 for the REAL reader and writer: the byte contract of `Spec/Cache.lean` is a theorem

`C10.truncated_read` and `C10.truncated_write_harmless` are stated under the hypothesis
`Cache.ByteContract`.  Here the contract is PROVED for the reader and the writer of
`Model/Pipeline.lean` - `readCache` = `json.loads`, `ReportReader.from_json`, `Codebase.add_file*`
(`_read_cached_report` up to the version test) and `Json.write true` of the report object that
`scan_command` builds from its rows -, for the reports a scan writes (`WrittenByScan`), at the
parameters `cacheParams E` that every end-to-end theorem of `Props/Pipeline.lean` uses (paths and
contents are strings, rows are `Except Err Row`, the checksum is `E.checksum`).  The contract is
FALSE for arbitrary row lists (duplicate keys, rows holding an exception, strings with a surrogate
pair: `contract_needs_good`), which is why `ByteContract` carries the predicate `Good`.

Ingredients: C08 (`valid_json`, `read_back`, `no_proper_prefix_parses`,
`trailing_ws_prefix_parses`), C07 (`build_ok` for the keys of a scan), C09 (`report_honest`).
-/
namespace CL.C10real

open CL CL.Sel CL.Pipeline

/-- the bytes `scan_command` writes for these rows under run parameters `R`:
`ReportWriter(Report(codebase, repository)).to_json()` for the codebase built from the rows
(`entriesOf`, `reportOf`: exactly the two steps of `Pipeline.scan` after the walk).  Rows that hold
an exception, or on which `add_file` / `aggregate` raise, write nothing (the scan aborts before
opening the file). -/
def writeRows (E : Env) (R : Pipeline.Run) (rows : List CacheRow) : Str :=
  match entriesOf rows with
  | .error _ => []
  | .ok files =>
    match reportOf E R files with
    | .error _ => []
    | .ok d => Json.write true d

/-- the rows are those of a scan: of any real directory (`TreeOk`), under the exclusion lines of
the run, started from any cache file that satisfies the invariant of C09 (in particular any
`CacheOk` file: absent, written by an earlier scan, cut anywhere, foreign) -/
def WrittenByScan (E : Env) (R : Pipeline.Run) (rows : List CacheRow) : Prop :=
  ∃ rn ch prev, TreeOk ch ∧ InvC E prev ∧ rows = scanRows E R.pats (.dir rn ch) prev

/-- what `Pipeline.scan` writes is `writeRows` of its rows -/
theorem scan_bytes {E : Env} {R : Pipeline.Run} {root : Node} {prev : Option Str} {d : Json.ReportData} {bytes : Str}
    (h : scan E R root prev = .ok (d, bytes)) : bytes = writeRows E R (scanRows E R.pats root prev) := by
  obtain ⟨files, cb, hf, hcb, rfl, rfl⟩ := scan_ok_iff.1 h
  simp [writeRows, hf, reportOf, hcb]

/-- the report object behind `writeRows` for the rows of a scan, with the facts C08 needs -/
theorem written_facts {E : Env} (hE : EnvBase E) {R : Pipeline.Run} (hR : RunOk R) {rows : List CacheRow}
    (hg : WrittenByScan E R rows) :
    ∃ d : Json.ReportData, writeRows E R rows = Json.write true d ∧ Json.GoodReport d ∧ Json.DistinctKeys d ∧
      ∀ b, Json.parseJson b = some (Json.toJson d) → readCache (some b) = .doc (some E.version) rows := by
  obtain ⟨rn, ch, prev, hT, hprev, rfl⟩ := hg
  obtain ⟨d, bytes, hs⟩ := scan_total E R rn hT.wf prev
  have hb := scan_bytes hs
  obtain ⟨files, cb, hf, hcb, rfl, rfl⟩ := scan_ok_iff.1 hs
  have hrows : Cache.HonestRows (cacheParams E) (scanRows E R.pats (.dir rn ch) prev) :=
    Cache.report_honest (cacheParams E) (inv_state hprev R.pats ch)
  have hh := honestFiles_of_rows hrows hf
  have hgood := report_good hE hR hT hf hh hcb
  have hdist := report_distinct (E := E) (R := R) hT.wf hf hcb
  refine ⟨_, hb.symm, hgood, hdist, ?_⟩
  intro b hb'
  have := readCache_doc (cb := cb) hb' hdist.files (entriesOf_profiles hf) hcb
  rw [this]
  show Cache.CacheFile.doc (some E.version) (rowsOfFiles files) = _
  rw [rowsOfFiles_entriesOf hf]

/-- **the byte contract of C10 holds for the real reader and writer** on the reports a scan
writes: (a) the written text is read back as the document of the current version with exactly the
rows; (b) a prefix that lacks a non-blank character is unreadable; (c) a prefix that lacks only
trailing white space (the final newline) reads like the whole. -/
theorem real_contract {E : Env} (hE : EnvBase E) {R : Pipeline.Run} (hR : RunOk R) :
    Cache.ByteContract (cacheParams E) Nat Json.isWs (fun b => readCache (some b)) (writeRows E R)
      (WrittenByScan E R) := by
  constructor
  · intro rows hg
    obtain ⟨d, hw, hgood, hdist, hdoc⟩ := written_facts hE hR hg
    rw [hw]
    exact hdoc _ (C08.valid_json d hgood hdist).1
  · intro rows p hg hp hb
    obtain ⟨d, hw, hgood, hdist, hdoc⟩ := written_facts hE hR hg
    rw [hw] at hp hb
    obtain ⟨q, hq⟩ := hp
    have hdrop : (Json.write true d).drop p.length = q := by rw [← hq]; simp
    rw [hdrop] at hb
    have hws : ¬ Json.AllWs q := by
      intro h
      obtain ⟨b, hbq, hbw⟩ := hb
      rw [h b hbq] at hbw
      cases hbw
    have := C08.no_proper_prefix_parses d hgood true p q hq.symm hws
    simp only [readCache, this]
  · intro rows p hg hp hb
    obtain ⟨d, hw, hgood, hdist, hdoc⟩ := written_facts hE hR hg
    rw [hw] at hp hb ⊢
    obtain ⟨q, hq⟩ := hp
    have hdrop : (Json.write true d).drop p.length = q := by rw [← hq]; simp
    rw [hdrop] at hb
    have := C08.trailing_ws_prefix_parses d hgood true p q hq.symm hb
    rw [C08.toJsonDict_eq d hdist] at this
    rw [hdoc p this, hdoc _ (C08.valid_json d hgood hdist).1]

/-- the state in which `Pipeline.scan` runs the cache model -/
theorem cacheState_scan (E : Env) (pats : List Gi.Pat) (rn : Str) (ch : List Node) (prev : Option Str) :
    (Cache.scan (cacheParams E) (cacheState pats ch prev)).2 = scanRows E pats (.dir rn ch) prev := rfl

/-- **C10.2 with every hypothesis discharged** (`C10.truncated_write_harmless` at the real
contract).  A scan of a real directory, started from any cache file satisfying the invariant,
is interrupted while it writes `.codelimit_cache/codelimit.json`: the file holds an arbitrary
prefix `p` of the bytes (`p = []`: opened and emptied; `p = bytes`: complete).  Then, whatever
allowed operations follow (file edits, exclusion changes, further faults, scans), the next scan
reports the fresh report and leaves the complete document of the current version behind.  The
only hypotheses left are the library contracts `EnvOk` (with the idealised injective checksum,
because the allowed operations `ops` may put ANY honest document in place; the contract itself,
`real_contract`, needs `EnvBase` only), `RunOk`, `TreeOk`. -/
theorem truncated_write_harmless_real {E : Env} (hE : EnvOk E) {R : Pipeline.Run} (hR : RunOk R) {rn : Str}
    {ch : List Node} (hT : TreeOk ch) {prev : Option Str} (hprev : InvC E prev)
    {d : Json.ReportData} {bytes : Str} (hs : scan E R (.dir rn ch) prev = .ok (d, bytes))
    (p : Str) (hp : p <+: bytes)
    (ops : List (Cache.Op Str Str Str (Except Err Row) (List Gi.Pat) (Option Str)))
    (hops : ∀ op ∈ ops, Cache.Op.Allowed (cacheParams E) op) :
    let s1 : CacheState :=
      { (Cache.scan (cacheParams E) (cacheState R.pats ch prev)).1 with cache := readCache (some p) }
    let s2 := Cache.run (cacheParams E) s1 ops
    Cache.Inv (cacheParams E) s1 ∧
    (Cache.scan (cacheParams E) s2).2 = Cache.fresh (cacheParams E) s2 ∧
    (Cache.scan (cacheParams E) s2).1.cache = .doc (some E.version) (Cache.fresh (cacheParams E) s2) := by
  intro s1 s2
  have hg : WrittenByScan E R (Cache.scan (cacheParams E) (cacheState R.pats ch prev)).2 :=
    ⟨rn, ch, prev, hT, hprev, rfl⟩
  have hp' : p <+: writeRows E R (Cache.scan (cacheParams E) (cacheState R.pats ch prev)).2 := by
    rw [cacheState_scan E R.pats rn, ← scan_bytes hs]; exact hp
  have := C10.truncated_write_harmless (cacheParams E) Json.isWs (fun b => readCache (some b)) (writeRows E R)
    (WrittenByScan E R) hE.md5 (real_contract hE.toEnvBase hR) (cacheState R.pats ch prev) (inv_state hprev R.pats ch)
    hg p hp' ops hops
  exact ⟨this.1, this.2.1, this.2.2.1⟩

/-- what the interrupted file reads as (`C10.truncated_read` at the real contract): the
unreadable file, or - when only the final newline is missing - the complete document -/
theorem truncated_read_real {E : Env} (hE : EnvBase E) {R : Pipeline.Run} (hR : RunOk R) {rn : Str}
    {ch : List Node} (hT : TreeOk ch) {prev : Option Str} (hprev : InvC E prev)
    {d : Json.ReportData} {bytes : Str} (hs : scan E R (.dir rn ch) prev = .ok (d, bytes))
    (p : Str) (hp : p <+: bytes) :
    readCache (some p) =
      Cache.truncateCache ((bytes.drop p.length).all Json.isWs)
        (.doc (some E.version) (scanRows E R.pats (.dir rn ch) prev)) := by
  have hg : WrittenByScan E R (scanRows E R.pats (.dir rn ch) prev) := ⟨rn, ch, prev, hT, hprev, rfl⟩
  have hb := scan_bytes hs
  have := C10.truncated_read (cacheParams E) Json.isWs (fun b => readCache (some b)) (writeRows E R)
    (WrittenByScan E R) (real_contract hE hR) _ hg p (by rw [← hb]; exact hp)
  rw [← hb] at this
  exact this

/-! ## the restriction to `Good` reports is needed -/

/-- **The contract is false for arbitrary row lists**, whatever the environment: a row that holds
an exception (`_analyze_file` raised) is never written - the scan aborts -, so no reader gives it
back; (a) fails for the real reader and writer without the restriction `Good`.  (Rows with a
repeated key or a surrogate pair in a string fail too: `C08.valid_json_needs_distinct_keys`,
`C08.surrogate_pair_not_preserved`.) -/
theorem contract_needs_good (E : Env) (R : Pipeline.Run) :
    ¬ Cache.ByteContract (cacheParams E) Nat Json.isWs (fun b => readCache (some b)) (writeRows E R)
      (fun _ => True) := by
  intro h
  have hr := h.roundtrip [([97], [], .error .index)] trivial
  have hw : writeRows E R [([97], [], .error .index)] = [] := rfl
  have hp : Json.parseJson [] = none := by decide +kernel
  simp [hw, readCache, hp] at hr

end CL.C10real
