import CodeLimit.Props.C01py
import CodeLimit.Lemmas.PyTreeScan
import CodeLimit.Lemmas.PyTreeReport
import CodeLimit.Lemmas.PyTreeNodes
import CodeLimit.Lemmas.SynHeaderMeasure
import CodeLimit.Lemmas.LayoutSortedEq
import CodeLimit.Lemmas.PyTreeMarks
/-!
# C01 for Python, end to end at token level: from an INDENTATION TREE to the report

"... the analysis reports each named function exactly once, under its own name, with a span
that starts at its header's first token and ends just past its body's last token ...  The
reported length equals the number of distinct physical lines on which at least one
non-comment, non-whitespace token of that function begins, not counting tokens of nested
reported functions ... and reports nothing that is not a function definition."

`Props/C01py.lean` proves this from a description of the file by token INDICES (`PyLayout`) with
header discovery as a hypothesis.  Here both are derived:

## Part 1 - which headers `extract_headers` of Python reports (all token lists)

`Spec/SynHeaderPy.lean`: `DefHeader toks p f` := `toks[p]` is the keyword `def`, `toks[p + 1]` is a
Name token, `toks[p + 2]` is a punctuation token `(`, and `f = groupsEnd toks (p + 2)` (just past
the maximal run of parenthesis groups, `Spec/SynHeader.lean`; groups are delimited by the
PUNCTUATION tokens `(` / `)`, as `Balanced` does with `Symbol` since the repair of defect F25).

* `greedy_iff_defHeader` - the greedy matches of the shipped pattern
  `[Keyword("def"), Name(), OneOrMore(Balanced("(", ")"))]` are exactly the `DefHeader`s;
* `python_header_sound` - every reported header is a `DefHeader` named by `toks[p + 1]`;
* `python_header_complete` - a `DefHeader` that is followed by a token and has no `def Name (`
  inside its parameter list is reported, exactly once.
  Call-shaped groups `g ( 1 )` in default values are harmless (`call_in_default_is_harmless`):
  the start shape needs the KEYWORD `def`; this is a real difference to the C family (KF1 / F11);
* `completeness_at_end_of_input_fails` - the hypothesis "followed by a token" cannot be dropped
  (token-level witness);
* `completeness_without_name_text_holds`, `name_token_close_is_ordinary` - the hypothesis "the
  name token does not have the text `)`", needed while `Balanced` compared token TEXTS (before the
  repair of F25), is gone: a name token is not a punctuation token; the former counterexample is
  now reported.

## Part 1a - stage C without discovery hypothesis; every measurement is a `def`

* `headers_of_pyLayout`, `scan_of_pyLayout_syn` - `C01py.scan_of_pyLayout_python` with the hypothesis
  `extractHeaders … = .ok …` replaced by conditions on the token list ("the headers of the functions
  are exactly the `def` headers"); covers backslash continuation and string literals over several
  lines (`pyLayout_syn_example`), which the tree grammar of Part 2 leaves out;
* `measurement_is_defHeader` - every measurement of `scan_file` on ANY token list (ordered
  locations) belongs to a `def` header, starts at `def`, is named by the token after it, ends
  behind the header.

## Part 2 - indentation trees (`Spec/PyTree.lean`)

`PyProg PTok`: a forest of statements: simple statements (`line`), compound statements that are
not functions (`block`: `if x :`, `class K :` with a suite) and function definitions (`defn`:
`[async] def name ( … ) [-> T] :` with a suite); every suite is a forest again.  `PTok` = a token
with the number `nl` of line breaks before it and the number `col` of blank columns before it
(after a line break: its indentation).  `pyRender` lays the tokens out; `pyFnsOf` lists the
functions as token ranges; `pyTreeReport` is the expected report read off the tree; `PyProg.wf`
is the decidable well-formedness condition (all statements of a suite at ONE indentation,
deeper than the line that introduces the suite - the condition under which the tree can be
recovered from the columns, and the one Python's tokenizer enforces).

For EVERY well-formed forest (induction over the tree: any number and order of statements, any
nesting depth):

* `layout_of_pytree` - the rendering with the functions of the tree is a canonical `PyLayout`;
* `headers_of_pytree` - `extract_headers` returns exactly the headers of the function nodes, in
  source order (the discovery hypothesis of `C01py.scan_of_pyLayout_python`);
* `expected_of_pytree` - the index-level specification (`expected`, `ownLines`) is the
  tree-level one (`pyTreeReport`);
* `scan_of_pytree` - **`scan_file` on the rendering returns exactly the tree report**,
  unconditionally.

## Part 3 - comments and suppression markers (C04 / C17 for Python trees)

* `scan_of_pytree_marked` - for ANY token list `all` whose code tokens are the rendering of a
  well-formed forest (comments anywhere, any of them a `nocl` marker): `scan_file all` =
  `pyMarkedReport t all`, the tree report of the forest in which the `def` nodes named on a marked
  line are dissolved into compound statements; unconditional;
* `reported_functions_py` (omitted exactly when, on the output), `toggle_marker_py`,
  `comments_in_place_invisible_py`, `pyMarkedReport_unmarked`; example `Ex.allMarked` (a marked
  method, a marked nested function whose lines then count for its parent, a decoy).

The side conditions are needed: `Ex.same_indentation_needed`, `Ex.deeper_continuation_needed`
(negation forms, ONE clause of `PyProg.wf` switched off: `Ex.wfP`).

The fragment: statements, head lines and parameter lists may span several physical lines
(brackets) provided every continuation line is indented deeper than the header line of the
innermost enclosing function (`Ex.deeper_continuation_needed` shows what happens otherwise); no
backslash continuation, no string literal ending in a line break (`Props/C01py.lean` covers these
at index level; a multi-line docstring is one token and is inside the fragment), no one-line
compound statements, the keyword `def` only in function definitions.
-/
namespace CL.C01pyfull
open CL.Syn CL.Ex CL.PyT

/-! ## Part 1: discovery, syntactically, on all token lists -/

/-- Python (as generated from `/repo/codelimit/languages/Python.py`) has exactly one header
pattern, `[Keyword("def"), Name(), OneOrMore(Balanced("(", ")"))]`, no follow-up pattern and no
previous-keyword filter.  (Checked by evaluation: a change of the shipped pattern breaks this
proof.) -/
theorem python_pattern : Gen.python.pats = [⟨pyExpr, none⟩] ∧ Gen.python.prevKw = none :=
  Syn.python_pattern

/-- For every token list: greedy matching of the compiled Python header pattern from `p`
succeeds with finish `f` exactly when `toks[p]` is the keyword `def`, `toks[p + 1]` a Name token,
`toks[p + 2]` is a punctuation token `(` and `f` is just past the maximal run of parenthesis groups starting there (a
last group that is never closed extends to the end of the input). -/
theorem greedy_iff_defHeader (hp : HeaderPat) (hhp : hp ∈ Gen.python.pats) (D : Dfa Pred)
    (hD : compileTok hp.expr = .ok D) (toks : List Tok) (p f : Nat) :
    GreedyAt (dfaMachine D tokAcceptor) toks p f ↔ DefHeader toks p f := by
  rw [python_pattern.1, List.mem_singleton] at hhp
  subst hhp
  exact greedyAt_iff_defHeader hD toks p f

/-- a `def` header has at least three tokens, lies inside the input, and its finish is
determined by its start -/
theorem defHeader_basic (toks : List Tok) (p f f' : Nat) (h : DefHeader toks p f) :
    p + 3 ≤ f ∧ f ≤ toks.length ∧ (DefHeader toks p f' → f' = f) :=
  ⟨h.len.1, h.len.2, fun h' => h'.finish_unique h⟩

/-- **Soundness.**  Every header that `extract_headers` reports for Python is a `def` header
`def Name ( … ) … ( … )`, and its name is the token after `def`. -/
theorem python_header_sound (toks : List Tok) (hs : List Header)
    (h : extractHeaders Gen.python toks = .ok hs) :
    ∀ hd ∈ hs, DefHeader toks hd.rng.s hd.rng.e ∧ toks[hd.rng.s + 1]? = some hd.name :=
  sound_pyExpr python_shipped python_pattern.1 h

/-- **Completeness on the canonical fragment.**  A `def` header `[p, f)` that is followed by a
token (`:` or `->`) and has no `def Name (` strictly inside its parameter list is reported by
`extract_headers`, with the token after `def` as its name, and it is the only reported header that
starts at `p`.  Nothing is demanded about `Name (` inside the parameter list: a call in a default
value does not hide the function.  Nothing is demanded about the text of the name token: a name
token is not a punctuation token, so it cannot close a group
(`completeness_without_name_text_holds`). -/
theorem python_header_complete (toks : List Tok) (hs : List Header)
    (h : extractHeaders Gen.python toks = .ok hs) (p f : Nat)
    (hdef : DefHeader toks p f) (hlt : f < toks.length)
    (hnodef : ∀ q, p < q → q + 3 < f →
      ¬ (KeywordAt toks q defStr ∧ NameAt toks (q + 1) ∧ OpenAt toks (q + 2))) :
    ∃ hd ∈ hs, hd.rng = ⟨p, f⟩ ∧ toks[p + 1]? = some hd.name ∧
      ∀ hd' ∈ hs, hd'.rng.s = p → hd' = hd :=
  complete_pyExpr python_shipped python_pattern.1 python_pattern.2 h hdef hlt hnodef

/-- `extract_headers` returns on every token list (so `h` above is always available) -/
theorem python_headers_total (toks : List Tok) : ∃ hs, extractHeaders Gen.python toks = .ok hs :=
  C15.extractHeaders_total Gen.python python_shipped toks

/-- the reported headers are listed by strictly increasing start -/
theorem python_headers_sorted (toks : List Tok) (hs : List Header)
    (h : extractHeaders Gen.python toks = .ok hs) :
    hs.Pairwise (fun a b => a.rng.s < b.rng.s) :=
  extractHeaders_python_sorted h

/-! ## Part 1a: stage C (`PyLayout`) WITHOUT the discovery hypothesis

`C01py.scan_of_pyLayout_python` assumes `extractHeaders Gen.python code = .ok (fns.map (·.hdr))` -
a statement about an intermediate result of the analysis.  With the syntactic characterisation
above it becomes a condition on the token list: the headers of `fns` are exactly the `def` headers
of `code`.  This covers what the tree grammar of Part 2 leaves out: backslash continuation and
string literals over several lines (they are inside `PyLayout`). -/

/-- **Header discovery on a Python layout, from syntactic conditions.**  If every function of
`fns` has a `def` header `def Name ( … )+` as its header range, named by the token after `def`, and
every `def` header of the token list is the header of one of the functions, then `extract_headers`
returns exactly the headers of `fns`, in source order.  (`PyLayout` contributes: the functions are
listed in source order, a header is followed by a token, and no function starts inside the header
of another - so no `def Name (` stands inside a parameter list.) -/
theorem headers_of_pyLayout {code : List Tok} {fns : List Fn} (hL : PyLayout code fns)
    (hdef : ∀ f ∈ fns, DefHeader code f.hdr.rng.s f.hdr.rng.e ∧
      code[f.hdr.rng.s + 1]? = some f.hdr.name)
    (hall : ∀ p f, DefHeader code p f → ∃ g ∈ fns, g.hdr.rng = ⟨p, f⟩) :
    extractHeaders Gen.python code = .ok (fns.map (·.hdr)) := by
  obtain ⟨hs, h⟩ := python_headers_total code
  rw [h]
  congr 1
  have hsorted := python_headers_sorted code hs h
  have hfs : (fns.map (·.hdr)).Pairwise (fun a b => a.rng.s < b.rng.s) := by
    rw [List.pairwise_map]; exact hL.fns_sorted
  refine eq_of_pairwise_key_lt (fun hd : Header => hd.rng.s) hsorted hfs (fun hd => ?_)
  constructor
  · intro hhd
    obtain ⟨s1, s2⟩ := python_header_sound code hs h hd hhd
    obtain ⟨g, hg, hgr⟩ := hall _ _ s1
    have hgn := (hdef g hg).2
    have hs' : g.hdr.rng.s = hd.rng.s := by rw [hgr]
    rw [hs', s2] at hgn
    have : g.hdr = hd := by
      cases hgd : g.hdr with
      | mk nm rng =>
        rw [hgd] at hgn hgr
        simp only [Option.some.injEq] at hgn
        cases hd with
        | mk nm' rng' =>
          simp only at hgn hgr
          rw [← hgn, hgr]
    rw [← this]
    exact List.mem_map_of_mem hg
  · intro hhd
    obtain ⟨f, hf, rfl⟩ := List.mem_map.1 hhd
    obtain ⟨d1, d2⟩ := hdef f hf
    have hok := hL.fn_ok f hf
    obtain ⟨hd, hhd', hr, hn, _⟩ := python_header_complete code hs h _ _ d1 (by omega) (by
      intro q hq1 hq2 ⟨k1, k2, k3⟩
      -- a `def Name (` inside the parameter list would be the header of a function of `fns`
      obtain ⟨g, hg, hgr⟩ := hall q (groupsEnd code (q + 2)) ⟨k1, k2, k3, rfl⟩
      have hgs : g.hdr.rng.s = q := by rw [hgr]
      have hokg := hL.fn_ok g hg
      by_cases hfg : f = g
      · subst hfg; omega
      · rcases hL.order_or hf hg hfg with h' | h' <;> omega)
    rw [d2] at hn
    have : hd = f.hdr := by
      cases hd with
      | mk nm rng =>
        simp only at hr hn
        simp only [Option.some.injEq] at hn
        cases hfd : f.hdr with
        | mk nm' rng' =>
          rw [hfd] at hn
          simp only at hn
          rw [hr, ← hn]
          congr 1
          rw [hfd]
    rw [← this]; exact hhd'

/-- **C01 for Python at the level of token indices, WITHOUT discovery hypothesis**
(`C01py.scan_of_pyLayout_python` with `hh` replaced by conditions on the token list).  Let `code` be
the code tokens of a file and `fns` functions such that

* `PyLayout code fns`: the indentation structure of a canonical Python file (logical lines incl.
  backslash continuation and string literals over several lines),
* every function's header range is a `def` header `def Name ( … )+` named by the token after `def`,
* every `def` header of `code` is the header of one of the functions,
* no function is marked with a suppression comment.

Then `scan_file` reports exactly the functions `fns`, each once, in source order, each with its
expected measurement. -/
theorem scan_of_pyLayout_syn {all code : List Tok} {fns : List Fn}
    (hcode : filterTokens false all = code) (hL : PyLayout code fns)
    (hdef : ∀ f ∈ fns, DefHeader code f.hdr.rng.s f.hdr.rng.e ∧
      code[f.hdr.rng.s + 1]? = some f.hdr.name)
    (hall : ∀ p f, DefHeader code p f → ∃ g ∈ fns, g.hdr.rng = ⟨p, f⟩)
    (hm : ∀ f ∈ fns, ¬ Marked all f.hdr.name.line) :
    ∃ ms, scanFile Gen.python all = .ok ms ∧ ms.map some = fns.map (expected code fns) :=
  C01py.scan_of_pyLayout_python hcode (headers_of_pyLayout hL hdef hall) hL hm

/-- the condition "every `def` header is the header of one of the functions" is decidable: it
suffices to look at the positions inside the token list -/
theorem defHeaders_listed_of_bounded {code : List Tok} {fns : List Fn}
    (h : ∀ p, p < code.length → DefHeader code p (groupsEnd code (p + 2)) →
      ∃ g ∈ fns, g.hdr.rng = ⟨p, groupsEnd code (p + 2)⟩) :
    ∀ p f, DefHeader code p f → ∃ g ∈ fns, g.hdr.rng = ⟨p, f⟩ := by
  intro p f hd
  obtain ⟨⟨t, ht, _⟩, _, _, rfl⟩ := id hd
  exact h p (List.getElem?_eq_some_iff.1 ht).1 hd

/-- **non-vacuity of `scan_of_pyLayout_syn`**: the file of `Lemmas/PyLayoutExamples.lean` (tokens
of the real lexer; a backslash continuation onto a line at column 1, a string literal over two
lines whose second line stands at column 1, a header over two lines, `async def`, a nested `def`
as last statement) satisfies all hypotheses - the three conditions on headers are decided in the
kernel - and the conclusion agrees with the independent evaluation `C01py.scan_example`.  This
file is OUTSIDE the tree grammar of Part 2 (continuation tokens). -/
theorem pyLayout_syn_example :
    ¬ NoContinuation C01PyEx.code ∧
    (∀ f ∈ C01PyEx.fns, DefHeader C01PyEx.code f.hdr.rng.s f.hdr.rng.e ∧
      C01PyEx.code[f.hdr.rng.s + 1]? = some f.hdr.name) ∧
    (∀ p f, DefHeader C01PyEx.code p f → ∃ g ∈ C01PyEx.fns, g.hdr.rng = ⟨p, f⟩) ∧
    ∃ ms, scanFile Gen.python C01PyEx.all = .ok ms ∧
      ms.map some = C01PyEx.fns.map (expected C01PyEx.code C01PyEx.fns) := by
  have h1 : ∀ f ∈ C01PyEx.fns, DefHeader C01PyEx.code f.hdr.rng.s f.hdr.rng.e ∧
      C01PyEx.code[f.hdr.rng.s + 1]? = some f.hdr.name := by decide +kernel
  have h2 := defHeaders_listed_of_bounded (code := C01PyEx.code) (fns := C01PyEx.fns)
    (by decide +kernel)
  exact ⟨C01PyEx.not_noContinuation, h1, h2,
    scan_of_pyLayout_syn C01PyEx.code_all C01PyEx.layout h1 h2 C01PyEx.unmarked⟩

/-- **"Reports nothing that is not a function definition", Python, on the output.**  For every
token list whose code tokens stand at strictly increasing locations (C16): each measurement of
`scan_file` belongs to a `def` header `def Name ( … )+` of the code tokens, starts at the location
of the keyword `def` (`toks[p]`), carries the text of the Name token `toks[p + 1]`, ends just past a
code token `toks[e - 1]` behind the header, and has `1 ≤ len ≤` the number of distinct lines of
`toks[p..e)`. -/
theorem measurement_is_defHeader (all : List Tok) (ms : List Measurement)
    (h : scanFile Gen.python all = .ok ms) (toks : List Tok)
    (htoks : toks = filterTokens false all)
    (hpos : toks.Pairwise (fun a b => a.line < b.line ∨ (a.line = b.line ∧ a.col < b.col))) :
    ∀ m ∈ ms, ∃ p f e kw t last, DefHeader toks p f ∧
      toks[p]? = some kw ∧ (m.sl, m.sc) = (kw.line, kw.col) ∧
      toks[p + 1]? = some t ∧ m.name = t.val ∧
      f < e ∧ e ≤ toks.length ∧ toks[e - 1]? = some last ∧ (m.el, m.ec) = last.endPos ∧
      1 ≤ m.len ∧ m.len ≤ countDistinct (((toks.drop p).take (e - p)).map (·.line)) := by
  subst htoks
  intro m hm
  obtain ⟨hs, hd, e, first, last, hhs, hhd, h1, h2, h3, h4, h5, h6, h7, h8, h9⟩ :=
    Compose.measurement_from_header_full Gen.python python_shipped all (.inr hpos) h m hm
  obtain ⟨s1, s2⟩ := python_header_sound _ hs hhs hd hhd
  exact ⟨hd.rng.s, hd.rng.e, e, first, hd.name, last, s1, h3, h5, s2, h6, h1, h2, h4, h7, h8, h9⟩

/-- the tokens of `def f ( a = g ( 1 ) ) : pass` -/
def callToks : List Tok :=
  [kwT [100, 101, 102] 1 1, nmT [102] 1 5, puT [40] 1 6, nmT [97] 1 7, opT [61] 1 9,
   nmT [103] 1 11, puT [40] 1 12, ⟨0, 0, [49], 1, 13⟩, puT [41] 1 14, puT [41] 1 15, puT [58] 1 16,
   kwT [112, 97, 115, 115] 1 18]

/-- **A call in a default value is harmless for Python.**  In `def f ( a = g ( 1 ) ) : pass` the
parameter list contains the call-shaped group `g ( 1 )` (a syntactic header of the C family at
index 5, the situation of known finding KF1 / F11 in which C loses the function).  The
hypotheses of `python_header_complete` hold for `[0, 10)` (they do not mention `Name (`), and
`extract_headers` reports exactly `f`. -/
theorem call_in_default_is_harmless :
    DefHeader callToks 0 10 ∧ SynHeader callToks 5 9 ∧ 10 < callToks.length ∧
    (∀ q, 0 < q → q + 3 < 10 →
      ¬ (KeywordAt callToks q defStr ∧ NameAt callToks (q + 1) ∧ OpenAt callToks (q + 2))) ∧
    extractHeaders Gen.python callToks = .ok [⟨nmT [102] 1 5, ⟨0, 10⟩⟩] := by
  refine ⟨by decide, by decide, by decide, ?_, okEq_sound (by decide +kernel)⟩
  · intro q h1 h2
    have : q = 1 ∨ q = 2 ∨ q = 3 ∨ q = 4 ∨ q = 5 ∨ q = 6 := by omega
    rcases this with rfl | rfl | rfl | rfl | rfl | rfl <;> decide

/-- the same through the theorem: its conclusion agrees with the evaluation -/
example : ∃ hd ∈ ([⟨nmT [102] 1 5, ⟨0, 10⟩⟩] : List Header), hd.rng = ⟨0, 10⟩ ∧
    callToks[0 + 1]? = some hd.name := by
  obtain ⟨h1, _, h3, h5, h6⟩ := call_in_default_is_harmless
  obtain ⟨hd, hhd, hr, hn, _⟩ := python_header_complete callToks _ h6 0 10 h1 h3 h5
  exact ⟨hd, hhd, hr, hn⟩

/-- the tokens `def h ( def ) ( x ) :` in which the FIFTH token `)` is a NAME token -/
def nameCloseToks : List Tok :=
  [kwT [100, 101, 102] 1 1, nmT [104] 1 5, puT [40] 1 6, kwT [100, 101, 102] 1 7, nmT [41] 1 11,
   puT [40] 1 12, nmT [120] 1 13, puT [41] 1 14, puT [58] 1 15]

/-- the completeness clause WITHOUT any hypothesis on the text of the name token -/
def CompletenessWithoutNameText : Prop :=
  ∀ (toks : List Tok) (hs : List Header) (p f : Nat), extractHeaders Gen.python toks = .ok hs →
    DefHeader toks p f → f < toks.length →
    (∀ q, p < q → q + 3 < f →
      ¬ (KeywordAt toks q defStr ∧ NameAt toks (q + 1) ∧ OpenAt toks (q + 2))) →
    ∃ hd ∈ hs, hd.rng = ⟨p, f⟩

/-- **No hypothesis on the text of the name token is needed.**  (Before the repair of defect
F25 - `Balanced` compared token TEXTS - this clause was FALSE: `nameCloseToks` was the
counterexample, a NAME token with the text `)` closed a group of an earlier attempt.  With
`Symbol("(")` / `Symbol(")")` only punctuation tokens open and close groups.) -/
theorem completeness_without_name_text_holds : CompletenessWithoutNameText := by
  intro toks hs p f hex hdef hlt hnodef
  obtain ⟨hd, hhd, hr, _⟩ := python_header_complete toks hs hex p f hdef hlt hnodef
  exact ⟨hd, hhd, hr⟩

/-- **The former counterexample, now a regression check.**  In `def h ( def ) ( x ) :` with the
first `)` being a NAME token, that token is an ordinary token inside the group opened at index 2:
the attempt from the first `def` is still at depth 1 after the last `)` and runs to the end of the
input (`[0, 9)`), while `[3, 8)` = `def ) ( x )` is a `def` header followed by `:` - and it IS
reported (before the repair only `[0, 8)` was reported).  (No Pygments lexer emits a name token
with the text `)`; the check concerns the matcher on arbitrary token lists.) -/
theorem name_token_close_is_ordinary :
    DefHeader nameCloseToks 0 9 ∧ ¬ DefHeader nameCloseToks 0 8 ∧ DefHeader nameCloseToks 3 8 ∧
    8 < nameCloseToks.length ∧
    (∀ q, 3 < q → q + 3 < 8 → ¬ (KeywordAt nameCloseToks q defStr ∧ NameAt nameCloseToks (q + 1) ∧
      OpenAt nameCloseToks (q + 2))) ∧
    extractHeaders Gen.python nameCloseToks = .ok [⟨nmT [41] 1 11, ⟨3, 8⟩⟩] := by
  refine ⟨by decide, by decide, by decide, by decide, ?_, okEq_sound (by decide +kernel)⟩
  intro q h1 h2
  have : q = 4 := by omega
  subst this
  decide

/-- the tokens `def h ( def f ( x )` followed by the end of the input -/
def unclosedToks : List Tok :=
  [kwT [100, 101, 102] 1 1, nmT [104] 1 5, puT [40] 1 6, kwT [100, 101, 102] 1 7, nmT [102] 1 11,
   puT [40] 1 12, nmT [120] 1 13, puT [41] 1 14]

/-- **The hypothesis `hlt` (a token follows the header) cannot be dropped.**  In
`def h ( def f ( x )` followed by the end of the input both `[0, 8)` and `[3, 8)` are `def`
headers; they finish together at the end of the input, the earlier start is committed first,
and `def f ( x )` is not reported. -/
theorem completeness_at_end_of_input_witness :
    DefHeader unclosedToks 3 8 ∧ DefHeader unclosedToks 0 8 ∧ unclosedToks.length = 8 ∧
    (∀ q, 3 < q → q + 3 < 8 → ¬ (KeywordAt unclosedToks q defStr ∧ NameAt unclosedToks (q + 1) ∧
      OpenAt unclosedToks (q + 2))) ∧
    extractHeaders Gen.python unclosedToks = .ok [⟨nmT [104] 1 5, ⟨0, 8⟩⟩] := by
  refine ⟨by decide, by decide, rfl, ?_, okEq_sound (by decide +kernel)⟩
  intro q h1 h2
  have : q = 4 := by omega
  subst this
  decide

/-- **Completeness WITHOUT the hypothesis "a token follows the header" is false** (the negation,
from `completeness_at_end_of_input_witness`). -/
theorem completeness_at_end_of_input_fails :
    ¬ ∀ (toks : List Tok) (hs : List Header) (p f : Nat),
      extractHeaders Gen.python toks = .ok hs → DefHeader toks p f →
      (∀ q, p < q → q + 3 < f →
        ¬ (KeywordAt toks q defStr ∧ NameAt toks (q + 1) ∧ OpenAt toks (q + 2))) →
      ∃ hd ∈ hs, hd.rng = ⟨p, f⟩ := by
  intro h
  obtain ⟨h1, _, _, h4, h5⟩ := completeness_at_end_of_input_witness
  obtain ⟨hd, hhd, hr⟩ := h _ _ 3 8 h5 h1 h4
  rw [List.mem_singleton] at hhd
  subst hhd
  cases hr

/-! ## Part 2: indentation trees -/

theorem map_some_injective {α : Type} {a b : List α} (h : a.map some = b.map some) : a = b := by
  simpa using congrArg (List.filterMap id) h

/-- **The renderer assigns strictly increasing locations**, whatever the line breaks and blank
columns of the tokens are. -/
theorem render_pos_sorted (t : PyProg PTok) : PosSorted (pyRender t) := by
  rw [pyRender_eq]; exact posSorted_place _ _

/-- the rendering lays out the token sequence of the forest: same tokens (kind, type, text), in
the same order -/
theorem render_tokens (t : PyProg PTok) :
    (pyRender t).map (fun x => (x.kind, x.ty, x.val))
      = t.flat.map (fun x => (x.kind, x.ty, x.val)) := by
  rw [pyRender_eq]; exact place_map _ _

/-- line numbers: a token stands `nl` lines below its predecessor (`nl = 0`: on the same line),
so every statement of a well-formed forest begins on a new physical line and line numbers never
decrease; a token that follows a line break stands in column `1 + col` -/
theorem render_lines (t : PyProg PTok) (j : Nat) (h : j + 1 < t.flat.length) :
    lineNo (pyRender t) (j + 1) = lineNo (pyRender t) j + nlAt t.flat (j + 1) ∧
    (nlAt t.flat (j + 1) ≠ 0 → colNo (pyRender t) (j + 1) = 1 + colAt t.flat (j + 1)) := by
  rw [pyRender_eq]
  exact ⟨lineNo_place_succ h, colNo_place h⟩

/-- in the rendering of a well-formed forest the logical lines of the specification (`startsLine`,
which is what `_get_token_lines` computes: `C01py.token_lines_logical`) are the physical lines:
a token begins a logical line iff it follows a line break -/
theorem render_logical_lines {t : PyProg PTok} (hw : t.wf = true) (j : Nat)
    (h : j + 1 < t.flat.length) :
    startsLine (pyRender t) (j + 1) = (nlAt t.flat (j + 1) != 0) := by
  rw [pyRender_eq]
  exact startsLine_place (place_plain _ (PyProg.wf_iff.mp hw).2).1 h

/-- **The rendering of a well-formed forest is a canonical Python layout** (all clauses of
`PyLayout`) with the functions of the tree: header = the token range `def name ( … )`, body = the
token range of the suite. -/
theorem layout_of_pytree {t : PyProg PTok} (hw : t.wf = true) :
    PyLayout (pyRender t) (pyFnsOf t.located 0) :=
  pyLayout_of_tree hw

/-- the functions of a well-formed forest, as token ranges: in source order, each one
`def name ( … )` of at least three tokens, followed by at least one token, then a non-empty
suite; two functions are disjoint or nested, and a suite never ends inside a header -/
theorem fns_of_pytree {t : PyProg PTok} (hw : t.wf = true) :
    (∀ f ∈ pyFnsOf t.located 0, f.hdr.rng.s + 3 ≤ f.hdr.rng.e ∧ f.hdr.rng.e < f.body.s ∧
      f.body.s < f.body.e ∧ f.body.e ≤ (pyRender t).length) ∧
    (pyFnsOf t.located 0).Pairwise (fun f g => f.body.s ≤ g.hdr.rng.s) ∧
    (pyFnsOf t.located 0).Pairwise (fun f g => f.body.e ≤ g.hdr.rng.s ∨ g.body.e ≤ f.body.e) := by
  have hI := pinv_tree (PyProg.wf_iff.mp hw).1 (0, 0)
  refine ⟨fun f hf => ?_, hI.fs, hI.lam⟩
  have := hI.fb f hf
  rw [pyRender_eq, length_place]
  exact ⟨this.2.1, this.2.2.1, this.2.2.2.1, this.2.2.2.2⟩

/-- **Header discovery on a well-formed forest.**  `extract_headers` of Python, run on the
rendering, returns exactly the headers `def name ( … )` of the function nodes of the tree, each
with its name token, in source order: every function is found, nothing else is. -/
theorem headers_of_pytree {t : PyProg PTok} (hw : t.wf = true) :
    extractHeaders Gen.python (pyRender t) = .ok ((pyFnsOf t.located 0).map (·.hdr)) :=
  extract_tree hw

/-- the `def` headers of the rendering are exactly the header ranges of the function nodes -/
theorem defHeaders_of_pytree {t : PyProg PTok} (hw : t.wf = true) (p f : Nat) :
    DefHeader (pyRender t) p f ↔ ∃ g ∈ pyFnsOf t.located 0, g.hdr.rng = ⟨p, f⟩ := by
  have hh := headers_of_pytree hw
  constructor
  · intro hd
    -- the keyword `def` occurs only at the first token of a function node's header
    have h1 := (PyProg.wf_iff.mp hw).1
    have hd' := hd
    rw [pyRender_eq, defHeader_place] at hd'
    have hq : p < t.flat.length := by
      obtain ⟨x, hx, _⟩ := hd'.1
      simpa using (List.getElem?_eq_some_iff.mp hx).1
    obtain ⟨r, hr, hrs⟩ := defKw_tree t 0 _ 0 h1 (Seg.self _) p (Nat.zero_le _)
      (by rw [Nat.zero_add, ← PyProg.size_eq]; exact hq) hd'.1
    have hdr := defHeader_tree t 0 _ 0 h1 (Seg.self _) r hr
    rw [← pyRanges_locate t (0, 0)] at hr
    obtain ⟨g, hg, hg1, _⟩ := exists_fn_of_range hr
    refine ⟨g, hg, ?_⟩
    rw [hrs] at hdr
    have he := hd'.finish_unique hdr
    rw [hg1]
    cases r with
    | mk a b => cases a; simp only at hrs he ⊢; rw [hrs, he]
  · rintro ⟨g, hg, hgr⟩
    obtain ⟨hd, hhd, hr⟩ : ∃ hd ∈ (pyFnsOf t.located 0).map (·.hdr), hd.rng = ⟨p, f⟩ :=
      ⟨g.hdr, List.mem_map_of_mem hg, hgr⟩
    have := (python_header_sound _ _ hh hd hhd).1
    rw [hr] at this
    exact this

/-- **The expected report of the index-level specification is the tree report.**  For every
function node, in preorder: `expected` of `Spec/Layout.lean` (name, location of the first header
token, location just past the last token of the body, number of distinct lines of the tokens of
the function whose index lies in no nested function) is the entry of `pyTreeReport` (text of the
name token, location of the `def` token, location just past the last token of the suite, number
of distinct lines of `def name ( … )`, the tokens after the parameter list and the suite tokens
outside nested function nodes). -/
theorem expected_of_pytree {t : PyProg PTok} (hw : t.wf = true) :
    (pyFnsOf t.located 0).map (expected (pyRender t) (pyFnsOf t.located 0))
      = (pyTreeReport t.located).map some :=
  expected_pytree (by
    rw [PyProg.located, PyProg.shapeOK_locate]
    exact shape_of_wfAt t _ _ (PyProg.wf_iff.mp hw).1) (layout_of_pytree hw).nested

/-- **C01 for Python, from the tree to the report.**  Let `t` be a well-formed forest and `all` a
token list whose code tokens are the rendering of `t` (comments and whitespace may be
interspersed) in which no function is marked with a suppression comment.  Then `scan_file`
succeeds and returns exactly the tree report: every function node once, in source order, under
its own name, from its `def` token (not `async`, not a decorator) to just past the last token of
its suite, with the number of distinct physical lines of its own tokens.  No hypothesis about
the matcher, the blocks or the scopes is left. -/
theorem scan_of_pytree_all {t : PyProg PTok} (hw : t.wf = true) {all : List Tok}
    (hcode : filterTokens false all = pyRender t)
    (hm : ∀ f ∈ pyFnsOf t.located 0, ¬ Marked all f.hdr.name.line) :
    scanFile Gen.python all = .ok (pyTreeReport t.located) := by
  obtain ⟨ms, h1, h2⟩ := C01py.scan_of_pyLayout_python hcode (headers_of_pytree hw)
    (layout_of_pytree hw) hm
  rw [expected_of_pytree hw] at h2
  rw [h1, map_some_injective h2]

/-- **C01 for Python on the rendering itself: unconditional for well-formed forests.** -/
theorem scan_of_pytree {t : PyProg PTok} (hw : t.wf = true) :
    scanFile Gen.python (pyRender t) = .ok (pyTreeReport t.located) := by
  have hc : (pyRender t).all Tok.isCode = true := by
    rw [pyRender_eq]; exact (place_plain _ (PyProg.wf_iff.mp hw).2).2
  exact scan_of_pytree_all hw (filterTokens_of_allCode hc) (fun _ _ => not_marked_of_allCode hc _)

/-! ## Part 3: comments and suppression markers (C04 / C17 for Python trees)

The tokens of an indentation tree are code tokens; comments stand in the token list `all` of the
file (anywhere: own lines at any indentation, trailing), and any of them may be a suppression
marker.  `noclLines all` = the lines that carry a marker; `PyProg.dissolve lines` turns every `def`
node whose NAME token stands on one of the lines into an ordinary compound statement (same tokens,
no function any more); `pyMarkedReport t all` = the tree report of the dissolved located forest
(`Spec/PyTree.lean`). -/

/-- **C01 + C17 + C04 for Python trees: `scan_file` on a file with comments and markers.**  Let `t`
be a well-formed forest and `all` ANY token list whose code tokens are the rendering of `t`
(comments and whitespace tokens anywhere, any of the comments a suppression marker).  Then
`scan_file` succeeds and returns `pyMarkedReport t all`: every `def` node whose name does not stand
on a marked line, in source order, from its `def` token to just past its suite, with the number of
distinct lines of its own code tokens; the code tokens of a suppressed function count for the
nearest enclosing function that is left, and the functions nested in it are re-parented.  No
hypothesis about the matcher. -/
theorem scan_of_pytree_marked {t : PyProg PTok} (hw : t.wf = true) {all : List Tok}
    (hcode : filterTokens false all = pyRender t) :
    scanFile Gen.python all = .ok (pyMarkedReport t all) :=
  scan_pytree_marked hw hcode

/-- without a marker on a name line the report is the tree report (`scan_of_pytree_all` is the
special case) -/
theorem pyMarkedReport_unmarked {t : PyProg PTok} {all : List Tok}
    (hm : ∀ f ∈ pyFnsOf t.located 0, ¬ Marked all f.hdr.name.line) :
    pyMarkedReport t all = pyTreeReport t.located := by
  unfold pyMarkedReport
  have hno : ∀ x ∈ t.located.nameToks, (noclLines all).contains x.line = false := by
    intro x hx
    rw [← pyFnsOf_names t.located 0] at hx
    obtain ⟨f, hf, rfl⟩ := List.mem_map.1 hx
    have := hm f hf
    rw [← contains_noclLines_iff] at this
    simpa [noclLines] using this
  rw [pyDissolve_of_not_named _ _ hno]

/-- **C17 for Python, "omitted exactly when", on the OUTPUT.**  `scan_file` succeeds; its entries
correspond one to one, in order, to the `def` nodes of the forest whose NAME token stands on a line
WITHOUT a marker comment, and every entry carries the text of the name token of its node. -/
theorem reported_functions_py {t : PyProg PTok} (hw : t.wf = true) {all : List Tok}
    (hcode : filterTokens false all = pyRender t) :
    scanFile Gen.python all
      = .ok ((pyTreeReportNamed (t.located.dissolve (noclLines all))).map (·.2)) ∧
    (pyTreeReportNamed (t.located.dissolve (noclLines all))).map (·.1)
      = t.located.nameToks.filter (fun x => !(noclLines all).contains x.line) ∧
    ∀ x ∈ pyTreeReportNamed (t.located.dissolve (noclLines all)), x.2.name = x.1.val :=
  ⟨by rw [scan_of_pytree_marked hw hcode, pyTreeReportNamed_snd]; rfl,
   by rw [pyTreeReportNamed_fst, nameToks_pyDissolve], pyTreeReportNamed_name _⟩

/-- a line is marked iff it carries a comment token whose text is a suppression marker -/
theorem noclLines_iff (all : List Tok) (l : Nat) :
    l ∈ noclLines all ↔ ∃ c ∈ all, c.isComment = true ∧ isNoclText c.val = true ∧ c.line = l := by
  rw [noclLines, ← marked_iff_mem_lines]
  rfl

/-- **C04 for Python trees: comments that do not move the code are invisible.**  Two token lists
with the same code tokens (the rendering of `t`: every code token at the same location - comments
and whitespace tokens inserted or deleted anywhere, e.g. trailing comments or comment-only lines
where a blank line was) and the same marked-ness of the name lines give the same analysis.
(Insertions that MOVE code lines: the token-level theorems `C04.scanFile_insert_lines`,
`C04.scanFile_editInvisible` hold for Python, too.) -/
theorem comments_in_place_invisible_py {t : PyProg PTok} (hw : t.wf = true) {all all' : List Tok}
    (hcode : filterTokens false all = pyRender t) (hcode' : filterTokens false all' = pyRender t)
    (hmark : ∀ x ∈ t.located.nameToks,
      (noclLines all').contains x.line = (noclLines all).contains x.line) :
    scanFile Gen.python all' = scanFile Gen.python all := by
  rw [scan_of_pytree_marked hw hcode, scan_of_pytree_marked hw hcode']
  unfold pyMarkedReport
  rw [pyDissolve_congr_names _ hmark]

/-- **C17 for Python, toggling a marker.**  `all'` has the same code tokens as `all` and one more
marked line `l` (a marker comment added where it does not move the code, e.g. trailing); no
function named on line `l` is inside another (reported) function.  Then the report for `all'` is
the report for `all` without the entries of the functions named on line `l`: every other function
keeps its name, span and length and its place in the report.  (A function that IS nested: its
lines then count for the enclosing function, as `pyMarkedReport` says.) -/
theorem toggle_marker_py {t : PyProg PTok} (hw : t.wf = true) {all all' : List Tok} {l : Nat}
    (hcode : filterTokens false all = pyRender t) (hcode' : filterTokens false all' = pyRender t)
    (hmark : ∀ x, x ∈ noclLines all' ↔ x ∈ noclLines all ∨ x = l)
    (hind : (t.located.dissolve (noclLines all)).notNestedOn l = true) :
    scanFile Gen.python all
      = .ok ((pyTreeReportNamed (t.located.dissolve (noclLines all))).map (·.2)) ∧
    scanFile Gen.python all'
      = .ok (((pyTreeReportNamed (t.located.dissolve (noclLines all))).filter
          (fun x => decide (x.1.line ≠ l))).map (·.2)) := by
  refine ⟨(reported_functions_py hw hcode).1, ?_⟩
  rw [scan_of_pytree_marked hw hcode']
  unfold pyMarkedReport
  have he : t.located.dissolve (noclLines all')
      = (t.located.dissolve (noclLines all)).dissolve [l] := by
    rw [pyDissolve_dissolve]
    apply pyDissolve_congr_names
    intro x _
    rw [Bool.eq_iff_iff]
    simp only [List.contains_iff_mem, List.mem_append, List.mem_singleton]
    rw [hmark x.line]
    exact or_comm
  rw [he, py_toggle_named l _ hind, pyTreeReportNamed_snd]

/-! ## forests as lists of rose-tree nodes -/

/-- **Forests are lists of nodes.**  `PyProg` encodes a forest by "first statement, remaining
siblings"; the rose-tree presentation `List (PyNode α)` (a simple statement, a compound statement
with the list of statements of its suite, a function definition with the list of statements of
its suite) is the same thing: the two translations are mutually inverse.  Every theorem of this
file about all `t : PyProg α` is therefore a theorem about all lists of nodes. -/
theorem forests_are_node_lists {α : Type} :
    (∀ p : PyProg α, PyProg.ofNodes p.toNodes = p) ∧
    (∀ ns : List (PyNode α), (PyProg.ofNodes ns).toNodes = ns) :=
  ⟨PyProg.ofNodes_toNodes, PyProg.toNodes_ofNodes⟩

/-- C01 for a list of rose-tree nodes -/
theorem scan_of_pynodes (ns : List (PyNode PTok)) (hw : (PyProg.ofNodes ns).wf = true) :
    scanFile Gen.python (pyRender (PyProg.ofNodes ns))
      = .ok (pyTreeReport (PyProg.ofNodes ns).located) :=
  scan_of_pytree hw

/-! ## non-vacuity: a concrete forest -/

namespace Ex

/-- a token without line number whose type id is its kind -/
def pt (k : Nat) (v : Str) (nl col : Nat) : PTok := ⟨k, k, v, nl, col⟩

/-- The tokens (kinds, texts, line breaks and blank columns) are those the Pygments lexer emits
for this source, so that the rendering has the real line and column numbers:
```
 1  class A:                       a class (block) with a decorator line and two methods
 2      @d
 3      def m1(self):
 4          return 1
 5
 6      async def m2(self,         `async def`, header over three physical lines,
 7              b = g(1)           a call in a default value,
 8      ) -> int:                  `) -> int:` at the column of `async`
 9          x = g(                 a statement over three physical lines, closed at its own
10              1,                 indentation
11          )
12          return x
13
14  def f():
15      def g():                   nested def, NOT the last statement
16          """d                   a docstring over two lines: ONE token
17  m"""
18          pass
19      y = 2                      belongs to `f` again
20      if y:                      an `if` suite containing a def
21          def h(a,               header continued on a line that is indented LESS than `def h`
22    b):                          (but deeper than the enclosing `def f`)
23              pass
24      def k():                   nested def as LAST statement: `f` and `k` end at the same token
25          return 3
26
27  z = 1
```
-/
def tree : PyProg PTok :=
  .block [pt 1 [99, 108, 97, 115, 115] 1 0, pt 2 [65] 0 5, pt 3 [58] 0 0]
      (.line [pt 2 [64, 100] 1 4] <|
       .defn [] (pt 1 [100, 101, 102] 1 4) (pt 2 [109, 49] 0 3)
           [pt 3 [40] 0 1, pt 2 [115, 101, 108, 102] 0 0, pt 3 [41] 0 3] [pt 3 [58] 0 0]
           (.line [pt 1 [114, 101, 116, 117, 114, 110] 1 8, pt 0 [49] 0 6] .nil) <|
       .defn [pt 1 [97, 115, 121, 110, 99] 2 4] (pt 1 [100, 101, 102] 0 5) (pt 2 [109, 50] 0 3)
           [pt 3 [40] 0 1, pt 2 [115, 101, 108, 102] 0 0, pt 3 [44] 0 3, pt 2 [98] 1 12,
            pt 4 [61] 0 1, pt 2 [103] 0 1, pt 3 [40] 0 0, pt 0 [49] 0 0, pt 3 [41] 0 0,
            pt 3 [41] 1 4] [pt 4 [45] 0 1, pt 4 [62] 0 0, pt 2 [105, 110, 116] 0 1, pt 3 [58] 0 2]
           (.line [pt 2 [120] 1 8, pt 4 [61] 0 1, pt 2 [103] 0 1, pt 3 [40] 0 0, pt 0 [49] 1 12,
            pt 3 [44] 0 0, pt 3 [41] 1 8] <|
            .line [pt 1 [114, 101, 116, 117, 114, 110] 1 8, pt 2 [120] 0 6] .nil) .nil) <|
  .defn [] (pt 1 [100, 101, 102] 2 0) (pt 2 [102] 0 3)
      [pt 3 [40] 0 0, pt 3 [41] 0 0] [pt 3 [58] 0 0]
      (.defn [] (pt 1 [100, 101, 102] 1 4) (pt 2 [103] 0 3)
           [pt 3 [40] 0 0, pt 3 [41] 0 0] [pt 3 [58] 0 0]
           (.line [pt 7 [34, 34, 34, 100, 10, 109, 34, 34, 34] 1 8] <|
            .line [pt 1 [112, 97, 115, 115] 2 8] .nil) <|
       .line [pt 2 [121] 1 4, pt 4 [61] 0 1, pt 0 [50] 0 1] <|
       .block [pt 1 [105, 102] 1 4, pt 2 [121] 0 2, pt 3 [58] 0 0]
           (.defn [] (pt 1 [100, 101, 102] 1 8) (pt 2 [104] 0 3)
                [pt 3 [40] 0 0, pt 2 [97] 0 0, pt 3 [44] 0 0, pt 2 [98] 1 2, pt 3 [41] 0 0]
                 [pt 3 [58] 0 0]
                (.line [pt 1 [112, 97, 115, 115] 1 12] .nil) .nil) <|
       .defn [] (pt 1 [100, 101, 102] 1 4) (pt 2 [107] 0 3)
           [pt 3 [40] 0 0, pt 3 [41] 0 0] [pt 3 [58] 0 0]
           (.line [pt 1 [114, 101, 116, 117, 114, 110] 1 8, pt 0 [51] 0 6] .nil) .nil) <|
  .line [pt 2 [122] 2 0, pt 4 [61] 0 1, pt 0 [49] 0 1] .nil

/-- the forest is well-formed (decided in the kernel) -/
theorem tree_wf : tree.wf = true := by decide +kernel

/-- the report read off the tree (these are the numbers the real `scan_file` prints for the
source above): `m2` starts at `def` (6:11, not at `async` 6:5) and has 7 lines; `f` has 3 own
lines (14, 19, 20) and ends with `k` at 25:17; `g` has 3 (15, 16, 18): the docstring token
begins on line 16 only -/
def report : List Measurement :=
  [⟨[109, 49], 3, 5, 4, 17, 2⟩, ⟨[109, 50], 6, 11, 12, 17, 7⟩, ⟨[102], 14, 1, 25, 17, 3⟩,
   ⟨[103], 15, 5, 18, 13, 3⟩, ⟨[104], 21, 9, 23, 17, 3⟩, ⟨[107], 24, 5, 25, 17, 2⟩]

theorem tree_report : pyTreeReport tree.located = report := by decide +kernel

/-- the functions of the tree as token ranges (header start, header end, suite start, suite end):
`f` = tokens 38-71 and `k` = tokens 65-71 end together -/
example : (pyFnsOf tree.located 0).map (fun f => (f.hdr.rng.s, f.hdr.rng.e, f.body.s, f.body.e))
    = [(4, 9, 10, 12), (13, 25, 29, 38), (38, 42, 43, 72), (43, 47, 48, 50), (56, 63, 64, 65),
       (65, 69, 70, 72)] := by decide +kernel

/-- **the theorem applies**: `scan_file` on the rendering returns the tree report -/
theorem tree_scan : scanFile Gen.python (pyRender tree) = .ok report := by
  rw [← tree_report]; exact scan_of_pytree tree_wf

/-- and its conclusion agrees with the independent evaluation of `scan_file` in the kernel -/
example : scanFile Gen.python (pyRender tree) = .ok report := scanFile_eval (by decide +kernel)

/-- the variant with interspersed comments applies too: a trailing comment line `# x` -/
example : scanFile Gen.python (pyRender tree ++ [cmT [35, 32, 120] 28 1]) = .ok report := by
  rw [← tree_report]
  exact scan_of_pytree_all tree_wf (by decide +kernel) (by decide +kernel)

/-- header discovery on the example, by the theorem and by evaluation -/
example : extractHeaders Gen.python (pyRender tree)
    = .ok ((pyFnsOf tree.located 0).map (·.hdr)) := headers_of_pytree tree_wf

example : extractHeaders Gen.python (pyRender tree)
    = .ok ((pyFnsOf tree.located 0).map (·.hdr)) := okEq_sound (by decide +kernel)

/-- the layout of the example, by the theorem and by evaluation of the decidable `PyLayout` -/
example : PyLayout (pyRender tree) (pyFnsOf tree.located 0) := layout_of_pytree tree_wf

example : PyLayout (pyRender tree) (pyFnsOf tree.located 0) := by decide +kernel

/-! ### comments and markers on the example

The file above with three comments: `#NOCL x` behind `def m1(self):` (line 3), `# nocl` behind
`def g():` (line 15, `g` is nested in `f`), and the decoy `# see nocl` behind `def k():` (line 24). -/

/-- the token list of the file with the three comments (comment tokens may stand anywhere in the
list: `filter_tokens` drops them, the marker lines are read off their locations) -/
def allMarked : List Tok :=
  pyRender tree ++ [cmT [35, 32, 110, 111, 99, 108] 15 20, cmT [35, 78, 79, 67, 76, 32, 120] 3 30,
    cmT [35, 32, 115, 101, 101, 32, 110, 111, 99, 108] 24 20]

/-- the marked lines are 15 and 3 (the decoy on line 24 is no marker) -/
theorem allMarked_lines : noclLines allMarked = [15, 3] ∧
    filterTokens false allMarked = pyRender tree := by decide +kernel

/-- **Part 3 applies**: `m1` and `g` are omitted; the 3 own lines of the suppressed `g` (15, 16, 18)
count for `f`, which now has 6; `h` and `k` keep their entries - these are the numbers the real
`scan_file` returns for the file, and the kernel evaluation of the model agrees -/
theorem allMarked_scan : scanFile Gen.python allMarked
    = .ok [⟨[109, 50], 6, 11, 12, 17, 7⟩, ⟨[102], 14, 1, 25, 17, 6⟩, ⟨[104], 21, 9, 23, 17, 3⟩,
           ⟨[107], 24, 5, 25, 17, 2⟩] := by
  rw [scan_of_pytree_marked tree_wf allMarked_lines.2]
  decide +kernel

example : scanFile Gen.python allMarked
    = .ok [⟨[109, 50], 6, 11, 12, 17, 7⟩, ⟨[102], 14, 1, 25, 17, 6⟩, ⟨[104], 21, 9, 23, 17, 3⟩,
           ⟨[107], 24, 5, 25, 17, 2⟩] := scanFile_eval (by decide +kernel)

/-- the same file without the marker on line 3 -/
def allMarked0 : List Tok :=
  pyRender tree ++ [cmT [35, 32, 110, 111, 99, 108] 15 20,
    cmT [35, 32, 115, 101, 101, 32, 110, 111, 99, 108] 24 20]

/-- **the toggle theorem applies** to line 3 (`m1` is a method of a class, not nested in a
function): adding the marker removes exactly the entry of `m1` -/
theorem allMarked_toggle :
    scanFile Gen.python allMarked0
      = .ok [⟨[109, 49], 3, 5, 4, 17, 2⟩, ⟨[109, 50], 6, 11, 12, 17, 7⟩, ⟨[102], 14, 1, 25, 17, 6⟩,
             ⟨[104], 21, 9, 23, 17, 3⟩, ⟨[107], 24, 5, 25, 17, 2⟩] ∧
    scanFile Gen.python allMarked
      = .ok [⟨[109, 50], 6, 11, 12, 17, 7⟩, ⟨[102], 14, 1, 25, 17, 6⟩, ⟨[104], 21, 9, 23, 17, 3⟩,
             ⟨[107], 24, 5, 25, 17, 2⟩] := by
  have h := toggle_marker_py (t := tree) (all := allMarked0) (all' := allMarked) (l := 3) tree_wf
    (by decide +kernel) allMarked_lines.2
    (by
      intro x
      have h0 : noclLines allMarked0 = [15] := by decide +kernel
      rw [allMarked_lines.1, h0]
      simp only [List.mem_cons, List.not_mem_nil, or_false])
    (by decide +kernel)
  refine ⟨h.1.trans ?_, h.2.trans ?_⟩ <;> decide +kernel

/-! ### the well-formedness conditions matter

To ISOLATE a clause of `PyProg.wf`, `wfAtP same cont` is `PyProg.wfAt` with two switches:
`same = false` weakens "all statements of a suite have ONE indentation" to "every statement is
indented at least as deep as the first one"; `cont = false` drops "a continuation line is indented
deeper than the header line of the innermost enclosing function".  `wfAtP true true` IS `wfAt`
(`wfAtP_eq`). -/

/-- `pyStmtAt` with the two switches -/
def pyStmtAtP (same cont : Bool) (c lim : Nat) : List PTok → Bool
  | [] => false
  | t :: ts => t.nl != 0 && (if same then t.col == c else decide (c ≤ t.col))
      && ts.all (fun u => u.nl == 0 || !cont || decide (lim ≤ u.col))

/-- `pyLineAt` with the first switch -/
def pyLineAtP (same : Bool) (c : Nat) : List PTok → Bool
  | [] => false
  | t :: ts => t.nl != 0 && (if same then t.col == c else decide (c ≤ t.col))
      && ts.all (·.nl == 0)

/-- `PyProg.wfAt` with the two switches -/
def wfAtP (same cont : Bool) (c lim : Nat) : PyProg PTok → Bool
  | .nil => true
  | .line toks rest =>
    pyStmtAtP same cont c lim toks && pyNoDef toks && wfAtP same cont c lim rest
  | .block head suite rest =>
    pyStmtAtP same cont c lim head && pyNoDef head && !suite.isNil && decide (c < suite.col)
      && wfAtP same cont suite.col lim suite && wfAtP same cont c lim rest
  | .defn pre kw name params post suite rest =>
    pyLineAtP same c (pre ++ [kw]) && pyNoDef pre && Syn.isDefTok kw.bare && name.bare.isName
      && !params.isEmpty && groupsExact (params.map PTok.bare) 0
      && (name :: params).all (fun t => t.nl == 0 || !cont || decide (lim ≤ t.col))
      && pyNoDef (name :: params)
      && !post.isEmpty && post.all (·.nl == 0) && pyNoDef post
      && !Syn.isOpen (post.headD default).bare
      && !suite.isNil && decide (c < suite.col) && wfAtP same cont suite.col (c + 1) suite
      && wfAtP same cont c lim rest

theorem pyStmtAtP_eq (c lim : Nat) (l : List PTok) : pyStmtAtP true true c lim l = pyStmtAt c lim l := by
  cases l <;> simp [pyStmtAtP, pyStmtAt]

theorem pyLineAtP_eq (c : Nat) (l : List PTok) : pyLineAtP true c l = pyLineAt c l := by
  cases l <;> simp [pyLineAtP, pyLineAt]

/-- with both switches on, `wfAtP` is `PyProg.wfAt` -/
theorem wfAtP_eq : ∀ (t : PyProg PTok) (c lim : Nat), wfAtP true true c lim t = t.wfAt c lim
  | .nil, _, _ => rfl
  | .line toks rest, c, lim => by
    simp only [wfAtP, PyProg.wfAt, pyStmtAtP_eq, wfAtP_eq rest]
  | .block head suite rest, c, lim => by
    simp only [wfAtP, PyProg.wfAt, pyStmtAtP_eq, wfAtP_eq suite, wfAtP_eq rest]
  | .defn pre kw name params post suite rest, c, lim => by
    simp only [wfAtP, PyProg.wfAt, pyLineAtP_eq, wfAtP_eq suite, wfAtP_eq rest, Bool.not_true,
      Bool.or_false]

/-- `PyProg.wf` with the two switches -/
def wfP (same cont : Bool) (t : PyProg PTok) : Bool :=
  wfAtP same cont t.col 0 t && t.flat.all PTok.plain

theorem wfP_eq (t : PyProg PTok) : wfP true true t = t.wf := by
  simp only [wfP, PyProg.wf, wfAtP_eq]


/-- a statement that follows a nested `def` but is indented DEEPER than that `def` (and less deep
than its suite):
```
1  def f():
2      def g():
3              pass
4        c
```
(the tree says: `c` is a statement of `f` after `g`).  Python's tokenizer rejects this file
(the dedent to column 7 matches no outer indentation level); the forest violates "all statements
of a suite have one indentation", and the analysis, which only compares each line with the
header line, takes `c` for a line of `g`: `g` is reported as lines 2-4 (so does the real code on
this text), the tree report says 2-3.  Without this condition the tree cannot be recovered from
the columns. -/
def skewTree : PyProg PTok :=
  .defn [] (pt 1 [100, 101, 102] 1 0) (pt 2 [102] 0 3)
      [pt 3 [40] 0 0, pt 3 [41] 0 0] [pt 3 [58] 0 0]
      (.defn [] (pt 1 [100, 101, 102] 1 4) (pt 2 [103] 0 3)
           [pt 3 [40] 0 0, pt 3 [41] 0 0] [pt 3 [58] 0 0]
           (.line [pt 1 [112, 97, 115, 115] 1 12] .nil) <|
       .line [pt 2 [99] 1 6] .nil) .nil

theorem same_indentation_witness :
    skewTree.wf = false ∧ wfP false true skewTree = true ∧
    scanFile Gen.python (pyRender skewTree)
      = .ok [⟨[102], 1, 1, 4, 8, 1⟩, ⟨[103], 2, 5, 4, 8, 3⟩] ∧
    pyTreeReport skewTree.located = [⟨[102], 1, 1, 4, 8, 2⟩, ⟨[103], 2, 5, 3, 17, 2⟩] :=
  ⟨by decide +kernel, by decide +kernel, scanFile_eval (by decide +kernel), by decide +kernel⟩

/-- **The clause "all statements of a suite have ONE indentation" is needed**: `scan_of_pytree`
with that clause weakened to "at least as deep as the first statement" (every other clause of
`PyProg.wf` kept: `wfP false true`) is FALSE; `skewTree` is the witness
(`same_indentation_witness`). -/
theorem same_indentation_needed :
    ¬ ∀ (t : PyProg PTok), wfP false true t = true →
      scanFile Gen.python (pyRender t) = .ok (pyTreeReport t.located) := by
  intro h
  obtain ⟨_, h2, h3, h4⟩ := same_indentation_witness
  have := h skewTree h2
  rw [h3, h4] at this
  revert this
  decide

/-- a continuation line of a nested header that is NOT indented deeper than the enclosing
function (the file of `C01py.shallow_header_line`, as a tree):
```
1  def g():
2      def f(a,
3  b):
4          pass
5      x = 1
6      return x
```
The forest violates the condition on continuation lines (`b` at indentation 0 inside `g`, whose
header line has indentation 0), and the analysis ends `g` at line 2 (so does the real code). -/
def shallowTree : PyProg PTok :=
  .defn [] (pt 1 [100, 101, 102] 1 0) (pt 2 [103] 0 3)
      [pt 3 [40] 0 0, pt 3 [41] 0 0] [pt 3 [58] 0 0]
      (.defn [] (pt 1 [100, 101, 102] 1 4) (pt 2 [102] 0 3)
           [pt 3 [40] 0 0, pt 2 [97] 0 0, pt 3 [44] 0 0, pt 2 [98] 1 0, pt 3 [41] 0 0]
            [pt 3 [58] 0 0]
           (.line [pt 1 [112, 97, 115, 115] 1 8] .nil) <|
       .line [pt 2 [120] 1 4, pt 4 [61] 0 1, pt 0 [49] 0 1] <|
       .line [pt 1 [114, 101, 116, 117, 114, 110] 1 4, pt 2 [120] 0 6] .nil) .nil

theorem deeper_continuation_witness :
    shallowTree.wf = false ∧ wfP true false shallowTree = true ∧
    pyTreeReport shallowTree.located = [⟨[103], 1, 1, 6, 13, 3⟩, ⟨[102], 2, 5, 4, 13, 3⟩] ∧
    scanFile Gen.python (pyRender shallowTree)
      = .ok [⟨[103], 1, 1, 2, 13, 2⟩, ⟨[102], 2, 5, 4, 13, 3⟩] :=
  ⟨by decide +kernel, by decide +kernel, by decide +kernel, scanFile_eval (by decide +kernel)⟩

/-- **The clause "a continuation line is indented deeper than the header line of the innermost
enclosing function" is needed**: `scan_of_pytree` with that clause dropped (every other clause of
`PyProg.wf` kept: `wfP true false`) is FALSE; `shallowTree` is the witness
(`deeper_continuation_witness`).  The file is legal Python. -/
theorem deeper_continuation_needed :
    ¬ ∀ (t : PyProg PTok), wfP true false t = true →
      scanFile Gen.python (pyRender t) = .ok (pyTreeReport t.located) := by
  intro h
  obtain ⟨_, h2, h3, h4⟩ := deeper_continuation_witness
  have := h shallowTree h2
  rw [h3, h4] at this
  revert this
  decide

end Ex
end CL.C01pyfull
