import CodeLimit.Lemmas.ScanBoundsWF
import CodeLimit.Lemmas.ScanEval
/-!
# C05 (model part) - every measurement is well-formed, measurements are in source order

"For any input whatsoever, each measurement has 1 <= start line <= end line <= number of lines of
the file and in-range columns, starts at the position of a code token and ends just past a code
token, carries as name the text of an identifier token lying inside its span, and has
1 <= length <= number of code-bearing lines of its span. A file's measurements are listed in
source order with pairwise distinct starts, and the file's line total is the sum of its function
lengths."

Model level: `L` is one of the seven shipped languages, `all` the token list produced by the
lexer, `code := filterTokens false all` the code tokens, `ms` with `scanFile L all = .ok ms`.

FULL STATEMENT (`MeasurementWF`, `Spec/Scan.lean`), for every `all`:

    ∀ m ∈ ms, ∃ i j k, i ≤ k ∧ k ≤ j ∧ j < code.length ∧
      (∃ ti, code[i]? = some ti ∧ (m.sl, m.sc) = (ti.line, ti.col)) ∧
      (∃ tj, code[j]? = some tj ∧ (m.el, m.ec) = tj.endPos) ∧
      (∃ tk, code[k]? = some tk ∧ tk.isName = true ∧ m.name = tk.val) ∧
      1 ≤ m.len ∧ m.len ≤ countDistinct (((code.drop i).take (j + 1 - i)).map (·.line))

It is FALSE in two ways:
* for token lists whose positions are not in source order (`measurement_wf_fails_unordered`: a
  TypeScript scope of length 0 that ends before it starts).  Lexer output is always in strictly
  increasing position order (property C16), so this is a limitation of the model-level
  statement only; all theorems below take that order as hypothesis `hpos`.
* for Python, on position-ordered tokens (`measurement_wf_fails_python`, reproduced on the real
  program): the name token can lie just outside a one-token span.

Proved: the full statement for the six brace languages (`measurement_wf_brace`) and the strongest
variant for all seven (`measurement_wf_partial`: the only failure is `i = j ∧ k = j + 1` in
Python); `line_order` (start before end), `source_order` (all seven languages, strictly
increasing starts), `total_is_sum`, `child_inside_parent`.  None of these theorems depends on the
assumed lemmas of `Lemmas/AssumedHeaders.lean` (they start from a successful `scanFile`; the
header facts they need are proved in `Lemmas/ScanBoundsHeaders.lean` /
`Lemmas/ScanBoundsHeaderStarts.lean` from C14 and decidable checks on the compiled patterns).
-/
namespace CL.C05

/-! ## what "code token" means -/

/-- every code token is neither whitespace nor a comment -/
theorem code_tokens (all : List Tok) :
    ∀ t ∈ filterTokens false all, t.isWhitespace = false ∧ t.isComment = false :=
  fun t ht => ⟨(filterTokens_code false all t ht).1, (filterTokens_code false all t ht).2 rfl⟩

/-! ## each measurement -/

/-- For EVERY token list (no assumption on positions): each measurement starts at the position of
a code token `i`, ends just past a code token `j`, carries the text of a name token at `i` or
`i + 1`, and its length is at most the number of distinct lines of tokens `i..j`.  (What can
fail without position order is `i ≤ j`, `k ≤ j` and `1 ≤ len`, see
`measurement_wf_fails_unordered`.) -/
theorem measurement_anchored (L : Language) (hL : L ∈ Gen.all.map (·.2)) (all : List Tok)
    (ms : List Measurement) (h : scanFile L all = .ok ms) :
    ∀ m ∈ ms, ∃ i j k, i ≤ k ∧ k ≤ i + 1 ∧ j < (filterTokens false all).length ∧
      (∃ ti, (filterTokens false all)[i]? = some ti ∧ (m.sl, m.sc) = (ti.line, ti.col)) ∧
      (∃ tj, (filterTokens false all)[j]? = some tj ∧ (m.el, m.ec) = tj.endPos) ∧
      (∃ tk, (filterTokens false all)[k]? = some tk ∧ tk.isName = true ∧ m.name = tk.val) ∧
      m.len ≤ countDistinct ((((filterTokens false all).drop i).take (j + 1 - i)).map (·.line)) :=
  scanFile_anchored L hL all h

/-- On position-ordered code tokens every measurement starts at the position of a code token
`i`, ends just past a code token `j ≥ i`, carries the text of a name token `k ≥ i`, and has
`1 ≤ len ≤` number of distinct lines of tokens `i..j`.  The name token lies inside the span
(`k ≤ j`) except possibly in Python, where it may be the token right after a one-token span. -/
theorem measurement_wf_partial (L : Language) (hL : L ∈ Gen.all.map (·.2)) (all : List Tok)
    (ms : List Measurement)
    (hpos : (filterTokens false all).Pairwise
      (fun a b => a.line < b.line ∨ (a.line = b.line ∧ a.col < b.col)))
    (h : scanFile L all = .ok ms) :
    ∀ m ∈ ms, ∃ i j k, i ≤ k ∧ k ≤ i + 1 ∧ i ≤ j ∧
      (k ≤ j ∨ (L.python = true ∧ i = j ∧ k = j + 1)) ∧
      j < (filterTokens false all).length ∧
      (∃ ti, (filterTokens false all)[i]? = some ti ∧ (m.sl, m.sc) = (ti.line, ti.col)) ∧
      (∃ tj, (filterTokens false all)[j]? = some tj ∧ (m.el, m.ec) = tj.endPos) ∧
      (∃ tk, (filterTokens false all)[k]? = some tk ∧ tk.isName = true ∧ m.name = tk.val) ∧
      1 ≤ m.len ∧
      m.len ≤ countDistinct ((((filterTokens false all).drop i).take (j + 1 - i)).map (·.line)) := by
  intro m hm
  obtain ⟨p, first, last, hg, hf, hl, hn, hs, he, h1, h2⟩ :=
    scanFile_measurements L hL all hpos h m hm
  obtain ⟨k, hk1, hk2, hk3, hk4, hk5⟩ := hg.name
  have hlt := hg.lt
  have hle := hg.le
  refine ⟨p.1.hdr.rng.s, p.1.blk.e - 1, k, hk1, hk2, by omega, ?_, by omega, ⟨first, hf, hs⟩,
    ⟨last, hl, he⟩, ⟨p.1.hdr.name, hk3, hk4, hn⟩, h1, ?_⟩
  · cases hpy : L.python
    · left; have := hk5 hpy; omega
    · by_cases hkj : k ≤ p.1.blk.e - 1
      · left; exact hkj
      · right; exact ⟨rfl, by omega, by omega⟩
  · rw [show p.1.blk.e - 1 + 1 - p.1.hdr.rng.s = p.1.blk.e - p.1.hdr.rng.s by omega]
    exact h2

/-- The full per-measurement statement for the brace languages (C, C++, C#, Java, JavaScript,
TypeScript) on position-ordered code tokens. -/
theorem measurement_wf_brace (L : Language) (hL : L ∈ Gen.all.map (·.2)) (hbrace : L.python = false)
    (all : List Tok) (ms : List Measurement)
    (hpos : (filterTokens false all).Pairwise
      (fun a b => a.line < b.line ∨ (a.line = b.line ∧ a.col < b.col)))
    (h : scanFile L all = .ok ms) :
    ∀ m ∈ ms, ∃ i j k, i ≤ k ∧ k ≤ j ∧ j < (filterTokens false all).length ∧
      (∃ ti, (filterTokens false all)[i]? = some ti ∧ (m.sl, m.sc) = (ti.line, ti.col)) ∧
      (∃ tj, (filterTokens false all)[j]? = some tj ∧ (m.el, m.ec) = tj.endPos) ∧
      (∃ tk, (filterTokens false all)[k]? = some tk ∧ tk.isName = true ∧ m.name = tk.val) ∧
      1 ≤ m.len ∧
      m.len ≤ countDistinct ((((filterTokens false all).drop i).take (j + 1 - i)).map (·.line)) := by
  intro m hm
  obtain ⟨i, j, k, h1, _, _, h3, h4, h5, h6, h7, h8, h9⟩ :=
    measurement_wf_partial L hL all ms hpos h m hm
  refine ⟨i, j, k, h1, ?_, h4, h5, h6, h7, h8, h9⟩
  rcases h3 with h3 | ⟨hpy, _⟩
  · exact h3
  · rw [hbrace] at hpy; cases hpy

/-! ## the full statement fails: witnesses -/

open CL.Ex

/-- TypeScript tokens `{ { } f ( ) : }` whose first `{` carries a position after all others -/
def tsUnordered : List Tok :=
  [puT [123] 5 1, puT [123] 1 2, puT [125] 1 3, nmT [102] 1 4, puT [40] 1 5, puT [41] 1 6,
   opT [58] 1 7, puT [125] 1 8]

/-- Without position order the statement fails (so `hpos` cannot be dropped): the blocks are
sorted by position, the enclosing block `[0, 8)` is visited first and `f ( )` gets the block
`{ }` in front of it; the reported function has length 0 and ends where it starts. -/
theorem measurement_wf_fails_unordered :
    ∃ (L : Language) (all : List Tok) (ms : List Measurement), L ∈ Gen.all.map (·.2) ∧
      scanFile L all = .ok ms ∧ ¬ ∀ m ∈ ms, MeasurementWF (filterTokens false all) m := by
  refine ⟨Gen.typescript, tsUnordered, [⟨[102], 1, 4, 1, 4, 0⟩], by simp [Gen.all],
    scanFile_eval (by decide +kernel), ?_⟩
  intro hall
  obtain ⟨_, _, _, _, _, _, _, _, _, hlen, _⟩ := hall _ List.mem_cons_self
  exact absurd hlen (by decide)

/-- the code tokens of
```
def o():
  def f():
      def
  g():
    pass
```
-/
def pyNameOutside : List Tok :=
  [kwT [100,101,102] 1 1, nmT [111] 1 5, puT [40] 1 6, puT [41] 1 7, puT [58] 1 8,
   kwT [100,101,102] 2 3, nmT [102] 2 7, puT [40] 2 8, puT [41] 2 9, puT [58] 2 10,
   kwT [100,101,102] 3 7,
   nmT [103] 4 3, puT [40] 4 4, puT [41] 4 5, puT [58] 4 6,
   kwT [112,97,115,115] 5 5]

/-- FINDING (also observed on the Python program: `g` is reported with span 3:7-3:10).  On
position-ordered Python tokens the name of a reported function can lie outside its span: the
header `def g ( )` runs over two lines, the block of `f` is the single token `def` on line 3
(line 4 is dedented), and `_build_scopes_from_headers_and_blocks` gives this block, which lies
inside the block of `o` that encloses the header `def g ( )`, to `g`.  The measurement of `g`
spans only the token `def`. -/
theorem measurement_wf_fails_python :
    ∃ (all : List Tok) (ms : List Measurement),
      (filterTokens false all).Pairwise
        (fun a b => a.line < b.line ∨ (a.line = b.line ∧ a.col < b.col)) ∧
      (∀ t ∈ filterTokens false all, t.val ≠ []) ∧
      scanFile Gen.python all = .ok ms ∧ ¬ ∀ m ∈ ms, MeasurementWF (filterTokens false all) m := by
  refine ⟨pyNameOutside, [⟨[111], 1, 1, 5, 9, 4⟩, ⟨[103], 3, 7, 3, 10, 1⟩], by decide +kernel,
    by decide +kernel, scanFile_eval (by decide +kernel), ?_⟩
  intro hall
  have := (hall ⟨[103], 3, 7, 3, 10, 1⟩ (by simp)).spanCheck
  exact absurd this (by decide +kernel)

/-! ## line total -/

/-- the file's line total is the sum of its function lengths -/
theorem total_is_sum (L : Language) (code : Str) (raw : List RawTok) (ms : List Measurement)
    (n : Nat) (h : analyze L code raw = .ok (ms, n)) : n = (ms.map (·.len)).sum := by
  unfold analyze at h
  split at h
  · cases h
  · simp only [Except.ok.injEq, Prod.mk.injEq] at h
    obtain ⟨rfl, rfl⟩ := h
    rw [foldl_add_eq_sum]; omega

/-! ## order -/

/-- on position-ordered, non-empty code tokens every measurement ends strictly after it starts
(lexicographically), in particular `start line ≤ end line` -/
theorem line_order (L : Language) (hL : L ∈ Gen.all.map (·.2)) (all : List Tok)
    (ms : List Measurement)
    (hpos : (filterTokens false all).Pairwise
      (fun a b => a.line < b.line ∨ (a.line = b.line ∧ a.col < b.col)))
    (hval : ∀ t ∈ filterTokens false all, t.val ≠ [])
    (h : scanFile L all = .ok ms) :
    ∀ m ∈ ms, (m.sl < m.el ∨ (m.sl = m.el ∧ m.sc < m.ec)) ∧ m.sl ≤ m.el := by
  intro m hm
  obtain ⟨i, j, _, _, _, hij, _, _, ⟨ti, hti, hs⟩, ⟨tj, htj, he⟩, _⟩ :=
    measurement_wf_partial L hL all ms hpos h m hm
  have h1 : ti.line < tj.line ∨ (ti.line = tj.line ∧ ti.col ≤ tj.col) := by
    rcases Nat.lt_or_ge i j with hlt | hge
    · have : ti.before tj := PosOrdered.before hpos hlt hti htj
      unfold Tok.before at this; omega
    · have : i = j := by omega
      subst this
      rw [hti] at htj; cases htj
      right; exact ⟨rfl, Nat.le_refl _⟩
  have h2 := Tok.endPos_after tj (hval tj (List.mem_of_getElem? htj))
  rw [← he] at h2
  unfold posLt at h2
  simp only [Prod.mk.injEq] at hs
  obtain ⟨hs1, hs2⟩ := hs
  simp only at h2
  constructor <;> omega

/-- Measurements are listed in source order with pairwise distinct starts, for all seven shipped
languages.  Distinct header starts come from C14 `ordered_disjoint` for the matches of one
`find_all`, and for JavaScript / TypeScript (two patterns matched separately and concatenated)
from a decidable check on the two compiled DFAs: they cannot both match from the same token
(`function`/`const` on the first token, else `(`/`=` on the second;
`Lemmas/ScanBoundsHeaderStarts.lean`). -/
theorem source_order (L : Language) (hL : L ∈ Gen.all.map (·.2))
    (all : List Tok) (ms : List Measurement)
    (hpos : (filterTokens false all).Pairwise
      (fun a b => a.line < b.line ∨ (a.line = b.line ∧ a.col < b.col)))
    (h : scanFile L all = .ok ms) :
    ms.Pairwise (fun a b => a.sl < b.sl ∨ (a.sl = b.sl ∧ a.sc < b.sc)) := by
  obtain ⟨scs, hscs, _⟩ := scanFile_decomp h
  obtain ⟨hs, _, _, hhs, _⟩ := buildScopes_decomp hscs
  exact scanFile_order L hL all hpos hhs (extractHeaders_starts_nodup L hL hhs) h

/-- The same conclusion from the bare hypothesis `hdist` that the extracted headers have pairwise
distinct start indices (the form that does not rely on the cross-pattern check; for the shipped
languages `hdist` always holds, see `headers_distinct_starts`). -/
theorem source_order_partial (L : Language) (hL : L ∈ Gen.all.map (·.2)) (all : List Tok)
    (ms : List Measurement) (hs : List Header)
    (hpos : (filterTokens false all).Pairwise
      (fun a b => a.line < b.line ∨ (a.line = b.line ∧ a.col < b.col)))
    (hhs : extractHeaders L (filterTokens false all) = .ok hs)
    (hdist : (hs.map (·.rng.s)).Nodup)
    (h : scanFile L all = .ok ms) :
    ms.Pairwise (fun a b => a.sl < b.sl ∨ (a.sl = b.sl ∧ a.sc < b.sc)) :=
  scanFile_order L hL all hpos hhs hdist h

/-- the extracted headers of a shipped language start at pairwise distinct tokens, for every
token list -/
theorem headers_distinct_starts (L : Language) (hL : L ∈ Gen.all.map (·.2)) (toks : List Tok)
    (hs : List Header) (h : extractHeaders L toks = .ok hs) : (hs.map (·.rng.s)).Nodup :=
  extractHeaders_starts_nodup L hL h

/-! ## folding: children are inside their parent, so the first token is always counted -/

/-- for every input: each child range attached to a reported scope starts strictly after the
scope's first token (`parent.hdr.rng.s < child.hdr.rng.s`) and ends no later than the scope.
This is why the parent's first token is never inside a child range and `1 ≤ len`. -/
theorem child_inside_parent (L : Language) (hL : L ∈ Gen.all.map (·.2)) (all : List Tok)
    (scs : List (Scope × List Range)) (h : buildScopes L all = .ok scs) :
    ∀ p ∈ scs, ∀ c ∈ p.2, p.1.hdr.rng.s < c.s ∧ c.e ≤ p.1.blk.e :=
  buildScopes_children L hL all h

/-- counting: whenever the scope is non-empty and every child range starts after its first
token, the first token's line is counted; the count never exceeds the number of distinct lines
of the scope's tokens -/
theorem count_bounds (toks : List Tok) (s : Scope) (children : List Range)
    (h1 : s.hdr.rng.s < toks.length) (h2 : s.blk.e ≤ toks.length)
    (hch : ∀ c ∈ children, c.s < toks.length) :
    ∃ len, countLines toks s children = .ok len ∧
      len ≤ countDistinct (((toks.drop s.hdr.rng.s).take (s.blk.e - s.hdr.rng.s)).map (·.line)) ∧
      (s.hdr.rng.s < s.blk.e → (∀ c ∈ children, s.hdr.rng.s < c.s) → 1 ≤ len) :=
  countLines_spec h1 h2 hch

/-! ## non-vacuity -/

/-- the tokens of `int f() {\n}\nint g() {\n}\n` (C) -/
def cToks : List Tok :=
  [kwT [105,110,116] 1 1, wsT [32] 1 4, nmT [102] 1 5, puT [40] 1 6, puT [41] 1 7, wsT [32] 1 8,
   puT [123] 1 9, wsT [10] 1 10, puT [125] 2 1, wsT [10] 2 2,
   kwT [105,110,116] 3 1, wsT [32] 3 4, nmT [103] 3 5, puT [40] 3 6, puT [41] 3 7, wsT [32] 3 8,
   puT [123] 3 9, wsT [10] 3 10, puT [125] 4 1, wsT [10] 4 2]

/-- the tokens of `def f():\n  pass\ndef g():\n  pass\n` (Python) -/
def pyToks : List Tok :=
  [kwT [100,101,102] 1 1, wsT [32] 1 4, nmT [102] 1 5, puT [40] 1 6, puT [41] 1 7, puT [58] 1 8,
   wsT [10] 1 9, wsT [32,32] 2 1, kwT [112,97,115,115] 2 3, wsT [10] 2 7,
   kwT [100,101,102] 3 1, wsT [32] 3 4, nmT [103] 3 5, puT [40] 3 6, puT [41] 3 7, puT [58] 3 8,
   wsT [10] 3 9, wsT [32,32] 4 1, kwT [112,97,115,115] 4 3, wsT [10] 4 7]

/-- the code tokens of `function f() {\n}\nconst g = () => {\n}` (JavaScript, both patterns) -/
def jsToks : List Tok :=
  [kwT [102,117,110,99,116,105,111,110] 1 1, nmT [102] 1 10, puT [40] 1 11, puT [41] 1 12,
   puT [123] 1 14, puT [125] 2 1,
   kwT [99,111,110,115,116] 3 1, nmT [103] 3 7, opT [61] 3 9, puT [40] 3 11, puT [41] 3 12,
   puT [61,62] 3 14, puT [123] 3 17, puT [125] 4 1]

/-- C: all hypotheses hold on a file with two functions, and the conclusions follow -/
example :
    let ms : List Measurement := [⟨[102], 1, 5, 2, 2, 2⟩, ⟨[103], 3, 5, 4, 2, 2⟩]
    scanFile Gen.c cToks = .ok ms ∧
    (∀ m ∈ ms, MeasurementWF (filterTokens false cToks) m) ∧
    (∀ m ∈ ms, (m.sl < m.el ∨ (m.sl = m.el ∧ m.sc < m.ec)) ∧ m.sl ≤ m.el) ∧
    ms.Pairwise (fun a b => a.sl < b.sl ∨ (a.sl = b.sl ∧ a.sc < b.sc)) := by
  have hL : Gen.c ∈ Gen.all.map (·.2) := by simp [Gen.all]
  have hscan : scanFile Gen.c cToks = .ok [⟨[102], 1, 5, 2, 2, 2⟩, ⟨[103], 3, 5, 4, 2, 2⟩] :=
    scanFile_eval (by decide +kernel)
  have hpos : (filterTokens false cToks).Pairwise
      (fun a b => a.line < b.line ∨ (a.line = b.line ∧ a.col < b.col)) := by decide +kernel
  have hval : ∀ t ∈ filterTokens false cToks, t.val ≠ [] := by decide +kernel
  exact ⟨hscan, measurement_wf_brace _ hL rfl _ _ hpos hscan, line_order _ hL _ _ hpos hval hscan,
    source_order _ hL _ _ hpos hscan⟩

/-- Python: two functions -/
example :
    let ms : List Measurement := [⟨[102], 1, 1, 2, 7, 2⟩, ⟨[103], 3, 1, 4, 7, 2⟩]
    scanFile Gen.python pyToks = .ok ms ∧
    (∀ m ∈ ms, (m.sl < m.el ∨ (m.sl = m.el ∧ m.sc < m.ec)) ∧ m.sl ≤ m.el) ∧
    ms.Pairwise (fun a b => a.sl < b.sl ∨ (a.sl = b.sl ∧ a.sc < b.sc)) ∧
    (∀ m ∈ ms, 1 ≤ m.len) := by
  have hL : Gen.python ∈ Gen.all.map (·.2) := by simp [Gen.all]
  have hscan : scanFile Gen.python pyToks = .ok [⟨[102], 1, 1, 2, 7, 2⟩, ⟨[103], 3, 1, 4, 7, 2⟩] :=
    scanFile_eval (by decide +kernel)
  have hpos : (filterTokens false pyToks).Pairwise
      (fun a b => a.line < b.line ∨ (a.line = b.line ∧ a.col < b.col)) := by decide +kernel
  have hval : ∀ t ∈ filterTokens false pyToks, t.val ≠ [] := by decide +kernel
  refine ⟨hscan, line_order _ hL _ _ hpos hval hscan, source_order _ hL _ _ hpos hscan, ?_⟩
  intro m hm
  obtain ⟨_, _, _, _, _, _, _, _, _, _, _, h1, _⟩ := measurement_wf_partial _ hL _ _ hpos hscan m hm
  exact h1

/-- JavaScript: one function per header pattern; `hdist` holds -/
example :
    let ms : List Measurement := [⟨[102], 1, 1, 2, 2, 2⟩, ⟨[103], 3, 1, 4, 2, 2⟩]
    scanFile Gen.javascript jsToks = .ok ms ∧
    (∀ m ∈ ms, MeasurementWF (filterTokens false jsToks) m) ∧
    ms.Pairwise (fun a b => a.sl < b.sl ∨ (a.sl = b.sl ∧ a.sc < b.sc)) := by
  have hL : Gen.javascript ∈ Gen.all.map (·.2) := by simp [Gen.all]
  have hscan : scanFile Gen.javascript jsToks =
      .ok [⟨[102], 1, 1, 2, 2, 2⟩, ⟨[103], 3, 1, 4, 2, 2⟩] := scanFile_eval (by decide +kernel)
  have hpos : (filterTokens false jsToks).Pairwise
      (fun a b => a.line < b.line ∨ (a.line = b.line ∧ a.col < b.col)) := by decide +kernel
  have hex : ∃ hs, extractHeaders Gen.javascript (filterTokens false jsToks) = .ok hs ∧
      (decide ((hs.map (fun h : Header => h.rng.s)).Nodup) && hs.length == 2) = true :=
    okSat_sound (p := fun hs : List Header =>
      decide ((hs.map (fun h : Header => h.rng.s)).Nodup) && hs.length == 2) (by decide +kernel)
  obtain ⟨hs, hhs, hp⟩ := hex
  have hdist : (hs.map (·.rng.s)).Nodup := by
    simp only [Bool.and_eq_true, decide_eq_true_eq] at hp; exact hp.1
  exact ⟨hscan, measurement_wf_brace _ hL rfl _ _ hpos hscan,
    source_order_partial _ hL _ _ _ hpos hhs hdist hscan⟩

/-- JavaScript again, through the general theorem -/
example : ([⟨[102], 1, 1, 2, 2, 2⟩, ⟨[103], 3, 1, 4, 2, 2⟩] : List Measurement).Pairwise
    (fun a b => a.sl < b.sl ∨ (a.sl = b.sl ∧ a.sc < b.sc)) :=
  source_order Gen.javascript (by simp [Gen.all]) jsToks _ (by decide +kernel)
    (scanFile_eval (by decide +kernel))

/-- the line total of a two-function file -/
example : ([⟨[102], 1, 5, 2, 2, 2⟩, ⟨[103], 3, 5, 4, 2, 2⟩] : List Measurement).map (·.len) = [2, 2] :=
  rfl

end CL.C05
