import CodeLimit.Lemmas.ScanBoundsWF
import CodeLimit.Lemmas.ScanEval
/-!
# C05 (model part) - every measurement is well-formed, measurements are in source order

"For any input whatsoever, each measurement has 1 <= start line <= end line <= number of lines of
the file and in-range columns, starts at the position of a code token and ends just past a code
token, carries as name the text of an identifier token lying inside its span, and has
1 <= length <= number of code-bearing lines of its span. A file's measurements are listed in
source order with pairwise distinct starts, and the file's line total is the sum of its function
lengths."

Model level: `L` is one of the seven shipped languages, `all` the token list produced by the
lexer, `code := filterTokens false all` the code tokens, `ms` with `scanFile L all = .ok ms`.

FULL STATEMENT (`MeasurementWF`, `Spec/Scan.lean`), for every `all`:

    ∀ m ∈ ms, ∃ i j k, i ≤ k ∧ k ≤ j ∧ j < code.length ∧
      (∃ ti, code[i]? = some ti ∧ (m.sl, m.sc) = (ti.line, ti.col)) ∧
      (∃ tj, code[j]? = some tj ∧ (m.el, m.ec) = tj.endPos) ∧
      (∃ tk, code[k]? = some tk ∧ tk.isName = true ∧ m.name = tk.val) ∧
      1 ≤ m.len ∧ m.len ≤ countDistinct (((code.drop i).take (j + 1 - i)).map (·.line))

It holds
* for the six brace languages for EVERY token list (`measurement_wf_brace`), and
* for all seven languages, Python included, when the code tokens are in strictly increasing
  position order (`measurement_wf`, hypothesis `hpos`; lexer output always is, property C16).

Without `hpos` it is false for Python (`measurement_wf_fails_unordered`: with repeated /
unordered positions `tokens.index` finds an earlier equal token and a Python block can end
before it starts; the reported function has length 0).  What holds for every input in every
language is `measurement_anchored`.

History: on the first version of the model the statement was also false for Python on ordered
tokens (the name token could lie just outside a one-token span; reproduced on the Python
program).  `_find_scope_blocks_indices` was repaired (the "enclosing block" branch only takes
blocks that start at or after the header's end); the old witness is kept as a regression
`example` below.

Also proved: `line_order` (start before end), `source_order` (all seven languages, strictly
increasing starts), `total_is_sum`, `child_inside_parent`.  The header facts needed are proved in
`Lemmas/ScanBoundsHeaders.lean` / `Lemmas/ScanBoundsHeaderStarts.lean` from C14 and decidable
checks on the compiled patterns.
-/
namespace CL.C05

/-! ## what "code token" means -/

/-- every code token is neither whitespace nor a comment -/
theorem code_tokens (all : List Tok) :
    ∀ t ∈ filterTokens false all, t.isWhitespace = false ∧ t.isComment = false :=
  fun t ht => ⟨(filterTokens_code false all t ht).1, (filterTokens_code false all t ht).2 rfl⟩

/-! ## each measurement -/

/-- For EVERY token list (no assumption on positions): each measurement starts at the position of
a code token `i`, ends just past a code token `j`, carries the text of a name token at `i` or
`i + 1`, and its length is at most the number of distinct lines of tokens `i..j`.  (What can
fail for Python without position order is `i ≤ j`, `k ≤ j` and `1 ≤ len`, see
`measurement_wf_fails_unordered`.) -/
theorem measurement_anchored (L : Language) (hL : L ∈ Gen.all.map (·.2)) (all : List Tok)
    (ms : List Measurement) (h : scanFile L all = .ok ms) :
    ∀ m ∈ ms, ∃ i j k, i ≤ k ∧ k ≤ i + 1 ∧ j < (filterTokens false all).length ∧
      (∃ ti, (filterTokens false all)[i]? = some ti ∧ (m.sl, m.sc) = (ti.line, ti.col)) ∧
      (∃ tj, (filterTokens false all)[j]? = some tj ∧ (m.el, m.ec) = tj.endPos) ∧
      (∃ tk, (filterTokens false all)[k]? = some tk ∧ tk.isName = true ∧ m.name = tk.val) ∧
      m.len ≤ countDistinct ((((filterTokens false all).drop i).take (j + 1 - i)).map (·.line)) :=
  scanFile_anchored L hL all h

/-- shared proof of the two full statements -/
private theorem measurement_wf_core (L : Language) (hL : L ∈ Gen.all.map (·.2)) (all : List Tok)
    (ms : List Measurement)
    (hp : L.python = false ∨ PosOrdered (filterTokens false all))
    (h : scanFile L all = .ok ms) :
    ∀ m ∈ ms, MeasurementWF (filterTokens false all) m := by
  intro m hm
  obtain ⟨p, first, last, hg, hf, hl, hn, hs, he, h1, h2⟩ :=
    scanFile_measurements L hL all hp h m hm
  obtain ⟨k, hk1, _, hk3, hk4, hk5⟩ := hg.name
  have hlt := hg.lt
  have hle := hg.le
  refine ⟨p.1.hdr.rng.s, p.1.blk.e - 1, k, hk1, by omega, by omega, ⟨first, hf, hs⟩,
    ⟨last, hl, he⟩, ⟨p.1.hdr.name, hk4, hk5, hn⟩, h1, ?_⟩
  rw [show p.1.blk.e - 1 + 1 - p.1.hdr.rng.s = p.1.blk.e - p.1.hdr.rng.s by omega]
  exact h2

/-- THE FULL per-measurement statement, for all seven shipped languages, on position-ordered code
tokens: every measurement starts at the position of a code token `i`, ends just past a code
token `j`, carries the text of a name token `k` with `i ≤ k ≤ j` (the name lies inside the
span), and has `1 ≤ len ≤` number of distinct lines of tokens `i..j`. -/
theorem measurement_wf (L : Language) (hL : L ∈ Gen.all.map (·.2)) (all : List Tok)
    (ms : List Measurement)
    (hpos : (filterTokens false all).Pairwise
      (fun a b => a.line < b.line ∨ (a.line = b.line ∧ a.col < b.col)))
    (h : scanFile L all = .ok ms) :
    ∀ m ∈ ms, ∃ i j k, i ≤ k ∧ k ≤ j ∧ j < (filterTokens false all).length ∧
      (∃ ti, (filterTokens false all)[i]? = some ti ∧ (m.sl, m.sc) = (ti.line, ti.col)) ∧
      (∃ tj, (filterTokens false all)[j]? = some tj ∧ (m.el, m.ec) = tj.endPos) ∧
      (∃ tk, (filterTokens false all)[k]? = some tk ∧ tk.isName = true ∧ m.name = tk.val) ∧
      1 ≤ m.len ∧
      m.len ≤ countDistinct ((((filterTokens false all).drop i).take (j + 1 - i)).map (·.line)) :=
  measurement_wf_core L hL all ms (.inr hpos) h

/-- The full per-measurement statement for the brace languages (C, C++, C#, Java, JavaScript,
TypeScript) holds for EVERY token list, without any assumption on positions. -/
theorem measurement_wf_brace (L : Language) (hL : L ∈ Gen.all.map (·.2)) (hbrace : L.python = false)
    (all : List Tok) (ms : List Measurement) (h : scanFile L all = .ok ms) :
    ∀ m ∈ ms, ∃ i j k, i ≤ k ∧ k ≤ j ∧ j < (filterTokens false all).length ∧
      (∃ ti, (filterTokens false all)[i]? = some ti ∧ (m.sl, m.sc) = (ti.line, ti.col)) ∧
      (∃ tj, (filterTokens false all)[j]? = some tj ∧ (m.el, m.ec) = tj.endPos) ∧
      (∃ tk, (filterTokens false all)[k]? = some tk ∧ tk.isName = true ∧ m.name = tk.val) ∧
      1 ≤ m.len ∧
      m.len ≤ countDistinct ((((filterTokens false all).drop i).take (j + 1 - i)).map (·.line)) :=
  measurement_wf_core L hL all ms (.inl hbrace) h

/-- every reported scope ends after its header: the token after the header (`{`, `:` ...) and at
least one more block token belong to the span (brace languages: every input; Python: ordered
positions) -/
theorem scope_extends_past_header (L : Language) (hL : L ∈ Gen.all.map (·.2)) (all : List Tok)
    (hp : L.python = false ∨ (filterTokens false all).Pairwise
      (fun a b => a.line < b.line ∨ (a.line = b.line ∧ a.col < b.col)))
    (scs : List (Scope × List Range)) (h : buildScopes L all = .ok scs) :
    ∀ p ∈ scs, p.1.hdr.rng.s < p.1.hdr.rng.e ∧ p.1.hdr.rng.e < p.1.blk.e ∧
      p.1.blk.e ≤ (filterTokens false all).length := by
  intro p hp'
  have hg := buildScopes_good L hL all hp h p hp'
  obtain ⟨k, h1, _, h3, _⟩ := hg.name
  exact ⟨by omega, hg.lt, hg.le⟩

/-! ## why `hpos` is needed for Python; regression for the repaired defect -/

open CL.Ex

/-- Python tokens with unordered and repeated positions: the first token is an exact copy
(position, type, text) of the `pass` at index 18, and the "line numbers" are not increasing -/
def pyUnordered : List Tok :=
  [kwT [112,97,115,115] 200 9,
   kwT [100,101,102] 100 5, nmT [97] 100 9, puT [40] 100 10, puT [41] 100 11, puT [58] 100 12,
   kwT [100,101,102] 10 1, nmT [111] 10 5, puT [40] 10 6, puT [41] 10 7, puT [58] 10 8,
   kwT [112,97,115,115] 15 3,
   kwT [100,101,102] 20 3, nmT [103] 20 7, puT [40] 20 8, puT [41] 20 9,
   puT [58] 1000 9,
   nmT [120] 200 7, kwT [112,97,115,115] 200 9,
   nmT [122] 300 3]

/-- Without position order the statement fails for Python (so `hpos` cannot be dropped in
`measurement_wf`): the block of `def a ( )` consists of the "lines" `:` and `x pass`;
`tokens.index` of its last token finds the equal token at index 0, so the block is `[16, 1)`.
It lies inside the block `[11, 20)` of `o`, which encloses the header `def g ( )` = `[12, 16)`,
and starts at the header's end, so `g` gets it: the reported function `g` has length 0 and ends
(at token 0) before it starts. -/
theorem measurement_wf_fails_unordered :
    ∃ (L : Language) (all : List Tok) (ms : List Measurement), L ∈ Gen.all.map (·.2) ∧
      scanFile L all = .ok ms ∧ ¬ ∀ m ∈ ms, MeasurementWF (filterTokens false all) m := by
  refine ⟨Gen.python, pyUnordered, [⟨[111], 10, 1, 300, 4, 6⟩, ⟨[103], 20, 3, 200, 13, 0⟩],
    by simp [Gen.all], scanFile_eval (by decide +kernel), ?_⟩
  intro hall
  obtain ⟨_, _, _, _, _, _, _, _, _, hlen, _⟩ := hall ⟨[103], 20, 3, 200, 13, 0⟩ (by simp)
  exact absurd hlen (by decide)

/-- the code tokens of
```
def o():
  def f():
      def
  g():
    pass
```
-/
def pyNameOutside : List Tok :=
  [kwT [100,101,102] 1 1, nmT [111] 1 5, puT [40] 1 6, puT [41] 1 7, puT [58] 1 8,
   kwT [100,101,102] 2 3, nmT [102] 2 7, puT [40] 2 8, puT [41] 2 9, puT [58] 2 10,
   kwT [100,101,102] 3 7,
   nmT [103] 4 3, puT [40] 4 4, puT [41] 4 5, puT [58] 4 6,
   kwT [112,97,115,115] 5 5]

/-- REGRESSION for the repaired defect.  Before the repair of `_find_scope_blocks_indices` this
input produced a measurement `g` 3:7-3:10 whose name token lay outside its span (the block of
`f`, the single token `def` on line 3, was handed to the header `def g ( )`).  Now no measurement
is reported for `g`; `f` keeps its own block, and every measurement is well-formed. -/
example :
    let ms : List Measurement := [⟨[111], 1, 1, 5, 9, 3⟩, ⟨[102], 2, 3, 3, 10, 2⟩]
    scanFile Gen.python pyNameOutside = .ok ms ∧ (∀ m ∈ ms, m.name ≠ [103]) ∧
    ∀ m ∈ ms, MeasurementWF (filterTokens false pyNameOutside) m := by
  have hscan : scanFile Gen.python pyNameOutside =
      .ok [⟨[111], 1, 1, 5, 9, 3⟩, ⟨[102], 2, 3, 3, 10, 2⟩] := scanFile_eval (by decide +kernel)
  exact ⟨hscan, by decide,
    measurement_wf Gen.python (by simp [Gen.all]) _ _ (by decide +kernel) hscan⟩

/-! ## line total -/

/-- the file's line total is the sum of its function lengths.
(Definitional at this level: `analyze` computes the total by folding `+` over the lengths, as
`_analyze_file` does with `sum(m.value for m in measurements)`; the theorem only restates the fold
as `List.sum`.  That the code computes THAT number is the correspondence tie; that the report's
`loc` field and the totals / profiles built from it agree with the measurements is
`Pipe.report_measurements_wf` (last conjunct), `Pipe.report_file_profiles`, `Pipe.report_totals`.) -/
theorem total_is_sum (L : Language) (code : Str) (raw : List RawTok) (ms : List Measurement)
    (n : Nat) (h : analyze L code raw = .ok (ms, n)) : n = (ms.map (·.len)).sum := by
  unfold analyze at h
  split at h
  · cases h
  · simp only [Except.ok.injEq, Prod.mk.injEq] at h
    obtain ⟨rfl, rfl⟩ := h
    rw [foldl_add_eq_sum]; omega

/-! ## order -/

/-- on position-ordered, non-empty code tokens every measurement ends strictly after it starts
(lexicographically), in particular `start line ≤ end line` -/
theorem line_order (L : Language) (hL : L ∈ Gen.all.map (·.2)) (all : List Tok)
    (ms : List Measurement)
    (hpos : (filterTokens false all).Pairwise
      (fun a b => a.line < b.line ∨ (a.line = b.line ∧ a.col < b.col)))
    (hval : ∀ t ∈ filterTokens false all, t.val ≠ [])
    (h : scanFile L all = .ok ms) :
    ∀ m ∈ ms, (m.sl < m.el ∨ (m.sl = m.el ∧ m.sc < m.ec)) ∧ m.sl ≤ m.el := by
  intro m hm
  obtain ⟨i, j, k, hik, hkj, _, ⟨ti, hti, hs⟩, ⟨tj, htj, he⟩, _⟩ :=
    measurement_wf L hL all ms hpos h m hm
  have hij : i ≤ j := Nat.le_trans hik hkj
  have h1 : ti.line < tj.line ∨ (ti.line = tj.line ∧ ti.col ≤ tj.col) := by
    rcases Nat.lt_or_ge i j with hlt | hge
    · have : ti.before tj := PosOrdered.before hpos hlt hti htj
      unfold Tok.before at this; omega
    · have : i = j := by omega
      subst this
      rw [hti] at htj; cases htj
      right; exact ⟨rfl, Nat.le_refl _⟩
  have h2 := Tok.endPos_after tj (hval tj (List.mem_of_getElem? htj))
  rw [← he] at h2
  unfold posLt at h2
  simp only [Prod.mk.injEq] at hs
  obtain ⟨hs1, hs2⟩ := hs
  simp only at h2
  constructor <;> omega

/-- Measurements are listed in source order with pairwise distinct starts, for all seven shipped
languages.  Distinct header starts come from C14 `ordered_disjoint` for the matches of one
`find_all`, and for JavaScript / TypeScript (two patterns matched separately and concatenated)
from a decidable check on the two compiled DFAs: they cannot both match from the same token
(`function`/`const` on the first token, else `(`/`=` on the second;
`Lemmas/ScanBoundsHeaderStarts.lean`). -/
theorem source_order (L : Language) (hL : L ∈ Gen.all.map (·.2))
    (all : List Tok) (ms : List Measurement)
    (hpos : (filterTokens false all).Pairwise
      (fun a b => a.line < b.line ∨ (a.line = b.line ∧ a.col < b.col)))
    (h : scanFile L all = .ok ms) :
    ms.Pairwise (fun a b => a.sl < b.sl ∨ (a.sl = b.sl ∧ a.sc < b.sc)) := by
  obtain ⟨scs, hscs, _⟩ := scanFile_decomp h
  obtain ⟨hs, _, _, hhs, _⟩ := buildScopes_decomp hscs
  exact scanFile_order L hL all hpos hhs (extractHeaders_starts_nodup L hL hhs) h

/-- The same conclusion from the bare hypothesis `hdist` that the extracted headers have pairwise
distinct start indices (the form that does not rely on the cross-pattern check; for the shipped
languages `hdist` always holds, see `headers_distinct_starts`). -/
theorem source_order_partial (L : Language) (hL : L ∈ Gen.all.map (·.2)) (all : List Tok)
    (ms : List Measurement) (hs : List Header)
    (hpos : (filterTokens false all).Pairwise
      (fun a b => a.line < b.line ∨ (a.line = b.line ∧ a.col < b.col)))
    (hhs : extractHeaders L (filterTokens false all) = .ok hs)
    (hdist : (hs.map (·.rng.s)).Nodup)
    (h : scanFile L all = .ok ms) :
    ms.Pairwise (fun a b => a.sl < b.sl ∨ (a.sl = b.sl ∧ a.sc < b.sc)) :=
  scanFile_order L hL all hpos hhs hdist h

/-- the extracted headers of a shipped language start at pairwise distinct tokens, for every
token list -/
theorem headers_distinct_starts (L : Language) (hL : L ∈ Gen.all.map (·.2)) (toks : List Tok)
    (hs : List Header) (h : extractHeaders L toks = .ok hs) : (hs.map (·.rng.s)).Nodup :=
  extractHeaders_starts_nodup L hL h

/-! ## folding: children are inside their parent, so the first token is always counted -/

/-- for every input: each child range attached to a reported scope starts strictly after the
scope's first token (`parent.hdr.rng.s < child.hdr.rng.s`) and ends no later than the scope.
This is why the parent's first token is never inside a child range and `1 ≤ len`. -/
theorem child_inside_parent (L : Language) (hL : L ∈ Gen.all.map (·.2)) (all : List Tok)
    (scs : List (Scope × List Range)) (h : buildScopes L all = .ok scs) :
    ∀ p ∈ scs, ∀ c ∈ p.2, p.1.hdr.rng.s < c.s ∧ c.e ≤ p.1.blk.e :=
  buildScopes_children L hL all h

/-- counting: whenever the scope is non-empty and every child range starts after its first
token, the first token's line is counted; the count never exceeds the number of distinct lines
of the scope's tokens -/
theorem count_bounds (toks : List Tok) (s : Scope) (children : List Range)
    (h1 : s.hdr.rng.s < toks.length) (h2 : s.blk.e ≤ toks.length)
    (hch : ∀ c ∈ children, c.s < toks.length) :
    ∃ len, countLines toks s children = .ok len ∧
      len ≤ countDistinct (((toks.drop s.hdr.rng.s).take (s.blk.e - s.hdr.rng.s)).map (·.line)) ∧
      (s.hdr.rng.s < s.blk.e → (∀ c ∈ children, s.hdr.rng.s < c.s) → 1 ≤ len) :=
  countLines_spec h1 h2 hch

/-! ## non-vacuity -/

/-- the tokens of `int f() {\n}\nint g() {\n}\n` (C) -/
def cToks : List Tok :=
  [kwT [105,110,116] 1 1, wsT [32] 1 4, nmT [102] 1 5, puT [40] 1 6, puT [41] 1 7, wsT [32] 1 8,
   puT [123] 1 9, wsT [10] 1 10, puT [125] 2 1, wsT [10] 2 2,
   kwT [105,110,116] 3 1, wsT [32] 3 4, nmT [103] 3 5, puT [40] 3 6, puT [41] 3 7, wsT [32] 3 8,
   puT [123] 3 9, wsT [10] 3 10, puT [125] 4 1, wsT [10] 4 2]

/-- the tokens of `def f():\n  pass\ndef g():\n  pass\n` (Python) -/
def pyToks : List Tok :=
  [kwT [100,101,102] 1 1, wsT [32] 1 4, nmT [102] 1 5, puT [40] 1 6, puT [41] 1 7, puT [58] 1 8,
   wsT [10] 1 9, wsT [32,32] 2 1, kwT [112,97,115,115] 2 3, wsT [10] 2 7,
   kwT [100,101,102] 3 1, wsT [32] 3 4, nmT [103] 3 5, puT [40] 3 6, puT [41] 3 7, puT [58] 3 8,
   wsT [10] 3 9, wsT [32,32] 4 1, kwT [112,97,115,115] 4 3, wsT [10] 4 7]

/-- the code tokens of `function f() {\n}\nconst g = () => {\n}` (JavaScript, both patterns) -/
def jsToks : List Tok :=
  [kwT [102,117,110,99,116,105,111,110] 1 1, nmT [102] 1 10, puT [40] 1 11, puT [41] 1 12,
   puT [123] 1 14, puT [125] 2 1,
   kwT [99,111,110,115,116] 3 1, nmT [103] 3 7, opT [61] 3 9, puT [40] 3 11, puT [41] 3 12,
   puT [61,62] 3 14, puT [123] 3 17, puT [125] 4 1]

/-- C: all hypotheses hold on a file with two functions, and the conclusions follow -/
example :
    let ms : List Measurement := [⟨[102], 1, 5, 2, 2, 2⟩, ⟨[103], 3, 5, 4, 2, 2⟩]
    scanFile Gen.c cToks = .ok ms ∧
    (∀ m ∈ ms, MeasurementWF (filterTokens false cToks) m) ∧
    (∀ m ∈ ms, (m.sl < m.el ∨ (m.sl = m.el ∧ m.sc < m.ec)) ∧ m.sl ≤ m.el) ∧
    ms.Pairwise (fun a b => a.sl < b.sl ∨ (a.sl = b.sl ∧ a.sc < b.sc)) := by
  have hL : Gen.c ∈ Gen.all.map (·.2) := by simp [Gen.all]
  have hscan : scanFile Gen.c cToks = .ok [⟨[102], 1, 5, 2, 2, 2⟩, ⟨[103], 3, 5, 4, 2, 2⟩] :=
    scanFile_eval (by decide +kernel)
  have hpos : (filterTokens false cToks).Pairwise
      (fun a b => a.line < b.line ∨ (a.line = b.line ∧ a.col < b.col)) := by decide +kernel
  have hval : ∀ t ∈ filterTokens false cToks, t.val ≠ [] := by decide +kernel
  exact ⟨hscan, measurement_wf_brace _ hL rfl _ _ hscan, line_order _ hL _ _ hpos hval hscan,
    source_order _ hL _ _ hpos hscan⟩

/-- Python: two functions -/
example :
    let ms : List Measurement := [⟨[102], 1, 1, 2, 7, 2⟩, ⟨[103], 3, 1, 4, 7, 2⟩]
    scanFile Gen.python pyToks = .ok ms ∧
    (∀ m ∈ ms, MeasurementWF (filterTokens false pyToks) m) ∧
    (∀ m ∈ ms, (m.sl < m.el ∨ (m.sl = m.el ∧ m.sc < m.ec)) ∧ m.sl ≤ m.el) ∧
    ms.Pairwise (fun a b => a.sl < b.sl ∨ (a.sl = b.sl ∧ a.sc < b.sc)) := by
  have hL : Gen.python ∈ Gen.all.map (·.2) := by simp [Gen.all]
  have hscan : scanFile Gen.python pyToks = .ok [⟨[102], 1, 1, 2, 7, 2⟩, ⟨[103], 3, 1, 4, 7, 2⟩] :=
    scanFile_eval (by decide +kernel)
  have hpos : (filterTokens false pyToks).Pairwise
      (fun a b => a.line < b.line ∨ (a.line = b.line ∧ a.col < b.col)) := by decide +kernel
  have hval : ∀ t ∈ filterTokens false pyToks, t.val ≠ [] := by decide +kernel
  exact ⟨hscan, measurement_wf _ hL _ _ hpos hscan, line_order _ hL _ _ hpos hval hscan,
    source_order _ hL _ _ hpos hscan⟩

/-- JavaScript: one function per header pattern; `hdist` holds -/
example :
    let ms : List Measurement := [⟨[102], 1, 1, 2, 2, 2⟩, ⟨[103], 3, 1, 4, 2, 2⟩]
    scanFile Gen.javascript jsToks = .ok ms ∧
    (∀ m ∈ ms, MeasurementWF (filterTokens false jsToks) m) ∧
    ms.Pairwise (fun a b => a.sl < b.sl ∨ (a.sl = b.sl ∧ a.sc < b.sc)) := by
  have hL : Gen.javascript ∈ Gen.all.map (·.2) := by simp [Gen.all]
  have hscan : scanFile Gen.javascript jsToks =
      .ok [⟨[102], 1, 1, 2, 2, 2⟩, ⟨[103], 3, 1, 4, 2, 2⟩] := scanFile_eval (by decide +kernel)
  have hpos : (filterTokens false jsToks).Pairwise
      (fun a b => a.line < b.line ∨ (a.line = b.line ∧ a.col < b.col)) := by decide +kernel
  have hex : ∃ hs, extractHeaders Gen.javascript (filterTokens false jsToks) = .ok hs ∧
      (decide ((hs.map (fun h : Header => h.rng.s)).Nodup) && hs.length == 2) = true :=
    okSat_sound (p := fun hs : List Header =>
      decide ((hs.map (fun h : Header => h.rng.s)).Nodup) && hs.length == 2) (by decide +kernel)
  obtain ⟨hs, hhs, hp⟩ := hex
  have hdist : (hs.map (·.rng.s)).Nodup := by
    simp only [Bool.and_eq_true, decide_eq_true_eq] at hp; exact hp.1
  exact ⟨hscan, measurement_wf_brace _ hL rfl _ _ hscan,
    source_order_partial _ hL _ _ _ hpos hhs hdist hscan⟩

/-- JavaScript again, through the general theorem -/
example : ([⟨[102], 1, 1, 2, 2, 2⟩, ⟨[103], 3, 1, 4, 2, 2⟩] : List Measurement).Pairwise
    (fun a b => a.sl < b.sl ∨ (a.sl = b.sl ∧ a.sc < b.sc)) :=
  source_order Gen.javascript (by simp [Gen.all]) jsToks _ (by decide +kernel)
    (scanFile_eval (by decide +kernel))

/-- an instance of `total_is_sum`: the C text `f(){\n}\ng(){\n}` with its raw tokens is analysed
to two functions of 2 lines each, total 4 -/
example :
    let code : Str := [102, 40, 41, 123, 10, 125, 10, 103, 40, 41, 123, 10, 125]
    let raw : List RawTok :=
      [⟨0, 2, 2, [102]⟩, ⟨1, 3, 3, [40]⟩, ⟨2, 3, 3, [41]⟩, ⟨3, 3, 3, [123]⟩, ⟨4, 6, 6, [10]⟩, ⟨5, 3, 3, [125]⟩,
       ⟨6, 6, 6, [10]⟩, ⟨7, 2, 2, [103]⟩, ⟨8, 3, 3, [40]⟩, ⟨9, 3, 3, [41]⟩, ⟨10, 3, 3, [123]⟩, ⟨11, 6, 6, [10]⟩,
       ⟨12, 3, 3, [125]⟩]
    ∃ ms n, analyze Gen.c code raw = .ok (ms, n) ∧ ms.map (·.len) = [2, 2] ∧ n = 4 := by
  intro code raw
  have h : analyze Gen.c code raw = .ok ([⟨[102], 1, 1, 2, 2, 2⟩, ⟨[103], 3, 1, 4, 2, 2⟩], 4) := by
    unfold analyze
    rw [scanFile_eval (ms := [⟨[102], 1, 1, 2, 2, 2⟩, ⟨[103], 3, 1, 4, 2, 2⟩]) (by decide +kernel)]
    rfl
  exact ⟨_, _, h, rfl, total_is_sum _ _ _ _ _ h ▸ rfl⟩

end CL.C05
