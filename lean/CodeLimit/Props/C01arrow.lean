import CodeLimit.Props.C01full
import CodeLimit.Lemmas.ProgTreeCanonArrow2Disc
import CodeLimit.Lemmas.ProgTreeCanonArrow2Bare
/-!
# C01 end to end for JavaScript / TypeScript forests WITH assigned arrow functions

`Props/C01full.lean` discharges the discovery hypothesis of `C01tree.scan_of_tree_partial` for
JavaScript and TypeScript on forests in which the second shipped header pattern (the arrow pattern
`[const] Name = [async] ( … )+`, follow-up `=>` `{`) finds nothing.  Here function NODES may be
assigned arrow functions: `const f = ( a ) => { … }`, `f = async ( a ) => { … }` (header
`[const] f = [async] ( a )`, gap exactly the symbol `=>`, named by the Name token).

The fragments `Prog.CanonJsArrow` / `Prog.CanonTsArrow` (`Spec/ProgTreeCanonArrow.lean`; decidable,
tree only) say:

* the token sequence of the file has balanced parentheses;
* READ WITH EVERY ARROW NODE AS TOKENS AND A BRACE GROUP (`Prog.plain`, same token sequence), the
  forest satisfies the clauses of the function / method pattern of `CanonJs` / `CanonTs`
  (`canonWith cfgJs` / `cfgTs`): function / method nodes `[function] name ( … )+` without call-shaped
  group, gap empty (TypeScript: or `: T …`); no false header `Name ( … )+ {` (TypeScript: or
  `Name ( … )+ : … {`) anywhere, the tokens of arrow headers included; balanced brace groups;
* `arrowsOK`: a function node whose gap is `=>` (an ARROW node) has the header
  `[const] Name = [async] ( … )+`, named by the Name token, in which no Name token after the name is
  directly followed by `= (` / `= async (`; the keyword `const` does not stand directly in front of
  an arrow node that starts with its name; no Name token outside the headers is followed by
  `= [async] ( … )+ => { … }` (a false arrow header); in the header of a function / method node no
  Name token after the name is followed by `= [async] ( … )+ => {`.

Results, for EVERY such forest (with `wfCore`, `noAdj`):

* A1 `discovery_of_canon_js_arrow`, `discovery_of_canon_ts_arrow` - `extract_headers` returns exactly
  the headers of the function / method nodes in source order, followed by the headers of the arrow
  nodes in source order; `discovery_perm`: a permutation of the headers of all function nodes;
* A2 `scan_js_arrow_of_canon_tree`, `scan_ts_arrow_of_canon_tree` - `scan_file` returns exactly the
  tree report;
* A3 `scan_js_arrow_of_rendered_canon_tree`, `scan_ts_arrow_of_rendered_canon_tree` (and `…_nodes`) -
  the same for the rendering of a forest of tokens without locations;
* non-vacuity: `Ex.arrowFull` (JavaScript: a method with a default value in parentheses,
  `const a = ( x ) => { function b ( ) { … } … }`,
  an `async` arrow at nesting depth 3 with a call in its parameter list, a callback arrow
  `arr . map ( ( y ) => { … } )` that is a brace group, an arrow with two parenthesis groups behind
  `e .`), `Ex.tsArrowFull` (TypeScript: typed parameter, return type annotations, an arrow with a
  return type annotation that is NOT reported and is a brace group) satisfy the hypotheses by
  `decide`, and the conclusions agree with the kernel evaluation of `scanFile`;
* every clause is needed (kernel-checked witnesses): `arrow_kf1_clause` (a FINDING:
  `const f = ( a = ( b ) ) => { }` is not reported at all), `const_in_front_clause`,
  `false_arrow_clause`, `default_arrow_clause`, `method_in_arrow_header_clause`,
  `ts_ternary_in_arrow_header` (TypeScript reports `g` instead of `f` for
  `const f = ( a = c ? g ( 1 ) : d ) => { }`); and
  `false_arrow_clause_not_necessary` shows a forest outside the fragment on which `scan_file` still
  returns the tree report (the clauses are sufficient, not necessary);
* negation forms `¬ ∀ …` with ONE clause of `arrowsOK` switched off (`arrowsOKP`):
  `arrow_kf1_clause_needed`, `const_in_front_clause_needed`, `false_arrow_clause_needed`,
  `default_arrow_clause_needed`.

Naming as in `Props/C01full.lean`: no `_partial`, the hypotheses are decidable conditions on the
input tree; the token-list level (all token lists, no trees) is `C01syn.js_arrow_header_complete` /
`js_header_sound`.
-/
namespace CL.C01arrow
open CL.C01tree CL.C01full

/-! ## A1: discovery -/

/-- **A1 for JavaScript.**  Let `p` be a forest of located tokens that is structurally well-formed
(`wfCore`), has no function directly followed by a brace group (`noAdj`) and lies in
`CanonJsArrow`.  Then `extract_headers` of JavaScript on the token sequence of `p` succeeds and
returns exactly: the headers (token range and name token) of the function / method nodes of `p` in
source order, followed by the headers of the arrow nodes of `p` in source order.  Every function
node is found, each once, and nothing else; a header `const f = ( … )` is reported from the
keyword `const` on, named by `f`. -/
theorem discovery_of_canon_js_arrow {p : Prog Tok}
    (hc : p.CanonJsArrow = true) (hw : p.wfCore = true) (ha : p.noAdj = true) :
    extractHeaders Gen.javascript p.flat
      = .ok (p.funFns.map (·.hdr) ++ p.arrowFns.map (·.hdr)) := by
  obtain ⟨hs, h⟩ := C15.extractHeaders_total Gen.javascript js_shipped p.flat
  rw [h, js_arrow_headers hw ha hc h]

/-- **A1 for TypeScript**: as for JavaScript, with an optional return type annotation `: T …`
between the header of a function / method node and its body (`CanonTsArrow`); the gap of an arrow
node is exactly `=>`. -/
theorem discovery_of_canon_ts_arrow {p : Prog Tok}
    (hc : p.CanonTsArrow = true) (hw : p.wfCore = true) (ha : p.noAdj = true) :
    extractHeaders Gen.typescript p.flat
      = .ok (p.funFns.map (·.hdr) ++ p.arrowFns.map (·.hdr)) := by
  obtain ⟨hs, h⟩ := C15.extractHeaders_total Gen.typescript ts_shipped p.flat
  rw [h, ts_arrow_headers hw ha hc h]

/-- the returned list is a permutation of the headers of ALL function nodes (source order is lost
where an arrow node precedes a function / method node: the results of the two patterns are
concatenated) -/
theorem discovery_perm (p : Prog Tok) :
    (p.funFns.map (·.hdr) ++ p.arrowFns.map (·.hdr)).Perm (p.fns.map (·.hdr)) :=
  funFns_arrowFns_perm p

/-! ## A2: the whole of `scan_file` -/

/-- **A2 for JavaScript.  `scan_file` returns the tree report.**  Let `p` be a forest of located
tokens in `CanonJsArrow`, structurally well-formed, without a function directly followed by a brace
group, with strictly increasing token locations; let `all` be a token list whose code tokens are the
token sequence of `p`, no function of `p` being marked with a suppression comment.  Then `scan_file`
of JavaScript returns exactly `treeReport p`: every function node - methods, `function`
declarations and assigned arrow functions -, in source order, each with its own lines.  No
hypothesis about the matcher remains. -/
theorem scan_js_arrow_of_canon_tree {all : List Tok} {p : Prog Tok}
    (hc : p.CanonJsArrow = true) (hw : p.wfCore = true) (ha : p.noAdj = true)
    (hpos : PosSorted p.flat) (hcode : filterTokens false all = p.flat)
    (hm : ∀ f ∈ p.fns, ¬ Marked all f.hdr.name.line) :
    scanFile Gen.javascript all = .ok (treeReport p) :=
  scan_of_tree_partial (L := Gen.javascript) rfl hw ha hpos hcode
    (discovery_of_canon_js_arrow hc hw ha) (discovery_perm p) hm

/-- **A2 for TypeScript**: `scan_file` returns exactly `treeReport p`. -/
theorem scan_ts_arrow_of_canon_tree {all : List Tok} {p : Prog Tok}
    (hc : p.CanonTsArrow = true) (hw : p.wfCore = true) (ha : p.noAdj = true)
    (hpos : PosSorted p.flat) (hcode : filterTokens false all = p.flat)
    (hm : ∀ f ∈ p.fns, ¬ Marked all f.hdr.name.line) :
    scanFile Gen.typescript all = .ok (treeReport p) :=
  scan_of_tree_partial (L := Gen.typescript) rfl hw ha hpos hcode
    (discovery_of_canon_ts_arrow hc hw ha) (discovery_perm p) hm

/-! ## A3: rendered forests -/

/-- **A3 for JavaScript.**  Let `p` be ANY forest of tokens without locations (line breaks and
blank columns arbitrary) that lies in `CanonJsArrow`, is structurally well-formed, has no function
directly followed by a brace group and consists of code tokens - four decidable conditions that do
not mention locations.  Then `scan_file` of JavaScript on the rendering of `p` returns exactly the
tree report of the located forest. -/
theorem scan_js_arrow_of_rendered_canon_tree {p : Prog PTok}
    (hc : p.bare.CanonJsArrow = true) (hw : p.bare.wfCore = true) (ha : p.noAdj = true)
    (hcode : p.bare.allCode = true) :
    scanFile Gen.javascript (render p) = .ok (treeReport p.located) := by
  have hw' : p.located.wfCore = true := by rw [Prog.located, wfCore_locate]; exact hw
  have ha' : p.located.noAdj = true := by rw [Prog.located, noAdj_locate]; exact ha
  have hc' : p.located.CanonJsArrow = true := by rw [Prog.located, canonJsArrow_locate]; exact hc
  exact scan_of_rendered_tree_partial (L := Gen.javascript) rfl hw ha hcode
    (discovery_of_canon_js_arrow hc' hw' ha') (discovery_perm _)

/-- **A3 for TypeScript** -/
theorem scan_ts_arrow_of_rendered_canon_tree {p : Prog PTok}
    (hc : p.bare.CanonTsArrow = true) (hw : p.bare.wfCore = true) (ha : p.noAdj = true)
    (hcode : p.bare.allCode = true) :
    scanFile Gen.typescript (render p) = .ok (treeReport p.located) := by
  have hw' : p.located.wfCore = true := by rw [Prog.located, wfCore_locate]; exact hw
  have ha' : p.located.noAdj = true := by rw [Prog.located, noAdj_locate]; exact ha
  have hc' : p.located.CanonTsArrow = true := by rw [Prog.located, canonTsArrow_locate]; exact hc
  exact scan_of_rendered_tree_partial (L := Gen.typescript) rfl hw ha hcode
    (discovery_of_canon_ts_arrow hc' hw' ha') (discovery_perm _)

/-- A3 for a list of rose-tree nodes of tokens without locations (JavaScript) -/
theorem scan_js_arrow_of_rendered_canon_nodes (ns : List (Node PTok))
    (hc : (Prog.ofNodes ns).bare.CanonJsArrow = true) (hw : (Prog.ofNodes ns).bare.wfCore = true)
    (ha : (Prog.ofNodes ns).noAdj = true) (hcode : (Prog.ofNodes ns).bare.allCode = true) :
    scanFile Gen.javascript (render (Prog.ofNodes ns))
      = .ok (treeReport (Prog.ofNodes ns).located) :=
  scan_js_arrow_of_rendered_canon_tree hc hw ha hcode

/-- A3 for a list of rose-tree nodes of tokens without locations (TypeScript) -/
theorem scan_ts_arrow_of_rendered_canon_nodes (ns : List (Node PTok))
    (hc : (Prog.ofNodes ns).bare.CanonTsArrow = true) (hw : (Prog.ofNodes ns).bare.wfCore = true)
    (ha : (Prog.ofNodes ns).noAdj = true) (hcode : (Prog.ofNodes ns).bare.allCode = true) :
    scanFile Gen.typescript (render (Prog.ofNodes ns))
      = .ok (treeReport (Prog.ofNodes ns).located) :=
  scan_ts_arrow_of_rendered_canon_tree hc hw ha hcode

/-- the example forests of `Props/C01full.lean` (no assigned arrow functions, hence no arrow nodes)
and the JavaScript tree of `Props/C01tree.lean` (one arrow node; its discovery hypothesis was
discharged there by kernel evaluation) lie in the new fragments, too -/
example : C01full.Ex.jsFull.bare.CanonJsArrow = true ∧ C01full.Ex.tsFull.bare.CanonTsArrow = true ∧
    C01tree.Ex.jsTree.bare.CanonJsArrow = true ∧ C01tree.Ex.jsTree.bare.CanonJs = false := by
  decide +kernel

/-! ## non-vacuity -/

namespace Ex
open CL.C01tree.Ex

def kFunction : Str := [102, 117, 110, 99, 116, 105, 111, 110]
def kConst : Str := [99, 111, 110, 115, 116]
def kAsync : Str := [97, 115, 121, 110, 99]
def kClass : Str := [99, 108, 97, 115, 115]
def kVoid : Str := [118, 111, 105, 100]

/-- the JavaScript file

```
 1  class A {
 2    m ( v = ( 0 ) ) { g ( v ) ; }                    a method; `= (` in its header, but no `=> {` behind
 3  }
 4  const a = ( x ) => {                               arrow node, header `const a = ( x )`, name index 1
 5    function b ( ) {                                 nested `function` node
 6      c = async ( y , z = h ( 1 ) ) => { w ; }       `async` arrow node at depth 3; a call in its parameter list
 7    }
 8    arr . map ( ( y ) => { u ; } ) ;                 callback arrow: tokens and a brace group, no function
 9    d = ( p ) ;                                      `= (` without `=> {`
10  }
11  e . f = ( ) ( ) => { r ; }                         arrow node named `f`, two parenthesis groups
```

as a forest of tokens without locations -/
def arrowFull : Prog PTok :=
  .toks [pt 1 kClass 0 0, pt 2 [65] 0 1] <|
  .group (pt 3 [123] 0 1) (pt 3 [125] 1 0)
      (.fn (.toks [pt 2 [109] 1 2, pt 3 [40] 0 1, pt 2 [118] 0 1, pt 4 [61] 0 1, pt 3 [40] 0 1,
                   pt 0 [48] 0 1, pt 3 [41] 0 1, pt 3 [41] 0 1] .nil) 0 []
          (pt 3 [123] 0 1) (pt 3 [125] 0 1)
          (.toks [pt 2 [103] 0 1, pt 3 [40] 0 1, pt 2 [118] 0 1, pt 3 [41] 0 1, pt 3 [59] 0 1]
            .nil) <|
      .nil) <|
  .fn (.toks [pt 1 kConst 1 0, pt 2 [97] 0 1, pt 4 [61] 0 1, pt 3 [40] 0 1, pt 2 [120] 0 1,
              pt 3 [41] 0 1] .nil) 1 [pt 3 [61, 62] 0 1] (pt 3 [123] 0 1) (pt 3 [125] 1 0)
      (.fn (.toks [pt 1 kFunction 1 2, pt 2 [98] 0 1, pt 3 [40] 0 1, pt 3 [41] 0 1] .nil) 1 []
          (pt 3 [123] 0 1) (pt 3 [125] 1 2)
          (.fn (.toks [pt 2 [99] 1 4, pt 4 [61] 0 1, pt 1 kAsync 0 1, pt 3 [40] 0 1, pt 2 [121] 0 1,
                       pt 3 [44] 0 1, pt 2 [122] 0 1, pt 4 [61] 0 1, pt 2 [104] 0 1, pt 3 [40] 0 1,
                       pt 0 [49] 0 1, pt 3 [41] 0 1, pt 3 [41] 0 1] .nil) 0 [pt 3 [61, 62] 0 1]
              (pt 3 [123] 0 1) (pt 3 [125] 0 1)
              (.toks [pt 2 [119] 0 1, pt 3 [59] 0 1] .nil) <|
          .nil) <|
      .toks [pt 2 [97, 114, 114] 1 2, pt 3 [46] 0 1, pt 2 [109, 97, 112] 0 1, pt 3 [40] 0 1,
             pt 3 [40] 0 1, pt 2 [121] 0 1, pt 3 [41] 0 1, pt 3 [61, 62] 0 1] <|
      .group (pt 3 [123] 0 1) (pt 3 [125] 0 1)
          (.toks [pt 2 [117] 0 1, pt 3 [59] 0 1] .nil) <|
      .toks [pt 3 [41] 0 1, pt 3 [59] 0 1,
             pt 2 [100] 1 2, pt 4 [61] 0 1, pt 3 [40] 0 1, pt 2 [112] 0 1, pt 3 [41] 0 1,
             pt 3 [59] 0 1] <|
      .nil) <|
  .toks [pt 2 [101] 1 0, pt 3 [46] 0 1] <|
  .fn (.toks [pt 2 [102] 0 1, pt 4 [61] 0 1, pt 3 [40] 0 1, pt 3 [41] 0 1, pt 3 [40] 0 1,
              pt 3 [41] 0 1] .nil) 0 [pt 3 [61, 62] 0 1] (pt 3 [123] 0 1) (pt 3 [125] 0 1)
      (.toks [pt 2 [114] 0 1, pt 3 [59] 0 1] .nil) <|
  .nil

/-- the example lies in `CanonJsArrow` and satisfies the other three hypotheses of A3; it does not
lie in the fragment `CanonJs` of `Props/C01full.lean` (it has assigned arrow functions) -/
theorem arrowFull_canon : arrowFull.bare.CanonJsArrow = true ∧ arrowFull.bare.wfCore = true ∧
    arrowFull.noAdj = true ∧ arrowFull.bare.allCode = true ∧ arrowFull.bare.CanonJs = false := by
  decide +kernel

/-- A3 applies ... -/
theorem arrowFull_scan :
    scanFile Gen.javascript (render arrowFull) = .ok (treeReport arrowFull.located) :=
  scan_js_arrow_of_rendered_canon_tree arrowFull_canon.1 arrowFull_canon.2.1 arrowFull_canon.2.2.1
    arrowFull_canon.2.2.2.1

/-- the tree report: `a` has 4 own lines (4, 8, 9, 10), `b` 2 (5, 7; line 6 belongs to `c`) -/
theorem arrowFull_treeReport : treeReport arrowFull.located
    = [⟨[109], 2, 3, 2, 32, 1⟩, ⟨[97], 4, 1, 10, 2, 4⟩, ⟨[98], 5, 3, 7, 4, 2⟩,
       ⟨[99], 6, 5, 6, 40, 1⟩, ⟨[102], 11, 5, 11, 26, 1⟩] := by
  decide +kernel

/-- ... and its conclusion agrees with the independent kernel evaluation of the model of `scan_file`
on the 85 tokens of the rendering: `m`, `a`, `b`, `c`, `f` are reported; the callback arrow in line 8,
the calls `g ( v )`, `h ( 1 )`, `map ( … )` and `d = ( p )` are not -/
theorem arrowFull_scan_eval : scanFile Gen.javascript (render arrowFull)
    = .ok [⟨[109], 2, 3, 2, 32, 1⟩, ⟨[97], 4, 1, 10, 2, 4⟩, ⟨[98], 5, 3, 7, 4, 2⟩,
       ⟨[99], 6, 5, 6, 40, 1⟩, ⟨[102], 11, 5, 11, 26, 1⟩] :=
  scanFile_eval (by decide +kernel)

example : (Except.ok (treeReport arrowFull.located) : Except Err _)
    = .ok [⟨[109], 2, 3, 2, 32, 1⟩, ⟨[97], 4, 1, 10, 2, 4⟩, ⟨[98], 5, 3, 7, 4, 2⟩,
       ⟨[99], 6, 5, 6, 40, 1⟩, ⟨[102], 11, 5, 11, 26, 1⟩] := by
  rw [← arrowFull_scan, arrowFull_scan_eval]

/-- A1 on the example: the function / method pattern finds `m` and `b`, the arrow pattern `a`, `c`
and `f`; the header of `a` is reported from the keyword `const` (token 19), the header of `c`
contains `async` and the call `h ( 1 )` (tokens 32-44) -/
example :
    extractHeaders Gen.javascript (render arrowFull)
      = .ok (arrowFull.located.funFns.map (·.hdr) ++ arrowFull.located.arrowFns.map (·.hdr)) ∧
    arrowFull.located.funFns.map (fun f => (f.hdr.name.val, f.hdr.rng.s, f.hdr.rng.e))
      = [([109], 3, 11), ([98], 27, 31)] ∧
    arrowFull.located.arrowFns.map (fun f => (f.hdr.name.val, f.hdr.rng.s, f.hdr.rng.e))
      = [([97], 19, 25), ([99], 32, 45), ([102], 74, 80)] ∧
    arrowFull.located.fns.map (fun f => (f.hdr.name.val, f.hdr.rng.s, f.hdr.rng.e))
      = [([109], 3, 11), ([97], 19, 25), ([98], 27, 31), ([99], 32, 45), ([102], 74, 80)] := by
  refine ⟨?_, by decide +kernel, by decide +kernel, by decide +kernel⟩
  have hw' : arrowFull.located.wfCore = true := by
    rw [Prog.located, wfCore_locate]; exact arrowFull_canon.2.1
  have ha' : arrowFull.located.noAdj = true := by
    rw [Prog.located, noAdj_locate]; exact arrowFull_canon.2.2.1
  exact discovery_of_canon_js_arrow
    (by rw [Prog.located, canonJsArrow_locate]; exact arrowFull_canon.1) hw' ha'

/-- the TypeScript file

```
1  const f = ( a : T ) => { x ; }              arrow node with a typed parameter
2  function g ( a ) : R { y ; }                `function` node with a return type annotation (gap `: R`)
3  const h = ( a ) : T => { z ; }              an arrow function WITH a return type annotation: the
                                               shipped follow-up `=>` `{` does not match after `)`,
                                               nothing is reported; tokens and a brace group
4  class A {
5    m ( ) : void {                            method with a return type annotation
6      k = async ( ) => { w ; }                nested `async` arrow node
7    }
8  }
```
-/
def tsArrowFull : Prog PTok :=
  .fn (.toks [pt 1 kConst 0 0, pt 2 [102] 0 1, pt 4 [61] 0 1, pt 3 [40] 0 1, pt 2 [97] 0 1,
              pt 4 [58] 0 1, pt 1 [84] 0 1, pt 3 [41] 0 1] .nil) 1 [pt 3 [61, 62] 0 1]
      (pt 3 [123] 0 1) (pt 3 [125] 0 1) (.toks [pt 2 [120] 0 1, pt 3 [59] 0 1] .nil) <|
  .fn (.toks [pt 1 kFunction 1 0, pt 2 [103] 0 1, pt 3 [40] 0 1, pt 2 [97] 0 1, pt 3 [41] 0 1]
        .nil) 1 [pt 4 [58] 0 1, pt 1 [82] 0 1] (pt 3 [123] 0 1) (pt 3 [125] 0 1)
      (.toks [pt 2 [121] 0 1, pt 3 [59] 0 1] .nil) <|
  .toks [pt 1 kConst 1 0, pt 2 [104] 0 1, pt 4 [61] 0 1, pt 3 [40] 0 1, pt 2 [97] 0 1,
         pt 3 [41] 0 1, pt 4 [58] 0 1, pt 1 [84] 0 1, pt 3 [61, 62] 0 1] <|
  .group (pt 3 [123] 0 1) (pt 3 [125] 0 1) (.toks [pt 2 [122] 0 1, pt 3 [59] 0 1] .nil) <|
  .toks [pt 1 kClass 1 0, pt 2 [65] 0 1] <|
  .group (pt 3 [123] 0 1) (pt 3 [125] 1 0)
      (.fn (.toks [pt 2 [109] 1 2, pt 3 [40] 0 1, pt 3 [41] 0 1] .nil) 0
          [pt 4 [58] 0 1, pt 1 kVoid 0 1] (pt 3 [123] 0 1) (pt 3 [125] 1 2)
          (.fn (.toks [pt 2 [107] 1 4, pt 4 [61] 0 1, pt 1 kAsync 0 1, pt 3 [40] 0 1,
                       pt 3 [41] 0 1] .nil) 0 [pt 3 [61, 62] 0 1] (pt 3 [123] 0 1) (pt 3 [125] 0 1)
              (.toks [pt 2 [119] 0 1, pt 3 [59] 0 1] .nil) <|
           .nil) <|
       .nil) <|
  .nil

/-- the example lies in `CanonTsArrow` (not in `CanonJsArrow`: gaps `: R`, `: void`; not in
`CanonTs`: assigned arrow functions) -/
theorem tsArrowFull_canon : tsArrowFull.bare.CanonTsArrow = true ∧
    tsArrowFull.bare.wfCore = true ∧ tsArrowFull.noAdj = true ∧
    tsArrowFull.bare.allCode = true ∧ tsArrowFull.bare.CanonJsArrow = false ∧
    tsArrowFull.bare.CanonTs = false := by
  decide +kernel

/-- A3 for TypeScript applies, and agrees with the kernel evaluation of the model of `scan_file` on
the 58 tokens of the rendering: `f`, `g`, `m`, `k` are reported, `h` is not -/
theorem tsArrowFull_scan :
    scanFile Gen.typescript (render tsArrowFull) = .ok (treeReport tsArrowFull.located) :=
  scan_ts_arrow_of_rendered_canon_tree tsArrowFull_canon.1 tsArrowFull_canon.2.1
    tsArrowFull_canon.2.2.1 tsArrowFull_canon.2.2.2.1

theorem tsArrowFull_scan_eval : scanFile Gen.typescript (render tsArrowFull)
    = .ok [⟨[102], 1, 1, 1, 26, 1⟩, ⟨[103], 2, 1, 2, 22, 1⟩, ⟨[109], 5, 3, 7, 4, 2⟩,
           ⟨[107], 6, 5, 6, 24, 1⟩] :=
  scanFile_eval (by decide +kernel)

example : (Except.ok (treeReport tsArrowFull.located) : Except Err _)
    = .ok [⟨[102], 1, 1, 1, 26, 1⟩, ⟨[103], 2, 1, 2, 22, 1⟩, ⟨[109], 5, 3, 7, 4, 2⟩,
           ⟨[107], 6, 5, 6, 24, 1⟩] := by
  rw [← tsArrowFull_scan, tsArrowFull_scan_eval]

end Ex

/-! ## the clauses are needed -/

open CL.Ex Ex

/-- the tree of `const f = ( a = ( b ) ) => { }`: ONE arrow node whose parameter list contains the
assignment-shaped group `a = ( b )` -/
def arrowKf1Tree : Prog Tok :=
  .fn (.toks [kwT kConst 1 1, nmT [102] 1 7, opT [61] 1 9, puT [40] 1 11, nmT [97] 1 13,
              opT [61] 1 15, puT [40] 1 17, nmT [98] 1 19, puT [41] 1 21, puT [41] 1 23] .nil) 1
    [puT [61, 62] 1 25] (puT [123] 1 28) (puT [125] 1 30) .nil .nil

/-- **The clause "no `Name = (` inside an arrow header" is needed - a finding (the analogue of KF1
for the arrow pattern).**  `arrowKf1Tree` is well-formed, balanced, its header has the shape
`const Name = ( … )` (`arrowShape`) and is followed by `=>` `{`; every clause of `CanonJsArrow` holds
except `noAssignOpen` inside the header.  The tree report lists `f`, but `scan_file` reports NOTHING:
inside the parameter list, `a = ( b )` is itself a match of the arrow pattern, finishes first and
discards the attempt that started at `const`; it then fails the follow-up test.  A default value in
parentheses makes the arrow function invisible. -/
theorem arrow_kf1_clause :
    arrowKf1Tree.wfCore = true ∧ arrowKf1Tree.noAdj = true ∧
    parenBal arrowKf1Tree.flat 0 = true ∧ arrowKf1Tree.plain.canonWith cfgJs false = true ∧
    arrowShape [kwT kConst 1 1, nmT [102] 1 7, opT [61] 1 9, puT [40] 1 11, nmT [97] 1 13,
      opT [61] 1 15, puT [40] 1 17, nmT [98] 1 19, puT [41] 1 21, puT [41] 1 23] 1 = true ∧
    arrowKf1Tree.arrowsOK false = false ∧ arrowKf1Tree.CanonJsArrow = false ∧
    treeReport arrowKf1Tree = [⟨[102], 1, 1, 1, 31, 1⟩] ∧
    scanFile Gen.javascript arrowKf1Tree.flat = .ok [] := by
  refine ⟨by decide, by decide, by decide, by decide, by decide, by decide, by decide,
    by decide +kernel, scanFile_eval (by decide +kernel)⟩

/-- the tree of `const f = ( a ) => { }` with the keyword `const` as a token IN FRONT of an arrow node
whose header is `f = ( a )` -/
def constFrontTree : Prog Tok :=
  .toks [kwT kConst 1 1] <|
  .fn (.toks [nmT [102] 1 7, opT [61] 1 9, puT [40] 1 11, nmT [97] 1 13, puT [41] 1 15] .nil) 0
    [puT [61, 62] 1 17] (puT [123] 1 20) (puT [125] 1 22) .nil .nil

/-- **The clause "`const` does not stand in front of an arrow node that starts with its name" is
needed.**  The matcher reports the header from the keyword `const` on, so the reported unit starts
at column 1, while the tree report of `constFrontTree` (header `f = ( a )` only) starts at column 7.
`CanonJsArrow` rejects `constFrontTree`; with the keyword inside the header (name index 1) it is
accepted. -/
theorem const_in_front_clause :
    constFrontTree.wfCore = true ∧ constFrontTree.noAdj = true ∧
    parenBal constFrontTree.flat 0 = true ∧ constFrontTree.plain.canonWith cfgJs false = true ∧
    constFrontTree.CanonJsArrow = false ∧
    treeReport constFrontTree = [⟨[102], 1, 7, 1, 23, 1⟩] ∧
    scanFile Gen.javascript constFrontTree.flat = .ok [⟨[102], 1, 1, 1, 23, 1⟩] ∧
    (Prog.fn (.toks [kwT kConst 1 1, nmT [102] 1 7, opT [61] 1 9, puT [40] 1 11, nmT [97] 1 13,
        puT [41] 1 15] .nil) 1 [puT [61, 62] 1 17] (puT [123] 1 20) (puT [125] 1 22) .nil
      .nil).CanonJsArrow = true := by
  refine ⟨by decide, by decide, by decide, by decide, by decide, by decide +kernel,
    scanFile_eval (by decide +kernel), by decide⟩

/-- the tokens of `C01full.jsArrowTree` (`a = ( x ) => { y ; }`) with the arrow function as a
function NODE -/
def jsArrowNode : Prog Tok :=
  .fn (.toks [nmT [97] 1 1, opT [61] 1 3, puT [40] 1 5, nmT [120] 1 7, puT [41] 1 9] .nil) 0
    [puT [61, 62] 1 11] (puT [123] 1 14) (puT [125] 1 22)
    (.toks [nmT [121] 1 16, puT [59] 1 18] .nil) .nil

/-- **The clause "no false arrow header" is needed.**  `C01full.jsArrowTree` - the tokens
`a = ( x ) =>` followed by a brace GROUP - satisfies every clause of `CanonJsArrow` except that one;
it has no function node, but `scan_file` reports `a` (`C01full.js_assigned_arrow_clause`).  The same
tokens with the arrow function as a function node (`jsArrowNode`) are in the fragment, and the tree
report is what `scan_file` returns. -/
theorem false_arrow_clause :
    jsArrowTree.wfCore = true ∧ jsArrowTree.noAdj = true ∧ parenBal jsArrowTree.flat 0 = true ∧
    jsArrowTree.plain.canonWith cfgJs false = true ∧ jsArrowTree.CanonJsArrow = false ∧
    treeReport jsArrowTree = [] ∧
    scanFile Gen.javascript jsArrowTree.flat = .ok [⟨[97], 1, 1, 1, 23, 1⟩] ∧
    jsArrowNode.flat = jsArrowTree.flat ∧ jsArrowNode.CanonJsArrow = true ∧
    treeReport jsArrowNode = [⟨[97], 1, 1, 1, 23, 1⟩] := by
  refine ⟨by decide, by decide, by decide, by decide, by decide, by decide,
    scanFile_eval (by decide +kernel), by decide, by decide, by decide +kernel⟩

/-- the tree of `function f ( a = ( b ) => { } ) { }`: one `function` node; the default value of its
parameter is an arrow function with a block body (a brace group inside the header) -/
def defaultArrowTree : Prog Tok :=
  .fn (.toks [kwT kFunction 1 1, nmT [102] 1 10, puT [40] 1 12, nmT [97] 1 14, opT [61] 1 16,
              puT [40] 1 18, nmT [98] 1 20, puT [41] 1 22, puT [61, 62] 1 24] <|
       .group (puT [123] 1 27) (puT [125] 1 29) .nil <|
       .toks [puT [41] 1 31] .nil) 1 [] (puT [123] 1 33) (puT [125] 1 35) .nil .nil

/-- **The clause on the headers of function / method nodes is needed.**  In
`function f ( a = ( b ) => { } ) { }` the arrow pattern finds `a = ( b )` followed by `=>` `{` inside
the header of `f` (a forest cannot have a function node inside a header), and `scan_file` reports
`a` as a second function.  Every other clause of `CanonJsArrow` holds.  (A default value in
parentheses without `=> {` behind it is harmless: `Ex.arrowFull`, line 2.) -/
theorem default_arrow_clause :
    defaultArrowTree.wfCore = true ∧ defaultArrowTree.noAdj = true ∧
    parenBal defaultArrowTree.flat 0 = true ∧
    defaultArrowTree.plain.canonWith cfgJs false = true ∧
    defaultArrowTree.CanonJsArrow = false ∧
    treeReport defaultArrowTree = [⟨[102], 1, 1, 1, 36, 1⟩] ∧
    scanFile Gen.javascript defaultArrowTree.flat
      = .ok [⟨[102], 1, 1, 1, 36, 1⟩, ⟨[97], 1, 14, 1, 30, 1⟩] := by
  refine ⟨by decide, by decide, by decide, by decide, by decide, by decide +kernel,
    scanFile_eval (by decide +kernel)⟩

/-- the tree of `const f = ( a = g ( x ) { } ) => { }`: one arrow node; inside its header the
call-shaped group `g ( x )` stands directly in front of a brace group -/
def methodInArrowTree : Prog Tok :=
  .fn (.toks [kwT kConst 1 1, nmT [102] 1 7, opT [61] 1 9, puT [40] 1 11, nmT [97] 1 13,
              opT [61] 1 15, nmT [103] 1 17, puT [40] 1 19, nmT [120] 1 21, puT [41] 1 23] <|
       .group (puT [123] 1 25) (puT [125] 1 27) .nil <|
       .toks [puT [41] 1 29] .nil) 1 [puT [61, 62] 1 31] (puT [123] 1 34) (puT [125] 1 36) .nil
    .nil

/-- **The two patterns interact only through `plain`: a false method header inside an arrow
header.**  `methodInArrowTree` satisfies the arrow-specific clauses (`arrowsOK`), but read as plain
tokens its header contains the false header `g ( x ) {` of the function / method pattern, and
`scan_file` reports `g` besides `f`.  This is why the function / method clauses are imposed on
`p.plain` (the tokens of arrow headers included) and not on the forest with arrow nodes skipped.  A
call in the parameter list that is NOT followed by `{` is harmless (`Ex.arrowFull`, line 6). -/
theorem method_in_arrow_header_clause :
    methodInArrowTree.wfCore = true ∧ methodInArrowTree.noAdj = true ∧
    parenBal methodInArrowTree.flat 0 = true ∧ methodInArrowTree.arrowsOK false = true ∧
    methodInArrowTree.plain.canonWith cfgJs false = false ∧
    methodInArrowTree.CanonJsArrow = false ∧
    treeReport methodInArrowTree = [⟨[102], 1, 1, 1, 37, 1⟩] ∧
    scanFile Gen.javascript methodInArrowTree.flat
      = .ok [⟨[102], 1, 1, 1, 37, 1⟩, ⟨[103], 1, 17, 1, 28, 1⟩] := by
  refine ⟨by decide, by decide, by decide, by decide, by decide, by decide, by decide +kernel,
    scanFile_eval (by decide +kernel)⟩

/-- the tree of `const f = ( a = c ? g ( 1 ) : d ) => { }`: one arrow node whose parameter has a
conditional expression as default value -/
def tsTernaryArrowTree : Prog Tok :=
  .fn (.toks [kwT kConst 1 1, nmT [102] 1 7, opT [61] 1 9, puT [40] 1 11, nmT [97] 1 13,
              opT [61] 1 15, nmT [99] 1 17, opT [63] 1 19, nmT [103] 1 21, puT [40] 1 23,
              ⟨0, 0, [49], 1, 25⟩, puT [41] 1 27, opT [58] 1 29, nmT [100] 1 31, puT [41] 1 33]
        .nil) 1 [puT [61, 62] 1 35] (puT [123] 1 38) (puT [125] 1 40) .nil .nil

/-- **TypeScript: the follow-up `: … {` of the function / method pattern reaches the body brace of an
arrow function** (known finding KF3, `C01full.ts_ternary_false_header`, in an arrow header).  In
`const f = ( a = c ? g ( 1 ) : d ) => { }` the call `g ( 1 )` is followed by `:` and, with no `;` in
between, by the `{` of the body of `f`: TypeScript's `extract_headers` returns `g ( 1 )` besides the
header of `f`, and `scan_file` reports the unit `g` INSTEAD OF `f` (the body goes to the nearer
header).  `CanonTsArrow` rejects the tree (false header at `g`, seen through `plain`); JavaScript
(`CanonJsArrow` holds) reports `f`. -/
theorem ts_ternary_in_arrow_header :
    tsTernaryArrowTree.wfCore = true ∧ tsTernaryArrowTree.noAdj = true ∧
    tsTernaryArrowTree.arrowsOK false = true ∧ tsTernaryArrowTree.CanonTsArrow = false ∧
    tsTernaryArrowTree.CanonJsArrow = true ∧
    treeReport tsTernaryArrowTree = [⟨[102], 1, 1, 1, 41, 1⟩] ∧
    scanFile Gen.typescript tsTernaryArrowTree.flat = .ok [⟨[103], 1, 21, 1, 41, 1⟩] ∧
    scanFile Gen.javascript tsTernaryArrowTree.flat = .ok [⟨[102], 1, 1, 1, 41, 1⟩] := by
  refine ⟨by decide, by decide, by decide, by decide, by decide, by decide +kernel,
    scanFile_eval (by decide +kernel), scanFile_eval (by decide +kernel)⟩

/-- the tree of `x = ( y = ( a ) => { } ) => { }`: the inner arrow function is an arrow node inside
the parentheses, the outer one is tokens and a brace group -/
def nestedFalseTree : Prog Tok :=
  .toks [nmT [120] 1 1, opT [61] 1 3, puT [40] 1 5] <|
  .fn (.toks [nmT [121] 1 7, opT [61] 1 9, puT [40] 1 11, nmT [97] 1 13, puT [41] 1 15] .nil) 0
    [puT [61, 62] 1 17] (puT [123] 1 20) (puT [125] 1 22) .nil <|
  .toks [puT [41] 1 24, puT [61, 62] 1 26] <|
  .group (puT [123] 1 29) (puT [125] 1 31) .nil .nil

/-- **The clauses are sufficient, not necessary.**  In `nestedFalseTree` the Name token `x` starts a
false arrow header (`x = ( … ) => {`), so `CanonJsArrow` rejects the forest; but the inner match
`y = ( a )` finishes first and discards the attempt that started at `x`, so `scan_file` reports `y`
only - exactly the tree report.  (The outer arrow function is lost for the same reason as in
`arrow_kf1_clause`.) -/
theorem false_arrow_clause_not_necessary :
    nestedFalseTree.wfCore = true ∧ nestedFalseTree.noAdj = true ∧
    nestedFalseTree.CanonJsArrow = false ∧
    treeReport nestedFalseTree = [⟨[121], 1, 7, 1, 23, 1⟩] ∧
    scanFile Gen.javascript nestedFalseTree.flat = .ok [⟨[121], 1, 7, 1, 23, 1⟩] := by
  refine ⟨by decide, by decide, by decide, by decide +kernel, scanFile_eval (by decide +kernel)⟩

/-! ## the clauses are needed: negation forms

To ISOLATE a clause of `Prog.arrowsOK`, `arrowsOKP kf1 cf fa da` is `arrowsOK` with four switches:
`kf1 = false` weakens `arrowHeaderOK` to `arrowShape` (drops "no `Name = [async] (` inside an arrow
header"), `cf = false` drops "`const` does not stand in front of an arrow node that starts with its
name", `fa = false` drops "no false arrow header", `da = false` drops "no `= [async] ( … ) => {`
inside the header of a function / method node".  With all switches on it IS `arrowsOK`
(`arrowsOKP_eq`).  Each theorem below states that the end-to-end theorem A2 with ONE clause switched
off is false. -/

/-- `Prog.arrowsOK` with four switches -/
def arrowsOKP (kf1 cf fa da : Bool) : Bool → Prog Tok → Bool
  | _, .nil => true
  | _, .leaf t rest =>
    !(fa && t.isName && rest.plain.falseArrowAfter) && arrowsOKP kf1 cf fa da (t.isKw kwConstS) rest
  | _, .group _ _ items rest => arrowsOKP kf1 cf fa da false items && arrowsOKP kf1 cf fa da false rest
  | pc, .fn hdr k gap _ _ body rest =>
    (if arrowGap gap then
        (if kf1 then arrowHeaderOK hdr.flat k else arrowShape hdr.flat k) && !(cf && pc && k == 0)
     else (!da || noArrowStart (hdr.flat.drop (k + 1))))
      && arrowsOKP kf1 cf fa da false body && arrowsOKP kf1 cf fa da false rest

/-- with all switches on, `arrowsOKP` is `Prog.arrowsOK` -/
theorem arrowsOKP_eq : ∀ (p : Prog Tok) (pc : Bool), arrowsOKP true true true true pc p = p.arrowsOK pc
  | .nil, _ => rfl
  | .leaf t rest, pc => by
    simp only [arrowsOKP, Prog.arrowsOK, Bool.true_and, arrowsOKP_eq rest]
  | .group _ _ items rest, pc => by
    simp only [arrowsOKP, Prog.arrowsOK, arrowsOKP_eq items, arrowsOKP_eq rest]
  | .fn hdr k gap _ _ body rest, pc => by
    simp only [arrowsOKP, Prog.arrowsOK, arrowsOKP_eq body, arrowsOKP_eq rest, if_true,
      Bool.true_and, Bool.not_true, Bool.false_or]

/-- **"No `Name = [async] (` inside an arrow header" is needed** (the arrow analogue of KF1; witness
`arrow_kf1_clause`): A2 with that clause dropped is FALSE. -/
theorem arrow_kf1_clause_needed :
    ¬ ∀ (p : Prog Tok), parenBal p.flat 0 = true → p.plain.canonWith cfgJs false = true →
      arrowsOKP false true true true false p = true →
      p.wfCore = true → p.noAdj = true → PosSorted p.flat → p.allCode = true →
      scanFile Gen.javascript p.flat = .ok (treeReport p) := by
  intro h
  obtain ⟨h1, h2, h3, h4, _, _, _, h8, h9⟩ := arrow_kf1_clause
  have := h arrowKf1Tree h3 h4 (by decide) h1 h2 (by unfold PosSorted; decide) (by decide)
  rw [h9, h8] at this
  cases this

/-- **"`const` does not stand in front of an arrow node that starts with its name" is needed**
(witness `const_in_front_clause`). -/
theorem const_in_front_clause_needed :
    ¬ ∀ (p : Prog Tok), parenBal p.flat 0 = true → p.plain.canonWith cfgJs false = true →
      arrowsOKP true false true true false p = true →
      p.wfCore = true → p.noAdj = true → PosSorted p.flat → p.allCode = true →
      scanFile Gen.javascript p.flat = .ok (treeReport p) := by
  intro h
  obtain ⟨h1, h2, h3, h4, _, h6, h7, _⟩ := const_in_front_clause
  have := h constFrontTree h3 h4 (by decide) h1 h2 (by unfold PosSorted; decide) (by decide)
  rw [h7, h6] at this
  revert this
  decide

/-- **"No false arrow header" is needed** (witness `false_arrow_clause`). -/
theorem false_arrow_clause_needed :
    ¬ ∀ (p : Prog Tok), parenBal p.flat 0 = true → p.plain.canonWith cfgJs false = true →
      arrowsOKP true true false true false p = true →
      p.wfCore = true → p.noAdj = true → PosSorted p.flat → p.allCode = true →
      scanFile Gen.javascript p.flat = .ok (treeReport p) := by
  intro h
  obtain ⟨h1, h2, h3, h4, _, h6, h7, _⟩ := false_arrow_clause
  have := h jsArrowTree h3 h4 (by decide) h1 h2 (by unfold PosSorted; decide) (by decide)
  rw [h7, h6] at this
  cases this

/-- **"No `= [async] ( … ) => {` inside the header of a function / method node" is needed**
(witness `default_arrow_clause`). -/
theorem default_arrow_clause_needed :
    ¬ ∀ (p : Prog Tok), parenBal p.flat 0 = true → p.plain.canonWith cfgJs false = true →
      arrowsOKP true true true false false p = true →
      p.wfCore = true → p.noAdj = true → PosSorted p.flat → p.allCode = true →
      scanFile Gen.javascript p.flat = .ok (treeReport p) := by
  intro h
  obtain ⟨h1, h2, h3, h4, _, h6, h7⟩ := default_arrow_clause
  have := h defaultArrowTree h3 h4 (by decide) h1 h2 (by unfold PosSorted; decide) (by decide)
  rw [h7, h6] at this
  revert this
  decide

/-- the four witnesses violate `arrowsOK` itself -/
example : arrowKf1Tree.arrowsOK false = false ∧ constFrontTree.arrowsOK false = false ∧
    jsArrowTree.arrowsOK false = false ∧ defaultArrowTree.arrowsOK false = false := by decide

end CL.C01arrow
