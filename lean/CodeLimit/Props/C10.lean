import CodeLimit.Props.C09
import CodeLimit.Lemmas.CacheToy
/-!
# C10 - a damaged or partial cache never breaks or taints the next scan

Model: `Model/Cache.lean`.  `scan` is a total function: the only step of `scan_command` that
depends on the bytes of the cache file is `_read_cached_report`, modelled by
`readCachedReport`, which maps every damaged file to "no cache" (the `try/except` and
`_is_well_formed`); that the real function does so for every fault class is the correspondence
part of this property.  The link from bytes to the abstract cache file is the explicit contract
`ByteContract`, restricted to the reports a scan can write; its instance for the real reader and
writer of `Model/Pipeline.lean` is `C10real.real_contract` (Props/C10real.lean).
-/
set_option linter.unusedSectionVars false

namespace CL.C10
open CL.Cache

section
variable {Path Content Hash Entry Excl Version : Type}
variable [DecidableEq Path] [DecidableEq Hash] [DecidableEq Version]
variable (P : Params Path Content Hash Entry Excl Version)

/-- **C10.1** If the cache file is missing (also: directory without file), unreadable (empty,
truncated, not JSON, wrong shape), ill-typed, or a document of another version with arbitrary
entries, the next scan analyses every selected file, reports exactly the fresh report and
leaves `doc cur (fresh report)` behind, which is honest and usable.  No hypothesis on the
checksum is needed.
(What this theorem does NOT carry: "the scan completes" is true here because `Cache.scan` is a
total function, and "missing / junk / other version is not used" is the definition of
`readCachedReport`.  That the REAL reader classifies every damaged byte string that way and never
raises is `Gaps.read_cached_abstract`, `Gaps.damaged_not_reusable`, `Pipe.scan_never_raises`,
`Pipe.rescan_after_interrupted_write` plus the correspondence run; this theorem is the
consequence: report = fresh report, cache left behind = complete document.) -/
theorem damaged_cache_harmless (s : State Path Content Hash Entry Excl Version)
    (h : s.cache = .missing ∨ (∃ k, s.cache = .junk k) ∨ (∃ v es, s.cache = .doc v es ∧ v ≠ P.cur)) :
    (scan P s).2 = fresh P s ∧
    analysedFiles P s = walk P s ∧ reusedFiles P s = [] ∧
    (scan P s).1.cache = .doc P.cur (fresh P s) ∧
    Honest P (scan P s).1.cache ∧ Usable P (scan P s).1.cache ∧
    (scan P s).1.fs = s.fs ∧ (scan P s).1.excl = s.excl := by
  have hun : ¬ Usable P s.cache := by
    rintro ⟨es, he⟩
    rcases h with h | ⟨k, h⟩ | ⟨v, es', h, hv⟩
    · rw [h] at he; cases he
    · rw [h] at he; cases he
    · rw [h] at he; cases he; exact hv rfl
  have hnone := (readCachedReport_eq_none P).2 hun
  have hrep : report P s = fresh P s := report_eq_fresh_of_unusable P hun
  refine ⟨hrep, ?_, ?_, ?_, ?_, ?_, rfl, rfl⟩
  · simp [analysedFiles, hnone, scanFile_none]
  · simp [reusedFiles, hnone, scanFile_none]
  · show CacheFile.doc P.cur (report P s) = _
    rw [hrep]
  · show Honest P (CacheFile.doc P.cur (report P s))
    rw [hrep]
    exact honest_doc_cur P (fresh_honest P s)
  · exact ⟨report P s, by show CacheFile.doc P.cur (report P s) = _; rfl⟩

/-- every fault is an allowed operation of C09's state machine -/
theorem fault_allowed (op : Op Path Content Hash Entry Excl Version) (h : Op.Fault P op) :
    Op.Allowed P op := by
  cases op with
  | replaceCache c =>
    rcases h with h | h | h
    · exact Or.inl h
    · exact Or.inr (Or.inl h)
    · exact Or.inr (Or.inr (Or.inl h))
  | write p c => trivial
  | delete p => trivial
  | rename a b => trivial
  | touch p => trivial
  | swap a b => trivial
  | setExcl e => trivial
  | truncate w => trivial
  | removeCacheDir => trivial
  | removeMarkers => trivial
  | scan => trivial

/-- **C10.1 (sequences)** After ANY sequence of faults, edits and scans, in any interleaving,
the next scan reports the fresh report and leaves a complete cache - the document of the
current version holding exactly the fresh report - which is honest and usable.  (Corollary of
C09.1: faults are operations that keep the invariant.) -/
theorem faults_interleaved_harmless (hinj : Function.Injective P.hash)
    (fs : List (Path × Content)) (e : Excl)
    (ops : List (Op Path Content Hash Entry Excl Version))
    (hops : ∀ op ∈ ops, Op.Fault P op ∨ Op.Allowed P op) :
    let s := run P (init fs e) ops
    (scan P s).2 = fresh P s ∧
    (scan P s).1.cache = .doc P.cur (fresh P s) ∧
    Honest P (scan P s).1.cache ∧ Usable P (scan P s).1.cache := by
  intro s
  have hall : ∀ op ∈ ops, Op.Allowed P op := fun op ho =>
    (hops op ho).elim (fault_allowed P op) id
  have hrep : report P s = fresh P s := C09.scan_eq_fresh P hinj fs e ops hall
  refine ⟨hrep, ?_, ?_, ?_⟩
  · show CacheFile.doc P.cur (report P s) = _
    rw [hrep]
  · show Honest P (CacheFile.doc P.cur (report P s))
    rw [hrep]
    exact honest_doc_cur P (fresh_honest P s)
  · exact ⟨report P s, rfl⟩

/-- Marker files are only observed (Appendix A): a scan creates them together with the
directory and never restores them in an existing directory. -/
theorem markers_only_with_new_directory (s : State Path Content Hash Entry Excl Version) :
    (scan P s).1.dir = (match s.dir with | .absent => .present true | d => d) := by
  cases h : s.dir <;> simp [scan, dirAfterScan, h]

/-! ## C10.2 interrupted writes, through the byte contract -/

variable {Byte : Type} (isWs : Byte → Bool)
variable (readCache : List Byte → CacheFile Path Hash Entry Version)
variable (writeReport : Report Path Hash Entry → List Byte)
variable (Good : Report Path Hash Entry → Prop)

/-- Under the byte contract, what a reader sees after a write of a `Good` report `r` (`Good`: the
reports the contract speaks about - for the real writer the reports a scan writes,
`C10real.real_contract`) was cut short at any byte is exactly what the abstract operation `truncate` yields: the unreadable file, or - when
only trailing whitespace is missing - the complete document. -/
theorem truncated_read (hB : ByteContract P Byte isWs readCache writeReport Good)
    (r : Report Path Hash Entry) (hr : Good r) (p : List Byte) (hp : p <+: writeReport r) :
    readCache p =
      truncateCache (((writeReport r).drop p.length).all isWs) (.doc P.cur r) := by
  cases hall : ((writeReport r).drop p.length).all isWs with
  | true =>
    rw [List.all_eq_true] at hall
    rw [hB.ws_cut r p hr hp hall, hB.roundtrip r hr]
    rfl
  | false =>
    have : ∃ b ∈ (writeReport r).drop p.length, isWs b = false := by
      rw [List.all_eq_false] at hall
      obtain ⟨b, hb, hw⟩ := hall
      exact ⟨b, hb, by simpa using hw⟩
    rw [hB.prefix_junk r p hr hp this]
    rfl

/-- **C10.2** `truncated_write_harmless`: let a scan in a reachable state be interrupted while
it writes its report, at ANY byte offset (offset 0 = the file was opened and emptied; the full
length = the write completed), and let any allowed operations follow.  Then the next scan
reports the fresh report and leaves the complete document of the current version behind.
The report being written must be one the contract covers (`hgood`).  Instance with every
hypothesis discharged for the real reader, writer and scan: `C10real.truncated_write_harmless_real`. -/
theorem truncated_write_harmless (hinj : Function.Injective P.hash)
    (hB : ByteContract P Byte isWs readCache writeReport Good)
    (s : State Path Content Hash Entry Excl Version) (hs : Inv P s) (hgood : Good (scan P s).2)
    (p : List Byte) (hp : p <+: writeReport (scan P s).2)
    (ops : List (Op Path Content Hash Entry Excl Version)) (hops : ∀ op ∈ ops, Op.Allowed P op) :
    let s1 : State Path Content Hash Entry Excl Version := { (scan P s).1 with cache := readCache p }
    let s2 := run P s1 ops
    Inv P s1 ∧ (scan P s2).2 = fresh P s2 ∧
    (scan P s2).1.cache = .doc P.cur (fresh P s2) ∧ Usable P (scan P s2).1.cache := by
  intro s1 s2
  have h1 : Inv P s1 := by
    have hstep := C09.inv_step P (scan P s).1
      (.truncate (((writeReport (scan P s).2).drop p.length).all isWs)) trivial
      (C09.inv_step P s .scan trivial hs)
    have hr := truncated_read P isWs readCache writeReport Good hB (scan P s).2 hgood p hp
    show Honest P (readCache p) ∨ ¬ Usable P (readCache p)
    rw [hr]
    exact hstep
  have h2 : Inv P s2 := C09.inv_run P s1 ops hops h1
  have hrep : report P s2 = fresh P s2 := report_eq_fresh_of_inv P hinj h2
  refine ⟨h1, hrep, ?_, ⟨report P s2, rfl⟩⟩
  show CacheFile.doc P.cur (report P s2) = _
  rw [hrep]

end

/-! ## Non-vacuity -/

open C09 in
/-- faults interleaved with scans on the concrete universe of C09: a junk file, a truncation, a
foreign-version document with an altered entry, removal of the directory and of the marker
files; every scan reports the fresh report; marker files are not restored -/
example :
    observe exP (init [(0, 0), (1, 1)] [])
      [.scan, .replaceCache (.junk .unreadable), .scan, .truncate false, .write 1 0, .scan,
       .truncate true, .scan,
       .replaceCache (.doc 0 [(0, 0, 7)]), .removeMarkers, .scan, .removeCacheDir, .scan] =
      [ ([(0, 0, 0), (1, 1, 11)], [], [0, 1], .present true),
        ([(0, 0, 0), (1, 1, 11)], [], [0, 1], .present true),
        ([(0, 0, 0), (1, 0, 10)], [], [0, 1], .present true),
        ([(0, 0, 0), (1, 0, 10)], [0, 1], [], .present true),
        ([(0, 0, 0), (1, 0, 10)], [], [0, 1], .present false),
        ([(0, 0, 0), (1, 0, 10)], [], [0, 1], .present true) ] := by decide

/-- The byte contract is satisfiable inside this file: the small serialisation of
`Lemmas/CacheToy.lean` over the universe of `C09.exP` (numbers as paths, contents, checksums and
entries; the checksum is the identity, so it is injective and not constant), for all reports.
The instance for the real reader and writer is `C10real.real_contract`. -/
example : toyP = C09.exP ∧ Function.Injective toyP.hash ∧
    ByteContract toyP Nat toyWs toyRead toyWrite (fun _ => True) :=
  ⟨rfl, fun _ _ h => h, toy_contract⟩

/-- an instance of `truncated_write_harmless` with all hypotheses discharged and two different
contents: the write of the first scan's report `[(0,0,0), (1,1,11)]` (8 bytes) is cut after 4
bytes; then file 0 is changed; the next scan analyses both files and reports the fresh report -/
example :
    let s0 : State Nat Nat Nat Nat (List Nat) Nat := init [(0, 0), (1, 1)] []
    let p := (toyWrite (scan toyP s0).2).take 4
    let s1 : State Nat Nat Nat Nat (List Nat) Nat := { (scan toyP s0).1 with cache := toyRead p }
    let s2 := run toyP s1 [.write 0 1]
    toyWrite (scan toyP s0).2 = [2, 2, 2, 3, 3, 13, 0, 1] ∧ toyRead p = .junk .unreadable ∧
    (scan toyP s2).2 = fresh toyP s2 ∧ (scan toyP s2).2 = [(0, 1, 1), (1, 1, 11)] ∧
    toyRead ((toyWrite (scan toyP s0).2).take 7) = .doc 1 (scan toyP s0).2 := by
  decide

/-- the same through the theorem (every hypothesis holds) -/
example (p : List Nat) (hp : p <+: toyWrite (scan toyP (init [(0, 0), (1, 1)] [])).2)
    (ops : List (Op Nat Nat Nat Nat (List Nat) Nat)) (hops : ∀ op ∈ ops, Op.Allowed toyP op) :
    let s1 : State Nat Nat Nat Nat (List Nat) Nat :=
      { (scan toyP (init [(0, 0), (1, 1)] [])).1 with cache := toyRead p }
    (scan toyP (run toyP s1 ops)).2 = fresh toyP (run toyP s1 ops) :=
  (truncated_write_harmless toyP toyWs toyRead toyWrite (fun _ => True) (fun _ _ h => h) toy_contract
    (init [(0, 0), (1, 1)] []) (C09.inv_init toyP _ _) trivial p hp ops hops).2.1

end CL.C10
