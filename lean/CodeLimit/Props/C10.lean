import CodeLimit.Props.C09
import CodeLimit.Lemmas.CacheToy
/-!
# C10 - a damaged or partial cache never breaks or taints the next scan

Model: `Model/Cache.lean`.  `scan` is a total function: the only step of `scan_command` that
depends on the bytes of the cache file is `_read_cached_report`, modelled by
`readCachedReport`, which maps every damaged file to "no cache" (the `try/except` and
`_is_well_formed`); that the real function does so for every fault class is the correspondence
part of this property.  The link from bytes to the abstract cache file is the explicit contract
`ByteContract`.
-/
set_option linter.unusedSectionVars false

namespace CL.C10
open CL.Cache

section
variable {Path Content Hash Entry Excl Version : Type}
variable [DecidableEq Path] [DecidableEq Hash] [DecidableEq Version]
variable (P : Params Path Content Hash Entry Excl Version)

/-- **C10.1** If the cache file is missing (also: directory without file), unreadable (empty,
truncated, not JSON, wrong shape), ill-typed, or a document of another version with arbitrary
entries, the next scan analyses every selected file, reports exactly the fresh report and
leaves `doc cur (fresh report)` behind, which is honest and usable.  No hypothesis on the
checksum is needed. -/
theorem damaged_cache_harmless (s : State Path Content Hash Entry Excl Version)
    (h : s.cache = .missing ∨ (∃ k, s.cache = .junk k) ∨ (∃ v es, s.cache = .doc v es ∧ v ≠ P.cur)) :
    (scan P s).2 = fresh P s ∧
    analysedFiles P s = walk P s ∧ reusedFiles P s = [] ∧
    (scan P s).1.cache = .doc P.cur (fresh P s) ∧
    Honest P (scan P s).1.cache ∧ Usable P (scan P s).1.cache ∧
    (scan P s).1.fs = s.fs ∧ (scan P s).1.excl = s.excl := by
  have hun : ¬ Usable P s.cache := by
    rintro ⟨es, he⟩
    rcases h with h | ⟨k, h⟩ | ⟨v, es', h, hv⟩
    · rw [h] at he; cases he
    · rw [h] at he; cases he
    · rw [h] at he; cases he; exact hv rfl
  have hnone := (readCachedReport_eq_none P).2 hun
  have hrep : report P s = fresh P s := report_eq_fresh_of_unusable P hun
  refine ⟨hrep, ?_, ?_, ?_, ?_, ?_, rfl, rfl⟩
  · simp [analysedFiles, hnone, scanFile_none]
  · simp [reusedFiles, hnone, scanFile_none]
  · show CacheFile.doc P.cur (report P s) = _
    rw [hrep]
  · show Honest P (CacheFile.doc P.cur (report P s))
    rw [hrep]
    exact honest_doc_cur P (fresh_honest P s)
  · exact ⟨report P s, by show CacheFile.doc P.cur (report P s) = _; rfl⟩

/-- every fault is an allowed operation of C09's state machine -/
theorem fault_allowed (op : Op Path Content Hash Entry Excl Version) (h : Op.Fault P op) :
    Op.Allowed P op := by
  cases op with
  | replaceCache c =>
    rcases h with h | h | h
    · exact Or.inl h
    · exact Or.inr (Or.inl h)
    · exact Or.inr (Or.inr (Or.inl h))
  | write p c => trivial
  | delete p => trivial
  | rename a b => trivial
  | touch p => trivial
  | swap a b => trivial
  | setExcl e => trivial
  | truncate w => trivial
  | removeCacheDir => trivial
  | removeMarkers => trivial
  | scan => trivial

/-- **C10.1 (sequences)** After ANY sequence of faults, edits and scans, in any interleaving,
the next scan reports the fresh report and leaves a complete cache - the document of the
current version holding exactly the fresh report - which is honest and usable.  (Corollary of
C09.1: faults are operations that keep the invariant.) -/
theorem faults_interleaved_harmless (hinj : Function.Injective P.hash)
    (fs : List (Path × Content)) (e : Excl)
    (ops : List (Op Path Content Hash Entry Excl Version))
    (hops : ∀ op ∈ ops, Op.Fault P op ∨ Op.Allowed P op) :
    let s := run P (init fs e) ops
    (scan P s).2 = fresh P s ∧
    (scan P s).1.cache = .doc P.cur (fresh P s) ∧
    Honest P (scan P s).1.cache ∧ Usable P (scan P s).1.cache := by
  intro s
  have hall : ∀ op ∈ ops, Op.Allowed P op := fun op ho =>
    (hops op ho).elim (fault_allowed P op) id
  have hrep : report P s = fresh P s := C09.scan_eq_fresh P hinj fs e ops hall
  refine ⟨hrep, ?_, ?_, ?_⟩
  · show CacheFile.doc P.cur (report P s) = _
    rw [hrep]
  · show Honest P (CacheFile.doc P.cur (report P s))
    rw [hrep]
    exact honest_doc_cur P (fresh_honest P s)
  · exact ⟨report P s, rfl⟩

/-- Marker files are only observed (Appendix A): a scan creates them together with the
directory and never restores them in an existing directory. -/
theorem markers_only_with_new_directory (s : State Path Content Hash Entry Excl Version) :
    (scan P s).1.dir = (match s.dir with | .absent => .present true | d => d) := by
  cases h : s.dir <;> simp [scan, dirAfterScan, h]

/-! ## C10.2 interrupted writes, through the byte contract -/

variable {Byte : Type} (isWs : Byte → Bool)
variable (readCache : List Byte → CacheFile Path Hash Entry Version)
variable (writeReport : Report Path Hash Entry → List Byte)

/-- Under the byte contract, what a reader sees after a write of report `r` was cut short at any
byte is exactly what the abstract operation `truncate` yields: the unreadable file, or - when
only trailing whitespace is missing - the complete document. -/
theorem truncated_read (hB : ByteContract P Byte isWs readCache writeReport)
    (r : Report Path Hash Entry) (p : List Byte) (hp : p <+: writeReport r) :
    readCache p =
      truncateCache (((writeReport r).drop p.length).all isWs) (.doc P.cur r) := by
  cases hall : ((writeReport r).drop p.length).all isWs with
  | true =>
    rw [List.all_eq_true] at hall
    rw [hB.ws_cut r p hp hall, hB.roundtrip]
    rfl
  | false =>
    have : ∃ b ∈ (writeReport r).drop p.length, isWs b = false := by
      rw [List.all_eq_false] at hall
      obtain ⟨b, hb, hw⟩ := hall
      exact ⟨b, hb, by simpa using hw⟩
    rw [hB.prefix_junk r p hp this]
    rfl

/-- **C10.2** `truncated_write_harmless`: let a scan in a reachable state be interrupted while
it writes its report, at ANY byte offset (offset 0 = the file was opened and emptied; the full
length = the write completed), and let any allowed operations follow.  Then the next scan
reports the fresh report and leaves the complete document of the current version behind. -/
theorem truncated_write_harmless (hinj : Function.Injective P.hash)
    (hB : ByteContract P Byte isWs readCache writeReport)
    (s : State Path Content Hash Entry Excl Version) (hs : Inv P s)
    (p : List Byte) (hp : p <+: writeReport (scan P s).2)
    (ops : List (Op Path Content Hash Entry Excl Version)) (hops : ∀ op ∈ ops, Op.Allowed P op) :
    let s1 : State Path Content Hash Entry Excl Version := { (scan P s).1 with cache := readCache p }
    let s2 := run P s1 ops
    Inv P s1 ∧ (scan P s2).2 = fresh P s2 ∧
    (scan P s2).1.cache = .doc P.cur (fresh P s2) ∧ Usable P (scan P s2).1.cache := by
  intro s1 s2
  have h1 : Inv P s1 := by
    have hstep := C09.inv_step P (scan P s).1
      (.truncate (((writeReport (scan P s).2).drop p.length).all isWs)) trivial
      (C09.inv_step P s .scan trivial hs)
    have hr := truncated_read P isWs readCache writeReport hB (scan P s).2 p hp
    show Honest P (readCache p) ∨ ¬ Usable P (readCache p)
    rw [hr]
    exact hstep
  have h2 : Inv P s2 := C09.inv_run P s1 ops hops h1
  have hrep : report P s2 = fresh P s2 := report_eq_fresh_of_inv P hinj h2
  refine ⟨h1, hrep, ?_, ⟨report P s2, rfl⟩⟩
  show CacheFile.doc P.cur (report P s2) = _
  rw [hrep]

end

/-! ## Non-vacuity -/

open C09 in
/-- faults interleaved with scans on the concrete universe of C09: a junk file, a truncation, a
foreign-version document with an altered entry, removal of the directory and of the marker
files; every scan reports the fresh report; marker files are not restored -/
example :
    observe exP (init [(0, 0), (1, 1)] [])
      [.scan, .replaceCache (.junk .unreadable), .scan, .truncate false, .write 1 0, .scan,
       .truncate true, .scan,
       .replaceCache (.doc 0 [(0, 0, 7)]), .removeMarkers, .scan, .removeCacheDir, .scan] =
      [ ([(0, 0, 0), (1, 1, 11)], [], [0, 1], .present true),
        ([(0, 0, 0), (1, 1, 11)], [], [0, 1], .present true),
        ([(0, 0, 0), (1, 0, 10)], [], [0, 1], .present true),
        ([(0, 0, 0), (1, 0, 10)], [0, 1], [], .present true),
        ([(0, 0, 0), (1, 0, 10)], [], [0, 1], .present false),
        ([(0, 0, 0), (1, 0, 10)], [], [0, 1], .present true) ] := by decide

/-- The byte contract is satisfiable (toy serialisation of `Lemmas/CacheToy.lean`: `n` ones, a
zero, a trailing blank), hence `truncated_write_harmless` has an instance whose hypotheses all
hold. -/
example : Function.Injective toyP.hash ∧ ByteContract toyP Nat (· == 32) toyRead toyWrite :=
  ⟨fun _ _ _ => rfl, toy_contract⟩

end CL.C10
