import CodeLimit.Lemmas.Pct
set_option linter.unusedVariables false
/-!
# C19 - the percentages of the summary and the verdict derived from them

`quality_profile_percentage p0 p1 p2 p3 = (e, v, h, u)` is the generated model
(`CL.Gen.Logic`, regenerated from the Python source on every run) of
`Report.quality_profile_percentage` on the quality profile `[p0, p1, p2, p3]` (lines of code in
easy / verbose / hard-to-maintain / unmaintainable functions), with `ceil(x / total * 100 - 0.001)`
read exactly over the rationals (`CL.pct`; equality with CPython's floating point evaluation is
the business of the correspondence run, not of these theorems). The summary shows `e + v`, `h`, `u`.

All theorems are for ALL profiles of four non-negative integers (all-zero, single-category and
near-tie profiles included). `t` is the total; shares are stated without division:
"`u` is within `c` points of the true share `100 * p3 / t`" reads `|100 * p3 - u * t| ≤ c * t`.

Notes on reading the statements.
* Every theorem about a profile carries all four hypotheses `0 ≤ p0 … 0 ≤ p3` (the property's
  domain) for uniformity; some proofs do not need all of them (`deviation_bounds`: `h2 h3`,
  `zero_iff`: `h0 h1`, `hard_gt_20_iff`: `h0 h1 h2` are not referenced), which is why the
  unused-variable linter is switched off above.  They restrict nothing beyond the domain.
* The theorems of sections 2 and 3 need `0 < t`: the share of a category is undefined for the
  empty profile; that case is covered by `all_zero` and `range_and_sum`.
* `refactoring_iff`, `verdict_cases`, `verdict_shown`, `summary_colours` unfold the GENERATED
  definitions `verdict_text` / `summary_*` (`Gen/Logic.lean`) - that is the intended tie: a changed
  comparison in the source changes the generated term and breaks the proof.  That verdict code `2`
  means "no refactoring necessary" (and `0` / `1` the two "refactoring necessary" sentences) is the
  translator's classification of the three `console.print` branches (comment at the definition in
  `Gen/Logic.lean`), checked against the printed text by the correspondence run.
* Not claimed: equality of `CL.pct` with the IEEE-754 evaluation in CPython (DESIGN.md 8: they can
  differ by one point at exact ties of the rounding formula; correspondence with tolerance).
-/
namespace CL.C19

open CL.Gen.Logic

/-! ## 1. range and sum -/

/-- The three numbers shown in the summary (`e + v`, `h`, `u`) are integers between 0 and 100 that
sum to 100; so are the four underlying numbers. Holds for every profile, the all-zero one included. -/
theorem range_and_sum (p0 p1 p2 p3 e v h u : Int)
    (h0 : 0 ≤ p0) (h1 : 0 ≤ p1) (h2 : 0 ≤ p2) (h3 : 0 ≤ p3)
    (heq : quality_profile_percentage p0 p1 p2 p3 = (e, v, h, u)) :
    (0 ≤ e + v ∧ e + v ≤ 100 ∧ 0 ≤ h ∧ h ≤ 100 ∧ 0 ≤ u ∧ u ≤ 100 ∧ (e + v) + h + u = 100) ∧
    (0 ≤ e ∧ e ≤ 100 ∧ 0 ≤ v ∧ v ≤ 100) := by
  by_cases ht : 0 < p0 + p1 + p2 + p3
  · obtain ⟨U, H, V, hU, hH, hV, hc, hv, he⟩ :=
      quality_profile_percentage_pos p0 p1 p2 p3 e v h u ht heq
    have hU0 := pct_nonneg p3 _ ht h3
    have hH0 := pct_nonneg p2 _ ht h2
    have hV0 := pct_nonneg p1 _ ht h1
    have hU1 := pct_le_100 p3 _ ht (by omega)
    have hH1 := pct_le_100 p2 _ ht (by omega)
    have hV1 := pct_le_100 p1 _ ht (by omega)
    have hUH := pct_add_le_101 p3 p2 _ ht (by omega)
    rw [← hU] at hU0 hU1 hUH
    rw [← hH] at hH0 hH1 hUH
    rw [← hV] at hV0 hV1
    omega
  · rw [quality_profile_percentage_empty p0 p1 p2 p3 (by omega)] at heq
    simp only [Prod.mk.injEq] at heq
    omega

/-! ## 2. distance from the true shares -/

/-- The sharpest clean bounds. With `t` the total (positive):
* `u - 100 p3 / t` and `h - 100 p2 / t` lie strictly between `-0.999` and `+0.999`
  (also when the `-1` adjustment has fired),
* `(e + v) - 100 (p0 + p1) / t` lies in `(-1.998, +0.002]`.
All four ends are approached (see the witnesses at the end of the file), so "within two points"
cannot be improved to "within one point" for the easy-or-verbose number. -/
theorem deviation_bounds (p0 p1 p2 p3 e v h u t : Int)
    (h0 : 0 ≤ p0) (h1 : 0 ≤ p1) (h2 : 0 ≤ p2) (h3 : 0 ≤ p3)
    (htot : t = p0 + p1 + p2 + p3) (ht : 0 < t)
    (heq : quality_profile_percentage p0 p1 p2 p3 = (e, v, h, u)) :
    (-999 * t < 1000 * (u * t - 100 * p3) ∧ 1000 * (u * t - 100 * p3) < 999 * t) ∧
    (-999 * t < 1000 * (h * t - 100 * p2) ∧ 1000 * (h * t - 100 * p2) < 999 * t) ∧
    (-1998 * t < 1000 * ((e + v) * t - 100 * (p0 + p1)) ∧
      1000 * ((e + v) * t - 100 * (p0 + p1)) ≤ 2 * t) := by
  subst htot
  obtain ⟨U, H, V, hU, hH, hV, hc, hv, he⟩ :=
    quality_profile_percentage_pos p0 p1 p2 p3 e v h u ht heq
  have hb := adjust_bounds (p0 + p1 + p2 + p3) p2 p3 U H u h ht (by omega)
    (hU ▸ pct_lower p3 _ ht) (hU ▸ pct_upper p3 _ ht)
    (hH ▸ pct_lower p2 _ ht) (hH ▸ pct_upper p2 _ ht) hc
  have hev : e + v = 100 - u - h := by omega
  rw [hev]
  refine ⟨hb.1, hb.2.1, ?_, ?_⟩
  · linarith [hb.2.2.1]
  · linarith [hb.2.2.2]

/-- Each number shown in the summary is within two percentage points of the category's true
share of the lines of code. -/
theorem within_two_points (p0 p1 p2 p3 e v h u t : Int)
    (h0 : 0 ≤ p0) (h1 : 0 ≤ p1) (h2 : 0 ≤ p2) (h3 : 0 ≤ p3)
    (htot : t = p0 + p1 + p2 + p3) (ht : 0 < t)
    (heq : quality_profile_percentage p0 p1 p2 p3 = (e, v, h, u)) :
    |100 * p3 - u * t| ≤ 2 * t ∧ |100 * p2 - h * t| ≤ 2 * t ∧
      |100 * (p0 + p1) - (e + v) * t| ≤ 2 * t := by
  obtain ⟨⟨a1, a2⟩, ⟨b1, b2⟩, c1, c2⟩ := deviation_bounds p0 p1 p2 p3 e v h u t h0 h1 h2 h3 htot ht heq
  refine ⟨abs_le.2 ⟨?_, ?_⟩, abs_le.2 ⟨?_, ?_⟩, abs_le.2 ⟨?_, ?_⟩⟩ <;> linarith

/-- Sharper: the unmaintainable and the hard-to-maintain number are within ONE point of the true
share (strictly), the easy-or-verbose number strictly within two. -/
theorem within_one_point (p0 p1 p2 p3 e v h u t : Int)
    (h0 : 0 ≤ p0) (h1 : 0 ≤ p1) (h2 : 0 ≤ p2) (h3 : 0 ≤ p3)
    (htot : t = p0 + p1 + p2 + p3) (ht : 0 < t)
    (heq : quality_profile_percentage p0 p1 p2 p3 = (e, v, h, u)) :
    |100 * p3 - u * t| < t ∧ |100 * p2 - h * t| < t ∧
      |100 * (p0 + p1) - (e + v) * t| < 2 * t := by
  obtain ⟨⟨a1, a2⟩, ⟨b1, b2⟩, c1, c2⟩ := deviation_bounds p0 p1 p2 p3 e v h u t h0 h1 h2 h3 htot ht heq
  refine ⟨abs_lt.2 ⟨?_, ?_⟩, abs_lt.2 ⟨?_, ?_⟩, abs_lt.2 ⟨?_, ?_⟩⟩ <;> linarith

/-! ## 3. small categories never show as 0 % -/

/-- A hard-to-maintain or unmaintainable category shows 0 % EXACTLY when it holds at most one
thousandth of a percent of the code (`100000 * p ≤ t`); the `-1` adjustment never produces a 0. -/
theorem zero_iff (p0 p1 p2 p3 e v h u t : Int)
    (h0 : 0 ≤ p0) (h1 : 0 ≤ p1) (h2 : 0 ≤ p2) (h3 : 0 ≤ p3)
    (htot : t = p0 + p1 + p2 + p3) (ht : 0 < t)
    (heq : quality_profile_percentage p0 p1 p2 p3 = (e, v, h, u)) :
    (0 < h ↔ t < 100000 * p2) ∧ (0 < u ↔ t < 100000 * p3) := by
  subst htot
  obtain ⟨U, H, V, hU, hH, hV, hc, hv, he⟩ :=
    quality_profile_percentage_pos p0 p1 p2 p3 e v h u ht heq
  have hU0 := pct_nonneg p3 _ ht h3
  have hH0 := pct_nonneg p2 _ ht h2
  have hUp := pct_pos_iff p3 _ ht
  have hHp := pct_pos_iff p2 _ ht
  rw [← hU] at hU0 hUp
  rw [← hH] at hH0 hHp
  rw [← hUp, ← hHp]
  omega

/-- A hard-to-maintain or unmaintainable category holding more than one thousandth of a percent
of the code never shows as 0 %. -/
theorem never_zero (p0 p1 p2 p3 e v h u t : Int)
    (h0 : 0 ≤ p0) (h1 : 0 ≤ p1) (h2 : 0 ≤ p2) (h3 : 0 ≤ p3)
    (htot : t = p0 + p1 + p2 + p3) (ht : 0 < t)
    (heq : quality_profile_percentage p0 p1 p2 p3 = (e, v, h, u)) :
    (100000 * p2 > t → 0 < h) ∧ (100000 * p3 > t → 0 < u) := by
  have := zero_iff p0 p1 p2 p3 e v h u t h0 h1 h2 h3 htot ht heq
  exact ⟨fun hp => this.1.2 hp, fun hp => this.2.2 hp⟩

/-- The hard-to-maintain number exceeds 20 exactly when the true share exceeds 20.001 %. -/
theorem hard_gt_20_iff (p0 p1 p2 p3 e v h u t : Int)
    (h0 : 0 ≤ p0) (h1 : 0 ≤ p1) (h2 : 0 ≤ p2) (h3 : 0 ≤ p3)
    (htot : t = p0 + p1 + p2 + p3) (ht : 0 < t)
    (heq : quality_profile_percentage p0 p1 p2 p3 = (e, v, h, u)) :
    20 < h ↔ 20001 * t < 100000 * p2 := by
  subst htot
  obtain ⟨U, H, V, hU, hH, hV, hc, hv, he⟩ :=
    quality_profile_percentage_pos p0 p1 p2 p3 e v h u ht heq
  have hU0 := pct_nonneg p3 _ ht h3
  have hHp := lt_pct_iff p2 _ 20 ht
  rw [← hU] at hU0
  rw [← hH] at hHp
  have : 20001 * (p0 + p1 + p2 + p3) < 100000 * p2 ↔ 20 < H := by rw [hHp]; constructor <;> intro <;> linarith
  rw [this]
  omega

/-! ## 4. the empty profile -/

/-- No function at all (or only empty ones): 100 % easy. -/
theorem all_zero : quality_profile_percentage 0 0 0 0 = (100, 0, 0, 0) :=
  quality_profile_percentage_empty 0 0 0 0 (by omega)

/-! ## 5. the verdict -/

/-- The text report and the Markdown report take the same decision and show the same number
(for any four integers). -/
theorem verdict_text_eq_markdown (e v h u : Int) : verdict_text e v h u = verdict_markdown e v h u := by
  unfold verdict_text verdict_markdown; grind

/-- Refactoring is declared necessary (verdict 0 or 1, i.e. not 2) exactly when the unmaintainable
percentage is positive or the hard-to-maintain percentage exceeds 20. -/
theorem refactoring_iff (e v h u : Int) : (verdict_text e v h u).1 ≠ 2 ↔ (u > 0 ∨ h > 20) := by
  unfold verdict_text; grind

/-- Which of the three sentences is printed and which number it shows: `u` if `u > 0`; otherwise
`h` if `h > 20`; otherwise `e + v` with "no refactoring necessary". -/
theorem verdict_cases (e v h u : Int) :
    (u > 0 → verdict_text e v h u = (0, u)) ∧
    (¬ u > 0 → h > 20 → verdict_text e v h u = (1, h)) ∧
    (¬ u > 0 → ¬ h > 20 → verdict_text e v h u = (2, e + v)) := by
  unfold verdict_text; grind

/-- The verdict code is one of 0, 1, 2 and the number shown is the matching percentage. -/
theorem verdict_shown (e v h u : Int) :
    ((verdict_text e v h u).1 = 0 ∧ (verdict_text e v h u).2 = u) ∨
    ((verdict_text e v h u).1 = 1 ∧ (verdict_text e v h u).2 = h) ∨
    ((verdict_text e v h u).1 = 2 ∧ (verdict_text e v h u).2 = e + v) := by
  unfold verdict_text; grind

/-- Colours of the summary table follow the same thresholds as the verdict. -/
theorem summary_colours (h u : Int) :
    (summary_red u ↔ u > 0) ∧ (summary_orange h ↔ h > 20) := by
  unfold summary_red summary_orange; grind

/-- The verdict says refactoring is necessary exactly when a cell of the summary is red or orange. -/
theorem refactoring_iff_coloured (e v h u : Int) :
    (verdict_text e v h u).1 ≠ 2 ↔ (summary_red u ∨ summary_orange h) := by
  unfold verdict_text summary_red summary_orange; grind

/-- A green easy-or-verbose cell implies "no refactoring necessary" (any integers). The converse
FAILS at `h = 20`, see `green_gap`. -/
theorem green_imp_no_refactoring (e v h u : Int) (hg : summary_green h u) :
    (verdict_text e v h u).1 = 2 := by
  unfold summary_green at hg; unfold verdict_text; grind

/-- FINDING (cosmetic): at exactly 20 % hard-to-maintain code and no unmaintainable code the verdict
is "no refactoring necessary", the hard-to-maintain cell is not orange, and yet the
easy-or-verbose cell is not green (`SummaryTable` tests `< 20` where the verdict tests `> 20`). -/
theorem green_gap :
    (verdict_text 80 0 20 0).1 = 2 ∧ ¬ summary_orange 20 ∧ ¬ summary_red 0 ∧ ¬ summary_green 20 0 := by
  unfold verdict_text summary_orange summary_red summary_green; grind

/-- End to end, in terms of the true shares of a non-empty profile: refactoring is declared
necessary exactly when more than 0.001 % of the code is unmaintainable or more than 20.001 % of
it is hard to maintain. -/
theorem refactoring_iff_shares (p0 p1 p2 p3 e v h u t : Int)
    (h0 : 0 ≤ p0) (h1 : 0 ≤ p1) (h2 : 0 ≤ p2) (h3 : 0 ≤ p3)
    (htot : t = p0 + p1 + p2 + p3) (ht : 0 < t)
    (heq : quality_profile_percentage p0 p1 p2 p3 = (e, v, h, u)) :
    (verdict_text e v h u).1 ≠ 2 ↔ (t < 100000 * p3 ∨ 20001 * t < 100000 * p2) := by
  rw [refactoring_iff, ← (zero_iff p0 p1 p2 p3 e v h u t h0 h1 h2 h3 htot ht heq).2,
    ← hard_gt_20_iff p0 p1 p2 p3 e v h u t h0 h1 h2 h3 htot ht heq]

/-! ## 6. regression and non-vacuity -/

/-- Two functions of 31 and 62 lines: before the repair the summary showed `-1 %` easy code
(`67 + 34 = 101`); now the larger of the two is lowered by one. -/
example : quality_profile_percentage 0 0 31 62 = (0, 0, 34, 66) := by decide +kernel

/-- single-category profiles -/
example : quality_profile_percentage 0 0 0 5 = (0, 0, 0, 100) := by decide +kernel
example : quality_profile_percentage 7 0 0 0 = (100, 0, 0, 0) := by decide +kernel
example : quality_profile_percentage 0 16 0 0 = (0, 100, 0, 0) := by decide +kernel
/-- near ties, both branches of the adjustment -/
example : quality_profile_percentage 0 0 1 2 = (0, 0, 34, 66) := by decide +kernel
example : quality_profile_percentage 0 0 2 1 = (0, 0, 66, 34) := by decide +kernel
example : quality_profile_percentage 0 0 500 501 = (0, 0, 50, 50) := by decide +kernel
example : quality_profile_percentage 0 0 1 1 = (0, 0, 50, 50) := by decide +kernel
/-- all three upper categories round up: `verbose` is capped, `easy` stays at 0 -/
example : quality_profile_percentage 0 1 1 1 = (0, 32, 34, 34) := by decide +kernel
/-- a large profile -/
example : quality_profile_percentage 123456789012 98765432101 55555555555 1 = (44, 36, 20, 0) := by
  decide +kernel
/-- the 0.001 % boundary of `zero_iff`: share exactly 0.001 % shows 0, just above shows 1 -/
example : quality_profile_percentage 99999 0 0 1 = (100, 0, 0, 0) := by decide +kernel
example : quality_profile_percentage 99998 0 0 1 = (99, 0, 0, 1) := by decide +kernel
/-- `deviation_bounds` is tight: true shares 39.996 / 30.002 / 30.002 show as 38 / 31 / 31 -/
example : quality_profile_percentage 39996 0 30002 30002 = (38, 0, 31, 31) := by decide +kernel
/-- ... and after the adjustment: true shares 49.0011 / 50.9989 show as 50 / 50 -/
example : quality_profile_percentage 0 0 490011 509989 = (0, 0, 50, 50) := by decide +kernel
/-- the theorems apply to a concrete profile (hypotheses are satisfiable) -/
example : (0 : Int) < 34 ∧ (0 : Int) < 66 :=
  never_zero 0 0 31 62 0 0 34 66 93 (by omega) (by omega) (by omega) (by omega) (by omega) (by omega)
    (by decide +kernel) |>.imp (fun f => f (by omega)) (fun f => f (by omega))
example : (verdict_text 0 0 34 66).1 ≠ 2 :=
  (refactoring_iff_shares 0 0 31 62 0 0 34 66 93 (by omega) (by omega) (by omega) (by omega)
    (by omega) (by omega) (by decide +kernel)).2 (Or.inl (by omega))

end CL.C19
