import CodeLimit.Lemmas.CodebaseFinal
import CodeLimit.Lemmas.ExceptDec
/-!
# C07 - totals, profiles and the folder tree always agree with the measurements

`Codebase.build es` is `Codebase("…")`, `add_file(e)` for every `e` of `es` in this order, then one
`aggregate()` (model: `Model/Codebase.lean`). The theorems hold for EVERY list `es` whose paths
do not start with `./` (`admissible`; this contains all normalised relative paths, see
`normalised_is_admissible`, but also absolute paths, empty components, `..`), with arbitrary
languages, `loc` fields and measurement lists, in any insertion order. Paths must be pairwise
different only where that is said (`Nodup`).

Vocabulary (`Spec/Codebase.lean`): a folder key is the folder's path followed by `/` (`"./"` for
the root); `under k p` - `k` is the root key or a prefix of `p`; `dirKey p` - key of the folder
holding `p` (`get_parent_folder(p) + "/"`); `IsDirPrefix k p` - `k` is a prefix of `p` ending with
`/`; `childKey k n` - the key `aggregate_folder` computes for the entry `n` of folder `k`;
`parentKeyOf c`, `nameOf c` - parent key and entry name of the folder with key `c`;
`bucketSum i` / `bucketCount i` - sum / number of the measurement lengths that the generated
`make_profile_bucket` / `make_count_profile_bucket` (regenerated from `utils.py`) send to index
`i`; `psum` - pointwise sum of profiles.
-/
namespace CL.C07

open CL CL.Codebase CL.Gen.Logic

/-- all paths of the list are covered by the theorems: none starts with `./` -/
def Admissible (es : List FileEntry) : Prop := ∀ e ∈ es, admissible e.path = true

/-- every normalised relative path (non-empty components, none `.` or `..`) is admissible -/
theorem normalised_is_admissible (p : Str) (h : normalised p = true) : admissible p = true :=
  normalised_admissible h

/-- the generated buckets are valid indices of a profile (the `IndexError` branch that
`Profile.addAt` totalises is unreachable) -/
theorem bucket_lt_four (v : Int) : make_profile_bucket v < 4 ∧ make_count_profile_bucket v < 4 := by
  unfold make_profile_bucket make_count_profile_bucket; grind

/-- count-bucket 2 is "hard to maintain" (30 < length ≤ 60), count-bucket 3 is "unmaintainable"
(length > 60) -/
theorem count_bucket_meaning (v : Int) :
    (make_count_profile_bucket v = 2 ↔ 30 < v ∧ v ≤ 60) ∧ (make_count_profile_bucket v = 3 ↔ 60 < v) := by
  unfold make_count_profile_bucket; grind

/-- (6) `add_file*` and `aggregate` terminate without an exception: no `KeyError`, and the
recursion fuel of the model (path length + 2 for `add_folder`, number of folders + 1 for
`aggregate_folder`) is never exhausted -/
theorem build_ok (es : List FileEntry) (hadm : Admissible es) : ∃ cb, Codebase.build es = .ok cb := by
  obtain ⟨cb, _, h, _⟩ := build_spec es hadm
  exact ⟨cb, h⟩

/-- (1) per-language totals: each language that occurs has exactly one entry, holding the number
of its files, the sum of their `loc` fields, the number of their measurements and the numbers of
measurements in count-bucket 2 (hard to maintain) and 3 (unmaintainable); no other language has
an entry -/
theorem language_totals (es : List FileEntry) (hadm : Admissible es) {cb : Codebase}
    (h : Codebase.build es = .ok cb) :
    (cb.totals.map Prod.fst).Nodup ∧
    ∀ L, dget? L cb.totals = if ∃ e ∈ es, e.language = L then some (langTotals L es) else none := by
  obtain ⟨cb', T0, h', hB, _, _⟩ := build_spec es hadm
  rw [h] at h'; cases h'
  exact hB.totals

/-- (2) a file's profile partitions the total of its measurement lengths by bucket -/
theorem file_profile_partition (e : FileEntry) :
    (∀ i, i < 4 → e.profile.get i = bucketSum i e.measurements) ∧
    e.profile.p0 + e.profile.p1 + e.profile.p2 + e.profile.p3 = e.measurements.sum := by
  refine ⟨fun i hi => makeProfile_get _ i hi, ?_⟩
  have h0 := makeProfile_get e.measurements 0 (by omega)
  have h1 := makeProfile_get e.measurements 1 (by omega)
  have h2 := makeProfile_get e.measurements 2 (by omega)
  have h3 := makeProfile_get e.measurements 3 (by omega)
  simp only [Profile.get] at h0 h1 h2 h3
  simp only [FileEntry.profile]
  rw [h0, h1, h2, h3, bucketSum_total]

/-- (2, in the words of the property) **a file's profile partitions its LINE TOTAL** `loc` by
category - for every entry whose stored line total is the sum of its function lengths.  `loc` is an
independent constructor argument of `SourceFileEntry`; that `_analyze_file` passes the sum is
`C05.total_is_sum`, and every entry of a scan's report satisfies the hypothesis
(`Pipe.report_measurements_wf`, `Pipe.report_file_profiles`).  Without the hypothesis the clause is
false: an entry built by hand with `loc = 5` and no measurements has profile `[0, 0, 0, 0]`. -/
theorem file_profile_partition_loc (e : FileEntry) (hloc : e.loc = e.measurements.sum) :
    e.profile.p0 + e.profile.p1 + e.profile.p2 + e.profile.p3 = e.loc := by
  rw [hloc]; exact (file_profile_partition e).2

/-- the hypothesis of `file_profile_partition_loc` is needed -/
example : ∃ e : FileEntry, e.profile.p0 + e.profile.p1 + e.profile.p2 + e.profile.p3 ≠ e.loc :=
  ⟨⟨[], [], [], 5, []⟩, by decide⟩

/-- (2') the `files` dict holds exactly the added entries, in insertion order -/
theorem files_dict (es : List FileEntry) (hadm : Admissible es) (hnd : (es.map (·.path)).Nodup)
    {cb : Codebase} (h : Codebase.build es = .ok cb) : cb.files = es.map fun e => (e.path, e) := by
  obtain ⟨cb', T0, h', hB, _, _⟩ := build_spec es hadm
  rw [h] at h'; cases h'
  exact hB.files hnd

/-- (3) every folder's profile is the pointwise sum of the profiles of all files beneath it, at
any depth -/
theorem folder_profiles (es : List FileEntry) (hadm : Admissible es) {cb : Codebase}
    (h : Codebase.build es = .ok cb) (k : Str) (f : Folder) (hf : dget? k cb.tree = some f) :
    f.profile = psum ((es.filter fun e => under k e.path).map (·.profile)) := by
  obtain ⟨cb', T0, h', _, _, hP⟩ := build_spec es hadm
  rw [h] at h'; cases h'
  exact hP k f hf

/-- (3') the root folder exists and its profile is the sum over all files, which is the profile
of the whole codebase (`Report.quality_profile`, i.e. `make_profile(all_measurements())`) -/
theorem root_profile (es : List FileEntry) (hadm : Admissible es) (hnd : (es.map (·.path)).Nodup)
    {cb : Codebase} (h : Codebase.build es = .ok cb) :
    ∃ f, dget? rootKey cb.tree = some f ∧ f.profile = psum (es.map (·.profile)) ∧
      f.profile = cb.qualityProfile := by
  obtain ⟨cb', T0, h', hB, hS, hP⟩ := build_spec es hadm
  rw [h] at h'; cases h'
  obtain ⟨f0, hf0⟩ := dhas_iff.mp hB.tree.j.root
  obtain ⟨f, hf, _⟩ := folder_of_shape hS hf0
  have hsum : f.profile = psum (es.map (·.profile)) := by
    rw [hP _ f hf, sumUnder]
    have : (es.filter fun e => under rootKey e.path) = es := by
      rw [List.filter_eq_self]; intro e _; simp [under]
    rw [this]
  refine ⟨f, hf, hsum, ?_⟩
  rw [hsum, Codebase.qualityProfile, Codebase.allMeasurements, hB.files hnd, List.flatMap_map,
    makeProfile_flatMap]
  rfl

/-- (4) the grand totals (`ScanTotals.total_*`, by definition the sums over the language
entries) are the totals over all files -/
theorem grand_totals (es : List FileEntry) (hadm : Admissible es) {cb : Codebase}
    (h : Codebase.build es = .ok cb) :
    totalFiles cb.totals = es.length ∧
    totalLoc cb.totals = (es.map (·.loc)).sum ∧
    totalFunctions cb.totals = (es.map fun e => (e.measurements.length : Int)).sum ∧
    totalHardToMaintain cb.totals = (es.map fun e => bucketCount 2 e.measurements).sum ∧
    totalUnmaintainable cb.totals = (es.map fun e => bucketCount 3 e.measurements).sum := by
  obtain ⟨cb', T0, h', hB, _, _⟩ := build_spec es hadm
  rw [h] at h'; cases h'
  exact ⟨hB.gFiles, hB.gLoc, hB.gFunctions, hB.gHard, hB.gUnm⟩

/-- (5a) the folders: every key occurs once; the keys are the root key and, for every file,
the key of every folder on the way to it (every prefix of its path that ends with `/`) - every
ancestor folder exists and nothing else does -/
theorem tree_keys (es : List FileEntry) (hadm : Admissible es) {cb : Codebase}
    (h : Codebase.build es = .ok cb) :
    (cb.tree.map Prod.fst).Nodup ∧
    ∀ k, k ∈ cb.tree.map Prod.fst ↔ (k = rootKey ∨ ∃ e ∈ es, IsDirPrefix k e.path) := by
  obtain ⟨cb', T0, h', hB, hS, _⟩ := build_spec es hadm
  rw [h] at h'; cases h'
  rw [keys_of_shape hS]
  refine ⟨hB.tree.j.nodup, fun k => ?_⟩
  rw [mem_keys_iff]; exact hB.tree.keys k

/-- (5b) every file is listed exactly once: once in the entries of its parent folder (which
exists), in no other folder -/
theorem file_listed_once (es : List FileEntry) (hadm : Admissible es) (hnd : (es.map (·.path)).Nodup)
    {cb : Codebase} (h : Codebase.build es = .ok cb) (e : FileEntry) (he : e ∈ es) :
    (∃ f, dget? (dirKey e.path) cb.tree = some f) ∧
    ∀ k f, dget? k cb.tree = some f →
      f.entries.count (Entry.file e) = if k = dirKey e.path then 1 else 0 := by
  obtain ⟨cb', T0, h', hB, hS, _⟩ := build_spec es hadm
  rw [h] at h'; cases h'
  constructor
  · have : dhas (dirKey e.path) T0 = true := by
      rcases dirKey_cases (admissible_iff.mp (hadm e he)) with ⟨hr, _⟩ | ⟨hp, _⟩
      · rw [hr]; exact hB.tree.j.root
      · exact (hB.tree.keys _).mpr (Or.inr ⟨e, he, hp⟩)
    obtain ⟨f0, hf0⟩ := dhas_iff.mp this
    obtain ⟨f, hf, _⟩ := folder_of_shape hS hf0
    exact ⟨f, hf⟩
  · intro k f hf
    obtain ⟨f0, hf0, he0⟩ := folder_of_shape hS.symm hf
    rw [← he0]
    exact file_once hB.tree hnd he hf0

/-- (5c) every folder other than the root is listed exactly once: exactly one sub-folder entry
of its parent folder (which exists) leads to it - the entry `nameOf c` = basename + `/` - and no
entry of any other folder does -/
theorem folder_listed_once (es : List FileEntry) (hadm : Admissible es) {cb : Codebase}
    (h : Codebase.build es = .ok cb) (c : Str) (hc : c ∈ cb.tree.map Prod.fst) (hcr : c ≠ rootKey) :
    (∃ f, dget? (parentKeyOf c) cb.tree = some f ∧ nameOf c ∈ folderNames f ∧
      childKey (parentKeyOf c) (nameOf c) = c) ∧
    ∀ k f, dget? k cb.tree = some f →
      ((folderNames f).map (childKey k)).count c = if k = parentKeyOf c then 1 else 0 := by
  obtain ⟨cb', T0, h', hB, hS, _⟩ := build_spec es hadm
  rw [h] at h'; cases h'
  rw [keys_of_shape hS, mem_keys_iff] at hc
  have hg : GoodNR c := (hB.tree.j.good c hc).resolve_left hcr
  constructor
  · obtain ⟨f0, hf0, hn⟩ := (hB.tree.linked c hc).resolve_left hcr
    obtain ⟨f, hf, he⟩ := folder_of_shape hS hf0
    refine ⟨f, hf, ?_, childKey_parent_name hg⟩
    rw [folderNames_eq, he]; exact hn
  · intro k f hf
    obtain ⟨f0, hf0, he0⟩ := folder_of_shape hS.symm hf
    rw [folderNames_eq, ← he0]
    exact folder_once hB.tree hc hcr hf0

/-- (5d) there are no other entries: an entry of folder `k` is one of the added files whose
parent folder is `k`, or a sub-folder entry that leads to an existing non-root folder whose
parent is `k` -/
theorem no_other_entries (es : List FileEntry) (hadm : Admissible es) {cb : Codebase}
    (h : Codebase.build es = .ok cb) (k : Str) (f : Folder) (hf : dget? k cb.tree = some f)
    (en : Entry) (hen : en ∈ f.entries) :
    (∃ e ∈ es, en = .file e ∧ dirKey e.path = k) ∨
    (∃ n, en = .folder n ∧ childKey k n ∈ cb.tree.map Prod.fst ∧ childKey k n ≠ rootKey ∧
      parentKeyOf (childKey k n) = k) := by
  obtain ⟨cb', T0, h', hB, hS, _⟩ := build_spec es hadm
  rw [h] at h'; cases h'
  obtain ⟨f0, hf0, he0⟩ := folder_of_shape hS.symm hf
  rw [keys_of_shape hS]
  rw [← he0] at hen
  rcases entries_known hB.tree hf0 hen with h1 | ⟨n, h1, h2, h3, h4⟩
  · exact Or.inl h1
  · exact Or.inr ⟨n, h1, mem_keys_iff.mpr h2, h3, h4⟩

/-- what `dirKey` is: the root key for a path without `/`, everything up to and including the
last `/` otherwise -/
theorem dirKey_meaning (q b : Str) (hb : sl ∉ b) :
    dirKey b = rootKey ∧ dirKey (q ++ sl :: b) = q ++ [sl] :=
  ⟨dirKey_noslash hb, dirKey_slash q hb⟩

/-! ## Non-vacuity, observations, and what happens outside the domain

Strings as code points: `a` 97, `b` 98, `c` 99, `x` 120, `y` 121, `/` 47, `.` 46. -/

/-- `a/b/x` (Python: 10 16 31), `a/y` (C: 61), `c` (Python: none), `a/b/c/x` (C: 15 30) -/
def sample : List FileEntry :=
  [⟨[97, 47, 98, 47, 120], [], [80], 60, [10, 16, 31]⟩,
   ⟨[97, 47, 121], [], [67], 70, [61]⟩,
   ⟨[99], [], [80], 5, []⟩,
   ⟨[97, 47, 98, 47, 99, 47, 120], [], [67], 50, [15, 30]⟩]

example : Admissible sample ∧ (sample.map (·.path)).Nodup ∧ ∀ e ∈ sample, normalised e.path = true := by
  unfold Admissible; decide

/-- the hypotheses of all theorems hold for `sample` and the result is not trivial: keys in
insertion order with profiles, totals in insertion order -/
example : (Codebase.build sample).toOption.map (fun cb =>
      (cb.tree.map fun x => (x.1, x.2.profile), cb.totals.map fun x => x.2)) =
    some ([([46, 47], ⟨25, 46, 31, 61⟩), ([97, 47, 98, 47], ⟨25, 46, 31, 0⟩), ([97, 47], ⟨25, 46, 31, 61⟩),
           ([97, 47, 98, 47, 99, 47], ⟨15, 30, 0, 0⟩)],
          [⟨[80], 2, 65, 3, 1, 0⟩, ⟨[67], 2, 120, 3, 0, 1⟩]) := by
  decide +kernel

/-- any other insertion order gives the same profiles per folder -/
example : (Codebase.build sample.reverse).toOption.map (fun cb =>
      (dget? [46, 47] cb.tree).map (·.profile)) = some (some ⟨25, 46, 31, 61⟩) := by
  decide +kernel

/-- paths that are admissible without being normalised: `a//b`, `/a`, `a/`, `..` -/
example : admissible [97, 47, 47, 98] = true ∧ normalised [97, 47, 47, 98] = false ∧
    admissible [47, 97] = true ∧ admissible [97, 47] = true ∧ admissible [46, 46] = true := by
  decide

/-- OBSERVATION (outside the property): `aggregate` is not idempotent - a second call adds the
files and the (already grown) sub-folder profiles to every folder again: a folder without
sub-folders ends up with twice its sum (`a/b/c/`: 15 30 0 0 -> 30 60 0 0), folders above it with
more (root: 25 46 31 61 -> 115 214 124 183) -/
example : ((Codebase.build sample).bind fun cb => cb.aggregate).toOption.map (fun cb =>
      ((dget? [46, 47] cb.tree).map (·.profile), (dget? [97, 47, 98, 47, 99, 47] cb.tree).map (·.profile))) =
    some (some ⟨115, 214, 124, 183⟩, some ⟨30, 60, 0, 0⟩) := by
  decide +kernel

/-- outside the domain: `./a/x` together with `a/y` - no exception, but the root counts `a/y`
twice and loses `./a/x` (the folder `./a/` is listed in the root as `a/`) -/
example : (Codebase.build [⟨[46, 47, 97, 47, 120], [], [67], 1, [20]⟩, ⟨[97, 47, 121], [], [67], 1, [40]⟩]).toOption.map
      (fun cb => (dget? [46, 47] cb.tree).map (·.profile)) = some (some ⟨0, 0, 120, 0⟩) := by
  decide +kernel

/-- outside the domain: `./a/x` alone raises `KeyError`, `././x` recurses for ever
(`RecursionError`; the model runs out of fuel) -/
example : Codebase.build [⟨[46, 47, 97, 47, 120], [], [67], 1, [20]⟩] = .error .other ∧
    Codebase.build [⟨[46, 47, 46, 47, 120], [], [67], 1, [20]⟩] = .error .fuel := by
  decide +kernel

/-- outside the domain (duplicate path): the file is counted twice in the totals and listed
twice in its folder, while `files` keeps one entry -/
example : (Codebase.build [⟨[97], [], [67], 1, [20]⟩, ⟨[97], [], [67], 1, [20]⟩]).toOption.map
      (fun cb => (totalFiles cb.totals, cb.files.length, (dget? [46, 47] cb.tree).map (·.entries.length))) =
    some (2, 1, some 2) := by
  decide +kernel

end CL.C07
