import CodeLimit.Lemmas.Invisible
import CodeLimit.Lemmas.InvisibleNames
import CodeLimit.Lemmas.RelabelBrace
import CodeLimit.Gen.Languages
/-!
# C04 - blank lines, comments and trailing whitespace are invisible

"Inserting or removing blank lines, comment-only lines, trailing comments (not starting with
the suppression marker) or trailing whitespace between the tokens of any file leaves the
reported functions, their names, order and lengths unchanged, and shifts each reported line
number by exactly the number of lines inserted above it. In particular a line that holds only
a comment or only whitespace is never counted towards any function."

At token level such an edit is the composition of

* a renumbering of the lines by a strictly monotone `f` (new lines appear / disappear between
  the tokens; `f l - l` is the number of lines inserted above line `l`), which is a pure shift
  across every token that spans several lines (no line is inserted *inside* a token), and
* the insertion / removal of *invisible* tokens: whitespace tokens and comment tokens whose
  text does not start with the suppression marker (`Invisible`).

All theorems hold for EVERY token list `all` (not only lexer output of well-formed programs),
every `L : Language` (the theorems with hypothesis `hL`: the seven shipped languages), and include
the error branches (`Except.map` keeps the same error).

The lexer step (that inserting a comment or a blank line into the TEXT yields such an edit of the
token list) is not a theorem for arbitrary files: it is the correspondence part of this property
(metamorphic run on programs and the corpus); at text level it is proved for canonical program
trees only (`C01marks.comments_blank_lines_invisible`).

Vocabulary (defined in `CodeLimit/Lemmas`): `relabel`, `Measurement.rl`, `Invisible`, `IsCode`,
`EditInvisible`, `insertAfter`, `countedLines`.
-/
namespace CL.C04

/-- `relabel f` applies `f` to the line number of every token and changes nothing else. -/
theorem relabel_def (f : Nat → Nat) (toks : List Tok) :
    relabel f toks = toks.map (fun t => { t with line := f t.line }) := rfl

/-! ## T1: line relabelling -/

/-- **T1, literal form (NOT the statement to use on lexer output)**: `hshift` ranges over ALL
tokens, and a newline whitespace token spans two lines, so on real lexer output no line can be
inserted after a line that ends in such a token (example below).  The C04 statement is
`scanFile_relabel_code` (only code tokens are shifted rigidly), of which this is the special case.
Renumbering the lines of the file by a strictly monotone `f` that is a pure shift
across every multi-line token leaves the reported functions, their names, order, columns and
lengths unchanged and maps every reported line number by `f`.  An analysis that fails, fails
with the same error. -/
theorem scanFile_relabel (L : Language) (all : List Tok) (f : Nat → Nat)
    (hmono : ∀ a b, a < b → f a < f b)
    (hshift : ∀ t ∈ all, ∀ i, i ≤ (lastLineInfo t.val).1 → f (t.line + i) = f t.line + i) :
    scanFile L (relabel f all) =
      (scanFile L all).map (List.map (fun m => { m with sl := f m.sl, el := f m.el })) :=
  scanFile_relabel' hmono L all hshift

/-- **T1, sharper hypothesis.** Only *code* tokens (neither whitespace nor comment) need to be
shifted rigidly: lines may be inserted inside a multi-line comment. -/
theorem scanFile_relabel_code (L : Language) (all : List Tok) (f : Nat → Nat)
    (hmono : ∀ a b, a < b → f a < f b)
    (hshift : ∀ t ∈ all, IsCode t → ∀ i, i ≤ (lastLineInfo t.val).1 → f (t.line + i) = f t.line + i) :
    scanFile L (relabel f all) =
      (scanFile L all).map (List.map (fun m => { m with sl := f m.sl, el := f m.el })) := by
  unfold scanFile
  rw [buildScopes_relabel hmono, filterTokens_relabel]
  rcases buildScopes L all with e | scs
  · rfl
  · exact measureAll_relabel hmono _
      (fun t ht => hshift t (mem_filterTokens_false.mp ht).1 (mem_filterTokens_false.mp ht).2) scs

/-- **T1 for brace-block languages** (all shipped languages except Python): every scope ends
in a `}` token, which never spans lines, so strict monotonicity alone suffices. -/
theorem scanFile_relabel_brace (L : Language) (hL : L.python = false) (all : List Tok)
    (f : Nat → Nat) (hmono : ∀ a b, a < b → f a < f b) :
    scanFile L (relabel f all) =
      (scanFile L all).map (List.map (fun m => { m with sl := f m.sl, el := f m.el })) :=
  scanFile_relabel_brace' hmono L hL all

/-- Names, columns and lengths (and the number and order of the reported functions) do not
depend on the line numbering at all. -/
theorem scanFile_relabel_names_lengths (L : Language) (all : List Tok) (f : Nat → Nat)
    (hmono : ∀ a b, a < b → f a < f b)
    (hshift : ∀ t ∈ all, IsCode t → ∀ i, i ≤ (lastLineInfo t.val).1 → f (t.line + i) = f t.line + i) :
    (scanFile L (relabel f all)).map (List.map (fun m => (m.name, m.sc, m.ec, m.len))) =
      (scanFile L all).map (List.map (fun m => (m.name, m.sc, m.ec, m.len))) := by
  rw [scanFile_relabel_code L all f hmono hshift]
  rcases scanFile L all with e | ms
  · rfl
  · simp [List.map_map, Function.comp_def]

/-- Inserting `k` new lines directly after line `n` (no code token straddles the end of line
`n`): every function keeps its name and length; the reported lines after line `n` move down by
exactly `k`, those up to line `n` stay.  Read from right to left this is the removal of `k`
lines that carry no code token. -/
theorem scanFile_insert_lines (L : Language) (all : List Tok) (n k : Nat)
    (hsplit : ∀ t ∈ all, IsCode t → t.line ≤ n → t.line + (lastLineInfo t.val).1 ≤ n) :
    scanFile L (relabel (insertAfter n k) all) =
      (scanFile L all).map (List.map (fun m =>
        { m with sl := if m.sl ≤ n then m.sl else m.sl + k,
                 el := if m.el ≤ n then m.el else m.el + k })) := by
  rw [scanFile_relabel_code L all (insertAfter n k) (insertAfter_strictMono n k)]
  · rfl
  · intro t ht hc i hi
    have := hsplit t ht hc
    unfold insertAfter
    split <;> split <;> omega

/-! ## T2: comments and whitespace are invisible -/

/-- **T2.** The analysis depends on the token list only through its code tokens and the set
of lines that carry a suppression comment. -/
theorem scanFile_congr (L : Language) (all all' : List Tok)
    (h1 : filterTokens false all = filterTokens false all')
    (h2 : ∀ l, l ∈ (noclTokens all).map (·.line) ↔ l ∈ (noclTokens all').map (·.line)) :
    scanFile L all = scanFile L all' :=
  scanFile_congr' L all all' h1 h2

/-- **T2, sharp form (shipped languages).** The marker lines matter only among the lines on which
a NAME token of the code begins: the analysis depends on the token list only through its code
tokens and through "is there a suppression comment on line `l`" for those lines.  (A header's name
is a name token of the code, C15; `_filter_nocl_scopes` looks at the line of that token only.)  So a
comment-only line may carry the marker without any effect. -/
theorem scanFile_congr_names (L : Language) (hL : L ∈ Gen.all.map (·.2)) (all all' : List Tok)
    (h1 : filterTokens false all = filterTokens false all')
    (h2 : ∀ l, (∃ t ∈ filterTokens false all, t.isName = true ∧ t.line = l) →
      (l ∈ noclLineNumbers all ↔ l ∈ noclLineNumbers all')) :
    scanFile L all = scanFile L all' :=
  CL.scanFile_congr_names L hL all all' h1 h2

/-- Inserting and removing, anywhere in the file, any number of whitespace tokens and of
comment tokens not starting with the suppression marker does not change the analysis. -/
theorem scanFile_editInvisible (L : Language) (all all' : List Tok) (h : EditInvisible all all') :
    scanFile L all = scanFile L all' :=
  scanFile_congr L all all' h.filterTokens_eq (by rw [h.noclTokens_eq]; exact fun _ => Iff.rfl)

/-- Removing any set of whitespace tokens and non-marker comment tokens (the tokens rejected
by `keep`) leaves the analysis unchanged. -/
theorem scanFile_filter_invisible (L : Language) (all : List Tok) (keep : Tok → Bool)
    (h : ∀ t ∈ all, keep t = false →
      t.isWhitespace = true ∨ (t.isComment = true ∧ isNoclText t.val = false)) :
    scanFile L (all.filter keep) = scanFile L all :=
  (scanFile_editInvisible L all _ (EditInvisible.filter all keep h)).symm

/-- **Removing whitespace and comments, marker comments included** (shipped languages): any set of
whitespace and comment tokens may be removed (read from right to left: inserted) provided no name
token of the code begins on the line of a removed MARKER comment.  Covers what
`scanFile_filter_invisible` excludes: a comment-only line that carries the marker. -/
theorem scanFile_filter_noncode (L : Language) (hL : L ∈ Gen.all.map (·.2)) (all : List Tok) (keep : Tok → Bool)
    (h1 : ∀ t ∈ all, keep t = false → t.isWhitespace = true ∨ t.isComment = true)
    (h2 : ∀ t ∈ all, keep t = false → t.isComment = true → isNoclText t.val = true →
      ∀ u ∈ all, IsCode u → u.isName = true → u.line ≠ t.line) :
    scanFile L (all.filter keep) = scanFile L all :=
  CL.scanFile_filter_noncode L hL all keep h1 h2

/-- **A line that holds only comments and whitespace is never counted - observably**: deleting
every token of such a line (whatever the comments say, marker or not) leaves the reported
functions, names, positions and lengths unchanged, and an analysis that fails, fails the same
way (shipped languages).  Together with `scanFile_insert_lines` (closing the gap in the line
numbers) this is the removal of a comment-only or blank line. -/
theorem comment_only_line_removable (L : Language) (hL : L ∈ Gen.all.map (·.2)) (all : List Tok) (l : Nat)
    (hl : ∀ t ∈ all, t.line = l → t.isWhitespace = true ∨ t.isComment = true) :
    scanFile L (all.filter (fun t => t.line != l)) = scanFile L all := by
  apply scanFile_filter_noncode L hL
  · intro t ht hk
    exact hl t ht (by simpa using hk)
  · intro t ht hk _ _ u hu hc _ hline
    have htl : t.line = l := by simpa using hk
    rcases hl u hu (hline.trans htl) with h | h
    · rw [hc.1] at h; cases h
    · rw [hc.2] at h; cases h

/-- In particular all whitespace and all non-marker comments can be stripped. -/
theorem scanFile_strip (L : Language) (all : List Tok) :
    scanFile L (all.filter (fun t => !(t.isWhitespace || (t.isComment && !isNoclText t.val)))) =
      scanFile L all := by
  apply scanFile_filter_invisible
  intro t _ h
  by_cases hw : t.isWhitespace = true
  · exact .inl hw
  · simp only [hw, Bool.false_or, Bool.not_eq_false', Bool.and_eq_true, Bool.not_eq_true'] at h
    exact .inr ⟨h.1, by simpa using h.2⟩

/-- **C04, edits combined.** `all'` arises from `all` by renumbering lines (blank or
comment-only lines inserted / removed between tokens) and then inserting / removing invisible
tokens anywhere (comment-only lines, trailing comments, trailing whitespace, indentation):
same functions, names, order, lengths; line numbers mapped by the renumbering. -/
theorem scanFile_edit (L : Language) (all all' : List Tok) (f : Nat → Nat)
    (hmono : ∀ a b, a < b → f a < f b)
    (hshift : ∀ t ∈ all, IsCode t → ∀ i, i ≤ (lastLineInfo t.val).1 → f (t.line + i) = f t.line + i)
    (hedit : EditInvisible (relabel f all) all') :
    scanFile L all' =
      (scanFile L all).map (List.map (fun m => { m with sl := f m.sl, el := f m.el })) := by
  rw [← scanFile_editInvisible L _ _ hedit, scanFile_relabel_code L all f hmono hshift]

/-! ## only lines with code are counted -/

/-- `count_lines` is the number of distinct elements of `countedLines`. -/
theorem countLines_eq (code : List Tok) (s : Scope) (ch : List Range) :
    countLines code s ch = (countedLines code s ch).map countDistinct :=
  countLines_eq_countedLines code s ch

/-- (Internal form, about a helper of `count_lines`; the statements about REPORTED measurements
are `scanFile_len_counts_code_lines` and `comment_only_line_removable`.)  Every line counted for a
scope is the line of a code token (neither whitespace nor
comment) of the file lying inside the scope's token range. -/
theorem counted_lines_carry_code (all : List Tok) (s : Scope) (ch : List Range) (ls : List Nat)
    (h : countedLines (filterTokens false all) s ch = .ok ls) :
    ∀ l ∈ ls, ∃ j t, s.hdr.rng.s ≤ j ∧ j < s.blk.e ∧ (filterTokens false all)[j]? = some t ∧
      t ∈ all ∧ IsCode t ∧ t.line = l := by
  intro l hl
  obtain ⟨j, t, h1, h2, h3, h4⟩ := countedLines_mem h l hl
  have hm := mem_filterTokens_false.mp (List.mem_of_getElem? h3)
  exact ⟨j, t, h1, h2, h3, hm.1, hm.2, h4⟩

/-- (Internal form.)  A line on which every token is whitespace or a comment is never counted. -/
theorem comment_only_line_not_counted (all : List Tok) (s : Scope) (ch : List Range)
    (ls : List Nat) (h : countedLines (filterTokens false all) s ch = .ok ls) (l : Nat)
    (hl : ∀ t ∈ all, t.line = l → t.isWhitespace = true ∨ t.isComment = true) : l ∉ ls := by
  intro hmem
  obtain ⟨_, t, _, _, _, ht, hc, hline⟩ := counted_lines_carry_code all s ch ls h l hmem
  rcases hl t ht hline with h' | h'
  · rw [hc.1] at h'; cases h'
  · rw [hc.2] at h'; cases h'

/-- **The reported length of every function counts lines that carry code INSIDE ITS SPAN** (every
language, every token list): the measurement starts at the position of code token `i`, ends just
past code token `e - 1`, and its length is the number of distinct elements of a list of lines each
of which is the line of a code token `j` with `i ≤ j < e`.  (Before the audit the lines were only
tied to the file, not to the span.  The arithmetic bound `len ≤` number of distinct lines of tokens
`i .. e-1` is `C05.measurement_anchored` / `C05.measurement_wf`.) -/
theorem scanFile_len_counts_code_lines (L : Language) (all : List Tok) (ms : List Measurement)
    (h : scanFile L all = .ok ms) :
    ∀ m ∈ ms, ∃ (i e : Nat) (ls : List Nat),
      (∃ ti, (filterTokens false all)[i]? = some ti ∧ (m.sl, m.sc) = (ti.line, ti.col)) ∧
      (∃ tj, (filterTokens false all)[e - 1]? = some tj ∧ 0 < e ∧ (m.el, m.ec) = tj.endPos) ∧
      m.len = countDistinct ls ∧
      ∀ l ∈ ls, ∃ j t, i ≤ j ∧ j < e ∧ (filterTokens false all)[j]? = some t ∧ t ∈ all ∧ IsCode t ∧ t.line = l := by
  unfold scanFile at h
  rcases hb : buildScopes L all with e | scs
  · simp [hb] at h
  · simp only [hb] at h
    intro m hm
    obtain ⟨⟨s, ch⟩, _, hp⟩ := measureAll_mem h m hm
    obtain ⟨first, last, hf, hl, hpos, _, hs, he, hlen⟩ := measure_inv hp
    rw [countLines_eq] at hlen
    rcases hc : countedLines (filterTokens false all) s ch with e | ls
    · simp [hc] at hlen
    · simp only [hc, Except.map_ok', Except.ok.injEq] at hlen
      exact ⟨s.hdr.rng.s, s.blk.e, ls, ⟨first, hf, hs⟩, ⟨last, hl, hpos, he⟩, hlen.symm,
        counted_lines_carry_code all s ch ls hc⟩

/-- No function is longer than the number of lines of the file that carry code. -/
theorem scanFile_len_le_code_lines (L : Language) (all : List Tok) (ms : List Measurement)
    (h : scanFile L all = .ok ms) :
    ∀ m ∈ ms, m.len ≤ countDistinct ((filterTokens false all).map (·.line)) := by
  intro m hm
  obtain ⟨_, _, ls, _, _, hlen, hls⟩ := scanFile_len_counts_code_lines L all ms h m hm
  rw [hlen]
  apply countDistinct_le_of_subset
  intro l hl
  obtain ⟨_, t, _, _, _, ht, hc, hline⟩ := hls l hl
  exact List.mem_map.mpr ⟨t, mem_filterTokens_false.mpr ⟨ht, hc⟩, hline⟩

/-! ## non-vacuity -/

section Examples

/-- ```
f() {          -- line 1
  // hi        -- line 2: comment only
  x = "a       -- line 3
b";  // t      -- line 4 (the string spans lines 3-4), trailing comment
               -- line 5: blank
}              -- line 6
``` -/
def cToks : List Tok := [
  ⟨2, 10, [102], 1, 1⟩, ⟨3, 11, [40], 1, 2⟩, ⟨3, 11, [41], 1, 3⟩, ⟨6, 12, [32], 1, 4⟩,
  ⟨3, 11, [123], 1, 5⟩, ⟨6, 12, [10], 1, 6⟩,
  ⟨6, 12, [32, 32], 2, 1⟩, ⟨5, 13, [47, 47, 32, 104, 105], 2, 3⟩, ⟨6, 12, [10], 2, 8⟩,
  ⟨2, 10, [120], 3, 3⟩, ⟨4, 14, [61], 3, 5⟩, ⟨7, 15, [34, 97, 10, 98, 34], 3, 7⟩,
  ⟨3, 11, [59], 4, 3⟩, ⟨5, 13, [47, 47, 32, 116], 4, 5⟩, ⟨6, 12, [10], 4, 9⟩,
  ⟨6, 12, [10], 5, 1⟩,
  ⟨3, 11, [125], 6, 1⟩]

/-- two new lines are inserted before line 3 -/
def shift2 (l : Nat) : Nat := if l < 3 then l else l + 2

theorem shift2_mono : ∀ a b, a < b → shift2 a < shift2 b := by
  intro a b h; unfold shift2; split <;> split <;> omega

theorem shift2_shift : ∀ t ∈ cToks, IsCode t → ∀ i, i ≤ (lastLineInfo t.val).1 →
    shift2 (t.line + i) = shift2 t.line + i :=
  shiftCode_of_check shift2 cToks (by decide)

/-- The hypothesis of `scanFile_relabel` in its literal form (ALL tokens are shifted rigidly) is
too strong for lexer output: a newline whitespace token `"\n"` at the end of line 2 "spans"
lines 2-3, so no line could ever be inserted after a line that ends in such a token.  This is
why `scanFile_relabel_code` (code tokens only) is the theorem to use. -/
example : ¬ ∀ t ∈ cToks, ∀ i, i ≤ (lastLineInfo t.val).1 → shift2 (t.line + i) = shift2 t.line + i := by
  intro h
  have := h ⟨6, 12, [10], 2, 8⟩ (by decide) 1 (by decide)
  revert this; decide

/-- the function is found: `f`, lines 1-6, 4 lines of code (1, 3, 4, 6) -/
example : scanFile Gen.c cToks = .ok [⟨[102], 1, 1, 6, 2, 4⟩] := by decide +kernel

/-- after the renumbering: lines 1-8, still 4 lines -/
example : scanFile Gen.c (relabel shift2 cToks) = .ok [⟨[102], 1, 1, 8, 2, 4⟩] := by
  rw [scanFile_relabel_code Gen.c cToks shift2 shift2_mono shift2_shift]
  decide +kernel

/-- brace languages: any strictly monotone renumbering, e.g. `l ↦ 3 * l + 1` (which tears the
string token of lines 3-4 apart - harmless, its extent is never reported) -/
example : scanFile Gen.c (relabel (fun l => 3 * l + 1) cToks) = .ok [⟨[102], 4, 1, 19, 2, 4⟩] := by
  rw [scanFile_relabel_brace Gen.c rfl cToks _ (by intro a b h; omega)]
  decide +kernel

/-- every shipped language other than Python is a brace-block language -/
example : ∀ p ∈ Gen.all, p.2.python = false ∨ p.1 = "Python" := by decide

/-- the hypotheses of `scanFile_insert_lines` hold for `n = 2` (not for `n = 3`: the string) -/
example : ∀ t ∈ cToks, IsCode t → t.line ≤ 2 → t.line + (lastLineInfo t.val).1 ≤ 2 := by decide
example : ¬ ∀ t ∈ cToks, IsCode t → t.line ≤ 3 → t.line + (lastLineInfo t.val).1 ≤ 3 := by decide

/-- stripping every comment and whitespace token removes 8 of the 17 tokens -/
example : (cToks.filter (fun t => !(t.isWhitespace || (t.isComment && !isNoclText t.val)))).length = 9 := by
  decide

/-- an edit in the sense of `scanFile_edit`: renumber, then add a comment-only line 3 -/
example : EditInvisible (relabel shift2 cToks)
    (⟨5, 13, [47, 47, 32, 110, 101, 119], 3, 1⟩ :: relabel shift2 cToks) :=
  .insert _ (by decide) (EditInvisible.refl _)

/-- The restriction to comments NOT starting with the suppression marker is necessary: adding
the trailing comment `// nocl` to line 1 suppresses the function. -/
example : ¬ Invisible ⟨5, 13, [47, 47, 32, 110, 111, 99, 108], 1, 7⟩ := by decide
example : scanFile Gen.c (⟨5, 13, [47, 47, 32, 110, 111, 99, 108], 1, 7⟩ :: cToks) = .ok [] := by
  decide +kernel

/-- a comment-only line carrying the MARKER, inserted as line 2 of the shifted file: no effect
(`scanFile_filter_noncode` read from right to left; `scanFile_filter_invisible` does not apply) -/
example :
    let c : Tok := ⟨5, 13, [47, 47, 32, 110, 111, 99, 108], 3, 1⟩
    ¬ Invisible c ∧
    scanFile Gen.c (c :: relabel shift2 cToks) = scanFile Gen.c (relabel shift2 cToks) ∧
    (c :: relabel shift2 cToks).filter (fun t => t.line != 3) = relabel shift2 cToks := by
  refine ⟨by decide, by decide +kernel, by decide⟩

/-- `comment_only_line_removable` applies to lines 2 and 5 of `cToks` and to the marker line of the
previous example (its hypothesis holds), and `Gen.c` is a shipped language -/
example : Gen.c ∈ Gen.all.map (·.2) := by simp [Gen.all]
example : scanFile Gen.c (cToks.filter (fun t => t.line != 2)) = scanFile Gen.c cToks :=
  comment_only_line_removable Gen.c (by simp [Gen.all]) cToks 2 (by decide)

/-- `scanFile_len_counts_code_lines` on `cToks`: span = code tokens 0 .. 8 (`f` .. `}`), counted
lines 1, 3, 4, 6 -/
example : ((filterTokens false cToks).map (·.line)) = [1, 1, 1, 1, 3, 3, 3, 4, 6] ∧
    countDistinct [1, 1, 1, 1, 3, 3, 3, 4, 6] = 4 := by decide

/-- line 2 (comment only) and line 5 (blank) satisfy the hypothesis of
`comment_only_line_not_counted`; line 3 does not -/
example : ∀ t ∈ cToks, t.line = 2 → t.isWhitespace = true ∨ t.isComment = true := by decide
example : ∀ t ∈ cToks, t.line = 5 → t.isWhitespace = true ∨ t.isComment = true := by decide
example : ¬ ∀ t ∈ cToks, t.line = 3 → t.isWhitespace = true ∨ t.isComment = true := by decide

/-- ```
def f():        -- line 1
  x = 1         -- line 2
  # c           -- line 3
                -- line 4
  y = """a      -- line 5
b"""            -- line 6
``` -/
def pyToks : List Tok := [
  ⟨1, 20, [100, 101, 102], 1, 1⟩, ⟨2, 10, [102], 1, 5⟩, ⟨3, 11, [40], 1, 6⟩, ⟨3, 11, [41], 1, 7⟩,
  ⟨3, 11, [58], 1, 8⟩,
  ⟨2, 10, [120], 2, 3⟩, ⟨4, 14, [61], 2, 5⟩, ⟨0, 16, [49], 2, 7⟩,
  ⟨5, 13, [35, 32, 99], 3, 3⟩,
  ⟨2, 10, [121], 5, 3⟩, ⟨4, 14, [61], 5, 5⟩, ⟨7, 15, [34, 34, 34, 97, 10, 98, 34, 34, 34], 5, 7⟩]

example : scanFile Gen.python pyToks = .ok [⟨[102], 1, 1, 6, 5, 3⟩] := by decide +kernel

example : scanFile Gen.python (relabel shift2 pyToks) = .ok [⟨[102], 1, 1, 8, 5, 3⟩] := by
  rw [scanFile_relabel Gen.python pyToks shift2 shift2_mono (shiftOn_of_check _ _ (by decide))]
  decide +kernel

/-- The shift hypothesis of `scanFile_relabel` cannot be dropped: a strictly monotone
renumbering that separates the two lines of the final string token does not map the reported
end line by `f`. -/
example : ∃ f : Nat → Nat, (∀ a b, a < b → f a < f b) ∧
    scanFile Gen.python (relabel f pyToks) ≠
      (scanFile Gen.python pyToks).map (List.map (fun m => { m with sl := f m.sl, el := f m.el })) := by
  refine ⟨fun l => if l < 6 then l else l + 2, ?_, by decide +kernel⟩
  intro a b h; dsimp only; split <;> split <;> omega

end Examples

end CL.C04
