import CodeLimit.Lemmas.PipelineMain
/-!
# `MeasWf` (Spec/Pipeline.lean) from the text-level theorems of C05 (`Props/C05text.lean`), and its
# text-only consequences
-/
namespace CL.Pipeline

open CL CL.Sel CL.Compose

/-- the code tokens of `Spec/Pipeline.lean` are the code raw tokens of `Lemmas/Compose.lean` -/
theorem isCodeTok_eq : isCodeTok = isCodeRaw := rfl

theorem codeLines_eq (text : Str) (raw : List RawTok) (a b : Nat) :
    codeLines text raw a b =
      ((codeRaw raw).filter (fun r => decide (a ≤ r.off ∧ r.off ≤ b))).map (fun r => lineOf text r.off) := rfl

/-- the line of an offset does not decrease with the offset -/
theorem lineOf_mono (text : Str) {a b : Nat} (h : a ≤ b) : lineOf text a ≤ lineOf text b := by
  unfold lineOf
  have : (text.take a).count 10 ≤ (text.take b).count 10 := by
    have hs : (text.take a).Sublist (text.take b) := by
      have : text.take a = (text.take b).take a := by rw [List.take_take, Nat.min_eq_left h]
      rw [this]; exact List.take_sublist _ _
    exact hs.count_le 10
  omega

theorem countDistinct_le_length : ∀ (n : Nat) (l : List Nat), l.length ≤ n → countDistinct l ≤ l.length
  | _, [], _ => by simp [countDistinct]
  | 0, _ :: _, hn => by simp at hn
  | n + 1, a :: as, hn => by
    rw [countDistinct_cons]
    have hlen : (as.filter (fun b => !b == a)).length ≤ as.length := List.length_filter_le _ _
    have := countDistinct_le_length n (as.filter (fun b => !b == a)) (by simp at hn; omega)
    simp only [List.length_cons]
    omega

/-- a list of numbers all lying in `[lo, hi]` has at most `hi - lo + 1` distinct values -/
theorem countDistinct_le_span {l : List Nat} {lo hi : Nat} (h : ∀ x ∈ l, lo ≤ x ∧ x ≤ hi) :
    countDistinct l ≤ hi + 1 - lo := by
  have h1 : countDistinct l ≤ countDistinct (List.range' lo (hi + 1 - lo)) := by
    apply countDistinct_mono_subset
    intro x hx
    obtain ⟨h2, h3⟩ := h x hx
    rw [List.mem_range'_1]
    omega
  have h2 := countDistinct_le_length _ (List.range' lo (hi + 1 - lo)) (Nat.le_refl _)
  rw [List.length_range'] at h2
  omega

/-- **`MeasWf` is what `C05text.measurement_text_wf` and `measurement_lines_columns` say** -/
theorem measWf_of_analyze (L : Language) (hL : L ∈ Gen.all.map (·.2)) (code : Str)
    (raw : List RawTok) (h : RawOk code raw) (hne : ∀ t ∈ raw, t.kind ≠ 6 → t.val ≠ [])
    (ms : List Measurement) (n : Nat) (ha : analyze L code raw = .ok (ms, n)) :
    ∀ m ∈ ms, MeasWf code raw (measOf m) := by
  intro m0 hm0
  obtain ⟨h1, h2, h3, h4, ls, le, o, ch', _, _, h5, _, h6, _⟩ :=
    C05text.measurement_lines_columns L hL code raw h hne ms n ha m0 hm0
  obtain ⟨ri, rj, rk, hri, hrj, hrk, hci, hcj, hck, hkind, hik, _, hjb, hs, _, he, _, hname, _, hkend, hlen1,
      hlen2⟩ := C05text.measurement_text_wf L hL code raw h hne ms n ha m0 hm0
  have h3' : m0.el ≤ numLines code := h3
  obtain ⟨hs1, hs2⟩ := Prod.mk.inj hs
  obtain ⟨he1, he2⟩ := Prod.mk.inj he
  obtain ⟨_, _, hkt⟩ := RawOkFrom.text (pre := []) h rfl rk hrk
  simp only [List.nil_append] at hkt
  simp only [MeasWf, measOf]
  refine ⟨by exact_mod_cast h1, by exact_mod_cast h2, by exact_mod_cast h3', ?_, by exact_mod_cast h5,
    by exact_mod_cast h6, ri, rj, rk, hri, hrj, hrk, hci, hcj, hck, hkind, hik, ?_, hjb,
    by exact_mod_cast hs1, by exact_mod_cast hs2, by exact_mod_cast he1, by exact_mod_cast he2, hname, hkt,
    by exact_mod_cast hlen1, ?_⟩
  · rcases h4 with h4 | ⟨h4, h4'⟩
    · exact Or.inl (by exact_mod_cast h4)
    · exact Or.inr ⟨by exact_mod_cast h4, by exact_mod_cast h4'⟩
  · rw [← hname]; exact hkend
  · rw [codeLines_eq]; exact_mod_cast hlen2

/-- **the length is at most the number of lines of the span**, `value ≤ el - sl + 1` (text-only
reading of "at most the code-bearing lines of its span") -/
theorem MeasWf.value_le_lines {text : Str} {raw : List RawTok} {m : Json.Meas} (h : MeasWf text raw m) :
    m.value ≤ m.el - m.sl + 1 := by
  obtain ⟨_, hle, _, _, _, _, ri, rj, rk, _, _, _, _, _, _, _, hik, hkend, _, hsl, _, hel, _, _, _, _, hval⟩ := h
  have hb : countDistinct (codeLines text raw ri.off rj.off) ≤
      lineOf text (rj.off + rj.val.length) + 1 - lineOf text ri.off := by
    apply countDistinct_le_span
    intro x hx
    simp only [codeLines, List.mem_map, List.mem_filter, decide_eq_true_eq] at hx
    obtain ⟨r, ⟨_, h1, h2⟩, rfl⟩ := hx
    exact ⟨lineOf_mono text h1, lineOf_mono text (by omega)⟩
  have hmono : lineOf text ri.off ≤ lineOf text (rj.off + rj.val.length) := by
    rw [hsl, hel] at hle; exact_mod_cast hle
  rw [hsl, hel]
  have : (countDistinct (codeLines text raw ri.off rj.off) : Int) ≤
      (lineOf text (rj.off + rj.val.length) : Int) - lineOf text ri.off + 1 := by omega
  omega

/-- **the name lies inside the span, in offsets of the text**: `location_to_index` maps the start
and the end of the measurement to offsets `os ≤ oe`, and the unit name is found in the text at an
offset `o` with `os ≤ o` and `o + |name| ≤ oe` -/
theorem MeasWf.name_in_span {text : Str} {raw : List RawTok} {m : Json.Meas} (h : MeasWf text raw m) :
    ∃ os oe o, locationToIndex text m.sl.toNat m.sc.toNat = .ok os ∧
      locationToIndex text m.el.toNat m.ec.toNat = .ok oe ∧
      os ≤ o ∧ o + m.unitName.length ≤ oe ∧ oe ≤ text.length ∧
      (text.drop o).take m.unitName.length = m.unitName := by
  obtain ⟨_, _, _, _, _, _, ri, rj, rk, _, _, _, _, _, _, _, hik, hkend, hjb, hsl, hsc, hel, hec, hname, hkt, _, _⟩ := h
  refine ⟨ri.off, rj.off + rj.val.length, rk.off, ?_, ?_, hik, by rw [hname]; exact hkend, hjb,
    by rw [hname]; exact hkt⟩
  · rw [hsl, hsc]
    simp only [Int.toNat_natCast]
    exact locationToIndex_lineOf_colOf text ri.off (by omega)
  · rw [hel, hec]
    simp only [Int.toNat_natCast]
    exact locationToIndex_lineOf_colOf text _ hjb

end CL.Pipeline
