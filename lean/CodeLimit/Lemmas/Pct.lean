import CodeLimit.Model.Pct
import CodeLimit.Gen.Logic
import Mathlib.Tactic.Linarith
import Mathlib.Tactic.Positivity
/-!
# Lemmas about `CL.pct` and the shape of `quality_profile_percentage`

`CL.pct p t = ⌈(100000 p - t) / (1000 t)⌉ = ⌈100 p / t - 0.001⌉` for `t > 0`. Everything below is
stated without division: `c = pct p t` iff `(c - 1) * (1000 t) < 100000 p - t ≤ c * (1000 t)`.
-/
namespace CL

/-- `pct p t ≥ 100 p / t - 0.001` -/
theorem pct_lower (p t : Int) (ht : 0 < t) : 100000 * p - t ≤ pct p t * (1000 * t) := by
  unfold pct
  have hD : (0 : Int) < 1000 * t := by positivity
  have := Int.ediv_mul_le (t - 100000 * p) (ne_of_gt hD)
  nlinarith

/-- `pct p t < 100 p / t - 0.001 + 1` -/
theorem pct_upper (p t : Int) (ht : 0 < t) : pct p t * (1000 * t) < 100000 * p - t + 1000 * t := by
  unfold pct
  have hD : (0 : Int) < 1000 * t := by positivity
  have := Int.lt_ediv_add_one_mul_self (t - 100000 * p) hD
  nlinarith

/-- `pct p t` is THE integer `c` with `c - 1 < 100 p / t - 0.001 ≤ c`, i.e. the ceiling -/
theorem pct_unique (p t c : Int) (ht : 0 < t)
    (hlo : 100000 * p - t ≤ c * (1000 * t)) (hhi : c * (1000 * t) < 100000 * p - t + 1000 * t) :
    c = pct p t := by
  have h1 := pct_lower p t ht
  have h2 := pct_upper p t ht
  rcases Int.lt_trichotomy c (pct p t) with h | h | h
  · have : c + 1 ≤ pct p t := by omega
    nlinarith
  · exact h
  · have : pct p t + 1 ≤ c := by omega
    nlinarith

theorem pct_nonneg (p t : Int) (ht : 0 < t) (hp : 0 ≤ p) : 0 ≤ pct p t := by
  have h := pct_lower p t ht
  by_contra hneg
  have : pct p t ≤ -1 := by omega
  have hD : (0 : Int) ≤ 1000 * t := by positivity
  nlinarith [mul_le_mul_of_nonneg_right this hD]

theorem pct_le_100 (p t : Int) (ht : 0 < t) (hp : p ≤ t) : pct p t ≤ 100 := by
  have h := pct_upper p t ht
  by_contra hgt
  have : 101 ≤ pct p t := by omega
  have hD : (0 : Int) ≤ 1000 * t := by positivity
  nlinarith [mul_le_mul_of_nonneg_right this hD]

/-- the percentage is positive exactly when the share exceeds 0.001 % -/
theorem pct_pos_iff (p t : Int) (ht : 0 < t) : 0 < pct p t ↔ t < 100000 * p := by
  have h1 := pct_lower p t ht
  have h2 := pct_upper p t ht
  constructor
  · intro h
    have : 1 ≤ pct p t := by omega
    nlinarith
  · intro h
    by_contra hneg
    have : pct p t ≤ 0 := by omega
    nlinarith

/-- `k < ⌈x⌉ ↔ k < x` with `x = 100 p / t - 0.001` -/
theorem lt_pct_iff (p t k : Int) (ht : 0 < t) : k < pct p t ↔ k * (1000 * t) < 100000 * p - t := by
  have h1 := pct_lower p t ht
  have h2 := pct_upper p t ht
  have hD : (0 : Int) ≤ 1000 * t := by positivity
  constructor
  · intro h
    have : k + 1 ≤ pct p t := by omega
    nlinarith [mul_le_mul_of_nonneg_right this hD]
  · intro h
    by_contra hneg
    have : pct p t ≤ k := by omega
    nlinarith [mul_le_mul_of_nonneg_right this hD]

/-- two categories can overshoot 100 by at most one point -/
theorem pct_add_le_101 (p q t : Int) (ht : 0 < t) (hpq : p + q ≤ t) :
    pct p t + pct q t ≤ 101 := by
  have h1 := pct_upper p t ht
  have h2 := pct_upper q t ht
  by_contra hgt
  have : 102 ≤ pct p t + pct q t := by omega
  nlinarith

theorem pct_zero_left (t : Int) (ht : 0 < t) : pct 0 t = 0 :=
  (pct_unique 0 t 0 ht (by omega) (by omega)).symm

theorem pct_self (t : Int) (ht : 0 < t) : pct t t = 100 :=
  (pct_unique t t 100 ht (by omega) (by omega)).symm

/-- pure arithmetic: deviation of the adjusted numbers from the true shares -/
theorem adjust_bounds (t p2 p3 U H u h : Int) (ht : 0 < t) (hsum : p2 + p3 ≤ t)
    (hUl : 100000 * p3 - t ≤ U * (1000 * t)) (hUu : U * (1000 * t) < 100000 * p3 - t + 1000 * t)
    (hHl : 100000 * p2 - t ≤ H * (1000 * t)) (hHu : H * (1000 * t) < 100000 * p2 - t + 1000 * t)
    (hc : (U + H ≤ 100 ∧ u = U ∧ h = H) ∨ (U + H > 100 ∧ H ≤ U ∧ u = U - 1 ∧ h = H) ∨
        (U + H > 100 ∧ U < H ∧ u = U ∧ h = H - 1)) :
    (-999 * t < 1000 * (u * t - 100 * p3) ∧ 1000 * (u * t - 100 * p3) < 999 * t) ∧
    (-999 * t < 1000 * (h * t - 100 * p2) ∧ 1000 * (h * t - 100 * p2) < 999 * t) ∧
    (-1998 * t < 1000 * ((100 - u - h) * t - 100 * (t - p2 - p3)) ∧
      1000 * ((100 - u - h) * t - 100 * (t - p2 - p3)) ≤ 2 * t) := by
  have h101 : U + H ≤ 101 := by
    by_contra hgt
    have : 102 ≤ U + H := by omega
    have hD : (0 : Int) ≤ 1000 * t := by positivity
    nlinarith [mul_le_mul_of_nonneg_right this hD]
  rcases hc with ⟨_, hu, hh⟩ | ⟨hgt, _, hu, hh⟩ | ⟨hgt, _, hu, hh⟩ <;> rw [hu, hh]
  · refine ⟨⟨?_, ?_⟩, ⟨?_, ?_⟩, ?_, ?_⟩ <;> linarith
  · have he : (U + H) * t = 101 * t := by rw [show U + H = 101 by omega]
    refine ⟨⟨?_, ?_⟩, ⟨?_, ?_⟩, ?_, ?_⟩ <;> linarith
  · have he : (U + H) * t = 101 * t := by rw [show U + H = 101 by omega]
    refine ⟨⟨?_, ?_⟩, ⟨?_, ?_⟩, ?_, ?_⟩ <;> linarith
namespace Gen.Logic

/-- The only lemma that looks inside the generated `quality_profile_percentage`: the four numbers
in terms of the three raw percentages `U H V`. -/
theorem quality_profile_percentage_spec (p0 p1 p2 p3 U H V : Int)
    (hU : U = if p0 + p1 + p2 + p3 > 0 then CL.pct p3 (p0 + p1 + p2 + p3) else 0)
    (hH : H = if p0 + p1 + p2 + p3 > 0 then CL.pct p2 (p0 + p1 + p2 + p3) else 0)
    (hV : V = if p0 + p1 + p2 + p3 > 0 then CL.pct p1 (p0 + p1 + p2 + p3) else 0) :
    ∃ e v h u, quality_profile_percentage p0 p1 p2 p3 = (e, v, h, u) ∧
      ((U + H ≤ 100 ∧ u = U ∧ h = H) ∨ (U + H > 100 ∧ H ≤ U ∧ u = U - 1 ∧ h = H) ∨
        (U + H > 100 ∧ U < H ∧ u = U ∧ h = H - 1)) ∧
      v = min V (100 - u - h) ∧ e = 100 - u - h - v := by
  unfold quality_profile_percentage
  grind

/-- a non-empty profile: the raw percentages are `pct` of the three upper categories -/
theorem quality_profile_percentage_pos (p0 p1 p2 p3 e v h u : Int) (ht : 0 < p0 + p1 + p2 + p3)
    (heq : quality_profile_percentage p0 p1 p2 p3 = (e, v, h, u)) :
    ∃ U H V, U = CL.pct p3 (p0 + p1 + p2 + p3) ∧ H = CL.pct p2 (p0 + p1 + p2 + p3) ∧
      V = CL.pct p1 (p0 + p1 + p2 + p3) ∧
      ((U + H ≤ 100 ∧ u = U ∧ h = H) ∨ (U + H > 100 ∧ H ≤ U ∧ u = U - 1 ∧ h = H) ∨
        (U + H > 100 ∧ U < H ∧ u = U ∧ h = H - 1)) ∧
      v = min V (100 - u - h) ∧ e = 100 - u - h - v := by
  obtain ⟨e', v', h', u', heq', hc, hv, he⟩ :=
    quality_profile_percentage_spec p0 p1 p2 p3 _ _ _ rfl rfl rfl
  rw [heq] at heq'
  simp only [Prod.mk.injEq] at heq'
  obtain ⟨rfl, rfl, rfl, rfl⟩ := heq'
  simp only [gt_iff_lt, ht, if_true] at hc hv
  exact ⟨_, _, _, rfl, rfl, rfl, hc, hv, he⟩

/-- an empty profile (no lines of code in any function) -/
theorem quality_profile_percentage_empty (p0 p1 p2 p3 : Int) (ht : p0 + p1 + p2 + p3 ≤ 0) :
    quality_profile_percentage p0 p1 p2 p3 = (100, 0, 0, 0) := by
  obtain ⟨e', v', h', u', heq', hc, hv, he⟩ :=
    quality_profile_percentage_spec p0 p1 p2 p3 _ _ _ rfl rfl rfl
  have hn : ¬ (p0 + p1 + p2 + p3 > 0) := by omega
  simp only [hn, if_false] at hc hv
  rw [heq']
  simp only [Prod.mk.injEq]
  omega

end Gen.Logic
end CL
