import CodeLimit.Lemmas.CodebaseDict
/-!
# The invariant of the folder tree maintained by `add_folder` / `add_file`
-/
namespace CL.Codebase

/-- the folder with key `k` is listed in its parent folder -/
def Linked (T : Tree) (k : Str) : Prop :=
  ∃ f, dget? (parentKeyOf k) T = some f ∧ nameOf k ∈ folderNames f

/-- the file entries of the folder with key `k` (none when there is no such folder) -/
def fileEntriesAt (T : Tree) (k : Str) : List FileEntry :=
  match dget? k T with
  | some f => fileEntries f
  | none => []

structure J (T : Tree) : Prop where
  nodup : (T.map Prod.fst).Nodup
  root : dhas rootKey T = true
  good : ∀ k, dhas k T = true → k = rootKey ∨ GoodNR k
  names : ∀ k f, dget? k T = some f → (folderNames f).Nodup ∧
    ∀ n ∈ folderNames f, ∃ k', dhas k' T = true ∧ GoodNR k' ∧ parentKeyOf k' = k ∧ nameOf k' = n
  zero : ∀ k f, dget? k T = some f → f.profile = Profile.zero
  up : ∀ k, GoodNR k → Linked T k → parentKeyOf k = rootKey ∨ Linked T (parentKeyOf k)

theorem J.linked_has {T : Tree} (h : J T) {k : Str} (hk : GoodNR k) (hl : Linked T k) :
    dhas k T = true := by
  obtain ⟨f, hf, hn⟩ := hl
  obtain ⟨k', hk', hg, hp, hn'⟩ := (h.names _ f hf).2 _ hn
  rw [← goodNR_inj hg hk hp hn']; exact hk'

/-- every folder on the way to a linked folder exists and is linked -/
theorem J.closure {T : Tree} (h : J T) : ∀ (n : Nat) (k : Str), k.length ≤ n → GoodNR k → Linked T k →
    ∀ k', IsDirPrefix k' k → dhas k' T = true ∧ Linked T k' := by
  intro n
  induction n with
  | zero =>
    intro k hn hk
    have := hk.eq_concat
    have : k.length ≠ 0 := by rw [this]; simp
    omega
  | succ n ih =>
    intro k hn hk hl k' hp
    have e := hk.eq_concat
    generalize hF : k.dropLast = F at e
    subst e
    rcases (isDirPrefix_step k' F hk.2).mp hp with rfl | ⟨hne, hp'⟩
    · exact ⟨h.linked_has hk hl, hl⟩
    · rcases parentKeyOf_good hk with hr | ⟨hg, hpre, hneq⟩
      · rw [parentKeyOf_concat] at hr
        have : getParentFolder F = [dot] := by
          have := congrArg List.dropLast hr
          simpa [rootKey] using this
        exact absurd this hne
      · have hlen : (parentKeyOf (F ++ [sl])).length ≤ n := by
          have h1 := hpre.length_le
          have h2 : (parentKeyOf (F ++ [sl])).length ≠ (F ++ [sl]).length :=
            fun e => hneq (hpre.eq_of_length e)
          omega
        rcases h.up _ hk hl with hr | hl'
        · exact absurd hr hg.ne_root
        · rw [parentKeyOf_concat] at hlen hg hl'
          exact ih _ hlen hg hl' k' hp'

theorem folderNames_addFolder (f : Folder) (nm : Str) :
    folderNames (f.addFolder nm) = folderNames f ++ [getBasename nm ++ [sl]] := by
  simp [folderNames, Folder.addFolder, List.filterMap_append]

theorem fileEntries_addFolder (f : Folder) (nm : Str) :
    fileEntries (f.addFolder nm) = fileEntries f := by
  simp [fileEntries, Folder.addFolder, List.filterMap_append]

theorem folderNames_addFile (f : Folder) (e : FileEntry) :
    folderNames (f.addFile e) = folderNames f := by
  simp [folderNames, Folder.addFile, List.filterMap_append]

theorem fileEntries_addFile (f : Folder) (e : FileEntry) :
    fileEntries (f.addFile e) = fileEntries f ++ [e] := by
  simp [fileEntries, Folder.addFile, List.filterMap_append]

/-- adding a fresh, empty, not yet listed folder -/
theorem J.insert_new {T : Tree} (h : J T) {K : Str} (hK : GoodNR K) (hn : dhas K T = false) :
    J (dset K Folder.new T) ∧
    (∀ k, GoodNR k → (Linked (dset K Folder.new T) k ↔ Linked T k)) ∧
    (∀ k, fileEntriesAt (dset K Folder.new T) k = fileEntriesAt T k) := by
  have hnone : dget? K T = none := dhas_false_iff.mp hn
  have hlink : ∀ k, (Linked (dset K Folder.new T) k ↔ Linked T k) := by
    intro k
    unfold Linked
    by_cases hp : parentKeyOf k = K
    · rw [hp, dget?_dset_self, hnone]
      simp [Folder.new, folderNames]
    · rw [dget?_dset_ne hp]
  refine ⟨⟨nodup_keys_dset _ _ h.nodup, ?_, ?_, ?_, ?_, ?_⟩, fun k _ => hlink k, ?_⟩
  · exact (dhas_dset _ _ _ _).mpr (Or.inr h.root)
  · intro k hk
    rcases (dhas_dset _ _ _ _).mp hk with rfl | hk
    · exact Or.inr hK
    · exact h.good k hk
  · intro k f hf
    rw [dget?_dset] at hf
    split at hf
    · cases hf; simp [Folder.new, folderNames]
    · obtain ⟨h1, h2⟩ := h.names k f hf
      refine ⟨h1, fun n hn => ?_⟩
      obtain ⟨k', a, b, c, d⟩ := h2 n hn
      exact ⟨k', (dhas_dset _ _ _ _).mpr (Or.inr a), b, c, d⟩
  · intro k f hf
    rw [dget?_dset] at hf
    split at hf
    · cases hf; rfl
    · exact h.zero k f hf
  · intro k hk hl
    rcases h.up k hk ((hlink k).mp hl) with hr | hl'
    · exact Or.inl hr
    · exact Or.inr ((hlink _).mpr hl')
  · intro k
    unfold fileEntriesAt
    by_cases hk : k = K
    · subst hk; rw [dget?_dset_self, hnone]; simp [Folder.new, fileEntries]
    · rw [dget?_dset_ne hk]

/-- listing the existing, not yet listed folder `K` in its parent -/
theorem J.link {T : Tree} (h : J T) {F : Str} (hK : GoodNR (F ++ [sl])) (hhas : dhas (F ++ [sl]) T = true)
    (hnl : ¬ Linked T (F ++ [sl])) {pf : Folder}
    (hpf : dget? (getParentFolder F ++ [sl]) T = some pf)
    (hup : getParentFolder F = [dot] ∨ Linked T (getParentFolder F ++ [sl])) :
    let T' := dset (getParentFolder F ++ [sl]) (pf.addFolder (getBasename F)) T
    J T' ∧ (∀ k, dhas k T' = true ↔ dhas k T = true) ∧
    (∀ k, GoodNR k → (Linked T' k ↔ (Linked T k ∨ k = F ++ [sl]))) ∧
    (∀ k, fileEntriesAt T' k = fileEntriesAt T k) := by
  intro T'
  have hP : parentKeyOf (F ++ [sl]) = getParentFolder F ++ [sl] := parentKeyOf_concat F
  have hN : nameOf (F ++ [sl]) = getBasename F ++ [sl] := nameOf_concat F
  have hnames : folderNames (pf.addFolder (getBasename F)) = folderNames pf ++ [getBasename F ++ [sl]] := by
    rw [folderNames_addFolder, basename_idem]
  have hhasP : dhas (getParentFolder F ++ [sl]) T = true := dhas_iff.mpr ⟨pf, hpf⟩
  have hkeys : ∀ k, dhas k T' = true ↔ dhas k T = true := by
    intro k
    rw [dhas_dset]
    constructor
    · rintro (rfl | hk)
      · exact hhasP
      · exact hk
    · exact Or.inr
  have hnotin : getBasename F ++ [sl] ∉ folderNames pf := by
    intro hm
    exact hnl ⟨pf, hP ▸ hpf, hN ▸ hm⟩
  have hlink : ∀ k, GoodNR k → (Linked T' k ↔ (Linked T k ∨ k = F ++ [sl])) := by
    intro k hk
    unfold Linked
    by_cases hp : parentKeyOf k = getParentFolder F ++ [sl]
    · rw [hp, dget?_dset_self, hpf]
      simp only [Option.some.injEq, exists_eq_left', hnames, List.mem_append, List.mem_singleton]
      constructor
      · rintro (hm | hm)
        · exact Or.inl hm
        · exact Or.inr (goodNR_inj hk hK (hp.trans hP.symm) (hm.trans hN.symm))
      · rintro (hm | rfl)
        · exact Or.inl hm
        · exact Or.inr hN
    · rw [dget?_dset_ne hp]
      constructor
      · exact Or.inl
      · rintro (hm | rfl)
        · exact hm
        · exact absurd hP hp
  refine ⟨⟨?_, ?_, ?_, ?_, ?_, ?_⟩, hkeys, hlink, ?_⟩
  · exact nodup_keys_dset _ _ h.nodup
  · exact (hkeys _).mpr h.root
  · intro k hk; exact h.good k ((hkeys k).mp hk)
  · intro k f hf
    rw [dget?_dset] at hf
    split at hf
    · rename_i hk
      cases hf
      obtain ⟨h1, h2⟩ := h.names _ pf hpf
      rw [hnames]
      refine ⟨?_, ?_⟩
      · rw [List.nodup_append]
        refine ⟨h1, by simp, ?_⟩
        intro a ha b hb
        simp at hb
        subst hb
        rintro rfl
        exact hnotin ha
      · intro n hn
        rcases List.mem_append.mp hn with hn | hn
        · obtain ⟨k', a, b, c, d⟩ := h2 n hn
          exact ⟨k', (hkeys _).mpr a, b, hk ▸ c, d⟩
        · simp at hn
          subst hn
          exact ⟨F ++ [sl], (hkeys _).mpr hhas, hK, hk ▸ hP, hN⟩
    · obtain ⟨h1, h2⟩ := h.names k f hf
      refine ⟨h1, fun n hn => ?_⟩
      obtain ⟨k', a, b, c, d⟩ := h2 n hn
      exact ⟨k', (hkeys _).mpr a, b, c, d⟩
  · intro k f hf
    rw [dget?_dset] at hf
    split at hf
    · cases hf
      simpa [Folder.addFolder] using h.zero _ pf hpf
    · exact h.zero k f hf
  · intro k hk hl
    rcases (hlink k hk).mp hl with hl | rfl
    · rcases h.up k hk hl with hr | hl'
      · exact Or.inl hr
      · rcases parentKeyOf_good hk with hr | ⟨hg, _, _⟩
        · exact Or.inl hr
        · exact Or.inr ((hlink _ hg).mpr (Or.inl hl'))
    · rcases parentKeyOf_good hK with hr | ⟨hg, _, _⟩
      · exact Or.inl hr
      · rcases hup with hd | hl'
        · left; rw [hP, hd]; rfl
        · right
          rw [hP] at hg ⊢
          exact (hlink _ hg).mpr (Or.inl hl')
  · intro k
    unfold fileEntriesAt
    by_cases hk : k = getParentFolder F ++ [sl]
    · subst hk; rw [dget?_dset_self, hpf]; simp [fileEntries_addFolder]
    · rw [dget?_dset_ne hk]

end CL.Codebase
