import CodeLimit.Spec.PyTree
/-!
# Python indentation trees: forests (`PyProg`) and lists of rose-tree nodes (`List PyNode`) are
the same thing
-/
namespace CL

theorem PyProg.ofNodes_toNodes {α : Type} : ∀ (p : PyProg α), PyProg.ofNodes p.toNodes = p
  | .nil => by simp [PyProg.toNodes, PyProg.ofNodes]
  | .line toks rest => by
    simp [PyProg.toNodes, PyProg.ofNodes, PyNode.toProg, ofNodes_toNodes rest]
  | .block head suite rest => by
    simp [PyProg.toNodes, PyProg.ofNodes, PyNode.toProg, ofNodes_toNodes rest,
      ofNodes_toNodes suite]
  | .defn pre kw name params post suite rest => by
    simp [PyProg.toNodes, PyProg.ofNodes, PyNode.toProg, ofNodes_toNodes rest,
      ofNodes_toNodes suite]

mutual
theorem PyNode.toNodes_toProg {α : Type} : ∀ (n : PyNode α) (rest : PyProg α),
    (n.toProg rest).toNodes = n :: rest.toNodes
  | .line toks, rest => by simp [PyNode.toProg, PyProg.toNodes]
  | .block head suite, rest => by
    simp [PyNode.toProg, PyProg.toNodes, PyProg.toNodes_ofNodes suite]
  | .defn pre kw name params post suite, rest => by
    simp [PyNode.toProg, PyProg.toNodes, PyProg.toNodes_ofNodes suite]
theorem PyProg.toNodes_ofNodes {α : Type} : ∀ (ns : List (PyNode α)),
    (PyProg.ofNodes ns).toNodes = ns
  | [] => by simp [PyProg.ofNodes, PyProg.toNodes]
  | n :: ns => by
    simp [PyProg.ofNodes, PyNode.toNodes_toProg n, PyProg.toNodes_ofNodes ns]
end

end CL
