import CodeLimit.Lemmas.PyTreeText
import CodeLimit.Lemmas.ProgTreeLocate
/-!
# Source text of a brace-language forest whose token texts may contain line breaks

`Model/ProgText.lean` (`textOf`, `rawOf`, `Prog.Spaced`) requires token texts without line breaks:
a block comment or a template literal over several lines is outside `Spaced`.  The text model of
the Python trees (`Model/PyTreeText.lean`: `pyTextOfToks`, `pyRawOfToks`, `pySpacedAfter`) has no
such restriction and only depends on the token sequence.  It starts "after a token at (0, 0)", the
brace renderer "after a token at (1, 0)": `incFirst` adds one line break before the first token.

* `mlTextOf p`, `mlRawOf p`, `Prog.SpacedML p` - text, raw stream and layout condition of a brace
  forest with multi-line tokens;
* `place_incFirst` - the layout is the rendering;
* `mlTextOf_eq_textOf` - without line breaks inside tokens they are `textOf` / `rawOf`.
-/
namespace CL

/-- one more line break before the first token -/
def incFirst : List PTok → List PTok
  | [] => []
  | t :: ts => { t with nl := t.nl + 1 } :: ts

theorem decFirst_incFirst (l : List PTok) : decFirst (incFirst l) = l := by
  cases l with
  | nil => rfl
  | cons t ts => simp [incFirst, decFirst]

theorem incFirst_head (l : List PTok) : ((incFirst l).headD default).nl ≠ 0 ∨ incFirst l = [] := by
  cases l with
  | nil => exact .inr rfl
  | cons t ts => exact .inl (by simp [incFirst])

/-- the layout of `incFirst l` after (0, 0) is the layout of `l` after (1, 0) -/
theorem place_incFirst (l : List PTok) : place (0, 0) (incFirst l) = place (1, 0) l := by
  rw [← place_decFirst _ (incFirst_head l), decFirst_incFirst]

/-- **the source text of a brace forest whose token texts may contain line breaks** (a block
comment over several lines is ONE token) -/
def mlTextOf (p : Prog PTok) : Str := pyTextOfToks (incFirst p.flat)

/-- the raw token stream of `mlTextOf p` -/
def mlRawOf (p : Prog PTok) : List RawTok := pyRawOfToks (incFirst p.flat)

/-- the layout condition: token texts are not empty and no token starts before its predecessor
ENDS (`PTok.gapOk`: for a predecessor over several lines, `nl` is at least the number of its line
breaks, and on its last line `col` is at least the length of that line) -/
def Prog.SpacedML (p : Prog PTok) : Bool := pySpacedAfter [10] (incFirst p.flat)

/-- without line breaks inside token texts, text and raw stream are those of `Model/ProgText.lean` -/
theorem mlTextOf_eq_textOf {p : Prog PTok} (hl : ∀ t ∈ p.flat, 10 ∉ t.val) :
    mlTextOf p = textOf p ∧ mlRawOf p = rawOf p := by
  have hl' : ∀ t ∈ incFirst p.flat, 10 ∉ t.val := by
    intro t ht
    cases h : p.flat with
    | nil => rw [h] at ht; cases ht
    | cons a as =>
      rw [h] at ht
      simp only [incFirst, List.mem_cons] at ht
      rcases ht with rfl | ht
      · exact hl a (by rw [h]; exact List.mem_cons_self ..)
      · exact hl t (by rw [h]; exact List.mem_cons_of_mem _ ht)
  have := pyTextFrom_first (incFirst p.flat) (incFirst_head _) hl'
  rw [decFirst_incFirst] at this
  exact this

end CL
