import CodeLimit.Lemmas.PyTreeLines
import CodeLimit.Lemmas.PyLayoutBlocks
import CodeLimit.Lemmas.ProgTreeBare
/-!
# Python indentation trees: from line breaks and blank columns to a canonical `PyLayout`

The renderer `place` turns "line breaks before the token" into line numbers.  For a token list
without continuation tokens a token begins a logical line iff it follows a line break
(`startsLine_place`), its column is then `1 + col` (`colNo_place`), and line numbers never
decrease.  Hence the facts `FnOK` (no line numbers) give the clauses of `PyLayout`
(`pyLayout_of_place`).
-/
namespace CL.PyT

/-! ## the tokens laid out by `place` -/

theorem advLoc_append (s : Nat × Nat) (a b : List PTok) :
    advLoc s (a ++ b) = advLoc (advLoc s a) b := by
  simp [advLoc, List.foldl_append]

/-- the token at index `j` is laid out after the location reached by the tokens before it -/
theorem place_get : ∀ (l : List PTok) (s : Nat × Nat) (j : Nat) (p : PTok), l[j]? = some p →
    (place s l)[j]? = some (p.put (advLoc s (l.take j)))
  | [], _, _, _, h => by cases h
  | t :: l, s, 0, p, h => by
    simp only [List.getElem?_cons_zero, Option.some.injEq] at h
    subst h
    rfl
  | t :: l, s, j + 1, p, h => by
    simp only [List.getElem?_cons_succ] at h
    simp only [place, List.getElem?_cons_succ, List.take_succ_cons]
    rw [place_get l _ j p h]
    rfl

theorem advLoc_take_succ (l : List PTok) (s : Nat × Nat) (j : Nat) (p : PTok) (h : l[j]? = some p) :
    advLoc s (l.take (j + 1)) = (p.put (advLoc s (l.take j))).loc := by
  rw [List.take_add_one, h, advLoc_append]
  rfl

/-- consecutive tokens: the later one is laid out after the earlier one -/
theorem place_succ {l : List PTok} {s : Nat × Nat} {j : Nat} {p p' : PTok} (h : l[j]? = some p)
    (h' : l[j + 1]? = some p') :
    ∃ a, (place s l)[j]? = some a ∧ (place s l)[j + 1]? = some (p'.put a.loc) := by
  refine ⟨_, place_get l s j p h, ?_⟩
  rw [place_get l s (j + 1) p' h', advLoc_take_succ l s j p h]

theorem put_line (s : Nat × Nat) (t : PTok) : (t.put s).line = s.1 + t.nl := by
  unfold PTok.put
  split
  · next h => simp [h]
  · rfl

theorem put_col_of_nl (s : Nat × Nat) (t : PTok) (h : t.nl ≠ 0) : (t.put s).col = 1 + t.col := by
  unfold PTok.put
  rw [if_neg h]

theorem lineNo_place_succ {ps : List PTok} {s : Nat × Nat} {j : Nat} (h : j + 1 < ps.length) :
    lineNo (place s ps) (j + 1) = lineNo (place s ps) j + nlAt ps (j + 1) := by
  have h0 : ps[j]? = some ps[j] := List.getElem?_eq_getElem (by omega)
  have h1 : ps[j + 1]? = some ps[j + 1] := List.getElem?_eq_getElem h
  obtain ⟨a, ha, hb⟩ := place_succ (s := s) h0 h1
  simp only [lineNo, ha, hb, Option.map_some, Option.getD_some, nlAt_eq h1, put_line]
  rfl

theorem colNo_place {ps : List PTok} {s : Nat × Nat} {j : Nat} (h : j < ps.length)
    (hnl : nlAt ps j ≠ 0) : colNo (place s ps) j = 1 + colAt ps j := by
  have h1 : ps[j]? = some ps[j] := List.getElem?_eq_getElem h
  rw [nlAt_eq h1] at hnl
  simp only [colNo, place_get ps s j _ h1, Option.map_some, Option.getD_some, colAt_eq h1,
    put_col_of_nl _ _ hnl]

theorem same_continuesLine {a b : Tok} (h : Tok.Same a b) :
    a.continuesLine = b.continuesLine := by
  unfold Tok.continuesLine Tok.isString; rw [h.1, h.2]

/-- a list of plain tokens is laid out without continuation tokens, and consists of code -/
theorem place_plain {ps : List PTok} (s : Nat × Nat) (h : ps.all PTok.plain = true) :
    NoContinuation (place s ps) ∧ (place s ps).all Tok.isCode = true := by
  have h1 : (ps.map PTok.bare).all (fun t => !t.continuesLine) = true := by
    rw [List.all_map]
    refine List.all_eq_true.mpr (fun p hp => ?_)
    have := List.all_eq_true.mp h p hp
    simp only [PTok.plain, Bool.and_eq_true] at this
    exact this.2
  have h2 : (ps.map PTok.bare).all Tok.isCode = true := by
    rw [List.all_map]
    refine List.all_eq_true.mpr (fun p hp => ?_)
    have := List.all_eq_true.mp h p hp
    simp only [PTok.plain, Bool.and_eq_true] at this
    exact this.1
  rw [← place_all (P := fun t => !t.continuesLine) (fun a b hab => by
    simp only [same_continuesLine hab]) ps s] at h1
  rw [← place_all (P := Tok.isCode) (fun a b hab => hab.isCode) ps s] at h2
  refine ⟨fun t ht => ?_, h2⟩
  have := List.all_eq_true.mp h1 t ht
  simpa using this

/-- without continuation tokens a token begins a logical line iff it follows a line break -/
theorem startsLine_place {ps : List PTok} {s : Nat × Nat} (hc : NoContinuation (place s ps))
    {j : Nat} (h : j + 1 < ps.length) :
    startsLine (place s ps) (j + 1) = (nlAt ps (j + 1) != 0) := by
  have hl : (place s ps).length = ps.length := length_place ps s
  have h0 : j < (place s ps).length := by omega
  have h1 : j + 1 < (place s ps).length := by omega
  have hp : (place s ps)[j].continuesLine = false := hc _ (List.getElem_mem h0)
  rw [startsLine_succ (List.getElem?_eq_getElem h0) (List.getElem?_eq_getElem h1), hp,
    ← lineNo_eq h1, ← lineNo_eq h0, lineNo_place_succ h]
  by_cases hz : nlAt ps (j + 1) = 0
  · simp [hz]
  · have hne : lineNo (place s ps) j + nlAt ps (j + 1) ≠ lineNo (place s ps) j := by omega
    have e1 : (lineNo (place s ps) j + nlAt ps (j + 1) != lineNo (place s ps) j) = true := by
      simpa using hne
    have e2 : (nlAt ps (j + 1) != 0) = true := by simpa using hz
    rw [e1, e2]; simp

theorem startsLine_place' {ps : List PTok} {s : Nat × Nat} (hc : NoContinuation (place s ps))
    {j : Nat} (h : j < ps.length) (hnl : nlAt ps j ≠ 0) : startsLine (place s ps) j = true := by
  cases j with
  | zero => rfl
  | succ j => rw [startsLine_place hc h]; simpa using hnl

theorem startsLine_place_false {ps : List PTok} {s : Nat × Nat} (hc : NoContinuation (place s ps))
    {j : Nat} (h0 : 0 < j) (h : j < ps.length) (hnl : nlAt ps j = 0) :
    startsLine (place s ps) j = false := by
  obtain ⟨k, rfl⟩ : ∃ k, j = k + 1 := ⟨j - 1, by omega⟩
  rw [startsLine_place hc h]; simp [hnl]

theorem nlAt_of_startsLine {ps : List PTok} {s : Nat × Nat} (hc : NoContinuation (place s ps))
    {j : Nat} (h0 : 0 < j) (h : startsLine (place s ps) j = true) : nlAt ps j ≠ 0 := by
  rcases Nat.lt_or_ge j ps.length with hj | hj
  · intro hz
    rw [startsLine_place_false hc h0 hj hz] at h; cases h
  · obtain ⟨k, rfl⟩ : ∃ k, j = k + 1 := ⟨j - 1, by omega⟩
    have hn : (place s ps)[k + 1]? = none :=
      List.getElem?_eq_none (by rw [length_place]; omega)
    unfold startsLine at h
    rw [hn] at h
    split at h
    · next heq => cases heq
    · cases h

/-! ## the layout -/

/-- **from the line facts to the layout**: plain tokens, functions that satisfy the structural
invariant and the line facts `FnOK` form a canonical Python layout of the laid-out tokens -/
theorem pyLayout_of_place {ps : List PTok} {fns : List Fn} (s : Nat × Nat)
    (hpl : ps.all PTok.plain = true) (hI : PInv 0 ps.length fns)
    (hok : ∀ f ∈ fns, FnOK ps f.hdr.rng f.body) : PyLayout (place s ps) fns := by
  have hc := (place_plain s hpl).1
  have hpos : PosSorted (place s ps) := posSorted_place ps s
  have hlen : (place s ps).length = ps.length := length_place ps s
  have hmono : ∀ {i j : Nat}, i ≤ j → j < ps.length →
      lineNo (place s ps) i ≤ lineNo (place s ps) j :=
    fun hij hj => lineNo_mono hpos hij (by omega)
  -- the indentation of the line of `def`
  have hind : ∀ f ∈ fns, ∀ a, a ≤ f.hdr.rng.s → nlAt ps a ≠ 0 →
      (∀ j, a < j → j ≤ f.hdr.rng.s → nlAt ps j = 0) →
      indentAt (place s ps) f.hdr.rng.s = 1 + colAt ps a := by
    intro f hf a ha hnl hz
    have hb := hI.fb f hf
    unfold indentAt
    rw [lineStartOf_eq (startsLine_place' hc (by omega) hnl) _ ha (fun j h1 h2 =>
      startsLine_place_false hc (by omega) (by omega) (hz j h1 h2))]
    exact colNo_place (by omega) hnl
  refine ⟨hpos, ?_, hI.fs, ?_, ?_, ?_, ?_, hI.hdr_whole⟩
  · intro f hf
    have := hI.fb f hf
    omega
  · intro f hf
    obtain ⟨a, _, _, _, _, hbs, _, _⟩ := hok f hf
    have hb := hI.fb f hf
    refine ⟨startsLine_place' hc (by omega) hbs, ?_⟩
    obtain ⟨k, hk⟩ : ∃ k, f.body.s = k + 1 := ⟨f.body.s - 1, by omega⟩
    have h1 := lineNo_place_succ (s := s) (ps := ps) (j := k) (by omega)
    have h2 := hmono (i := f.hdr.rng.e) (j := k) (by omega) (by omega)
    rw [hk]
    rw [hk] at hbs
    omega
  · intro f hf j hj hst
    obtain ⟨a, _, _, _, hpost, _, _, _⟩ := hok f hf
    have hb := hI.fb f hf
    rcases Nat.lt_or_ge f.hdr.rng.e j with h | h
    · exact absurd (hpost j h hj) (nlAt_of_startsLine hc (by omega) hst)
    · exact hmono h (by omega)
  · intro f hf j hj1 hj2 hst
    obtain ⟨a, ha, hnl, hz, _, _, hdeep, _⟩ := hok f hf
    have hb := hI.fb f hf
    have hnlj := nlAt_of_startsLine hc (by omega) hst
    rw [hind f hf a ha hnl hz, colNo_place (by omega) hnlj]
    have := hdeep j hj2 hj1 hnlj
    omega
  · intro f hf
    obtain ⟨a, ha, hnl, hz, _, _, _, hend⟩ := hok f hf
    have hb := hI.fb f hf
    rcases hend with h | ⟨h1, h2⟩
    · exact .inl (by rw [hlen]; exact h)
    · rcases Nat.lt_or_ge f.body.e ps.length with hlt | hge
      · refine .inr ⟨startsLine_place' hc hlt h1, ?_⟩
        rw [hind f hf a ha hnl hz, colNo_place hlt h1]
        omega
      · exact .inl (by omega)

end CL.PyT
