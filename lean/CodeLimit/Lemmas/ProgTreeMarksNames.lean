import CodeLimit.Lemmas.ProgTreeMarksToggle
/-!
# Which functions a report lists: the name tokens paired with the entries of the tree reports

* `treeReportFlatNamed_fst` - the entries of the flat report belong to the outermost function nodes;
* `outerNameToks_dissolve` - the outermost function nodes of a dissolved forest are the VISIBLE
  function nodes of the forest (`Prog.visibleNameToks`: unmarked, and not inside an unmarked one);
* `treeReportNamed_name`, `treeReportFlatNamed_name`, `…_start` - an entry carries the text of the
  name token it is paired with and starts at the first token of that node's header.
-/
namespace CL.Marks

theorem treeReportFlatNamed_fst : ∀ (p : Prog Tok),
    (treeReportFlatNamed p).map (·.1) = p.outerNameToks
  | .nil => rfl
  | .leaf _ rest => treeReportFlatNamed_fst rest
  | .group _ _ items rest => by
    simp only [treeReportFlatNamed, Prog.outerNameToks, List.map_append,
      treeReportFlatNamed_fst items, treeReportFlatNamed_fst rest]
  | .fn hdr k gap op cl body rest => by
    simp only [treeReportFlatNamed, Prog.outerNameToks, List.map_cons,
      treeReportFlatNamed_fst rest]

theorem outerNameToks_noFn : ∀ (p : Prog Tok), p.noFn = true → p.outerNameToks = []
  | .nil, _ => rfl
  | .leaf _ rest, h => outerNameToks_noFn rest h
  | .group _ _ items rest, h => by
    simp only [Prog.noFn, Bool.and_eq_true] at h
    simp only [Prog.outerNameToks, outerNameToks_noFn items h.1, outerNameToks_noFn rest h.2,
      List.append_nil]
  | .fn .., h => by cases h

theorem outerNameToks_append_noFn : ∀ (a b : Prog Tok), a.noFn = true →
    (a.followedBy b).outerNameToks = b.outerNameToks
  | .nil, _, _ => rfl
  | .leaf _ rest, b, h => outerNameToks_append_noFn rest b h
  | .group _ _ items rest, b, h => by
    simp only [Prog.noFn, Bool.and_eq_true] at h
    simp only [Prog.followedBy, Prog.outerNameToks, outerNameToks_noFn items h.1, List.nil_append,
      outerNameToks_append_noFn rest b h.2]
  | .fn .., _, h => by cases h

theorem outerNameToks_toks : ∀ (g : List Tok) (r : Prog Tok),
    (Prog.toks g r).outerNameToks = r.outerNameToks
  | [], _ => rfl
  | _ :: g, r => outerNameToks_toks g r

/-- **the outermost function nodes of the dissolved forest are the visible function nodes**: named
on none of the lines, and not inside a function node named on none of the lines -/
theorem outerNameToks_dissolve (ls : List Nat) : ∀ (p : Prog Tok), p.wfCore = true →
    (p.dissolve ls).outerNameToks = p.visibleNameToks ls
  | .nil, _ => rfl
  | .leaf _ rest, h => by
    simp only [Prog.wfCore, Bool.and_eq_true] at h
    exact outerNameToks_dissolve ls rest h.2
  | .group _ _ items rest, h => by
    simp only [Prog.wfCore, Bool.and_eq_true] at h
    simp only [Prog.dissolve, Prog.outerNameToks, Prog.visibleNameToks,
      outerNameToks_dissolve ls items h.1.2, outerNameToks_dissolve ls rest h.2]
  | .fn hdr k gap op cl body rest, h => by
    simp only [Prog.wfCore, Bool.and_eq_true, decide_eq_true_eq] at h
    obtain ⟨⟨⟨⟨⟨⟨⟨⟨⟨hsl, hnf⟩, hwh⟩, hk⟩, hnm⟩, hgap⟩, hop⟩, hcl⟩, hwb⟩, hwr⟩ := h
    have ihb := outerNameToks_dissolve ls body hwb
    have ihr := outerNameToks_dissolve ls rest hwr
    simp only [Prog.dissolve, Prog.visibleNameToks]
    by_cases hm : ls.contains (hdr.flat.getD k default).line = true
    · rw [if_pos hm, if_pos hm, outerNameToks_append_noFn _ _ hnf, outerNameToks_toks]
      simp only [Prog.outerNameToks, ihb, ihr]
    · rw [if_neg hm, if_neg hm]
      simp only [Prog.outerNameToks, ihr]

/-- the visible function nodes are function nodes named on none of the lines -/
theorem visibleNameToks_sub (ls : List Nat) : ∀ (p : Prog Tok) (t : Tok),
    t ∈ p.visibleNameToks ls → t ∈ p.nameToks ∧ ls.contains t.line = false
  | .nil, _, h => by cases h
  | .leaf _ rest, t, h => visibleNameToks_sub ls rest t h
  | .group _ _ items rest, t, h => by
    simp only [Prog.visibleNameToks, List.mem_append] at h
    simp only [Prog.nameToks, List.mem_append]
    rcases h with h | h
    · exact ⟨.inl (visibleNameToks_sub ls items t h).1, (visibleNameToks_sub ls items t h).2⟩
    · exact ⟨.inr (visibleNameToks_sub ls rest t h).1, (visibleNameToks_sub ls rest t h).2⟩
  | .fn hdr k gap op cl body rest, t, h => by
    simp only [Prog.visibleNameToks] at h
    simp only [Prog.nameToks, List.mem_cons, List.mem_append]
    by_cases hm : ls.contains (hdr.flat.getD k default).line = true
    · rw [if_pos hm, List.mem_append] at h
      rcases h with h | h
      · exact ⟨.inr (.inl (visibleNameToks_sub ls body t h).1), (visibleNameToks_sub ls body t h).2⟩
      · exact ⟨.inr (.inr (visibleNameToks_sub ls rest t h).1), (visibleNameToks_sub ls rest t h).2⟩
    · rw [if_neg hm, List.mem_cons] at h
      rcases h with rfl | h
      · exact ⟨.inl rfl, by simpa using hm⟩
      · exact ⟨.inr (.inr (visibleNameToks_sub ls rest t h).1), (visibleNameToks_sub ls rest t h).2⟩

/-- without marked lines the visible function nodes are the outermost ones -/
theorem visibleNameToks_nil : ∀ (p : Prog Tok), p.visibleNameToks [] = p.outerNameToks
  | .nil => rfl
  | .leaf _ rest => visibleNameToks_nil rest
  | .group _ _ items rest => by
    simp only [Prog.visibleNameToks, Prog.outerNameToks, visibleNameToks_nil items,
      visibleNameToks_nil rest]
  | .fn hdr k gap op cl body rest => by
    simp [Prog.visibleNameToks, Prog.outerNameToks, visibleNameToks_nil rest]

/-- an entry of the tree report carries the text of the name token of its function node and starts
at the location of the first token of that node's header -/
theorem treeReportNamed_name : ∀ (p : Prog Tok), ∀ x ∈ treeReportNamed p, x.2.name = x.1.val
  | .nil, _, h => by cases h
  | .leaf _ rest, x, h => treeReportNamed_name rest x h
  | .group _ _ items rest, x, h => by
    simp only [treeReportNamed, List.mem_append] at h
    rcases h with h | h
    · exact treeReportNamed_name items x h
    · exact treeReportNamed_name rest x h
  | .fn hdr k gap op cl body rest, x, h => by
    simp only [treeReportNamed, List.mem_cons, List.mem_append] at h
    rcases h with rfl | h | h
    · rfl
    · exact treeReportNamed_name body x h
    · exact treeReportNamed_name rest x h

theorem treeReportFlatNamed_name : ∀ (p : Prog Tok), ∀ x ∈ treeReportFlatNamed p,
    x.2.name = x.1.val
  | .nil, _, h => by cases h
  | .leaf _ rest, x, h => treeReportFlatNamed_name rest x h
  | .group _ _ items rest, x, h => by
    simp only [treeReportFlatNamed, List.mem_append] at h
    rcases h with h | h
    · exact treeReportFlatNamed_name items x h
    · exact treeReportFlatNamed_name rest x h
  | .fn hdr k gap op cl body rest, x, h => by
    simp only [treeReportFlatNamed, List.mem_cons] at h
    rcases h with rfl | h
    · rfl
    · exact treeReportFlatNamed_name rest x h

/-! ## forests without comments: `markedReport` is `treeReport` -/

/-- stripping a forest all of whose tokens are kept changes nothing (name indices inside the
headers) -/
theorem strip_of_all (keep : Tok → Bool) : ∀ (p : Prog Tok), p.wfCore = true →
    (∀ t ∈ p.flat, keep t = true) → p.strip keep = p
  | .nil, _, _ => rfl
  | .leaf t rest, h, hk => by
    simp only [Prog.wfCore, Bool.and_eq_true] at h
    simp only [Prog.flat, List.mem_cons, forall_eq_or_imp] at hk
    simp only [Prog.strip, hk.1, if_true, strip_of_all keep rest h.2 hk.2]
  | .group op cl items rest, h, hk => by
    simp only [Prog.wfCore, Bool.and_eq_true] at h
    simp only [Prog.flat, List.mem_cons, List.mem_append] at hk
    simp only [Prog.strip, strip_of_all keep items h.1.2 (fun t ht => hk t (.inr (.inl ht))),
      strip_of_all keep rest h.2 (fun t ht => hk t (.inr (.inr (.inr ht))))]
  | .fn hdr k gap op cl body rest, h, hk => by
    simp only [Prog.wfCore, Bool.and_eq_true, decide_eq_true_eq] at h
    obtain ⟨⟨⟨⟨⟨⟨⟨⟨⟨hsl, hnf⟩, hwh⟩, hk'⟩, hnm⟩, hgap⟩, hop⟩, hcl⟩, hwb⟩, hwr⟩ := h
    simp only [Prog.flat, List.mem_cons, List.mem_append] at hk
    have h1 := strip_of_all keep hdr hwh (fun t ht => hk t (.inl ht))
    have h2 := strip_of_all keep body hwb (fun t ht => hk t (.inr (.inr (.inr (.inl ht)))))
    have h3 := strip_of_all keep rest hwr (fun t ht => hk t (.inr (.inr (.inr (.inr (.inr ht))))))
    have h4 : gap.filter keep = gap :=
      List.filter_eq_self.2 (fun t ht => hk t (.inr (.inl ht)))
    have h5 : ((hdr.flat.take k).filter keep).length = k := by
      rw [List.filter_eq_self.2 (fun t ht => hk t (.inl (List.mem_of_mem_take ht))),
        List.length_take, Prog.size_eq]
      omega
    simp only [Prog.strip, h1, h2, h3, h4, h5]

/-- a forest of code tokens is its own comment-free forest -/
theorem stripComments_of_allCode {p : Prog Tok} (hw : p.wfCore = true) (hc : p.allCode = true) :
    p.stripComments = p :=
  strip_of_all Tok.isCode p hw (fun t ht => List.all_eq_true.1 hc t ht)

/-- a forest of code tokens has no marked line -/
theorem markedLines_of_allCode {p : Prog Tok} (hc : p.allCode = true) : markedLines p = [] := by
  unfold markedLines
  rw [List.map_eq_nil_iff, List.filter_eq_nil_iff]
  intro t ht hm
  have := List.all_eq_true.1 hc t ht
  simp only [Tok.isMarker, Bool.and_eq_true] at hm
  simp [Tok.isCode, hm.1] at this

/-- dissolving nothing changes nothing -/
theorem dissolve_nil (p : Prog Tok) : p.dissolve [] = p :=
  dissolve_of_not_named [] p (fun _ _ => rfl)

/-- **for a forest of code tokens the effective forest is the forest itself** -/
theorem effective_of_allCode {p : Prog Tok} (hw : p.wfCore = true) (hc : p.allCode = true) :
    p.effective = p := by
  unfold Prog.effective
  rw [stripComments_of_allCode hw hc, markedLines_of_allCode hc, dissolve_nil]

end CL.Marks
