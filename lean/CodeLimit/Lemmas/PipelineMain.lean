import CodeLimit.Lemmas.PipelineCheck
/-!
# The report of a scan in terms of `Sel.scanPath` and `Codebase.build`; C07 restated on the report
-/
namespace CL.Pipeline

open CL CL.Sel

/-- the report `Report(codebase, repository)` for a built codebase -/
def mkReport (E : Env) (R : Run) (cb : Codebase.Codebase) (files : List (Str × Json.FileData)) : Json.ReportData :=
  Json.Report.init E.version R.uuid R.now R.root R.repository (codebaseJ cb).1 (codebaseJ cb).2 files

theorem readCache_none : readCache none = .missing := rfl

theorem scanRows_none (E : Env) (pats : List Gi.Pat) (rn : Str) (ch : List Node) :
    scanRows E pats (.dir rn ch) none = Cache.fresh (cacheParams E) (cacheState pats ch none) := rfl

/-- **a scan without cache file, in terms of the layer models**: the entries are those of
`Sel.scanPath` under the instantiated oracles (adapter `fileOfSel`), the codebase is
`Codebase.build` of them (adapter `cbEntry`), the text is `Json.write` of the report -/
theorem scan_fresh_spec {E : Env} {R : Run} {rn : Str} {ch : List Node} (hwf : wfDir ch = true)
    {d : Json.ReportData} {bytes : Str} (h : scan E R (.dir rn ch) none = .ok (d, bytes)) :
    ∃ sfiles cb, (scanPath (oracles E R.pats) (.dir rn ch)).result = .ok sfiles ∧
      (∀ kv ∈ sfiles, kv.1 = kv.2.path) ∧
      Codebase.build ((sfiles.map (fun kv => fileOfSel kv.2)).map cbEntry) = .ok cb ∧
      d = mkReport E R cb (sfiles.map (fun kv => fileOfSel kv.2)) ∧ bytes = Json.write true d := by
  obtain ⟨files, cb, hf, hcb, rfl, rfl⟩ := scan_ok_iff.1 h
  rw [scanRows_none, entries_fresh_eq_scanPath E R.pats rn hwf] at hf
  unfold selResult at hf
  cases hr : (scanPath (oracles E R.pats) (.dir rn ch)).result with
  | error e => simp [hr] at hf
  | ok sfiles =>
    simp only [hr, Except.ok.injEq] at hf
    subst hf
    obtain ⟨es, rfl, _⟩ := entries_of_ok _ rn ch hwf hr
    refine ⟨_, cb, rfl, ?_, hcb, rfl, rfl⟩
    intro kv hkv
    simp only [asDict, List.mem_map] at hkv
    obtain ⟨e, _, rfl⟩ := hkv
    rfl

/-- the same for a scan that finds an admissible cache file (C09 / C10), MD5 collision-free on
the contents that occur (`HistoryOk`) -/
theorem scan_spec_on {E : Env} (hE : EnvBase E) {R : Run} {rn : Str} {ch : List Node} (hwf : wfDir ch = true)
    {prev : Option Str} (hH : HistoryOk E R.pats ch prev)
    {d : Json.ReportData} {bytes : Str} (h : scan E R (.dir rn ch) prev = .ok (d, bytes)) :
    ∃ sfiles cb, (scanPath (oracles E R.pats) (.dir rn ch)).result = .ok sfiles ∧
      (∀ kv ∈ sfiles, kv.1 = kv.2.path) ∧
      Codebase.build ((sfiles.map (fun kv => fileOfSel kv.2)).map cbEntry) = .ok cb ∧
      d = mkReport E R cb (sfiles.map (fun kv => fileOfSel kv.2)) ∧ bytes = Json.write true d := by
  rw [scan_eq_fresh_on hE hwf hH] at h
  exact scan_fresh_spec hwf h

/-- the idealised form (global injectivity; used by `Props/C09sel.lean`) -/
theorem scan_spec {E : Env} (hE : EnvOk E) {R : Run} {rn : Str} {ch : List Node} (hwf : wfDir ch = true)
    {prev : Option Str} (hprev : CacheOk E prev)
    {d : Json.ReportData} {bytes : Str} (h : scan E R (.dir rn ch) prev = .ok (d, bytes)) :
    ∃ sfiles cb, (scanPath (oracles E R.pats) (.dir rn ch)).result = .ok sfiles ∧
      (∀ kv ∈ sfiles, kv.1 = kv.2.path) ∧
      Codebase.build ((sfiles.map (fun kv => fileOfSel kv.2)).map cbEntry) = .ok cb ∧
      d = mkReport E R cb (sfiles.map (fun kv => fileOfSel kv.2)) ∧ bytes = Json.write true d :=
  scan_spec_on hE.toEnvBase hwf (HistoryOk.of_injective hE hprev R.pats ch) h

/-- **the report of a scan satisfies the hypotheses of C08** and the reader of the cache gives its
rows back; `hinv` is the invariant of C09 for the cache file the scan found (`inv_of_cacheOk`,
`InvCOn.inv (invOn_of_cacheOkOn …)`; no assumption on the checksum) -/
theorem scan_report_facts_inv {E : Env} (hE : EnvBase E) {R : Run} (hR : RunOk R) {rn : Str} {ch : List Node}
    (hT : TreeOk ch) {prev : Option Str} (hinvC : InvC E prev)
    {d : Json.ReportData} {bytes : Str} (h : scan E R (.dir rn ch) prev = .ok (d, bytes)) :
    Json.GoodReport d ∧ Json.DistinctKeys d ∧ C08.Reachable buildJ profileOf d ∧
      bytes = Json.write true d ∧
      readCache (some bytes) = .doc (some E.version) (rowsOfFiles d.files) := by
  have hread := (inv_of_prefix hE hR hT hinvC h (List.prefix_refl _)).2 rfl
  obtain ⟨files, cb, hf, hcb, rfl, rfl⟩ := scan_ok_iff.1 h
  have hrows : Cache.HonestRows (cacheParams E) (scanRows E R.pats (.dir rn ch) prev) :=
    Cache.report_honest (cacheParams E) (inv_state hinvC R.pats ch)
  have hh := honestFiles_of_rows hrows hf
  refine ⟨report_good hE hR hT hf hh hcb, report_distinct hT.wf hf hcb, ⟨?_, ?_, ?_⟩, rfl, ?_⟩
  · exact entriesOf_profiles hf
  · show (codebaseJ cb).1 = (buildJ files).1
    simp only [buildJ, hcb]
  · show (codebaseJ cb).2 = (buildJ files).2
    simp only [buildJ, hcb]
  · rw [hread]
    show _ = Cache.CacheFile.doc (some E.version) (rowsOfFiles files)
    rw [rowsOfFiles_entriesOf hf]

/-- the invariant of C09 from `HistoryOk` (the set `U` is forgotten) -/
theorem HistoryOk.inv {E : Env} (hE : EnvBase E) {pats : List Gi.Pat} {ch : List Node} {prev : Option Str}
    (hH : HistoryOk E pats ch prev) : InvC E prev := by
  rcases hH with rfl | ⟨U, _, _, hprev⟩
  · exact Or.inr (by rintro ⟨es, h⟩; cases h)
  · exact (invOn_of_cacheOkOn hE hprev).inv

theorem scan_report_facts_on {E : Env} (hE : EnvBase E) {R : Run} (hR : RunOk R) {rn : Str} {ch : List Node}
    (hT : TreeOk ch) {prev : Option Str} (hH : HistoryOk E R.pats ch prev)
    {d : Json.ReportData} {bytes : Str} (h : scan E R (.dir rn ch) prev = .ok (d, bytes)) :
    Json.GoodReport d ∧ Json.DistinctKeys d ∧ C08.Reachable buildJ profileOf d ∧
      bytes = Json.write true d ∧
      readCache (some bytes) = .doc (some E.version) (rowsOfFiles d.files) :=
  scan_report_facts_inv hE hR hT (hH.inv hE) h

/-- the idealised form (used by `Lemmas/SelectCacheWritten.lean`) -/
theorem scan_report_facts {E : Env} (hE : EnvOk E) {R : Run} (hR : RunOk R) {rn : Str} {ch : List Node}
    (hT : TreeOk ch) {prev : Option Str} (hprev : CacheOk E prev)
    {d : Json.ReportData} {bytes : Str} (h : scan E R (.dir rn ch) prev = .ok (d, bytes)) :
    Json.GoodReport d ∧ Json.DistinctKeys d ∧ C08.Reachable buildJ profileOf d ∧
      bytes = Json.write true d ∧
      readCache (some bytes) = .doc (some E.version) (rowsOfFiles d.files) :=
  scan_report_facts_inv hE.toEnvBase hR hT (inv_of_cacheOk hE hprev) h

/-! ## C07 in the words of the report -/

theorem cbEntry_language (files : List (Str × Json.FileData)) (L : Str) :
    (files.map cbEntry).filter (fun e => e.language = L) =
      (files.filter (fun kv => kv.2.language = L)).map cbEntry := by
  rw [List.filter_map]
  rfl

/-- `LanguageTotals` of C07 (`langTotals`, count buckets) is `totalsFor` (explicit ranges) -/
theorem totalsJ_langTotals (L : Str) (files : List (Str × Json.FileData)) :
    totalsJ (Codebase.langTotals L (files.map cbEntry)) = totalsFor L files := by
  have hb2 : ∀ ms : List Json.Meas, Codebase.bucketCount 2 (ms.map (·.value)) =
      ((ms.filter (fun m => decide (30 < m.value ∧ m.value ≤ 60))).length : Int) := by
    intro ms
    simp only [Codebase.bucketCount, List.filter_map, List.length_map]
    congr 2
    apply List.filter_congr
    intro m _
    simp only [Function.comp]
    rw [Bool.eq_iff_iff]
    simp only [decide_eq_true_eq]
    exact (C07.count_bucket_meaning m.value).1
  have hb3 : ∀ ms : List Json.Meas, Codebase.bucketCount 3 (ms.map (·.value)) =
      ((ms.filter (fun m => decide (60 < m.value))).length : Int) := by
    intro ms
    simp only [Codebase.bucketCount, List.filter_map, List.length_map]
    congr 2
    apply List.filter_congr
    intro m _
    simp only [Function.comp]
    rw [Bool.eq_iff_iff]
    simp only [decide_eq_true_eq]
    exact (C07.count_bucket_meaning m.value).2
  simp only [totalsJ, Codebase.langTotals, totalsFor, cbEntry_language, List.length_map, List.map_map,
    Function.comp_def, cbEntry, hb2, hb3]

theorem lookup_eq_dget? {α : Type} (k : Str) (l : List (Str × α)) : Json.lookup k l = Codebase.dget? k l := by
  induction l with
  | nil => rfl
  | cons x t ih =>
    obtain ⟨k', v⟩ := x
    simp [Json.lookup, Codebase.dget?, ih]

theorem dget?_map {α β : Type} (f : α → β) (k : Str) (l : List (Str × α)) :
    Codebase.dget? k (l.map (fun kv => (kv.1, f kv.2))) = (Codebase.dget? k l).map f := by
  induction l with
  | nil => rfl
  | cons x t ih =>
    obtain ⟨k', v⟩ := x
    by_cases h : k' = k <;> simp [Codebase.dget?, h, ih]

theorem under_cbEntry (files : List (Str × Json.FileData)) (k : Str) :
    ((files.map cbEntry).filter (fun e => Codebase.under k e.path)) =
      (files.filter (fun kv => Codebase.under k kv.1)).map cbEntry := by
  rw [List.filter_map]
  rfl

/-- the sum of the file profiles beneath a folder is `make_profile` of all measurements beneath it -/
theorem psum_under (files : List (Str × Json.FileData)) (k : Str) :
    Codebase.psum (((files.map cbEntry).filter (fun e => Codebase.under k e.path)).map (·.profile)) =
      Codebase.makeProfile ((measurementsUnder k files).map (·.value)) := by
  rw [under_cbEntry, measurementsUnder, List.map_flatMap, Codebase.makeProfile_flatMap, List.map_map]
  rfl

end CL.Pipeline
