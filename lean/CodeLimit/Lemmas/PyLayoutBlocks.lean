import CodeLimit.Lemmas.PyLayoutLines
/-!
# Stage C of C01, part 2: `Python.extract_blocks` finds the suites of a canonical Python layout

* `blockLineIndices_lines` - the backward loop over the lines: the lines after the suite are
  skipped (the first of them resets the collection), the lines of the suite are collected, the
  loop stops at the last line that begins on or above the header's last line;
* `lineIndentation_seg` - `_get_line_indentation` returns the column of the first token of the
  logical line;
* `pyBlockOf_layout`, `pyBlocks_layout` - every function of a `PyLayout` gets exactly its suite.
-/
namespace CL

/-! ## the block-line loop -/

theorem bli_skip {toks : List Tok} {hl hi : Nat} :
    ∀ (P R : List (List Nat × Nat)) (acc : List Nat),
      (∀ p ∈ P, ∃ t, lineHead toks p.1 = .ok t ∧ hl < t.line) →
      ∃ acc', blockLineIndices toks hl hi (P ++ R) acc = blockLineIndices toks hl hi R acc'
  | [], _, acc, _ => ⟨acc, rfl⟩
  | (l, li) :: P, R, acc, h => by
    obtain ⟨t, ht, hlt⟩ := h (l, li) List.mem_cons_self
    have hP : ∀ p ∈ P, ∃ t, lineHead toks p.1 = .ok t ∧ hl < t.line :=
      fun p hp => h p (List.mem_cons_of_mem _ hp)
    simp only at ht
    simp only [List.cons_append, blockLineIndices, ht]
    rw [if_neg (by omega)]
    split
    · exact bli_skip P R _ hP
    · exact bli_skip P R _ hP

theorem bli_reset {toks : List Tok} {hl hi : Nat} {l : List Nat} {li : Nat} {t : Tok}
    (ht : lineHead toks l = .ok t) (h1 : hl < t.line) (h2 : t.col ≤ hi)
    (R : List (List Nat × Nat)) (acc : List Nat) :
    blockLineIndices toks hl hi ((l, li) :: R) acc = blockLineIndices toks hl hi R [] := by
  simp only [blockLineIndices, ht]
  rw [if_neg (by omega), if_neg (by omega)]

theorem bli_collect {toks : List Tok} {hl hi : Nat} :
    ∀ (M R : List (List Nat × Nat)) (acc : List Nat),
      (∀ p ∈ M, ∃ t, lineHead toks p.1 = .ok t ∧ hl < t.line ∧ hi < t.col) →
      blockLineIndices toks hl hi (M ++ R) acc
        = blockLineIndices toks hl hi R (acc ++ M.map (·.2))
  | [], _, acc, _ => by simp
  | (l, li) :: M, R, acc, h => by
    obtain ⟨t, ht, hlt, hc⟩ := h (l, li) List.mem_cons_self
    have hM : ∀ p ∈ M, ∃ t, lineHead toks p.1 = .ok t ∧ hl < t.line ∧ hi < t.col :=
      fun p hp => h p (List.mem_cons_of_mem _ hp)
    simp only at ht
    simp only [List.cons_append, blockLineIndices, ht]
    rw [if_neg (by omega), if_pos hc, bli_collect M R _ hM]
    simp

theorem bli_stop {toks : List Tok} {hl hi : Nat} (R : List (List Nat × Nat)) (acc : List Nat)
    (h : ∀ p, R.head? = some p → ∃ t, lineHead toks p.1 = .ok t ∧ t.line ≤ hl) :
    blockLineIndices toks hl hi R acc = .ok acc := by
  cases R with
  | nil => rfl
  | cons p R =>
    obtain ⟨t, ht, hle⟩ := h p rfl
    obtain ⟨l, li⟩ := p
    simp only at ht
    simp only [blockLineIndices, ht]
    rw [if_pos hle]

theorem mem_zipIdx_reverse {α : Type} {l : List α} {k : Nat} {p : α × Nat}
    (h : p ∈ (l.zipIdx k).reverse) : p.1 ∈ l := by
  have := List.mem_zipIdx (List.mem_reverse.1 h)
  rw [this.2.2]; exact List.getElem_mem _

/-- the backward loop over the lines `pre ++ mid ++ post` collects the line indices of `mid` -/
theorem blockLineIndices_lines {toks : List Tok} {hl hi : Nat} (pre mid post : List (List Nat))
    (hpre : ∀ l, pre.getLast? = some l → ∃ t, lineHead toks l = .ok t ∧ t.line ≤ hl)
    (hmid : ∀ l ∈ mid, ∃ t, lineHead toks l = .ok t ∧ hl < t.line ∧ hi < t.col)
    (hpost : ∀ l ∈ post, ∃ t, lineHead toks l = .ok t ∧ hl < t.line)
    (hpost0 : ∀ l, post.head? = some l → ∃ t, lineHead toks l = .ok t ∧ t.col ≤ hi) :
    blockLineIndices toks hl hi (pre ++ mid ++ post).zipIdx.reverse []
      = .ok (((mid.zipIdx pre.length).reverse).map (·.2)) := by
  have hz : (pre ++ mid ++ post).zipIdx.reverse
      = (post.zipIdx (pre.length + mid.length)).reverse
        ++ ((mid.zipIdx pre.length).reverse ++ pre.zipIdx.reverse) := by
    simp [List.zipIdx_append, List.reverse_append]
  rw [hz]
  -- the lines after the suite
  have h1 : ∀ acc, blockLineIndices toks hl hi ((post.zipIdx (pre.length + mid.length)).reverse
        ++ ((mid.zipIdx pre.length).reverse ++ pre.zipIdx.reverse)) acc
      = blockLineIndices toks hl hi ((mid.zipIdx pre.length).reverse ++ pre.zipIdx.reverse)
          (if post = [] then acc else []) := by
    intro acc
    cases post with
    | nil => simp
    | cons l0 post' =>
      obtain ⟨t0, ht0, hc0⟩ := hpost0 l0 rfl
      obtain ⟨t0', ht0', hl0⟩ := hpost l0 List.mem_cons_self
      rw [ht0] at ht0'; cases ht0'
      simp only [List.zipIdx_cons, List.reverse_cons, List.append_assoc, List.singleton_append,
        reduceCtorEq, if_false]
      obtain ⟨acc', hacc'⟩ := bli_skip (toks := toks) (hl := hl) (hi := hi)
        (post'.zipIdx (pre.length + mid.length + 1)).reverse
        ((l0, pre.length + mid.length) :: ((mid.zipIdx pre.length).reverse ++ pre.zipIdx.reverse))
        acc (fun p hp => hpost p.1 (List.mem_cons_of_mem _ (mem_zipIdx_reverse hp)))
      rw [hacc', bli_reset ht0 hl0 hc0]
  rw [h1]
  -- the lines of the suite
  rw [bli_collect _ _ _ (fun p hp => hmid p.1 (mem_zipIdx_reverse hp))]
  -- the line of the header
  rw [bli_stop]
  · simp
  · intro p hp
    rw [List.head?_reverse] at hp
    have hmem := List.mem_of_mem_getLast? hp
    have hidx := List.mem_zipIdx hmem
    apply hpre
    cases hpl : pre.getLast? with
    | none =>
      rw [List.getLast?_eq_none_iff] at hpl
      rw [hpl] at hmem; cases hmem
    | some l =>
      rw [List.getLast?_eq_getElem?] at hp hpl
      simp only [List.length_zipIdx] at hp
      rw [List.getElem?_zipIdx] at hp
      rw [hpl] at hp
      simp only [Option.map_some, Option.some.injEq] at hp
      rw [← hp]

theorem flatMap_zipIdx_snd : ∀ (mid pre post : List (List Nat)),
    ((mid.zipIdx pre.length).map (·.2)).flatMap (fun li => ((pre ++ mid ++ post)[li]?).getD [])
      = mid.flatten
  | [], _, _ => rfl
  | m :: ms, pre, post => by
    have ih := flatMap_zipIdx_snd ms (pre ++ [m]) post
    simp only [List.length_append, List.length_cons, List.length_nil, Nat.zero_add,
      List.append_assoc, List.singleton_append] at ih
    simp only [List.zipIdx_cons, List.map_cons, List.flatMap_cons, List.flatten_cons,
      List.append_assoc]
    rw [ih]
    congr 1
    rw [List.getElem?_append_right (Nat.le_refl _)]
    simp

/-! ## heads of lines, indentation -/

theorem lineHead_lineOf {code : List Tok} {a b : Nat} {l : List Nat} (h : LineOf code a b l)
    (ha : a < code.length) : lineHead code l = .ok code[a] := by
  have := h.head
  cases l with
  | nil => cases this
  | cons x xs =>
    simp only [List.head?_cons, Option.some.injEq] at this
    subst this
    simp [lineHead, getE_ok ha]

theorem lineNo_eq {code : List Tok} {i : Nat} (h : i < code.length) : lineNo code i = code[i].line := by
  simp [lineNo, h]

theorem colNo_eq {code : List Tok} {i : Nat} (h : i < code.length) : colNo code i = code[i].col := by
  simp [colNo, h]

theorem lineNo_mono {code : List Tok} (hp : PosOrdered code) {i j : Nat} (hij : i ≤ j)
    (hj : j < code.length) : lineNo code i ≤ lineNo code j := by
  rw [lineNo_eq (by omega), lineNo_eq hj]
  exact PosOrdered.line_le hp hij (List.getElem?_eq_getElem _) (List.getElem?_eq_getElem _)

/-- **`_get_line_indentation`** returns the column of the first token of the logical line -/
theorem lineIndentation_seg {code : List Tok} {i : Nat} (hi : i < code.length) :
    lineIndentation code (tokenLines code) i = .ok (indentAt code i) := by
  obtain ⟨l, a, b, hfind, hl, hai, hib⟩ := (tokenLines_seg code).find (Nat.zero_le i) hi
  have ha : a < code.length := by omega
  have hs : lineStartOf code i = a :=
    lineStartOf_eq hl.start i hai (fun j h1 h2 => hl.inner j h1 (by omega))
  unfold lineIndentation
  rw [hfind]
  simp only [lineHead_lineOf hl ha, bind, Except.bind, pure, Except.pure]
  rw [indentAt, hs, colNo_eq ha]

/-! ## `extract_blocks` on a canonical layout -/

/-- **Every function of a canonical Python layout gets its suite.** -/
theorem pyBlockOf_layout {code : List Tok} {fns : List Fn} (L : PyLayout code fns) {f : Fn}
    (hf : f ∈ fns) : pyBlockOf code (tokenLines code) f.hdr = .ok (some f.body) := by
  obtain ⟨h1, h2, h3, h4⟩ := L.fn_ok f hf
  obtain ⟨hss, hsl⟩ := L.suite_start f hf
  have hpos : PosOrdered code := L.pos_sorted
  have hS := tokenLines_seg code
  -- cut the lines at the suite's start and end
  obtain ⟨pre, rest, e1, Spre, Srest⟩ := hS.split (Nat.zero_le _) (by omega) (.inr hss)
  obtain ⟨mid, post, e2, Smid, Spost⟩ := Srest.split (b := f.body.e) (by omega) h4
    (by rcases L.suite_end f hf with h | h
        · exact .inl h
        · exact .inr h.1)
  have elines : tokenLines code = pre ++ mid ++ post := by rw [e1, e2, List.append_assoc]
  have he : f.hdr.rng.e < code.length := by omega
  have hs : f.hdr.rng.s < code.length := by omega
  -- the lines before the suite
  have hpre : ∀ l, pre.getLast? = some l →
      ∃ t, lineHead code l = .ok t ∧ t.line ≤ code[f.hdr.rng.e].line := by
    intro l hl
    obtain ⟨a', b', ha1, hb1, hline⟩ := Spre.line_of_mem (List.mem_of_mem_getLast? hl)
    have := hline.lt
    have ha' : a' < code.length := by omega
    refine ⟨code[a'], lineHead_lineOf hline ha', ?_⟩
    have := L.suite_first f hf a' (by omega) hline.start
    rwa [lineNo_eq ha', lineNo_eq he] at this
  -- the lines of the suite
  have hmid : ∀ l ∈ mid, ∃ t, lineHead code l = .ok t ∧ code[f.hdr.rng.e].line < t.line ∧
      indentAt code f.hdr.rng.s < t.col := by
    intro l hl
    obtain ⟨a', b', ha1, hb1, hline⟩ := Smid.line_of_mem hl
    have := hline.lt
    have ha' : a' < code.length := by omega
    refine ⟨code[a'], lineHead_lineOf hline ha', ?_, ?_⟩
    · have := lineNo_mono hpos ha1 ha'
      rw [lineNo_eq ha'] at this
      rw [lineNo_eq he] at hsl
      omega
    · have := L.suite_deeper f hf a' (by omega) (by omega) hline.start
      rwa [colNo_eq ha'] at this
  -- the lines after the suite
  have hpost : ∀ l ∈ post, ∃ t, lineHead code l = .ok t ∧ code[f.hdr.rng.e].line < t.line := by
    intro l hl
    obtain ⟨a', b', ha1, hb1, hline⟩ := Spost.line_of_mem hl
    have := hline.lt
    have ha' : a' < code.length := by omega
    refine ⟨code[a'], lineHead_lineOf hline ha', ?_⟩
    have := lineNo_mono hpos (show f.body.s ≤ a' by omega) ha'
    rw [lineNo_eq ha'] at this
    rw [lineNo_eq he] at hsl
    omega
  have hpost0 : ∀ l, post.head? = some l →
      ∃ t, lineHead code l = .ok t ∧ t.col ≤ indentAt code f.hdr.rng.s := by
    intro l hl
    cases post with
    | nil => cases hl
    | cons l0 ls =>
      simp only [List.head?_cons, Option.some.injEq] at hl
      subst hl
      obtain ⟨b', hline, hs'⟩ := Spost.cons_inv
      have := hline.lt
      have := hs'.le
      have hbe : f.body.e < code.length := by omega
      refine ⟨code[f.body.e], lineHead_lineOf hline hbe, ?_⟩
      rcases L.suite_end f hf with h | h
      · omega
      · rw [← colNo_eq hbe]; exact h.2
  have hbli := blockLineIndices_lines (toks := code) pre mid post hpre hmid hpost hpost0
  -- the selected tokens
  obtain ⟨hhead, hlast⟩ := Smid.head_last h3
  have hmidne : mid ≠ [] := by
    rcases Smid.eq_or_lt with ⟨h, _⟩ | ⟨_, h⟩
    · omega
    · exact h
  have hemp : (List.map (fun x : List Nat × Nat => x.2) (mid.zipIdx pre.length).reverse).isEmpty
      = false := by
    cases mid with
    | nil => exact absurd rfl hmidne
    | cons m ms => simp
  unfold pyBlockOf
  simp only [ge_iff_le, Nat.not_le.2 he, if_false, getE_ok he, getE_ok hs,
    lineIndentation_seg hs, bind, Except.bind, pure, Except.pure]
  simp only [elines, hbli, hemp, Bool.false_eq_true, if_false]
  rw [← List.map_reverse, List.reverse_reverse, flatMap_zipIdx_snd, hhead, hlast]
  have hbs : f.body.s < code.length := by omega
  have hbe : f.body.e - 1 < code.length := by omega
  simp only [getE_ok hbs, getE_ok hbe,
    tokIndex_eq (show PosOrdered code from hpos) (List.getElem?_eq_getElem hbs),
    tokIndex_eq (show PosOrdered code from hpos) (List.getElem?_eq_getElem hbe)]
  have : f.body.e - 1 + 1 = f.body.e := by omega
  rw [this]

theorem pyBlocksRev_layout {code : List Tok} {fns : List Fn} (L : PyLayout code fns) :
    ∀ (l : List Fn), (∀ f ∈ l, f ∈ fns) →
      pyBlocksRev code (tokenLines code) (l.map (·.hdr)) = .ok (l.map (·.body))
  | [], _ => rfl
  | f :: l, h => by
    simp only [List.map_cons, pyBlocksRev, pyBlockOf_layout L (h f List.mem_cons_self),
      pyBlocksRev_layout L l (fun g hg => h g (List.mem_cons_of_mem _ hg))]

/-- **`Python.extract_blocks` on a canonical layout**: handed the headers in source order, it
returns exactly the suites, in source order. -/
theorem pyBlocks_layout {code : List Tok} {fns : List Fn} (L : PyLayout code fns) :
    pyBlocks code (fns.map (·.hdr)) = .ok (fns.map (·.body)) := by
  unfold pyBlocks
  rw [← List.map_reverse, pyBlocksRev_layout L fns.reverse (fun f hf => List.mem_reverse.1 hf)]
  simp only [← List.map_reverse, List.reverse_reverse]

end CL
