import CodeLimit.Lemmas.FindAllLang
/-!
# Independence of the engine's results from the set-iteration order and the id counter (C06)

* `findAll_dead_irrelevant` - under `DeadStuck` the `dead ∧ acc` shortcut of `find_all` is
  redundant;
* `findAll_bisim` - bisimilar machines produce the same `findAll` result (including errors);
* `dfa_bisim` - two tables compiled from the same pattern (any id bases, any set orders) are
  bisimilar: DFA objects reached on the same word are related;
* `findAllId_indep`, `matchFull_indep`, `startsWith_indep`, `nfaMatch_indep`.
-/
namespace CL

variable {β σ σ' : Type}

/-! ## the `dead` shortcut is redundant -/

theorem procOne_dead_irrelevant {A : Machine β σ} (hds : DeadStuck A) (idx : Nat) (x : β)
    (fs : FS β σ) (p : Att β σ) :
    procOne A idx x fs p = procOne { A with dead := fun _ => false } idx x fs p := by
  unfold procOne
  split
  · rfl
  · simp only [Bool.false_and, Bool.false_eq_true, if_false]
    split
    · rename_i hda
      simp only [Bool.and_eq_true] at hda
      rw [hds p.st x hda.1]
      simp [hda.2]
    · rfl

theorem procAll_dead_irrelevant {A : Machine β σ} (hds : DeadStuck A) (idx : Nat) (x : β)
    (ps : List (Att β σ)) (fs : FS β σ) :
    procAll A idx x ps fs = procAll { A with dead := fun _ => false } idx x ps fs := by
  induction ps generalizing fs with
  | nil => rfl
  | cons p ps ih =>
    simp only [procAll, ← procOne_dead_irrelevant hds]
    cases procOne A idx x fs p with
    | error e => rfl
    | ok fs' => exact ih fs'

theorem outer_dead_irrelevant {A : Machine β σ} (hds : DeadStuck A) (xs : List β) (idx : Nat)
    (ms : List (Match β)) (act : List (Att β σ)) :
    outer A idx xs ms act = outer { A with dead := fun _ => false } idx xs ms act := by
  induction xs generalizing idx ms act with
  | nil => rfl
  | cons x xs ih =>
    simp only [outer, ← procAll_dead_irrelevant hds]
    cases procAll A idx x (act ++ [⟨idx, A.init, []⟩]) ⟨ms, []⟩ with
    | error e => rfl
    | ok fs => exact ih _ _ _

/-- a state without transitions that is accepting would fail to step and be committed at the
same index anyway: the `len(transition) == 0` shortcut does not change the result -/
theorem findAll_dead_irrelevant {A : Machine β σ} (hds : DeadStuck A) (xs : List β) :
    findAll A xs = findAll { A with dead := fun _ => false } xs := by
  unfold findAll
  rw [← outer_dead_irrelevant hds]
  rfl

/-! ## bisimilar machines -/

/-- both raise the same error, or both return related values -/
def ExRel {X Y : Type} (P : X → Y → Prop) : Except Err X → Except Err Y → Prop
  | .error e, .error e' => e = e'
  | .ok a, .ok b => P a b
  | _, _ => False

def OptRel (R : σ → σ' → Prop) : Option σ → Option σ' → Prop
  | none, none => True
  | some a, some b => R a b
  | _, _ => False

/-- `R` is a bisimulation between the machines `A` and `A'` -/
structure Bisim (A : Machine β σ) (A' : Machine β σ') (R : σ → σ' → Prop) : Prop where
  init : R A.init A'.init
  acc : ∀ s s', R s s' → A.acc s = A'.acc s'
  dead : ∀ s s', R s s' → A.dead s = A'.dead s'
  step : ∀ s s' x, R s s' → ExRel (OptRel R) (A.step s x) (A'.step s' x)

/-- pointwise relation of two lists -/
inductive ListRel {X Y : Type} (P : X → Y → Prop) : List X → List Y → Prop where
  | nil : ListRel P [] []
  | cons {a b l l'} : P a b → ListRel P l l' → ListRel P (a :: l) (b :: l')

theorem ListRel.append {X Y : Type} {P : X → Y → Prop} {l1 l2 : List X} {l1' l2' : List Y}
    (h1 : ListRel P l1 l1') (h2 : ListRel P l2 l2') : ListRel P (l1 ++ l2) (l1' ++ l2') := by
  induction h1 with
  | nil => exact h2
  | cons h _ ih => exact .cons h ih

theorem ListRel.reverse {X Y : Type} {P : X → Y → Prop} {l : List X} {l' : List Y}
    (h : ListRel P l l') : ListRel P l.reverse l'.reverse := by
  induction h with
  | nil => exact .nil
  | cons h _ ih =>
    rw [List.reverse_cons, List.reverse_cons]
    exact ih.append (.cons h .nil)

def AttRel (R : σ → σ' → Prop) (a : Att β σ) (a' : Att β σ') : Prop :=
  a.start = a'.start ∧ a.toks = a'.toks ∧ R a.st a'.st

def FSRel (R : σ → σ' → Prop) (fs : FS β σ) (fs' : FS β σ') : Prop :=
  fs.ms = fs'.ms ∧ ListRel (AttRel R) fs.next fs'.next

section
variable {A : Machine β σ} {A' : Machine β σ'} {R : σ → σ' → Prop}

theorem procOne_rel (hB : Bisim A A' R) (idx : Nat) (x : β) {fs : FS β σ} {fs' : FS β σ'}
    {a : Att β σ} {a' : Att β σ'} (hfs : FSRel R fs fs') (ha : AttRel R a a') :
    ExRel (FSRel R) (procOne A idx x fs a) (procOne A' idx x fs' a') := by
  obtain ⟨ms, nx⟩ := fs
  obtain ⟨ms', nx'⟩ := fs'
  obtain ⟨st, q, tk⟩ := a
  obtain ⟨st', q', tk'⟩ := a'
  obtain ⟨hms, hnx⟩ := hfs
  obtain ⟨hs, ht, hR⟩ := ha
  simp only at hms hnx hs ht hR
  subst hms hs ht
  unfold procOne
  simp only [Att.toMatch]
  rw [← hB.acc _ _ hR, ← hB.dead _ _ hR]
  split
  · exact ⟨rfl, hnx⟩
  · split
    · exact ⟨rfl, hnx⟩
    · have h := hB.step _ _ x hR
      rcases h1 : A.step q x with e | (_ | t) <;> rcases h2 : A'.step q' x with e' | (_ | t') <;>
        rw [h1, h2] at h <;> simp only [ExRel, OptRel] at h ⊢
      · exact h
      · split
        · exact ⟨rfl, hnx⟩
        · exact ⟨rfl, hnx⟩
      · exact ⟨rfl, .cons ⟨rfl, rfl, h⟩ hnx⟩

theorem procAll_rel (hB : Bisim A A' R) (idx : Nat) (x : β) {ps : List (Att β σ)}
    {ps' : List (Att β σ')} (hps : ListRel (AttRel R) ps ps') :
    ∀ {fs : FS β σ} {fs' : FS β σ'}, FSRel R fs fs' →
      ExRel (FSRel R) (procAll A idx x ps fs) (procAll A' idx x ps' fs') := by
  induction hps with
  | nil => intro fs fs' hfs; exact hfs
  | @cons a a' _ _ ha _ ih =>
    intro fs fs' hfs
    have h := procOne_rel hB idx x hfs ha
    simp only [procAll]
    rcases h1 : procOne A idx x fs a with e | f <;>
      rcases h2 : procOne A' idx x fs' a' with e' | f' <;>
      rw [h1, h2] at h <;> simp only [ExRel] at h ⊢
    · exact h
    · exact ih h

theorem outer_rel (hB : Bisim A A' R) (xs : List β) :
    ∀ (idx : Nat) (ms : List (Match β)) (act : List (Att β σ)) (act' : List (Att β σ')),
      ListRel (AttRel R) act act' →
      ExRel (fun p p' => p.1 = p'.1 ∧ ListRel (AttRel R) p.2 p'.2)
        (outer A idx xs ms act) (outer A' idx xs ms act') := by
  induction xs with
  | nil => intro idx ms act act' h; exact ⟨rfl, h⟩
  | cons x xs ih =>
    intro idx ms act act' hact
    have hps : ListRel (AttRel R) (act ++ [⟨idx, A.init, []⟩]) (act' ++ [⟨idx, A'.init, []⟩]) :=
      hact.append (.cons ⟨rfl, rfl, hB.init⟩ .nil)
    have h := procAll_rel hB idx x hps (fs := ⟨ms, []⟩) (fs' := ⟨ms, []⟩) ⟨rfl, .nil⟩
    simp only [outer]
    rcases h1 : procAll A idx x (act ++ [⟨idx, A.init, []⟩]) ⟨ms, []⟩ with e | f <;>
      rcases h2 : procAll A' idx x (act' ++ [⟨idx, A'.init, []⟩]) ⟨ms, []⟩ with e' | f' <;>
      rw [h1, h2] at h <;> simp only [h1, h2, ExRel] at h ⊢
    · exact h
    · obtain ⟨hm, hn⟩ := h
      rw [hm]
      exact ih _ _ _ _ hn.reverse

theorem finalize_rel (hB : Bisim A A' R) (n : Nat) {act : List (Att β σ)}
    {act' : List (Att β σ')} (h : ListRel (AttRel R) act act') :
    ∀ ms, finalize A n ms act = finalize A' n ms act' := by
  induction h with
  | nil => intro ms; rfl
  | cons ha _ ih =>
    intro ms
    obtain ⟨hs, ht, hR⟩ := ha
    rw [finalize_cons, finalize_cons, ih]
    simp only [Att.toMatch, hs, ht, hB.acc _ _ hR]

/-- bisimilar machines produce the same `find_all` result (the same matches or the same error) -/
theorem findAll_bisim (hB : Bisim A A' R) (xs : List β) : findAll A xs = findAll A' xs := by
  have h := outer_rel hB xs 0 [] [] [] .nil
  unfold findAll
  rcases h1 : outer A 0 xs [] [] with e | ⟨ms, act⟩ <;>
    rcases h2 : outer A' 0 xs [] [] with e' | ⟨ms', act'⟩ <;>
    rw [h1, h2] at h <;> simp only [ExRel] at h ⊢
  · rw [h]
  · obtain ⟨hm, hn⟩ := h
    rw [hm, finalize_rel hB xs.length hn]

end

/-! ## two tables of the same pattern are bisimilar -/

section
variable {α : Type} [DecidableEq α] {r : Rx α} {base base' : Nat} {ord ord' : List α → List α}
  {D D' : Dfa α}

/-- the entry for `x` in the row of the object reached on `u` is missing iff `u ++ [x]` is not
a prefix of any word of the language -/
theorem find_none_iff (hord : IsOrder ord) (hD : nfaToDfa (compile r base) ord = some D)
    {u : List α} {s : DState} (hs : dfaRun D .start u = some s) (x : α) :
    (D.row s).find? (fun e => e.1 = x) = none ↔ ¬ ∃ v, Lang r (u ++ [x] ++ v) := by
  rw [← dfaRun_none_iff_lang hord hD, dfaRun_snoc D x hs]
  cases (D.row s).find? (fun e => e.1 = x) <;> simp

theorem row_isEmpty_iff (hord : IsOrder ord) (hD : nfaToDfa (compile r base) ord = some D)
    {u : List α} {s : DState} (hs : dfaRun D .start u = some s) :
    (D.row s).isEmpty = true ↔ ∀ x, ¬ ∃ v, Lang r (u ++ [x] ++ v) := by
  constructor
  · intro h x
    rw [← find_none_iff hord hD hs x]
    have : D.row s = [] := by simpa using h
    rw [this]; rfl
  · intro h
    cases hrow : D.row s with
    | nil => rfl
    | cons e rest =>
      exfalso
      have := (find_none_iff hord hD hs e.1).2 (h e.1)
      rw [hrow] at this
      simp at this

/-- DFA objects of the two tables reached on the same word -/
def DRel (D D' : Dfa α) (q q' : DState × Unit) : Prop :=
  ∃ u, dfaRun D .start u = some q.1 ∧ dfaRun D' .start u = some q'.1

theorem dfa_bisim (hord : IsOrder ord) (hord' : IsOrder ord')
    (hD : nfaToDfa (compile r base) ord = some D)
    (hD' : nfaToDfa (compile r base') ord' = some D') :
    Bisim (dfaMachine D idAcceptor) (dfaMachine D' idAcceptor) (DRel D D') where
  init := ⟨[], rfl, rfl⟩
  acc := by
    rintro ⟨s, ⟨⟩⟩ ⟨s', ⟨⟩⟩ ⟨u, hs, hs'⟩
    show D.isAcc s = D'.isAcc s'
    rw [Bool.eq_iff_iff, isAcc_iff_lang hord hD hs, isAcc_iff_lang hord' hD' hs']
  dead := by
    rintro ⟨s, ⟨⟩⟩ ⟨s', ⟨⟩⟩ ⟨u, hs, hs'⟩
    show (D.row s).isEmpty = (D'.row s').isEmpty
    rw [Bool.eq_iff_iff, row_isEmpty_iff hord hD hs, row_isEmpty_iff hord' hD' hs']
  step := by
    rintro ⟨s, ⟨⟩⟩ ⟨s', ⟨⟩⟩ x ⟨u, hs, hs'⟩
    have hs1 : dfaRun D .start u = some s := hs
    have hs1' : dfaRun D' .start u = some s' := hs'
    rw [dfaMachine_step (row_nodup (compile_wf r base) hord hD),
      dfaMachine_step (row_nodup (compile_wf r base') hord' hD')]
    have h1 := find_none_iff hord hD hs1 x
    have h2 := find_none_iff hord' hD' hs1' x
    have r1 := dfaRun_snoc D x hs1
    have r2 := dfaRun_snoc D' x hs1'
    cases hf : (D.row s).find? (fun e => e.1 = x) with
    | none =>
      cases hf' : (D'.row s').find? (fun e => e.1 = x) with
      | none => simp [ExRel, OptRel]
      | some t' =>
        rw [hf] at h1
        have := h2.2 (h1.1 rfl)
        rw [hf'] at this; cases this
    | some t =>
      cases hf' : (D'.row s').find? (fun e => e.1 = x) with
      | none =>
        rw [hf'] at h2
        have := h1.2 (h2.1 rfl)
        rw [hf] at this; cases this
      | some t' =>
        rw [hf] at r1; rw [hf'] at r2
        simp only [Option.map_some, ExRel, OptRel]
        exact ⟨u ++ [x], r1, r2⟩

end

/-! ## independence theorems -/

section
variable {α : Type} [DecidableEq α]

theorem findAllId_indep (r : Rx α) {base base' : Nat} {ord ord' : List α → List α}
    (hord : IsOrder ord) (hord' : IsOrder ord') (w : List α) :
    findAllId r base ord w = findAllId r base' ord' w := by
  obtain ⟨D, hD, heq⟩ := findAllId_eq r base hord w
  obtain ⟨D', hD', heq'⟩ := findAllId_eq r base' hord' w
  rw [heq, heq']
  exact findAll_bisim (dfa_bisim hord hord' hD hD') w

theorem matchFull_indep (r : Rx α) {base base' : Nat} {ord ord' : List α → List α}
    (hord : IsOrder ord) (hord' : IsOrder ord') (w : List α) :
    matchFull r base ord w = matchFull r base' ord' w := by
  classical
  rw [matchFull_eq r base hord w, matchFull_eq r base' hord' w]

theorem startsWith_indep (r : Rx α) {base base' : Nat} {ord ord' : List α → List α}
    (hord : IsOrder ord) (hord' : IsOrder ord') (w : List α) :
    startsWith r base ord w = startsWith r base' ord' w := by
  obtain ⟨o, ho⟩ := startsWith_total r base hord w
  rw [ho]
  symm
  cases o with
  | none =>
    rw [startsWith_none_iff r base' hord' w, ← startsWith_none_iff r base hord w]
    exact ho
  | some k =>
    rw [startsWith_some_iff r base' hord' w k, ← startsWith_some_iff r base hord w k]
    exact ho

theorem nfaMatch_indep (r : Rx α) (base base' : Nat) (w : List α) :
    nfaMatch r base w = nfaMatch r base' w := by
  rw [Bool.eq_iff_iff, nfaMatch_iff, nfaMatch_iff]

end

end CL
