import CodeLimit.Lemmas.TokenNestBasic
import CodeLimit.Lemmas.BalancedExit
/-!
# Runs of the machine over predicate objects

* `feed c w` - the object `c` after `accept` has been called on it with the tokens `w` in turn;
* `gSeen D G cfg w` - the tokens of `w` shown to the attempt's copy of the template `G` in the
  run of `D` over `w` from `cfg` (the tokens read in a state whose row has a `G` transition:
  `Pattern.consume` evaluates every transition of the row, accepted or not);
* `run_copy` - the attempt's copy of `G` after the run is `feed` of its copy before the run
  with exactly those tokens: the state of a copy is a function of the template and of the
  tokens the attempt has read;
* `step_none_rejects` - when `consume` finds no transition, every predicate of the row has
  rejected the token.
-/
namespace CL

/-- the object after `accept` was called with each token of `w` -/
def feed (c : PredN) (w : List Tok) : PredN := w.foldl (fun c x => (acceptNest c x).2) c

theorem feed_nil (c : PredN) : feed c [] = c := rfl

theorem feed_cons (c : PredN) (x : Tok) (w : List Tok) :
    feed c (x :: w) = feed (acceptNest c x).2 w := rfl

theorem feed_append (c : PredN) (u v : List Tok) : feed c (u ++ v) = feed (feed c u) v := by
  simp only [feed, List.foldl_append]

theorem feed_shape (c : PredN) (w : List Tok) : (feed c w).shape = c.shape := by
  induction w generalizing c with
  | nil => rfl
  | cons x w ih => rw [feed_cons, ih, acceptNest_shape]

/-! ## `consumeAux` over `nestAcceptor` -/

section generic
variable {α π β : Type}

theorem consumeAux_some_stays {C : Acceptor α π β} {x : β} {row : List (α × DState)} {t : DState}
    {ps ps' : π} {f' : Option DState}
    (h : consumeAux C x row (some t) ps = .ok (f', ps')) : f' = some t := by
  induction row generalizing ps with
  | nil =>
    simp only [consumeAux, Except.ok.injEq, Prod.mk.injEq] at h
    exact h.1.symm
  | cons pt rest ih =>
    obtain ⟨p, u⟩ := pt
    simp only [consumeAux] at h
    split at h
    · simp at h
    · exact ih h

end generic

/-- the labels of a row -/
def labelsOf (row : List (PredN × DState)) : List PredN := row.map (·.1)

/-- a template that does not label the row is not touched -/
theorem consumeAux_copy_absent {G : PredN} {x : Tok} {row : List (PredN × DState)}
    (hG : G ∉ labelsOf row) {f f' : Option DState} {cs cs' : Copies}
    (h : consumeAux nestAcceptor x row f cs = .ok (f', cs')) : getCopy cs' G = getCopy cs G := by
  induction row generalizing f cs with
  | nil =>
    simp only [consumeAux, Except.ok.injEq, Prod.mk.injEq] at h
    rw [h.2]
  | cons pt rest ih =>
    obtain ⟨p, u⟩ := pt
    simp only [labelsOf, List.map_cons, List.mem_cons, not_or] at hG
    have hne : G ≠ p := hG.1
    have hrest : G ∉ labelsOf rest := hG.2
    have e : getCopy (nestAcceptor.accept p cs x).2 G = getCopy cs G := by
      show getCopy (acceptCopy p cs x).2 G = _
      rw [getCopy_acceptCopy, if_neg hne]
    simp only [consumeAux] at h
    split at h
    · split at h
      · cases h
      · rw [ih hrest h, e]
    · rw [ih hrest h, e]

/-- a template that labels the row (once) is shown the token: its copy becomes the object
after `accept` -/
theorem consumeAux_copy_present {G : PredN} {x : Tok} {row : List (PredN × DState)}
    (hnd : (labelsOf row).Nodup) (hG : G ∈ labelsOf row) {f f' : Option DState} {cs cs' : Copies}
    (h : consumeAux nestAcceptor x row f cs = .ok (f', cs')) :
    getCopy cs' G = (acceptNest (getCopy cs G) x).2 := by
  induction row generalizing f cs with
  | nil => cases hG
  | cons pt rest ih =>
    obtain ⟨p, u⟩ := pt
    simp only [labelsOf, List.map_cons, List.nodup_cons] at hnd
    simp only [labelsOf, List.map_cons, List.mem_cons] at hG
    by_cases hp : G = p
    · subst hp
      have hrest : G ∉ labelsOf rest := hnd.1
      have e : getCopy (nestAcceptor.accept G cs x).2 G = (acceptNest (getCopy cs G) x).2 := by
        show getCopy (acceptCopy G cs x).2 G = _
        rw [getCopy_acceptCopy, if_pos rfl]
      simp only [consumeAux] at h
      split at h
      · split at h
        · cases h
        · rw [consumeAux_copy_absent hrest h, e]
      · rw [consumeAux_copy_absent hrest h, e]
    · have hG' : G ∈ labelsOf rest := by
        rcases hG with h' | h'
        · exact absurd h' hp
        · exact h'
      have e : getCopy (nestAcceptor.accept p cs x).2 G = getCopy cs G := by
        show getCopy (acceptCopy p cs x).2 G = _
        rw [getCopy_acceptCopy, if_neg hp]
      simp only [consumeAux] at h
      split at h
      · split at h
        · cases h
        · rw [ih hnd.2 hG' h, e]
      · rw [ih hnd.2 hG' h, e]

/-- `consume` found no transition: the copy of every label of the row rejected the token -/
theorem consumeAux_none_rejects {G : PredN} {x : Tok} {row : List (PredN × DState)}
    (hG : G ∈ labelsOf row) {cs cs' : Copies}
    (h : consumeAux nestAcceptor x row none cs = .ok (none, cs')) :
    (acceptNest (getCopy cs G) x).1 = false := by
  induction row generalizing cs with
  | nil => cases hG
  | cons pt rest ih =>
    obtain ⟨p, u⟩ := pt
    simp only [labelsOf, List.map_cons, List.mem_cons] at hG
    simp only [consumeAux] at h
    have hacc : (nestAcceptor.accept p cs x).1 = (acceptNest (getCopy cs p) x).1 := rfl
    split at h
    · simp only [Option.isSome_none, Bool.false_eq_true, if_false] at h
      have := consumeAux_some_stays h
      cases this
    · rename_i hrej
      by_cases hp : G = p
      · subst hp
        rw [hacc] at hrej
        simpa using hrej
      · have hG' : G ∈ labelsOf rest := by
          rcases hG with h' | h'
          · exact absurd h' hp
          · exact h'
        have := ih hG' h
        have e : getCopy (nestAcceptor.accept p cs x).2 G = getCopy cs G := by
          show getCopy (acceptCopy p cs x).2 G = _
          rw [getCopy_acceptCopy, if_neg hp]
        rwa [e] at this

/-- on a row whose only transition is labelled `G`, a successful step means `G` accepted -/
theorem consumeAux_single {G : PredN} {x : Tok} {t g : DState} {cs cs' : Copies}
    (h : consumeAux nestAcceptor x [(G, t)] none cs = .ok (some g, cs')) :
    (acceptNest (getCopy cs G) x).1 = true ∧ g = t := by
  simp only [consumeAux] at h
  have hacc : (nestAcceptor.accept G cs x).1 = (acceptNest (getCopy cs G) x).1 := rfl
  split at h
  · rename_i ha
    simp only [Option.isSome_none, Bool.false_eq_true, if_false, Except.ok.injEq,
      Prod.mk.injEq, Option.some.injEq] at h
    exact ⟨by rw [← hacc]; exact ha, h.1.symm⟩
  · simp at h

/-! ## steps and runs -/

abbrev nestM (D : Dfa PredN) : Machine Tok (DState × Copies) := dfaMachine D nestAcceptor

theorem stepN_some {D : Dfa PredN} {cfg cfg' : DState × Copies} {x : Tok}
    (h : (nestM D).step cfg x = .ok (some cfg')) :
    consumeAux nestAcceptor x (D.row cfg.1) none cfg.2 = .ok (some cfg'.1, cfg'.2) := by
  simp only [nestM, dfaMachine, consume] at h
  split at h
  · cases h
  · cases h
  · rename_i t ps' heq
    simp only [Except.ok.injEq, Option.some.injEq] at h
    subst h
    exact heq

theorem stepN_none {D : Dfa PredN} {cfg : DState × Copies} {x : Tok}
    (h : (nestM D).step cfg x = .ok none) :
    ∃ cs', consumeAux nestAcceptor x (D.row cfg.1) none cfg.2 = .ok (none, cs') := by
  simp only [nestM, dfaMachine, consume] at h
  split at h
  · cases h
  · rename_i cs' heq; exact ⟨cs', heq⟩
  · cases h

/-- when the attempt cannot continue, its copy of every label of the current row rejects the
token -/
theorem step_none_rejects {D : Dfa PredN} {G : PredN} {cfg : DState × Copies} {x : Tok}
    (hG : G ∈ labelsOf (D.row cfg.1)) (h : (nestM D).step cfg x = .ok none) :
    (acceptNest (getCopy cfg.2 G) x).1 = false := by
  obtain ⟨cs', h'⟩ := stepN_none h
  exact consumeAux_none_rejects hG h'

/-- the tokens of `w` shown to the copy of `G` in the run from `cfg` -/
def gSeen (D : Dfa PredN) (G : PredN) : DState × Copies → List Tok → List Tok
  | _, [] => []
  | cfg, x :: xs =>
    match (nestM D).step cfg x with
    | .ok (some cfg') =>
      if G ∈ labelsOf (D.row cfg.1) then x :: gSeen D G cfg' xs else gSeen D G cfg' xs
    | _ => []

/-- rows have pairwise distinct labels (true of every compiled table, `row_nodup`) -/
def RowsNodup (D : Dfa PredN) : Prop := ∀ s, (labelsOf (D.row s)).Nodup

theorem step_copy {D : Dfa PredN} (hnd : RowsNodup D) (G : PredN) {cfg cfg' : DState × Copies}
    {x : Tok} (h : (nestM D).step cfg x = .ok (some cfg')) :
    getCopy cfg'.2 G = if G ∈ labelsOf (D.row cfg.1) then (acceptNest (getCopy cfg.2 G) x).2
      else getCopy cfg.2 G := by
  have h' := stepN_some h
  split
  · rename_i hG; exact consumeAux_copy_present (hnd _) hG h'
  · rename_i hG; exact consumeAux_copy_absent hG h'

/-- the copy of `G` after a run = the copy before the run, fed with the tokens it was shown -/
theorem run_copy {D : Dfa PredN} (hnd : RowsNodup D) (G : PredN) (w : List Tok)
    {cfg q : DState × Copies} (hr : runM (nestM D) cfg w = some q) :
    getCopy q.2 G = feed (getCopy cfg.2 G) (gSeen D G cfg w) := by
  induction w generalizing cfg with
  | nil =>
    simp only [runM, Option.some.injEq] at hr
    subst hr; rfl
  | cons x xs ih =>
    simp only [runM] at hr
    split at hr
    · rename_i cfg' hstep
      rw [ih hr, step_copy hnd G hstep]
      simp only [gSeen, hstep]
      split
      · rw [feed_cons]
      · rfl
    · cases hr

/-- reachable configurations of an attempt -/
inductive ReachN (D : Dfa PredN) : DState × Copies → Prop
  | init : ReachN D (.start, [])
  | step {cfg cfg' : DState × Copies} {tok : Tok} : ReachN D cfg →
      (nestM D).step cfg tok = .ok (some cfg') → ReachN D cfg'

theorem reachN_runM {D : Dfa PredN} {cfg q : DState × Copies} (w : List Tok) (h : ReachN D cfg)
    (hr : runM (nestM D) cfg w = some q) : ReachN D q := by
  induction w generalizing cfg with
  | nil => simp only [runM, Option.some.injEq] at hr; exact hr ▸ h
  | cons x xs ih =>
    simp only [runM] at hr
    split at hr
    · rename_i cfg' hs
      exact ih (ReachN.step h hs) hr
    · cases hr

end CL
