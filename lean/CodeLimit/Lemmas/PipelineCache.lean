import CodeLimit.Lemmas.PipelineReport
import CodeLimit.Props.C10
/-!
# From bytes to the abstract cache file: the document a scan writes is read back as its rows
(C08), prefixes of it are unreadable or read the same (C08, the byte contract of C10), hence every
cache file a scan may find (`CacheOk`) satisfies the invariant of C09.
-/
namespace CL.Pipeline

open CL CL.Sel

/-- what the reader makes of a text that parses to the value of a report whose file profiles are
`make_profile` of the measurements and whose paths `add_file` accepts -/
theorem readCache_doc {b : Str} {d : Json.ReportData} {cb : Codebase.Codebase}
    (hp : Json.parseJson b = some (Json.toJson d)) (hk : (d.files.map (·.1)).Nodup)
    (hprof : ∀ kv ∈ d.files, kv.2.profile = profileOf kv.2.measurements)
    (hcb : Codebase.build (d.files.map cbEntry) = .ok cb) :
    readCache (some b) = .doc d.version (rowsOfFiles d.files) := by
  have hfiles : (d.files.map fun kv => (kv.1, { kv.2 with profile := profileOf kv.2.measurements })) = d.files := by
    conv => rhs; rw [← List.map_id d.files]
    apply List.map_congr_left
    intro kv hkv
    obtain ⟨k, f⟩ := kv
    have := hprof (k, f) hkv
    simp only at this
    simp [← this]
  have hr := C08.read_back buildJ profileOf [] d hk
  rw [hfiles] at hr
  simp only [readCache, hp, hr, hcb]

/-! ## the cache lemmas of `Lemmas/Cache.lean`, relativised to a set `U` of contents

`Cache.HonestRows` says that every cached row is the analysis of SOME content with the recorded
checksum; the collision-freeness of the checksum is then needed between that content and the
current content of the file.  Recording that the content comes from `U` lets the hypothesis on the
checksum be restricted to `U`. -/

section Generic
variable {Path Content Hash Entry Excl Version : Type}
variable [DecidableEq Path] [DecidableEq Hash] [DecidableEq Version]
variable (P : Cache.Params Path Content Hash Entry Excl Version)

/-- every row is the analysis of some content FROM `U` with that checksum, stored under its own path -/
def HonestRowsOn (U : Content → Prop) (es : List (Path × Hash × Entry)) : Prop :=
  ∀ r ∈ es, ∃ c : Content, U c ∧ r.2.1 = P.hash c ∧ r.2.2 = P.analyze r.1 c

omit [DecidableEq Path] [DecidableEq Hash] [DecidableEq Version] in
theorem HonestRowsOn.honest {U : Content → Prop} {es : List (Path × Hash × Entry)}
    (h : HonestRowsOn P U es) : Cache.HonestRows P es := by
  intro r hr
  obtain ⟨c, _, h1, h2⟩ := h r hr
  exact ⟨c, h1, h2⟩

/-- with cached rows honest on `U`, a file whose content is in `U` and a checksum without collision
on `U`, the row equals the freshly analysed one -/
theorem scanFile_eq_fresh_on {U : Content → Prop}
    (hinj : ∀ c c', U c → U c' → P.hash c = P.hash c' → c = c')
    {cached : Option (List (Path × Hash × Entry))}
    (hc : ∀ es, cached = some es → HonestRowsOn P U es) (f : Path × Content) (hf : U f.2) :
    (Cache.scanFile P cached f).1 = (Cache.scanFile P none f).1 := by
  by_cases h : (Cache.scanFile P cached f).2 = .reused
  · obtain ⟨es, e, hes, hl, hr⟩ := (Cache.scanFile_reused_iff P).1 h
    obtain ⟨c, hcU, h1, h2⟩ := hc es hes _ (Cache.lookupLast_mem hl)
    simp only at h1 h2
    have : f.2 = c := hinj _ _ hf hcU h1
    subst this
    rw [hr, h2]; rfl
  · rw [Cache.scanFile_analysed_row P h]; rfl

/-- ... and every produced row is honest on `U` (no hypothesis on the checksum) -/
theorem scanFile_honestRow_on {U : Content → Prop} {cached : Option (List (Path × Hash × Entry))}
    (hc : ∀ es, cached = some es → HonestRowsOn P U es) (f : Path × Content) (hf : U f.2) :
    ∃ c : Content, U c ∧ (Cache.scanFile P cached f).1.2.1 = P.hash c ∧
      (Cache.scanFile P cached f).1.2.2 = P.analyze (Cache.scanFile P cached f).1.1 c := by
  by_cases h : (Cache.scanFile P cached f).2 = .reused
  · obtain ⟨es, e, hes, hl, hr⟩ := (Cache.scanFile_reused_iff P).1 h
    obtain ⟨c, hcU, h1, h2⟩ := hc es hes _ (Cache.lookupLast_mem hl)
    simp only at h1 h2
    exact ⟨c, hcU, by rw [hr]; exact h1, by rw [hr]; exact h2⟩
  · exact ⟨f.2, hf, by simp [Cache.scanFile_analysed_row P h]⟩

end Generic

/-- the invariant of C09 for the cache file with these bytes -/
def InvC (E : Env) (prev : Option Str) : Prop :=
  Cache.Honest (cacheParams E) (readCache prev) ∨ ¬ Cache.Usable (cacheParams E) (readCache prev)

/-- the invariant of C09 with the contents recorded: if the cache file is a document, its rows are
analyses of contents from `U` -/
def InvCOn (E : Env) (U : Str → Prop) (prev : Option Str) : Prop :=
  (∀ v es, readCache prev = .doc v es → HonestRowsOn (cacheParams E) U es) ∨
    ¬ Cache.Usable (cacheParams E) (readCache prev)

theorem InvCOn.inv {E : Env} {U : Str → Prop} {prev : Option Str} (h : InvCOn E U prev) : InvC E prev := by
  rcases h with h | h
  · exact Or.inl (fun v es he => (h v es he).honest)
  · exact Or.inr h

theorem inv_state {E : Env} {prev : Option Str} (h : InvC E prev) (pats : List Gi.Pat) (ch : List Node) :
    Cache.Inv (cacheParams E) (cacheState pats ch prev) := h

theorem not_usable_junk (E : Env) (k : Cache.JunkKind) :
    ¬ Cache.Usable (cacheParams E) (.junk k : CacheFileT) := by
  rintro ⟨es, h⟩; cases h

/-- the rows a usable cache file offers to the scan are honest on `U` -/
theorem invOn_cached {E : Env} {U : Str → Prop} {prev : Option Str} (h : InvCOn E U prev) :
    ∀ es, Cache.readCachedReport (cacheParams E) (readCache prev) = some es →
      HonestRowsOn (cacheParams E) U es := by
  intro es hes
  have hd := (Cache.readCachedReport_eq_some (cacheParams E)).1 hes
  rcases h with h | h
  · exact h _ _ hd
  · exact absurd ⟨es, hd⟩ h

/-- the files the walk hands to `_scan_file` have their contents in `U` -/
theorem walk_in {E : Env} {pats : List Gi.Pat} {ch : List Node} {U : Str → Prop} (hwf : wfDir ch = true)
    (hS : ScannedIn E pats ch U) (prev : Option Str) :
    ∀ f ∈ Cache.walk (cacheParams E) (cacheState pats ch prev), U f.2 := by
  intro f hf
  rw [walk_eq_selection E pats hwf prev] at hf
  obtain ⟨⟨p, lang, c⟩, hx, rfl⟩ := List.mem_map.1 hf
  exact hS p c lang (mem_selection.1 hx)

/-- the rows of a scan whose cache file and scanned contents lie in `U` are honest on `U` -/
theorem scanRows_honestOn {E : Env} {pats : List Gi.Pat} {rn : Str} {ch : List Node} {U : Str → Prop}
    (hwf : wfDir ch = true) (hS : ScannedIn E pats ch U) {prev : Option Str} (hinv : InvCOn E U prev) :
    HonestRowsOn (cacheParams E) U (scanRows E pats (.dir rn ch) prev) := by
  intro r hr
  simp only [scanRows, Cache.scan, Cache.report, Cache.scanLog, List.map_map, List.mem_map,
    Function.comp] at hr
  obtain ⟨f, hf, rfl⟩ := hr
  exact scanFile_honestRow_on (cacheParams E) (invOn_cached hinv) f (walk_in hwf hS prev f hf)

/-- **C09 on the instantiated model, relativised**: with a checksum that has no collision on `U`,
a cache file honest on `U` and scanned contents in `U`, the rows of the scan are the rows of a scan
that finds no cache file -/
theorem scanRows_eq_fresh_on {E : Env} {pats : List Gi.Pat} {rn : Str} {ch : List Node} {U : Str → Prop}
    (hU : CollisionFree E U) (hwf : wfDir ch = true) (hS : ScannedIn E pats ch U) {prev : Option Str}
    (hinv : InvCOn E U prev) :
    scanRows E pats (.dir rn ch) prev = scanRows E pats (.dir rn ch) none := by
  simp only [scanRows, Cache.scan, Cache.report, Cache.scanLog, List.map_map]
  have hw : Cache.walk (cacheParams E) (cacheState pats (Node.dir rn ch).children none) =
      Cache.walk (cacheParams E) (cacheState pats (Node.dir rn ch).children prev) := rfl
  rw [hw]
  apply List.map_congr_left
  intro f hf
  exact scanFile_eq_fresh_on (cacheParams E) hU (invOn_cached hinv) f (walk_in hwf hS prev f hf)

/-- **what a reader makes of the file a scan leaves behind, cut anywhere**: the document of the
rows of that scan (the whole file, or the file minus trailing white space), or nothing a scan would
use (C08 `valid_json`, `read_back`, `no_proper_prefix_parses`, `trailing_ws_prefix_parses`) -/
theorem read_prefix {E : Env} (hE : EnvBase E) {R : Run} (hR : RunOk R) {rn : Str} {ch : List Node}
    (hT : TreeOk ch) {prev : Option Str}
    (hrows : Cache.HonestRows (cacheParams E) (scanRows E R.pats (.dir rn ch) prev))
    {d : Json.ReportData} {bytes p : Str}
    (hs : scan E R (.dir rn ch) prev = .ok (d, bytes)) (hp : p <+: bytes) :
    (readCache (some p) = .doc (some E.version) (scanRows E R.pats (.dir rn ch) prev) ∨
      ¬ Cache.Usable (cacheParams E) (readCache (some p))) ∧
    (p = bytes → readCache (some p) = .doc (some E.version) (scanRows E R.pats (.dir rn ch) prev)) := by
  obtain ⟨files, cb, hf, hcb, rfl, rfl⟩ := scan_ok_iff.1 hs
  have hh := honestFiles_of_rows hrows hf
  have hgood := report_good hE hR hT hf hh hcb
  have hdist := report_distinct (E := E) (R := R) hT.wf hf hcb
  generalize hd : Json.Report.init E.version R.uuid R.now R.root R.repository (codebaseJ cb).1 (codebaseJ cb).2 files = d
    at hgood hdist hp
  have hdfiles : d.files = files := by rw [← hd]; rfl
  have hdver : d.version = some E.version := by rw [← hd]; rfl
  have hdoc : ∀ b, Json.parseJson b = some (Json.toJson d) →
      readCache (some b) = .doc (some E.version) (scanRows E R.pats (.dir rn ch) prev) := by
    intro b hb
    have := readCache_doc (cb := cb) hb hdist.files (by rw [hdfiles]; exact entriesOf_profiles hf)
      (by rw [hdfiles]; exact hcb)
    rw [this, hdver, hdfiles, rowsOfFiles_entriesOf hf]
  obtain ⟨q, hq⟩ := hp
  constructor
  · by_cases hws : Json.AllWs q
    · have := C08.trailing_ws_prefix_parses d hgood true p q hq.symm hws
      rw [C08.toJsonDict_eq d hdist] at this
      exact Or.inl (hdoc p this)
    · have := C08.no_proper_prefix_parses d hgood true p q hq.symm hws
      refine Or.inr ?_
      simp only [readCache, this]
      exact not_usable_junk E _
  · intro hpe
    subst hpe
    exact hdoc _ (C08.valid_json d hgood hdist).1

/-- **what a scan leaves behind, cut anywhere, keeps the invariant** (C09 `report_honest`) -/
theorem inv_of_prefix {E : Env} (hE : EnvBase E) {R : Run} (hR : RunOk R) {rn : Str} {ch : List Node}
    (hT : TreeOk ch) {prev : Option Str} (hprev : InvC E prev) {d : Json.ReportData} {bytes p : Str}
    (hs : scan E R (.dir rn ch) prev = .ok (d, bytes)) (hp : p <+: bytes) :
    InvC E (some p) ∧
    (p = bytes → readCache (some p) = .doc (some E.version) (scanRows E R.pats (.dir rn ch) prev)) := by
  have hrows : Cache.HonestRows (cacheParams E) (scanRows E R.pats (.dir rn ch) prev) :=
    Cache.report_honest (cacheParams E) (inv_state hprev R.pats ch)
  obtain ⟨h1, h2⟩ := read_prefix hE hR hT hrows hs hp
  refine ⟨?_, h2⟩
  rcases h1 with h1 | h1
  · exact Or.inl (by rw [h1]; exact Cache.honest_doc_cur (cacheParams E) hrows)
  · exact Or.inr h1

/-- the same with the contents recorded -/
theorem invOn_of_prefix {E : Env} (hE : EnvBase E) {U : Str → Prop} {R : Run} (hR : RunOk R) {rn : Str}
    {ch : List Node} (hT : TreeOk ch) (hS : ScannedIn E R.pats ch U) {prev : Option Str}
    (hprev : InvCOn E U prev) {d : Json.ReportData} {bytes p : Str}
    (hs : scan E R (.dir rn ch) prev = .ok (d, bytes)) (hp : p <+: bytes) : InvCOn E U (some p) := by
  have hrows := scanRows_honestOn (rn := rn) hT.wf hS hprev
  rcases (read_prefix hE hR hT hrows.honest hs hp).1 with h1 | h1
  · refine Or.inl (fun v es he => ?_)
    rw [h1] at he
    cases he
    exact hrows
  · exact Or.inr h1

/-- **every cache file a scan may find satisfies the invariant of C09** -/
theorem inv_of_cacheOk {E : Env} (hE : EnvOk E) {prev : Option Str} (h : CacheOk E prev) : InvC E prev := by
  induction h with
  | missing => exact Or.inr (by rintro ⟨es, h⟩; cases h)
  | written _ hR hT hs ih => exact (inv_of_prefix hE.toEnvBase hR hT ih hs (List.prefix_refl _)).1
  | cut _ hR hT hs hp ih => exact (inv_of_prefix hE.toEnvBase hR hT ih hs hp).1
  | foreign hf =>
    refine Or.inr ?_
    rintro ⟨es, h⟩
    exact hf es h

/-- ... and, with the contents recorded, the invariant on `U` -/
theorem invOn_of_cacheOkOn {E : Env} (hE : EnvBase E) {U : Str → Prop} {prev : Option Str}
    (h : CacheOkOn E U prev) : InvCOn E U prev := by
  induction h with
  | missing => exact Or.inr (by rintro ⟨es, h⟩; cases h)
  | written _ hR hT hS hs ih => exact invOn_of_prefix hE hR hT hS ih hs (List.prefix_refl _)
  | cut _ hR hT hS hs hp ih => exact invOn_of_prefix hE hR hT hS ih hs hp
  | foreign hf =>
    refine Or.inr ?_
    rintro ⟨es, h⟩
    exact hf es h

/-- forgetting the contents -/
theorem CacheOkOn.cacheOk {E : Env} {U : Str → Prop} {prev : Option Str} (h : CacheOkOn E U prev) :
    CacheOk E prev := by
  induction h with
  | missing => exact .missing
  | written _ hR hT _ hs ih => exact .written ih hR hT hs
  | cut _ hR hT _ hs hp ih => exact .cut ih hR hT hs hp
  | foreign hf => exact .foreign hf

/-- `CacheOk` is `CacheOkOn` for the set of all byte strings -/
theorem CacheOk.on {E : Env} {prev : Option Str} (h : CacheOk E prev) : CacheOkOn E (fun _ => True) prev := by
  induction h with
  | missing => exact .missing
  | written _ hR hT hs ih => exact .written ih hR hT (fun _ _ _ _ => trivial) hs
  | cut _ hR hT hs hp ih => exact .cut ih hR hT (fun _ _ _ _ => trivial) hs hp
  | foreign hf => exact .foreign hf

/-- a larger set of contents is as good -/
theorem CacheOkOn.mono {E : Env} {U V : Str → Prop} (hUV : ∀ c, U c → V c) {prev : Option Str}
    (h : CacheOkOn E U prev) : CacheOkOn E V prev := by
  induction h with
  | missing => exact .missing
  | written _ hR hT hS hs ih => exact .written ih hR hT (fun p c l hsel => hUV c (hS p c l hsel)) hs
  | cut _ hR hT hS hs hp ih => exact .cut ih hR hT (fun p c l hsel => hUV c (hS p c l hsel)) hs hp
  | foreign hf => exact .foreign hf

/-- the idealised hypotheses are a special case of `HistoryOk` -/
theorem HistoryOk.of_injective {E : Env} (hE : EnvOk E) {prev : Option Str} (h : CacheOk E prev)
    (pats : List Gi.Pat) (ch : List Node) : HistoryOk E pats ch prev :=
  Or.inr ⟨fun _ => True, fun _ _ _ _ he => hE.md5 he, fun _ _ _ _ => trivial, h.on⟩

/-- a scan that finds no cache file needs no assumption on MD5 -/
theorem HistoryOk.fresh (E : Env) (pats : List Gi.Pat) (ch : List Node) : HistoryOk E pats ch none :=
  Or.inl rfl

/-- **C09 on the instantiated model**: the rows of a scan that finds such a cache file are the rows
of a scan that finds none -/
theorem scanRows_eq_fresh {E : Env} (hE : EnvOk E) {prev : Option Str} (h : CacheOk E prev)
    (pats : List Gi.Pat) (root : Node) :
    scanRows E pats root prev = scanRows E pats root none := by
  have hinv := inv_state (inv_of_cacheOk hE h) pats root.children
  have := Cache.report_eq_fresh_of_inv (cacheParams E) hE.md5 hinv
  simp only [scanRows, Cache.scan]
  rw [this]
  rfl

theorem scan_eq_fresh {E : Env} (hE : EnvOk E) {prev : Option Str} (h : CacheOk E prev) (R : Run) (root : Node) :
    scan E R root prev = scan E R root none := by
  unfold scan
  rw [scanRows_eq_fresh hE h]

/-- **C09 + C10 end to end, with MD5 collision-free only on the contents that occur** -/
theorem scan_eq_fresh_on {E : Env} (hE : EnvBase E) {R : Run} {rn : Str} {ch : List Node}
    (hwf : wfDir ch = true) {prev : Option Str} (hH : HistoryOk E R.pats ch prev) :
    scan E R (.dir rn ch) prev = scan E R (.dir rn ch) none := by
  rcases hH with rfl | ⟨U, hU, hS, hprev⟩
  · rfl
  · unfold scan
    rw [scanRows_eq_fresh_on hU hwf hS (invOn_of_cacheOkOn hE hprev)]

end CL.Pipeline
