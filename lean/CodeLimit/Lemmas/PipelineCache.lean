import CodeLimit.Lemmas.PipelineReport
import CodeLimit.Props.C10
/-!
# From bytes to the abstract cache file: the document a scan writes is read back as its rows
(C08), prefixes of it are unreadable or read the same (C08, the byte contract of C10), hence every
cache file a scan may find (`CacheOk`) satisfies the invariant of C09.
-/
namespace CL.Pipeline

open CL CL.Sel

/-- what the reader makes of a text that parses to the value of a report whose file profiles are
`make_profile` of the measurements and whose paths `add_file` accepts -/
theorem readCache_doc {b : Str} {d : Json.ReportData} {cb : Codebase.Codebase}
    (hp : Json.parseJson b = some (Json.toJson d)) (hk : (d.files.map (·.1)).Nodup)
    (hprof : ∀ kv ∈ d.files, kv.2.profile = profileOf kv.2.measurements)
    (hcb : Codebase.build (d.files.map cbEntry) = .ok cb) :
    readCache (some b) = .doc d.version (rowsOfFiles d.files) := by
  have hfiles : (d.files.map fun kv => (kv.1, { kv.2 with profile := profileOf kv.2.measurements })) = d.files := by
    conv => rhs; rw [← List.map_id d.files]
    apply List.map_congr_left
    intro kv hkv
    obtain ⟨k, f⟩ := kv
    have := hprof (k, f) hkv
    simp only at this
    simp [← this]
  have hr := C08.read_back buildJ profileOf [] d hk
  rw [hfiles] at hr
  simp only [readCache, hp, hr, hcb]

/-- the invariant of C09 for the cache file with these bytes -/
def InvC (E : Env) (prev : Option Str) : Prop :=
  Cache.Honest (cacheParams E) (readCache prev) ∨ ¬ Cache.Usable (cacheParams E) (readCache prev)

theorem inv_state {E : Env} {prev : Option Str} (h : InvC E prev) (pats : List Gi.Pat) (ch : List Node) :
    Cache.Inv (cacheParams E) (cacheState pats ch prev) := h

theorem not_usable_junk (E : Env) (k : Cache.JunkKind) :
    ¬ Cache.Usable (cacheParams E) (.junk k : CacheFileT) := by
  rintro ⟨es, h⟩; cases h

/-- **what a scan leaves behind, cut anywhere, keeps the invariant** (C08 `valid_json`, `read_back`,
`no_proper_prefix_parses`, `trailing_ws_prefix_parses`; C09 `report_honest`) -/
theorem inv_of_prefix {E : Env} (hE : EnvOk E) {R : Run} (hR : RunOk R) {rn : Str} {ch : List Node}
    (hT : TreeOk ch) {prev : Option Str} (hprev : InvC E prev) {d : Json.ReportData} {bytes p : Str}
    (hs : scan E R (.dir rn ch) prev = .ok (d, bytes)) (hp : p <+: bytes) :
    InvC E (some p) ∧
    (p = bytes → readCache (some p) = .doc (some E.version) (scanRows E R.pats (.dir rn ch) prev)) := by
  obtain ⟨files, cb, hf, hcb, rfl, rfl⟩ := scan_ok_iff.1 hs
  have hinv := inv_state hprev R.pats ch
  have hrows : Cache.HonestRows (cacheParams E) (scanRows E R.pats (.dir rn ch) prev) :=
    Cache.report_honest (cacheParams E) hinv
  have hh := honestFiles_of_rows hrows hf
  have hgood := report_good hE hR hT hf hh hcb
  have hdist := report_distinct (E := E) (R := R) hT.wf hf hcb
  generalize hd : Json.Report.init E.version R.uuid R.now R.root R.repository (codebaseJ cb).1 (codebaseJ cb).2 files = d
    at hgood hdist hp
  have hdfiles : d.files = files := by rw [← hd]; rfl
  have hdver : d.version = some E.version := by rw [← hd]; rfl
  have hdoc : ∀ b, Json.parseJson b = some (Json.toJson d) →
      readCache (some b) = .doc (some E.version) (scanRows E R.pats (.dir rn ch) prev) := by
    intro b hb
    have := readCache_doc (cb := cb) hb hdist.files (by rw [hdfiles]; exact entriesOf_profiles hf)
      (by rw [hdfiles]; exact hcb)
    rw [this, hdver, hdfiles, rowsOfFiles_entriesOf hf]
  have hhonest : Cache.Honest (cacheParams E)
      (.doc (some E.version) (scanRows E R.pats (.dir rn ch) prev) : CacheFileT) :=
    Cache.honest_doc_cur (cacheParams E) hrows
  obtain ⟨q, hq⟩ := hp
  constructor
  · by_cases hws : Json.AllWs q
    · have := C08.trailing_ws_prefix_parses d hgood true p q hq.symm hws
      rw [C08.toJsonDict_eq d hdist] at this
      exact Or.inl (by unfold InvC at *; rw [hdoc p this]; exact hhonest)
    · have := C08.no_proper_prefix_parses d hgood true p q hq.symm hws
      refine Or.inr ?_
      simp only [readCache, this]
      exact not_usable_junk E _
  · intro hpe
    subst hpe
    exact hdoc _ (C08.valid_json d hgood hdist).1

/-- **every cache file a scan may find satisfies the invariant of C09** -/
theorem inv_of_cacheOk {E : Env} (hE : EnvOk E) {prev : Option Str} (h : CacheOk E prev) : InvC E prev := by
  induction h with
  | missing => exact Or.inr (by rintro ⟨es, h⟩; cases h)
  | written _ hR hT hs ih => exact (inv_of_prefix hE hR hT ih hs (List.prefix_refl _)).1
  | cut _ hR hT hs hp ih => exact (inv_of_prefix hE hR hT ih hs hp).1
  | foreign hf =>
    refine Or.inr ?_
    rintro ⟨es, h⟩
    exact hf es h

/-- **C09 on the instantiated model**: the rows of a scan that finds such a cache file are the rows
of a scan that finds none -/
theorem scanRows_eq_fresh {E : Env} (hE : EnvOk E) {prev : Option Str} (h : CacheOk E prev)
    (pats : List Gi.Pat) (root : Node) :
    scanRows E pats root prev = scanRows E pats root none := by
  have hinv := inv_state (inv_of_cacheOk hE h) pats root.children
  have := Cache.report_eq_fresh_of_inv (cacheParams E) hE.md5 hinv
  simp only [scanRows, Cache.scan]
  rw [this]
  rfl

theorem scan_eq_fresh {E : Env} (hE : EnvOk E) {prev : Option Str} (h : CacheOk E prev) (R : Run) (root : Node) :
    scan E R root prev = scan E R root none := by
  unfold scan
  rw [scanRows_eq_fresh hE h]

end CL.Pipeline
