import CodeLimit.Lemmas.PyTreeScan
import CodeLimit.Lemmas.PyTreeReport
import CodeLimit.Lemmas.ProgTreeMarksLayout
import CodeLimit.Lemmas.PyLayoutFacts
/-!
# Python indentation trees with suppressed functions (C17 / C04 on Python trees)

* `scan_pyLayout_marked` - stage C with marked functions: `scan_file` reports what the
  specification expects for the layout formed by the UNMARKED functions alone;
* `flat_pyDissolve`, `pyFnsOf_pyDissolve`, `shapeOK_pyDissolve` - dissolving `def` nodes keeps the
  token sequence and the structural conditions, and removes exactly the functions named on the lines;
* `scan_pytree_marked` - `scan_file = pyTreeReport` of the dissolved located forest.
-/
namespace CL.PyT
open CL.Marks

theorem nested_sublist {fns fns' : List Fn} (N : Nested fns) (hs : fns'.Sublist fns) :
    Nested fns' :=
  ⟨N.sorted.sublist hs, fun f hf => N.nonempty f (hs.subset hf),
   fun f hf g hg => N.laminar f (hs.subset hf) g (hs.subset hg)⟩

/-- **`scan_file` on a canonical Python layout with marked functions**: the report is the expected
report of the layout formed by the UNMARKED functions alone -/
theorem scan_pyLayout_marked {all code : List Tok} {fns : List Fn}
    (hcode : filterTokens false all = code)
    (hh : extractHeaders Gen.python code = .ok (fns.map (·.hdr))) (hL : PyLayout code fns) :
    ∃ ms, scanFile Gen.python all = .ok ms ∧
      ms.map some = (unmarkedFns all fns).map (expected code (unmarkedFns all fns)) := by
  have hN : Nested (unmarkedFns all fns) := nested_sublist hL.nested List.filter_sublist
  have hB : FnBounds code (unmarkedFns all fns) :=
    fun f hf => hL.fnBounds f (List.mem_of_mem_filter hf)
  obtain ⟨ms, h1, h2⟩ := measureAll_nested hL.posSorted hN hB (unmarkedFns all fns) (fun _ h => h)
  refine ⟨ms, ?_, h2⟩
  unfold scanFile
  rw [buildScopes_eq, hcode, rawScopes_pyLayout rfl hh hL]
  simp only [Except.map, filterNocl_fns]
  unfold arrange
  rw [if_pos (show Gen.python.nested = true from rfl), withChildren_layout hN]
  exact h1

/-! ## `PyProg.dissolve` -/

theorem flat_pyDissolve (ls : List Nat) : ∀ (p : PyProg Tok), (p.dissolve ls).flat = p.flat
  | .nil => rfl
  | .line toks rest => by simp only [PyProg.dissolve, PyProg.flat, flat_pyDissolve ls rest]
  | .block head suite rest => by
    simp only [PyProg.dissolve, PyProg.flat, flat_pyDissolve ls suite, flat_pyDissolve ls rest]
  | .defn pre kw name params post suite rest => by
    simp only [PyProg.dissolve]
    split
    · simp only [PyProg.flat, flat_pyDissolve ls suite, flat_pyDissolve ls rest, List.append_assoc,
        List.cons_append]
    · simp only [PyProg.flat, flat_pyDissolve ls suite, flat_pyDissolve ls rest]

theorem size_pyDissolve (ls : List Nat) (p : PyProg Tok) : (p.dissolve ls).size = p.size := by
  rw [← PyProg.size_eq, ← PyProg.size_eq, flat_pyDissolve]

theorem isNil_pyDissolve (ls : List Nat) (p : PyProg Tok) : (p.dissolve ls).isNil = p.isNil := by
  cases p with
  | nil => rfl
  | line => rfl
  | block => rfl
  | defn pre kw name params post suite rest =>
    simp only [PyProg.dissolve]
    split <;> rfl

/-- the function nodes of the dissolved forest are the function nodes named on other lines, with
unchanged header and suite ranges, in the same order -/
theorem pyFnsOf_pyDissolve (ls : List Nat) : ∀ (p : PyProg Tok) (i : Nat),
    pyFnsOf (p.dissolve ls) i = (pyFnsOf p i).filter (fun f => !ls.contains f.hdr.name.line)
  | .nil, _ => rfl
  | .line toks rest, i => by simp only [PyProg.dissolve, pyFnsOf, pyFnsOf_pyDissolve ls rest]
  | .block head suite rest, i => by
    simp only [PyProg.dissolve, pyFnsOf, size_pyDissolve, pyFnsOf_pyDissolve ls suite,
      pyFnsOf_pyDissolve ls rest, List.filter_append]
  | .defn pre kw name params post suite rest, i => by
    simp only [PyProg.dissolve]
    by_cases hm : ls.contains name.line = true
    · rw [if_pos hm]
      simp only [pyFnsOf, size_pyDissolve, pyFnsOf_pyDissolve ls suite, pyFnsOf_pyDissolve ls rest,
        List.filter_cons, List.filter_append, hm, Bool.not_true, Bool.false_eq_true, if_false,
        List.length_append, List.length_cons]
      congr 2 <;> congr 1 <;> omega
    · rw [if_neg hm]
      simp only [pyFnsOf, size_pyDissolve, pyFnsOf_pyDissolve ls suite, pyFnsOf_pyDissolve ls rest,
        List.filter_cons, List.filter_append, hm, Bool.not_false, if_true]

theorem shapeOK_pyDissolve (ls : List Nat) : ∀ (p : PyProg Tok), p.shapeOK = true →
    (p.dissolve ls).shapeOK = true
  | .nil, _ => rfl
  | .line toks rest, h => by
    simp only [PyProg.shapeOK] at h
    simp only [PyProg.dissolve, PyProg.shapeOK, shapeOK_pyDissolve ls rest h]
  | .block head suite rest, h => by
    simp only [PyProg.shapeOK, Bool.and_eq_true] at h
    simp only [PyProg.dissolve, PyProg.shapeOK, shapeOK_pyDissolve ls suite h.1,
      shapeOK_pyDissolve ls rest h.2, Bool.and_self]
  | .defn pre kw name params post suite rest, h => by
    simp only [PyProg.shapeOK, Bool.and_eq_true] at h
    obtain ⟨⟨⟨⟨⟨h1, h2⟩, h3⟩, h4⟩, h5⟩, h6⟩ := h
    simp only [PyProg.dissolve]
    split
    · simp only [PyProg.shapeOK, shapeOK_pyDissolve ls suite h5, shapeOK_pyDissolve ls rest h6,
        Bool.and_self]
    · simp only [PyProg.shapeOK, Bool.and_eq_true, isNil_pyDissolve, size_pyDissolve]
      exact ⟨⟨⟨⟨⟨h1, h2⟩, h3⟩, h4⟩, shapeOK_pyDissolve ls suite h5⟩, shapeOK_pyDissolve ls rest h6⟩

/-- the unmarked functions are the functions whose name line is not in `noclLines` -/
theorem unmarkedFns_eq (all : List Tok) (fns : List Fn) :
    unmarkedFns all fns = fns.filter (fun f => !(noclLines all).contains f.hdr.name.line) := by
  unfold unmarkedFns
  apply List.filter_congr
  intro f _
  rw [Bool.eq_iff_iff]
  simp only [decide_eq_true_eq, Bool.not_eq_true', ← Bool.not_eq_true]
  rw [not_congr]
  exact (contains_noclLines_iff all f.hdr.name.line).symm

/-- **`scan_file` on a Python file with comments and markers**: `all` is a token list whose code
tokens are the rendering of the well-formed forest `t`; the report is the tree report of the
located forest in which the `def` nodes named on a marked line are dissolved -/
theorem scan_pytree_marked {t : PyProg PTok} (hw : t.wf = true) {all : List Tok}
    (hcode : filterTokens false all = pyRender t) :
    scanFile Gen.python all = .ok (pyTreeReport (t.located.dissolve (noclLines all))) := by
  obtain ⟨ms, h1, h2⟩ := scan_pyLayout_marked hcode (extract_tree hw) (pyLayout_of_tree hw)
  have hshape : t.located.shapeOK = true := by
    rw [PyProg.located, PyProg.shapeOK_locate]
    exact shape_of_wfAt t _ _ (PyProg.wf_iff.mp hw).1
  have hfns : pyFnsOf (t.located.dissolve (noclLines all)) 0 = unmarkedFns all (pyFnsOf t.located 0) := by
    rw [pyFnsOf_pyDissolve, unmarkedFns_eq]
  have hN : Nested (pyFnsOf (t.located.dissolve (noclLines all)) 0) := by
    rw [hfns]; exact nested_sublist (pyLayout_of_tree hw).nested List.filter_sublist
  have he := expected_pytree (shapeOK_pyDissolve (noclLines all) _ hshape) hN
  rw [flat_pyDissolve, hfns] at he
  have : pyRender t = t.located.flat := rfl
  rw [this] at h2
  rw [he] at h2
  rw [h1]
  congr 1
  simpa using congrArg (List.filterMap id) h2

/-! ## names, and toggling the marker of a function that is not nested -/

theorem pyTreeReportNamed_snd : ∀ (p : PyProg Tok), (pyTreeReportNamed p).map (·.2) = pyTreeReport p
  | .nil => rfl
  | .line _ rest => pyTreeReportNamed_snd rest
  | .block _ suite rest => by
    simp only [pyTreeReportNamed, pyTreeReport, List.map_append, pyTreeReportNamed_snd suite,
      pyTreeReportNamed_snd rest]
  | .defn _ kw name params post suite rest => by
    simp only [pyTreeReportNamed, pyTreeReport, List.map_cons, List.map_append,
      pyTreeReportNamed_snd suite, pyTreeReportNamed_snd rest]

theorem pyTreeReportNamed_fst : ∀ (p : PyProg Tok), (pyTreeReportNamed p).map (·.1) = p.nameToks
  | .nil => rfl
  | .line _ rest => pyTreeReportNamed_fst rest
  | .block _ suite rest => by
    simp only [pyTreeReportNamed, PyProg.nameToks, List.map_append, pyTreeReportNamed_fst suite,
      pyTreeReportNamed_fst rest]
  | .defn _ kw name params post suite rest => by
    simp only [pyTreeReportNamed, PyProg.nameToks, List.map_cons, List.map_append,
      pyTreeReportNamed_fst suite, pyTreeReportNamed_fst rest]

theorem pyTreeReportNamed_name : ∀ (p : PyProg Tok), ∀ x ∈ pyTreeReportNamed p, x.2.name = x.1.val
  | .nil, _, h => by cases h
  | .line _ rest, x, h => pyTreeReportNamed_name rest x h
  | .block _ suite rest, x, h => by
    simp only [pyTreeReportNamed, List.mem_append] at h
    rcases h with h | h
    · exact pyTreeReportNamed_name suite x h
    · exact pyTreeReportNamed_name rest x h
  | .defn _ kw name params post suite rest, x, h => by
    simp only [pyTreeReportNamed, List.mem_cons, List.mem_append] at h
    rcases h with rfl | h | h
    · rfl
    · exact pyTreeReportNamed_name suite x h
    · exact pyTreeReportNamed_name rest x h

/-- the name tokens of the function records are the name tokens of the `def` nodes -/
theorem pyFnsOf_names : ∀ (p : PyProg Tok) (i : Nat), (pyFnsOf p i).map (·.hdr.name) = p.nameToks
  | .nil, _ => rfl
  | .line _ rest, i => pyFnsOf_names rest _
  | .block _ suite rest, i => by
    simp only [pyFnsOf, PyProg.nameToks, List.map_append, pyFnsOf_names suite, pyFnsOf_names rest]
  | .defn _ _ name _ _ suite rest, i => by
    simp only [pyFnsOf, PyProg.nameToks, List.map_cons, List.map_append, pyFnsOf_names suite,
      pyFnsOf_names rest]

/-- exactly the functions named on the given lines disappear -/
theorem nameToks_pyDissolve (ls : List Nat) : ∀ (p : PyProg Tok),
    (p.dissolve ls).nameToks = p.nameToks.filter (fun t => !ls.contains t.line)
  | .nil => rfl
  | .line _ rest => nameToks_pyDissolve ls rest
  | .block _ suite rest => by
    simp only [PyProg.dissolve, PyProg.nameToks, List.filter_append, nameToks_pyDissolve ls suite,
      nameToks_pyDissolve ls rest]
  | .defn pre kw name params post suite rest => by
    simp only [PyProg.dissolve]
    by_cases hm : ls.contains name.line = true
    · rw [if_pos hm]
      simp only [PyProg.nameToks, List.filter_cons, hm, Bool.not_true, Bool.false_eq_true, if_false,
        List.filter_append, nameToks_pyDissolve ls suite, nameToks_pyDissolve ls rest]
    · rw [if_neg hm]
      simp only [PyProg.nameToks, List.filter_cons, hm, Bool.not_false, if_true,
        List.filter_append, nameToks_pyDissolve ls suite, nameToks_pyDissolve ls rest]

theorem pyDissolve_of_not_named (ls : List Nat) : ∀ (p : PyProg Tok),
    (∀ t ∈ p.nameToks, ls.contains t.line = false) → p.dissolve ls = p
  | .nil, _ => rfl
  | .line _ rest, h => by simp only [PyProg.dissolve, pyDissolve_of_not_named ls rest h]
  | .block _ suite rest, h => by
    simp only [PyProg.nameToks, List.mem_append] at h
    simp only [PyProg.dissolve, pyDissolve_of_not_named ls suite (fun t ht => h t (.inl ht)),
      pyDissolve_of_not_named ls rest (fun t ht => h t (.inr ht))]
  | .defn pre kw name params post suite rest, h => by
    simp only [PyProg.nameToks, List.mem_cons, List.mem_append] at h
    simp only [PyProg.dissolve, h _ (.inl rfl), Bool.false_eq_true, if_false,
      pyDissolve_of_not_named ls suite (fun t ht => h t (.inr (.inl ht))),
      pyDissolve_of_not_named ls rest (fun t ht => h t (.inr (.inr ht)))]

/-- dissolving depends only on which NAME lines of the forest belong to the set -/
theorem pyDissolve_congr_names {ls ls' : List Nat} : ∀ (p : PyProg Tok),
    (∀ t ∈ p.nameToks, ls.contains t.line = ls'.contains t.line) → p.dissolve ls = p.dissolve ls'
  | .nil, _ => rfl
  | .line _ rest, h => by simp only [PyProg.dissolve, pyDissolve_congr_names rest h]
  | .block _ suite rest, h => by
    simp only [PyProg.nameToks, List.mem_append] at h
    simp only [PyProg.dissolve, pyDissolve_congr_names suite (fun t ht => h t (.inl ht)),
      pyDissolve_congr_names rest (fun t ht => h t (.inr ht))]
  | .defn pre kw name params post suite rest, h => by
    simp only [PyProg.nameToks, List.mem_cons, List.mem_append] at h
    simp only [PyProg.dissolve, h _ (.inl rfl),
      pyDissolve_congr_names suite (fun t ht => h t (.inr (.inl ht))),
      pyDissolve_congr_names rest (fun t ht => h t (.inr (.inr ht)))]

/-- dissolving twice is dissolving once with both sets of lines -/
theorem pyDissolve_dissolve (ls1 ls2 : List Nat) : ∀ (p : PyProg Tok),
    (p.dissolve ls2).dissolve ls1 = p.dissolve (ls1 ++ ls2)
  | .nil => rfl
  | .line _ rest => by simp only [PyProg.dissolve, pyDissolve_dissolve ls1 ls2 rest]
  | .block _ suite rest => by
    simp only [PyProg.dissolve, pyDissolve_dissolve ls1 ls2 suite, pyDissolve_dissolve ls1 ls2 rest]
  | .defn pre kw name params post suite rest => by
    have ihs := pyDissolve_dissolve ls1 ls2 suite
    have ihr := pyDissolve_dissolve ls1 ls2 rest
    simp only [PyProg.dissolve, List.contains_append]
    by_cases h2 : ls2.contains name.line = true
    · simp only [h2, Bool.or_true, if_true, PyProg.dissolve, ihs, ihr]
    · by_cases h1 : ls1.contains name.line = true
      · simp only [h2, h1, Bool.or_false, Bool.false_eq_true, if_false, if_true, PyProg.dissolve,
          ihs, ihr]
      · simp only [h2, h1, Bool.or_false, Bool.false_eq_true, if_false, PyProg.dissolve, ihs, ihr]

theorem py_filter_ne_of_not_named {l : Nat} {p : PyProg Tok}
    (h : p.nameToks.any (fun t => t.line == l) = false) :
    (pyTreeReportNamed p).filter (fun x => decide (x.1.line ≠ l)) = pyTreeReportNamed p := by
  rw [List.filter_eq_self]
  intro x hx
  have hx1 : x.1 ∈ p.nameToks := by
    rw [← pyTreeReportNamed_fst]; exact List.mem_map_of_mem hx
  have := List.any_eq_false.mp h x.1 hx1
  simpa using this

theorem py_dissolve_single_of_not_named {l : Nat} {p : PyProg Tok}
    (h : p.nameToks.any (fun t => t.line == l) = false) : p.dissolve [l] = p := by
  apply pyDissolve_of_not_named
  intro t ht
  have := List.any_eq_false.mp h t ht
  simpa using this

/-- **toggling the marker of functions that are not nested**: dissolving the functions named on
line `l`, none of which is inside another function node, removes exactly their entries from the
tree report; every other entry is unchanged -/
theorem py_toggle_named (l : Nat) : ∀ (p : PyProg Tok), p.notNestedOn l = true →
    (pyTreeReportNamed p).filter (fun x => decide (x.1.line ≠ l)) = pyTreeReportNamed (p.dissolve [l])
  | .nil, _ => rfl
  | .line _ rest, h => py_toggle_named l rest h
  | .block _ suite rest, h => by
    simp only [PyProg.notNestedOn, Bool.and_eq_true] at h
    simp only [pyTreeReportNamed, PyProg.dissolve, List.filter_append, py_toggle_named l suite h.1,
      py_toggle_named l rest h.2]
  | .defn pre kw name params post suite rest, h => by
    simp only [PyProg.notNestedOn, Bool.and_eq_true, Bool.not_eq_true'] at h
    have hs := py_dissolve_single_of_not_named h.1
    have hf := py_filter_ne_of_not_named h.1
    have ihr := py_toggle_named l rest h.2
    simp only [PyProg.dissolve, pyTreeReportNamed, List.filter_cons, List.filter_append]
    by_cases hm : name.line = l
    · subst hm
      have hc : [name.line].contains name.line = true := by simp
      simp only [hc, if_true, pyTreeReportNamed, ne_eq, not_true_eq_false, decide_false,
        Bool.false_eq_true, if_false, hs, hf, ihr]
    · have hc : [l].contains name.line = false := by simp [hm]
      simp only [hc, Bool.false_eq_true, if_false, pyTreeReportNamed, ne_eq, hm, not_false_eq_true,
        decide_true, if_true, hs, hf, ihr]

end CL.PyT
