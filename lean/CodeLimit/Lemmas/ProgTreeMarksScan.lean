import CodeLimit.Lemmas.ProgTreeMarksLayout
import CodeLimit.Lemmas.ProgTreeMarksSim
import CodeLimit.Lemmas.ProgTreeReport
import CodeLimit.Lemmas.ProgTreeLayout
/-!
# `scan_file` on a forest with comments and markers

Assembly: the comment-free forest `q` is a canonical layout; `build_scopes` finds the scopes of all
function nodes of `q`, drops the marked ones; the rest is the layout of the dissolved forest
`p.effective`, whose expected report is its tree report.
-/
namespace CL.Marks

theorem map_some_inj {α : Type} {a b : List α} (h : a.map some = b.map some) : a = b := by
  simpa using congrArg (List.filterMap id) h

theorem marked_iff_markedLines (p : Prog Tok) (l : Nat) :
    Marked p.flat l ↔ (markedLines p).contains l = true := by
  rw [← contains_noclLines_iff]
  rfl

/-- the unmarked function nodes of the comment-free forest are the function nodes of the
effective forest -/
theorem fns_effective {p : Prog Tok} (hw : p.stripComments.wfCore = true) :
    p.effective.fns = unmarkedFns p.flat p.stripComments.fns := by
  unfold Prog.effective Prog.fns unmarkedFns
  rw [fnsOf_dissolve _ _ _ hw]
  apply List.filter_congr
  intro f _
  unfold Fn.keptBy
  by_cases h : Marked p.flat f.hdr.name.line
  · have h' := (marked_iff_markedLines p _).mp h
    simp only [h, not_true_eq_false, decide_false, h', Bool.not_true]
  · have : ¬ (markedLines p).contains f.hdr.name.line = true :=
      fun h' => h ((marked_iff_markedLines p _).mpr h')
    simp only [h, not_false_eq_true, decide_true]
    simpa using this

theorem flat_effective (p : Prog Tok) : p.effective.flat = p.stripComments.flat :=
  flat_dissolve _ _

theorem wf_effective {p : Prog Tok} (hw : p.stripComments.wfCore = true)
    (ha : p.stripComments.noAdj = true) : p.effective.wf = true :=
  wf_dissolve _ _ (Prog.wf_of hw ha)

theorem posSorted_strip {p : Prog Tok} (hw : p.stripComments.wfCore = true)
    (hpos : PosSorted p.flat) : PosSorted p.stripComments.flat := by
  rw [flat_strip_of_wfCore p hw]
  exact List.Pairwise.sublist List.filter_sublist hpos

/-- **`scan_file` on the token sequence of a located forest with comments and markers.** -/
theorem scan_marked_prog {L : Language} {p : Prog Tok} (hpy : L.python = false)
    (hw : p.stripComments.wfCore = true) (ha : p.stripComments.noAdj = true)
    (hpos : PosSorted p.flat) {hs : List Header}
    (hh : extractHeaders L p.stripComments.flat = .ok hs)
    (hperm : hs.Perm (p.stripComments.fns.map (·.hdr))) :
    scanFile L p.flat
      = .ok (if L.nested = true then treeReport p.effective else treeReportFlat p.effective) := by
  have hwf := Prog.wf_of hw ha
  have hposq := posSorted_strip hw hpos
  have hL := layout_prog hwf hposq
  have hb := getBlocks_prog hwf hposq
  have hcode := (flat_strip_of_wfCore p hw).symm
  have hL' : LayoutCore p.effective.flat p.effective.fns p.stripComments.blocks := by
    rw [flat_effective, fns_effective hw]
    exact layoutCore_sublist hL.toLayoutCore List.filter_sublist
  have hwe := wf_effective hw ha
  by_cases hn : L.nested = true
  · obtain ⟨ms, h1, h2⟩ := scan_layout_marked hcode hpy hn hh hperm hb hL
    rw [← fns_effective hw, ← flat_effective, expected_prog hwe hL'.nested] at h2
    rw [if_pos hn, h1, map_some_inj h2]
  · obtain ⟨ms, h1, h2⟩ := scan_layout_marked_flat hcode hpy (by simpa using hn) hh hperm hb hL
    rw [← fns_effective hw, ← flat_effective, expectedFlat_prog hwe hL'.nested] at h2
    rw [if_neg hn, h1, map_some_inj h2]

end CL.Marks
