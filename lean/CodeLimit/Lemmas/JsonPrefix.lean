import CodeLimit.Lemmas.JsonDoc
/-!
# Truncated documents do not parse

A text that starts with `{` and is accepted ends its top-level value exactly at its last
non-blank character; no shorter prefix is accepted.
-/
namespace CL.Json

/-- inside a container, or finished, or failed -/
def Inside (s : St) : Prop :=
  s.stack ≠ [] ∨ (∃ v, s.mode = .done v) ∨ s.mode = .err

theorem inside_error : Inside St.error := Or.inr (Or.inr rfl)

theorem inside_of_stack {m : Mode} {f : Frame} {K : List Frame} : Inside ⟨m, f :: K⟩ := Or.inl (by simp)

theorem inside_complete (v : JVal) (K : List Frame) : Inside (complete v K) := by
  unfold complete
  split
  · exact Or.inr (Or.inl ⟨v, rfl⟩)
  · exact inside_of_stack
  · exact inside_of_stack
  · exact inside_error

theorem inside_completeStr (k : Bool) (s : Str) (K : List Frame) : Inside (completeStr k s K) := by
  unfold completeStr
  split
  · split
    · exact inside_of_stack
    · exact inside_error
  · exact inside_complete _ _

theorem inside_stepNext (K : List Frame) (c : Nat) (hK : K ≠ []) : Inside (stepNext K c) := by
  unfold stepNext
  split
  · exact Or.inl hK
  · split
    · split
      · exact inside_of_stack
      · split
        · exact inside_complete _ _
        · exact inside_error
    · split
      · exact inside_of_stack
      · split
        · exact inside_complete _ _
        · exact inside_error
    · exact inside_error

theorem inside_stepDone (v : JVal) (c : Nat) : Inside (stepDone v c) := by
  unfold stepDone
  split
  · exact Or.inr (Or.inl ⟨v, rfl⟩)
  · exact inside_error

theorem inside_stepCompleted (s : St) (c : Nat) (h : Inside s) : Inside (stepCompleted s c) := by
  unfold stepCompleted
  split
  · next hm =>
    rcases h with h | ⟨v, h⟩ | h
    · exact inside_stepNext _ _ h
    · simp [hm] at h
    · simp [hm] at h
  · exact inside_stepDone _ _
  · exact inside_error

theorem inside_startValue (K : List Frame) (c : Nat) (hK : K ≠ []) : Inside (startValue K c) := by
  unfold startValue
  repeat' split
  all_goals first
    | exact inside_error
    | exact Or.inl hK
    | exact inside_of_stack

theorem inside_stepNum (neg : Bool) (val : Nat) (txt : Str) (ph : NumPhase) (K : List Frame) (c : Nat)
    (hK : K ≠ []) : Inside (stepNum neg val txt ph K c) := by
  have hfin : Inside (match numDone neg val txt ph with
      | some v => stepCompleted (complete v K) c
      | none => St.error) := by
    split
    · exact inside_stepCompleted _ _ (inside_complete _ _)
    · exact inside_error
  unfold stepNum
  cases ph <;> simp only <;> repeat' split
  all_goals first
    | exact inside_error
    | exact Or.inl hK
    | exact hfin
    | exact inside_stepCompleted _ _ (inside_complete _ _)

theorem inside_stepPlain (k : Bool) (acc : Str) (K : List Frame) (c : Nat) (hK : K ≠ []) :
    Inside (stepPlain k acc K c) := by
  unfold stepPlain
  repeat' split
  all_goals first
    | exact inside_error
    | exact Or.inl hK
    | exact inside_completeStr _ _ _

theorem inside_stepEsc (k : Bool) (acc : Str) (K : List Frame) (c : Nat) (hK : K ≠ []) :
    Inside (stepEsc k acc K c) := by
  unfold stepEsc
  repeat' split
  all_goals first
    | exact inside_error
    | exact Or.inl hK

theorem inside_afterU (k : Bool) (acc : Str) (K : List Frame) (u : Nat) (hK : K ≠ []) :
    Inside (afterU k acc K u) := by
  unfold afterU
  split <;> exact Or.inl hK

theorem inside_stepStr (k : Bool) (acc : Str) (ss : SState) (K : List Frame) (c : Nat) (hK : K ≠ []) :
    Inside (stepStr k acc ss K c) := by
  unfold stepStr
  cases ss <;> simp only <;> repeat' split
  all_goals first
    | exact inside_error
    | exact Or.inl hK
    | exact inside_stepPlain _ _ _ _ hK
    | exact inside_stepEsc _ _ _ _ hK
    | exact inside_afterU _ _ _ _ hK

/-- once inside the top-level container the parser is never again at top level with an
unfinished value -/
theorem inside_step (s : St) (c : Nat) (h : Inside s) : Inside (step s c) := by
  obtain ⟨m, K⟩ := s
  rcases h with h | ⟨v, h⟩ | h
  · simp only at h
    unfold step
    cases m <;> simp only
    · -- value
      split
      · exact Or.inl h
      · split
        · split
          · exact inside_complete _ _
          · exact inside_error
        · exact inside_startValue _ _ h
    · -- key
      repeat' split
      all_goals first
        | exact inside_error
        | exact Or.inl h
        | exact inside_complete _ _
    · -- colon
      repeat' split
      all_goals first
        | exact inside_error
        | exact Or.inl h
    · exact inside_stepNext _ _ h
    · exact inside_stepStr _ _ _ _ _ h
    · exact inside_stepNum _ _ _ _ _ _ h
    · -- lit
      repeat' split
      all_goals first
        | exact inside_error
        | exact Or.inl h
        | exact inside_complete _ _
    · exact inside_stepDone _ _
    · exact inside_error
  · simp only at h
    subst h
    exact inside_stepDone _ _
  · simp only at h
    subst h
    exact inside_error

theorem inside_run (cs : List Nat) : ∀ (s : St), Inside s → Inside (run s cs) := by
  induction cs with
  | nil => intro s h; exact h
  | cons c cs ih => intro s h; exact ih _ (inside_step s c h)

/-- from a finished state only whitespace keeps the document accepted -/
theorem done_run_ws (q : List Nat) : ∀ (v : JVal) (K : List Frame) (v' : JVal) (K' : List Frame),
    run ⟨.done v, K⟩ q = ⟨.done v', K'⟩ → AllWs q := by
  induction q with
  | nil => intro _ _ _ _ _; exact AllWs.nil
  | cons c q ih =>
    intro v K v' K' h
    simp only [run_cons, step, stepDone] at h
    by_cases hc : isWs c = true
    · simp only [hc, if_true] at h
      intro x hx
      rcases List.mem_cons.1 hx with rfl | hx
      · exact hc
      · exact ih v [] v' K' h x hx
    · simp only [hc] at h
      simp at h
      cases h

theorem finish_inside {s : St} {v : JVal} (hi : Inside s) (hf : finish s = some v) : ∃ K, s = ⟨.done v, K⟩ := by
  obtain ⟨m, K⟩ := s
  cases m with
  | done w =>
    simp only [finish, Option.some.injEq] at hf
    subst hf
    exact ⟨K, rfl⟩
  | num neg val txt ph =>
    rcases hi with h | ⟨w, h⟩ | h
    · cases K with
      | nil => exact absurd rfl h
      | cons f K' => simp [finish] at hf
    · cases h
    · cases h
  | _ => simp [finish] at hf

/-- **no proper prefix parses**: if a text that begins with `{` is read to completion and ends
with a character that is not white space, none of its proper prefixes is valid JSON -/
theorem no_proper_prefix (a : List Nat) (v : JVal) (y : List Nat) (c : Nat) (hc : isWs c = false)
    (ha : a = 123 :: y ++ [c]) (hrun : run St.init a = ⟨.done v, []⟩)
    (pre q : List Nat) (hq : q ≠ []) (hsplit : a = pre ++ q) : parseJson pre = none := by
  cases pre with
  | nil => rfl
  | cons x pre' =>
    have hx : x = 123 := by
      rw [ha] at hsplit
      simp at hsplit
      exact hsplit.1.symm
    subst hx
    have h0 : Inside (step St.init 123) := by
      have : step St.init 123 = ⟨.key true, [.obj [] none]⟩ := by simp [step, St.init, isWs, startValue]
      rw [this]; exact inside_of_stack
    have hin : Inside (run St.init (123 :: pre')) := inside_run pre' _ h0
    cases hf : parseJson (123 :: pre') with
    | none => rfl
    | some w =>
      exfalso
      obtain ⟨K, hst⟩ := finish_inside hin hf
      rw [hsplit, run_append, hst] at hrun
      have hws := done_run_ws q w K v [] hrun
      -- the last character of `q` is `c`
      have hlast : c ∈ q := by
        have h1 : (123 :: y ++ [c]).reverse = (123 :: pre' ++ q).reverse := by rw [← ha, ← hsplit]
        rw [List.reverse_append, List.reverse_append] at h1
        cases hqr : q.reverse with
        | nil => exact absurd (List.reverse_eq_nil_iff.1 hqr) hq
        | cons z zs =>
          rw [hqr] at h1
          simp only [List.reverse_cons, List.reverse_nil, List.nil_append, List.cons_append, List.cons.injEq] at h1
          have : z ∈ q.reverse := by rw [hqr]; exact List.mem_cons_self ..
          rw [← h1.1] at this
          exact List.mem_reverse.1 this
      have := hws c hlast
      rw [hc] at this
      cases this

end CL.Json
