import CodeLimit.Lemmas.TokenNestBasic
/-!
# `find_all` over a store of template objects: what the deepcopy discipline guarantees

* `findAllG_keeps` - if no step of the machine writes to the store, `find_all` returns the store
  it was given;
* `findAllG_like` - if moreover, at the store `g0`, every step is the step of a store-free
  machine `A`, then `find_all` started with `g0` returns exactly `findAll A`;
* both hold for `modeMachine .deep D` (`deep_keeps`, `deep_like`).
-/
namespace CL

section generic
variable {β σ γ : Type}

/-- no step writes to the store -/
def KeepsStore (B : MachineG β σ γ) : Prop :=
  ∀ g s x r g', B.step g s x = .ok (r, g') → g' = g

theorem procOneG_keeps {B : MachineG β σ γ} (h : KeepsStore B) {idx : Nat} {x : β}
    {fs fs' : FSG β σ γ} {p : Att β σ} (hp : procOneG B idx x fs p = .ok fs') : fs'.g = fs.g := by
  unfold procOneG at hp
  split at hp
  · cases hp; rfl
  · split at hp
    · cases hp; rfl
    · split at hp
      · cases hp
      · rename_i q g' hs
        cases hp
        exact h _ _ _ _ _ hs
      · rename_i g' hs
        have := h _ _ _ _ _ hs
        split at hp <;> (cases hp; exact this)

theorem procAllG_keeps {B : MachineG β σ γ} (h : KeepsStore B) {idx : Nat} {x : β}
    {ps : List (Att β σ)} {fs fs' : FSG β σ γ} (hp : procAllG B idx x ps fs = .ok fs') :
    fs'.g = fs.g := by
  induction ps generalizing fs with
  | nil => simp only [procAllG, Except.ok.injEq] at hp; rw [hp]
  | cons p ps ih =>
    simp only [procAllG] at hp
    split at hp
    · cases hp
    · rename_i fs1 h1
      rw [ih hp, procOneG_keeps h h1]

theorem outerG_keeps {B : MachineG β σ γ} (h : KeepsStore B) {xs : List β} {idx : Nat}
    {ms ms' : List (Match β)} {act act' : List (Att β σ)} {g g' : γ}
    (ho : outerG B idx xs ms act g = .ok (ms', act', g')) : g' = g := by
  induction xs generalizing idx ms act g with
  | nil => simp only [outerG, Except.ok.injEq, Prod.mk.injEq] at ho; exact ho.2.2.symm
  | cons x xs ih =>
    simp only [outerG] at ho
    split at ho
    · cases ho
    · rename_i fs h1
      rw [ih ho, procAllG_keeps h h1]

/-- `find_all` hands back the store it was given -/
theorem findAllG_keeps {B : MachineG β σ γ} (h : KeepsStore B) {g g' : γ} {xs : List β}
    {ms : List (Match β)} (hf : findAllG B g xs = .ok (ms, g')) : g' = g := by
  unfold findAllG at hf
  split at hf
  · cases hf
  · rename_i ms0 act g1 ho
    simp only [Except.ok.injEq, Prod.mk.injEq] at hf
    rw [← hf.2]
    exact outerG_keeps h ho

/-- at the store `g0` the machine `B` steps like the store-free machine `A` and leaves the
store as it is -/
structure ActsLike (B : MachineG β σ γ) (A : Machine β σ) (g0 : γ) : Prop where
  init : B.init = A.init
  acc : ∀ s, B.acc s = A.acc s
  dead : ∀ s, B.dead s = A.dead s
  step : ∀ s x, B.step g0 s x = match A.step s x with
    | .error e => .error e
    | .ok r => .ok (r, g0)

def FS.withG (fs : FS β σ) (g : γ) : FSG β σ γ := ⟨fs.ms, fs.next, g⟩

def liftFS (g : γ) : Except Err (FS β σ) → Except Err (FSG β σ γ)
  | .error e => .error e
  | .ok fs => .ok (fs.withG g)

theorem procOneG_like {B : MachineG β σ γ} {A : Machine β σ} {g0 : γ} (h : ActsLike B A g0)
    (idx : Nat) (x : β) (fs : FS β σ) (p : Att β σ) :
    procOneG B idx x (fs.withG g0) p = liftFS g0 (procOne A idx x fs p) := by
  obtain ⟨ms, nx⟩ := fs
  show procOneG B idx x ⟨ms, nx, g0⟩ p = _
  unfold procOneG procOne
  dsimp only
  rw [h.acc, h.dead, h.step]
  by_cases h1 : (!ms.isEmpty && decide (p.start < lastEnd ms)) = true
  · rw [if_pos h1, if_pos h1]; rfl
  · rw [if_neg h1, if_neg h1]
    by_cases h2 : (A.dead p.st && A.acc p.st) = true
    · rw [if_pos h2, if_pos h2]; rfl
    · rw [if_neg h2, if_neg h2]
      rcases A.step p.st x with e | (_ | q)
      · rfl
      · by_cases h3 : A.acc p.st = true
        · dsimp only [liftFS, FS.withG]
          rw [if_pos h3, if_pos h3]
        · dsimp only [liftFS, FS.withG]
          rw [if_neg h3, if_neg h3]
      · rfl

theorem procAllG_like {B : MachineG β σ γ} {A : Machine β σ} {g0 : γ} (h : ActsLike B A g0)
    (idx : Nat) (x : β) (ps : List (Att β σ)) (fs : FS β σ) :
    procAllG B idx x ps (fs.withG g0) = liftFS g0 (procAll A idx x ps fs) := by
  induction ps generalizing fs with
  | nil => rfl
  | cons p ps ih =>
    simp only [procAllG, procAll, procOneG_like h]
    rcases procOne A idx x fs p with e | fs1
    · simp only [liftFS]
    · simp only [liftFS]
      exact ih fs1

theorem outerG_like {B : MachineG β σ γ} {A : Machine β σ} {g0 : γ} (h : ActsLike B A g0)
    (xs : List β) (idx : Nat) (ms : List (Match β)) (act : List (Att β σ)) :
    outerG B idx xs ms act g0 = match outer A idx xs ms act with
      | .error e => .error e
      | .ok (ms', act') => .ok (ms', act', g0) := by
  induction xs generalizing idx ms act with
  | nil => rfl
  | cons x xs ih =>
    simp only [outerG, outer, h.init]
    have := procAllG_like h idx x (act ++ [⟨idx, A.init, []⟩]) ⟨ms, []⟩
    simp only [FS.withG] at this
    rw [this]
    generalize procAll A idx x _ _ = r
    rcases r with e | fs
    · simp only [liftFS]
    · simp only [liftFS, FS.withG]
      exact ih _ _ _

theorem finalizeG_like {B : MachineG β σ γ} {A : Machine β σ} {g0 : γ} (h : ActsLike B A g0)
    (n : Nat) (ms : List (Match β)) (act : List (Att β σ)) :
    finalizeG B n ms act = finalize A n ms act := by
  unfold finalizeG finalize
  simp only [h.acc]

/-- started with the store `g0`, `find_all` over `B` is `find_all` over `A` -/
theorem findAllG_like {B : MachineG β σ γ} {A : Machine β σ} {g0 : γ} (h : ActsLike B A g0)
    (xs : List β) :
    findAllG B g0 xs = match findAll A xs with
      | .error e => .error e
      | .ok ms => .ok (ms, g0) := by
  unfold findAllG findAll
  rw [outerG_like h]
  rcases outer A 0 xs [] [] with e | ⟨ms, act⟩
  · rfl
  · simp only [finalizeG_like h]

end generic

/-! ## the deep-copy machine -/

theorem acceptMode_deep_store (p : PredN) (cs : Copies) (g : Shared) (t : Tok) :
    (acceptMode .deep p cs g t).2.2 = g := rfl

theorem consumeAuxG_deep_store {x : Tok} {row : List (PredN × DState)} {f f' : Option DState}
    {cs cs' : Copies} {g g' : Shared}
    (h : consumeAuxG .deep x row f cs g = .ok (f', cs', g')) : g' = g := by
  induction row generalizing f cs with
  | nil =>
    simp only [consumeAuxG, Except.ok.injEq, Prod.mk.injEq] at h
    exact h.2.2.symm
  | cons pt rest ih =>
    obtain ⟨p, t⟩ := pt
    simp only [consumeAuxG, acceptMode_deep_store] at h
    split at h
    · split at h
      · cases h
      · exact ih h
    · exact ih h

/-- with `deepcopy`, no step writes to the template objects -/
theorem deep_keeps (D : Dfa PredN) : KeepsStore (modeMachine .deep D) := by
  intro g s x r g' h
  simp only [modeMachine] at h
  split at h
  · cases h
  · rename_i cs' g1 hc
    simp only [Except.ok.injEq, Prod.mk.injEq] at h
    rw [← h.2]; exact consumeAuxG_deep_store hc
  · rename_i t cs' g1 hc
    simp only [Except.ok.injEq, Prod.mk.injEq] at h
    rw [← h.2]; exact consumeAuxG_deep_store hc

theorem acceptMode_deep_nil (p : PredN) (cs : Copies) (t : Tok) :
    acceptMode .deep p cs [] t = ((acceptCopy p cs t).1, (acceptCopy p cs t).2, []) := rfl

theorem consumeAuxG_deep_nil (x : Tok) (row : List (PredN × DState)) (f : Option DState)
    (cs : Copies) :
    consumeAuxG .deep x row f cs [] = match consumeAux nestAcceptor x row f cs with
      | .error e => .error e
      | .ok (f', cs') => .ok (f', cs', []) := by
  induction row generalizing f cs with
  | nil => rfl
  | cons pt rest ih =>
    obtain ⟨p, t⟩ := pt
    simp only [consumeAuxG, consumeAux, acceptMode_deep_nil]
    have e : nestAcceptor.accept p cs x = acceptCopy p cs x := rfl
    rw [e]
    by_cases h1 : (acceptCopy p cs x).1 = true
    · simp only [h1, if_true]
      by_cases h2 : f.isSome = true
      · simp only [h2, if_true]
      · simp only [h2]
        exact ih _ _
    · simp only [h1]
      exact ih _ _

/-- with `deepcopy` and template objects as constructed, the machine is the functional one -/
theorem deep_like (D : Dfa PredN) : ActsLike (modeMachine .deep D) (dfaMachine D nestAcceptor) [] where
  init := rfl
  acc := fun _ => rfl
  dead := fun _ => rfl
  step := by
    intro s x
    simp only [modeMachine, dfaMachine, consume, consumeAuxG_deep_nil]
    rcases consumeAux nestAcceptor x (D.row s.1) none s.2 with e | ⟨_ | t, cs'⟩ <;> rfl

end CL
