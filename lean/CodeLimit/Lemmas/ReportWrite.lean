import CodeLimit.Lemmas.JsonDoc
import CodeLimit.Spec.Report
/-!
# The layout of `ReportWriter` and what `json.loads` makes of it

`Item p out body`: `out` is a piece the writer hands to `_collection`: a `body` that ends with
a non-space character, followed by the newline of pretty mode (so `rstrip` gives `body`).
`MItem` / `VItem`: such a piece whose body reads as an object member / as a value.
-/
namespace CL.Json

def ind (p : Bool) (lvl : Nat) : Str := if p then List.replicate lvl 32 else []
def nl (p : Bool) : Str := if p then [10] else []
def sepw (p : Bool) : Str := if p then [10] else [32]

theorem allWs_ind (p : Bool) (lvl : Nat) : AllWs (ind p lvl) := by
  cases p
  · exact AllWs.nil
  · exact AllWs.replicate lvl
theorem allWs_nl (p : Bool) : AllWs (nl p) := by
  cases p
  · exact AllWs.nil
  · exact AllWs.nl
theorem allWs_sepw (p : Bool) : AllWs (sepw p) := by
  cases p
  · exact AllWs.blank
  · exact AllWs.nl

theorem line_eq (p : Bool) (lvl : Nat) (t : Str) : line p lvl t = ind p lvl ++ t ++ nl p := by
  cases p <;> simp [line, ind, nl]

/-- the text is not empty and its last character is not white space (`str.isspace`) -/
def EndsNonSpace (x : Str) : Prop := ∃ y c, x = y ++ [c] ∧ isSpaceChar c = false

theorem EndsNonSpace.append_left {t : Str} (a : Str) (h : EndsNonSpace t) : EndsNonSpace (a ++ t) := by
  obtain ⟨y, c, rfl, hc⟩ := h
  exact ⟨a ++ y, c, by simp, hc⟩

theorem ens_snoc (a : Str) (c : Nat) (h : isSpaceChar c = false) : EndsNonSpace (a ++ [c]) := ⟨a, c, rfl, h⟩

theorem ens_dumpsStr (s : Str) : EndsNonSpace (dumpsStr s) :=
  ⟨34 :: strBody s, 34, by simp [dumpsStr], by decide⟩

theorem digit_nonspace (d : Nat) (h : d < 10) : isSpaceChar (48 + d) = false := by
  revert d; decide

theorem ens_natText (n : Nat) : EndsNonSpace (natText n) := by
  by_cases h : n < 10
  · rw [natText_lt h]; exact ⟨[], _, rfl, digit_nonspace n h⟩
  · rw [natText_ge (by omega)]; exact ⟨_, _, rfl, digit_nonspace _ (Nat.mod_lt _ (by decide))⟩

theorem ens_intText (n : Int) : EndsNonSpace (intText n) := by
  cases n with
  | ofNat m => exact ens_natText m
  | negSucc m => exact (ens_natText (m + 1)).append_left [45]

theorem ens_dumpsOpt (o : Option Str) : EndsNonSpace (dumpsOpt o) := by
  cases o with
  | none => exact ⟨cp! "nul", 108, rfl, by decide⟩
  | some s => exact ens_dumpsStr s

theorem rstrip_ens {x : Str} (h : EndsNonSpace x) (p : Bool) : rstrip (x ++ nl p) = x := by
  obtain ⟨y, c, rfl, hc⟩ := h
  cases p
  · simp [rstrip, nl, hc]
  · have h10 : isSpaceChar 10 = true := by decide
    simp [rstrip, nl, hc, h10]

def Item (p : Bool) (out body : Str) : Prop := out = body ++ nl p ∧ EndsNonSpace body

theorem map_rstrip {p : Bool} : ∀ {items bodies : List Str}, All2 (Item p) items bodies → items.map rstrip = bodies
  | _, _, .nil => rfl
  | _, _, .cons h t => by
    rw [List.map_cons, map_rstrip t, h.1, rstrip_ens h.2]

theorem collection_eq {p : Bool} {items bodies : List Str} (h : All2 (Item p) items bodies) :
    collection p items = (44 :: sepw p).intercalate bodies ++ (if bodies = [] then [] else nl p) := by
  have hm := map_rstrip h
  have he := h.nil_iff
  unfold collection
  rw [hm]
  cases p
  · simp [sepw, nl]
  · by_cases hb : bodies = []
    · have : items = [] := he.2 hb
      subst this; subst hb
      simp
    · have : items ≠ [] := fun e => hb (he.1 e)
      simp [sepw, nl, hb, this]

/-- `_open(h + opn)`, `_collection(items)`, `_close(cls)` as one item -/
theorem block_eq {p : Bool} {items bodies : List Str} (h : All2 (Item p) items bodies)
    (lvl : Nat) (hd : Str) (opn cls : Nat) :
    line p lvl (hd ++ [opn]) ++ collection p items ++ line p lvl [cls] =
      (ind p lvl ++ (hd ++ opn :: (nl p ++ ((44 :: sepw p).intercalate bodies ++
        (((if bodies = [] then [] else nl p) ++ ind p lvl) ++ [cls]))))) ++ nl p := by
  rw [collection_eq h, line_eq, line_eq]
  simp [List.append_assoc]

def MItem (p : Bool) (out : Str) (k : Str) (v : JVal) : Prop := ∃ body, Item p out body ∧ MP body k v
def VItem (p : Bool) (out : Str) (v : JVal) : Prop := ∃ body, Item p out body ∧ VP body v

theorem allWs_close (p : Bool) (lvl : Nat) (bodies : List Str) :
    AllWs ((if bodies = [] then [] else nl p) ++ ind p lvl) := by
  split
  · exact AllWs.nil.append (allWs_ind p lvl)
  · exact (allWs_nl p).append (allWs_ind p lvl)

/-- a `_line` holding `"key": value` -/
theorem mitem_line {p : Bool} {lvl : Nat} {hd tv k : Str} {v : JVal} (hh : hd = dumpsStr k ++ [58, 32])
    (hk : GoodStr k) (hv : VP tv v) (he : EndsNonSpace tv) : MItem p (line p lvl (hd ++ tv)) k v := by
  subst hh
  refine ⟨ind p lvl ++ (dumpsStr k ++ 58 :: ([32] ++ tv)), ⟨?_, ?_⟩, mp_mk (allWs_ind p lvl) hk AllWs.blank hv⟩
  · rw [line_eq]; simp [List.append_assoc]
  · have := he.append_left (ind p lvl ++ (dumpsStr k ++ [58, 32]))
    simpa [List.append_assoc] using this

/-- `"key": {` ... `}` over several lines -/
theorem mitem_block_obj {p : Bool} {lvl : Nat} {hd k : Str} {items : List Str} {kvs : List (Str × JVal)}
    (hh : hd = dumpsStr k ++ [58, 32]) (hk : GoodStr k)
    (h : All2 (fun out kv => MItem p out kv.1 kv.2) items kvs) :
    MItem p (line p lvl (hd ++ [123]) ++ collection p items ++ line p lvl [125]) k (.obj (dictOfPairs kvs)) := by
  subst hh
  obtain ⟨bodies, hi, hm⟩ := All2.exists h
  refine ⟨_, ⟨block_eq hi lvl _ 123 125, ?_⟩, ?_⟩
  · have := ens_snoc (ind p lvl ++ ((dumpsStr k ++ [58, 32]) ++ 123 :: (nl p ++ ((44 :: sepw p).intercalate bodies ++
        ((if bodies = [] then [] else nl p) ++ ind p lvl))))) 125 (by decide)
    simpa [List.append_assoc] using this
  · have hv : VP _ _ := (vpc_obj (allWs_sepw p) (allWs_nl p) (allWs_close p lvl bodies) hm).vp
    have := mp_mk (allWs_ind p lvl) hk AllWs.blank hv
    simpa [List.append_assoc] using this

/-- `"key": [` ... `]` over several lines -/
theorem mitem_block_arr {p : Bool} {lvl : Nat} {hd k : Str} {items : List Str} {vs : List JVal}
    (hh : hd = dumpsStr k ++ [58, 32]) (hk : GoodStr k) (h : All2 (VItem p) items vs) :
    MItem p (line p lvl (hd ++ [91]) ++ collection p items ++ line p lvl [93]) k (.arr vs) := by
  subst hh
  obtain ⟨bodies, hi, hm⟩ := All2.exists h
  refine ⟨_, ⟨block_eq hi lvl _ 91 93, ?_⟩, ?_⟩
  · have := ens_snoc (ind p lvl ++ ((dumpsStr k ++ [58, 32]) ++ 91 :: (nl p ++ ((44 :: sepw p).intercalate bodies ++
        ((if bodies = [] then [] else nl p) ++ ind p lvl))))) 93 (by decide)
    simpa [List.append_assoc] using this
  · have hv : VP _ _ := (vpc_arr (allWs_sepw p) (allWs_nl p) (allWs_close p lvl bodies) hm).vp
    have := mp_mk (allWs_ind p lvl) hk AllWs.blank hv
    simpa [List.append_assoc] using this

/-- a `_line` holding a value (array element) -/
theorem vitem_line {p : Bool} {lvl : Nat} {t : Str} {v : JVal} (hv : VP t v) (he : EndsNonSpace t) :
    VItem p (line p lvl t) v :=
  ⟨ind p lvl ++ t, ⟨by rw [line_eq], he.append_left _⟩, hv.ws (allWs_ind p lvl)⟩

/-- the whole document: `{`, items, `}` at level 0 -/
theorem run_document {p : Bool} {items : List Str} {kvs : List (Str × JVal)}
    (h : All2 (fun out kv => MItem p out kv.1 kv.2) items kvs) :
    ∃ a, line p 0 [123] ++ collection p items ++ line p 0 [125] = a ++ nl p ∧
      run St.init a = ⟨.done (.obj (dictOfPairs kvs)), []⟩ ∧ (∃ y, a = 123 :: (y ++ [125])) := by
  obtain ⟨bodies, hi, hm⟩ := All2.exists h
  refine ⟨_, block_eq hi 0 [] 123 125, ?_, ?_⟩
  · have hv := (vpc_obj (allWs_sepw p) (allWs_nl p) (allWs_close p 0 bodies) hm).ws (allWs_ind p 0)
    have := hv false [] []
    simpa [St.init, complete] using this
  · have h0 : ind p 0 = [] := by cases p <;> rfl
    exact ⟨nl p ++ ((44 :: sepw p).intercalate bodies ++
        ((if bodies = [] then [] else nl p) ++ ind p 0)), by simp [List.append_assoc, h0]⟩

end CL.Json
