import CodeLimit.Lemmas.SubsetInv
/-!
# Running the table produced by `nfaToDfa`

`dfaRun D s w` follows the rows of `D` from the DFA object `s`. For a table produced from a
well-formed NFA the object reached from `DState.start` on `w` is labelled by exactly the set
of NFA states reachable on `w`, and the run dies exactly when that set becomes empty.
-/
namespace CL

variable {α : Type} [DecidableEq α]

/-- follow the (unique) row entry labelled by each letter -/
def dfaRun (D : Dfa α) : DState → List α → Option DState
  | s, [] => some s
  | s, a :: w =>
    match (D.row s).find? (fun t => t.1 = a) with
    | none => none
    | some t => dfaRun D t.2 w

/-- `T` is a processed, non-empty set that is exactly the set of states reachable on `u` -/
structure Live (N : Nfa α) (marked : List (List Nat)) (T : List Nat) (u : List α) : Prop where
  mem : T ∈ marked
  rep : Represents N T u
  ne : ∃ q, q ∈ T

omit [DecidableEq α] in
theorem Live.path {N : Nfa α} {marked : List (List Nat)} {T : List Nat} {u : List α}
    (h : Live N marked T u) : ∃ q, Path N.edges N.start u q := by
  obtain ⟨q, hq⟩ := h.ne
  exact ⟨q, ((h.rep q).1 hq).2⟩

section
variable {N : Nfa α} {ord : List α → List α} {D : Dfa α} {marked : List (List Nat)}

theorem Good.live_start (hG : Good N ord D marked) (hN : N.WF) : Live N marked (startSet N) [] :=
  ⟨hG.start, represents_startSet N, N.start, start_mem_startSet hN⟩

theorem Good.live_delta (hG : Good N ord D marked) (hN : N.WF) {T : List Nat} {u : List α}
    {a : α} (hT : Live N marked T u) (ha : a ∈ transitions N.edges T) :
    Live N marked (delta N T a) (u ++ [a]) :=
  ⟨hG.closed T hT.mem a ha, represents_delta hN a hT.rep, delta_nonempty hN ha⟩

theorem Good.run_cons_pos (hG : Good N ord D marked) (hN : N.WF) (hord : IsOrder ord)
    {T : List Nat} (hT : T ∈ marked) {a : α} (w : List α) (ha : a ∈ transitions N.edges T) :
    dfaRun D (stateOf N T) (a :: w) = dfaRun D (stateOf N (delta N T a)) w := by
  simp only [dfaRun, hG.row_eq T hT, rowOf_find_pos N hord T a ha, stateOf_delta hN]

theorem Good.run_cons_neg (hG : Good N ord D marked) (hord : IsOrder ord)
    {T : List Nat} (hT : T ∈ marked) {a : α} (w : List α) (ha : a ∉ transitions N.edges T) :
    dfaRun D (stateOf N T) (a :: w) = none := by
  simp only [dfaRun, hG.row_eq T hT, rowOf_find_neg N hord T a ha]

theorem Good.run_some (hG : Good N ord D marked) (hN : N.WF) (hord : IsOrder ord) :
    ∀ (w : List α) (T : List Nat) (u : List α) (s : DState), Live N marked T u →
      dfaRun D (stateOf N T) w = some s →
      ∃ T', s = stateOf N T' ∧ Live N marked T' (u ++ w) := by
  intro w
  induction w with
  | nil =>
    intro T u s hT h
    simp only [dfaRun, Option.some.injEq] at h
    exact ⟨T, h.symm, by simpa using hT⟩
  | cons a w ih =>
    intro T u s hT h
    by_cases ha : a ∈ transitions N.edges T
    · rw [hG.run_cons_pos hN hord hT.mem w ha] at h
      obtain ⟨T', h1, h2⟩ := ih _ _ s (hG.live_delta hN hT ha) h
      exact ⟨T', h1, by simpa using h2⟩
    · rw [hG.run_cons_neg hord hT.mem w ha] at h
      cases h

theorem Good.run_none (hG : Good N ord D marked) (hN : N.WF) (hord : IsOrder ord) :
    ∀ (w : List α) (T : List Nat) (u : List α), Live N marked T u →
      dfaRun D (stateOf N T) w = none →
      ∃ (w1 : List α) (a : α) (w2 : List α), w = w1 ++ a :: w2 ∧
        (∃ q, Path N.edges N.start (u ++ w1) q) ∧
        ¬ ∃ q, Path N.edges N.start (u ++ w1 ++ [a]) q := by
  intro w
  induction w with
  | nil => intro T u _ h; simp [dfaRun] at h
  | cons a w ih =>
    intro T u hT h
    by_cases ha : a ∈ transitions N.edges T
    · rw [hG.run_cons_pos hN hord hT.mem w ha] at h
      obtain ⟨w1, b, w2, h1, h2, h3⟩ := ih _ _ (hG.live_delta hN hT ha) h
      refine ⟨a :: w1, b, w2, by simp [h1], ?_, ?_⟩
      · simpa using h2
      · simpa using h3
    · refine ⟨[], a, w, rfl, by simpa using hT.path, ?_⟩
      rw [List.append_nil, ← mem_transitions_iff_path hN a hT.rep]
      exact ha

end

/-! ## the theorems about `nfaToDfa` -/

section
variable {N : Nfa α} {ord : List α → List α} {D : Dfa α}

/-- the object reached on `w` is the object of a processed, live set representing `w` -/
theorem dfaRun_live (hN : N.WF) (hord : IsOrder ord) (h : nfaToDfa N ord = some D)
    {w : List α} {s : DState} (hr : dfaRun D .start w = some s) :
    ∃ marked T, Good N ord D marked ∧ s = stateOf N T ∧ Live N marked T w := by
  obtain ⟨marked, hG⟩ := nfaToDfa_good hN hord h
  rw [← stateOf_startSet N] at hr
  obtain ⟨T, h1, h2⟩ := hG.run_some hN hord w _ [] s (hG.live_start hN) hr
  exact ⟨marked, T, hG, h1, by simpa using h2⟩

/-- the label of the DFA object reached on `w` is exactly the set of NFA states reachable on `w` -/
theorem dfaRun_some (hN : N.WF) (hord : IsOrder ord) (h : nfaToDfa N ord = some D)
    {w : List α} {s : DState} (hr : dfaRun D .start w = some s) :
    ∀ q, q ∈ label N s ↔ q < N.next ∧ Path N.edges N.start w q := by
  obtain ⟨marked, T, _, h1, h2⟩ := dfaRun_live hN hord h hr
  subst h1
  rw [label_stateOf]
  exact h2.rep

/-- a run that survives `w` witnesses that some NFA state is reachable on `w` -/
theorem dfaRun_some_path (hN : N.WF) (hord : IsOrder ord) (h : nfaToDfa N ord = some D)
    {w : List α} {s : DState} (hr : dfaRun D .start w = some s) :
    ∃ q, Path N.edges N.start w q := by
  obtain ⟨marked, T, _, _, h2⟩ := dfaRun_live hN hord h hr
  exact h2.path

/-- the run dies exactly when the set of reachable states becomes empty -/
theorem dfaRun_none_iff (hN : N.WF) (hord : IsOrder ord) (h : nfaToDfa N ord = some D)
    (w : List α) :
    dfaRun D .start w = none ↔
      ∃ (u : List α) (a : α) (v : List α), w = u ++ a :: v ∧
        (∃ q, Path N.edges N.start u q) ∧ ¬ ∃ q, Path N.edges N.start (u ++ [a]) q := by
  constructor
  · intro hr
    obtain ⟨marked, hG⟩ := nfaToDfa_good hN hord h
    rw [← stateOf_startSet N] at hr
    obtain ⟨u, a, v, h1, h2, h3⟩ := hG.run_none hN hord w _ [] (hG.live_start hN) hr
    exact ⟨u, a, v, h1, by simpa using h2, by simpa using h3⟩
  · rintro ⟨u, a, v, rfl, _, h3⟩
    cases hr : dfaRun D .start (u ++ a :: v) with
    | none => rfl
    | some s =>
      exfalso
      obtain ⟨q, hq⟩ := dfaRun_some_path hN hord h hr
      have hq' : Path N.edges N.start ((u ++ [a]) ++ v) q := by simpa using hq
      obtain ⟨m, hm, _⟩ := Path.split hq'
      exact h3 ⟨m, hm⟩

/-- equivalent formulation: the run on `w` dies iff no NFA state is reachable on `w` -/
theorem dfaRun_none_iff_no_path (hN : N.WF) (hord : IsOrder ord) (h : nfaToDfa N ord = some D)
    (w : List α) :
    dfaRun D .start w = none ↔ ¬ ∃ q, Path N.edges N.start w q := by
  constructor
  · intro hr
    obtain ⟨u, a, v, rfl, _, h3⟩ := (dfaRun_none_iff hN hord h w).1 hr
    rintro ⟨q, hq⟩
    have hq' : Path N.edges N.start ((u ++ [a]) ++ v) q := by simpa using hq
    obtain ⟨m, hm, _⟩ := Path.split hq'
    exact h3 ⟨m, hm⟩
  · intro hno
    cases hr : dfaRun D .start w with
    | none => rfl
    | some s => exact absurd (dfaRun_some_path hN hord h hr) hno

/-- the accepting list is exact on every reachable DFA object -/
theorem isAcc_iff (hN : N.WF) (hord : IsOrder ord) (h : nfaToDfa N ord = some D)
    {w : List α} {s : DState} (hr : dfaRun D .start w = some s) :
    D.isAcc s = true ↔ N.acc ∈ label N s := by
  obtain ⟨marked, T, hG, h1, h2⟩ := dfaRun_live hN hord h hr
  subst h1
  rw [label_stateOf]
  exact hG.isAcc T h2.mem

/-- acceptance after a surviving run = an accepting NFA path -/
theorem isAcc_iff_path (hN : N.WF) (hord : IsOrder ord) (h : nfaToDfa N ord = some D)
    {w : List α} {s : DState} (hr : dfaRun D .start w = some s) :
    D.isAcc s = true ↔ Path N.edges N.start w N.acc := by
  rw [isAcc_iff hN hord h hr, dfaRun_some hN hord h hr]
  exact ⟨fun h => h.2, fun h => ⟨hN.acc_lt, h⟩⟩

/-- every row of the table has pairwise distinct labels -/
theorem row_nodup (hN : N.WF) (hord : IsOrder ord) (h : nfaToDfa N ord = some D) (s : DState) :
    ((D.row s).map (·.1)).Nodup := by
  obtain ⟨marked, hG⟩ := nfaToDfa_good hN hord h
  exact hG.row_nodup hord s

end

end CL
