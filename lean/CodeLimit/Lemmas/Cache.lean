import CodeLimit.Spec.Cache
/-!
# Lemmas about the cache model (used by Props/C09 and Props/C10)
-/
set_option linter.unusedSectionVars false

namespace CL
namespace Cache

section
variable {Path Content Hash Entry Excl Version : Type}
variable [DecidableEq Path] [DecidableEq Hash] [DecidableEq Version]
variable (P : Params Path Content Hash Entry Excl Version)

theorem readCachedReport_eq_some {c : CacheFile Path Hash Entry Version}
    {es : List (Path × Hash × Entry)} :
    readCachedReport P c = some es ↔ c = .doc P.cur es := by
  cases c with
  | missing => simp [readCachedReport]
  | junk k => cases k <;> simp [readCachedReport]
  | doc v es' =>
    simp only [readCachedReport]
    split
    · rename_i h; subst h; simp
    · rename_i h; simp [h]

theorem readCachedReport_eq_none {c : CacheFile Path Hash Entry Version} :
    readCachedReport P c = none ↔ ¬ Usable P c := by
  constructor
  · rintro h ⟨es, rfl⟩
    simp [readCachedReport] at h
  · intro h
    cases hc : readCachedReport P c with
    | none => rfl
    | some es => exact absurd ⟨es, (readCachedReport_eq_some P).1 hc⟩ h

theorem lookupLast_mem {es : List (Path × Hash × Entry)} {p : Path} {x : Hash × Entry}
    (h : lookupLast es p = some x) : (p, x) ∈ es := by
  unfold lookupLast at h
  cases hf : es.reverse.find? (fun r => decide (r.1 = p)) with
  | none => simp [hf] at h
  | some r =>
    simp only [hf, Option.map_some, Option.some.injEq] at h
    have hm := List.mem_of_find?_eq_some hf
    have hp := List.find?_some hf
    simp only [decide_eq_true_eq] at hp
    rw [List.mem_reverse] at hm
    rcases r with ⟨q, y⟩
    simp only at hp h
    subst hp; subst h
    exact hm

theorem scanFile_none (f : Path × Content) :
    scanFile P none f = ((f.1, P.hash f.2, P.analyze f.1 f.2), .analysed) := rfl

/-- what a reuse means: the cache is consulted, has an entry under the same path whose checksum
is the checksum of the current content, and that entry's data is copied -/
theorem scanFile_reused_iff {cached : Option (List (Path × Hash × Entry))} {f : Path × Content} :
    (scanFile P cached f).2 = .reused ↔
      ∃ es e, cached = some es ∧ lookupLast es f.1 = some (P.hash f.2, e) ∧
        (scanFile P cached f).1 = (f.1, P.hash f.2, e) := by
  cases cached with
  | none => simp [scanFile]
  | some es =>
    cases hl : lookupLast es f.1 with
    | none => simp [scanFile, hl]
    | some x =>
      rcases x with ⟨h, e⟩
      by_cases hh : h = P.hash f.2
      · subst hh; simp [scanFile, hl]
      · simp [scanFile, hl, hh]

theorem scanFile_analysed_row {cached : Option (List (Path × Hash × Entry))} {f : Path × Content}
    (h : (scanFile P cached f).2 ≠ .reused) :
    (scanFile P cached f).1 = (f.1, P.hash f.2, P.analyze f.1 f.2) := by
  cases cached with
  | none => rfl
  | some es =>
    cases hl : lookupLast es f.1 with
    | none => simp [scanFile, hl]
    | some x =>
      rcases x with ⟨h', e⟩
      by_cases hh : h' = P.hash f.2
      · exfalso; apply h; subst hh; simp [scanFile, hl]
      · simp [scanFile, hl, hh]

theorem scanFile_path (cached : Option (List (Path × Hash × Entry))) (f : Path × Content) :
    (scanFile P cached f).1.1 = f.1 ∧ (scanFile P cached f).1.2.1 = P.hash f.2 := by
  by_cases h : (scanFile P cached f).2 = .reused
  · obtain ⟨es, e, _, _, hr⟩ := (scanFile_reused_iff P).1 h
    simp [hr]
  · simp [scanFile_analysed_row P h]

/-- with honest cached rows every produced row is honest (no injectivity needed) -/
theorem scanFile_honestRow {cached : Option (List (Path × Hash × Entry))}
    (hc : ∀ es, cached = some es → HonestRows P es) (f : Path × Content) :
    ∃ c : Content, (scanFile P cached f).1.2.1 = P.hash c ∧
      (scanFile P cached f).1.2.2 = P.analyze (scanFile P cached f).1.1 c := by
  by_cases h : (scanFile P cached f).2 = .reused
  · obtain ⟨es, e, hes, hl, hr⟩ := (scanFile_reused_iff P).1 h
    obtain ⟨c, h1, h2⟩ := hc es hes _ (lookupLast_mem hl)
    simp only at h1 h2
    exact ⟨c, by rw [hr]; exact h1, by rw [hr]; exact h2⟩
  · exact ⟨f.2, by simp [scanFile_analysed_row P h]⟩

/-- with honest cached rows and a collision-free checksum the row equals the freshly analysed one -/
theorem scanFile_eq_fresh (hinj : Function.Injective P.hash)
    {cached : Option (List (Path × Hash × Entry))}
    (hc : ∀ es, cached = some es → HonestRows P es) (f : Path × Content) :
    (scanFile P cached f).1 = (scanFile P none f).1 := by
  by_cases h : (scanFile P cached f).2 = .reused
  · obtain ⟨es, e, hes, hl, hr⟩ := (scanFile_reused_iff P).1 h
    obtain ⟨c, h1, h2⟩ := hc es hes _ (lookupLast_mem hl)
    simp only at h1 h2
    have : f.2 = c := hinj h1
    subst this
    rw [hr, h2]; rfl
  · rw [scanFile_analysed_row P h]; rfl

theorem inv_cached {s : State Path Content Hash Entry Excl Version} (h : Inv P s) :
    ∀ es, readCachedReport P s.cache = some es → HonestRows P es := by
  intro es hes
  have hd := (readCachedReport_eq_some P).1 hes
  rcases h with h | h
  · exact h _ _ hd
  · exact absurd ⟨es, hd⟩ h

theorem report_eq_fresh_of_inv (hinj : Function.Injective P.hash)
    {s : State Path Content Hash Entry Excl Version} (h : Inv P s) :
    report P s = fresh P s := by
  simp only [report, fresh, scanLog, List.map_map, walk, readCachedReport]
  apply List.map_congr_left
  intro f _
  exact scanFile_eq_fresh P hinj (inv_cached P h) f

theorem report_honest {s : State Path Content Hash Entry Excl Version} (h : Inv P s) :
    HonestRows P (report P s) := by
  intro r hr
  simp only [report, scanLog, List.map_map, List.mem_map, Function.comp] at hr
  obtain ⟨f, _, rfl⟩ := hr
  exact scanFile_honestRow P (inv_cached P h) f

theorem fresh_honest (s : State Path Content Hash Entry Excl Version) :
    HonestRows P (fresh P s) :=
  report_honest P (s := { s with cache := .missing }) (Or.inr (by rintro ⟨es, h⟩; cases h))

theorem report_eq_fresh_of_unusable {s : State Path Content Hash Entry Excl Version}
    (h : ¬ Usable P s.cache) : report P s = fresh P s := by
  have h1 := (readCachedReport_eq_none P).2 h
  unfold report fresh scanLog
  rw [h1]
  rfl

theorem honest_doc_cur {r : List (Path × Hash × Entry)} (h : HonestRows P r) :
    Honest P (.doc P.cur r : CacheFile Path Hash Entry Version) := by
  intro v es he
  cases he
  exact h

/-! ### the file-system operations keep the path list duplicate-free -/

theorem map_fst_map_of_fst {f : Path × Content → Path × Content} (hf : ∀ x, (f x).1 = x.1)
    (l : List (Path × Content)) : (l.map f).map (·.1) = l.map (·.1) := by
  simp [List.map_map, Function.comp, hf]

theorem fsDelete_nodup {fs : List (Path × Content)} (h : (fs.map (·.1)).Nodup) (p : Path) :
    ((fsDelete fs p).map (·.1)).Nodup :=
  List.Nodup.sublist (List.Sublist.map _ List.filter_sublist) h

theorem fsDelete_not_mem (fs : List (Path × Content)) (p : Path) :
    p ∉ (fsDelete fs p).map (·.1) := by
  simp [fsDelete]

theorem fsWrite_nodup {fs : List (Path × Content)} (h : (fs.map (·.1)).Nodup) (p : Path) (c : Content) :
    ((fsWrite fs p c).map (·.1)).Nodup := by
  unfold fsWrite
  split
  · rw [map_fst_map_of_fst]
    · exact h
    · intro x; by_cases hx : x.1 = p <;> simp [hx]
  · rename_i hn
    rw [List.map_append, List.nodup_append]
    refine ⟨h, by simp, ?_⟩
    intro a ha b hb
    simp only [List.map_cons, List.map_nil, List.mem_singleton] at hb
    subst hb
    intro hab; subst hab
    apply hn
    simp only [List.mem_map] at ha
    obtain ⟨x, hx, rfl⟩ := ha
    simp only [List.any_eq_true, decide_eq_true_eq]
    exact ⟨x, hx, rfl⟩

theorem fsRename_nodup {fs : List (Path × Content)} (h : (fs.map (·.1)).Nodup) (a b : Path) :
    ((fsRename fs a b).map (·.1)).Nodup := by
  unfold fsRename
  split
  · exact h
  · split
    · exact h
    · exact fsWrite_nodup (fsDelete_nodup h a) b _

theorem fsSwap_nodup {fs : List (Path × Content)} (h : (fs.map (·.1)).Nodup) (a b : Path) :
    ((fsSwap fs a b).map (·.1)).Nodup := by
  unfold fsSwap
  split
  · rw [map_fst_map_of_fst]
    · exact h
    · intro x
      by_cases hx : x.1 = a
      · simp [hx]
      · by_cases hy : x.1 = b
        · have hba : ¬ b = a := hy ▸ hx
          simp [hy, hba]
        · simp [hx, hy]
  · exact h

end
end Cache
end CL
