import CodeLimit.Lemmas.LayoutFacts
/-!
# `get_blocks`: brace blocks are non-empty, inside the file, sorted and properly bracketed

Also: what `sorted(...)` by token location does to lists that are (or are not yet) sorted by
token index (`sortAsc_sorted`, `sortDesc_sorted`, `sortAsc_strict`).
-/
namespace CL

/-! ## sorting by location -/

/-- `sorted(xs, key=...)`: a permutation, ascending in the key -/
theorem sortAsc_spec {γ : Type} {toks : List Tok} {start : γ → Nat} {xs ys : List γ}
    (h : sortAsc toks start xs = .ok ys) :
    ys.Perm xs ∧ ys.Pairwise (fun a b => ∃ ka kb, posKey toks (start a) = .ok ka ∧
      posKey toks (start b) = .ok kb ∧ keyLe ka kb = true) := by
  unfold sortAsc at h
  split at h
  · cases h
  · rename_i ks hk
    cases h
    obtain ⟨h1, h2⟩ := withKeys_spec toks start xs ks hk
    have hperm := List.mergeSort_perm ks (fun a b => keyLe a.1 b.1)
    refine ⟨h1 ▸ hperm.map (·.2), ?_⟩
    rw [List.pairwise_map]
    have hpw := List.pairwise_mergeSort (le := fun a b : (Nat × Nat) × γ => keyLe a.1 b.1)
      (fun a b c h1 h2 => keyLe_trans _ _ _ h1 h2) (fun a b => keyLe_total _ _) ks
    refine List.Pairwise.imp_of_mem ?_ hpw
    intro a b ha hb hab
    exact ⟨a.1, b.1, h2 a (hperm.mem_iff.mp ha), h2 b (hperm.mem_iff.mp hb), hab⟩

theorem withKeys_ok_L {γ : Type} (toks : List Tok) (start : γ → Nat) :
    ∀ (xs : List γ), (∀ x ∈ xs, start x < toks.length) → ∃ ks, withKeys toks start xs = .ok ks
  | [], _ => ⟨[], rfl⟩
  | x :: xs, h => by
    obtain ⟨r, hr⟩ := withKeys_ok_L toks start xs (fun y hy => h y (List.mem_cons_of_mem _ hy))
    have hx := h x List.mem_cons_self
    have : posKey toks (start x) = .ok (toks[start x].line, toks[start x].col) := by
      unfold posKey
      rw [List.getElem?_eq_getElem hx]
    exact ⟨((toks[start x].line, toks[start x].col), x) :: r, by simp only [withKeys, this, hr]⟩

theorem sortAsc_ok_L {γ : Type} (toks : List Tok) (start : γ → Nat) (xs : List γ)
    (h : ∀ x ∈ xs, start x < toks.length) : ∃ ys, sortAsc toks start xs = .ok ys := by
  obtain ⟨ks, hk⟩ := withKeys_ok_L toks start xs h
  exact ⟨_, by unfold sortAsc; rw [hk]⟩

theorem sortDesc_ok_L {γ : Type} (toks : List Tok) (start : γ → Nat) (xs : List γ)
    (h : ∀ x ∈ xs, start x < toks.length) : ∃ ys, sortDesc toks start xs = .ok ys := by
  obtain ⟨ks, hk⟩ := withKeys_ok_L toks start xs h
  exact ⟨_, by unfold sortDesc; rw [hk]⟩

/-- with strictly increasing token locations, sorting elements with pairwise distinct start
tokens by location sorts them strictly by token index -/
theorem sortAsc_strict {γ : Type} {toks : List Tok} (hpos : PosSorted toks) {start : γ → Nat}
    {xs ys : List γ} (hnd : xs.Pairwise (fun a b => start a ≠ start b))
    (h : sortAsc toks start xs = .ok ys) :
    ys.Perm xs ∧ ys.Pairwise (fun a b => start a < start b) := by
  obtain ⟨hperm, hpw⟩ := sortAsc_spec h
  refine ⟨hperm, ?_⟩
  have hnd' : ys.Pairwise (fun a b => start a ≠ start b) :=
    hnd.perm hperm.symm (fun h => Ne.symm h)
  refine (hpw.and hnd').imp ?_
  rintro a b ⟨⟨ka, kb, hka, hkb, hle⟩, hne⟩
  by_cases hlt : start b < start a
  · rw [posKey_lt hpos hkb hka hlt] at hle; cases hle
  · omega

theorem sortDesc_strict {γ : Type} {toks : List Tok} (hpos : PosSorted toks) {start : γ → Nat}
    {xs ys : List γ} (hnd : xs.Pairwise (fun a b => start a ≠ start b))
    (h : sortDesc toks start xs = .ok ys) :
    ys.Perm xs ∧ ys.Pairwise (fun a b => start b < start a) := by
  obtain ⟨hperm, hpw⟩ := sortDesc_spec h
  refine ⟨hperm, ?_⟩
  have hnd' : ys.Pairwise (fun a b => start a ≠ start b) :=
    hnd.perm hperm.symm (fun h => Ne.symm h)
  refine (hpw.and hnd').imp ?_
  rintro a b ⟨⟨ka, kb, hka, hkb, hle⟩, hne⟩
  by_cases hlt : start a < start b
  · rw [posKey_lt hpos hka hkb hlt] at hle; cases hle
  · omega

/-- sorting by location a list that is strictly sorted by token index changes nothing -/
theorem sortAsc_sorted {γ : Type} {toks : List Tok} (hpos : PosSorted toks) {start : γ → Nat}
    {xs : List γ} (hs : xs.Pairwise (fun a b => start a < start b))
    (hin : ∀ x ∈ xs, start x < toks.length) : sortAsc toks start xs = .ok xs := by
  obtain ⟨ys, hy⟩ := sortAsc_ok_L toks start xs hin
  obtain ⟨hperm, hpw⟩ := sortAsc_strict hpos (hs.imp (fun h => Nat.ne_of_lt h)) hy
  rw [hy]
  congr 1
  exact List.Perm.eq_of_pairwise (le := fun a b => start a < start b)
    (fun a b _ _ h1 h2 => absurd h1 (Nat.lt_asymm h2)) hpw hs hperm

/-- sorting it in descending order reverses it -/
theorem sortDesc_sorted {γ : Type} {toks : List Tok} (hpos : PosSorted toks) {start : γ → Nat}
    {xs : List γ} (hs : xs.Pairwise (fun a b => start a < start b))
    (hin : ∀ x ∈ xs, start x < toks.length) : sortDesc toks start xs = .ok xs.reverse := by
  obtain ⟨ys, hy⟩ := sortDesc_ok_L toks start xs hin
  obtain ⟨hperm, hpw⟩ := sortDesc_strict hpos (hs.imp (fun h => Nat.ne_of_lt h)) hy
  rw [hy]
  congr 1
  exact List.Perm.eq_of_pairwise (le := fun a b => start b < start a)
    (fun a b _ _ h1 h2 => absurd h1 (Nat.lt_asymm h2)) hpw (List.pairwise_reverse.mpr hs)
    (hperm.trans (List.reverse_perm xs).symm)

/-- sorting by location yields THE arrangement of the elements that is strictly sorted by token
index (used to evaluate `sorted(...)` on concrete data: `List.mergeSort` does not reduce in the
kernel) -/
theorem sortAsc_eq_of_perm {γ : Type} {toks : List Tok} (hpos : PosSorted toks) {start : γ → Nat}
    {xs ys : List γ} (hperm : ys.Perm xs) (hs : ys.Pairwise (fun a b => start a < start b))
    (hin : ∀ x ∈ xs, start x < toks.length) : sortAsc toks start xs = .ok ys := by
  obtain ⟨zs, hz⟩ := sortAsc_ok_L toks start xs hin
  have hnd : xs.Pairwise (fun a b => start a ≠ start b) :=
    (hs.imp (fun h => Nat.ne_of_lt h)).perm hperm (fun h => Ne.symm h)
  obtain ⟨hzperm, hzs⟩ := sortAsc_strict hpos hnd hz
  rw [hz]
  congr 1
  exact List.Perm.eq_of_pairwise (le := fun a b => start a < start b)
    (fun a b _ _ h1 h2 => absurd h1 (Nat.lt_asymm h2)) hzs hs (hzperm.trans hperm.symm)

/-- sorting in descending order yields THE arrangement that is strictly descending by token
index -/
theorem sortDesc_eq_of_perm {γ : Type} {toks : List Tok} (hpos : PosSorted toks) {start : γ → Nat}
    {xs ys : List γ} (hperm : ys.Perm xs) (hs : ys.Pairwise (fun a b => start b < start a))
    (hin : ∀ x ∈ xs, start x < toks.length) : sortDesc toks start xs = .ok ys := by
  obtain ⟨zs, hz⟩ := sortDesc_ok_L toks start xs hin
  have hnd : xs.Pairwise (fun a b => start a ≠ start b) :=
    (hs.imp (fun h => Nat.ne_of_gt h)).perm hperm (fun h => Ne.symm h)
  obtain ⟨hzperm, hzs⟩ := sortDesc_strict hpos hnd hz
  rw [hz]
  congr 1
  exact List.Perm.eq_of_pairwise (le := fun a b => start b < start a)
    (fun a b _ _ h1 h2 => absurd h1 (Nat.lt_asymm h2)) hzs hs (hzperm.trans hperm.symm)

/-! ## balanced pairs -/

/-- invariant of the bracket matcher: `st` = the indices of the currently open brackets,
innermost first.  Every reported pair closes at or after `i` and was opened either at an index
on the stack or at or after `i`; pairs come out ordered by their closing bracket, and a later
pair either starts after an earlier one has ended or starts before it started. -/
theorem balancedPairs_spec (op cl : Str) :
    ∀ (ts : List Tok) (i : Nat) (st : List Nat), st.Pairwise (fun a b => b < a) →
      (∀ s ∈ st, s < i) →
      (∀ p ∈ balancedPairs op cl ts i st,
          p.1 < p.2 ∧ i ≤ p.2 ∧ p.2 < i + ts.length ∧ (p.1 ∈ st ∨ i ≤ p.1)) ∧
      (balancedPairs op cl ts i st).Pairwise (fun p q => p.2 < q.2 ∧ (p.2 < q.1 ∨ q.1 < p.1))
  | [], i, st, _, _ => by simp [balancedPairs]
  | t :: ts, i, st, hst, hlt => by
    unfold balancedPairs
    split
    · -- opening bracket
      have ih := balancedPairs_spec op cl ts (i + 1) (i :: st)
        (List.pairwise_cons.mpr ⟨fun s hs => hlt s hs, hst⟩)
        (fun s hs => by
          rcases List.mem_cons.mp hs with rfl | hs
          · omega
          · have := hlt s hs; omega)
      refine ⟨fun p hp => ?_, ih.2⟩
      obtain ⟨h1, h2, h3, h4⟩ := ih.1 p hp
      refine ⟨h1, by omega, by simp only [List.length_cons]; omega, ?_⟩
      rcases h4 with h4 | h4
      · rcases List.mem_cons.mp h4 with h4 | h4
        · exact .inr (by omega)
        · exact .inl h4
      · exact .inr (by omega)
    · split
      · -- closing bracket
        split
        · have ih := balancedPairs_spec op cl ts (i + 1) [] List.Pairwise.nil
            (fun s hs => by cases hs)
          refine ⟨fun p hp => ?_, ih.2⟩
          obtain ⟨h1, h2, h3, h4⟩ := ih.1 p hp
          refine ⟨h1, by omega, by simp only [List.length_cons]; omega, ?_⟩
          rcases h4 with h4 | h4
          · cases h4
          · exact .inr (by omega)
        · rename_i s st'
          have hs := List.pairwise_cons.mp hst
          have ih := balancedPairs_spec op cl ts (i + 1) st' hs.2
            (fun x hx => by have := hlt x (List.mem_cons_of_mem _ hx); omega)
          have hsi := hlt s List.mem_cons_self
          constructor
          · intro p hp
            rcases List.mem_cons.mp hp with rfl | hp
            · exact ⟨hsi, Nat.le_refl _, by simp only [List.length_cons]; omega,
                .inl List.mem_cons_self⟩
            · obtain ⟨h1, h2, h3, h4⟩ := ih.1 p hp
              refine ⟨h1, by omega, by simp only [List.length_cons]; omega, ?_⟩
              rcases h4 with h4 | h4
              · exact .inl (List.mem_cons_of_mem _ h4)
              · exact .inr (by omega)
          · refine List.pairwise_cons.mpr ⟨fun q hq => ?_, ih.2⟩
            obtain ⟨h1, h2, h3, h4⟩ := ih.1 q hq
            refine ⟨by simp only; omega, ?_⟩
            rcases h4 with h4 | h4
            · exact .inr (hs.1 q.1 h4)
            · exact .inl (by simp only; omega)
      · -- any other token
        have ih := balancedPairs_spec op cl ts (i + 1) st hst
          (fun s hs => by have := hlt s hs; omega)
        refine ⟨fun p hp => ?_, ih.2⟩
        obtain ⟨h1, h2, h3, h4⟩ := ih.1 p hp
        refine ⟨h1, by omega, by simp only [List.length_cons]; omega, ?_⟩
        rcases h4 with h4 | h4
        · exact .inl h4
        · exact .inr (by omega)

/-- two ranges are disjoint or one is strictly inside the other -/
def Range.Bracketed (a b : Range) : Prop :=
  a.e ≤ b.s ∨ b.e ≤ a.s ∨ (a.s < b.s ∧ b.e < a.e) ∨ (b.s < a.s ∧ a.e < b.e)

/-- the ranges produced from the balanced pairs, before sorting -/
theorem balancedRanges_spec (op cl : Str) (toks : List Tok) :
    let rs := (balancedPairs op cl toks 0 []).map (fun p => (⟨p.1, p.2 + 1⟩ : Range))
    (∀ b ∈ rs, b.s + 1 < b.e ∧ b.e ≤ toks.length) ∧ rs.Pairwise Range.Bracketed ∧
      rs.Pairwise (fun a b => a.s ≠ b.s) := by
  obtain ⟨h1, h2⟩ := balancedPairs_spec op cl toks 0 [] List.Pairwise.nil (fun s hs => by cases hs)
  refine ⟨?_, ?_, ?_⟩
  · intro b hb
    obtain ⟨p, hp, rfl⟩ := List.mem_map.mp hb
    have := h1 p hp
    simp only
    omega
  · rw [List.pairwise_map]
    refine List.Pairwise.imp_of_mem ?_ h2
    intro p q hp hq h
    have := h1 p hp
    have := h1 q hq
    unfold Range.Bracketed
    simp only
    omega
  · rw [List.pairwise_map]
    refine List.Pairwise.imp_of_mem ?_ h2
    intro p q hp hq h
    have := h1 p hp
    have := h1 q hq
    simp only
    omega

/-- **brace blocks are well-formed**: every block found by `get_blocks` is a range of at least
two tokens inside the file; if token locations strictly increase, the blocks are listed
strictly by their first token and a later block is disjoint from or strictly inside an
earlier one -/
theorem getBlocks_spec_L {code : List Tok} {bs : List Range} (h : getBlocks code = .ok bs) :
    (∀ b ∈ bs, b.s + 1 < b.e ∧ b.e ≤ code.length) ∧
    (PosSorted code → bs.Pairwise (fun a b => a.s < b.s) ∧
      bs.Pairwise (fun a b => a.e ≤ b.s ∨ b.e < a.e)) := by
  unfold getBlocks at h
  obtain ⟨h1, h2, h3⟩ := balancedRanges_spec [123] [125] code
  obtain ⟨hperm, _⟩ := sortAsc_spec h
  refine ⟨fun b hb => h1 b (hperm.mem_iff.mp hb), fun hpos => ?_⟩
  obtain ⟨_, hsorted⟩ := sortAsc_strict hpos h3 h
  refine ⟨hsorted, ?_⟩
  have hbr : bs.Pairwise Range.Bracketed :=
    h2.perm hperm.symm (fun {a b} h => by unfold Range.Bracketed at h ⊢; omega)
  have hok : bs.Pairwise (fun a b => a.s < a.e ∧ b.s < b.e) :=
    List.Pairwise.imp_of_mem (R := fun _ _ => True)
      (fun {a b} ha hb _ => by
        have := h1 a (hperm.mem_iff.mp ha); have := h1 b (hperm.mem_iff.mp hb); omega)
      (List.pairwise_of_forall (fun _ _ => trivial))
  refine ((hsorted.and hbr).and hok).imp ?_
  rintro a b ⟨⟨hlt, hb⟩, hab⟩
  unfold Range.Bracketed at hb
  omega

end CL
